/-
Helper lemmas for C11 (no property statements).

Part 1: the generic registry. A registry fed with a sequence of entries (`orig o` / `ext e`) from the empty map ends,
when no key receives two originals, in the closed form `group`: the keys in order of first occurrence, each with
its (unique) original and the list of its extensions in feeding order.
-/
import NitroVerif.Model.ExtResolve
import NitroVerif.Spec.ExtMerge
set_option linter.unusedSimpArgs false
set_option linter.unusedSectionVars false
namespace NitroVerif.ExtResolve
open NitroVerif.Gql

/-- what is fed to one registry -/
inductive Entry (O E : Type) where
  | orig (o : O)
  | ext (e : E)

section generic
variable {K O E : Type} [DecidableEq K] (kO : O → K) (kE : E → K)

def Entry.key : Entry O E → K
  | .orig o => kO o
  | .ext e => kE e

def origsOf (k : K) (ops : List (Entry O E)) : List O :=
  ops.filterMap fun | .orig o => if kO o = k then some o else none | .ext _ => none

def extsOf (k : K) (ops : List (Entry O E)) : List E :=
  ops.filterMap fun | .ext e => if kE e = k then some e else none | .orig _ => none

def addKey (acc : List K) (k : K) : List K := if k ∈ acc then acc else acc ++ [k]

/-- keys in order of first occurrence -/
def firstKeys (ks : List K) : List K := ks.foldl addKey []

def mkItem (ops : List (Entry O E)) (k : K) : ExtItem K O E :=
  ⟨k, (origsOf kO k ops).head?, extsOf kE k ops⟩

def group (ops : List (Entry O E)) : ExtList K O E :=
  (firstKeys (ops.map (Entry.key kO kE))).map (mkItem kO kE ops)

def applyEntry (l : ExtList K O E) : Entry O E → Except O (ExtList K O E)
  | .orig o => setOriginal l (kO o) o
  | .ext e => .ok (addExtension l (kE e) e)

def runFrom (l : ExtList K O E) : List (Entry O E) → Except O (ExtList K O E)
  | [] => .ok l
  | op :: ops =>
    match applyEntry kO kE l op with
    | .ok l' => runFrom l' ops
    | .error f => .error f

/-! #### firstKeys -/

theorem mem_foldl_addKey (ks : List K) : ∀ (acc : List K) (k : K), k ∈ ks.foldl addKey acc ↔ k ∈ acc ∨ k ∈ ks := by
  induction ks with
  | nil => simp
  | cons a ks ih =>
    intro acc k
    simp only [List.foldl_cons, ih, List.mem_cons]
    unfold addKey
    split <;> rename_i h
    · constructor
      · rintro (h1 | h1)
        · exact Or.inl h1
        · exact Or.inr (Or.inr h1)
      · rintro (h1 | h1 | h1)
        · exact Or.inl h1
        · exact Or.inl (h1 ▸ h)
        · exact Or.inr h1
    · simp only [List.mem_append, List.mem_singleton]
      constructor
      · rintro ((h1 | h1) | h1)
        · exact Or.inl h1
        · exact Or.inr (Or.inl h1)
        · exact Or.inr (Or.inr h1)
      · rintro (h1 | h1 | h1)
        · exact Or.inl (Or.inl h1)
        · exact Or.inl (Or.inr h1)
        · exact Or.inr h1

theorem mem_firstKeys {ks : List K} {k : K} : k ∈ firstKeys ks ↔ k ∈ ks := by
  simp [firstKeys, mem_foldl_addKey]

theorem nodup_foldl_addKey (ks : List K) : ∀ acc : List K, acc.Nodup → (ks.foldl addKey acc).Nodup := by
  induction ks with
  | nil => simp
  | cons a ks ih =>
    intro acc h
    apply ih
    unfold addKey
    split <;> rename_i h1
    · exact h
    · rw [List.nodup_append]
      refine ⟨h, by simp, ?_⟩
      intro x hx y hy
      simp at hy
      subst hy
      intro e
      exact h1 (e ▸ hx)

theorem nodup_firstKeys (ks : List K) : (firstKeys ks).Nodup := nodup_foldl_addKey ks [] (by simp)

theorem firstKeys_snoc (ks : List K) (k : K) : firstKeys (ks ++ [k]) = addKey (firstKeys ks) k := by
  simp [firstKeys, List.foldl_append]

theorem find?_foldl_addKey (p : K → Bool) (ks : List K) :
    ∀ acc : List K, (ks.foldl addKey acc).find? p = (acc.find? p).or (ks.find? p) := by
  induction ks with
  | nil => simp
  | cons a ks ih =>
    intro acc
    simp only [List.foldl_cons, ih]
    unfold addKey
    split <;> rename_i h
    · by_cases hp : p a = true
      · have : (acc.find? p).isSome := by
          rw [List.find?_isSome]; exact ⟨a, h, hp⟩
        cases hf : acc.find? p with
        | none => simp [hf] at this
        | some x => simp
      · simp [List.find?_cons, hp]
    · rw [List.find?_append]
      by_cases hp : p a = true
      · cases hf : acc.find? p <;> simp [List.find?_cons, hp]
      · cases hf : acc.find? p <;> simp [List.find?_cons, hp]

theorem find?_firstKeys (p : K → Bool) (ks : List K) : (firstKeys ks).find? p = ks.find? p := by
  simp [firstKeys, find?_foldl_addKey]

/-! #### one operation on a registry given as `ks.map f` -/

theorem addExtension_map (f : K → ExtItem K O E) (hf : ∀ k, (f k).key = k) (k : K) (e : E) :
    ∀ ks : List K, ks.Nodup →
      addExtension (ks.map f) k e =
        if k ∈ ks then ks.map (fun k' => if k' = k then ⟨k', (f k').original, (f k').extensions ++ [e]⟩ else f k')
        else ks.map f ++ [⟨k, none, [e]⟩] := by
  intro ks
  induction ks with
  | nil => intro _; simp [addExtension]
  | cons a ks ih =>
    intro hnd
    rw [List.nodup_cons] at hnd
    simp only [List.map_cons, addExtension, hf]
    by_cases hak : a = k
    · subst hak
      have : ks.map (fun k' => if k' = a then ⟨k', (f k').original, (f k').extensions ++ [e]⟩ else f k') = ks.map f := by
        apply List.map_congr_left
        intro x hx
        have : x ≠ a := fun h => hnd.1 (h ▸ hx)
        simp [this]
      simp [this]
    · have hka : ¬ k = a := fun h => hak h.symm
      simp only [hak, if_false, ih hnd.2, List.mem_cons, hka, false_or]
      split <;> simp

theorem setOriginal_map (f : K → ExtItem K O E) (hf : ∀ k, (f k).key = k) (k : K) (o : O) :
    ∀ ks : List K, ks.Nodup →
      setOriginal (ks.map f) k o =
        if k ∈ ks then
          (match (f k).original with
           | some first => .error first
           | none => .ok (ks.map (fun k' => if k' = k then ⟨k', some o, (f k').extensions⟩ else f k')))
        else .ok (ks.map f ++ [⟨k, some o, []⟩]) := by
  intro ks
  induction ks with
  | nil => intro _; simp [setOriginal]
  | cons a ks ih =>
    intro hnd
    rw [List.nodup_cons] at hnd
    simp only [List.map_cons, setOriginal, hf]
    by_cases hak : a = k
    · subst hak
      have : ks.map (fun k' => if k' = a then ⟨k', some o, (f k').extensions⟩ else f k') = ks.map f := by
        apply List.map_congr_left
        intro x hx
        have : x ≠ a := fun h => hnd.1 (h ▸ hx)
        simp [this]
      simp only [if_true, List.mem_cons, true_or, this]
      cases (f a).original <;> simp
    · have hka : ¬ k = a := fun h => hak h.symm
      simp only [hak, if_false, ih hnd.2, List.mem_cons, hka, false_or]
      by_cases hmem : k ∈ ks
      · simp only [hmem, if_true]
        cases (f k).original <;> simp
      · simp [hmem]

/-! #### the closed form is preserved by feeding one more entry -/

theorem origsOf_snoc_ext (k : K) (ops : List (Entry O E)) (e : E) :
    origsOf kO k (ops ++ [.ext e]) = origsOf kO k ops := by
  simp [origsOf, List.filterMap_append]

theorem origsOf_snoc_orig (k : K) (ops : List (Entry O E)) (o : O) :
    origsOf kO k (ops ++ [.orig o]) = origsOf kO k ops ++ (if kO o = k then [o] else []) := by
  by_cases h : kO o = k <;> simp [origsOf, List.filterMap_append, h]

theorem extsOf_snoc_orig (k : K) (ops : List (Entry O E)) (o : O) :
    extsOf kE k (ops ++ [.orig o]) = extsOf kE k ops := by
  simp [extsOf, List.filterMap_append]

theorem extsOf_snoc_ext (k : K) (ops : List (Entry O E)) (e : E) :
    extsOf kE k (ops ++ [.ext e]) = extsOf kE k ops ++ (if kE e = k then [e] else []) := by
  by_cases h : kE e = k <;> simp [extsOf, List.filterMap_append, h]

theorem origsOf_eq_nil_of_not_mem {k : K} {ops : List (Entry O E)} (h : k ∉ ops.map (Entry.key kO kE)) :
    origsOf kO k ops = [] := by
  simp only [origsOf, List.filterMap_eq_nil_iff]
  intro op hop
  cases op with
  | ext e => rfl
  | orig o =>
    have : kO o ≠ k := fun heq => h (List.mem_map.mpr ⟨_, hop, by simpa [Entry.key] using heq⟩)
    simp [this]

theorem extsOf_eq_nil_of_not_mem {k : K} {ops : List (Entry O E)} (h : k ∉ ops.map (Entry.key kO kE)) :
    extsOf kE k ops = [] := by
  simp only [extsOf, List.filterMap_eq_nil_iff]
  intro op hop
  cases op with
  | orig o => rfl
  | ext e =>
    have : kE e ≠ k := fun heq => h (List.mem_map.mpr ⟨_, hop, by simpa [Entry.key] using heq⟩)
    simp [this]

theorem addExtension_group (ops : List (Entry O E)) (e : E) :
    addExtension (group kO kE ops) (kE e) e = group kO kE (ops ++ [.ext e]) := by
  unfold group
  rw [addExtension_map _ (fun _ => rfl) _ _ _ (nodup_firstKeys _)]
  simp only [List.map_append, List.map_cons, List.map_nil, Entry.key, firstKeys_snoc]
  unfold addKey
  split <;> rename_i h
  · apply List.map_congr_left
    intro k' _
    simp only [mkItem, origsOf_snoc_ext, extsOf_snoc_ext]
    by_cases hk : k' = kE e
    · subst hk; simp
    · have : ¬ kE e = k' := fun h => hk h.symm
      simp [hk, this]
  · rw [List.map_append]
    congr 1
    · apply List.map_congr_left
      intro k' hk'
      have hne : ¬ kE e = k' := fun heq => h (heq ▸ hk')
      simp [mkItem, origsOf_snoc_ext, extsOf_snoc_ext, hne]
    · have hn : kE e ∉ ops.map (Entry.key kO kE) := fun hm => h (mem_firstKeys.mpr hm)
      simp [mkItem, origsOf_snoc_ext, extsOf_snoc_ext, origsOf_eq_nil_of_not_mem kO kE hn,
        extsOf_eq_nil_of_not_mem kO kE hn]

theorem setOriginal_group (ops : List (Entry O E)) (o : O) :
    setOriginal (group kO kE ops) (kO o) o =
      match (origsOf kO (kO o) ops).head? with
      | some first => .error first
      | none => .ok (group kO kE (ops ++ [.orig o])) := by
  unfold group
  rw [setOriginal_map _ (fun _ => rfl) _ _ _ (nodup_firstKeys _)]
  simp only [List.map_append, List.map_cons, List.map_nil, Entry.key, firstKeys_snoc]
  unfold addKey
  split <;> rename_i h
  · simp only [mkItem]
    cases hh : (origsOf kO (kO o) ops).head? with
    | some first => rfl
    | none =>
      simp only
      congr 1
      apply List.map_congr_left
      intro k' _
      simp only [mkItem, origsOf_snoc_orig, extsOf_snoc_orig]
      by_cases hk : k' = kO o
      · subst hk
        have : origsOf kO (kO o) ops = [] := by simpa using hh
        simp [this]
      · have : ¬ kO o = k' := fun h => hk h.symm
        simp [hk, this]
  · have hn : kO o ∉ ops.map (Entry.key kO kE) := fun hm => h (mem_firstKeys.mpr hm)
    simp only [origsOf_eq_nil_of_not_mem kO kE hn, List.head?_nil]
    congr 1
    rw [List.map_append]
    congr 1
    · apply List.map_congr_left
      intro k' hk'
      have hne : ¬ kO o = k' := fun heq => h (heq ▸ hk')
      simp [mkItem, origsOf_snoc_orig, extsOf_snoc_orig, hne]
    · simp [mkItem, origsOf_snoc_orig, extsOf_snoc_orig, origsOf_eq_nil_of_not_mem kO kE hn,
        extsOf_eq_nil_of_not_mem kO kE hn]

/-! #### feeding a whole sequence -/

/-- the keys of the originals fed, in order -/
def origKeys (ops : List (Entry O E)) : List K :=
  ops.filterMap fun | .orig o => some (kO o) | .ext _ => none

/-- the extensions fed, in order -/
def extsAll (ops : List (Entry O E)) : List E :=
  ops.filterMap fun | .ext e => some e | .orig _ => none

/-- the originals fed, in order -/
def origsAll (ops : List (Entry O E)) : List O :=
  ops.filterMap fun | .orig o => some o | .ext _ => none

theorem origKeys_eq_map (ops : List (Entry O E)) : origKeys kO ops = (origsAll ops).map kO := by
  induction ops with
  | nil => rfl
  | cons op ops ih => cases op <;> simp_all [origKeys, origsAll]

theorem origsOf_eq_filter (k : K) (ops : List (Entry O E)) :
    origsOf kO k ops = (origsAll ops).filter (fun o => kO o = k) := by
  induction ops with
  | nil => rfl
  | cons op ops ih =>
    cases op with
    | ext e => simpa [origsOf, origsAll] using ih
    | orig o =>
      by_cases h : kO o = k
      · simpa [origsOf, origsAll, h, List.filter_cons] using ih
      · simpa [origsOf, origsAll, h, List.filter_cons] using ih

theorem extsOf_eq_filter (k : K) (ops : List (Entry O E)) :
    extsOf kE k ops = (extsAll ops).filter (fun e => kE e = k) := by
  induction ops with
  | nil => rfl
  | cons op ops ih =>
    cases op with
    | orig o => simpa [extsOf, extsAll] using ih
    | ext e =>
      by_cases h : kE e = k
      · simpa [extsOf, extsAll, h, List.filter_cons] using ih
      · simpa [extsOf, extsAll, h, List.filter_cons] using ih

theorem origsOf_eq_nil_iff (k : K) (ops : List (Entry O E)) : origsOf kO k ops = [] ↔ k ∉ origKeys kO ops := by
  rw [origsOf_eq_filter, origKeys_eq_map, List.filter_eq_nil_iff]
  simp only [List.mem_map, decide_eq_true_eq, not_exists, not_and]

theorem group_nil : group kO kE ([] : List (Entry O E)) = [] := by
  simp [group, firstKeys]

theorem runFrom_group (ops : List (Entry O E)) :
    ∀ pre : List (Entry O E), (origKeys kO pre).Nodup →
      (∀ l, runFrom kO kE (group kO kE pre) ops = .ok l →
          l = group kO kE (pre ++ ops) ∧ (origKeys kO (pre ++ ops)).Nodup) ∧
      ((origKeys kO (pre ++ ops)).Nodup → runFrom kO kE (group kO kE pre) ops = .ok (group kO kE (pre ++ ops))) := by
  induction ops with
  | nil => intro pre h; simp [runFrom, h]
  | cons op ops ih =>
    intro pre hpre
    have happ : pre ++ op :: ops = (pre ++ [op]) ++ ops := by simp
    cases op with
    | ext e =>
      have hk : origKeys kO (pre ++ [Entry.ext e]) = origKeys kO pre := by simp [origKeys, List.filterMap_append]
      have := ih (pre ++ [.ext e]) (hk ▸ hpre)
      simp only [runFrom, applyEntry, addExtension_group]
      rw [happ]
      exact this
    | orig o =>
      have hk : origKeys kO (pre ++ [Entry.orig o]) = origKeys kO pre ++ [kO o] := by
        simp [origKeys, List.filterMap_append]
      simp only [runFrom, applyEntry, setOriginal_group]
      cases hh : (origsOf kO (kO o) pre).head? with
      | none =>
        have hnil : origsOf kO (kO o) pre = [] := by simpa using hh
        have hnm := (origsOf_eq_nil_iff kO (kO o) pre).mp hnil
        have hnd : (origKeys kO (pre ++ [Entry.orig o])).Nodup := by
          rw [hk, List.nodup_append]
          refine ⟨hpre, by simp, ?_⟩
          intro a ha b hb
          simp at hb
          subst hb
          exact fun e => hnm (e ▸ ha)
        have := ih (pre ++ [.orig o]) hnd
        simp only
        rw [happ]
        exact this
      | some first =>
        simp only
        refine ⟨fun l h => by simp at h, fun hnd => ?_⟩
        exfalso
        have hne : origsOf kO (kO o) pre ≠ [] := by
          intro h; rw [h] at hh; simp at hh
        have hm : kO o ∈ origKeys kO pre := by
          apply Classical.byContradiction
          intro hc
          exact hne ((origsOf_eq_nil_iff kO (kO o) pre).mpr hc)
        rw [happ] at hnd
        have hnd2 : (origKeys kO (pre ++ [Entry.orig o])).Nodup := by
          have : origKeys kO (pre ++ [Entry.orig o] ++ ops) = origKeys kO (pre ++ [Entry.orig o]) ++ origKeys kO ops := by
            simp [origKeys, List.filterMap_append]
          rw [this, List.nodup_append] at hnd
          exact hnd.1
        rw [hk, List.nodup_append] at hnd2
        exact hnd2.2.2 _ hm _ (by simp) rfl

/-- a registry fed from empty succeeds iff no key receives two originals, and then it is the closed form -/
theorem run_ok_iff (ops : List (Entry O E)) (l : ExtList K O E) :
    runFrom kO kE [] ops = .ok l ↔ (origKeys kO ops).Nodup ∧ l = group kO kE ops := by
  have h := runFrom_group kO kE ops [] (by simp [origKeys])
  rw [group_nil] at h
  simp only [List.nil_append] at h
  constructor
  · intro hr
    have := h.1 l hr
    exact ⟨this.2, this.1⟩
  · rintro ⟨hnd, rfl⟩
    exact h.2 hnd

end generic
end NitroVerif.ExtResolve
