/-
The alternatives of the `Value` rule of the GENERATED grammar (helper lemmas for Props/C07 `render_parse_value`): which
alternative fails on which first character, and the scalar alternatives (variable, number, string, keyword, enum value)
on their canonical text. `Value = Variable | IntValue | FloatValue | StringValue | BooleanValue | NullValue | EnumValue |
ListValue | ObjectValue` is an ordered choice: for each kind every earlier alternative is shown to FAIL.
-/
import NitroVerif.Lemmas.ParseNum
import NitroVerif.Lemmas.ParseString
import NitroVerif.Lemmas.TypeRoundTrip
namespace NitroVerif.ValueParse
open NitroVerif.Peg NitroVerif.Gen NitroVerif.Build NitroVerif.TypeParse NitroVerif.StringParse NitroVerif.ParseText
open NitroVerif.Spec.Lex

theorem look_Value : gList.look R.Value = some (.normal,
    .choice (.call R.Variable) (.choice (.call R.IntValue) (.choice (.call R.FloatValue) (.choice (.call R.StringValue)
      (.choice (.call R.BooleanValue) (.choice (.call R.NullValue) (.choice (.call R.EnumValue)
        (.choice (.call R.ListValue) (.call R.ObjectValue))))))))) := rfl
theorem look_Variable : gList.look R.Variable = some (.normal, .seq (.str ['$']) (.call R.Name)) := rfl
theorem look_BooleanValue : gList.look R.BooleanValue =
    some (.normal, .choice (.call R.KEYWORD_true) (.call R.KEYWORD_false)) := rfl
theorem look_NullValue : gList.look R.NullValue = some (.normal, .call R.KEYWORD_null) := rfl
theorem look_EnumValue : gList.look R.EnumValue = some (.normal,
    .seq (.not (.choice (.call R.KEYWORD_true) (.choice (.call R.KEYWORD_false) (.call R.KEYWORD_null)))) (.call R.Name)) := rfl
theorem look_KEYWORD_true : gList.look R.KEYWORD_true =
    some (.atomic, .seq (.str ['t', 'r', 'u', 'e']) (.not (.call R.NameContinue))) := rfl
theorem look_KEYWORD_false : gList.look R.KEYWORD_false =
    some (.atomic, .seq (.str ['f', 'a', 'l', 's', 'e']) (.not (.call R.NameContinue))) := rfl
theorem look_KEYWORD_null : gList.look R.KEYWORD_null =
    some (.atomic, .seq (.str ['n', 'u', 'l', 'l']) (.not (.call R.NameContinue))) := rfl
theorem look_ListValue : gList.look R.ListValue = some (.normal,
    .choice (.seq (.str ['[']) (.str [']'])) (.seq (.str ['[']) (.seq (.plus (.call R.Value)) (.str [']'])))) := rfl
theorem look_ObjectValue : gList.look R.ObjectValue = some (.normal,
    .choice (.seq (.str ['{']) (.str ['}'])) (.seq (.str ['{']) (.seq (.plus (.call R.ObjectField)) (.str ['}'])))) := rfl
theorem look_ObjectField : gList.look R.ObjectField =
    some (.normal, .seq (.call R.Name) (.seq (.str [':']) (.call R.Value))) := rfl

abbrev kwTrue : List Char := ['t', 'r', 'u', 'e']
abbrev kwFalse : List Char := ['f', 'a', 'l', 's', 'e']
abbrev kwNull : List Char := ['n', 'u', 'l', 'l']

/-- what may follow a value: not a name character, not `.`, not `"` -/
def ValEnd (rest : List Char) : Prop := HeadNot (fun d => nameCont d ∨ d = '.' ∨ d = '"') rest

theorem ValEnd.nameCont {rest} (h : ValEnd rest) : HeadNot nameCont rest := headNot_mono (fun _ h => Or.inl h) h
theorem ValEnd.numEnd {rest} (h : ValEnd rest) : NumEnd rest :=
  headNot_mono (fun _ h => h.elim Or.inl (fun h => Or.inr (Or.inl h))) h
theorem ValEnd.quote {rest} (h : ValEnd rest) : HeadNot (· = '"') rest := headNot_mono (fun _ h => Or.inr (Or.inr h)) h

theorem nsp {r : RuleId} (h1 : r ≠ R.WHITESPACE) (h2 : r ≠ R.COMMENT) : ¬ (gList.ws = some r ∨ gList.cm = some r) :=
  notSpecial h1 h2

/-! ### failure of an alternative on a first character it cannot start with -/

theorem variable_fails {p rest} (h : HeadNot (· = '$') rest) : FailsRule gList 3 R.Variable .nonAtomic ⟨p, rest⟩ :=
  failsRule_normal look_Variable (nsp (by decide) (by decide)) (fails_seq_first (strL_head_fails h))

theorem stringValue_fails {p rest} (h : HeadNot (· = '"') rest) : FailsRule gList 7 R.StringValue .nonAtomic ⟨p, rest⟩ := by
  have h1 : FailsRule gList 3 R.EmptyStringValue .compound ⟨p, rest⟩ :=
    failsRule_atomic look_EmptyStringValue (fails_seq_first (strL_head_fails h))
  have h2 : FailsRule gList 3 R.NormalStringValue .compound ⟨p, rest⟩ :=
    failsRule_compound look_NormalStringValue (fails_seq_first (strL_head_fails h))
  have h3 : FailsRule gList 3 R.BlockStringValue .compound ⟨p, rest⟩ :=
    failsRule_atomic look_BlockStringValue (fails_seq_first (strL_head_fails h))
  exact failsRule_compound look_StringValue
    (fails_choice ((fails_call h1).mono (by omega : 4 ≤ 5)) (fails_choice (fails_call h2) (fails_call h3)))

/-- a keyword fails on a text whose first character is not a name-start character -/
theorem keyword_fails_head {la : Look} {r : RuleId} {x : Char} {xs : List Char} {at_ : Atomicity}
    (hl : gList.look r = some (.atomic, .seq (.str (x :: xs)) (.not (.call R.NameContinue)))) (hx : nameStart x)
    {p : Nat} {rest : List Char} (h : HeadNot nameStart rest) : FailsRuleL gList la 12 r at_ ⟨p, rest⟩ :=
  keywordL_fails_str hl p rest (matchStr_none_of_head fun d r he hd => h d r he (hd ▸ hx))

theorem booleanValue_fails_head {p rest} (h : HeadNot nameStart rest) :
    FailsRule gList 15 R.BooleanValue .nonAtomic ⟨p, rest⟩ :=
  failsRule_normal look_BooleanValue (nsp (by decide) (by decide))
    (fails_choice (fails_call (keyword_fails_head (la := .none) look_KEYWORD_true (by decide) h))
      (fails_call (keyword_fails_head (la := .none) look_KEYWORD_false (by decide) h)))

theorem nullValue_fails_head {p rest} (h : HeadNot nameStart rest) : FailsRule gList 14 R.NullValue .nonAtomic ⟨p, rest⟩ :=
  failsRule_normal look_NullValue (nsp (by decide) (by decide))
    (fails_call (keyword_fails_head (la := .none) look_KEYWORD_null (by decide) h))

/-- the lookahead of `EnumValue` succeeds when none of the three keywords matches -/
theorem enumGuard_runs {p : Nat} {text : List Char}
    (h1 : FailsRuleL gList .neg 12 R.KEYWORD_true .nonAtomic ⟨p, text⟩)
    (h2 : FailsRuleL gList .neg 12 R.KEYWORD_false .nonAtomic ⟨p, text⟩)
    (h3 : FailsRuleL gList .neg 12 R.KEYWORD_null .nonAtomic ⟨p, text⟩) :
    Runs gList 16 true (.not (.choice (.call R.KEYWORD_true) (.choice (.call R.KEYWORD_false) (.call R.KEYWORD_null))))
      .nonAtomic ⟨p, text⟩ ⟨p, text⟩ [] :=
  runsL_not (la := .none) (failsL_choice ((failsL_call h1).mono (by omega : 13 ≤ 14))
    (failsL_choice (failsL_call h2) (failsL_call h3)))

theorem enumValue_fails_head {p rest} (h : HeadNot nameStart rest) (ht : HeadNot trivia rest) :
    FailsRule gList 20 R.EnumValue .nonAtomic ⟨p, rest⟩ := by
  have g := enumGuard_runs (p := p) (text := rest) (keyword_fails_head look_KEYWORD_true (by decide) h)
    (keyword_fails_head look_KEYWORD_false (by decide) h) (keyword_fails_head look_KEYWORD_null (by decide) h)
  have := fails_seq_last (g.mono (by omega : 16 ≤ 18)) (skip_noop ht) ((fails_call (name_fails h)).mono (by omega))
  exact failsRule_normal look_EnumValue (nsp (by decide) (by decide)) this

theorem listValue_fails {p rest} (h : HeadNot (· = '[') rest) : FailsRule gList 4 R.ListValue .nonAtomic ⟨p, rest⟩ :=
  failsRule_normal look_ListValue (nsp (by decide) (by decide))
    (fails_choice (fails_seq_first (strL_head_fails h)) (fails_seq_first (strL_head_fails h)))

theorem objectValue_fails {p rest} (h : HeadNot (· = '{') rest) : FailsRule gList 4 R.ObjectValue .nonAtomic ⟨p, rest⟩ :=
  failsRule_normal look_ObjectValue (nsp (by decide) (by decide))
    (fails_choice (fails_seq_first (strL_head_fails h)) (fails_seq_first (strL_head_fails h)))

/-! ### assembling the ordered choice -/

/-- the `Value` rule from its body -/
theorem value_rule {n : Nat} {c c' : Cur} {ps : List Pair}
    (hb : Runs gList n true (.choice (.call R.Variable) (.choice (.call R.IntValue) (.choice (.call R.FloatValue)
      (.choice (.call R.StringValue) (.choice (.call R.BooleanValue) (.choice (.call R.NullValue) (.choice (.call R.EnumValue)
        (.choice (.call R.ListValue) (.call R.ObjectValue))))))))) .nonAtomic c c' ps) :
    RunsRule gList (n + 1) R.Value .nonAtomic c c' [Pair.mk R.Value c.pos c'.pos ps] :=
  runsRule_normal look_Value (nsp (by decide) (by decide)) hb

/-- `Value` fails on a character no alternative can start with (in particular on `]`, `}`, `)`) -/
theorem value_fails {p rest} (h1 : HeadNot (· = '$') rest) (h2 : HeadNot (fun d => d = '-' ∨ digit d) rest)
    (h3 : HeadNot (· = '"') rest) (h4 : HeadNot nameStart rest) (h5 : HeadNot trivia rest) (h6 : HeadNot (· = '[') rest)
    (h7 : HeadNot (· = '{') rest) : FailsRule gList 31 R.Value .nonAtomic ⟨p, rest⟩ := by
  refine failsRule_normal look_Value (nsp (by decide) (by decide)) ?_
  refine fails_choice ((fails_call (variable_fails h1)).mono (by omega : 4 ≤ 29)) ?_
  refine fails_choice ((fails_call (intValue_fails_head h2)).mono (by omega : 13 ≤ 28)) ?_
  refine fails_choice ((fails_call (floatValue_fails_head h2)).mono (by omega : 15 ≤ 27)) ?_
  refine fails_choice ((fails_call (stringValue_fails h3)).mono (by omega : 8 ≤ 26)) ?_
  refine fails_choice ((fails_call (booleanValue_fails_head h4)).mono (by omega : 16 ≤ 25)) ?_
  refine fails_choice ((fails_call (nullValue_fails_head h4)).mono (by omega : 15 ≤ 24)) ?_
  refine fails_choice ((fails_call (enumValue_fails_head h4 h5)).mono (by omega : 21 ≤ 23)) ?_
  exact fails_choice ((fails_call (listValue_fails h6)).mono (by omega : 5 ≤ 22)) ((fails_call (objectValue_fails h7)).mono (by omega))

theorem value_fails_close {p : Nat} {x : Char} {r : List Char} (hx : x = ']' ∨ x = '}' ∨ x = ')') :
    FailsRule gList 31 R.Value .nonAtomic ⟨p, x :: r⟩ := by
  rcases hx with rfl | rfl | rfl <;>
    exact value_fails (headNot_cons (by decide) _) (headNot_cons (by decide) _) (headNot_cons (by decide) _)
      (headNot_cons (by decide) _) (headNot_cons (by decide) _) (headNot_cons (by decide) _) (headNot_cons (by decide) _)

/-! ### the scalar alternatives on their canonical text -/

theorem nameStart_heads {d : Char} (h : nameStart d) :
    ¬ d = '$' ∧ ¬ (d = '-' ∨ digit d) ∧ ¬ d = '"' ∧ ¬ trivia d ∧ ¬ d = '[' ∧ ¬ d = '{' := by
  refine ⟨?_, ?_, ?_, nameStart_not_trivia h, ?_, ?_⟩
  · rintro rfl; exact absurd h (by decide)
  · rintro (rfl | hd)
    · exact absurd h (by decide)
    · exact nameStart_not_digit h hd
  · rintro rfl; exact absurd h (by decide)
  · rintro rfl; exact absurd h (by decide)
  · rintro rfl; exact absurd h (by decide)

/-- `$name` -/
theorem value_var {n : List Char} (hn : validName n) (p : Nat) (rest : List Char) (hr : ValEnd rest) :
    RunsRule gList (n.length + 40) R.Value .nonAtomic ⟨p, '$' :: n ++ rest⟩ ⟨p + (n.length + 1), rest⟩
      [.mk R.Value p (p + (n.length + 1)) [.mk R.Variable p (p + (n.length + 1)) [.mk R.Name (p + 1) (p + 1 + n.length) []]]] := by
  obtain ⟨d, ds, rfl⟩ : ∃ d ds, n = d :: ds := by
    cases n with
    | nil => exact absurd hn id
    | cons d ds => exact ⟨d, ds, rfl⟩
  have h1 : Runs gList ((d :: ds).length + 30) true (.str ['$']) .nonAtomic ⟨p, '$' :: (d :: ds ++ rest)⟩
      ⟨p + 1, d :: ds ++ rest⟩ [] := (runs_str (c := ⟨p, '$' :: (d :: ds ++ rest)⟩) (by simp [matchStr])).mono (by omega)
  have hs : SkipNoop gList ((d :: ds).length + 30) .nonAtomic ⟨p + 1, d :: ds ++ rest⟩ :=
    (skip_noop (headNot_cons (nameStart_not_trivia hn.1) _)).mono (by omega)
  have h2 := (runs_call (sk := true) (name_runs hn (p + 1) rest hr.nameCont)).mono
    (by omega : (d :: ds).length + 12 + 1 ≤ (d :: ds).length + 30)
  have hv := runs_call (sk := true) (runsRule_normal look_Variable (nsp (by decide) (by decide)) (runs_seq h1 hs h2))
  have := value_rule (runs_choice_l hv)
  refine RunsRule.cast (this.mono (by omega)) rfl ?_ ?_
  · congr 1; simp; omega
  · simp; omega

/-- an integer literal -/
theorem value_int {t : List Char} (ht : IntText t) (p : Nat) (rest : List Char) (hr : ValEnd rest) :
    RunsRule gList (t.length + 40) R.Value .nonAtomic ⟨p, t ++ rest⟩ ⟨p + t.length, rest⟩
      [.mk R.Value p (p + t.length) [.mk R.IntValue p (p + t.length) []]] := by
  have hhead : HeadNot (· = '$') (t ++ rest) := by
    cases ht with
    | zero neg => cases neg <;> exact headNot_cons (by decide) _
    | nz neg d ds hd _ =>
      cases neg
      · refine headNot_cons ?_ _; rintro rfl; exact absurd hd.1 (by decide)
      · exact headNot_cons (by decide) _
  have f1 := (fails_call (sk := true) (variable_fails (p := p) hhead)).mono (by omega : 4 ≤ t.length + 22)
  have h2 := (runs_call (sk := true) (intValue_runs ht p rest hr.numEnd)).mono (by omega : t.length + 20 + 1 ≤ t.length + 21)
  have := value_rule (runs_choice_r f1 (runs_choice_l h2))
  exact RunsRule.cast (this.mono (by omega)) rfl rfl rfl

theorem intText_head {t : List Char} (h : IntText t) : ∃ d r, t = d :: r ∧ (d = '-' ∨ digit d) := by
  cases h with
  | zero neg =>
    cases neg
    · exact ⟨'0', [], rfl, Or.inr (by decide)⟩
    · exact ⟨'-', ['0'], rfl, Or.inl rfl⟩
  | nz neg d ds hd _ =>
    cases neg
    · exact ⟨d, ds, rfl, Or.inr (nzdigit_digit hd)⟩
    · exact ⟨'-', d :: ds, rfl, Or.inl rfl⟩

theorem num_head_not_dollar {d : Char} (h : d = '-' ∨ digit d) : ¬ d = '$' := by
  rintro rfl
  rcases h with h | h
  · exact absurd h (by decide)
  · exact absurd h.1 (by decide)

/-- a float literal -/
theorem value_float {t : List Char} (ht : FloatText t) (p : Nat) (rest : List Char) (hr : ValEnd rest) :
    RunsRule gList (t.length + 60) R.Value .nonAtomic ⟨p, t ++ rest⟩ ⟨p + t.length, rest⟩
      [.mk R.Value p (p + t.length) [.mk R.FloatValue p (p + t.length) []]] := by
  -- the text is an integer part followed by `.` or `e`/`E`
  have split : ∃ ip x tl, IntText ip ∧ t = ip ++ x :: tl ∧ (x = '.' ∨ nameStart x) := by
    cases ht with
    | fe ip fd ex hip _ _ => exact ⟨ip, '.', fd ++ ex, hip, by simp, Or.inl rfl⟩
    | f ip fd hip _ => exact ⟨ip, '.', fd, hip, rfl, Or.inl rfl⟩
    | e ip ex hip hex =>
      obtain ⟨e, er, rfl, hes⟩ := expText_head hex
      exact ⟨ip, e, er, hip, rfl, Or.inr hes⟩
  obtain ⟨ip, x, tl, hip, htxt, hx⟩ := split
  obtain ⟨d, r', hd, hdn⟩ := intText_head hip
  have hlen : t.length = ip.length + 1 + tl.length := by rw [htxt]; simp; omega
  have htxt' : t ++ rest = ip ++ x :: (tl ++ rest) := by rw [htxt]; simp
  have hhead : HeadNot (· = '$') (t ++ rest) := by
    rw [htxt', hd]; exact headNot_cons (P := (· = '$')) (num_head_not_dollar hdn) _
  have f1 := (fails_call (sk := true) (variable_fails (p := p) hhead)).mono (by omega : 4 ≤ t.length + 43)
  have f2 : Fails gList (t.length + 42) true (.call R.IntValue) .nonAtomic ⟨p, t ++ rest⟩ := by
    rw [htxt']
    exact (fails_call (intValue_fails_float hip p x (tl ++ rest) hx)).mono (by omega)
  have h3 := (runs_call (sk := true) (floatValue_runs ht p rest hr.numEnd)).mono
    (by omega : t.length + 40 + 1 ≤ t.length + 41)
  have := value_rule (runs_choice_r f1 (runs_choice_r f2 (runs_choice_l h3)))
  exact RunsRule.cast (this.mono (by omega)) rfl rfl rfl

/-- the failures shared by everything that starts with a name-start character or `"`: not a variable, not a number -/
theorem nonnum_fails {p : Nat} {text : List Char} (h1 : HeadNot (· = '$') text)
    (h2 : HeadNot (fun d => d = '-' ∨ digit d) text) :
    Fails gList 5 true (.call R.Variable) .nonAtomic ⟨p, text⟩ ∧ Fails gList 14 true (.call R.IntValue) .nonAtomic ⟨p, text⟩ ∧
    Fails gList 16 true (.call R.FloatValue) .nonAtomic ⟨p, text⟩ :=
  ⟨(fails_call (variable_fails h1)).mono (by omega), (fails_call (intValue_fails_head h2)).mono (by omega),
    (fails_call (floatValue_fails_head h2)).mono (by omega)⟩

/-- a string literal -/
theorem value_str (s : List Char) (p : Nat) (rest : List Char) (hr : ValEnd rest) :
    RunsRule gList (s.length + 60) R.Value .nonAtomic ⟨p, quoted s ++ rest⟩ ⟨p + (quoted s).length, rest⟩
      [.mk R.Value p (p + (quoted s).length) [stringPair s p]] := by
  have e : quoted s ++ rest = '"' :: (specEscape s ++ '"' :: rest) := by simp [quoted]
  obtain ⟨f1, f2, f3⟩ := nonnum_fails (p := p) (text := quoted s ++ rest)
    (by rw [e]; exact headNot_cons (by decide) _) (by rw [e]; exact headNot_cons (by decide) _)
  have h4 := runs_call (sk := true) (stringValue_runs s p rest (fun _ => hr.quote) (at_ := .nonAtomic))
  have := value_rule (runs_choice_r' f1 (runs_choice_r' f2 (runs_choice_r' f3 (runs_choice_l h4))))
  exact RunsRule.cast (this.mono (by omega)) rfl rfl rfl

theorem name_text_heads {n : List Char} (hn : validName n) (rest : List Char) :
    HeadNot (· = '$') (n ++ rest) ∧ HeadNot (fun d => d = '-' ∨ digit d) (n ++ rest) ∧ HeadNot (· = '"') (n ++ rest) ∧
    HeadNot trivia (n ++ rest) := by
  cases n with
  | nil => exact absurd hn id
  | cons d ds =>
    obtain ⟨a, b, c, e, _, _⟩ := nameStart_heads hn.1
    exact ⟨headNot_cons (P := (· = '$')) a _, headNot_cons b _, headNot_cons (P := (· = '"')) c _, headNot_cons e _⟩

theorem validName_cont {n : List Char} (hn : validName n) : ∀ x ∈ n, nameCont x := by
  cases n with
  | nil => exact absurd hn id
  | cons d ds =>
    intro x hx
    rcases List.mem_cons.mp hx with rfl | hx
    · exact nameStart_nameCont hn.1
    · exact hn.2 x hx

theorem kw_valid : validName kwTrue ∧ validName kwFalse ∧ validName kwNull := by
  refine ⟨⟨by decide, ?_⟩, ⟨by decide, ?_⟩, ⟨by decide, ?_⟩⟩ <;>
    (intro x hx; simp only [List.mem_cons, List.not_mem_nil, or_false] at hx; rcases hx with rfl | rfl | rfl | rfl <;> decide)

/-- `true` / `false` -/
theorem value_bool (b : Bool) (p : Nat) (rest : List Char) (hr : ValEnd rest) :
    RunsRule gList 60 R.Value .nonAtomic ⟨p, (if b then kwTrue else kwFalse) ++ rest⟩
      ⟨p + (if b then kwTrue else kwFalse).length, rest⟩
      [.mk R.Value p (p + (if b then kwTrue else kwFalse).length)
        [.mk R.BooleanValue p (p + (if b then kwTrue else kwFalse).length)
          [.mk (if b then R.KEYWORD_true else R.KEYWORD_false) p (p + (if b then kwTrue else kwFalse).length) []]]] := by
  cases b with
  | true =>
    obtain ⟨a1, a2, a3, _⟩ := name_text_heads kw_valid.1 rest
    obtain ⟨f1, f2, f3⟩ := nonnum_fails (p := p) a1 a2
    have f4 := fails_call (sk := true) (stringValue_fails (p := p) a3)
    have hk := keywordL_runs (la := .none) (at_ := .nonAtomic) look_KEYWORD_true p rest hr.nameCont
    have hb := runsRule_normal look_BooleanValue (nsp (by decide) (by decide))
      (runs_choice_l (b := .call R.KEYWORD_false) (runs_call (sk := true) hk))
    have := value_rule (runs_choice_r' f1 (runs_choice_r' f2 (runs_choice_r' f3 (runs_choice_r' f4
      (runs_choice_l (runs_call (sk := true) hb))))))
    exact RunsRule.cast (this.mono (by omega)) rfl rfl (by simp)
  | false =>
    obtain ⟨a1, a2, a3, _⟩ := name_text_heads kw_valid.2.1 rest
    obtain ⟨f1, f2, f3⟩ := nonnum_fails (p := p) a1 a2
    have f4 := fails_call (sk := true) (stringValue_fails (p := p) a3)
    have hkt : FailsRule gList 12 R.KEYWORD_true .nonAtomic ⟨p, kwFalse ++ rest⟩ :=
      keywordL_fails_str (la := .none) look_KEYWORD_true p _ (by simp [matchStr])
    have hk := keywordL_runs (la := .none) (at_ := .nonAtomic) look_KEYWORD_false p rest hr.nameCont
    have hb := runsRule_normal look_BooleanValue (nsp (by decide) (by decide))
      (runs_choice_r' (fails_call (sk := true) hkt) (runs_call (sk := true) hk))
    have := value_rule (runs_choice_r' f1 (runs_choice_r' f2 (runs_choice_r' f3 (runs_choice_r' f4
      (runs_choice_l (runs_call (sk := true) hb))))))
    exact RunsRule.cast (this.mono (by omega)) rfl rfl (by simp)

/-- `null` -/
theorem value_null (p : Nat) (rest : List Char) (hr : ValEnd rest) :
    RunsRule gList 60 R.Value .nonAtomic ⟨p, kwNull ++ rest⟩ ⟨p + 4, rest⟩
      [.mk R.Value p (p + 4) [.mk R.NullValue p (p + 4) [.mk R.KEYWORD_null p (p + 4) []]]] := by
  obtain ⟨a1, a2, a3, _⟩ := name_text_heads kw_valid.2.2 rest
  obtain ⟨f1, f2, f3⟩ := nonnum_fails (p := p) a1 a2
  have f4 := fails_call (sk := true) (stringValue_fails (p := p) a3)
  have hkt : FailsRule gList 12 R.KEYWORD_true .nonAtomic ⟨p, kwNull ++ rest⟩ :=
    keywordL_fails_str (la := .none) look_KEYWORD_true p _ (by simp [matchStr])
  have hkf : FailsRule gList 12 R.KEYWORD_false .nonAtomic ⟨p, kwNull ++ rest⟩ :=
    keywordL_fails_str (la := .none) look_KEYWORD_false p _ (by simp [matchStr])
  have f5 := fails_call (sk := true) (failsRule_normal look_BooleanValue (nsp (by decide) (by decide))
    (fails_choice (fails_call (sk := true) hkt) (fails_call (sk := true) hkf)))
  have hk := keywordL_runs (la := .none) (at_ := .nonAtomic) look_KEYWORD_null p rest hr.nameCont
  have hn := runsRule_normal look_NullValue (nsp (by decide) (by decide)) (runs_call (sk := true) hk)
  have := value_rule (runs_choice_r' f1 (runs_choice_r' f2 (runs_choice_r' f3 (runs_choice_r' f4
    (runs_choice_r' f5 (runs_choice_l (runs_call (sk := true) hn)))))))
  exact RunsRule.cast (this.mono (by omega)) rfl rfl (by simp)

/-- an enum value: a name other than `true`, `false`, `null` -/
theorem value_enum {n : List Char} (hn : validName n) (h1 : n ≠ kwTrue) (h2 : n ≠ kwFalse) (h3 : n ≠ kwNull)
    (p : Nat) (rest : List Char) (hr : ValEnd rest) :
    RunsRule gList (n.length + 60) R.Value .nonAtomic ⟨p, n ++ rest⟩ ⟨p + n.length, rest⟩
      [.mk R.Value p (p + n.length) [.mk R.EnumValue p (p + n.length) [.mk R.Name p (p + n.length) []]]] := by
  obtain ⟨a1, a2, a3, a4⟩ := name_text_heads hn rest
  obtain ⟨f1, f2, f3⟩ := nonnum_fails (p := p) a1 a2
  have f4 := fails_call (sk := true) (stringValue_fails (p := p) a3)
  have hc := validName_cont hn
  have kwc : ∀ w : List Char, validName w → ∀ x ∈ w, nameCont x := fun w hw => validName_cont hw
  have kf : ∀ (la : Look) (r : RuleId) (w : List Char), validName w → n ≠ w →
      gList.look r = some (.atomic, .seq (.str w) (.not (.call R.NameContinue))) →
      FailsRuleL gList la 12 r .nonAtomic ⟨p, n ++ rest⟩ := fun la r w hw hne hl =>
    keywordL_fails_name hl (kwc w hw) p n rest hc hne hr.nameCont
  have f5 := fails_call (sk := true) (failsRule_normal look_BooleanValue (nsp (by decide) (by decide))
    (fails_choice (fails_call (sk := true) (kf .none _ _ kw_valid.1 h1 look_KEYWORD_true))
      (fails_call (sk := true) (kf .none _ _ kw_valid.2.1 h2 look_KEYWORD_false))))
  have f6 := fails_call (sk := true) (failsRule_normal look_NullValue (nsp (by decide) (by decide))
    (fails_call (sk := true) (kf .none _ _ kw_valid.2.2 h3 look_KEYWORD_null)))
  have g := enumGuard_runs (p := p) (text := n ++ rest) (kf .neg _ _ kw_valid.1 h1 look_KEYWORD_true)
    (kf .neg _ _ kw_valid.2.1 h2 look_KEYWORD_false) (kf .neg _ _ kw_valid.2.2 h3 look_KEYWORD_null)
  have hname := runs_call (sk := true) (name_runs hn p rest hr.nameCont)
  have he := runsRule_normal look_EnumValue (nsp (by decide) (by decide))
    (runs_seq_skip' g (skipTo_noop a4) hname)
  have := value_rule (runs_choice_r' f1 (runs_choice_r' f2 (runs_choice_r' f3 (runs_choice_r' f4
    (runs_choice_r' f5 (runs_choice_r' f6 (runs_choice_l (runs_call (sk := true) he))))))))
  exact RunsRule.cast (this.mono (by omega)) rfl rfl (by simp)

end NitroVerif.ValueParse
