/-
Helper lemmas for C05, part 3b (fix 2e4a65e): the walk `directives_in_type` makes through nested input objects.

* `ditWalkX` = `ditWalk` with an ARBITRARY behaviour in the out-of-fuel branch; `ditWalkX_indep`: with more fuel than
  type names of the document not yet in `seen_types`, neither the fuel nor that behaviour matters — so the `|T| + 1`
  of `directivesInType` is never exhausted (`directivesInType_fuel`).
* `InReach T a b`: from the type named `a`, the type named `b` is reached by following the types of input-object
  fields (zero or more steps, through the definitions the checker's hash map holds).
* `mem_directivesInType_iff`: the walk returns exactly the directives applied inside the types reached that way
  (`directivesInTypeOld` of each) — soundness by induction on the fuel, completeness by the depth-first-search
  invariant "every name put into `seen_types` has its own directives in the result and every field type either in
  `seen_types` or (not an input object) fully in the result".
* the pre-repair search (`recLoopOld`, `checkDirectiveRecursionOld`, `checkSchemaOld`) for the pre-repair witness.
-/
import NitroVerif.Lemmas.CheckTs
namespace NitroVerif.CheckTs
open NitroVerif.Gql NitroVerif.ValidTs

/-! ### lookups -/

/-- the definition the hash map `types` holds for its own name -/
def TCanonical (T : TsDoc) (t : TypeDef) : Prop := lastTypeDef? T t.name = some t

theorem lastTypeDef_name {T : TsDoc} {n : Name} {t : TypeDef} (h : lastTypeDef? T n = some t) : t.name = n := by
  unfold lastTypeDef? at h
  simpa using List.find?_some h

theorem tcanonical_of_lookup {T : TsDoc} {n : Name} {t : TypeDef} (h : lastTypeDef? T n = some t) :
    TCanonical T t := by
  unfold TCanonical; rw [lastTypeDef_name h]; exact h

theorem lastTypeDef_mem {T : TsDoc} {n : Name} {t : TypeDef} (h : lastTypeDef? T n = some t) :
    t ∈ ValidTs.typeDefs T := by
  unfold lastTypeDef? at h
  exact List.mem_reverse.mp (List.mem_of_find?_eq_some h)

/-! ### the walk with an arbitrary out-of-fuel behaviour -/

/-- `ditWalk` with an arbitrary behaviour `Z` where the fuel runs out (an input object not yet seen, no fuel left) -/
def ditWalkX (T : TsDoc) (Z : TypeDef → List Name → List Directive × List Name) :
    Nat → TypeDef → List Name → List Directive × List Name
  | 0, t, seen =>
    if t.kind == .input then (if seen.contains t.name then ([], seen) else Z t seen)
    else (directivesInTypeOld t, seen)
  | fuel + 1, t, seen =>
    if t.kind == .input then
      if seen.contains t.name then ([], seen)
      else
        let r := ditFields T (ditWalkX T Z fuel) t.inputs (t.name :: seen)
        (t.dirs ++ t.inputs.flatMap (·.dirs) ++ r.1, r.2)
    else (directivesInTypeOld t, seen)

theorem ditFields_congr_go (T : TsDoc) {go go' : TypeDef → List Name → List Directive × List Name}
    (h : ∀ t seen, go t seen = go' t seen) : ∀ (fs : List InputValueDef) (seen : List Name),
    ditFields T go fs seen = ditFields T go' fs seen
  | [], _ => rfl
  | f :: fs, seen => by
    simp only [ditFields]
    cases lastTypeDef? T f.ty.unwrapped with
    | none => exact ditFields_congr_go T h fs seen
    | some ft => simp only [h, ditFields_congr_go T h fs]

theorem ditWalk_eq_X (T : TsDoc) : ∀ (n : Nat) (t : TypeDef) (seen : List Name),
    ditWalk T n t seen = ditWalkX T (fun _ seen => ([], seen)) n t seen
  | 0, t, seen => by
    simp only [ditWalk, ditWalkX]
    split <;> simp
  | n + 1, t, seen => by
    simp only [ditWalk, ditWalkX]
    rw [ditFields_congr_go T (ditWalk_eq_X T n)]

/-- the termination measure of the walk: type names of the document not yet in `seen_types` -/
def unseenT (T : TsDoc) (seen : List Name) : Nat :=
  (((ValidTs.typeDefs T).map (·.name)).filter fun n => !seen.contains n).length

theorem unseenT_le (T : TsDoc) (seen : List Name) : unseenT T seen ≤ T.length := by
  unfold unseenT
  calc _ ≤ ((ValidTs.typeDefs T).map (·.name)).length := List.length_filter_le _ _
    _ = (ValidTs.typeDefs T).length := List.length_map _
    _ ≤ T.length := by
      unfold ValidTs.typeDefs Schema.typeDefs
      exact List.length_filterMap_le _ _

theorem filter_length_mono {α : Type} (p q : α → Bool) : ∀ (l : List α), (∀ x, q x = true → p x = true) →
    (l.filter q).length ≤ (l.filter p).length := by
  intro l h
  induction l with
  | nil => simp
  | cons z r ih =>
    cases hq : q z with
    | true => simp [List.filter, hq, h z hq]; exact ih
    | false =>
      cases hp : p z with
      | true => simp only [List.filter, hq, hp, List.length_cons]; omega
      | false => simpa [List.filter, hq, hp] using ih

theorem filter_length_strict {α : Type} (p q : α → Bool) : ∀ (l : List α), (∀ x, q x = true → p x = true) →
    (∃ x ∈ l, p x = true ∧ q x = false) → (l.filter q).length < (l.filter p).length := by
  intro l
  induction l with
  | nil => rintro _ ⟨x, hx, _⟩; cases hx
  | cons y r ih =>
    intro himp hex
    have hle := filter_length_mono p q r himp
    obtain ⟨x, hx, hpx, hqx⟩ := hex
    cases hq : q y with
    | true =>
      have hp := himp y hq
      rcases List.mem_cons.mp hx with rfl | hxr
      · rw [hq] at hqx; cases hqx
      · have := ih himp ⟨x, hxr, hpx, hqx⟩
        simp only [List.filter, hq, hp, List.length_cons]; omega
    | false =>
      cases hp : p y with
      | true => simp only [List.filter, hq, hp, List.length_cons]; omega
      | false =>
        rcases List.mem_cons.mp hx with rfl | hxr
        · rw [hp] at hpx; cases hpx
        · have := ih himp ⟨x, hxr, hpx, hqx⟩
          simpa [List.filter, hq, hp] using this

theorem unseenT_mono {T : TsDoc} {seen seen' : List Name} (h : ∀ n ∈ seen, n ∈ seen') :
    unseenT T seen' ≤ unseenT T seen := by
  unfold unseenT
  apply filter_length_mono
  intro n hn
  simp only [Bool.not_eq_true'] at hn ⊢
  rw [contains_eq_false_iff] at hn ⊢
  exact fun hin => hn (h n hin)

/-- inserting the name of a definition of the document that was not yet seen makes the measure drop -/
theorem unseenT_insert {T : TsDoc} {seen : List Name} {t : TypeDef} (ht : t ∈ ValidTs.typeDefs T)
    (hs : t.name ∉ seen) : unseenT T (t.name :: seen) < unseenT T seen := by
  unfold unseenT
  apply filter_length_strict
  · intro n hn
    simp only [Bool.not_eq_true'] at hn ⊢
    rw [contains_eq_false_iff] at hn ⊢
    exact fun hin => hn (List.mem_cons_of_mem _ hin)
  · refine ⟨t.name, List.mem_map.mpr ⟨t, ht, rfl⟩, ?_, ?_⟩
    · simp only [Bool.not_eq_true']; exact contains_eq_false_iff.mpr hs
    · simp only [Bool.not_eq_false']; exact List.contains_iff_mem.mpr List.mem_cons_self

/-- `seen_types` only grows along the field loop, whatever `go` does, provided `go` only grows it -/
theorem ditFields_seen_mono (T : TsDoc) {go : TypeDef → List Name → List Directive × List Name}
    (hgo : ∀ t seen, ∀ n ∈ seen, n ∈ (go t seen).2) : ∀ (fs : List InputValueDef) (seen : List Name),
    ∀ n ∈ seen, n ∈ (ditFields T go fs seen).2
  | [], _ => fun _ h => h
  | f :: fs, seen => by
    intro n hn
    simp only [ditFields]
    cases lastTypeDef? T f.ty.unwrapped with
    | none => exact ditFields_seen_mono T hgo fs seen n hn
    | some ft => exact ditFields_seen_mono T hgo fs _ n (hgo ft seen n hn)

theorem ditWalkX_seen_mono (T : TsDoc) (Z : TypeDef → List Name → List Directive × List Name)
    (hZ : ∀ t seen, ∀ n ∈ seen, n ∈ (Z t seen).2) : ∀ (fuel : Nat) (t : TypeDef) (seen : List Name),
    ∀ n ∈ seen, n ∈ (ditWalkX T Z fuel t seen).2
  | 0, t, seen => by
    intro n hn
    simp only [ditWalkX]
    split
    · split
      · exact hn
      · exact hZ t seen n hn
    · exact hn
  | fuel + 1, t, seen => by
    intro n hn
    simp only [ditWalkX]
    split
    · split
      · exact hn
      · exact ditFields_seen_mono T (ditWalkX_seen_mono T Z hZ fuel) _ _ n (List.mem_cons_of_mem _ hn)
    · exact hn

theorem ditWalk_seen_mono (T : TsDoc) (fuel : Nat) (t : TypeDef) (seen : List Name) :
    ∀ n ∈ seen, n ∈ (ditWalk T fuel t seen).2 := by
  rw [ditWalk_eq_X]
  exact ditWalkX_seen_mono T _ (fun _ _ _ h => h) fuel t seen

/-- the field loop with two walkers that agree (on definitions held by the hash map) from every larger `seen_types` -/
theorem ditFields_indep (T : TsDoc) {go go' : TypeDef → List Name → List Directive × List Name}
    (hmono : ∀ t seen, ∀ n ∈ seen, n ∈ (go t seen).2) :
    ∀ (fs : List InputValueDef) (seen0 seen : List Name), (∀ n ∈ seen0, n ∈ seen) →
      (∀ t seen', TCanonical T t → (∀ n ∈ seen0, n ∈ seen') → go t seen' = go' t seen') →
      ditFields T go fs seen = ditFields T go' fs seen
  | [], _, _, _, _ => rfl
  | f :: fs, seen0, seen, hsub, h => by
    simp only [ditFields]
    cases hl : lastTypeDef? T f.ty.unwrapped with
    | none => exact ditFields_indep T hmono fs seen0 seen hsub h
    | some ft =>
      have he := h ft seen (tcanonical_of_lookup hl) hsub
      simp only [← he]
      rw [ditFields_indep T hmono fs seen0 (go ft seen).2 (fun n hn => hmono ft seen n (hsub n hn)) h]

/-- with more fuel than unseen type names, the result of the walk depends neither on the fuel nor on the out-of-fuel
    behaviour -/
theorem ditWalkX_indep (T : TsDoc) (Z Z' : TypeDef → List Name → List Directive × List Name)
    (hZ : ∀ t seen, ∀ n ∈ seen, n ∈ (Z t seen).2) :
    ∀ (n m : Nat) (t : TypeDef) (seen : List Name), TCanonical T t → unseenT T seen < n → unseenT T seen < m →
      ditWalkX T Z n t seen = ditWalkX T Z' m t seen := by
  intro n
  induction n with
  | zero => intro m t seen _ h; omega
  | succ n ih =>
    intro m t seen hc hn hm
    cases m with
    | zero => omega
    | succ m =>
      simp only [ditWalkX]
      cases hk : t.kind == .input with
      | false => rfl
      | true =>
        cases hs : seen.contains t.name with
        | true => rfl
        | false =>
          simp only [Bool.false_eq_true, if_false, if_true]
          have hdrop := unseenT_insert (lastTypeDef_mem hc) (contains_eq_false_iff.mp hs)
          rw [ditFields_indep T (ditWalkX_seen_mono T Z hZ n) t.inputs (t.name :: seen) (t.name :: seen)
            (fun _ h => h) (go' := ditWalkX T Z' m)]
          intro u seen' hu hsub
          have := unseenT_mono (T := T) hsub
          exact ih m u seen' hu (by omega) (by omega)

/-- the fuel of `directivesInType` is never exhausted: any fuel `≥ |T| + 1` and ANY out-of-fuel behaviour give the same
    result (for a definition the hash map holds, which is what `check_directive_recursion` passes) -/
theorem directivesInType_fuel (T : TsDoc) (Z : TypeDef → List Name → List Directive × List Name)
    (n : Nat) (hn : T.length + 1 ≤ n) (t : TypeDef)
    (hc : TCanonical T t) : (ditWalkX T Z n t []).1 = directivesInType T t := by
  unfold directivesInType
  rw [ditWalk_eq_X]
  have := unseenT_le T []
  rw [ditWalkX_indep T (fun _ seen => ([], seen)) Z (fun _ _ _ h => h) (T.length + 1) n t [] hc (by omega) (by omega)]

/-! ### what the walk returns -/

/-- one step of the walk: `b` is the (unwrapped) type of an input field of the input object the hash map holds for `a` -/
def InputEdge (T : TsDoc) (a b : Name) : Prop :=
  ∃ u, lastTypeDef? T a = some u ∧ u.kind = .input ∧ ∃ f ∈ u.inputs, f.ty.unwrapped = b

/-- zero or more steps -/
inductive InReach (T : TsDoc) : Name → Name → Prop where
  | refl (a : Name) : InReach T a a
  | tail {a b c : Name} : InReach T a b → InputEdge T b c → InReach T a c

theorem InReach.head {T : TsDoc} {a b c : Name} (h1 : InputEdge T a b) (h2 : InReach T b c) : InReach T a c := by
  induction h2 with
  | refl => exact .tail (.refl a) h1
  | tail _ e ih => exact .tail ih e

/-- soundness of the field loop -/
theorem ditFields_mem (T : TsDoc) {go : TypeDef → List Name → List Directive × List Name} {d : Directive} :
    ∀ (fs : List InputValueDef) (seen : List Name), d ∈ (ditFields T go fs seen).1 →
      ∃ f ∈ fs, ∃ ft seen', lastTypeDef? T f.ty.unwrapped = some ft ∧ d ∈ (go ft seen').1
  | [], _, h => by simp [ditFields] at h
  | f :: fs, seen, h => by
    simp only [ditFields] at h
    cases hl : lastTypeDef? T f.ty.unwrapped with
    | none =>
      rw [hl] at h
      obtain ⟨g, hg, r⟩ := ditFields_mem T fs seen h
      exact ⟨g, List.mem_cons_of_mem _ hg, r⟩
    | some ft =>
      rw [hl] at h
      simp only [List.mem_append] at h
      rcases h with h | h
      · exact ⟨f, List.mem_cons_self, ft, seen, hl, h⟩
      · obtain ⟨g, hg, r⟩ := ditFields_mem T fs _ h
        exact ⟨g, List.mem_cons_of_mem _ hg, r⟩

/-- soundness of the walk: every directive returned is applied inside a type reached from `t` -/
theorem ditWalk_sound (T : TsDoc) {d : Directive} : ∀ (fuel : Nat) (t : TypeDef) (seen : List Name), TCanonical T t →
    d ∈ (ditWalk T fuel t seen).1 →
    ∃ m u, InReach T t.name m ∧ lastTypeDef? T m = some u ∧ d ∈ directivesInTypeOld u := by
  intro fuel
  induction fuel with
  | zero =>
    intro t seen hc h
    simp only [ditWalk] at h
    split at h
    · cases h
    · exact ⟨t.name, t, .refl _, hc, h⟩
  | succ fuel ih =>
    intro t seen hc h
    simp only [ditWalk] at h
    cases hk : t.kind == .input with
    | false =>
      rw [hk] at h
      exact ⟨t.name, t, .refl _, hc, h⟩
    | true =>
      rw [hk] at h
      have hkind : t.kind = .input := by simpa using hk
      simp only [if_true] at h
      split at h
      · cases h
      · simp only [List.mem_append] at h
        rcases h with h | h
        · refine ⟨t.name, t, .refl _, hc, ?_⟩
          simp only [directivesInTypeOld, hkind, List.mem_append]
          exact h
        · obtain ⟨f, hf, ft, seen', hl, hd⟩ := ditFields_mem T _ _ h
          obtain ⟨m, u, hr, hu, hdu⟩ := ih ft seen' (tcanonical_of_lookup hl) hd
          refine ⟨m, u, InReach.head ⟨t, hc, hkind, f, hf, ?_⟩ hr, hu, hdu⟩
          rw [lastTypeDef_name hl]

/-- `ft` is accounted for by the result `(ds, S)`: an input object is in `seen_types`; any other type has all its
    directives in the result -/
def Covered (ds : List Directive) (S : List Name) (ft : TypeDef) : Prop :=
  (ft.kind = .input → ft.name ∈ S) ∧ (ft.kind ≠ .input → ∀ d ∈ directivesInTypeOld ft, d ∈ ds)

/-- the name `n` in `seen_types` is fully processed: it is an input object of the hash map, the directives on it and on
    its fields are in the result, and the type of every field is accounted for -/
def NodeOk (T : TsDoc) (ds : List Directive) (S : List Name) (n : Name) : Prop :=
  ∃ u, lastTypeDef? T n = some u ∧ u.kind = .input ∧ (∀ d ∈ directivesInTypeOld u, d ∈ ds) ∧
    ∀ f ∈ u.inputs, ∀ ft, lastTypeDef? T f.ty.unwrapped = some ft → Covered ds S ft

theorem Covered.mono {ds ds' : List Directive} {S S' : List Name} {ft : TypeDef} (h : Covered ds S ft)
    (hd : ∀ d ∈ ds, d ∈ ds') (hS : ∀ n ∈ S, n ∈ S') : Covered ds' S' ft :=
  ⟨fun hk => hS _ (h.1 hk), fun hk d hm => hd d (h.2 hk d hm)⟩

theorem NodeOk.mono {T : TsDoc} {ds ds' : List Directive} {S S' : List Name} {n : Name} (h : NodeOk T ds S n)
    (hd : ∀ d ∈ ds, d ∈ ds') (hS : ∀ n ∈ S, n ∈ S') : NodeOk T ds' S' n := by
  obtain ⟨u, h1, h2, h3, h4⟩ := h
  exact ⟨u, h1, h2, fun d hm => hd d (h3 d hm), fun f hf ft hl => (h4 f hf ft hl).mono hd hS⟩

/-- what a call of the walk guarantees about its result -/
def WalkOk (T : TsDoc) (seen : List Name) (t : TypeDef) (r : List Directive × List Name) : Prop :=
  (∀ n ∈ seen, n ∈ r.2) ∧ Covered r.1 r.2 t ∧ ∀ n ∈ r.2, n ∉ seen → NodeOk T r.1 r.2 n

theorem ditFields_ok (T : TsDoc) {go : TypeDef → List Name → List Directive × List Name} :
    ∀ (fs : List InputValueDef) (seen0 seen : List Name), (∀ n ∈ seen0, n ∈ seen) →
      (∀ t seen', TCanonical T t → (∀ n ∈ seen0, n ∈ seen') → WalkOk T seen' t (go t seen')) →
      (∀ n ∈ seen, n ∈ (ditFields T go fs seen).2) ∧
      (∀ f ∈ fs, ∀ ft, lastTypeDef? T f.ty.unwrapped = some ft →
        Covered (ditFields T go fs seen).1 (ditFields T go fs seen).2 ft) ∧
      (∀ n ∈ (ditFields T go fs seen).2, n ∉ seen →
        NodeOk T (ditFields T go fs seen).1 (ditFields T go fs seen).2 n)
  | [], _, seen, _, _ => by
    exact ⟨fun _ h => h, fun _ h => (List.not_mem_nil h).elim, fun n hn hns => absurd hn hns⟩
  | f :: fs, seen0, seen, hsub, hgo => by
    cases hl : lastTypeDef? T f.ty.unwrapped with
    | none =>
      have heq : ditFields T go (f :: fs) seen = ditFields T go fs seen := by simp only [ditFields, hl]
      rw [heq]
      obtain ⟨a, b, c⟩ := ditFields_ok T fs seen0 seen hsub hgo
      refine ⟨a, ?_, c⟩
      intro g hg ft hft
      rcases List.mem_cons.mp hg with rfl | hg
      · rw [hl] at hft; cases hft
      · exact b g hg ft hft
    | some ft0 =>
      have heq : ditFields T go (f :: fs) seen =
          ((go ft0 seen).1 ++ (ditFields T go fs (go ft0 seen).2).1, (ditFields T go fs (go ft0 seen).2).2) := by
        simp only [ditFields, hl]
      rw [heq]
      obtain ⟨w1, w2, w3⟩ := hgo ft0 seen (tcanonical_of_lookup hl) hsub
      obtain ⟨a, b, c⟩ := ditFields_ok T fs seen0 (go ft0 seen).2 (fun n hn => w1 n (hsub n hn)) hgo
      refine ⟨fun n hn => a n (w1 n hn), ?_, ?_⟩
      · intro g hg ft hft
        rcases List.mem_cons.mp hg with rfl | hg
        · rw [hl] at hft
          cases hft
          exact w2.mono (fun d hd => List.mem_append_left _ hd) a
        · exact (b g hg ft hft).mono (fun d hd => List.mem_append_right _ hd) (fun _ h => h)
      · intro n hn hns
        by_cases hmid : n ∈ (go ft0 seen).2
        · exact (w3 n hmid hns).mono (fun d hd => List.mem_append_left _ hd) a
        · exact (c n hn hmid).mono (fun d hd => List.mem_append_right _ hd) (fun _ h => h)

/-- the depth-first-search invariant of the walk (with enough fuel) -/
theorem ditWalk_ok (T : TsDoc) : ∀ (fuel : Nat) (t : TypeDef) (seen : List Name), TCanonical T t →
    unseenT T seen < fuel → WalkOk T seen t (ditWalk T fuel t seen) := by
  intro fuel
  induction fuel with
  | zero => intro t seen _ h; omega
  | succ fuel ih =>
    intro t seen hc hf
    simp only [ditWalk]
    cases hk : t.kind == .input with
    | false =>
      have hkind : t.kind ≠ .input := by simpa using hk
      simp only [Bool.false_eq_true, if_false]
      exact ⟨fun _ h => h, ⟨fun h => absurd h hkind, fun _ d hd => hd⟩, fun n hn hns => absurd hn hns⟩
    | true =>
      have hkind : t.kind = .input := by simpa using hk
      simp only [if_true]
      cases hs : seen.contains t.name with
      | true =>
        simp only [if_true]
        exact ⟨fun _ h => h, ⟨fun _ => List.contains_iff_mem.mp hs, fun h => absurd hkind h⟩,
          fun n hn hns => absurd hn hns⟩
      | false =>
        simp only [Bool.false_eq_true, if_false]
        have hns : t.name ∉ seen := contains_eq_false_iff.mp hs
        have hdrop := unseenT_insert (lastTypeDef_mem hc) hns
        obtain ⟨a, b, c⟩ := ditFields_ok T (go := ditWalk T fuel) t.inputs (t.name :: seen) (t.name :: seen)
          (fun _ h => h) (fun u seen' hu hsub => ih u seen' hu (by have := unseenT_mono (T := T) hsub; omega))
        refine ⟨fun n hn => a n (List.mem_cons_of_mem _ hn), ⟨fun _ => a _ List.mem_cons_self, fun h => absurd hkind h⟩, ?_⟩
        intro n hn hnseen
        by_cases hnt : n = t.name
        · subst hnt
          refine ⟨t, hc, hkind, ?_, ?_⟩
          · intro d hd
            simp only [directivesInTypeOld, hkind] at hd
            exact List.mem_append_left _ hd
          · intro f hf ft hft
            exact (b f hf ft hft).mono (fun d hd => List.mem_append_right _ hd) (fun _ h => h)
        · have : n ∉ t.name :: seen := by
            intro h
            rcases List.mem_cons.mp h with h | h
            · exact hnt h
            · exact hnseen h
          exact (c n hn this).mono (fun d hd => List.mem_append_right _ hd) (fun _ h => h)

/-- completeness of the walk started with an empty `seen_types`: the directives applied inside every type reached from
    `t` are returned -/
theorem ditWalk_complete (T : TsDoc) (t : TypeDef) (hc : TCanonical T t) {m : Name} {u : TypeDef} {d : Directive}
    (hr : InReach T t.name m) (hu : lastTypeDef? T m = some u) (hd : d ∈ directivesInTypeOld u) :
    d ∈ directivesInType T t := by
  unfold directivesInType
  obtain ⟨_, hcov, hnodes⟩ := ditWalk_ok T (T.length + 1) t [] hc (Nat.lt_succ_of_le (unseenT_le T []))
  generalize ditWalk T (T.length + 1) t [] = r at hcov hnodes ⊢
  have key : ∀ m, InReach T t.name m → ∀ u, lastTypeDef? T m = some u → Covered r.1 r.2 u := by
    intro m hr
    induction hr with
    | refl =>
      intro u hu
      rw [hc] at hu; cases hu
      exact hcov
    | @tail b c _ e ih =>
      intro u hu
      obtain ⟨ub, hub, hkb, f, hf, hfc⟩ := e
      have hin : b ∈ r.2 := by
        have := (ih ub hub).1 hkb
        rwa [lastTypeDef_name hub] at this
      obtain ⟨ub', hub', _, _, hfields⟩ := hnodes b hin (by simp)
      rw [hub] at hub'; cases hub'
      exact hfields f hf u (by rw [hfc]; exact hu)
  have hcu := key m hr u hu
  by_cases hk : u.kind = .input
  · have hin : m ∈ r.2 := by
      have := hcu.1 hk
      rwa [lastTypeDef_name hu] at this
    obtain ⟨u', hu', _, hown, _⟩ := hnodes m hin (by simp)
    rw [hu] at hu'; cases hu'
    exact hown d hd
  · exact hcu.2 hk d hd

/-- `directives_in_type` (since fix 2e4a65e) returns exactly the directives applied inside the definition of the
    argument's type and inside the definitions of the types reached from it through input-object fields -/
theorem mem_directivesInType_iff (T : TsDoc) (t : TypeDef) (hc : TCanonical T t) (d : Directive) :
    d ∈ directivesInType T t ↔
      ∃ m u, InReach T t.name m ∧ lastTypeDef? T m = some u ∧ d ∈ directivesInTypeOld u :=
  ⟨fun h => ditWalk_sound T _ t [] hc h, fun ⟨_, _, hr, hu, hd⟩ => ditWalk_complete T t hc hr hu hd⟩

/-- the repaired function returns at least what the old one did -/
theorem directivesInTypeOld_sub (T : TsDoc) (t : TypeDef) (hc : TCanonical T t) :
    ∀ d ∈ directivesInTypeOld t, d ∈ directivesInType T t :=
  fun _ hd => ditWalk_complete T t hc (.refl _) hc hd

/-- for a type that is not an input object nothing changed -/
theorem directivesInType_of_not_input (T : TsDoc) (t : TypeDef) (hk : t.kind ≠ .input) :
    directivesInType T t = directivesInTypeOld t := by
  have hb : (t.kind == .input) = false := by simpa using hk
  simp [directivesInType, ditWalk, hb]

/-! ### the search as it was before fix 2e4a65e (for the pre-repair witness) -/

def recRoundOld (T : TsDoc) (start : Name) : List Name → List DirectiveDef → List Name × List Err × List DirectiveDef
  | seen, [] => (seen, [], [])
  | seen, d :: ds =>
    if seen.contains d.name then
      let r := recRoundOld T start seen ds
      (r.1, (if d.name == start then [(ErrKind.RecursingDirective, d.pos)] else []) ++ r.2.1, r.2.2)
    else
      let r := recRoundOld T start (d.name :: seen) ds
      (r.1, r.2.1, dirSuccessorsOld T d ++ r.2.2)

def recLoopOld (T : TsDoc) (start : Name) : Nat → List Name → List DirectiveDef → List Err
  | 0, _, _ => []
  | fuel + 1, seen, cur =>
    let r := recRoundOld T start seen cur
    if r.2.2.isEmpty then r.2.1 else r.2.1 ++ recLoopOld T start fuel r.1 r.2.2

/-- `check_directive_recursion` before fix 2e4a65e -/
def checkDirectiveRecursionOld (T : TsDoc) (d : DirectiveDef) : List Err :=
  recLoopOld T d.name (T.length + 2) [] [d]

def checkDirectiveDefOldRec (T : TsDoc) (S : Schema) (d : DirectiveDef) : List Err :=
  checkDirectiveRecursionOld T d ++
  (if reserved d.name then [(ErrKind.UnscoUnsco, d.namePos)] else []) ++
  checkArgsDef S d.args

def checkItemOldRec (T : TsDoc) (S : Schema) : TsItem → List Err
  | .schemaDef s => checkSchemaDef T S s
  | .typeDef t => checkTypeDef T S t
  | .directiveDef d => checkDirectiveDefOldRec T S d
  | .schemaExt _ => []
  | .typeExt _ => []

/-- `check_type_system_document` before fix 2e4a65e (`directives_in_type` looked into the argument's own type only) -/
def checkSchemaOldRec (T : TsDoc) : List Err :=
  checkUniqueNames T ++ T.flatMap (checkItemOldRec T ⟨T⟩)

end NitroVerif.CheckTs
