import NitroVerif.Lemmas.CheckOpCompleteSubscription
/-!
From the rules of the reference validator to the local facts of the walk (C04): what `SchemaValid` says in the
form the completeness lemmas use (`SchemaFacts`), the rules of `SpecValid` one by one (`Rules`), and from them
the quietness of `check_arguments` at every argument site, of `check_directives` at every directive site, and the
local facts `SelOK` for every selection of the document.
-/
namespace NitroVerif.CheckOp
open NitroVerif.Gql NitroVerif.CheckCommon NitroVerif.Valid

/-! ### the schema -/

structure SchemaFacts (S : Schema) : Prop where
  typeND : nodupB (S.typeDefs.map (·.name)) = true
  stringDefined : ∃ td, S.typeDef? "String" = some td ∧ td.kind = .scalar
  fieldTy : ∀ td ∈ S.typeDefs, ∀ f ∈ td.fields,
    (∃ ft, S.typeDef? f.ty.unwrapped = some ft ∧ Schema.isOutputKind ft.kind = true) ∧ ∀ a ∈ f.args, InputTy S a.ty
  inputTy : InputFieldsTyped S
  members : ∀ td ∈ S.typeDefs, ∀ m ∈ td.members, ∃ o, S.typeDef? m.1 = some o ∧ o.kind = .object
  dirArgs : ∀ dd ∈ S.directiveDefs, ∀ a ∈ dd.args, InputTy S a.ty
  roots : ∀ k td, S.typeDef? (S.rootName k) = some td → td.kind = .object

theorem inputTy_of_match {S : Schema} {t : GType}
    (h : (match S.kindOf? t.unwrapped with | some k => Schema.isInputKind k | none => false) = true) : InputTy S t := by
  unfold Schema.kindOf? at h
  cases ht : S.typeDef? t.unwrapped with
  | none => simp [ht] at h
  | some td => exact ⟨td, ht, by simpa [ht] using h⟩

theorem kindOf_beq_some {S : Schema} {n : Name} {k : TypeKind} (h : (S.kindOf? n == some k) = true) :
    ∃ td, S.typeDef? n = some td ∧ td.kind = k := by
  unfold Schema.kindOf? at h
  cases ht : S.typeDef? n with
  | none =>
    have : (Option.map (fun x => x.kind) (none : Option TypeDef) == some k) = false := rfl
    rw [ht, this] at h; cases h
  | some td =>
    refine ⟨td, rfl, ?_⟩
    rw [ht] at h
    simp only [Option.map_some] at h
    cases hk : td.kind <;> cases k <;> first | rfl | (rw [hk] at h; exact absurd h (by decide))

theorem schemaFacts_of_valid {S : Schema} (h : SchemaValid S) : SchemaFacts S := by
  unfold SchemaValid schemaValidB at h
  simp only [Bool.and_eq_true, List.all_eq_true] at h
  obtain ⟨_, _, ⟨⟨⟨⟨hnd, _⟩, hbi⟩, htds⟩, hdirs⟩, hroots⟩ := h
  refine ⟨hnd, ?_, ?_, ?_, ?_, ?_, ?_⟩
  · exact kindOf_beq_some (hbi "String" (by simp))
  · intro td htd f hf
    have hfs := (htds td htd).1.1.1.2
    obtain ⟨⟨hout, _⟩, hargs⟩ := hfs f hf
    refine ⟨?_, fun a ha => inputTy_of_match (hargs a ha)⟩
    unfold Schema.kindOf? at hout
    cases ht : S.typeDef? f.ty.unwrapped with
    | none => simp [ht] at hout
    | some ft => exact ⟨ft, rfl, by simpa [ht] using hout⟩
  · intro td htd a ha
    exact inputTy_of_match ((htds td htd).1.1.2 a ha)
  · intro td htd m hm
    exact kindOf_beq_some ((htds td htd).1.2 m hm)
  · intro dd hdd a ha
    exact inputTy_of_match ((hdirs dd hdd).2 a ha)
  · intro k td htd
    have := hroots k (by cases k <;> simp)
    rw [htd] at this
    exact kind_beq_object this

/-! ### the rules -/

structure Rules (S : Schema) (D : Doc) : Prop where
  r2_3_1 : rule_5_2_3_1 S D = true
  r3_1 : rule_5_3_1 S D = true
  r3_3 : rule_5_3_3 S D = true
  r4_1 : rule_5_4_1 S D = true
  r4_2 : rule_5_4_2 S D = true
  r4_2_1 : rule_5_4_2_1 S D = true
  r6_1 : rule_5_6_1 S D = true
  r6_2 : rule_5_6_2 S D = true
  r6_3 : rule_5_6_3 S D = true
  r6_4 : rule_5_6_4 S D = true
  r8_1 : rule_5_8_1 S D = true
  r8_2 : rule_5_8_2 S D = true
  r8_3 : rule_5_8_3 S D = true
  r8_5 : rule_5_8_5 S D = true
  r5_1_1 : rule_5_5_1_1 S D = true
  r5_1_2 : rule_5_5_1_2 S D = true
  r5_1_3 : rule_5_5_1_3 S D = true
  r5_2_1 : rule_5_5_2_1 S D = true
  r5_2_2 : rule_5_5_2_2 S D = true
  r5_2_3 : rule_5_5_2_3 S D = true
  r7_1 : rule_5_7_1 S D = true
  r7_2 : rule_5_7_2 S D = true
  r7_3 : rule_5_7_3 S D = true

theorem rules_of_valid {S : Schema} {D : Doc} (hv : SpecValid S D) : Rules S D := by
  have hall : ∀ r ∈ ruleTable ++ extraRuleTable, r.2 S D = true := by
    unfold SpecValid specValidB at hv
    exact List.all_eq_true.mp hv
  exact {
    r2_3_1 := hall ("5.2.3.1", rule_5_2_3_1) (by simp [ruleTable])
    r3_1 := hall ("5.3.1", rule_5_3_1) (by simp [ruleTable])
    r3_3 := hall ("5.3.3", rule_5_3_3) (by simp [ruleTable])
    r4_1 := hall ("5.4.1", rule_5_4_1) (by simp [ruleTable])
    r4_2 := hall ("5.4.2", rule_5_4_2) (by simp [ruleTable])
    r4_2_1 := hall ("5.4.2.1", rule_5_4_2_1) (by simp [ruleTable])
    r6_1 := hall ("5.6.1", rule_5_6_1) (by simp [ruleTable])
    r6_2 := hall ("5.6.2", rule_5_6_2) (by simp [ruleTable])
    r6_3 := hall ("5.6.3", rule_5_6_3) (by simp [ruleTable])
    r6_4 := hall ("5.6.4", rule_5_6_4) (by simp [ruleTable])
    r8_1 := hall ("5.8.1", rule_5_8_1) (by simp [ruleTable])
    r8_2 := hall ("5.8.2", rule_5_8_2) (by simp [ruleTable])
    r8_3 := hall ("5.8.3", rule_5_8_3) (by simp [ruleTable])
    r8_5 := hall ("5.8.5", rule_5_8_5) (by simp [ruleTable])
    r5_1_1 := hall ("5.5.1.1", rule_5_5_1_1) (by simp [ruleTable])
    r5_1_2 := hall ("5.5.1.2", rule_5_5_1_2) (by simp [ruleTable])
    r5_1_3 := hall ("5.5.1.3", rule_5_5_1_3) (by simp [ruleTable])
    r5_2_1 := hall ("5.5.2.1", rule_5_5_2_1) (by simp [ruleTable])
    r5_2_2 := hall ("5.5.2.2", rule_5_5_2_2) (by simp [ruleTable])
    r5_2_3 := hall ("5.5.2.3", rule_5_5_2_3) (by simp [ruleTable])
    r7_1 := hall ("5.7.1", rule_5_7_1) (by simp [ruleTable])
    r7_2 := hall ("5.7.2", rule_5_7_2) (by simp [ruleTable])
    r7_3 := hall ("5.7.3", rule_5_7_3) (by simp [ruleTable]) }

/-! ### argument sites -/

theorem typedValuesOf_of_mem {sites : List ArgSite} {site : ArgSite} {tv : TypedValue} (hs : site ∈ sites)
    (h : tv ∈ typedValuesOf [site]) : tv ∈ typedValuesOf sites := by
  simp only [typedValuesOf, List.mem_flatMap] at h ⊢
  obtain ⟨s', hs', h'⟩ := h
  simp at hs'; subst hs'
  exact ⟨_, hs, h'⟩

theorem fieldDef?_cases {S : Schema} {t n : Name} {fd : FieldDef} (h : fieldDef? S t n = some fd) :
    fd = typenameMeta ∨ ∃ td ∈ S.typeDefs, fd ∈ td.fields := by
  unfold fieldDef? at h
  cases ht : S.typeDef? t with
  | none => simp [ht] at h
  | some td =>
    have hmem := typeDef?_mem ht
    simp only [ht] at h
    have key : ∀ (r : Option FieldDef), r = some fd →
        (r = some typenameMeta ∨ r = td.fields.find? (·.name == n)) → fd = typenameMeta ∨ ∃ td ∈ S.typeDefs, fd ∈ td.fields := by
      intro r hr hcase
      rcases hcase with hc | hc
      · rw [hc] at hr; cases hr; exact Or.inl rfl
      · rw [hc] at hr; exact Or.inr ⟨td, hmem, List.mem_of_find?_eq_some hr⟩
    cases hk : td.kind <;> simp only [hk] at h
    · cases h
    · split at h
      · exact key _ h (Or.inl rfl)
      · exact key _ h (Or.inr rfl)
    · split at h
      · exact key _ h (Or.inl rfl)
      · exact key _ h (Or.inr rfl)
    · split at h
      · exact key _ h (Or.inl rfl)
      · cases h
    · cases h
    · cases h

/-- the argument definitions of every argument site have input types -/
theorem argSites_defs_typed {S : Schema} (SF : SchemaFacts S) (D : Doc) :
    ∀ site ∈ argSites S D, ∀ d ∈ site.defs, InputTy S d.ty := by
  intro site hs
  simp only [argSites, List.mem_append] at hs
  rcases hs with hs | hs
  · simp only [fieldArgSites, List.mem_filterMap] at hs
    obtain ⟨ps, _, hsite⟩ := hs
    obtain ⟨p, s⟩ := ps
    cases p with
    | none => simp at hsite
    | some t =>
      cases s with
      | spread => simp at hsite
      | inline => simp at hsite
      | field al name namePos args dirs sel =>
        simp only at hsite
        cases hfd : fieldDef? S t name with
        | none => simp [hfd] at hsite
        | some fd =>
          simp only [hfd, Option.map_some, Option.some.injEq] at hsite
          subst hsite
          rcases fieldDef?_cases hfd with rfl | ⟨td, htd, hf⟩
          · intro d hd; simp [typenameMeta] at hd
          · exact (SF.fieldTy td htd fd hf).2
  · simp only [dirArgSites, List.mem_flatMap, List.mem_filterMap] at hs
    obtain ⟨ds, _, d, _, hsite⟩ := hs
    cases hdd : S.directiveDef? d.name with
    | none => simp [hdd] at hsite
    | some dd =>
      simp only [hdd, Option.map_some, Option.some.injEq] at hsite
      subst hsite
      exact SF.dirArgs dd (directiveDef?_mem hdd)

section
variable {S : Schema} {D : Doc} (hS : SchemaValid S) (R : Rules S D)
include hS R

/-- every typed value of the document has no 5.6.x issue -/
theorem typedValues_clean : ∀ tv ∈ typedValues S D, valueIssues S tv.value tv.ty = [] := by
  intro tv htv
  have h1 := List.all_eq_true.mp R.r6_1 tv htv
  have h2 := List.all_eq_true.mp R.r6_2 tv htv
  have h3 := List.all_eq_true.mp R.r6_3 tv htv
  have h4 := List.all_eq_true.mp R.r6_4 tv htv
  simp only [Bool.not_eq_true'] at h1 h2 h3 h4
  exact valueIssues_nil h1 h2 h3 h4

/-- `check_arguments` is quiet at every argument site whose argument names are unique and whose variable usages
    are handled quietly -/
theorem argSite_quiet {A : ErrKind → Bool} {vars : Option (List VarDef)} {site : ArgSite}
    (hs : site ∈ argSites S D) (hnd : nodupB (site.args.map (·.1)) = true) (hu : UsesOK S A vars [site]) (pos : Pos) :
    Quiet A (checkArguments S vars pos site.args site.defs) := by
  have SF := schemaFacts_of_valid hS
  apply checkArguments_complete (schemaValid_uniqueArgs hS) SF.inputTy pos
    (argSites_defs_nodup hS D site hs) (argSites_defs_typed SF D site hs)
  · exact fun a ha => List.all_eq_true.mp (List.all_eq_true.mp R.r4_1 site hs) a ha
  · exact hnd
  · intro d hd hreq
    have := List.all_eq_true.mp (List.all_eq_true.mp R.r4_2_1 site hs) d hd
    simpa [hreq] using this
  · intro tv htv
    apply typedValues_clean hS R
    simp only [typedValues, List.mem_append]
    exact Or.inl (typedValuesOf_of_mem hs htv)
  · exact hu

/-- `check_directives` is quiet at every directive site whose variable usages are handled quietly -/
theorem dirSite_ok {A : ErrKind → Bool} {vars : Option (List VarDef)} {site : String × List Directive}
    (hs : site ∈ dirSites S D) (hu : UsesOK S A vars (dirArgSites S [site])) : DirListOK S A vars site.1 site.2 := by
  refine ⟨?_, List.all_eq_true.mp R.r7_3 site hs⟩
  intro d hd
  have h1 := List.all_eq_true.mp (List.all_eq_true.mp R.r7_1 site hs) d hd
  have h2 := List.all_eq_true.mp (List.all_eq_true.mp R.r7_2 site hs) d hd
  cases hdd : S.directiveDef? d.name with
  | none => simp [hdd] at h1
  | some dd =>
    simp only [hdd] at h2
    refine ⟨dd, rfl, h2, ?_⟩
    have hmem1 : (⟨d.args, dd.args⟩ : ArgSite) ∈ dirArgSites S [site] := by
      simp only [dirArgSites, List.flatMap_cons, List.flatMap_nil, List.append_nil, List.mem_filterMap]
      exact ⟨d, hd, by simp [hdd]⟩
    have hmem2 : (⟨d.args, dd.args⟩ : ArgSite) ∈ argSites S D := by
      simp only [argSites, List.mem_append]
      right
      simp only [dirArgSites, List.mem_flatMap, List.mem_filterMap]
      exact ⟨site, hs, d, hd, by simp [hdd]⟩
    have hnd : nodupB (d.args.map (·.1)) = true := by
      have := R.r4_2
      unfold rule_5_4_2 at this
      refine List.all_eq_true.mp this d.args (List.mem_append_right _ ?_)
      simp only [rule_5_4_2.dirArgSitesAll, List.mem_flatMap, List.mem_map]
      exact ⟨site, hs, d, hd, rfl⟩
    exact argSite_quiet hS R (site := ⟨d.args, dd.args⟩) hmem2 hnd
      (usesOK_mono (fun s hs' => by simp at hs'; subst hs'; exact hmem1) hu) d.pos

theorem dirSite_quiet {A : ErrKind → Bool} {vars : Option (List VarDef)} {loc : String} {ds : List Directive}
    (hs : (loc, ds) ∈ dirSites S D) (hu : UsesOK S A vars (dirArgSites S [(loc, ds)])) :
    Quiet A (checkDirectives S vars ds loc) :=
  checkDirectives_complete (dirSite_ok hS R hs hu)

/-- the argument names of every argument site are pairwise different (5.4.2) -/
theorem argSites_args_nodup : ∀ site ∈ argSites S D, nodupB (site.args.map (·.1)) = true := by
  intro site hs
  have h42 := R.r4_2
  unfold rule_5_4_2 at h42
  simp only [argSites, List.mem_append] at hs
  rcases hs with hs | hs
  · simp only [fieldArgSites, List.mem_filterMap] at hs
    obtain ⟨ps, hps, hsite⟩ := hs
    obtain ⟨p, s⟩ := ps
    cases p with
    | none => simp at hsite
    | some t =>
      cases s with
      | spread => simp at hsite
      | inline => simp at hsite
      | field al name namePos args dirs sel =>
        simp only at hsite
        cases hfd : fieldDef? S t name with
        | none => simp [hfd] at hsite
        | some fd =>
          simp only [hfd, Option.map_some, Option.some.injEq] at hsite
          subst hsite
          refine List.all_eq_true.mp h42 args (List.mem_append_left _ ?_)
          simp only [rule_5_4_2.fieldArgSitesAll, List.mem_filterMap]
          exact ⟨_, hps, rfl⟩
  · simp only [dirArgSites, List.mem_flatMap, List.mem_filterMap] at hs
    obtain ⟨ds, hds, d, hd, hsite⟩ := hs
    cases hdd : S.directiveDef? d.name with
    | none => simp [hdd] at hsite
    | some dd =>
      simp only [hdd, Option.map_some, Option.some.injEq] at hsite
      subst hsite
      refine List.all_eq_true.mp h42 d.args (List.mem_append_right _ ?_)
      simp only [rule_5_4_2.dirArgSitesAll, List.mem_flatMap, List.mem_map]
      exact ⟨ds, hds, d, hd, rfl⟩

/-- field lookup (5.3.1) and the leaf / composite rule (5.3.3) for a field selected with the type `t` in scope -/
theorem field_lookup_ok {t : Name} {al : Option (Name × Pos)} {name : Name} {namePos : Pos} {args : List Arg}
    {dirs : List Directive} {sel : Option (List Selection)}
    (hps : (some t, Selection.field al name namePos args dirs sel) ∈ allSels (allCtxs S D)) :
    ∃ fd, fieldDef? S t name = some fd ∧ ∃ ft, S.typeDef? fd.ty.unwrapped = some ft ∧
      sel.isSome = (directFields ft).isSome := by
  have SF := schemaFacts_of_valid hS
  have h31 := List.all_eq_true.mp R.r3_1 _ hps
  simp only at h31
  cases hfd : fieldDef? S t name with
  | none => simp [hfd] at h31
  | some fd =>
    refine ⟨fd, rfl, ?_⟩
    have hft : ∃ ft, S.typeDef? fd.ty.unwrapped = some ft ∧ Schema.isOutputKind ft.kind = true := by
      rcases fieldDef?_cases hfd with rfl | ⟨td, htd, hf⟩
      · obtain ⟨st, hst, hk⟩ := SF.stringDefined
        exact ⟨st, by simpa [typenameMeta, GType.unwrapped] using hst, by rw [hk]; rfl⟩
      · exact (SF.fieldTy td htd fd hf).1
    obtain ⟨ft, hft, hout⟩ := hft
    refine ⟨ft, hft, ?_⟩
    have h33 := List.all_eq_true.mp R.r3_3 _ hps
    simp only [hfd, Schema.kindOf?, hft, Option.map_some] at h33
    unfold directFields
    cases hk : ft.kind <;> simp [hk, isLeafKind, isCompositeKind, Schema.isOutputKind] at h33 hout ⊢ <;>
      simp [h33]
end

/-! ### selections -/

/-- the argument sites of one selection: its own argument list (a field) and those of its directives -/
def selArgSites (S : Schema) (ps : Option Name × Selection) : List ArgSite :=
  fieldArgSites S [⟨ps.1, [ps.2]⟩] ++ dirArgSites S [selDirSite ps.2]

theorem selArgSites_sub {S : Schema} {C : List Ctx} {ps : Option Name × Selection} (h : ps ∈ allSels C) :
    ∀ x ∈ selArgSites S ps, x ∈ fieldArgSites S C ++ dirArgSites S (ctxDirSites C) := by
  intro x hx
  simp only [selArgSites, List.mem_append] at hx ⊢
  rcases hx with hx | hx
  · left
    simp only [fieldArgSites, List.mem_filterMap] at hx ⊢
    obtain ⟨a, ha, hax⟩ := hx
    simp [allSels] at ha
    subst ha
    exact ⟨_, h, hax⟩
  · right
    simp only [dirArgSites, List.mem_flatMap] at hx ⊢
    obtain ⟨site, hsite, hx⟩ := hx
    simp at hsite; subst hsite
    exact ⟨_, List.mem_map.mpr ⟨ps, h, rfl⟩, hx⟩

theorem applicability_of_canApply {S : Schema} (SF : SchemaFacts S) (hNE : noEmptyUnionB S = true)
    {t c : Name} {root ct : TypeDef} (pos : Pos) (ht : S.typeDef? t = some root) (hc : S.typeDef? c = some ct)
    (hck : isCompositeKind ct.kind = true) (h : canApply S t c = true) :
    (spreadApplicability S root ct pos).1 = [] := by
  cases hrk : isCompositeKind root.kind with
  | true => exact applicability_complete SF.typeND SF.members hNE pos ht hc hrk hck h
  | false =>
    unfold spreadApplicability
    cases hk : root.kind <;> simp [hk, isCompositeKind] at hrk ⊢

section
variable {S : Schema} {D : Doc} (hS : SchemaValid S) (hNE : noEmptyUnionB S = true) (R : Rules S D)
include hS hNE R

theorem doc_fragNames_nodup : nodupB (fragNamesOf D) = true := by
  simpa [rule_5_5_1_1, fragNamesOf, frags_eq] using R.r5_1_1

/-- type conditions are existing composite types -/
theorem typeCondition_ok {c : Name} (hc : c ∈ typeConditions S D) :
    ∃ ct, S.typeDef? c = some ct ∧ isCompositeKind ct.kind = true := by
  have e1 := List.all_eq_true.mp R.r5_1_2 _ hc
  have e2 := List.all_eq_true.mp R.r5_1_3 _ hc
  cases ht : S.typeDef? c with
  | none => simp [ht] at e1
  | some ct => exact ⟨ct, rfl, by simpa [Schema.kindOf?, ht] using e2⟩

/-- **Local facts of every selection of the document.** -/
theorem selOK_of_valid {A : ErrKind → Bool} {vars : Option (List VarDef)} {ps : Option Name × Selection}
    (hps : ps ∈ allSels (allCtxs S D)) (hu : UsesOK S A vars (selArgSites S ps)) : SelOK S D A vars ps := by
  have SF := schemaFacts_of_valid hS
  have hdirsite : selDirSite ps.2 ∈ dirSites S D := by
    simp only [dirSites, List.mem_append, ctxDirSites]
    exact Or.inr (List.mem_map.mpr ⟨ps, hps, rfl⟩)
  have hudir : UsesOK S A vars (dirArgSites S [selDirSite ps.2]) :=
    usesOK_mono (fun s hs => by simp only [selArgSites, List.mem_append]; exact Or.inr hs) hu
  obtain ⟨p, s⟩ := ps
  cases p with
  | none => simp [SelOK]
  | some t =>
    cases s with
    | field al name namePos args dirs sel =>
      simp only [SelOK]
      obtain ⟨fd, hfd, hrest⟩ := field_lookup_ok hS R hps
      have hsite : (⟨args, fd.args⟩ : ArgSite) ∈ fieldArgSites S (allCtxs S D) := by
        simp only [fieldArgSites, List.mem_filterMap]
        exact ⟨_, hps, by simp [hfd]⟩
      have hsite1 : (⟨args, fd.args⟩ : ArgSite) ∈ selArgSites S (some t, .field al name namePos args dirs sel) := by
        simp only [selArgSites, List.mem_append, fieldArgSites, List.mem_filterMap]
        left
        exact ⟨(some t, .field al name namePos args dirs sel), by simp [allSels], by simp [hfd]⟩
      have hsite2 : (⟨args, fd.args⟩ : ArgSite) ∈ argSites S D := by
        simp only [argSites, List.mem_append]; exact Or.inl hsite
      refine ⟨fd, hfd, dirSite_quiet hS R hdirsite hudir, ?_, hrest⟩
      intro pos
      exact argSite_quiet hS R (site := ⟨args, fd.args⟩) hsite2 (argSites_args_nodup hS R _ hsite2)
        (usesOK_mono (fun s hs' => by simp at hs'; subst hs'; exact hsite1) hu) pos
    | spread name namePos dirs pos =>
      simp only [SelOK]
      refine ⟨dirSite_quiet hS R hdirsite hudir, ?_⟩
      intro root f ct hroot hf hct
      have h523 := List.all_eq_true.mp R.r5_2_3 _ hps
      simp only [frag?_eq_fragMap (doc_fragNames_nodup hS hNE R), hf] at h523
      have hcond : f.cond ∈ typeConditions S D := by
        simp only [typeConditions, List.mem_append, List.mem_map]
        exact Or.inl ⟨f, by rw [frags_eq]; exact (fragMap_mem hf).1, rfl⟩
      obtain ⟨ct', hct', hck⟩ := typeCondition_ok hS hNE R hcond
      rw [hct] at hct'; cases hct'
      exact applicability_of_canApply SF hNE pos hroot hct hck h523
    | inline cond dirs ss pos =>
      simp only [SelOK]
      refine ⟨dirSite_quiet hS R hdirsite hudir, ?_⟩
      cases cond with
      | none => trivial
      | some cc =>
        obtain ⟨c, cp⟩ := cc
        simp only
        have hcond : c ∈ typeConditions S D := by
          simp only [typeConditions, List.mem_append, List.mem_filterMap]
          exact Or.inr ⟨_, hps, rfl⟩
        obtain ⟨ct, hct, hck⟩ := typeCondition_ok hS hNE R hcond
        refine ⟨ct, hct, isComposite_directFields hck, ?_⟩
        intro root hroot
        have h523 := List.all_eq_true.mp R.r5_2_3 _ hps
        simp only at h523
        exact applicability_of_canApply SF hNE pos hroot hct hck h523
end

end NitroVerif.CheckOp
