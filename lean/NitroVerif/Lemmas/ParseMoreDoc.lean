/-
Executable documents WITH `#import` statements and an optional final unterminated comment (helper lemmas for Props/C07
`parse_render_operation_document_full`): `ExecutableDocument = SOI ~ ExecutableDefinition+ ~ EOI` on the rendering of ANY
list of operations, fragments and import statements, in any order, through `parse_operation_document` (`parseOp`).

The induction over the definitions goes from the LAST one to the first: what follows the trailing gap of a definition is the
next definition — a token, or an import statement in front of which the implicit skip stops (`impT`, second part) — or the
end of the input, possibly after a final comment without line terminator (`tail_of_eofComment`); in every case a `Tail`.
-/
import NitroVerif.Lemmas.ParseMoreImp
import NitroVerif.Lemmas.ParseDocErase
namespace NitroVerif.DocParse
open NitroVerif.Peg NitroVerif.Gen NitroVerif.Gen.Parts NitroVerif.Build NitroVerif.TypeParse NitroVerif.StringParse
open NitroVerif.Gql NitroVerif.ValueParse NitroVerif.Spec.Lex NitroVerif.ParseText

set_option linter.unusedSimpArgs false
set_option linter.unusedVariables false

variable {inp : List Char}

theorem Tail.mono {n m E : Nat} {c' : Cur} (h : Tail inp n E c') (hnm : n ≤ m) : Tail inp m E c' :=
  ⟨h.ws, h.run.mono hnm⟩

/-- the text of a definition, import statements included -/
def rDefF (τ : Trivia) (sh : Nat → Bool) (sp : Nat → Nat) : Bool → Nat → ExecDef → List Char
  | sep, p, .imp i => rImp τ sp sep p i
  | sep, p, .op o => rDef τ sh sep p (.op o)
  | sep, p, .frag f => rDef τ sh sep p (.frag f)

def wpDefF (τ : Trivia) (inp : List Char) (sh : Nat → Bool) (sp : Nat → Nat) : Bool → Nat → ExecDef → ExecDef
  | _, p, .imp i => .imp (wpImp τ sp inp p i)
  | s, p, .op o => wpDef τ inp sh s p (.op o)
  | s, p, .frag f => wpDef τ inp sh s p (.frag f)

/-- well-formed definitions, import statements included -/
def WFDefF : ExecDef → Prop
  | .op o => WFOp o
  | .frag f => WFFrag f
  | .imp i => WFImp i

theorem hd_rDefF (τ : Trivia) (sh : Nat → Bool) (sp : Nat → Nat) (sep : Bool) (p : Nat) (d : ExecDef) (hwf : WFDefF d) :
    Hd (fun c => c ≠ '"' ∧ ¬ wsChar c ∧ (c = '#' ∨ ¬ trivia c)) (rDefF τ sh sp sep p d) := by
  cases d with
  | op o =>
    simp only [rDefF, rDef]
    split
    · exact (hd_rSelSet τ sep p o.sel).mono (by rintro c rfl; decide)
    · simp only [rOp]
      exact Hd.append (hd_tk ((hd_opKw o.kind).mono (by rintro c (rfl | rfl | rfl) <;> decide))) _
  | frag f =>
    simp only [rDefF, rDef, rFrag]
    exact Hd.append (hd_tk (hd_cons _ (by decide))) _
  | imp i => exact (hd_rImp τ sp sep p i).mono (by rintro c rfl; decide)

/-- one definition followed by a `Tail`: the round trip, and the fact that a skip arriving in front of it stops there -/
theorem defTF (τ : Trivia) (hτ : ∀ q, Ws (τ q)) (sh : Nat → Bool) (sp : Nat → Nat) (d : ExecDef) (hwf : WFDefF d)
    (sep : Bool) (p n : Nat) (c' : Cur) (h : HasAt inp p (rDefF τ sh sp sep p d))
    (ht : Tail inp n (p + (rDefF τ sh sp sep p d).length) c')
    (hq : HeadNot (· = '"') (inp.drop (p + (rDefF τ sh sp sep p d).length))) :
    DefOk' inp p (rDefF τ sh sp sep p d) n c' (wpDefF τ inp sh sp sep p d) ∧
    Tail inp (B (rDefF τ sh sp sep p d).length + 63) p (At inp p) := by
  cases d with
  | op o =>
    have hT : Tok (At inp p) := by
      refine tok_of_hd h ?_ (fun _ h => h)
      simp only [rDefF, rDef]
      split
      · exact (hd_rSelSet τ sep p o.sel).mono (by rintro c rfl; decide)
      · simp only [rOp]
        exact Hd.append (hd_tk ((hd_opKw o.kind).mono (by rintro c (rfl | rfl | rfl) <;> decide))) _
    refine ⟨?_, (tail_of_tok hT).mono (by simp [B])⟩
    simp only [rDefF, wpDefF, rDef, wpDef] at h ht ⊢
    split
    · rename_i hc
      rw [if_pos hc] at h ht
      exact opShortT' τ hτ o hwf.2.2.2.1 hwf.2.2.2.2 h ht
    · rename_i hc
      rw [if_neg hc] at h ht
      exact opT' τ hτ o hwf h ht
  | frag f =>
    have hT : Tok (At inp p) := by
      refine tok_of_hd h ?_ (fun _ h => h)
      simp only [rDefF, rDef, rFrag]
      exact Hd.append (hd_tk (hd_cons _ (by decide))) _
    exact ⟨fragT' τ hτ f hwf h ht, (tail_of_tok hT).mono (by simp [B])⟩
  | imp i =>
    obtain ⟨h1, h2⟩ := impT τ hτ sp i hwf h ht hq
    refine ⟨h1, (tail_of_stop ?_ h2).mono (by simp only [rDefF]; omega)⟩
    exact headNot_of_hd h (hd_rImp τ sp sep p i) (by rintro c rfl; decide)

/-- the definitions of a document from the offset `p` on, up to a `Tail` that leads to the cursor `cE` where
    `ExecutableDefinition` fails (the end of the input) -/
theorem defs_many (τ : Trivia) (hτ : ∀ q, Ws (τ q)) (sh : Nat → Bool) (sp : Nat → Nat) (n0 : Nat) (cE : Cur)
    (htokE : Tok cE) (hfailE : Fails gList 60 true (.call R.ExecutableDefinition) .nonAtomic cE) :
    ∀ (ds : List ExecDef) (d : ExecDef) (p : Nat), (∀ x ∈ d :: ds, WFDefF x) →
      HasAt inp p (renderItems (rDefF τ sh sp) false false p (d :: ds)) →
      Tail inp n0 (p + (renderItems (rDefF τ sh sp) false false p (d :: ds)).length) cE →
      HeadNot (· = '"') (inp.drop (p + (renderItems (rDefF τ sh sp) false false p (d :: ds)).length)) →
      ∃ pss, Many1K (.call R.ExecutableDefinition)
          (B (renderItems (rDefF τ sh sp) false false p (d :: ds)).length + 210 + n0) (At inp p) cE pss ∧
        GoodItems (rDefF τ sh sp) false false (DefGood inp (rDefF τ sh sp) (wpDefF τ inp sh sp)) p (d :: ds) pss ∧
        Tail inp (B (renderItems (rDefF τ sh sp) false false p (d :: ds)).length + 63) p (At inp p) := by
  intro ds
  induction ds with
  | nil =>
    intro d p hwf hat hT hq
    simp only [renderItems] at hat hT hq ⊢
    obtain ⟨⟨pr, hr, hok, hb⟩, htl⟩ := defTF τ hτ sh sp d (hwf d (List.mem_cons_self ..)) false p n0 cE hat hT hq
    refine ⟨[pr], ⟨_, 60, cE, [pr], [], ?_, ?_, hr, .nil hfailE htokE, rfl⟩, ⟨pr, rfl, hok, hb⟩, htl⟩
    · omega
    · simp [B]; omega
  | cons d2 ds ih =>
    intro d p hwf hat hT hq
    rw [renderItems_cons2] at hat hT hq ⊢
    generalize hta : rDefF τ sh sp false p d = ta at *
    generalize hrest : renderItems (rDefF τ sh sp) false false (p + ta.length) (d2 :: ds) = tl at *
    have h1 : HasAt inp p ta := hat.left
    have h3 : HasAt inp (p + ta.length) tl := hat.right
    have hlen : p + (ta ++ tl).length = p + ta.length + tl.length := by simp; omega
    rw [hlen] at hT hq
    obtain ⟨pss2, hmany2, hgood2, htl2⟩ := ih d2 (p + ta.length) (fun x hx => hwf x (List.mem_cons_of_mem _ hx))
      (hrest ▸ h3) (by rw [hrest]; exact hT) (by rw [hrest]; exact hq)
    rw [hrest] at hmany2 htl2
    -- the next definition does not begin with `"`
    obtain ⟨s', tail, htail⟩ := renderItems_cons (rDefF τ sh sp) false false (p + ta.length) d2 ds
    have hd2 := hd_rDefF τ sh sp s' (p + ta.length) d2 (hwf d2 (List.mem_cons_of_mem _ (List.mem_cons_self ..)))
    have hq1 : HeadNot (· = '"') (inp.drop (p + ta.length)) := by
      refine headNot_of_hd h3 (P := fun c => c ≠ '"' ∧ ¬ wsChar c ∧ (c = '#' ∨ ¬ trivia c)) ?_ (fun c hc => hc.1)
      rw [← hrest, htail]; exact hd2.append _
    obtain ⟨⟨pr, hr, hok, hb⟩, htl1⟩ := defTF τ hτ sh sp d (hwf d (List.mem_cons_self ..)) false p _ _ (hta ▸ h1)
      (by rw [hta]; exact htl2) (by rw [hta]; exact hq1)
    rw [hta] at hr hb htl1
    obtain ⟨k, hk, hmany2'⟩ := hmany2.many
    have h1len : 1 ≤ ta.length := by
      have := (hd_rDefF τ sh sp false p d (hwf d (List.mem_cons_self ..))).length_pos
      rw [hta] at this; exact this
    refine ⟨pr :: pss2, ⟨_, k, _, [pr], pss2, ?_, ?_, hr, hmany2', rfl⟩, ⟨pr, pss2, rfl, ⟨hok, by rw [hta]; exact hb⟩, ?_⟩,
      htl1.mono ?_⟩
    · simp [B]; omega
    · simp [B] at hk ⊢; omega
    · rw [hta]; exact hgood2
    · simp [B]; omega

/-! ### the document -/

/-- a final comment without line terminator: `#` and its text -/
def eofText : Option (List Char) → List Char
  | none => []
  | some b => '#' :: b

/-- leading trivia, then the definitions (operations, fragments, import statements), each token followed by its gap, then
    optionally a final comment that is not terminated by a line break -/
def rDocF (τ : Trivia) (sh : Nat → Bool) (sp : Nat → Nat) (doc : List ExecDef) (eof : Option (List Char)) : List Char :=
  τ 0 ++ (renderItems (rDefF τ sh sp) false false (τ 0).length doc ++ eofText eof)

def wpDocF (τ : Trivia) (sh : Nat → Bool) (sp : Nat → Nat) (inp : List Char) (doc : List ExecDef) : Doc :=
  mapItems (rDefF τ sh sp) false false (wpDefF τ inp sh sp) (τ 0).length doc

theorem docF_parse (τ : Trivia) (hτ : ∀ q, Ws (τ q)) (sh : Nat → Bool) (sp : Nat → Nat) (doc : List ExecDef) (hne : doc ≠ [])
    (hwf : ∀ d ∈ doc, WFDefF d) (eof : Option (List Char)) (heof : ∀ b ∈ eof, EofComment b) :
    ∃ pr, Peg.parse gList (defaultFuel (rDocF τ sh sp doc eof)) R.ExecutableDocument (rDocF τ sh sp doc eof) = .pairs [pr] ∧
      CleanP pr ∧ buildOperationDocument (Ctx.spec (rDocF τ sh sp doc eof)) (4 * (rDocF τ sh sp doc eof).length + 64) [pr] =
        .ok (wpDocF τ sh sp (rDocF τ sh sp doc eof) doc) := by
  cases doc with
  | nil => exact absurd rfl hne
  | cons a r =>
    generalize hinp : rDocF τ sh sp (a :: r) eof = inp
    have hI : inp = τ 0 ++ (renderItems (rDefF τ sh sp) false false (τ 0).length (a :: r) ++ eofText eof) := by
      rw [← hinp]; rfl
    generalize hG : τ 0 = g at hI
    generalize hT : renderItems (rDefF τ sh sp) false false g.length (a :: r) = tI at hI
    generalize hEt : eofText eof = tE at hI
    have hg : HasAt inp 0 g := ⟨tI ++ tE, by simpa using hI⟩
    have hat : HasAt inp (0 + g.length) tI := ⟨tE, by rw [hI]; simp⟩
    have hdropE : inp.drop (0 + g.length + tI.length) = tE := by rw [hI]; simp [← List.append_assoc]
    have hlenI : inp.length = g.length + tI.length + tE.length := by rw [hI]; simp; omega
    -- what follows the last definition
    obtain ⟨n0, qE, hn0, hTail, hendE⟩ : ∃ n0 qE, n0 ≤ tE.length + 60 ∧
        Tail inp n0 (0 + g.length + tI.length) (At inp qE) ∧ inp.drop qE = [] := by
      cases eof with
      | none =>
        have htE : tE = [] := by rw [← hEt]; rfl
        subst htE
        have hend : inp.drop (0 + g.length + tI.length) = [] := hdropE
        have htok : Tok (At inp (0 + g.length + tI.length)) := by
          simp only [Tok, At]; rw [hend]; exact headNot_nil _
        exact ⟨13, _, by omega, tail_of_tok htok, hend⟩
      | some b =>
        have htE : tE = '#' :: b := by rw [← hEt]; rfl
        have hb := heof b rfl
        have hd : inp.drop (0 + g.length + tI.length) = '#' :: b := by rw [hdropE, htE]
        refine ⟨b.length + 60, _, by rw [htE]; simp, tail_of_eofComment hd hb, ?_⟩
        have : inp.drop (0 + g.length + tI.length + ('#' :: b).length) = [] := by
          rw [← List.drop_drop, hd]; simp
        have e : 0 + g.length + tI.length + 1 + b.length = 0 + g.length + tI.length + ('#' :: b).length := by simp; omega
        rw [e]; exact this
    have htokE : Tok (At inp qE) := by simp only [Tok, At]; rw [hendE]; exact headNot_nil _
    have hqE : HeadNot (· = '"') (inp.drop (0 + g.length + tI.length)) := by
      rw [hdropE, ← hEt]
      cases eof with
      | none => exact headNot_nil _
      | some b => exact headNot_cons (by decide) _
    obtain ⟨pss, hmany, hgood, htl0⟩ := defs_many τ hτ sh sp n0 (At inp qE) htokE (execDef_fails_eoi hendE) r a (0 + g.length)
      hwf (by simpa [hT] using hat) (by simpa [hT] using hTail) (by simpa [hT] using hqE)
    simp only [Nat.zero_add, hT] at hmany hgood htl0
    -- SOI and the leading trivia
    have r0 : RunsK (g.length + 60 + (B tI.length + 63)) .soi (At inp 0) (At inp g.length) [] :=
      ⟨At inp 0, (runs_soi true .nonAtomic (At inp 0) rfl).mono (by omega),
        htl0.skip hg (hG ▸ hτ 0) (by omega)⟩
    -- EOI
    have rE : RunsK 23 (.call R.EOI) (At inp qE) (At inp qE) [.mk R.EOI qE qE []] := by
      have hr : (At inp qE).rest = [] := by simpa [At] using hendE
      exact ⟨At inp qE,
        (runs_call (runsRule_normal look_EOI (nsp (by decide) (by decide)) (runs_eoi true .nonAtomic _ hr))).mono
          (by omega), (skipTo_self htokE).mono (by omega)⟩
    obtain ⟨e, rD⟩ := runsK_rule look_ExecutableDocument (by decide) (by decide)
      (runsK_seq r0 (runsK_seq (runsK_plus1 hmany) rE))
    obtain ⟨c1, hruns, _⟩ := rD
    obtain ⟨tr', hh⟩ := hruns {}
    have hfuel : max (g.length + 60 + (B tI.length + 63)) (max (max (B tI.length + 210 + n0) 20 + 4) 23 + 1) + 1 + 2 ≤
        defaultFuel inp + 1 := by
      simp only [defaultFuel, B, hlenI]; omega
    have hp := hh (defaultFuel inp + 1) hfuel
    simp only [eval, At, List.drop_zero] at hp
    have hrule : ∀ x ∈ pss, x.rule = R.ExecutableDefinition :=
      goodItems_forall (rDefF τ sh sp) false false _ (fun x => x.rule = R.ExecutableDefinition) (a :: r)
        (fun x _ s q pr hgd => hgd.1.rule) _ pss hgood
    have hclean : CleanL pss := goodItems_clean (rDefF τ sh sp) false false _ (a :: r)
      (fun x _ s q pr hgd => hgd.1.clean) _ pss hgood
    refine ⟨.mk R.ExecutableDocument 0 e ([] ++ (pss ++ [Pair.mk R.EOI qE qE []])),
      by simp [Peg.parse, runTr, hp], ?_, ?_⟩
    · refine cleanP_of (by decide) (by decide) ?_
      simp only [List.nil_append, cleanL_append, cleanL_cons, cleanL_nil, and_true]
      exact ⟨hclean, cleanP_of (by decide) (by decide) trivial⟩
    · simp only [buildOperationDocument]
      rw [if_pos (show (Pair.mk R.ExecutableDocument 0 e ([] ++ (pss ++ [Pair.mk R.EOI qE qE []]))).rule =
        R.ExecutableDocument from rfl)]
      rw [show (Pair.mk R.ExecutableDocument 0 e ([] ++ (pss ++ [Pair.mk R.EOI qE qE []]))).children =
        [] ++ (pss ++ [Pair.mk R.EOI qE qE []]) from rfl]
      rw [filter_defs pss _ hrule rfl]
      have := goodItems_mapM (rDefF τ sh sp) false false (DefGood inp (rDefF τ sh sp) (wpDefF τ inp sh sp))
        (buildExecutableDefinition (Ctx.spec inp) (4 * inp.length + 64)) (wpDefF τ inp sh sp) (4 * inp.length + 64) (a :: r)
        (fun x _ s q pr hgd hl => hgd.2 _ hl) g.length pss (by rw [hT, hlenI]; omega) hgood
      rw [this]
      simp only [wpDocF, hG]

/-- `parse_operation_document` on the rendering of a document with import statements returns the document with the true
    positions -/
theorem parseOp_rDocF (τ : Trivia) (hτ : ∀ q, Ws (τ q)) (sh : Nat → Bool) (sp : Nat → Nat) (doc : List ExecDef)
    (hne : doc ≠ []) (hwf : ∀ d ∈ doc, WFDefF d) (eof : Option (List Char)) (heof : ∀ b ∈ eof, EofComment b) :
    parseOp (rDocF τ sh sp doc eof) = .ok (wpDocF τ sh sp (rDocF τ sh sp doc eof) doc) := by
  obtain ⟨pr, hp, hc, hb⟩ := docF_parse τ hτ sh sp doc hne hwf eof heof
  simp only [parseOp, parseWith, hp, firstBadEscape_clean _ [pr] ⟨hc, trivial⟩, hb]

/-! ### up to positions -/

open NitroVerif.ReadDoc in
theorem erase_wpDefF (τ : Trivia) (inp : List Char) (sh : Nat → Bool) (sp : Nat → Nat) (sep : Bool) (p : Nat) (d : ExecDef) :
    eraseDef (wpDefF τ inp sh sp sep p d) = eraseDef d := by
  cases d with
  | op o => exact erase_wpDef τ inp sh sep p (.op o)
  | frag f => exact erase_wpDef τ inp sh sep p (.frag f)
  | imp i =>
    simp only [wpDefF, eraseDef, wpImp]
    congr 2
    refine mapItems_map _ _ _ _ eraseOptName eraseOptName (fun s q x => ?_) i.targets _
    cases x with
    | none => rfl
    | some a => rfl

open NitroVerif.ReadDoc in
/-- the document returned by the round trip is the given one up to positions -/
theorem erase_wpDocF (τ : Trivia) (sh : Nat → Bool) (sp : Nat → Nat) (inp : List Char) (doc : List ExecDef) :
    erasePos (wpDocF τ sh sp inp doc) = erasePos doc :=
  mapItems_map _ _ _ _ eraseDef eraseDef (fun s q d => erase_wpDefF τ inp sh sp s q d) doc _

end NitroVerif.DocParse
