import NitroVerif.Lemmas.CheckOpReach
/-!
Accepted documents: what `checkOp S D = []` says about each definition, and the "every selection set of the
document was visited with its correct type in scope" theorems the rule proofs rest on.
-/
namespace NitroVerif.CheckOp
open NitroVerif.Gql NitroVerif.CheckCommon NitroVerif.Valid

theorem nodup_names_inj {l : List FragmentDef} (hnd : nodupB (l.map (·.name)) = true) :
    ∀ {f g : FragmentDef}, f ∈ l → g ∈ l → f.name = g.name → f = g := by
  induction l with
  | nil => intro f g hf; cases hf
  | cons x xs ih =>
    simp only [List.map_cons] at hnd
    obtain ⟨hx, hxs⟩ := (nodupB_cons_iff _ _).mp hnd
    intro f g hf hg hfg
    rcases List.mem_cons.mp hf with hf' | hf' <;> rcases List.mem_cons.mp hg with hg' | hg'
    · rw [hf', hg']
    · subst hf'; exact absurd (show f.name ∈ xs.map (·.name) from List.mem_map.mpr ⟨g, hg', hfg.symm⟩) hx
    · subst hg'; exact absurd (show g.name ∈ xs.map (·.name) from List.mem_map.mpr ⟨f, hf', hfg⟩) hx
    · exact ih hxs hf' hg' hfg

theorem fragMap_of_mem {D : Doc} (hnd : nodupB (fragNamesOf D) = true) {f : FragmentDef} (hf : f ∈ fragsOf D) :
    fragMap D f.name = some f := by
  cases hm : fragMap D f.name with
  | none =>
    unfold fragMap at hm
    rw [List.find?_eq_none] at hm
    have := hm f (by simpa using hf)
    simp at this
  | some g =>
    obtain ⟨hg, hgn⟩ := fragMap_mem hm
    rw [nodup_names_inj hnd hg hf hgn]

section
variable {S : Schema} {D : Doc} (h : checkOp S D = [])
include h

theorem accepted_nodup : nodupB (fragNamesOf D) = true := (checkDefs_fragNames (S := S) (D := D) D [] h).2

theorem accepted_frag {f : FragmentDef} (hf : f ∈ fragsOf D) :
    ((usedFragments D).contains f.name = false →
      Quiet allowUV (checkDirectives S none f.dirs "FRAGMENT_DEFINITION")) ∧
    ∃ ct, S.typeDef? f.cond = some ct ∧ (directFields ct).isSome = true ∧
      ((usedFragments D).contains f.name = false →
        Quiet allowUV (checkSelectionSet S (spreadHandler S D (fuelFor D)) [f.name] none ct f.sel f.pos)) := by
  obtain ⟨_, hb⟩ := checkDefs_mem D [] h _ (frag_mem_doc hf)
  simp only [defBody, checkFragmentDefinition] at hb
  obtain ⟨hd, hb⟩ := append_eq_nil' hb
  refine ⟨fun hu => by rw [hu] at hd; exact quiet_uv_iff.mp (by simpa using hd), ?_⟩
  cases ht : S.typeDef? f.cond with
  | none => simp [ht] at hb
  | some t =>
    simp only [ht] at hb
    cases hdf : (directFields t).isSome with
    | false => simp [hdf] at hb
    | true =>
      refine ⟨t, rfl, hdf, ?_⟩
      intro hu
      simp only [hdf, if_true, hu, Bool.false_eq_true, if_false] at hb
      exact quiet_uv_iff.mp hb

theorem accepted_condsDefined : CondsDefined S D := by
  intro f hf
  obtain ⟨_, ct, hct, _⟩ := accepted_frag h hf
  exact ⟨ct, hct⟩

theorem accepted_op {o : OperationDef} (ho : o ∈ opsOf D) :
    checkDirectives S (some o.vars) o.dirs (opLocation o.kind) = [] ∧
    checkVariablesAux S [] o.vars = [] ∧
    (o.kind == .subscription && hasMoreThanOneField D o.sel) = false ∧
    QuietSet S D allowNone [] (some o.vars) (S.rootName o.kind) o.sel := by
  obtain ⟨_, hb⟩ := checkDefs_mem D [] h _ (op_mem_doc ho)
  obtain ⟨root, hroot, h1, h2, h3, h4⟩ := checkOperation_nil (by simpa [defBody] using hb)
  exact ⟨h1, h2, h3, _, root, o.pos, hroot, quiet_none_iff.mpr h4⟩

/-- every fragment definition of an accepted document had its selection set walked quietly, with its own name
    on the stack: through the spreads of some operation, or directly when no operation reaches it -/
theorem frag_walked (hS : NoReservedFields S) {f : FragmentDef} (hf : f ∈ fragsOf D) :
    ∃ A vars seen, Admissible A ∧ f.name ∈ seen ∧
      Quiet A (checkDirectives S vars f.dirs "FRAGMENT_DEFINITION") ∧ QuietSet S D A seen vars f.cond f.sel := by
  obtain ⟨hdu, ct, hct, _, hun⟩ := accepted_frag h hf
  cases hu : (usedFragments D).contains f.name with
  | false =>
    exact ⟨allowUV, none, [f.name], admissible_uv, by simp, hdu hu, _, ct, f.pos, hct, hun hu⟩
  | true =>
    obtain ⟨o, ho, hr⟩ := usedFragments_sound (by simpa using hu)
    obtain ⟨_, _, _, hq⟩ := accepted_op h ho
    obtain ⟨_, seen, f', hm, _, hmem, hd, hq'⟩ := reach_walked admissible_none hS (accepted_condsDefined h) hq hr
    rw [fragMap_of_mem (accepted_nodup h) hf] at hm
    cases hm
    exact ⟨allowNone, some o.vars, seen, admissible_none, hmem, hd, hq'⟩

/-- **Every selection of the document was visited.** For every definition of an accepted document, every
    selection of every selection set in it (the reference validator's `allCtxs`) was visited by a walk with its
    correct type in scope and passed its local checks (up to `UnknownVariable` where no operation is in scope). -/
theorem all_visited (hS : NoReservedFields S) :
    ∀ ps ∈ allSels (allCtxs S D), ∃ A k seen vars, Admissible A ∧
      LocalFact S A (spreadHandler S D k) seen vars ps := by
  intro ps hps
  simp only [allCtxs, allSels, List.mem_flatMap] at hps
  obtain ⟨c, ⟨d, hd, hc⟩, hpc⟩ := hps
  have hpc' : ps ∈ allSels (ctxsOfDef S d) := by
    simp only [allSels, List.mem_flatMap]; exact ⟨c, hc, hpc⟩
  cases d with
  | imp i => simp [ctxsOfDef, allSels] at hpc'
  | op o =>
    have ho : o ∈ opsOf D := by simp only [opsOf, List.mem_filterMap]; exact ⟨_, hd, rfl⟩
    obtain ⟨_, _, _, hq⟩ := accepted_op h ho
    obtain ⟨k, hfacts⟩ := quietSet_facts admissible_none hS hq
    exact ⟨allowNone, k, [], some o.vars, admissible_none, hfacts ps hpc'⟩
  | frag f =>
    have hf : f ∈ fragsOf D := by simp only [fragsOf, List.mem_filterMap]; exact ⟨_, hd, rfl⟩
    obtain ⟨A, vars, seen, hA, _, _, hq⟩ := frag_walked h hS hf
    obtain ⟨k, hfacts⟩ := quietSet_facts hA hS hq
    exact ⟨A, k, seen, vars, hA, hfacts ps hpc'⟩

/-- **Every selection in the scope of an operation was visited with that operation's variables**, and with no
    diagnostic at all. -/
theorem op_scope_visited (hS : NoReservedFields S) {o : OperationDef} (ho : o ∈ opsOf D) :
    ∀ ps ∈ allSels (opCtxs S D o), ∃ k seen, LocalFact S allowNone (spreadHandler S D k) seen (some o.vars) ps := by
  obtain ⟨_, _, _, hq⟩ := accepted_op h ho
  intro ps hps
  simp only [opCtxs, allSels_append, List.mem_append] at hps
  rcases hps with hps | hps
  · obtain ⟨k, hfacts⟩ := quietSet_facts admissible_none hS hq
    exact ⟨k, [], hfacts ps hps⟩
  · simp only [allSels, List.mem_flatMap] at hps
    obtain ⟨c, ⟨n, hn, hc⟩, hpc⟩ := hps
    have hr := reachable_sound (accepted_nodup h) hn
    obtain ⟨_, seen, f, hm, _, _, _, hq'⟩ := reach_walked admissible_none hS (accepted_condsDefined h) hq hr
    rw [frag?_eq_fragMap (accepted_nodup h), hm] at hc
    obtain ⟨k, hfacts⟩ := quietSet_facts admissible_none hS hq'
    refine ⟨k, seen, hfacts ps ?_⟩
    simp only [allSels, List.mem_flatMap]
    exact ⟨c, hc, hpc⟩
end

theorem schemaValid_noReserved {S : Schema} (h : SchemaValid S) : NoReservedFields S := by
  unfold SchemaValid schemaValidB at h
  exact (Bool.and_eq_true _ _ ▸ h).1

theorem schemaValid_uniqueArgs {S : Schema} (h : SchemaValid S) : uniqueArgNamesB S = true := by
  unfold SchemaValid schemaValidB at h
  have h2 := (Bool.and_eq_true _ _ ▸ h).2
  exact (Bool.and_eq_true _ _ ▸ h2).1

/-- the type conditions of inline fragments: existing composite types -/
theorem inline_cond_ok {S : Schema} {D : Doc} (hS : SchemaValid S) (h : checkOp S D = []) :
    ∀ ps ∈ allSels (allCtxs S D), ∀ c cp dirs ss pos, ps.2 = Selection.inline (some (c, cp)) dirs ss pos →
      ∃ ct, S.typeDef? c = some ct ∧ (directFields ct).isSome = true := by
  intro ps hps c cp dirs ss pos hs
  obtain ⟨A, k, seen, vars, hA, hl⟩ := all_visited h (schemaValid_noReserved hS) ps hps
  obtain ⟨p, s⟩ := ps
  simp only at hs
  subst hs
  cases p with
  | none => exact absurd hl (by simp [LocalFact])
  | some t =>
    simp only [LocalFact] at hl
    obtain ⟨_, _, _, _, _, ct, hct, _, hd⟩ := hl
    exact ⟨ct, hct, hd⟩

theorem directFields_isSome_composite {td : TypeDef} (h : (directFields td).isSome = true) :
    isCompositeKind td.kind = true := by
  unfold directFields at h
  cases hk : td.kind <;> simp [hk, isCompositeKind] at h ⊢

theorem typeConditions_ok {S : Schema} {D : Doc} (hS : SchemaValid S) (h : checkOp S D = []) :
    ∀ c ∈ typeConditions S D, ∃ ct, S.typeDef? c = some ct ∧ (directFields ct).isSome = true := by
  intro c hc
  simp only [typeConditions, List.mem_append, List.mem_map, List.mem_filterMap] at hc
  rcases hc with ⟨f, hf, rfl⟩ | ⟨ps, hps, hc⟩
  · obtain ⟨_, ct, hct, hd, _⟩ := accepted_frag h (by rw [← frags_eq]; exact hf)
    exact ⟨ct, hct, hd⟩
  · obtain ⟨p, s⟩ := ps
    cases s with
    | field => simp at hc
    | spread => simp at hc
    | inline cond dirs ss pos =>
      cases cond with
      | none => simp at hc
      | some cc =>
        obtain ⟨c', cp⟩ := cc
        simp only [Option.some.injEq] at hc
        subst hc
        exact inline_cond_ok hS h _ hps c' cp dirs ss pos rfl

end NitroVerif.CheckOp
