import NitroVerif.Lemmas.ParseDocTsDirDef
/-!
C16 over nitrogql's own parser, second stage: name lists WITH the optional leading separator (`implements & A & B`,
`= | A | B`, `on | A | B` — what the printer writes; C07's renderings `rNames` never write it). The lemmas reuse C07's
calculus (`RunsK`, `namesT`, `locsListT`); only the `"&"?` / `"|"?` in front of the list now succeeds.
Namespace `NitroVerif.DocParseL`: the definitions that differ from C07's carry the same names there.
-/
namespace NitroVerif.DocParseL
open NitroVerif.Peg NitroVerif.Gen NitroVerif.Gen.Parts NitroVerif.Build NitroVerif.TypeParse NitroVerif.StringParse
open NitroVerif.Gql NitroVerif.ValueParse NitroVerif.Spec.Lex NitroVerif.ParseText NitroVerif.DocParse

set_option linter.unusedSimpArgs false

variable {inp : List Char}

/-- names separated by `c`, WITH the leading separator: `c gap A gap c gap B …` -/
def rNamesL (τ : Trivia) (c : Char) (sep : Bool) (p : Nat) : List (Name × Pos) → List Char
  | [] => []
  | n :: rest => tk τ false p [c] ++ rNames τ c sep (p + (tk τ false p [c]).length) (n :: rest)

def wpNamesL (τ : Trivia) (inp : List Char) (c : Char) (sep : Bool) (p : Nat) : List (Name × Pos) → List (Name × Pos)
  | [] => []
  | n :: rest => wpNames τ inp c sep (p + (tk τ false p [c]).length) (n :: rest)

theorem hd_rNamesL (τ : Trivia) (c : Char) (sep : Bool) (p : Nat) (ns : List (Name × Pos)) :
    rNamesL τ c sep p ns = [] ∨ Hd (· = c) (rNamesL τ c sep p ns) := by
  cases ns with
  | nil => exact Or.inl rfl
  | cons n rest => exact Or.inr (Hd.append (hd_tk (P := (· = c)) (hd_cons [] rfl)) _)

/-- the optional leading separator, present -/
theorem leadK {τ : Trivia} (hτ : ∀ q, Ws (τ q)) (c : Char) {p : Nat} {Rr : List Char}
    (h : HasAt inp p (tk τ false p [c] ++ Rr)) (hR : Hd (fun d => ¬ trivia d) Rr) :
    RunsK (B (tk τ false p [c]).length + 1) (.opt (.str [c])) (At inp p) (At inp (p + (tk τ false p [c]).length)) [] :=
  runsK_opt_some (strT hτ [c] h.left (tok_of_hd h.right hR (fun _ h => h)))

theorem hd_rNames_cons (τ : Trivia) (c : Char) (sep : Bool) (p : Nat) (n : Name × Pos) (rest : List (Name × Pos))
    (hv : validName n.1.toList) : Hd nameStart (rNames τ c sep p (n :: rest)) := by
  simp only [rNames]
  exact Hd.append (hd_tk (hd_of_validName hv)) _

/-- the `UnionMemberTypes` rule on a non-empty list written with the leading `|` -/
theorem membersT (τ : Trivia) (hτ : ∀ q, Ws (τ q)) (n : Name × Pos) (rest : List (Name × Pos))
    (hv : ∀ x ∈ n :: rest, validName x.1.toList) {sep : Bool} {p : Nat} {bad : Char → Prop} (hb : bad '|')
    (h : HasAt inp p (rNamesL τ '|' sep p (n :: rest))) (hn : Nxt inp bad sep (p + (rNamesL τ '|' sep p (n :: rest)).length)) :
    ∃ pr, RunsK (B (rNamesL τ '|' sep p (n :: rest)).length + 50) (.call R.UnionMemberTypes) (At inp p)
        (At inp (p + (rNamesL τ '|' sep p (n :: rest)).length)) [pr] ∧ PairOk R.UnionMemberTypes p pr ∧
      namedTypeIdents (Ctx.spec inp) AC_UnionMemberTypes (some pr) = .ok (wpNamesL τ inp '|' sep p (n :: rest)) := by
  simp only [rNamesL, wpNamesL] at h hn ⊢
  generalize hC : tk τ false p ['|'] = tC at *
  generalize hM : rNames τ '|' sep (p + tC.length) (n :: rest) = tM at *
  have hlen : p + (tC ++ tM).length = p + tC.length + tM.length := by simp only [List.length_append]; omega
  rw [hlen] at hn ⊢
  have g1 : HasAt inp (p + tC.length) tM := h.right
  have hdM : Hd nameStart tM := hM ▸ hd_rNames_cons τ '|' sep _ n rest (hv n (List.mem_cons_self ..))
  have rBar := leadK hτ '|' (hC ▸ h) (hdM.mono fun _ => nameStart_not_trivia)
  rw [hC] at rBar
  obtain ⟨pss, rN, hrules, hclean, hmap⟩ := namesT τ hτ '|' (by decide) n rest hv hb (hM ▸ g1) (by rw [hM]; exact hn)
  rw [hM] at rN
  obtain ⟨e, rU⟩ := runsK_rule look_UnionMemberTypes (by decide) (by decide) (runsK_seq rBar rN)
  have hall : allChildrenGo AC_UnionMemberTypes pss = .ok () := by
    clear hmap hclean rU rN
    induction pss with
    | nil => rfl
    | cons x xs ih =>
      simp only [allChildrenGo, AC_UnionMemberTypes, hrules x (List.mem_cons_self ..), if_true]
      exact ih (fun y hy => hrules y (List.mem_cons_of_mem _ hy))
  refine ⟨.mk R.UnionMemberTypes p e pss, RunsK.cast (rU.mono (by barith)) rfl rfl (by simp [At]),
    pairOk_mk (by decide) (by decide) hclean, ?_⟩
  simp [namedTypeIdents, allChildren, Pair.children, hall, hmap, bind, Except.bind]

/-! ### `implements & A & B` -/

def rOptImpl (τ : Trivia) (sep : Bool) (p : Nat) : List (Name × Pos) → List Char
  | [] => []
  | n :: rest => tk τ true p kwImplements ++ rNamesL τ '&' sep (p + (tk τ true p kwImplements).length) (n :: rest)

/-- offset of the first name of an `implements` list written at `p` -/
def implOff (τ : Trivia) (p : Nat) : Nat :=
  p + (tk τ true p kwImplements).length + (tk τ false (p + (tk τ true p kwImplements).length) ['&']).length

theorem hd_rOptImpl (τ : Trivia) (sep : Bool) (p : Nat) (ns : List (Name × Pos)) :
    rOptImpl τ sep p ns = [] ∨ Hd (· = 'i') (rOptImpl τ sep p ns) := by
  cases ns with
  | nil => exact Or.inl rfl
  | cons n rest => exact Or.inr (Hd.append (hd_tk (P := (· = 'i')) (hd_cons _ rfl)) _)

theorem rOptImpl_eq_nil {τ : Trivia} {sep : Bool} {p : Nat} {ns : List (Name × Pos)} (h : rOptImpl τ sep p ns = []) :
    ns = [] := by
  cases ns with
  | nil => rfl
  | cons n rest => exact absurd h (Hd.append (hd_tk (P := (· = 'i')) (hd_cons _ rfl)) _).ne_nil

/-- `ImplementsInterfaces?` with the leading `&`; if the list is empty the next token must not begin with `i` -/
theorem optImplT (τ : Trivia) (hτ : ∀ q, Ws (τ q)) (ns : List (Name × Pos)) (hv : ∀ x ∈ ns, validName x.1.toList)
    {sep : Bool} {p : Nat} {bad : Char → Prop} (hb : bad '&') (hbi : ns = [] → bad 'i')
    (h : HasAt inp p (rOptImpl τ sep p ns))
    (hn : Nxt inp bad sep (p + (rOptImpl τ sep p ns).length)) :
    ∃ o : Option Pair, RunsK (B (rOptImpl τ sep p ns).length + 50) (.opt (.call R.ImplementsInterfaces)) (At inp p)
        (At inp (p + (rOptImpl τ sep p ns).length)) o.toList ∧ (∀ x ∈ o, PairOk R.ImplementsInterfaces p x) ∧
      optImplements (Ctx.spec inp) o = .ok (wpNames τ inp '&' sep (implOff τ p) ns) := by
  cases ns with
  | nil =>
    have hn' : Nxt inp bad sep p := by simpa [rOptImpl] using hn
    have hf := fails_rule look_ImplementsInterfaces (by decide) (by decide)
      (fails_seq_1 (kw_fails_head (la := .none) look_KEYWORD_implements
        (headNot_mono (fun d (hd : d = 'i') => hd ▸ hbi rfl) hn'.ok)))
    simp only [rOptImpl, List.length_nil, Nat.add_zero]
    exact ⟨none, (runsK_opt_none hf hn'.tok).mono (by barith), by simp, rfl⟩
  | cons n rest =>
    simp only [rOptImpl, rNamesL, implOff] at h hn ⊢
    generalize hK : tk τ true p kwImplements = tK at *
    generalize hC : tk τ false (p + tK.length) ['&'] = tC at *
    generalize hN : rNames τ '&' sep (p + tK.length + tC.length) (n :: rest) = tN at *
    have hlen : p + (tK ++ (tC ++ tN)).length = p + tK.length + tC.length + tN.length := by
      simp only [List.length_append]; omega
    rw [hlen] at hn ⊢
    have g0 : HasAt inp p tK := h.left
    have g1 : HasAt inp (p + tK.length) (tC ++ tN) := h.right
    have g2 : HasAt inp (p + tK.length + tC.length) tN := g1.right
    have hdN : Hd nameStart tN := hN ▸ hd_rNames_cons τ '&' sep _ n rest (hv n (List.mem_cons_self ..))
    have hdC : Hd (· = '&') (tC ++ tN) := by
      rw [← hC]; exact Hd.append (hd_tk (P := (· = '&')) (hd_cons [] rfl)) _
    have r0 := kwT hτ look_KEYWORD_implements (hK ▸ g0) (bad := fun _ => False) (by
      rw [hK]; exact Nxt.of_hd_sep g1 hdC (by rintro d rfl; exact ⟨by decide, id⟩))
    rw [hK] at r0
    have rAmp := leadK hτ '&' (hC ▸ g1) (hdN.mono fun _ => nameStart_not_trivia)
    rw [hC] at rAmp
    obtain ⟨pss, rN, hrules, hclean, hmap⟩ := namesT τ hτ '&' (by decide) n rest hv hb (hN ▸ g2) (by rw [hN]; exact hn)
    rw [hN] at rN
    obtain ⟨e, rI⟩ := runsK_rule look_ImplementsInterfaces (by decide) (by decide) (runsK_seq r0.toK (runsK_seq rAmp rN))
    have hlK : 1 ≤ tK.length := by rw [← hK]; simp [tk]
    refine ⟨some (.mk R.ImplementsInterfaces p e (.mk R.KEYWORD_implements p (p + kwImplements.length) [] :: pss)), ?_, ?_, ?_⟩
    · exact RunsK.cast ((runsK_opt_some rI).mono (by barith)) rfl rfl (by simp [At])
    · intro x hx
      cases hx
      exact pairOk_mk (by decide) (by decide) ⟨cleanP_of (by decide) (by decide) trivial, hclean⟩
    · simp only [optImplements, buildImplementsInterfaces, Pair.children]
      rw [if_neg (by simp [Pair.rule]), mapM_ident _ pss hrules, hmap]

/-! ### `on | A | B` -/

/-- the `DirectiveLocations` rule on a non-empty list written with the leading `|` -/
theorem locsT (τ : Trivia) (hτ : ∀ q, Ws (τ q)) (n : Name × Pos) (rest : List (Name × Pos))
    (hv : ∀ x ∈ n :: rest, x.1.toList ∈ locWords) {sep : Bool} {p : Nat} {bad : Char → Prop} (hb : bad '|')
    (h : HasAt inp p (rNamesL τ '|' sep p (n :: rest))) (hn : Nxt inp bad sep (p + (rNamesL τ '|' sep p (n :: rest)).length)) :
    ∃ pr, RunsK (B (rNamesL τ '|' sep p (n :: rest)).length + 50) (.call R.DirectiveLocations) (At inp p)
        (At inp (p + (rNamesL τ '|' sep p (n :: rest)).length)) [pr] ∧ PairOk R.DirectiveLocations p pr ∧
      (allChildren AC_DirectiveLocations pr).map (List.map (asString (Ctx.spec inp))) = .ok ((n :: rest).map (·.1)) := by
  simp only [rNamesL] at h hn ⊢
  generalize hC : tk τ false p ['|'] = tC at *
  generalize hM : rNames τ '|' sep (p + tC.length) (n :: rest) = tM at *
  have hlen : p + (tC ++ tM).length = p + tC.length + tM.length := by simp only [List.length_append]; omega
  rw [hlen] at hn ⊢
  have g1 : HasAt inp (p + tC.length) tM := h.right
  have hdM : Hd nameStart tM := by
    rw [← hM]; simp only [rNames]
    exact Hd.append (hd_tk (locWords_ok _ (hv n (List.mem_cons_self ..))).1) _
  have rBar := leadK hτ '|' (hC ▸ h) (hdM.mono fun _ => nameStart_not_trivia)
  rw [hC] at rBar
  obtain ⟨pss, rN, hrules, hclean, hmap⟩ := locsListT τ hτ n rest hv hb (hM ▸ g1) (by rw [hM]; exact hn)
  rw [hM] at rN
  obtain ⟨e, rU⟩ := runsK_rule look_DirectiveLocations (by decide) (by decide) (runsK_seq rBar rN)
  have hall : allChildrenGo AC_DirectiveLocations pss = .ok () := by
    clear hmap hclean rU rN
    induction pss with
    | nil => rfl
    | cons x xs ih =>
      simp only [allChildrenGo, AC_DirectiveLocations, hrules x (List.mem_cons_self ..), if_true]
      exact ih (fun y hy => hrules y (List.mem_cons_of_mem _ hy))
  refine ⟨.mk R.DirectiveLocations p e pss, RunsK.cast (rU.mono (by barith)) rfl rfl (by simp [At]),
    pairOk_mk (by decide) (by decide) hclean, ?_⟩
  simp [allChildren, Pair.children, hall, hmap, bind, Except.bind, Except.map]

end NitroVerif.DocParseL
