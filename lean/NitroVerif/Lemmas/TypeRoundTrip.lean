/-
render ∘ parse for the `Type` sub-language (helper lemmas for Props/C07): for every well-formed `GType`, running the
GENERATED grammar's `Type` rule on its canonical rendering yields exactly the expected pair tree, for every depth
bound above a bound that is linear in the length of the text.
-/
import NitroVerif.Lemmas.TypeParse
import NitroVerif.Gql.Ast
namespace NitroVerif.TypeParse
open NitroVerif.Peg NitroVerif.Gen NitroVerif.Build NitroVerif.Gql

/-- canonical rendering (no trivia) -/
def renderT : GType → List Char
  | .named n _ => n.toList
  | .list t _ => '[' :: (renderT t ++ [']'])
  | .nonNull t => renderT t ++ ['!']

/-- types the grammar can express: valid names, no `!!` -/
def WF : GType → Prop
  | .named n _ => validName n.toList
  | .list t _ => WF t
  | .nonNull t => WF t ∧ t.isNonNull = false

def innerRule : GType → RuleId
  | .named _ _ => R.NamedType
  | .list _ _ => R.ListType
  | .nonNull _ => R.NonNullType

/-- the pair tree of the NamedType / ListType / NonNullType node of `t` rendered at offset `p` -/
def innerPair : GType → Nat → Pair
  | .named n _, p => .mk R.NamedType p (p + n.toList.length) [.mk R.Name p (p + n.toList.length) []]
  | .list t _, p => .mk R.ListType p (p + ((renderT t).length + 2))
      [.mk R.«Type» (p + 1) (p + 1 + (renderT t).length) [innerPair t (p + 1)]]
  | .nonNull t, p => .mk R.NonNullType p (p + ((renderT t).length + 1)) [innerPair t p]

def typePair (t : GType) (p : Nat) : Pair := .mk R.«Type» p (p + (renderT t).length) [innerPair t p]

/-- depth bounds: linear in the nesting depth plus the length of the name -/
def Kin : GType → Nat
  | .named n _ => n.toList.length + 14
  | .list t _ => Kin t + 60
  | .nonNull t => Kin t + 30
def Kty (t : GType) : Nat := Kin t + 30

/-- what may follow a type: the end of the input or `]` -/
def TypeEnd (rest : List Char) : Prop := rest = [] ∨ ∃ r, rest = ']' :: r

def InnerEnd : GType → List Char → Prop
  | .named _ _, rest => HeadNot nameCont rest
  | _, _ => True

theorem headNot_of_typeEnd {P : Char → Prop} (hP : ¬ P ']') {rest : List Char} (h : TypeEnd rest) : HeadNot P rest := by
  intro d r he hd
  rcases h with rfl | ⟨r', rfl⟩
  · cases he
  · cases he; exact hP hd

theorem headNot_cons {P : Char → Prop} {d : Char} (hP : ¬ P d) (r : List Char) : HeadNot P (d :: r) := by
  intro d' r' he hd; cases he; exact hP hd

theorem nameStart_not_trivia {d : Char} (h : nameStart d) : ¬ trivia d := by
  rintro (rfl | rfl | rfl | rfl | rfl | rfl | rfl) <;> exact absurd h (by decide)

theorem head_of_render {t : GType} (h : WF t) :
    ∃ d r, renderT t = d :: r ∧ (nameStart d ∨ d = '[') := by
  induction t with
  | named n pos =>
    simp only [renderT]
    cases hn : n.toList with
    | nil => simp [WF, hn, validName] at h
    | cons d ds => simp only [WF, hn, validName] at h; exact ⟨d, ds, rfl, Or.inl h.1⟩
  | list t pos _ => exact ⟨'[', _, rfl, Or.inr rfl⟩
  | nonNull t ih =>
    obtain ⟨d, r, hr, hd⟩ := ih h.1
    exact ⟨d, r ++ ['!'], by simp [renderT, hr], hd⟩

theorem render_headNot_trivia {t : GType} (h : WF t) (x : List Char) : HeadNot trivia (renderT t ++ x) := by
  obtain ⟨d, r, hr, hd⟩ := head_of_render h
  rw [hr]
  refine headNot_cons ?_ _
  rcases hd with hd | rfl
  · exact nameStart_not_trivia hd
  · decide

theorem runsRule_congr {g n r at_ c c1 c2 ps1 ps2} (h : RunsRule g n r at_ c c1 ps1) (hc : c1 = c2) (hp : ps1 = ps2) :
    RunsRule g n r at_ c c2 ps2 := hc ▸ hp ▸ h

/-- arithmetic on the depth bounds -/
macro "karith" : tactic => `(tactic| first | omega | (simp [Kty, Kin] <;> omega))

/-! ### failing alternatives -/

theorem namedType_fails {p rest} (h : HeadNot nameStart rest) : FailsRule gList 11 R.NamedType .nonAtomic ⟨p, rest⟩ :=
  failsRule_normal look_NamedType (notSpecial (by decide) (by decide)) (fails_call (name_fails h))

theorem listType_fails {p rest} (h : HeadNot (· = '[') rest) : FailsRule gList 3 R.ListType .nonAtomic ⟨p, rest⟩ :=
  failsRule_normal look_ListType (notSpecial (by decide) (by decide))
    (fails_seq_first (fails_str (c := ⟨p, rest⟩) (matchStr_none_of_head h)))

theorem bang_fails {p rest} (h : HeadNot (· = '!') rest) (sk : Bool) :
    Fails gList 1 sk (.str ['!']) .nonAtomic ⟨p, rest⟩ := fails_str (c := ⟨p, rest⟩) (matchStr_none_of_head h)

/-! ### NamedType -/

theorem namedType_runs {n : List Char} (hn : validName n) (p : Nat) (rest : List Char) (hr : HeadNot nameCont rest) :
    RunsRule gList (n.length + 14) R.NamedType .nonAtomic ⟨p, n ++ rest⟩ ⟨p + n.length, rest⟩
      [.mk R.NamedType p (p + n.length) [.mk R.Name p (p + n.length) []]] :=
  runsRule_normal look_NamedType (notSpecial (by decide) (by decide)) (runs_call (name_runs hn p rest hr))

/-! ### ListType, NonNullType, Type -/

abbrev TypeRunsAt (t : GType) : Prop := ∀ p rest, TypeEnd rest →
  RunsRule gList (Kty t) R.«Type» .nonAtomic ⟨p, renderT t ++ rest⟩ ⟨p + (renderT t).length, rest⟩ [typePair t p]
abbrev InnerRunsAt (t : GType) : Prop := ∀ p rest, InnerEnd t rest →
  RunsRule gList (Kin t) (innerRule t) .nonAtomic ⟨p, renderT t ++ rest⟩ ⟨p + (renderT t).length, rest⟩ [innerPair t p]

theorem kin_ge (t : GType) : 14 ≤ Kin t := by
  induction t with
  | named n pos => simp [Kin]
  | list t pos ih => simp only [Kin]; omega
  | nonNull t ih => simp only [Kin]; omega

theorem listType_runs (t : GType) (pos : Pos) (hwf : WF t) (ihT : TypeRunsAt t) : InnerRunsAt (.list t pos) := by
  intro p rest _
  have hk := kin_ge t
  have e : renderT (.list t pos) ++ rest = '[' :: (renderT t ++ ']' :: rest) := by simp [renderT]
  rw [e]
  have h1 : Runs gList (Kty t + 2) true (.str ['[']) .nonAtomic ⟨p, '[' :: (renderT t ++ ']' :: rest)⟩
      ⟨p + 1, renderT t ++ ']' :: rest⟩ [] :=
    (runs_str (c := ⟨p, '[' :: (renderT t ++ ']' :: rest)⟩) (by simp [matchStr])).mono (by karith)
  have s1 : SkipNoop gList (Kty t + 2) .nonAtomic ⟨p + 1, renderT t ++ ']' :: rest⟩ :=
    (skip_noop (render_headNot_trivia hwf _)).mono (by karith)
  have hT : Runs gList (Kty t + 1) true (.call R.«Type») .nonAtomic ⟨p + 1, renderT t ++ ']' :: rest⟩
      ⟨p + 1 + (renderT t).length, ']' :: rest⟩ [typePair t (p + 1)] :=
    runs_call (ihT (p + 1) (']' :: rest) (Or.inr ⟨rest, rfl⟩))
  have s2 : SkipNoop gList (Kty t + 1) .nonAtomic ⟨p + 1 + (renderT t).length, ']' :: rest⟩ :=
    (skip_noop (headNot_cons (by decide) _)).mono (by karith)
  have h3 : Runs gList (Kty t + 1) true (.str [']']) .nonAtomic ⟨p + 1 + (renderT t).length, ']' :: rest⟩
      ⟨p + 1 + (renderT t).length + 1, rest⟩ [] :=
    (runs_str (c := ⟨p + 1 + (renderT t).length, ']' :: rest⟩) (by simp [matchStr])).mono (by karith)
  have inner := runs_seq hT s2 h3
  have outer := runs_seq h1 s1 inner
  have rule : RunsRule gList (Kin (.list t pos)) R.ListType .nonAtomic _ _ _ :=
    (runsRule_normal look_ListType (notSpecial (by decide) (by decide)) outer).mono (by karith)
  refine runsRule_congr rule ?_ ?_
  · simp [renderT]; omega
  · simp [innerPair, typePair, renderT]; omega

theorem typeRule_of_inner_nonNull (t : GType) (hin : InnerRunsAt (.nonNull t)) : TypeRunsAt (.nonNull t) := by
  intro p rest _
  have h := runs_choice_l (b := .choice (.call R.NamedType) (.call R.ListType)) (runs_call (sk := true) (hin p rest trivial))
  have rule : RunsRule gList (Kty (.nonNull t)) R.«Type» .nonAtomic _ _ _ :=
    (runsRule_normal look_Type (notSpecial (by decide) (by decide)) h).mono (by karith)
  exact runsRule_congr rule rfl (by simp [typePair])

/-- NonNullType fails on a named type that is not followed by `!` -/
theorem nonNull_fails_named {n : List Char} (hn : validName n) (p : Nat) (rest : List Char) (hr : TypeEnd rest) :
    FailsRule gList (n.length + 23) R.NonNullType .nonAtomic ⟨p, n ++ rest⟩ := by
  have hA : Fails gList (n.length + 21) true (.seq (.call R.NamedType) (.str ['!'])) .nonAtomic ⟨p, n ++ rest⟩ :=
    fails_seq_last ((runs_call (sk := true) (namedType_runs hn p rest (headNot_of_typeEnd (by decide) hr))).mono
        (by omega : n.length + 14 + 1 ≤ n.length + 20))
      ((skip_noop (headNot_of_typeEnd (by decide) hr)).mono (by omega))
      ((bang_fails (headNot_of_typeEnd (by decide) hr) true).mono (by omega))
  have hhead : HeadNot (· = '[') (n ++ rest) := by
    cases n with
    | nil => exact absurd hn id
    | cons d ds =>
      refine headNot_cons ?_ _
      rintro rfl
      exact absurd hn.1 (by decide)
  have hB : Fails gList (n.length + 21) true (.seq (.call R.ListType) (.str ['!'])) .nonAtomic ⟨p, n ++ rest⟩ :=
    (fails_seq_first (fails_call (listType_fails hhead))).mono (by omega)
  exact failsRule_normal look_NonNullType (notSpecial (by decide) (by decide)) (fails_choice hA hB)

theorem typeRule_named (n : Name) (pos : Pos) (hwf : WF (.named n pos)) : TypeRunsAt (.named n pos) := by
  intro p rest hr
  have hn : validName n.toList := hwf
  have hin : Runs gList (n.toList.length + 24) true (.choice (.call R.NamedType) (.call R.ListType)) .nonAtomic
      ⟨p, n.toList ++ rest⟩ ⟨p + n.toList.length, rest⟩ _ :=
    (runs_choice_l (b := .call R.ListType)
      (runs_call (sk := true) (namedType_runs hn p rest (headNot_of_typeEnd (by decide) hr)))).mono (by omega)
  have hf : Fails gList (n.toList.length + 24) true (.call R.NonNullType) .nonAtomic ⟨p, n.toList ++ rest⟩ :=
    fails_call (nonNull_fails_named hn p rest hr)
  have rule : RunsRule gList (Kty (.named n pos)) R.«Type» .nonAtomic _ _ _ :=
    (runsRule_normal look_Type (notSpecial (by decide) (by decide)) (runs_choice_r hf hin)).mono (by karith)
  exact runsRule_congr rule rfl (by simp [typePair, innerPair, renderT])

theorem typeRule_list (t : GType) (pos : Pos) (hin : InnerRunsAt (.list t pos)) : TypeRunsAt (.list t pos) := by
  intro p rest hr
  have hL := hin p rest trivial
  have hk := kin_ge (.list t pos)
  have e : renderT (.list t pos) ++ rest = '[' :: (renderT t ++ ']' :: rest) := by simp [renderT]
  have hhead : HeadNot nameStart (renderT (.list t pos) ++ rest) := by rw [e]; exact headNot_cons (by decide) _
  -- NonNullType fails: `NamedType "!"` fails at `[`, `ListType "!"` fails at the end (no `!`)
  have hA : Fails gList (Kin (.list t pos) + 6) true (.seq (.call R.NamedType) (.str ['!'])) .nonAtomic
      ⟨p, renderT (.list t pos) ++ rest⟩ := (fails_seq_first (fails_call (namedType_fails hhead))).mono (by omega)
  have hB : Fails gList (Kin (.list t pos) + 6) true (.seq (.call R.ListType) (.str ['!'])) .nonAtomic
      ⟨p, renderT (.list t pos) ++ rest⟩ :=
    fails_seq_last ((runs_call (sk := true) hL).mono (by omega : Kin (.list t pos) + 1 ≤ Kin (.list t pos) + 5))
      ((skip_noop (headNot_of_typeEnd (by decide) hr)).mono (by omega))
      ((bang_fails (headNot_of_typeEnd (by decide) hr) true).mono (by omega))
  have hNN : Fails gList (Kin (.list t pos) + 9) true (.call R.NonNullType) .nonAtomic ⟨p, renderT (.list t pos) ++ rest⟩ :=
    fails_call (failsRule_normal look_NonNullType (notSpecial (by decide) (by decide)) (fails_choice hA hB))
  have hNamed : Fails gList (Kin (.list t pos) + 1) true (.call R.NamedType) .nonAtomic ⟨p, renderT (.list t pos) ++ rest⟩ :=
    (fails_call (namedType_fails (p := p) hhead)).mono (by omega)
  have hList : Runs gList (Kin (.list t pos) + 9) true (.choice (.call R.NamedType) (.call R.ListType)) .nonAtomic
      ⟨p, renderT (.list t pos) ++ rest⟩ ⟨p + (renderT (.list t pos)).length, rest⟩ _ :=
    (runs_choice_r hNamed (runs_call (sk := true) hL)).mono (by omega)
  have rule : RunsRule gList (Kty (.list t pos)) R.«Type» .nonAtomic _ _ _ :=
    (runsRule_normal look_Type (notSpecial (by decide) (by decide)) (runs_choice_r hNN hList)).mono (by karith)
  exact runsRule_congr rule rfl (by simp [typePair])

theorem nonNull_runs (t : GType) (hwf : WF (.nonNull t)) (ihI : InnerRunsAt t) : InnerRunsAt (.nonNull t) := by
  intro p rest _
  have e : renderT (.nonNull t) ++ rest = renderT t ++ '!' :: rest := by simp [renderT]
  rw [e]
  have hk := kin_ge t
  have s : SkipNoop gList (Kin t + 5) .nonAtomic ⟨p + (renderT t).length, '!' :: rest⟩ :=
    (skip_noop (headNot_cons (by decide) _)).mono (by omega)
  have hb : Runs gList (Kin t + 5) true (.str ['!']) .nonAtomic ⟨p + (renderT t).length, '!' :: rest⟩
      ⟨p + (renderT t).length + 1, rest⟩ [] :=
    (runs_str (c := ⟨p + (renderT t).length, '!' :: rest⟩) (by simp [matchStr])).mono (by omega)
  cases t with
  | named n pos =>
    have hI : Runs gList (Kin (.named n pos) + 5) true (.call R.NamedType) .nonAtomic _ _ _ :=
      (runs_call (sk := true) (ihI p ('!' :: rest) (headNot_cons (by decide) _))).mono (by omega)
    have hA := runs_seq hI s hb
    have rule : RunsRule gList (Kin (.nonNull (.named n pos))) R.NonNullType .nonAtomic _ _ _ :=
      (runsRule_normal look_NonNullType (notSpecial (by decide) (by decide))
        (runs_choice_l (b := .seq (.call R.ListType) (.str ['!'])) hA)).mono (by karith)
    refine runsRule_congr rule ?_ ?_
    · simp [renderT]; omega
    · simp [innerPair, renderT]; omega
  | list t' pos =>
    have hI : Runs gList (Kin (.list t' pos) + 5) true (.call R.ListType) .nonAtomic _ _ _ :=
      (runs_call (sk := true) (ihI p ('!' :: rest) trivial)).mono (by omega)
    have e' : renderT (.list t' pos) ++ '!' :: rest = '[' :: (renderT t' ++ ']' :: '!' :: rest) := by simp [renderT]
    have hhead : HeadNot nameStart (renderT (.list t' pos) ++ '!' :: rest) := by rw [e']; exact headNot_cons (by decide) _
    have hA : Fails gList (Kin (.list t' pos) + 6) true (.seq (.call R.NamedType) (.str ['!'])) .nonAtomic
        ⟨p, renderT (.list t' pos) ++ '!' :: rest⟩ :=
      (fails_seq_first (fails_call (namedType_fails hhead))).mono (by omega)
    have hB := runs_seq hI s hb
    have rule : RunsRule gList (Kin (.nonNull (.list t' pos))) R.NonNullType .nonAtomic _ _ _ :=
      (runsRule_normal look_NonNullType (notSpecial (by decide) (by decide)) (runs_choice_r hA hB)).mono (by karith)
    refine runsRule_congr rule ?_ ?_
    · simp [renderT]; omega
    · simp [innerPair, renderT]; omega
  | nonNull t' => simp [WF, GType.isNonNull] at hwf

/-- the two statements for every well-formed type -/
theorem type_runs : ∀ (t : GType), WF t → InnerRunsAt t ∧ TypeRunsAt t := by
  intro t
  induction t with
  | named n pos =>
    intro hwf
    refine ⟨?_, typeRule_named n pos hwf⟩
    intro p rest hr
    exact runsRule_congr (namedType_runs (show validName n.toList from hwf) p rest hr) rfl rfl
  | list t pos ih =>
    intro hwf
    have hin := listType_runs t pos hwf (ih hwf).2
    exact ⟨hin, typeRule_list t pos hin⟩
  | nonNull t ih =>
    intro hwf
    have hin := nonNull_runs t hwf (ih hwf.1).1
    exact ⟨hin, typeRule_of_inner_nonNull t hin⟩

end NitroVerif.TypeParse
