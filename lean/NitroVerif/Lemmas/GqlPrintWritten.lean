import NitroVerif.Lemmas.GqlPrintBlock
import NitroVerif.Lemmas.TokChunks
import NitroVerif.Lemmas.GqlPrintToks
/-!
C16: string literals as the writer leaves them in the output (`written`), decoded by the GraphQL `StringValue`
semantics; the token sequence a GraphQL lexer finds in the written text (`lexW`: string tokens are decoded from their
written text at the indentation where they stand).
-/
namespace NitroVerif.GqlPrint
open NitroVerif.GqlString NitroVerif.JsTemplate

/-- Parts A and B together: the block form, written at ANY indentation, is one block-string token whose value is
    `BlockStringValue` of the string -/
theorem decode_written_block (k : Nat) (s : List Char) (h : useBlock s = true) :
    decodeStringLiteral (written k false (printString s)) = some (blockStringValue s) := by
  have hcan : canBlock s = true := by
    simp only [useBlock, Bool.decide_and, Bool.and_eq_true, decide_eq_true_eq] at h; exact h.2
  have hcr := canBlock_no_cr s hcan
  simp [canBlock] at hcan
  obtain ⟨hq, hb, hall⟩ := hcan
  have hend : endOK 0 s := by
    unfold endOK; simp only [pending, if_true]; exact ⟨hq, hb⟩
  have hsrc : ∀ c ∈ indentRaw k false s, sourceChar c = true := by
    intro c hc
    rcases mem_indentRaw k s false c hc with hc | rfl
    · rcases hall c hc with h1 | h1 | h1
      · subst h1; decide
      · subst h1; decide
      · simp [isControl] at h1
        simp [sourceChar]; omega
    · decide
  have hraw := blockRaw_escTriple (indentRaw k false s) 0 (by omega) (endOK_indentRaw k s hend) hsrc
  simp only [List.replicate, List.nil_append] at hraw
  have hw := written_escTriple k s 0 false (by omega)
  simp only [List.replicate, List.nil_append] at hw
  unfold printString printBlock
  simp only [h, if_true]
  show decodeStringLiteral (written k false ('"' :: '"' :: '"' :: (escTriple 0 s ++ close3))) = _
  rw [written_cons k false '"' _ (by decide), written_cons k false '"' _ (by decide),
    written_cons k false '"' _ (by decide), hw]
  simp [pre, decodeStringLiteral, hraw, blockStringValue_indentRaw k s hcr]

/-- nothing the printer writes in the quoted form is a line feed -/
theorem quotedChar_no_nl (c : Char) : ∀ x ∈ quotedChar c, x ≠ '\n' := by
  unfold quotedChar
  by_cases h1 : c = '\\'
  · simp [h1]
  · by_cases h2 : c = '\r'
    · simp [h2]
    · by_cases h3 : c = '\n'
      · simp [h3]
      · by_cases h4 : isControl c = true
        · simp only [h1, h2, h3, h4, if_false, if_true]
          intro x hx
          simp only [List.mem_append, List.mem_cons, List.mem_nil_iff, or_false] at hx
          rcases hx with ((hx | hx | hx) | hx) | hx
          · subst hx; decide
          · subst hx; decide
          · subst hx; decide
          · have hlt := isControl_lt c h4
            by_cases h16 : c.toNat < 16
            · rw [hexLower_small _ h16] at hx
              simp at hx; subst hx
              have : ∀ k : Fin 16, hexDigit k.val ≠ '\n' := by decide
              exact this ⟨_, h16⟩
            · rw [hexLower_two _ (by omega) (by omega)] at hx
              have : ∀ k : Fin 16, hexDigit k.val ≠ '\n' := by decide
              simp at hx
              rcases hx with hx | hx
              · subst hx; exact this ⟨_, by omega⟩
              · subst hx; exact this ⟨_, by omega⟩
          · subst hx; decide
        · simp [h1, h2, h3, h4]
          all_goals exact h3

theorem printQuoted_no_nl (s : List Char) : ∀ x ∈ printQuoted s, x ≠ '\n' := by
  intro c hc
  unfold printQuoted at hc
  simp only [List.mem_cons, List.mem_append, List.mem_nil_iff, or_false] at hc
  rcases hc with hc | hc | hc
  · subst hc; decide
  · induction s with
    | nil => simp [quotedBody] at hc
    | cons a as ih =>
      simp only [quotedBody, List.mem_append] at hc
      rcases hc with hc | hc
      · exact quotedChar_no_nl a c hc
      · exact ih hc
  · subst hc; decide

/-- Part C: the quoted form is written as it is, at any indentation -/
theorem written_printQuoted (k : Nat) (s : List Char) : written k false (printQuoted s) = printQuoted s :=
  written_no_nl k _ (printQuoted_no_nl s)

/-- the side condition under which `print_string` is exact, as a decidable predicate: no double quote in the quoted
    form; `BlockStringValue` leaves the string unchanged in the block form -/
def strExact (s : List Char) : Bool :=
  if useBlock s then decide (blockStringValue s = s) else !s.contains '"'

theorem decode_written (k : Nat) (s : List Char) (h : strExact s = true) :
    decodeStringLiteral (written k false (printString s)) = some s := by
  unfold strExact at h
  by_cases hb : useBlock s = true
  · simp only [hb, if_true, decide_eq_true_eq] at h
    rw [decode_written_block k s hb, h]
  · have hb' : useBlock s = false := by simpa using hb
    simp only [hb', Bool.false_eq_true, if_false, Bool.not_eq_true', List.contains_eq_mem, decide_eq_false_iff_not] at h
    unfold printString
    simp only [hb', Bool.false_eq_true, if_false]
    rw [written_printQuoted]
    exact decode_printQuoted s (fun c hc e => h (e ▸ hc))

/-- with the indent flag set, the literal is written after the indentation (white space before the token) -/
theorem written_printString_flag (k : Nat) (s : List Char) :
    written k true (printString s) = spaces k ++ written k false (printString s) := by
  unfold printString printBlock printQuoted
  split
  · exact written_flag k '"' _ (by decide)
  · exact written_flag k '"' _ (by decide)

/-- a `write` never changes the indentation level -/
theorem writeChars_indent (js : Bool) (s : List Char) : ∀ (st : WSt) (d : Bool),
    (writeChars js st d s).2.indent = st.indent := by
  induction s with
  | nil => intro st d; rfl
  | cons c cs ih =>
    intro st d
    simp only [writeChars]
    split
    · exact ih _ _
    · exact ih _ _

/-- the text `JustWriter` writes for a string token and what follows it: the pending indentation (white space), the
    literal as `written` at the current indentation, then the rest — written at the same indentation level -/
theorem runOps_str (st : WSt) (v : String) (ts : List Tok) :
    ∃ st' : WSt, st'.indent = st.indent ∧
      runOps false st (ops (Tok.str v :: ts)) =
        pre st.indent st.flag ++ written st.indent false (printString v.toList) ++ runOps false st' (ops ts) := by
  refine ⟨(writeChars false st false (printString v.toList)).2, writeChars_indent _ _ _ _, ?_⟩
  have hw : (writeChars false st false (printString v.toList)).1 = written st.indent st.flag (printString v.toList) := rfl
  simp only [ops, List.flatMap_cons, Tok.ops, List.cons_append, List.nil_append, runOps, hw]
  cases hfl : st.flag
  · simp [pre]
  · rw [written_printString_flag]
    simp [pre]

end NitroVerif.GqlPrint

namespace NitroVerif.C16
open NitroVerif.Gql NitroVerif.GqlPrint NitroVerif.GqlTokens NitroVerif.GqlString

/-- The token sequence a GraphQL lexer finds in the text `JustWriter` writes for the printer tokens `ts`, starting at
    indentation `k`: names, numbers and punctuators are themselves, layout is `Ignored`, and a string token is
    DECODED (GraphQL `StringValue` semantics) from the literal as the writer left it at the indentation where it
    stands. `none` if some string literal is not exactly one string token. -/
def lexW : Nat → List Tok → Option (List LTok)
  | _, [] => some []
  | k, t :: ts =>
    match t with
    | .ind => lexW (k + 2) ts
    | .ded => lexW (k - 2) ts
    | .str v =>
      match decodeStringLiteral (written k false (printString v.toList)) with
      | some s => (lexW k ts).map (LTok.str (String.ofList s) :: ·)
      | none => none
    | t => (lexW k ts).map (lex t ++ ·)

/-- every string token of the stream satisfies the side condition of `print_string` -/
def strsOK (toks : List LTok) : Bool :=
  toks.all fun
    | .str v => strExact v.toList
    | _ => true

def tokStrOK : Tok → Bool
  | .str v => strExact v.toList
  | _ => true

theorem tokStrOK_of_strsOK (ts : List Tok) (h : strsOK (ts.flatMap lex) = true) : ∀ t ∈ ts, tokStrOK t = true := by
  induction ts with
  | nil => intro t ht; simp at ht
  | cons a as ih =>
    intro t ht
    simp only [strsOK, List.flatMap_cons, List.all_append, Bool.and_eq_true] at h
    rcases List.mem_cons.mp ht with rfl | ht
    · cases t <;> simp_all [tokStrOK, lex]
    · exact ih (by simpa [strsOK] using h.2) t ht

theorem lexW_exact (ts : List Tok) (h : ∀ t ∈ ts, tokStrOK t = true) : ∀ k, lexW k ts = some (ts.flatMap lex) := by
  induction ts with
  | nil => intro k; rfl
  | cons a as ih =>
    intro k
    have hrec := ih (fun t ht => h t (by simp [ht]))
    have ha := h a (by simp)
    cases a with
    | str v =>
      simp only [tokStrOK] at ha
      simp [lexW, decode_written k v.toList ha, hrec, lex]
    | ind => simp [lexW, hrec, lex]
    | ded => simp [lexW, hrec, lex]
    | p s => simp [lexW, hrec, lex]
    | name s => simp [lexW, hrec, lex]
    | var s => simp [lexW, hrec, lex]
    | int s => simp [lexW, hrec, lex]
    | float s => simp [lexW, hrec, lex]
    | lay s => simp [lexW, hrec, lex]

end NitroVerif.C16
