import NitroVerif.Lemmas.CheckOpValues2
namespace NitroVerif.CheckOp
open NitroVerif.Gql NitroVerif.CheckCommon NitroVerif.Valid

/-- what a quiet `check_value` establishes about a value at a position of type `t` -/
def ValOK (S : Schema) (vars : Option (List VarDef)) (A : ErrKind → Bool) (v : Value) (t : GType) (ld : Bool) : Prop :=
  valueIssues S v t = [] ∧
  (A ErrKind.UnknownVariable = false → ∀ u ∈ varUses S v t ld,
    ∃ vd, varDef? (vars.getD []) u.name = some vd ∧ usageAllowed vd u = true)

theorem inputs_nodup {S : Schema} (hU : uniqueArgNamesB S = true) {n : Name} {td : TypeDef}
    (h : S.typeDef? n = some td) : nodupB (td.inputs.map (·.name)) = true := by
  simp only [uniqueArgNamesB, Bool.and_eq_true, List.all_eq_true] at hU
  exact (hU.1 td (typeDef?_mem h)).1

section
variable {S : Schema} {A : ErrKind → Bool} (hA : Admissible A) (hU : uniqueArgNamesB S = true)
  {vars : Option (List VarDef)}
include hA hU

theorem checkValue_ok : ∀ (k : Nat) (v : Value), v.size ≤ k → ∀ (t : GType) (ld : Bool),
    Quiet A (checkValue S vars v t ld) → ValOK S vars A v t ld := by
  intro k
  induction k with
  | zero => intro v hv; cases v <;> simp [Value.size] at hv
  | succ k ih =>
    -- lists of values whose elements are covered by the induction hypothesis
    have hlist : ∀ (vs : List Value) (inner : GType), Value.sizeList vs ≤ k →
        Quiet A (checkValueList S vars vs inner) →
        valueIssuesList S vs inner = [] ∧ (A ErrKind.UnknownVariable = false → ∀ u ∈ varUsesList S vs inner,
          ∃ vd, varDef? (vars.getD []) u.name = some vd ∧ usageAllowed vd u = true) := by
      intro vs inner
      induction vs with
      | nil => intro _ _; exact ⟨by simp [valueIssuesList], by intro _ u hu; simp [varUsesList] at hu⟩
      | cons v vs ihvs =>
        intro hsz hq
        simp only [Value.sizeList] at hsz
        simp only [checkValueList] at hq
        rw [quiet_append] at hq
        obtain ⟨a1, a2⟩ := ih v (by omega) inner false hq.1
        obtain ⟨b1, b2⟩ := ihvs (by omega) hq.2
        refine ⟨by simp [valueIssuesList, a1, b1], ?_⟩
        intro hUV u hu
        simp only [varUsesList, List.mem_append] at hu
        rcases hu with hu | hu
        · exact a2 hUV u hu
        · exact b2 hUV u hu
    -- fields of an object literal, each already known to have been checked quietly
    have hfields : ∀ (inputs : List InputValueDef) (fs : List (Name × Pos × Value)), Value.sizeFields fs ≤ k →
        (∀ kk p v, (kk, p, v) ∈ fs → ∀ d ∈ inputs, d.name = kk → Quiet A (checkValue S vars v d.ty d.default.isSome)) →
        fieldIssues S fs inputs = [] ∧ (A ErrKind.UnknownVariable = false → ∀ u ∈ varUsesFields S fs inputs,
          ∃ vd, varDef? (vars.getD []) u.name = some vd ∧ usageAllowed vd u = true) := by
      intro inputs fs
      induction fs with
      | nil => intro _ _; exact ⟨by simp [fieldIssues], by intro _ u hu; simp [varUsesFields] at hu⟩
      | cons f fs ihfs =>
        obtain ⟨kk, p, v⟩ := f
        intro hsz hq
        simp only [Value.sizeFields] at hsz
        obtain ⟨b1, b2⟩ := ihfs (by omega) (fun kk' p' v' hm => hq kk' p' v' (List.mem_cons_of_mem _ hm))
        cases hfd : inputs.find? (·.name == kk) with
        | none =>
          refine ⟨by simp [fieldIssues, hfd, b1], ?_⟩
          intro hUV u hu
          simp only [varUsesFields, hfd, List.nil_append] at hu
          exact b2 hUV u hu
        | some d =>
          have hd := List.mem_of_find?_eq_some hfd
          have hdn : d.name = kk := by simpa using List.find?_some hfd
          obtain ⟨a1, a2⟩ := ih v (by omega) d.ty d.default.isSome (hq kk p v (by simp) d hd hdn)
          refine ⟨by simp [fieldIssues, hfd, a1, b1], ?_⟩
          intro hUV u hu
          simp only [varUsesFields, hfd, List.mem_append] at hu
          rcases hu with hu | hu
          · exact a2 hUV u hu
          · exact b2 hUV u hu
    intro v hsz t ld hq
    have hkTM := hA _ (by decide : ErrKind.TypeMismatch ≠ ErrKind.UnknownVariable)
    cases v with
    | var n p =>
      simp only [checkValue] at hq
      refine ⟨by simp [valueIssues], ?_⟩
      intro hUV u hu
      simp only [varUses, List.mem_singleton] at hu
      subst hu
      exact varCheck_quiet hA hq hUV
    | null p =>
      simp only [checkValue, Value.isNull, if_true] at hq
      cases hnn : t.isNonNull with
      | true => simp only [hnn, if_true] at hq; rw [quiet_single, hkTM] at hq; cases hq
      | false => exact ⟨by simp [valueIssues, hnn], by intro _ u hu; simp [varUses] at hu⟩
    | list vs p =>
      simp only [checkValue] at hq
      simp only [Value.size] at hsz
      cases hst : CheckCommon.stripNonNull t with
      | nonNull x => exact absurd hst (stripNonNull_not_nonNull t x)
      | list inner q =>
        simp only [hst] at hq
        obtain ⟨a1, a2⟩ := hlist vs inner (by omega) hq
        refine ⟨by simp [valueIssues, stripNonNull_eq, hst, a1], ?_⟩
        intro hUV u hu
        simp only [varUses, stripNonNull_eq, hst] at hu
        exact a2 hUV u hu
      | named n np =>
        simp only [hst] at hq
        obtain ⟨td, ht, _, hc⟩ := namedLeaf_quiet hA hq
        obtain ⟨hk, hb⟩ := nonleaf_custom_scalar (Or.inl ⟨vs, p, rfl⟩) (Or.inr ⟨vs, p, rfl⟩) hc
        rw [typeDef?_name ht] at hb
        have hks : (td.kind == TypeKind.scalar) = true := by rw [hk]; rfl
        refine ⟨by simp [valueIssues, stripNonNull_eq, hst, ht, hks, hb], ?_⟩
        intro _ u hu
        simp [varUses, stripNonNull_eq, hst] at hu
    | obj fs p =>
      simp only [checkValue] at hq
      simp only [Value.size] at hsz
      rw [baseNamed_fst] at hq
      cases ht : S.typeDef? t.unwrapped with
      | none =>
        simp only [ht] at hq
        have hk := hA _ (by decide : ErrKind.TypeSystemError ≠ ErrKind.UnknownVariable)
        rw [quiet_single, hk] at hq; cases hq
      | some td =>
        simp only [ht] at hq
        cases hki : (td.kind == TypeKind.input) with
        | true =>
          simp only [hki, if_true] at hq
          obtain ⟨h1, h2, h3, h4⟩ := objResult_quiet hA (inputs_nodup hU ht) hq
          obtain ⟨a1, a2⟩ := hfields td.inputs fs (by omega) h4
          refine ⟨?_, ?_⟩
          · have e2 : (fs.all fun f => td.inputs.any (·.name == f.1)) = true := List.all_eq_true.mpr h2
            have e3 : (td.inputs.all fun d => !(d.ty.isNonNull && d.default.isNone) || fs.any (·.1 == d.name)) = true := by
              rw [List.all_eq_true]; intro d hd
              cases hr : (d.ty.isNonNull && d.default.isNone) with
              | false => simp
              | true => simpa using h3 d hd hr
            simp only [valueIssues, ht, hki, if_true, e2, h1, e3, a1, List.append_nil]
          · intro hUV u hu
            simp only [varUses, ht, hki, if_true] at hu
            exact a2 hUV u hu
        | false =>
          simp only [hki, Bool.false_eq_true, if_false] at hq
          rw [quiet_append] at hq
          have hc := quiet_ite hkTM hq.2
          have hni : td.kind ≠ .input := by intro h; rw [h] at hki; cases hki
          obtain ⟨hk, hb⟩ := nonleaf_custom_scalar (Or.inr ⟨fs, p, rfl⟩) (Or.inl hni) hc
          have hks : (td.kind == TypeKind.scalar) = true := by rw [hk]; rfl
          refine ⟨by simp [valueIssues, ht, hki, hks, hb], ?_⟩
          intro _ u hu
          simp [varUses, ht, hki] at hu
    | int s p =>
      simp only [checkValue, Value.isNull, Bool.false_eq_true, if_false] at hq
      rw [baseNamed_fst] at hq
      exact ⟨by simp [valueIssues, leaf_coercible hA rfl hq], by intro _ u hu; simp [varUses] at hu⟩
    | float s p =>
      simp only [checkValue, Value.isNull, Bool.false_eq_true, if_false] at hq
      rw [baseNamed_fst] at hq
      exact ⟨by simp [valueIssues, leaf_coercible hA rfl hq], by intro _ u hu; simp [varUses] at hu⟩
    | str s p =>
      simp only [checkValue, Value.isNull, Bool.false_eq_true, if_false] at hq
      rw [baseNamed_fst] at hq
      exact ⟨by simp [valueIssues, leaf_coercible hA rfl hq], by intro _ u hu; simp [varUses] at hu⟩
    | bool b p =>
      simp only [checkValue, Value.isNull, Bool.false_eq_true, if_false] at hq
      rw [baseNamed_fst] at hq
      exact ⟨by simp [valueIssues, leaf_coercible hA rfl hq], by intro _ u hu; simp [varUses] at hu⟩
    | enum m p =>
      simp only [checkValue, Value.isNull, Bool.false_eq_true, if_false] at hq
      rw [baseNamed_fst] at hq
      exact ⟨by simp [valueIssues, leaf_coercible hA rfl hq], by intro _ u hu; simp [varUses] at hu⟩
end

end NitroVerif.CheckOp
