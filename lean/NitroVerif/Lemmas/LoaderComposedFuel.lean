/-
Helper lemmas for the composition C19 ∘ C13: the import resolver of `Model/Imports.lean` reads its file map only through
`lookup`, and its result does not depend on the recursion budget once the budget suffices.  Hence
`resolve res fs root rootFile` is a function of the LOOKUP FUNCTION of `fs` — exactly what the loader's
`TaskOperationResolver` offers to `resolve_operation_imports`.
No property statements here.
-/
import NitroVerif.Lemmas.Imports
namespace NitroVerif.Imports
open NitroVerif.Imports.Spec

set_option linter.unusedSectionVars false

variable {κ ρ : Type} [DecidableEq κ] [DecidableEq ρ]
variable (res : κ → ρ → κ)

/-! ### only lookups -/

section Lookup
variable {fs fs' : FS κ ρ} (h : ∀ p, fs.lookup p = fs'.lookup p)
include h

theorem step_lookup_congr (expand : κ → List (Import ρ) → St κ → Res κ ρ (St κ)) (doc : κ) (st : St κ)
    (imp : Import ρ) : step res fs expand doc st imp = step res fs' expand doc st imp := by
  simp only [step, h]

theorem iter_lookup_congr (expand : κ → List (Import ρ) → St κ → Res κ ρ (St κ)) (doc : κ) :
    ∀ (imps : List (Import ρ)) (st : St κ), iter res fs expand doc imps st = iter res fs' expand doc imps st := by
  intro imps
  induction imps with
  | nil => intro st; rfl
  | cons imp rest ih =>
    intro st
    simp only [iter, step_lookup_congr res h]
    cases step res fs' expand doc st imp with
    | ok st' => exact ih st'
    | err e => rfl
    | outOfFuel => rfl

theorem expandFuel_lookup_congr : ∀ n, expandFuel res fs n = expandFuel res fs' n
  | 0 => rfl
  | n + 1 => by
    funext doc imps st
    simp only [expandFuel]
    rw [expandFuel_lookup_congr n]
    exact iter_lookup_congr res h _ doc imps st

theorem emit_lookup_congr (st : St κ) : emit fs st = emit fs' st := by
  have : emitFile fs st.requested = emitFile fs' st.requested := by
    funext p; simp only [emitFile, h]
  simp only [emit, this]

end Lookup

/-! ### the budget -/

/-- `e'` answers like `e` wherever `e` does not run out of fuel -/
def Ext (e e' : κ → List (Import ρ) → St κ → Res κ ρ (St κ)) : Prop :=
  ∀ doc imps st, e doc imps st ≠ .outOfFuel → e' doc imps st = e doc imps st

variable (fs : FS κ ρ)

theorem step_ext {e e' : κ → List (Import ρ) → St κ → Res κ ρ (St κ)} (hx : Ext e e') (doc : κ) (st : St κ)
    (imp : Import ρ) (hne : step res fs e doc st imp ≠ .outOfFuel) :
    step res fs e' doc st imp = step res fs e doc st imp := by
  simp only [step] at hne ⊢
  cases hl : fs.lookup (res doc imp.rel) with
  | none => rfl
  | some file =>
    simp only [hl] at hne ⊢
    by_cases hp : res doc imp.rel ∈ st.expanded
    · simp only [hp, if_true]
    · simp only [hp, if_false] at hne ⊢
      cases hE : e (res doc imp.rel) file.imports { st with expanded := res doc imp.rel :: st.expanded } with
      | outOfFuel => rw [hE] at hne; exact absurd rfl hne
      | ok st' => rw [hx _ _ _ (by rw [hE]; intro h; cases h), hE]
      | err er => rw [hx _ _ _ (by rw [hE]; intro h; cases h), hE]

theorem iter_ext {e e' : κ → List (Import ρ) → St κ → Res κ ρ (St κ)} (hx : Ext e e') (doc : κ) :
    ∀ (imps : List (Import ρ)) (st : St κ), iter res fs e doc imps st ≠ .outOfFuel →
      iter res fs e' doc imps st = iter res fs e doc imps st := by
  intro imps
  induction imps with
  | nil => intro st _; rfl
  | cons imp rest ih =>
    intro st hne
    simp only [iter] at hne ⊢
    cases hs : step res fs e doc st imp with
    | outOfFuel => rw [hs] at hne; exact absurd rfl hne
    | err er => rw [step_ext res fs hx doc st imp (by rw [hs]; intro h; cases h), hs]
    | ok st' =>
      rw [hs] at hne
      rw [step_ext res fs hx doc st imp (by rw [hs]; intro h; cases h), hs]
      exact ih st' hne

theorem expandFuel_succ_ext : ∀ n, Ext (expandFuel res fs n) (expandFuel res fs (n + 1))
  | 0 => fun _ _ _ h => absurd rfl h
  | n + 1 => fun doc imps st h => iter_ext res fs (expandFuel_succ_ext n) doc imps st h

theorem expandFuel_add_ext (n : Nat) : ∀ k, Ext (expandFuel res fs n) (expandFuel res fs (n + k))
  | 0 => fun _ _ _ _ => rfl
  | k + 1 => fun doc imps st h => by
    have h1 := expandFuel_add_ext n k doc imps st h
    have h2 := expandFuel_succ_ext res fs (n + k) doc imps st (by rw [h1]; exact h)
    rw [← h1, ← h2]; rfl

/-- `resolve_operation_imports` depends on the `OperationResolver` only through its answers -/
theorem resolve_lookup_congr {fs fs' : FS κ ρ} (h : ∀ p, fs.lookup p = fs'.lookup p) (root : κ) (rootFile : File ρ) :
    resolve res fs root rootFile = resolve res fs' root rootFile := by
  have key : expandFuel res fs (fs.length + 1) root rootFile.imports (initSt root) =
      expandFuel res fs' (fs'.length + 1) root rootFile.imports (initSt root) := by
    have h1 := expandFuel_add_ext res fs (fs.length + 1) (fs'.length + 1) root rootFile.imports (initSt root)
      (top_fuel res fs root rootFile)
    have h2 := expandFuel_add_ext res fs' (fs'.length + 1) (fs.length + 1) root rootFile.imports (initSt root)
      (top_fuel res fs' root rootFile)
    rw [← h1, ← h2, expandFuel_lookup_congr res h]
    have : fs.length + 1 + (fs'.length + 1) = fs'.length + 1 + (fs.length + 1) := by omega
    rw [this]
  unfold resolve
  rw [key]
  cases expandFuel res fs' (fs'.length + 1) root rootFile.imports (initSt root) with
  | ok st => simp only [emit_lookup_congr h]
  | err e => rfl
  | outOfFuel => rfl

end NitroVerif.Imports
