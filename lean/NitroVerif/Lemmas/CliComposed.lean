/-
C18, second stage: the CLI-driver model (`Model/Cli.lean`) composed with the models of the stages it drives.

`Model/Cli.lean` takes the *stage results* of a run as its input (`Run`).  Here the stage results are COMPUTED from the
input texts of a project by the stage models, composed the way `run_cli_impl` (crates/cli/src/main.rs) and `check_impl`
/ `resolve_schema` / `resolve_operations` (crates/cli/src/check.rs) compose the real stages:

  schema files      → parser (file index set before each parse) → `TypeSystemOrExtensionDocument::merge` (concatenation)
                    → `generate_builtins()` ++ `nitrogql_builtins()` appended (`CliSchema.builtins`)
                    → `resolve_schema_extensions` (`ExtResolve.resolve`) → `check_type_system_document`
                      (`CheckTs.checkSchema`) → `ast_to_type_system` (`Gql.Schema` view of the resolved document)
  operation files   → parser → `resolve_operation_extensions` of ALL files (`Imports.resolveExt` on the import lines;
                      the definitions pass through) → `Operations::new` (a `HashMap` by path: the LAST file of a path
                      wins) → `resolve_operation_imports` of ALL files (`Imports.resolve`; the selected definitions of
                      the imported files are appended) → `check_operation_document` (`CheckOp.checkOp`) of ALL files.

What stays abstract (fields of `Env`):
* the two parsers, as functions `file index → text → document | (line, column, message)` — their own correctness is
  C07 / C08 (`Model/Peg.lean`, `Model/Build.lean`); the file index is an argument because the real parser stamps every
  position with the index set by `set_current_file_of_pos`;
* `resolve_relative_path` (`res`; C20), the `Nat` coding of fragment names that `Model/Imports.lean` works with
  (`code`), the position of the path literal of an `#import` line (`pathPos`: the shared vocabulary `Gql.ImportDef`
  has no slot for it) and the message-tag tables (`Tags`: `Cli.Diag.tag` is an opaque number).
The answers of the world that are not computed by a stage model stay inputs of the project: the command list, the
generate options, `ScalarTypeNotProvided` of the schema printer and the file-system results of the writes.

The stage models report `(kind, main position)`; the notes (`additional_info`) of checker diagnostics are not modelled
there, so the composed diagnostics of the two checkers carry no notes (the extension resolver's second position and
the built-in hint of `FileNotFound` are carried).

Definitions and helper lemmas only; the property theorems are in `Props/C18Composed.lean`.
-/
import NitroVerif.Lemmas.Cli
import NitroVerif.Lemmas.Imports
import NitroVerif.Model.ExtResolve
import NitroVerif.Model.CheckOp
import NitroVerif.Model.CheckTs
import NitroVerif.Model.CliSchema
namespace NitroVerif.CliComposed
open NitroVerif NitroVerif.Gql NitroVerif.Cli

/-- result of a parser: the document, or (0-based line, 0-based column, message tag) -/
abbrev PRes (α : Type) := Except (Nat × Nat × Nat) α

/-- message-tag tables (`Cli.Diag.tag` identifies the message text; any tables) -/
structure Tags (κ : Type) where
  schemaExt : ExtResolve.ExtError → Nat
  schemaCheck : CheckTs.ErrKind → Nat
  opExt : Imports.ExtErr → Nat
  opImport : Imports.ImpErr κ String → Nat
  opCheck : ErrKind → Nat

/-- what the composition does not compute (see the header) -/
structure Env (Text κ : Type) where
  /-- `set_current_file_of_pos(i); parse_type_system_document(text)` -/
  parseTs : Nat → Text → PRes TsDoc
  /-- `set_current_file_of_pos(i); parse_operation_document(text)` -/
  parseOp : Nat → Text → PRes Doc
  /-- `resolve_relative_path(document_path, literal)` -/
  res : κ → String → κ
  /-- coding of fragment names for `Model/Imports.lean` -/
  code : Name → Nat
  /-- `import.path.position` -/
  pathPos : ImportDef → Gql.Pos
  tags : Tags κ

/-- one operation file of the project -/
structure OpInput (Text κ : Type) where
  /-- the path under which `Operations::new` registers the file (normalised: globmatch returns absolute paths
      below the normalised root) -/
  path : κ
  text : Text
  /-- what the file system answers when the declaration file of this operation file is written -/
  io : IoRes

/-- a project as the CLI sees it: the inputs, the request, and the answers of the world no stage model computes -/
structure Project (Text κ : Type) where
  cmds : List Cmd
  /-- the schema files in the order globmatch returns them -/
  schemaTexts : List Text
  ops : List (OpInput Text κ)
  gen : GenOpts
  schemaPrinterFails : Bool
  ioSchema : IoRes
  ioServer : IoRes
  ioResolvers : IoRes

/-- `Gql.Pos` and `Cli.Pos` are the same record -/
def toCli (p : Gql.Pos) : Cli.Pos := ⟨p.line, p.col, p.file, p.builtin⟩

/-- `xs.enumerate().map(f)` with the first index `i` -/
def mapFrom {α β : Type} (f : Nat → α → β) : Nat → List α → List β
  | _, [] => []
  | i, x :: xs => f i x :: mapFrom f (i + 1) xs

def toParseRes {α : Type} : PRes α → ParseRes
  | .ok _ => .ok
  | .error (l, c, t) => .err l c t

/-- the document of a successful parse (`[]` otherwise: the run ends before anything looks at it) -/
def docOf {α : Type} : PRes (List α) → List α
  | .ok d => d
  | .error _ => []

/-! ### the executable-document ↔ `Model/Imports.lean` bridge -/

/-- the `#import` lines of a parsed document, in order -/
def importsOf (D : Doc) : List ImportDef := D.filterMap fun | .imp i => some i | _ => none

/-- `OperationDocument.definitions` after `resolve_operation_extensions`: everything but the import lines -/
def defsOf (D : Doc) : Doc := D.filter fun | .imp _ => false | _ => true

def rawTarget (code : Name → Nat) : Option (Name × Gql.Pos) → Imports.RawTarget
  | none => .wildcard
  | some (n, _) => .name (code n)

def rawImport (code : Name → Nat) (i : ImportDef) : Imports.RawImport String :=
  ⟨i.path, i.targets.map (rawTarget code)⟩

def rawLines (code : Name → Nat) (D : Doc) : List (Imports.RawImport String) := (importsOf D).map (rawImport code)

def toDef (code : Name → Nat) : ExecDef → Imports.Def
  | .frag f => .frag (code f.name)
  | _ => .other

/-- `resolve_operation_extensions(doc)` (the import part) -/
def extOf (code : Name → Nat) (D : Doc) : Except Imports.ExtErr (List (Imports.Import String)) :=
  Imports.resolveExt (rawLines code D)

/-- the (document, extension) pair the resolver map holds for a file -/
def fileOf (code : Name → Nat) (D : Doc) : Imports.File String :=
  ⟨match extOf code D with | .ok imps => imps | .error _ => [], (defsOf D).map (toDef code)⟩

/-- position of an extension-resolution error: `import.position` of the offending line -/
def extErrPos (D : Doc) (e : Imports.ExtErr) : Gql.Pos :=
  match e with
  | .wildcardOnlyOnce l | .wildcardCombined l => match (importsOf D)[l]? with | some i => i.pos | none => {}

section
variable {Text κ : Type} [DecidableEq κ]

/-! ### schema side -/

def schemaParses (E : Env Text κ) (P : Project Text κ) : List (PRes TsDoc) := mapFrom E.parseTs 0 P.schemaTexts

/-- `TypeSystemOrExtensionDocument::merge(documents)`, then `doc.extend(generate_builtins());
    doc.extend(nitrogql_builtins())` -/
def mergedSchema (E : Env Text κ) (P : Project Text κ) : TsDoc :=
  (schemaParses E P).flatMap docOf ++ CliSchema.builtins

/-- the resolved document (`[]` when resolution fails: nothing looks at it then) -/
def resolvedSchema (E : Env Text κ) (P : Project Text κ) : TsDoc :=
  match ExtResolve.resolve (mergedSchema E P) with
  | .ok T => T
  | .error _ => []

def schemaExtDiag (E : Env Text κ) (e : ExtResolve.ExtError) : Diag :=
  ⟨toCli e.position, e.additional.map toCli, E.tags.schemaExt e⟩

def schemaCheckDiag (E : Env Text κ) (d : CheckTs.Err) : Diag := ⟨toCli d.2, [], E.tags.schemaCheck d.1⟩

/-! ### operation side -/

/-- an operation file with its global file index and its parse result -/
structure OpView (Text κ : Type) where
  idx : Nat
  input : OpInput Text κ
  parse : PRes Doc

def OpView.doc (v : OpView Text κ) : Doc := docOf v.parse

def views (E : Env Text κ) (P : Project Text κ) : List (OpView Text κ) :=
  mapFrom (fun i f => ⟨i, f, E.parseOp i f.text⟩) P.schemaTexts.length P.ops

/-- `Operations::new(&operations)`: `collect()` into a `HashMap` keeps the LAST entry of a path -/
def opDocs (E : Env Text κ) (P : Project Text κ) : List (κ × Doc) :=
  ((views E P).map fun v => (v.input.path, v.doc)).reverse

def opFs (E : Env Text κ) (P : Project Text κ) : Imports.FS κ String :=
  (opDocs E P).map fun pd => (pd.1, fileOf E.code pd.2)

/-- `resolve_operation_imports((path, doc, ext), &operation_resolver)` -/
def impOf (E : Env Text κ) (P : Project Text κ) (v : OpView Text κ) : Imports.Res κ String (List (Imports.DefId κ)) :=
  Imports.resolve E.res (opFs E P) v.input.path (fileOf E.code v.doc)

/-- the definition an id denotes: `imported_document.definitions[index]` -/
def fetch (docs : List (κ × Doc)) (x : Imports.DefId κ) : Option ExecDef :=
  match docs.lookup x.1 with
  | some D => (defsOf D)[x.2]?
  | none => none

/-- the document `check_operation_document` is given: the file's own definitions followed by the imported ones -/
def resolvedDoc (E : Env Text κ) (P : Project Text κ) (v : OpView Text κ) : Doc :=
  match impOf E P v with
  | .ok out => defsOf v.doc ++ out.filterMap (fetch (opDocs E P))
  | _ => defsOf v.doc

/-- the document an import error speaks about: the root document itself (the resolver never looks its own path up:
    `expanded` is seeded with it), or what the resolver map holds -/
def docAt (docs : List (κ × Doc)) (root : κ) (rootDoc : Doc) (q : κ) : Option Doc :=
  if q = root then some rootDoc else docs.lookup q

/-- main position of an import error: the path literal of the line (`FileNotFound`), the target identifier
    (`FragmentNotFound`) — of the file in which the chain broke -/
def impErrPos (E : Env Text κ) (docs : List (κ × Doc)) (root : κ) (rootDoc : Doc) : Imports.ImpErr κ String → Gql.Pos
  | .fileNotFound doc _ line =>
    match docAt docs root rootDoc doc with
    | some D => (match (importsOf D)[line]? with | some i => E.pathPos i | none => {})
    | none => {}
  | .fragmentNotFound doc _ id =>
    match docAt docs root rootDoc doc with
    | some D =>
      (match (importsOf D)[id.line]? with
       | some i => (match i.targets[id.col]? with | some (some (_, p)) => p | _ => {})
       | none => {})
    | none => {}

/-- notes of an import error: `FileNotFound` carries a hint at a built-in position -/
def impErrExtra : Imports.ImpErr κ String → List Cli.Pos
  | .fileNotFound .. => [⟨0, 0, 0, true⟩]
  | .fragmentNotFound .. => []

def opExtDiag (E : Env Text κ) (D : Doc) (e : Imports.ExtErr) : Diag := ⟨toCli (extErrPos D e), [], E.tags.opExt e⟩

def opImportDiag (E : Env Text κ) (P : Project Text κ) (v : OpView Text κ) (e : Imports.ImpErr κ String) : Diag :=
  ⟨toCli (impErrPos E (opDocs E P) v.input.path v.doc e), impErrExtra e, E.tags.opImport e⟩

def opCheckDiag (E : Env Text κ) (d : CheckCommon.Diag) : Diag := ⟨toCli d.2, [], E.tags.opCheck d.1⟩

/-- the stage results of one operation file -/
def opFileOf (E : Env Text κ) (P : Project Text κ) (v : OpView Text κ) : OpFile :=
  { parse := toParseRes v.parse
    ext := match extOf E.code v.doc with | .error e => some (opExtDiag E v.doc e) | .ok _ => none
    imp := match impOf E P v with | .err e => some (opImportDiag E P v e) | _ => none
    check := (CheckOp.checkOp ⟨resolvedSchema E P⟩ (resolvedDoc E P v)).map (opCheckDiag E)
    io := v.input.io }

/-- **the stage results of a project**, computed by the stage models -/
def stagesOf (E : Env Text κ) (P : Project Text κ) : Run :=
  { cmds := P.cmds
    schemaFiles := (schemaParses E P).map toParseRes
    schemaExt := match ExtResolve.resolve (mergedSchema E P) with | .error e => some (schemaExtDiag E e) | .ok _ => none
    schemaCheck := (CheckTs.checkSchema (resolvedSchema E P)).map (schemaCheckDiag E)
    opFiles := (views E P).map (opFileOf E P)
    gen := P.gen
    schemaPrinterFails := P.schemaPrinterFails
    ioSchema := P.ioSchema
    ioServer := P.ioServer
    ioResolvers := P.ioResolvers }

/-! ### lemmas -/

theorem mem_mapFrom {α β : Type} (f : Nat → α → β) (b : Nat) (l : List α) (y : β) :
    y ∈ mapFrom f b l ↔ ∃ j x, l[j]? = some x ∧ y = f (b + j) x := by
  induction l generalizing b with
  | nil => simp [mapFrom]
  | cons a l ih =>
    simp only [mapFrom, List.mem_cons, ih]
    constructor
    · rintro (rfl | ⟨j, x, hj, rfl⟩)
      · exact ⟨0, a, by simp, by simp⟩
      · exact ⟨j + 1, x, by simpa using hj, by rw [show b + (j + 1) = b + 1 + j by omega]⟩
    · rintro ⟨j, x, hj, rfl⟩
      cases j with
      | zero => left; simp at hj; subst hj; simp
      | succ j => right; exact ⟨j, x, by simpa using hj, by rw [show b + (j + 1) = b + 1 + j by omega]⟩

theorem length_mapFrom {α β : Type} (f : Nat → α → β) (b : Nat) (l : List α) : (mapFrom f b l).length = l.length := by
  induction l generalizing b with
  | nil => rfl
  | cons a l ih => simp [mapFrom, ih]

theorem toParseRes_ok {α : Type} (r : PRes α) : toParseRes r = .ok ↔ ∃ d, r = .ok d := by
  cases r with
  | ok d => simp [toParseRes]
  | error e => obtain ⟨l, c, t⟩ := e; simp [toParseRes]

/-- `check_impl` reports nothing exactly when no stage reports anything -/
theorem checkImpl_nil_iff (r : Run) :
    checkImpl r = [] ↔ r.schemaExt = none ∧ r.schemaCheck = [] ∧
      ∀ f ∈ r.opFiles, f.ext = none ∧ f.imp = none ∧ f.check = [] := by
  unfold checkImpl
  cases hse : r.schemaExt with
  | some d => simp
  | none =>
    simp only [true_and]
    by_cases h1 : r.schemaCheck = []
    · by_cases h2 : r.opFiles.filterMap (·.ext) = []
      · by_cases h3 : r.opFiles.filterMap (·.imp) = []
        · simp only [h1, h2, h3, List.isEmpty_nil, Bool.not_true, Bool.false_eq_true, if_false, true_and, tagged,
            List.map_eq_nil_iff, List.flatMap_eq_nil_iff]
          rw [List.filterMap_eq_nil_iff] at h2 h3
          constructor
          · intro h f hf; exact ⟨h2 f hf, h3 f hf, h f hf⟩
          · intro h f hf; exact (h f hf).2.2
        · have : (r.opFiles.filterMap (·.imp)).isEmpty = false := by simpa using h3
          simp only [h1, h2, this, List.isEmpty_nil, Bool.not_true, Bool.false_eq_true, if_false, Bool.not_false, if_true,
            true_and, tagged, List.map_eq_nil_iff]
          refine ⟨fun h => absurd h h3, fun h => ?_⟩
          exact absurd (List.filterMap_eq_nil_iff.mpr fun f hf => (h f hf).2.1) h3
      · have : (r.opFiles.filterMap (·.ext)).isEmpty = false := by simpa using h2
        simp only [h1, this, List.isEmpty_nil, Bool.not_true, Bool.false_eq_true, if_false, Bool.not_false, if_true,
          true_and, tagged, List.map_eq_nil_iff]
        refine ⟨fun h => absurd h h2, fun h => ?_⟩
        exact absurd (List.filterMap_eq_nil_iff.mpr fun f hf => (h f hf).1) h2
    · have : r.schemaCheck.isEmpty = false := by simpa using h1
      simp only [this, Bool.not_false, if_true, tagged, List.map_eq_nil_iff]
      exact ⟨fun h => absurd h h1, fun h => absurd h.1 h1⟩

theorem mem_views (E : Env Text κ) (P : Project Text κ) (v : OpView Text κ) :
    v ∈ views E P ↔ ∃ j f, P.ops[j]? = some f ∧
      v = ⟨P.schemaTexts.length + j, f, E.parseOp (P.schemaTexts.length + j) f.text⟩ :=
  mem_mapFrom _ _ _ _

theorem mem_schemaParses (E : Env Text κ) (P : Project Text κ) (r : PRes TsDoc) :
    r ∈ schemaParses E P ↔ ∃ i t, P.schemaTexts[i]? = some t ∧ r = E.parseTs i t := by
  unfold schemaParses
  rw [mem_mapFrom]
  simp

theorem map_mapFrom_const {α β γ : Type} (f : Nat → α → β) (g : β → γ) (g' : α → γ)
    (h : ∀ i x, g (f i x) = g' x) (b : Nat) (l : List α) : (mapFrom f b l).map g = l.map g' := by
  induction l generalizing b with
  | nil => rfl
  | cons a l ih => simp [mapFrom, h, ih]

/-! ### the generate part -/

/-- the generate options are usable, the schema printer does not fail and every write succeeds — on the project's
    own fields (= `Cli.genOk` of the stage results, `genOk_stagesOf`) -/
def projGenOk (P : Project Text κ) : Bool :=
  (P.gen.schemaOutput || P.gen.moduleSpecifier) && !P.gen.runtimeToDts &&
  ((!P.gen.schemaOutput || (!P.schemaPrinterFails && decide (P.ioSchema = .ok))) &&
   (!P.gen.serverOutput || !decide (P.ioServer = .mainFails)) &&
   (!P.gen.resolversOutput || decide (P.ioResolvers = .ok)) &&
   P.ops.all fun f => decide (f.io = .ok))

theorem opSteps_all (j : Nat) (fs : List OpFile) :
    (opSteps j fs).all stepOk = fs.all fun f => decide (f.io = .ok) := by
  induction fs generalizing j with
  | nil => rfl
  | cons f fs ih =>
    simp only [opSteps, List.all_cons, ih]
    congr 1
    cases f.io <;> simp [stepOk]

theorem genOk_eq (r : Run) : genOk r =
    ((r.gen.schemaOutput || r.gen.moduleSpecifier) && !r.gen.runtimeToDts &&
     ((!r.gen.schemaOutput || (!r.schemaPrinterFails && decide (r.ioSchema = .ok))) &&
      (!r.gen.serverOutput || !decide (r.ioServer = .mainFails)) &&
      (!r.gen.resolversOutput || decide (r.ioResolvers = .ok)) &&
      r.opFiles.all fun f => decide (f.io = .ok))) := by
  obtain ⟨cmds, sf, se, sc, ofs, ⟨so, ms, rt, sv, ro, mode⟩, spf, i1, i2, i3⟩ := r
  unfold genOk genSteps
  simp only [List.all_append, opSteps_all]
  cases so <;> cases sv <;> cases ro <;> cases spf <;> cases i1 <;> cases i2 <;> cases i3 <;> simp [stepOk]

theorem genOk_stagesOf (E : Env Text κ) (P : Project Text κ) : genOk (stagesOf E P) = projGenOk P := by
  have hops : ((views E P).map (opFileOf E P)).all (fun f => decide (f.io = .ok)) =
      P.ops.all fun f => decide (f.io = .ok) := by
    rw [List.all_map]
    unfold views
    have := map_mapFrom_const (fun i (f : OpInput Text κ) => (⟨i, f, E.parseOp i f.text⟩ : OpView Text κ))
      (fun v => decide ((opFileOf E P v).io = .ok)) (fun f => decide (f.io = .ok)) (fun _ _ => rfl)
      P.schemaTexts.length P.ops
    have h2 := congrArg (fun l => l.all id) this
    simpa [List.all_map, Function.comp_def] using h2
  rw [genOk_eq]
  unfold projGenOk
  simp only [stagesOf, hops]
  rfl

/-! ### "clean" at the level of the stage models -/

/-- The `check` part of "no fault", stated about the stage MODELS applied to the project's input texts: every schema
    file parses, every operation file parses, `resolve_schema_extensions` succeeds on the merged document (with
    built-ins), `check_type_system_document` reports nothing on the resolved document,
    `resolve_operation_extensions` and `resolve_operation_imports` succeed for every operation file and
    `check_operation_document` reports nothing for every operation file. -/
structure CheckClean (E : Env Text κ) (P : Project Text κ) : Prop where
  schemaParse : ∀ r ∈ schemaParses E P, ∃ T, r = .ok T
  opParse : ∀ v ∈ views E P, ∃ D, v.parse = .ok D
  schemaResolves : ∃ T, ExtResolve.resolve (mergedSchema E P) = .ok T
  schemaCheck : CheckTs.checkSchema (resolvedSchema E P) = []
  opExt : ∀ v ∈ views E P, ∃ imps, extOf E.code v.doc = .ok imps
  opImport : ∀ v ∈ views E P, ∃ out, impOf E P v = .ok out
  opCheck : ∀ v ∈ views E P, CheckOp.checkOp ⟨resolvedSchema E P⟩ (resolvedDoc E P v) = []

/-- no fault anywhere: a usable command list, `CheckClean`, and — if `generate` is requested — usable options and no
    printer / file-system failure -/
structure StagesClean (E : Env Text κ) (P : Project Text κ) : Prop where
  cmds : cmdsOk P.cmds = true
  check : CheckClean E P
  gen : Cmd.generate ∈ P.cmds → projGenOk P = true

theorem opFileOf_ext_none (E : Env Text κ) (P : Project Text κ) (v : OpView Text κ) :
    (opFileOf E P v).ext = none ↔ ∃ imps, extOf E.code v.doc = .ok imps := by
  unfold opFileOf
  cases extOf E.code v.doc <;> simp

theorem opFileOf_imp_none (E : Env Text κ) (P : Project Text κ) (v : OpView Text κ) :
    (opFileOf E P v).imp = none ↔ ∃ out, impOf E P v = .ok out := by
  have hf : impOf E P v ≠ .outOfFuel := Imports.resolve_fuel _ _ _ _
  unfold opFileOf
  cases h : impOf E P v with
  | ok out => simp
  | err e => simp
  | outOfFuel => exact absurd h hf

theorem opFileOf_check_nil (E : Env Text κ) (P : Project Text κ) (v : OpView Text κ) :
    (opFileOf E P v).check = [] ↔ CheckOp.checkOp ⟨resolvedSchema E P⟩ (resolvedDoc E P v) = [] := by
  simp [opFileOf]

/-- `check_impl` of the computed stage results reports nothing exactly when no stage model reports anything -/
theorem checkImpl_stagesOf_nil (E : Env Text κ) (P : Project Text κ) :
    checkImpl (stagesOf E P) = [] ↔
      (∃ T, ExtResolve.resolve (mergedSchema E P) = .ok T) ∧ CheckTs.checkSchema (resolvedSchema E P) = [] ∧
      ∀ v ∈ views E P, (∃ imps, extOf E.code v.doc = .ok imps) ∧ (∃ out, impOf E P v = .ok out) ∧
        CheckOp.checkOp ⟨resolvedSchema E P⟩ (resolvedDoc E P v) = [] := by
  rw [checkImpl_nil_iff]
  have h1 : (stagesOf E P).schemaExt = none ↔ ∃ T, ExtResolve.resolve (mergedSchema E P) = .ok T := by
    simp only [stagesOf]
    cases ExtResolve.resolve (mergedSchema E P) <;> simp
  have h2 : (stagesOf E P).schemaCheck = [] ↔ CheckTs.checkSchema (resolvedSchema E P) = [] := by
    simp [stagesOf]
  rw [h1, h2]
  refine and_congr Iff.rfl (and_congr Iff.rfl ?_)
  simp only [stagesOf, List.mem_map]
  constructor
  · intro h v hv
    have := h _ ⟨v, hv, rfl⟩
    exact ⟨(opFileOf_ext_none E P v).mp this.1, (opFileOf_imp_none E P v).mp this.2.1,
      (opFileOf_check_nil E P v).mp this.2.2⟩
  · rintro h f ⟨v, hv, rfl⟩
    have := h v hv
    exact ⟨(opFileOf_ext_none E P v).mpr this.1, (opFileOf_imp_none E P v).mpr this.2.1,
      (opFileOf_check_nil E P v).mpr this.2.2⟩

theorem schemaFiles_ok_iff (E : Env Text κ) (P : Project Text κ) :
    (∀ f ∈ (stagesOf E P).schemaFiles, f = .ok) ↔ ∀ r ∈ schemaParses E P, ∃ T, r = .ok T := by
  simp only [stagesOf, List.mem_map]
  constructor
  · intro h r hr; exact (toParseRes_ok r).mp (h _ ⟨r, hr, rfl⟩)
  · rintro h f ⟨r, hr, rfl⟩; exact (toParseRes_ok r).mpr (h r hr)

theorem opFiles_ok_iff (E : Env Text κ) (P : Project Text κ) :
    (∀ f ∈ (stagesOf E P).opFiles, f.parse = .ok) ↔ ∀ v ∈ views E P, ∃ D, v.parse = .ok D := by
  simp only [stagesOf, List.mem_map]
  constructor
  · intro h v hv; exact (toParseRes_ok v.parse).mp (h _ ⟨v, hv, rfl⟩)
  · rintro h f ⟨v, hv, rfl⟩; exact (toParseRes_ok v.parse).mpr (h v hv)

/-- `CheckClean` = the inputs parse and `check_impl` of the computed stage results reports nothing -/
theorem checkClean_iff (E : Env Text κ) (P : Project Text κ) :
    CheckClean E P ↔ (∀ f ∈ (stagesOf E P).schemaFiles, f = .ok) ∧ (∀ f ∈ (stagesOf E P).opFiles, f.parse = .ok) ∧
      checkImpl (stagesOf E P) = [] := by
  rw [checkImpl_stagesOf_nil, schemaFiles_ok_iff, opFiles_ok_iff]
  constructor
  · intro c
    exact ⟨c.schemaParse, c.opParse, c.schemaResolves, c.schemaCheck,
      fun v hv => ⟨c.opExt v hv, c.opImport v hv, c.opCheck v hv⟩⟩
  · rintro ⟨b, c, d, e, f⟩
    exact ⟨b, c, d, e, fun v hv => (f v hv).1, fun v hv => (f v hv).2.1, fun v hv => (f v hv).2.2⟩

/-- `Cli.Clean` of the computed stage results = `StagesClean` of the project -/
theorem clean_stagesOf_iff (E : Env Text κ) (P : Project Text κ) : Clean (stagesOf E P) ↔ StagesClean E P := by
  unfold Clean
  rw [genOk_stagesOf]
  constructor
  · rintro ⟨a, b, c, d, g⟩
    exact ⟨a, (checkClean_iff E P).mpr ⟨b, c, d⟩, g⟩
  · intro c
    obtain ⟨b, c', d⟩ := (checkClean_iff E P).mp c.check
    exact ⟨c.cmds, b, c', d, c.gen⟩

end
end NitroVerif.CliComposed
