/-
The string-literal sub-language (helper lemmas for Props/C07 `string_decode`): for EVERY list of characters `s`, the
GENERATED grammar's `StringValue` rule run by the generic interpreter on `"` ++ specEscape s ++ `"` (embedded anywhere in
an input) yields exactly the expected pair tree — one `StringCharacter` pair per character, with an `EscapedCharacter`
or `NormalStringCharacter` child — and `build_string_value` on that tree returns `s`.
The PEG run over the string body is an induction on `s` using the `e*` unfolding of the interpreter (`runs_star_cons`).
-/
import NitroVerif.Lemmas.ParseRun
import NitroVerif.Lemmas.TypeParse
import NitroVerif.Spec.Lex
namespace NitroVerif.StringParse
open NitroVerif.Peg NitroVerif.Gen NitroVerif.Gen.Parts NitroVerif.Build NitroVerif.Spec.Lex NitroVerif.TypeParse
open NitroVerif.ParseText

theorem look_StringValue : gList.look R.StringValue = some (.compound,
    .choice (.call R.EmptyStringValue) (.choice (.call R.NormalStringValue) (.call R.BlockStringValue))) := rfl
theorem look_EmptyStringValue : gList.look R.EmptyStringValue =
    some (.atomic, .seq (.str ['"', '"']) (.not (.str ['"']))) := rfl
theorem look_NormalStringValue : gList.look R.NormalStringValue =
    some (.compound, .seq (.str ['"']) (.seq (.plus (.call R.StringCharacter)) (.str ['"']))) := rfl
theorem look_StringCharacter : gList.look R.StringCharacter = some (.compound,
    .choice (.call R.EscapedUnicodeBrace) (.choice (.call R.EscapedUnicode4)
      (.choice (.call R.EscapedCharacter) (.call R.NormalStringCharacter)))) := rfl

/-! ### what the reference writer produces -/

theorem simpleEscape_cases {c e : Char} (h : simpleEscape? c = some e) :
    [e] ∈ [['"'], ['\\'], ['/'], ['b'], ['f'], ['n'], ['r'], ['t']] ∧ e ≠ 'u' := by
  unfold simpleEscape? at h
  repeat' split at h
  all_goals first
    | (cases h; decide)
    | cases h

theorem plain_char {c : Char} (h : simpleEscape? c = none) : c ≠ '"' ∧ c ≠ '\\' ∧ c ≠ '\n' ∧ c ≠ '\r' := by
  unfold simpleEscape? at h
  refine ⟨?_, ?_, ?_, ?_⟩ <;> (rintro rfl; simp at h)

/-- the escape arm of `build_string_value` inverts the reference writer -/
theorem escapedChar_simple {c e : Char} (h : simpleEscape? c = some e) : escapedChar ['\\', e] = .ok c := by
  unfold simpleEscape? at h
  repeat' split at h
  all_goals first
    | (cases h; subst_vars; rfl)
    | cases h

/-- the pair tree of one character written at offset `p` -/
def charPair (c : Char) (p : Nat) : Pair :=
  match simpleEscape? c with
  | some _ => .mk R.StringCharacter p (p + 2) [.mk R.EscapedCharacter p (p + 2) []]
  | none => .mk R.StringCharacter p (p + 1) [.mk R.NormalStringCharacter p (p + 1) []]

def charPairs : List Char → Nat → List Pair
  | [], _ => []
  | c :: cs, p => charPair c p :: charPairs cs (p + (specEscapeChar c).length)

theorem specEscape_cons (c : Char) (cs : List Char) : specEscape (c :: cs) = specEscapeChar c ++ specEscape cs := by
  simp [specEscape]

theorem specEscapeChar_length_pos (c : Char) : 1 ≤ (specEscapeChar c).length := by
  unfold specEscapeChar; split <;> simp

theorem specEscape_length_ge (s : List Char) : s.length ≤ (specEscape s).length := by
  induction s with
  | nil => simp [specEscape]
  | cons c cs ih =>
    rw [specEscape_cons]
    have := specEscapeChar_length_pos c
    simp only [List.length_cons, List.length_append]
    omega

/-! ### one `StringCharacter` -/

theorem brace_fails {p : Nat} {rest : List Char} {at_ : Atomicity} (h : matchStr ['\\', 'u'] rest = none) :
    FailsRule gList 3 R.EscapedUnicodeBrace at_ ⟨p, rest⟩ :=
  failsRule_compound look_EscapedUnicodeBrace (fails_seq_first (fails_str (c := ⟨p, rest⟩) h))

theorem u4_fails {p : Nat} {rest : List Char} {at_ : Atomicity} (h : matchStr ['\\', 'u'] rest = none) :
    FailsRule gList 3 R.EscapedUnicode4 at_ ⟨p, rest⟩ :=
  failsRule_atomic look_EscapedUnicode4 (fails_seq_first (fails_str (c := ⟨p, rest⟩) h))

theorem esc_fails {p : Nat} {rest : List Char} {at_ : Atomicity} (h : matchStr ['\\'] rest = none) :
    FailsRule gList 3 R.EscapedCharacter at_ ⟨p, rest⟩ :=
  failsRule_atomic look_EscapedCharacter (fails_seq_first (fails_str (c := ⟨p, rest⟩) h))

theorem escAlts : strAlts (.choice (.str ['"']) (.choice (.str ['\\']) (.choice (.str ['/'])
      (.choice (.str ['b']) (.choice (.str ['f']) (.choice (.str ['n']) (.choice (.str ['r']) (.str ['t']))))))))
    = some [['"'], ['\\'], ['/'], ['b'], ['f'], ['n'], ['r'], ['t']] := rfl

/-- the lookahead of `NormalStringCharacter` (`"\"" | "\\" | NEWLINE`, run under negative lookahead) fails on a
    character that is none of `"`, `\`, LF, CR -/
theorem normalGuard_fails {p : Nat} {d : Char} {r : List Char} (h1 : d ≠ '"') (h2 : d ≠ '\\') (h3 : d ≠ '\n')
    (h4 : d ≠ '\r') :
    FailsL gList .neg 7 false (.choice (.str ['"']) (.choice (.str ['\\']) (.call R.NEWLINE))) .atomic ⟨p, d :: r⟩ := by
  have fs : ∀ (x : Char) (xs : List Char) (sk : Bool), x ≠ d →
      FailsL gList .neg 1 sk (.str (x :: xs)) .atomic ⟨p, d :: r⟩ := fun x xs sk hx =>
    failsL_str (c := ⟨p, d :: r⟩) (by simp [matchStr, hx])
  have hnl : FailsRuleL gList .neg 4 R.NEWLINE .atomic ⟨p, d :: r⟩ := by
    refine failsRuleL_silent look_NEWLINE (notSpecial (by decide) (by decide)) ?_
    exact failsL_choice ((fs '\n' [] _ (Ne.symm h3)).mono (by omega : 1 ≤ 2))
      (failsL_choice (fs '\r' ['\n'] _ (Ne.symm h4)) (fs '\r' [] _ (Ne.symm h4)))
  exact failsL_choice ((fs '"' [] _ (Ne.symm h1)).mono (by omega))
    (failsL_choice ((fs '\\' [] _ (Ne.symm h2)).mono (by omega)) (failsL_call hnl))

/-- … and succeeds on `"` -/
theorem normalGuard_runs_quote {p : Nat} {r : List Char} :
    RunsL gList .neg 2 false (.choice (.str ['"']) (.choice (.str ['\\']) (.call R.NEWLINE))) .atomic ⟨p, '"' :: r⟩
      ⟨p + 1, r⟩ [] :=
  runsL_choice_l (runsL_str (c := ⟨p, '"' :: r⟩) (by simp [matchStr]))

theorem normal_fails_quote {p : Nat} {r : List Char} {at_ : Atomicity} :
    FailsRule gList 5 R.NormalStringCharacter at_ ⟨p, '"' :: r⟩ :=
  failsRule_atomic look_NormalStringCharacter (fails_seq_first (failsL_not (la := .none) normalGuard_runs_quote))

/-- `StringCharacter` fails at the closing quote -/
theorem sc_fails_quote {p : Nat} {r : List Char} {at_ : Atomicity} :
    FailsRule gList 10 R.StringCharacter at_ ⟨p, '"' :: r⟩ := by
  have hm : matchStr ['\\', 'u'] ('"' :: r) = none := by simp [matchStr]
  have hm' : matchStr ['\\'] ('"' :: r) = none := by simp [matchStr]
  refine failsRule_compound look_StringCharacter ?_
  refine fails_choice ((fails_call (brace_fails hm)).mono (by omega : 4 ≤ 8)) ?_
  refine fails_choice ((fails_call (u4_fails hm)).mono (by omega : 4 ≤ 7)) ?_
  exact fails_choice ((fails_call (esc_fails hm')).mono (by omega : 4 ≤ 6)) (fails_call normal_fails_quote)

/-- `StringCharacter` on the canonical writing of one character -/
theorem sc_runs (c : Char) (p : Nat) (rest : List Char) {at_ : Atomicity} :
    RunsRule gList 20 R.StringCharacter at_ ⟨p, specEscapeChar c ++ rest⟩ ⟨p + (specEscapeChar c).length, rest⟩
      [charPair c p] := by
  cases he : simpleEscape? c with
  | some e =>
    obtain ⟨hmem, hu⟩ := simpleEscape_cases he
    have hm : matchStr ['\\', 'u'] ('\\' :: e :: rest) = none := by simp [matchStr, Ne.symm hu]
    have hesc : RunsRule gList 13 R.EscapedCharacter .compound ⟨p, '\\' :: e :: rest⟩ ⟨p + 1 + 1, rest⟩
        [Pair.mk R.EscapedCharacter p (p + 1 + 1) []] := by
      have h1 : Runs gList 9 false (.str ['\\']) .atomic ⟨p, '\\' :: e :: rest⟩ ⟨p + 1, e :: rest⟩ [] :=
        (runs_str (c := ⟨p, '\\' :: e :: rest⟩) (by simp [matchStr])).mono (by omega)
      have h2 := (oneChar_alts (g := gList) (la := .none) (sk := false) (at_ := .atomic) _ _ escAlts
        (by decide) (p + 1) e rest).1 hmem
      have hb := runs_seq_nosk h1 h2
      have := (runsRule_atomic (at_ := .compound) look_EscapedCharacter hb).mono (by omega : 12 ≤ 13)
      simpa using this
    have body : Runs gList 19 false (.choice (.call R.EscapedUnicodeBrace) (.choice (.call R.EscapedUnicode4)
        (.choice (.call R.EscapedCharacter) (.call R.NormalStringCharacter)))) .compound ⟨p, '\\' :: e :: rest⟩
        ⟨p + 1 + 1, rest⟩ [Pair.mk R.EscapedCharacter p (p + 1 + 1) []] := by
      refine (runs_choice_r ((fails_call (brace_fails hm)).mono (by omega : 4 ≤ 16)) ?_).mono (by omega)
      refine runs_choice_r ((fails_call (u4_fails hm)).mono (by omega : 4 ≤ 15)) ?_
      exact runs_choice_l (runs_call hesc)
    have := runsRule_compound (at_ := at_) look_StringCharacter body
    simpa [specEscapeChar, he, charPair, Nat.add_assoc] using this
  | none =>
    obtain ⟨h1, h2, h3, h4⟩ := plain_char he
    have hm : matchStr ['\\', 'u'] (c :: rest) = none := by simp [matchStr, Ne.symm h2]
    have hm' : matchStr ['\\'] (c :: rest) = none := by simp [matchStr, Ne.symm h2]
    have hnorm : RunsRule gList 11 R.NormalStringCharacter .compound ⟨p, c :: rest⟩ ⟨p + 1, rest⟩
        [Pair.mk R.NormalStringCharacter p (p + 1) []] := by
      have g1 : Runs gList 8 false (.not (.choice (.str ['"']) (.choice (.str ['\\']) (.call R.NEWLINE)))) .atomic
          ⟨p, c :: rest⟩ ⟨p, c :: rest⟩ [] := runsL_not (la := .none) (normalGuard_fails h1 h2 h3 h4)
      have g2 : Runs gList 8 false .any .atomic ⟨p, c :: rest⟩ ⟨p + 1, rest⟩ [] :=
        (runsL_any (la := .none) (c := ⟨p, c :: rest⟩) rfl).mono (by omega)
      have hb := runs_seq_nosk g1 g2
      have := runsRule_atomic (at_ := .compound) look_NormalStringCharacter hb
      simpa using this
    have body : Runs gList 19 false (.choice (.call R.EscapedUnicodeBrace) (.choice (.call R.EscapedUnicode4)
        (.choice (.call R.EscapedCharacter) (.call R.NormalStringCharacter)))) .compound ⟨p, c :: rest⟩
        ⟨p + 1, rest⟩ [Pair.mk R.NormalStringCharacter p (p + 1) []] := by
      refine (runs_choice_r ((fails_call (brace_fails hm)).mono (by omega : 4 ≤ 14)) ?_).mono (by omega)
      refine runs_choice_r ((fails_call (u4_fails hm)).mono (by omega : 4 ≤ 13)) ?_
      exact runs_choice_r ((fails_call (esc_fails hm')).mono (by omega : 4 ≤ 12)) (runs_call hnorm)
    have := runsRule_compound (at_ := at_) look_StringCharacter body
    simpa [specEscapeChar, he, charPair] using this

/-! ### the body: `StringCharacter*` up to the closing quote (induction on the characters) -/

theorem body_star (s : List Char) : ∀ (p : Nat) (tail : List Char),
    Runs gList (s.length + 22) false (.star (.call R.StringCharacter)) .compound
      ⟨p, specEscape s ++ '"' :: tail⟩ ⟨p + (specEscape s).length, '"' :: tail⟩ (charPairs s p) := by
  induction s with
  | nil =>
    intro p tail
    have := runs_star_nil (fails_call (sk := false) (sc_fails_quote (p := p) (r := tail) (at_ := .compound)))
    simpa [specEscape, charPairs] using this.mono (by omega : 12 ≤ 22)
  | cons c cs ih =>
    intro p tail
    have h1 := runs_call (sk := false) (sc_runs c p (specEscape cs ++ '"' :: tail) (at_ := .compound))
    have h2 := ih (p + (specEscapeChar c).length) tail
    have := runs_star_cons (h1.mono (by omega : 21 ≤ cs.length + 22)) h2
    simpa [specEscape_cons, charPairs, Nat.add_assoc, Nat.add_comm 1] using this

/-- the `StringValue` pair of the literal of `s` written at offset `p` -/
def stringPair (s : List Char) (p : Nat) : Pair :=
  match s with
  | [] => .mk R.StringValue p (p + 2) [.mk R.EmptyStringValue p (p + 2) []]
  | _ :: _ => .mk R.StringValue p (p + ((specEscape s).length + 2))
      [.mk R.NormalStringValue p (p + ((specEscape s).length + 2)) (charPairs s (p + 1))]

/-- the canonical literal -/
def quoted (s : List Char) : List Char := '"' :: (specEscape s ++ ['"'])

/-- what may follow the literal: after `""` no further `"` (that would open a block string) -/
def StrEnd (s rest : List Char) : Prop := s = [] → HeadNot (· = '"') rest

theorem head_specEscape_ne_quote (c : Char) (cs x : List Char) :
    matchStr ['"', '"'] ('"' :: (specEscape (c :: cs) ++ x)) = none := by
  rw [specEscape_cons]
  cases he : simpleEscape? c with
  | some e => simp [specEscapeChar, he, matchStr]
  | none =>
    have := (plain_char he).1
    simp [specEscapeChar, he, matchStr, Ne.symm this]

/-- `StringValue` on the canonical literal of `s`, embedded at offset `p`, in any context -/
theorem stringValue_runs (s : List Char) (p : Nat) (rest : List Char) (hend : StrEnd s rest) {at_ : Atomicity} :
    RunsRule gList (s.length + 40) R.StringValue at_ ⟨p, quoted s ++ rest⟩ ⟨p + (quoted s).length, rest⟩
      [stringPair s p] := by
  cases s with
  | nil =>
    have hr := hend rfl
    have h1 : Runs gList 2 false (.str ['"', '"']) .atomic ⟨p, '"' :: '"' :: rest⟩ ⟨p + 2, rest⟩ [] :=
      (runs_str (c := ⟨p, '"' :: '"' :: rest⟩) (by simp [matchStr])).mono (by omega)
    have h2 : Runs gList 2 false (.not (.str ['"'])) .atomic ⟨p + 2, rest⟩ ⟨p + 2, rest⟩ [] :=
      runsL_not (la := .none) (failsL_str (c := ⟨p + 2, rest⟩) (matchStr_none_of_head hr))
    have he := runsRule_atomic (at_ := .compound) look_EmptyStringValue (runs_seq_nosk h1 h2)
    have body := runs_choice_l (b := .choice (.call R.NormalStringValue) (.call R.BlockStringValue)) (runs_call (sk := false) he)
    have := runsRule_compound (at_ := at_) look_StringValue body
    refine RunsRule.mono ?_ (by simp : 8 ≤ ([] : List Char).length + 40)
    simpa [quoted, specEscape, stringPair] using this
  | cons c cs =>
    have hempty : FailsRule gList 3 R.EmptyStringValue .compound ⟨p, quoted (c :: cs) ++ rest⟩ := by
      refine failsRule_atomic look_EmptyStringValue (fails_seq_first (fails_str (c := ⟨p, _⟩) ?_))
      have := head_specEscape_ne_quote c cs ('"' :: rest)
      simpa [quoted] using this
    have e : quoted (c :: cs) ++ rest = '"' :: (specEscape (c :: cs) ++ '"' :: rest) := by simp [quoted]
    have h1 : Runs gList ((c :: cs).length + 30) false (.str ['"']) .compound ⟨p, '"' :: (specEscape (c :: cs) ++ '"' :: rest)⟩
        ⟨p + 1, specEscape (c :: cs) ++ '"' :: rest⟩ [] :=
      (runs_str (c := ⟨p, '"' :: (specEscape (c :: cs) ++ '"' :: rest)⟩) (by simp [matchStr])).mono (by omega)
    -- `StringCharacter+` = `StringCharacter ~ StringCharacter*`
    have hsc := runs_call (sk := false) (sc_runs c (p + 1) (specEscape cs ++ '"' :: rest) (at_ := .compound))
    have hst := body_star cs (p + 1 + (specEscapeChar c).length) rest
    have hplus : Runs gList ((c :: cs).length + 27) false (.plus (.call R.StringCharacter)) .compound
        ⟨p + 1, specEscape (c :: cs) ++ '"' :: rest⟩ ⟨p + 1 + (specEscape (c :: cs)).length, '"' :: rest⟩
        (charPairs (c :: cs) (p + 1)) := by
      have : Runs gList _ false (.plus (.call R.StringCharacter)) .compound _ _ _ :=
        runsL_plus (la := .none) (runs_seq_nosk (hsc.mono (by omega : 21 ≤ cs.length + 22)) hst)
      refine Runs.mono ?_ (by simp : cs.length + 22 + 2 + 1 ≤ (c :: cs).length + 27)
      simpa [specEscape_cons, charPairs, Nat.add_assoc] using this
    have h3 : Runs gList ((c :: cs).length + 27) false (.str ['"']) .compound
        ⟨p + 1 + (specEscape (c :: cs)).length, '"' :: rest⟩ ⟨p + 1 + (specEscape (c :: cs)).length + 1, rest⟩ [] :=
      (runs_str (c := ⟨p + 1 + (specEscape (c :: cs)).length, '"' :: rest⟩) (by simp [matchStr])).mono (by omega)
    have inner := runs_seq_nosk hplus h3
    have outer := runs_seq_nosk (h1.mono (by omega)) (inner.mono (by omega : _ ≤ (c :: cs).length + 30))
    have hn := runsRule_compound (at_ := .compound) look_NormalStringValue outer
    have hempty' : FailsRule gList 3 R.EmptyStringValue .compound ⟨p, '"' :: (specEscape (c :: cs) ++ '"' :: rest)⟩ :=
      e ▸ hempty
    have body := runs_choice_r ((fails_call (sk := false) hempty').mono (by omega : 4 ≤ (c :: cs).length + 35))
      (runs_choice_l (b := .call R.BlockStringValue) (runs_call (sk := false) hn))
    have := runsRule_compound (at_ := at_) look_StringValue body
    rw [e]
    refine RunsRule.mono ?_ (by omega : (c :: cs).length + 30 + 2 + 1 + 1 + 1 + 1 + 1 ≤ (c :: cs).length + 40)
    simpa [quoted, stringPair, Nat.add_assoc, Nat.add_comm 1, Nat.add_left_comm] using this

/-! ### the builder on that tree -/

theorem slice_of_drop {inp : List Char} {a : Nat} {t r : List Char} (h : inp.drop a = t ++ r) :
    slice inp a (a + t.length) = t := by
  unfold slice
  rw [h, show a + t.length - a = t.length by omega]
  simp

theorem decodeChar_charPair {inp : List Char} {c : Char} {a : Nat} {r : List Char}
    (h : inp.drop a = specEscapeChar c ++ r) : decodeChar (Ctx.spec inp) (charPair c a) = .ok c := by
  cases he : simpleEscape? c with
  | some e =>
    have hs : slice inp a (a + 2) = ['\\', e] := by
      have := slice_of_drop (t := ['\\', e]) (r := r) (by simpa [specEscapeChar, he] using h)
      simpa using this
    simp [decodeChar, charPair, he, onlyChildOf, onlyChild, Pair.children, Pair.rule, OC_StringCharacter, asStr, Ctx.spec,
      Pair.start, Pair.stop, hs, escapedChar_simple he, bind, Except.bind, R.EscapedCharacter, R.EscapedUnicodeBrace,
      R.EscapedUnicode4, R.NormalStringCharacter]
  | none =>
    have hs : slice inp a (a + 1) = [c] := by
      have := slice_of_drop (t := [c]) (r := r) (by simpa [specEscapeChar, he] using h)
      simpa using this
    simp [decodeChar, charPair, he, onlyChildOf, onlyChild, Pair.children, Pair.rule, OC_StringCharacter, asStr, Ctx.spec,
      Pair.start, Pair.stop, hs, bind, Except.bind, R.EscapedCharacter, R.EscapedUnicodeBrace,
      R.EscapedUnicode4, R.NormalStringCharacter]

theorem mapM_charPairs {inp : List Char} : ∀ (s : List Char) (a : Nat) (r : List Char),
    inp.drop a = specEscape s ++ r → (charPairs s a).mapM (decodeChar (Ctx.spec inp)) = .ok s := by
  intro s
  induction s with
  | nil => intro a r _; rfl
  | cons c cs ih =>
    intro a r h
    rw [specEscape_cons, List.append_assoc] at h
    have h1 := decodeChar_charPair h
    have h2 : inp.drop (a + (specEscapeChar c).length) = specEscape cs ++ r := by
      rw [← List.drop_drop, h]; simp
    have := ih _ r h2
    simp [charPairs, List.mapM_cons, h1, this, bind, Except.bind, pure, Except.pure]

/-- where no character is a `\uXXXX` escape the loop of `build_string_value` (fix fff8e9c: surrogate pairs) decodes every
    character on its own -/
theorem decodeChars_eq_mapM (ctx : Ctx) : ∀ (l : List Pair),
    (∀ sc ∈ l, ∃ ch, onlyChildOf OC_StringCharacter "StringCharacter" sc = .ok ch ∧ ch.rule ≠ R.EscapedUnicode4) →
    decodeChars ctx false l = l.mapM (decodeChar ctx) := by
  intro l
  induction l with
  | nil => intro _; rfl
  | cons sc rest ih =>
    intro h
    obtain ⟨ch, hoc, hne⟩ := h sc (List.mem_cons_self ..)
    have ih' := ih fun x hx => h x (List.mem_cons_of_mem _ hx)
    rw [decodeChars, hoc]
    show (if ch.rule = R.EscapedUnicode4 then _ else _) = _
    rw [if_neg hne, ih', List.mapM_cons]
    cases decodeChar ctx sc with
    | error e => rfl
    | ok c => cases List.mapM (decodeChar ctx) rest <;> rfl

theorem charPair_child (c : Char) (a : Nat) :
    ∃ ch, onlyChildOf OC_StringCharacter "StringCharacter" (charPair c a) = .ok ch ∧ ch.rule ≠ R.EscapedUnicode4 := by
  unfold charPair
  split
  · exact ⟨.mk R.EscapedCharacter a (a + 2) [], by
      simp [onlyChildOf, onlyChild, Pair.children, Pair.rule, OC_StringCharacter, bind, Except.bind],
      by simp [Pair.rule, R.EscapedCharacter, R.EscapedUnicode4]⟩
  · exact ⟨.mk R.NormalStringCharacter a (a + 1) [], by
      simp [onlyChildOf, onlyChild, Pair.children, Pair.rule, OC_StringCharacter, bind, Except.bind],
      by simp [Pair.rule, R.NormalStringCharacter, R.EscapedUnicode4]⟩

theorem charPairs_children : ∀ (s : List Char) (a : Nat), ∀ sc ∈ charPairs s a,
    ∃ ch, onlyChildOf OC_StringCharacter "StringCharacter" sc = .ok ch ∧ ch.rule ≠ R.EscapedUnicode4 := by
  intro s
  induction s with
  | nil => intro a sc h; cases h
  | cons c cs ih =>
    intro a sc h
    simp only [charPairs, List.mem_cons] at h
    rcases h with rfl | h
    · exact charPair_child c a
    · exact ih _ sc h

/-- `build_string_value` on the pair tree of the canonical literal of `s` returns `s` (and the position of the
    literal) -/
theorem stringValueChars_stringPair {inp : List Char} (s : List Char) (p : Nat) (rest : List Char)
    (h : inp.drop p = quoted s ++ rest) :
    stringValueChars (Ctx.spec inp) (stringPair s p) =
      .ok (s, { line := (lineCol inp p).1, col := (lineCol inp p).2 }) := by
  cases s with
  | nil =>
    simp [stringValueChars, stringPair, onlyChildOf, onlyChild, Pair.children, Pair.rule, OC_StringValue, toPos, Ctx.spec,
      Pair.start, bind, Except.bind]
  | cons c cs =>
    have h' : inp.drop (p + 1) = specEscape (c :: cs) ++ ('"' :: rest) := by
      rw [← List.drop_drop, h]; simp [quoted]
    have hm := mapM_charPairs (inp := inp) (c :: cs) (p + 1) _ h'
    have hd := decodeChars_eq_mapM (Ctx.spec inp) _ (charPairs_children (c :: cs) (p + 1))
    rw [hm] at hd
    simp [stringValueChars, stringPair, onlyChildOf, onlyChild, Pair.children, Pair.rule, OC_StringValue,
      hd, bind, Except.bind, R.NormalStringValue, R.EmptyStringValue, R.BlockStringValue]
    rfl

end NitroVerif.StringParse
