/-
Directive locations (helper lemmas for Props/C07Doc): the two atomic rules `ExecutableDirectiveLocation` and
`TypeSystemDirectiveLocation` are ordered choices of literal words followed by `!NameContinue`; which alternative an
ordered choice of literals takes on a word followed by a non-name character is COMPUTED (`firstAbs`), so that the
statement about each of the 19 words is checked by evaluation.
-/
import NitroVerif.Lemmas.ParseDocTsSchemaExt
namespace NitroVerif.DocParse
open NitroVerif.Peg NitroVerif.Gen NitroVerif.Gen.Parts NitroVerif.Build NitroVerif.TypeParse NitroVerif.StringParse
open NitroVerif.Gql NitroVerif.ValueParse NitroVerif.Spec.Lex NitroVerif.ParseText

set_option linter.unusedSimpArgs false

/-- nested ordered choice of literals -/
def strChoice : List (List Char) → Expr
  | [] => .str []
  | [w] => .str w
  | w :: v :: ws => .choice (.str w) (strChoice (v :: ws))

/-- `matchStr s (w ++ rest)` for every `rest` that does not begin with a name character: `some none` = no match,
    `some (some s')` = match leaving `s' ++ rest`, `none` = depends on `rest` -/
def matchAbs : List Char → List Char → Option (Option (List Char))
  | [], w => some (some w)
  | c :: _, [] => if nameCont c then some none else none
  | c :: s, d :: w => if c = d then matchAbs s w else some none

theorem matchAbs_none : ∀ (s w : List Char) {rest : List Char}, matchAbs s w = some none → HeadNot nameCont rest →
    matchStr s (w ++ rest) = none := by
  intro s
  induction s with
  | nil => intro w rest h _; simp [matchAbs] at h
  | cons c s ih =>
    intro w rest h hr
    cases w with
    | nil =>
      simp only [matchAbs] at h
      split at h
      · rename_i hc
        simp only [List.nil_append]
        exact matchStr_none_of_head (fun d r he hd => hr d r he (hd ▸ hc))
      · cases h
    | cons d w =>
      simp only [matchAbs] at h
      split at h
      · rename_i hcd
        simp [matchStr, hcd, ih w h hr]
      · rename_i hcd
        simp [matchStr, hcd]

theorem matchAbs_some : ∀ (s w : List Char) {s' rest : List Char}, matchAbs s w = some (some s') →
    matchStr s (w ++ rest) = some (s' ++ rest) := by
  intro s
  induction s with
  | nil => intro w s' rest h; simp [matchAbs] at h; simp [matchStr, h]
  | cons c s ih =>
    intro w s' rest h
    cases w with
    | nil =>
      simp only [matchAbs] at h
      split at h <;> cases h
    | cons d w =>
      simp only [matchAbs] at h
      split at h
      · rename_i hcd
        simp [matchStr, hcd, ih w h]
      · cases h

/-- which alternative of `strChoice ws` matches `w ++ rest`: `some none` = none, `some (some (s, s'))` = the literal `s`,
    leaving `s' ++ rest` -/
def firstAbs : List (List Char) → List Char → Option (Option (List Char × List Char))
  | [], _ => some none
  | s :: ss, w =>
    match matchAbs s w with
    | some (some s') => some (some (s, s'))
    | some none => firstAbs ss w
    | none => none

theorem strChoice_runs {la : Look} {p : Nat} : ∀ (ws : List (List Char)) (w : List Char) {s s' rest : List Char},
    ws ≠ [] → firstAbs ws w = some (some (s, s')) → HeadNot nameCont rest →
    RunsL gList la (ws.length + 1) false (strChoice ws) .atomic ⟨p, w ++ rest⟩ ⟨p + s.length, s' ++ rest⟩ [] := by
  intro ws
  induction ws with
  | nil => intro w s s' rest h; exact absurd rfl h
  | cons a ws ih =>
    intro w s s' rest _ h hr
    simp only [firstAbs] at h
    cases hm : matchAbs a w with
    | none => rw [hm] at h; cases h
    | some o =>
      cases o with
      | some x =>
        rw [hm] at h
        simp only [Option.some.injEq, Prod.mk.injEq] at h
        obtain ⟨rfl, rfl⟩ := h
        have r1 : RunsL gList la 1 false (.str a) .atomic ⟨p, w ++ rest⟩ ⟨p + a.length, x ++ rest⟩ [] :=
          runsL_str (c := ⟨p, w ++ rest⟩) (matchAbs_some a w hm)
        cases ws with
        | nil => exact r1.mono (by simp)
        | cons v ws => exact (runsL_choice_l r1).mono (by simp)
      | none =>
        rw [hm] at h
        have f1 : FailsL gList la 1 false (.str a) .atomic ⟨p, w ++ rest⟩ :=
          failsL_str (c := ⟨p, w ++ rest⟩) (matchAbs_none a w hm hr)
        cases ws with
        | nil => simp [firstAbs] at h
        | cons v ws =>
          have r2 := ih w (by simp) h hr
          exact (runsL_choice_r (f1.mono (by simp)) r2).mono (by simp)

theorem strChoice_fails {la : Look} {p : Nat} : ∀ (ws : List (List Char)) (w : List Char) {rest : List Char},
    ws ≠ [] → firstAbs ws w = some none → HeadNot nameCont rest →
    FailsL gList la (ws.length + 1) false (strChoice ws) .atomic ⟨p, w ++ rest⟩ := by
  intro ws
  induction ws with
  | nil => intro w rest h; exact absurd rfl h
  | cons a ws ih =>
    intro w rest _ h hr
    simp only [firstAbs] at h
    cases hm : matchAbs a w with
    | none => rw [hm] at h; cases h
    | some o =>
      cases o with
      | some x => rw [hm] at h; cases h
      | none =>
        rw [hm] at h
        have f1 : FailsL gList la 1 false (.str a) .atomic ⟨p, w ++ rest⟩ :=
          failsL_str (c := ⟨p, w ++ rest⟩) (matchAbs_none a w hm hr)
        cases ws with
        | nil => exact f1.mono (by simp)
        | cons v ws =>
          have f2 := ih w (by simp) h hr
          exact (failsL_choice (f1.mono (by simp)) f2).mono (by simp)

/-- an atomic rule `@{ (w₁ | w₂ | …) ~ !NameContinue }` on one of its words -/
theorem wordRule_runs {r : RuleId} {ws : List (List Char)}
    (hl : gList.look r = some (.atomic, .seq (strChoice ws) (.not (.call R.NameContinue)))) (hne : ws ≠ [])
    {w : List Char} (h : firstAbs ws w = some (some (w, []))) (p : Nat) {rest : List Char} (hr : HeadNot nameCont rest) :
    RunsRule gList (ws.length + 12) r .nonAtomic ⟨p, w ++ rest⟩ ⟨p + w.length, rest⟩ [.mk r p (p + w.length) []] := by
  have h1 : RunsL gList .none (ws.length + 9) false (strChoice ws) .atomic ⟨p, w ++ rest⟩ ⟨p + w.length, rest⟩ [] := by
    have := strChoice_runs (la := .none) (p := p) ws w hne h hr
    simpa using this.mono (by omega : ws.length + 1 ≤ ws.length + 9)
  have h2 : RunsL gList .none (ws.length + 9) false (.not (.call R.NameContinue)) .atomic ⟨p + w.length, rest⟩
      ⟨p + w.length, rest⟩ [] := (runsL_not (failsL_call (nameContL_fails hr))).mono (by omega)
  have := runsRuleL_atomic (at_ := .nonAtomic) hl (runsL_seq_noskip (Or.inl rfl) h1 h2)
  exact runsRule_iff.mpr (by simpa using this)

/-- … fails: no literal matches, or the literal that matches is followed by a name character -/
def wordFails (ws : List (List Char)) (w : List Char) : Bool :=
  match firstAbs ws w with
  | some none => true
  | some (some (_, d :: _)) => decide (nameCont d)
  | _ => false

theorem wordRule_fails {r : RuleId} {ws : List (List Char)}
    (hl : gList.look r = some (.atomic, .seq (strChoice ws) (.not (.call R.NameContinue)))) (hne : ws ≠ [])
    {w : List Char} (h : wordFails ws w = true) (p : Nat) {rest : List Char} (hr : HeadNot nameCont rest) :
    FailsRule gList (ws.length + 12) r .nonAtomic ⟨p, w ++ rest⟩ := by
  refine failsRule_iff.mpr ?_
  simp only [wordFails] at h
  split at h
  · rename_i hf
    exact (failsRuleL_atomic hl (failsL_seq_first (strChoice_fails (la := .none) ws w hne hf hr))).mono (by omega)
  · rename_i s d s' hf
    have hd : nameCont d := of_decide_eq_true h
    have h1 := strChoice_runs (la := .none) (p := p) ws w hne hf hr
    have h2 : FailsL gList .none (ws.length + 9) false (.not (.call R.NameContinue)) .atomic
        ⟨p + s.length, (d :: s') ++ rest⟩ :=
      (failsL_not (runsL_call (nameContL_runs (la := .neg) hd))).mono (by omega)
    exact (failsRuleL_atomic hl (failsL_seq_last_noskip (Or.inl rfl) (h1.mono (by omega)) h2)).mono (by omega)
  · cases h

/-! ### the two rules of the grammar -/

def execWords : List (List Char) :=
  ["QUERY".toList, "MUTATION".toList, "SUBSCRIPTION".toList, "FIELD".toList, "FRAGMENT_DEFINITION".toList,
   "FRAGMENT_SPREAD".toList, "INLINE_FRAGMENT".toList, "VARIABLE_DEFINITION".toList]

def tsWords : List (List Char) :=
  ["SCHEMA".toList, "SCALAR".toList, "OBJECT".toList, "FIELD_DEFINITION".toList, "ARGUMENT_DEFINITION".toList,
   "INTERFACE".toList, "UNION".toList, "ENUM_VALUE".toList, "ENUM".toList, "INPUT_OBJECT".toList,
   "INPUT_FIELD_DEFINITION".toList]

theorem look_ExecutableDirectiveLocation : gList.look R.ExecutableDirectiveLocation =
    some (.atomic, .seq (strChoice execWords) (.not (.call R.NameContinue))) := rfl
theorem look_TypeSystemDirectiveLocation : gList.look R.TypeSystemDirectiveLocation =
    some (.atomic, .seq (strChoice tsWords) (.not (.call R.NameContinue))) := rfl
theorem look_DirectiveLocation : gList.look R.DirectiveLocation = some (.normal,
    .choice (.call R.ExecutableDirectiveLocation) (.call R.TypeSystemDirectiveLocation)) := rfl

/-- the 19 directive locations -/
def locWords : List (List Char) := execWords ++ tsWords

/-- the rule that takes the word: `true` = `ExecutableDirectiveLocation`, `false` = `TypeSystemDirectiveLocation`
    (after `ExecutableDirectiveLocation` has failed) -/
def locKind (w : List Char) : Option Bool :=
  if firstAbs execWords w = some (some (w, [])) then some true
  else if wordFails execWords w = true ∧ firstAbs tsWords w = some (some (w, [])) then some false
  else none

/-- each of the 19 words is a valid name and is taken by one of the two rules -/
theorem locWords_ok : ∀ w ∈ locWords, Hd nameStart w ∧ (locKind w).isSome = true := by
  have h : ∀ w ∈ locWords, (match w with | c :: _ => decide (nameStart c) | [] => false) = true ∧
      (locKind w).isSome = true := by decide
  intro w hw
  obtain ⟨h1, h2⟩ := h w hw
  refine ⟨?_, h2⟩
  cases w with
  | nil => cases h1
  | cons c cs => exact ⟨c, cs, rfl, of_decide_eq_true h1⟩

variable {inp : List Char}

/-- what the builder reads of a location pair -/
def LocGood (inp : List Char) (w : List Char) (pr : Pair) : Prop :=
  pr.rule = R.DirectiveLocation ∧ CleanP pr ∧ asString (Ctx.spec inp) pr = String.ofList w

/-- the `DirectiveLocation` rule on one of the 19 words followed by its gap -/
theorem locT {τ : Trivia} (hτ : ∀ q, Ws (τ q)) {w : List Char} (hw : w ∈ locWords) {sep : Bool} {p : Nat}
    {bad : Char → Prop} (h : HasAt inp p (tk τ sep p w)) (hn : Nxt inp bad sep (p + (tk τ sep p w).length)) :
    ∃ pr, RunsK (B (tk τ sep p w).length + 10) (.call R.DirectiveLocation) (At inp p)
      (At inp (p + (tk τ sep p w).length)) [pr] ∧ LocGood inp w pr := by
  obtain ⟨h1, hg, hglue⟩ := tk_gap hτ h hn
  have hk := (locWords_ok w hw).2
  have hsl := h1.slice
  have hend : p + w.length + (gapS sep (τ (p + w.length))).length = p + (tk τ sep p w).length := by
    rw [tk_length, Nat.add_assoc]
  simp only [locKind] at hk
  split at hk
  · rename_i he
    have r1 := wordRule_runs look_ExecutableDirectiveLocation (by decide) he p hglue
    have r1' : Runs gList (execWords.length + 13) true (.call R.ExecutableDirectiveLocation) .nonAtomic (At inp p)
        (At inp (p + w.length)) [.mk R.ExecutableDirectiveLocation p (p + w.length) []] := by
      simp only [At]; rw [h1.drop]; exact runs_call r1
    have ke : RunsKE (max (execWords.length + 13) ((gapS sep (τ (p + w.length))).length + 60))
        (.call R.ExecutableDirectiveLocation) (At inp p) (At inp (p + w.length))
        (At inp (p + w.length + (gapS sep (τ (p + w.length))).length))
        [.mk R.ExecutableDirectiveLocation p (p + w.length) []] :=
      ⟨r1'.mono (Nat.le_max_left ..), hg.skip.mono (Nat.le_max_right ..)⟩
    have kr := runsKE_rule look_DirectiveLocation (by decide) (by decide)
      (runsKE_choice_l (b := .call R.TypeSystemDirectiveLocation) ke)
    refine ⟨_, RunsK.cast (kr.toK.mono ?_) rfl (by rw [hend]) rfl, rfl, ?_, ?_⟩
    · rw [tk_length]; simp [execWords, B]; omega
    · exact cleanP_of (by decide) (by decide) ⟨cleanP_of (by decide) (by decide) trivial, trivial⟩
    · simp [asString_spec', Pair.start, Pair.stop, At, hsl]
  · split at hk
    · rename_i _ he
      obtain ⟨hf, he⟩ := he
      have f1 := wordRule_fails look_ExecutableDirectiveLocation (by decide) hf p hglue
      have f1' : Fails gList (execWords.length + 13) true (.call R.ExecutableDirectiveLocation) .nonAtomic (At inp p) := by
        simp only [At]; rw [h1.drop]; exact fails_call f1
      have r1 := wordRule_runs look_TypeSystemDirectiveLocation (by decide) he p hglue
      have r1' : Runs gList (tsWords.length + 13) true (.call R.TypeSystemDirectiveLocation) .nonAtomic (At inp p)
          (At inp (p + w.length)) [.mk R.TypeSystemDirectiveLocation p (p + w.length) []] := by
        simp only [At]; rw [h1.drop]; exact runs_call r1
      have ke : RunsKE (max (tsWords.length + 13) ((gapS sep (τ (p + w.length))).length + 60))
          (.call R.TypeSystemDirectiveLocation) (At inp p) (At inp (p + w.length))
          (At inp (p + w.length + (gapS sep (τ (p + w.length))).length))
          [.mk R.TypeSystemDirectiveLocation p (p + w.length) []] :=
        ⟨r1'.mono (Nat.le_max_left ..), hg.skip.mono (Nat.le_max_right ..)⟩
      have kr := runsKE_rule look_DirectiveLocation (by decide) (by decide) (runsKE_choice_r f1' ke)
      refine ⟨_, RunsK.cast (kr.toK.mono ?_) rfl (by rw [hend]) rfl, rfl, ?_, ?_⟩
      · rw [tk_length]; simp [execWords, tsWords, B]; omega
      · exact cleanP_of (by decide) (by decide) ⟨cleanP_of (by decide) (by decide) trivial, trivial⟩
      · simp [asString_spec', Pair.start, Pair.stop, At, hsl]
    · cases hk

end NitroVerif.DocParse
