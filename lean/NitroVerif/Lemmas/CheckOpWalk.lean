import NitroVerif.Lemmas.CheckOp
/-!
The walk invariant of `check_selection_set`: if the diagnostics of the walk of a selection set are all of
"allowed" kinds (`Quiet A`), then every selection of that selection set and of every selection set nested in it
(the reference validator's `ctxsOfSels`) was visited with the right type in scope and passed its local checks
(`LocalFact`).
-/
namespace NitroVerif.CheckOp
open NitroVerif.Gql NitroVerif.CheckCommon NitroVerif.Valid

/-- all diagnostics of `ds` have a kind allowed by `A` -/
def Quiet (A : ErrKind → Bool) (ds : List Diag) : Prop := ∀ d ∈ ds, A d.1 = true

theorem quiet_nil {A} : Quiet A [] := by intro d hd; cases hd
theorem quiet_append {A} {a b : List Diag} : Quiet A (a ++ b) ↔ Quiet A a ∧ Quiet A b := by
  constructor
  · intro h; exact ⟨fun d hd => h d (List.mem_append_left _ hd), fun d hd => h d (List.mem_append_right _ hd)⟩
  · rintro ⟨h1, h2⟩ d hd
    rcases List.mem_append.mp hd with hd | hd
    · exact h1 d hd
    · exact h2 d hd
theorem quiet_single {A} {k : ErrKind} {p : Pos} : Quiet A [(k, p)] ↔ A k = true := by
  constructor
  · intro h; exact h (k, p) (by simp)
  · intro h d hd; simp at hd; subst hd; exact h
theorem quiet_cons {A} {k : ErrKind} {p : Pos} {ds : List Diag} : Quiet A ((k, p) :: ds) ↔ A k = true ∧ Quiet A ds := by
  rw [show (k, p) :: ds = [(k, p)] ++ ds from rfl, quiet_append, quiet_single]

/-- no diagnostic is allowed: the walk of an operation -/
def allowNone : ErrKind → Bool := fun _ => false
/-- only `UnknownVariable` is allowed: the walks under `without_variable_checks` -/
def allowUV : ErrKind → Bool := fun k => k == ErrKind.UnknownVariable

/-- the allowed kinds are at most `UnknownVariable` -/
def Admissible (A : ErrKind → Bool) : Prop := ∀ k, k ≠ ErrKind.UnknownVariable → A k = false

theorem admissible_none : Admissible allowNone := fun _ _ => rfl
theorem admissible_uv : Admissible allowUV := by
  intro k hk; simp [allowUV, hk]

theorem quiet_none_iff {ds : List Diag} : Quiet allowNone ds ↔ ds = [] := by
  constructor
  · intro h
    cases ds with
    | nil => rfl
    | cons d ds => have := h d (by simp); simp [allowNone] at this
  · rintro rfl; exact quiet_nil

theorem quiet_uv_iff {ds : List Diag} : withoutVariableChecks ds = [] ↔ Quiet allowUV ds := by
  simp only [withoutVariableChecks, List.filter_eq_nil_iff, Quiet, allowUV]
  constructor
  · intro h d hd; have := h d hd; simpa using this
  · intro h d hd; have := h d hd; simpa using this

/-- `direct_fields_of_output_type` found: the type is composite -/
theorem directFields_some {td : TypeDef} {fields : List FieldDef} (h : directFields td = some fields) :
    (td.kind = .object ∨ td.kind = .interface) ∧ fields = td.fields ++ [typenameField] ∨
    td.kind = .union ∧ fields = [typenameField] := by
  unfold directFields at h
  cases hk : td.kind <;> simp [hk] at h <;> simp [h]

/-- no type declares a field named `__typename` -/
def NoReservedFields (S : Schema) : Prop := noReservedFieldsB S = true

theorem typeDef?_mem {S : Schema} {n : Name} {td : TypeDef} (h : S.typeDef? n = some td) : td ∈ S.typeDefs :=
  List.mem_of_find?_eq_some h

theorem typeDef?_name {S : Schema} {n : Name} {td : TypeDef} (h : S.typeDef? n = some td) : td.name = n := by
  have := List.find?_some h
  simpa using this

theorem find_with_typename {fs : List FieldDef} (hres : ∀ f ∈ fs, (f.name == "__typename") = false) (fname : Name) :
    (if fname == "__typename" then some typenameMeta else fs.find? (·.name == fname)) =
      (fs ++ [typenameField]).find? (·.name == fname) := by
  rw [List.find?_append]
  by_cases hq : fname = "__typename"
  · subst hq
    have : fs.find? (·.name == "__typename") = none := by
      rw [List.find?_eq_none]; intro f hf'; simp [hres f hf']
    simp [this, typenameField, typenameMeta]
  · have h1 : (fname == "__typename") = false := beq_eq_false_iff_ne.mpr hq
    have h2 : ("__typename" == fname) = false := beq_eq_false_iff_ne.mpr (fun h => hq h.symm)
    simp [h1, typenameField, h2]

/-- the checker's field lookup (`direct_fields_of_output_type(..).find(..)`) and the reference validator's
    `fieldDef?` agree on every composite type of a schema without reserved field names -/
theorem fieldDef?_eq_find {S : Schema} (hS : NoReservedFields S) {n : Name} {root : TypeDef} {fields : List FieldDef}
    (hn : S.typeDef? n = some root) (hf : directFields root = some fields) (fname : Name) :
    fieldDef? S n fname = fields.find? (·.name == fname) := by
  have hmem := typeDef?_mem hn
  have hres : ∀ f ∈ root.fields, (f.name == "__typename") = false := by
    intro f hf'
    have := List.all_eq_true.mp (List.all_eq_true.mp hS root hmem) f hf'
    simpa using this
  unfold fieldDef?
  rw [hn]
  rcases directFields_some hf with ⟨hk, rfl⟩ | ⟨hk, rfl⟩
  · rcases hk with hk | hk <;> simp only [hk] <;> exact find_with_typename hres fname
  · simp only [hk]
    have := find_with_typename (fs := []) (by intro f hf'; cases hf') fname
    simpa using this

/-- what the walk established about one selection visited with type `t` in scope -/
def LocalFact (S : Schema) (A : ErrKind → Bool) (H : SpreadHandler) (seen : List Name) (vars : Option (List VarDef)) :
    Option Name × Selection → Prop
  | (none, _) => False
  | (some t, s) => ∃ root fields, S.typeDef? t = some root ∧ directFields root = some fields ∧
    match s with
    | .field _ name namePos args dirs sel =>
      ∃ fd, fields.find? (·.name == name) = some fd ∧
        Quiet A (checkDirectives S vars dirs "FIELD") ∧
        Quiet A (checkArguments S vars namePos args fd.args) ∧
        ∃ ft, S.typeDef? fd.ty.unwrapped = some ft ∧ sel.isSome = (directFields ft).isSome
    | .spread name namePos dirs pos =>
      Quiet A (checkDirectives S vars dirs "FRAGMENT_SPREAD") ∧ Quiet A (H seen vars root name namePos pos)
    | .inline cond dirs _ pos =>
      Quiet A (checkDirectives S vars dirs "INLINE_FRAGMENT") ∧
      match cond with
      | none => True
      | some (c, _) => ∃ ct, S.typeDef? c = some ct ∧ Quiet A (spreadApplicability S root ct pos).1 ∧
          (directFields ct).isSome = true

theorem allSels_cons (c : Ctx) (cs : List Ctx) :
    allSels (c :: cs) = c.sels.map (fun s => (c.parent, s)) ++ allSels cs := by
  simp [allSels]

theorem allSels_append (a b : List Ctx) : allSels (a ++ b) = allSels a ++ allSels b := by
  simp [allSels]

/-- a composite root makes `check_fragment_spread_core` go on to the selection set -/
theorem spreadApplicability_go {S : Schema} {root ct : TypeDef} {pos : Pos} {fields : List FieldDef}
    (hf : directFields root = some fields) : (spreadApplicability S root ct pos).2 = true := by
  unfold spreadApplicability
  rcases directFields_some hf with ⟨hk | hk, _⟩ | ⟨hk, _⟩ <;> cases hc : ct.kind <;> simp [hk, hc] <;> split <;> rfl

theorem checkSelection_field (S : Schema) (H seen vars root fields al name namePos args dirs sel) :
  checkSelection S H seen vars root fields (.field al name namePos args dirs sel) =
    match fields.find? (·.name == name) with
    | none => [(ErrKind.FieldNotFound, namePos)]
    | some fd =>
      checkDirectives S vars dirs "FIELD" ++
      checkArguments S vars namePos args fd.args ++
      (match S.typeDef? fd.ty.unwrapped with
       | none => [(ErrKind.TypeSystemError, namePos)]
       | some ft =>
         match sel with
         | some ss =>
           (match directFields ft with
            | none => [(ErrKind.SelectionOnInvalidType, namePos)]
            | some ffields => checkSelections S H seen vars ft ffields ss)
         | none => if (directFields ft).isSome then [(ErrKind.MustSpecifySelectionSet, namePos)] else []) := by
  cases sel <;> simp only [checkSelection] <;> rfl

theorem Selection.one_le_size (s : Selection) : 1 ≤ s.size := by
  cases s with
  | field a b c d e sel => cases sel <;> simp [Selection.size]
  | spread => simp [Selection.size]
  | inline => simp [Selection.size]

/-- conclusion of the walk lemma for a selection set visited with type `n` in scope -/
def SelsConcl (S : Schema) (A : ErrKind → Bool) (H : SpreadHandler) (seen : List Name) (vars : Option (List VarDef))
    (n : Name) (ss : List Selection) : Prop :=
  (∀ s ∈ ss, LocalFact S A H seen vars (some n, s)) ∧
  (∀ ps ∈ allSels (ctxsOfSels S (some n) ss), LocalFact S A H seen vars ps)

def SelConcl (S : Schema) (A : ErrKind → Bool) (H : SpreadHandler) (seen : List Name) (vars : Option (List VarDef))
    (n : Name) (s : Selection) : Prop :=
  LocalFact S A H seen vars (some n, s) ∧
  (∀ ps ∈ allSels (ctxsOfSel S (some n) s), LocalFact S A H seen vars ps)

section
variable {S : Schema} {A : ErrKind → Bool} (hA : Admissible A) (hS : NoReservedFields S)
  {H : SpreadHandler} {seen : List Name} {vars : Option (List VarDef)}
include hA hS

/-- one selection, given the lemma for all strictly smaller selection sets -/
theorem walk_sel_step (k : Nat)
    (IH : ∀ ss, Selection.sizeList ss ≤ k → ∀ n root fields, S.typeDef? n = some root → directFields root = some fields →
      Quiet A (checkSelections S H seen vars root fields ss) → SelsConcl S A H seen vars n ss) :
    ∀ s, s.size ≤ k + 1 → ∀ n root fields, S.typeDef? n = some root → directFields root = some fields →
      Quiet A (checkSelection S H seen vars root fields s) → SelConcl S A H seen vars n s := by
  intro s hsz n root fields hn hf h
  cases s with
  | field al name namePos args dirs sel =>
    rw [checkSelection_field] at h
    cases hfd : fields.find? (·.name == name) with
    | none =>
      simp only [hfd] at h
      have := hA _ (by decide : ErrKind.FieldNotFound ≠ ErrKind.UnknownVariable)
      rw [quiet_single, this] at h; cases h
    | some fd =>
      simp only [hfd] at h
      rw [quiet_append, quiet_append] at h
      obtain ⟨⟨hd, ha⟩, h3⟩ := h
      cases hft : S.typeDef? fd.ty.unwrapped with
      | none =>
        simp only [hft] at h3
        have := hA _ (by decide : ErrKind.TypeSystemError ≠ ErrKind.UnknownVariable)
        rw [quiet_single, this] at h3; cases h3
      | some ft =>
        simp only [hft] at h3
        have hspec : fieldDef? S n name = some fd := by rw [fieldDef?_eq_find hS hn hf, hfd]
        cases sel with
        | none =>
          simp only at h3
          cases hdf : directFields ft with
          | some x =>
            simp only [hdf, Option.isSome_some, if_true] at h3
            have := hA _ (by decide : ErrKind.MustSpecifySelectionSet ≠ ErrKind.UnknownVariable)
            rw [quiet_single, this] at h3; cases h3
          | none =>
            refine ⟨⟨root, fields, hn, hf, fd, hfd, hd, ha, ft, hft, by simp [hdf]⟩, ?_⟩
            intro ps hps; simp [ctxsOfSel, allSels] at hps
        | some ss =>
          simp only at h3
          have hss : Selection.sizeList ss ≤ k := by simp [Selection.size] at hsz; omega
          cases hdf : directFields ft with
          | none =>
            simp only [hdf] at h3
            have := hA _ (by decide : ErrKind.SelectionOnInvalidType ≠ ErrKind.UnknownVariable)
            rw [quiet_single, this] at h3; cases h3
          | some ffields =>
            simp only [hdf] at h3
            obtain ⟨c1, c2⟩ := IH ss hss _ _ _ hft hdf h3
            refine ⟨⟨root, fields, hn, hf, fd, hfd, hd, ha, ft, hft, by simp [hdf]⟩, ?_⟩
            intro ps hps
            simp only [ctxsOfSel, Option.bind_some, hspec, Option.map_some, allSels_cons, List.mem_append,
              List.mem_map] at hps
            rcases hps with ⟨x, hx, rfl⟩ | hps
            · exact c1 x hx
            · exact c2 ps hps
  | spread name namePos dirs pos =>
    simp only [checkSelection] at h
    rw [quiet_append] at h
    exact ⟨⟨root, fields, hn, hf, h.1, h.2⟩, by intro ps hps; simp [ctxsOfSel, allSels] at hps⟩
  | inline cond dirs ss pos =>
    simp only [checkSelection] at h
    rw [quiet_append] at h
    obtain ⟨hd, h2⟩ := h
    have hss : Selection.sizeList ss ≤ k := by simp [Selection.size] at hsz; omega
    cases cond with
    | none =>
      simp only at h2
      obtain ⟨c1, c2⟩ := IH ss hss _ _ _ hn hf h2
      refine ⟨⟨root, fields, hn, hf, hd, trivial⟩, ?_⟩
      intro ps hps
      simp only [ctxsOfSel, allSels_cons, List.mem_append, List.mem_map] at hps
      rcases hps with ⟨x, hx, rfl⟩ | hps
      · exact c1 x hx
      · exact c2 ps hps
    | some cc =>
      obtain ⟨c, cp⟩ := cc
      simp only at h2
      cases hct : S.typeDef? c with
      | none =>
        simp only [hct] at h2
        have := hA _ (by decide : ErrKind.UnknownType ≠ ErrKind.UnknownVariable)
        rw [quiet_single, this] at h2; cases h2
      | some ct =>
        simp only [hct, spreadApplicability_go hf, if_true] at h2
        rw [quiet_append] at h2
        obtain ⟨hap, h3⟩ := h2
        cases hdf : directFields ct with
        | none =>
          simp only [hdf] at h3
          have := hA _ (by decide : ErrKind.SelectionOnInvalidType ≠ ErrKind.UnknownVariable)
          rw [quiet_single, this] at h3; cases h3
        | some cfields =>
          simp only [hdf] at h3
          obtain ⟨c1, c2⟩ := IH ss hss _ _ _ hct hdf h3
          refine ⟨⟨root, fields, hn, hf, hd, ct, hct, hap, by simp [hdf]⟩, ?_⟩
          intro ps hps
          simp only [ctxsOfSel, allSels_cons, List.mem_append, List.mem_map] at hps
          rcases hps with ⟨x, hx, rfl⟩ | hps
          · exact c1 x hx
          · exact c2 ps hps

/-- the walk lemma, by induction on the size of the selection set -/
theorem walk_sels_sized : ∀ (k : Nat) (ss : List Selection), Selection.sizeList ss ≤ k →
    ∀ n root fields, S.typeDef? n = some root → directFields root = some fields →
      Quiet A (checkSelections S H seen vars root fields ss) → SelsConcl S A H seen vars n ss := by
  intro k
  induction k with
  | zero =>
    intro ss hsz n root fields _ _ _
    cases ss with
    | nil => exact ⟨(by intro s hs; cases hs), (by intro ps hps; simp [ctxsOfSels, allSels] at hps)⟩
    | cons s ss => have := Selection.one_le_size s; simp [Selection.sizeList] at hsz; omega
  | succ k ih =>
    intro ss
    induction ss with
    | nil => intro _ n root fields _ _ _; exact ⟨(by intro s hs; cases hs), (by intro ps hps; simp [ctxsOfSels, allSels] at hps)⟩
    | cons s ss ihs =>
      intro hsz n root fields hn hf h
      simp only [checkSelections] at h
      rw [quiet_append] at h
      obtain ⟨h1, h2⟩ := h
      have hs1 := Selection.one_le_size s
      simp only [Selection.sizeList] at hsz
      obtain ⟨a1, a2⟩ := walk_sel_step hA hS k ih s (by omega) n root fields hn hf h1
      obtain ⟨b1, b2⟩ := ihs (by omega) n root fields hn hf h2
      refine ⟨?_, ?_⟩
      · intro x hx
        rcases List.mem_cons.mp hx with rfl | hx
        · exact a1
        · exact b1 x hx
      · intro ps hps
        rw [ctxsOfSels, allSels_append] at hps
        rcases List.mem_append.mp hps with hps | hps
        · exact a2 ps hps
        · exact b2 ps hps

/-- **Walk lemma.** If the walk of the selection set `ss` with the type `n` in scope reports only allowed kinds,
    every selection of `ss` and of every selection set nested in `ss` was visited with its correct type in scope
    and passed its local checks. -/
theorem walk_selectionSet {n : Name} {root : TypeDef} {ss : List Selection} {anchor : Pos}
    (hn : S.typeDef? n = some root)
    (h : Quiet A (checkSelectionSet S H seen vars root ss anchor)) :
    ∀ ps ∈ allSels (ctxsOfRoot S n ss), LocalFact S A H seen vars ps := by
  unfold checkSelectionSet at h
  cases hf : directFields root with
  | none =>
    simp only [hf] at h
    have := hA _ (by decide : ErrKind.SelectionOnInvalidType ≠ ErrKind.UnknownVariable)
    rw [quiet_single, this] at h; cases h
  | some fields =>
    simp only [hf] at h
    obtain ⟨c1, c2⟩ := walk_sels_sized hA hS _ ss (Nat.le_refl _) n root fields hn hf h
    intro ps hps
    simp only [ctxsOfRoot, allSels_cons, List.mem_append, List.mem_map] at hps
    rcases hps with ⟨x, hx, rfl⟩ | hps
    · exact c1 x hx
    · exact c2 ps hps
end

end NitroVerif.CheckOp
