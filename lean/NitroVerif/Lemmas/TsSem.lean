/-
The declarative reading of the TypeScript-subset semantics (`Ts/Sem.lean`): the inductive relation `Mem env v t`
("`v` is a value of the closed type `t`") with one rule per case of the executable `memG`, and the inversion
lemmas the property theorems use. `Mem` has no fuel: recursive aliases are harmless because a derivation is finite.
`memG` (the procedure the O streams evaluate) is the executable companion of this relation.
Part of the trusted reading of TypeScript, like `Ts/Sem.lean` itself.
-/
import NitroVerif.Ts.Sem
namespace NitroVerif.Ts

/-- types this model does not interpret: they admit exactly the atom tagged by their canonical text -/
def Ty.isOpaque (e : Env) : Ty → Bool
  | .prim s =>
    !(s == "string" || s == "number" || s == "boolean" || s == "true" || s == "false" || s == "null"
      || s == "undefined" || s == "void" || s == "unknown" || s == "any" || s == "never")
  | .strLit _ => false
  | .obj _ => false
  | .arr _ => false
  | .roArr _ => false
  | .union _ => false
  | .inter _ => false
  | .other tag path =>
    if tag == "abs" then
      match e.decls.body? path with
      | some ([], _) => false
      | _ => true
    else true
  | .app f as => (e.appHook e.decls f as).isNone
  | _ => true

def J.isStr : J → Bool
  | .str _ => true
  | _ => false
def J.isNum : J → Bool
  | .num => true
  | _ => false
def J.isBool : J → Bool
  | .bool _ => true
  | _ => false
def J.isTrue : J → Bool
  | .bool true => true
  | _ => false
def J.isFalse : J → Bool
  | .bool false => true
  | _ => false

/-- the primitive types the model interprets -/
def primMem (p : String) (v : J) : Bool :=
  if p == "string" then v.isStr
  else if p == "number" then v.isNum
  else if p == "boolean" then v.isBool
  else if p == "true" then v.isTrue
  else if p == "false" then v.isFalse
  else if p == "null" then v.isNull
  else if p == "undefined" then v.isAbsent
  else if p == "void" then v.isAbsent
  else if p == "unknown" then true
  else if p == "any" then true
  else false

/-- `v` is a value of the closed type `t` -/
inductive Mem (e : Env) : J → Ty → Prop where
  | prim (p : String) (v : J) : primMem p v = true → Mem e v (.prim p)
  | strLit (s : String) : Mem e (.str s) (.strLit s)
  /-- exact-key reading: every declared field is (optional and absent) or a member; no undeclared key present -/
  | obj (kvs : List (String × J)) (fs : List Field) :
      (∀ f ∈ fs, ¬ (f.2.2.1 = true ∧ J.get kvs f.1 = .absent) → Mem e (J.get kvs f.1) f.2.2.2) →
      (∀ kv ∈ kvs, kv.2 = .absent ∨ ∃ f ∈ fs, f.1 = kv.1) →
      Mem e (.obj kvs) (.obj fs)
  | arr (xs : List J) (t : Ty) : (∀ x ∈ xs, Mem e x t) → Mem e (.arr xs) (.arr t)
  | roArr (xs : List J) (t : Ty) : (∀ x ∈ xs, Mem e x t) → Mem e (.arr xs) (.roArr t)
  | union (v : J) (ts : List Ty) (t : Ty) : t ∈ ts → Mem e v t → Mem e v (.union ts)
  /-- an intersection that denotes a record: the united record, read exactly -/
  | interObj (v : J) (ts : List Ty) (fs : List Field) (n : Nat) :
      objView e n (.inter ts) = .isObj fs → Mem e v (.obj fs) → Mem e v (.inter ts)
  | interAll (v : J) (ts : List Ty) (n : Nat) :
      objView e n (.inter ts) = .notObj → (∀ t ∈ ts, Mem e v t) → Mem e v (.inter ts)
  | alias (v : J) (path : List String) (body : Ty) :
      e.decls.body? path = some ([], body) → Mem e v body → Mem e v (.other "abs" path)
  | hook (v : J) (f : Ty) (as : List Ty) (t' : Ty) :
      e.appHook e.decls f as = some t' → Mem e v t' → Mem e v (.app f as)
  | opaqueTy (t : Ty) : t.isOpaque e = true → Mem e (.atom t.show) t

variable {e : Env}

theorem mem_prim_iff {v : J} {p : String} (hp : (Ty.prim p).isOpaque e = false) :
    Mem e v (.prim p) ↔ primMem p v = true := by
  constructor
  · intro h
    cases h with
    | prim _ _ h => exact h
    | opaqueTy _ h => rw [hp] at h; cases h
  · intro h; exact .prim p v h

theorem mem_null_iff {v : J} : Mem e v (.prim "null") ↔ v = .null := by
  rw [mem_prim_iff (by simp [Ty.isOpaque])]
  cases v <;> simp [primMem, J.isNull]

theorem mem_undefined_iff {v : J} : Mem e v (.prim "undefined") ↔ v = .absent := by
  rw [mem_prim_iff (by simp [Ty.isOpaque])]
  cases v <;> simp [primMem, J.isAbsent]

theorem mem_never_iff {v : J} : Mem e v (.prim "never") ↔ False := by
  rw [mem_prim_iff (by simp [Ty.isOpaque])]
  simp [primMem]

theorem mem_strLit_iff {v : J} {s : String} : Mem e v (.strLit s) ↔ v = .str s := by
  constructor
  · intro h
    cases h with
    | strLit => rfl
    | opaqueTy _ h => simp [Ty.isOpaque] at h
  · intro h; subst h; exact .strLit s

theorem mem_union_iff {v : J} {ts : List Ty} : Mem e v (.union ts) ↔ ∃ t ∈ ts, Mem e v t := by
  constructor
  · intro h
    cases h with
    | union _ _ t ht hm => exact ⟨t, ht, hm⟩
    | opaqueTy _ h => simp [Ty.isOpaque] at h
  · rintro ⟨t, ht, hm⟩; exact .union v ts t ht hm

theorem mem_arr_iff {v : J} {t : Ty} : Mem e v (.arr t) ↔ ∃ xs, v = .arr xs ∧ ∀ x ∈ xs, Mem e x t := by
  constructor
  · intro h
    cases h with
    | arr xs _ hx => exact ⟨xs, rfl, hx⟩
    | opaqueTy _ h => simp [Ty.isOpaque] at h
  · rintro ⟨xs, rfl, hx⟩; exact .arr xs t hx

theorem mem_roArr_iff {v : J} {t : Ty} : Mem e v (.roArr t) ↔ ∃ xs, v = .arr xs ∧ ∀ x ∈ xs, Mem e x t := by
  constructor
  · intro h
    cases h with
    | roArr xs _ hx => exact ⟨xs, rfl, hx⟩
    | opaqueTy _ h => simp [Ty.isOpaque] at h
  · rintro ⟨xs, rfl, hx⟩; exact .roArr xs t hx

/-- the exact-key reading of a record type, as a proposition -/
def RecordP (mem : J → Ty → Prop) (fs : List Field) (kvs : List (String × J)) : Prop :=
  (∀ f ∈ fs, ¬ (f.2.2.1 = true ∧ J.get kvs f.1 = .absent) → mem (J.get kvs f.1) f.2.2.2) ∧
  (∀ kv ∈ kvs, kv.2 = .absent ∨ ∃ f ∈ fs, f.1 = kv.1)

theorem mem_obj_iff {v : J} {fs : List Field} :
    Mem e v (.obj fs) ↔ ∃ kvs, v = .obj kvs ∧ RecordP (Mem e) fs kvs := by
  constructor
  · intro h
    cases h with
    | obj kvs _ h1 h2 => exact ⟨kvs, rfl, h1, h2⟩
    | opaqueTy _ h => simp [Ty.isOpaque] at h
  · rintro ⟨kvs, rfl, h1, h2⟩; exact .obj kvs fs h1 h2

theorem mem_alias_iff {v : J} {path : List String} {body : Ty} (hb : e.decls.body? path = some ([], body)) :
    Mem e v (.other "abs" path) ↔ Mem e v body := by
  constructor
  · intro h
    cases h with
    | alias _ _ b hb' hm => rw [hb] at hb'; cases hb'; exact hm
    | opaqueTy _ h => simp [Ty.isOpaque, hb] at h
  · intro h; exact .alias v path body hb h

/-- a reference that resolves to no declaration admits exactly its own atom -/
theorem mem_unresolved_ref_iff {v : J} {n : String} : Mem e v (.ref n) ↔ v = .atom n := by
  constructor
  · intro h
    cases h with
    | opaqueTy _ _ => rfl
  · intro h; subst h
    exact Mem.opaqueTy (.ref n) rfl

end NitroVerif.Ts
