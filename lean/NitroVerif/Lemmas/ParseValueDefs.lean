/-
Definitions for `render_parse_value` (Props/C07): the rendering of a `Value` with ARBITRARY trivia between
its tokens, the well-formedness of a value (what the lexical grammar can express), and the expected pair tree.

Trivia: `τ : Nat → List Char` gives, for every offset of the text at which a gap between two tokens begins, the
whitespace written there (any assignment of whitespace to the gaps is of this form, since gaps begin at distinct
offsets); between two list items / object fields an empty gap is replaced by one space (`sepOf`). The canonical
rendering is `τ = fun _ => []`: `[1 2]`, `{a:1 b:2}`.
-/
import NitroVerif.Lemmas.ParseValueAlt
import NitroVerif.Lemmas.ParseComment
import NitroVerif.Gql.Ast
namespace NitroVerif.ValueParse
open NitroVerif.Peg NitroVerif.Gen NitroVerif.Build NitroVerif.TypeParse NitroVerif.StringParse NitroVerif.Gql

abbrev Trivia := Nat → List Char

def sepOf (t : List Char) : List Char := if t = [] then [' '] else t
/-- the gap in front of an item: free after the opening bracket, at least one whitespace character between items -/
def gapOf (first : Bool) (t : List Char) : List Char := if first then t else sepOf t

mutual
/-- the text of `v` written at offset `p` (positions matter only for looking up the trivia) -/
def renderV (τ : Trivia) : Nat → Value → List Char
  | _, .var n _ => '$' :: n.toList
  | _, .int s _ => s.toList
  | _, .float s _ => s.toList
  | _, .str s _ => quoted s.toList
  | _, .bool b _ => if b then kwTrue else kwFalse
  | _, .null _ => kwNull
  | _, .enum n _ => n.toList
  | p, .list vs _ =>
    '[' :: (itemsBody τ (p + 1) true vs ++ (τ (p + 1 + (itemsBody τ (p + 1) true vs).length) ++ [']']))
  | p, .obj fs _ =>
    '{' :: (fieldsBody τ (p + 1) true fs ++ (τ (p + 1 + (fieldsBody τ (p + 1) true fs).length) ++ ['}']))
/-- the items of a list from offset `q` up to the end of the last item (the padding before `]` is not included) -/
def itemsBody (τ : Trivia) : Nat → Bool → List Value → List Char
  | _, _, [] => []
  | q, first, v :: vs =>
    gapOf first (τ q) ++ (renderV τ (q + (gapOf first (τ q)).length) v ++
      itemsBody τ (q + (gapOf first (τ q)).length + (renderV τ (q + (gapOf first (τ q)).length) v).length) false vs)
/-- the fields of an object: `gap name gap ":" gap value` each -/
def fieldsBody (τ : Trivia) : Nat → Bool → List (Name × Pos × Value) → List Char
  | _, _, [] => []
  | q, first, (k, _, v) :: fs =>
    gapOf first (τ q) ++ (k.toList ++ (τ (q + (gapOf first (τ q)).length + k.toList.length) ++ (':' ::
      (τ (q + (gapOf first (τ q)).length + k.toList.length + (τ (q + (gapOf first (τ q)).length + k.toList.length)).length + 1) ++
      (renderV τ (q + (gapOf first (τ q)).length + k.toList.length + (τ (q + (gapOf first (τ q)).length + k.toList.length)).length + 1 +
          (τ (q + (gapOf first (τ q)).length + k.toList.length + (τ (q + (gapOf first (τ q)).length + k.toList.length)).length + 1)).length) v ++
       fieldsBody τ (q + (gapOf first (τ q)).length + k.toList.length + (τ (q + (gapOf first (τ q)).length + k.toList.length)).length + 1 +
          (τ (q + (gapOf first (τ q)).length + k.toList.length + (τ (q + (gapOf first (τ q)).length + k.toList.length)).length + 1)).length +
          (renderV τ (q + (gapOf first (τ q)).length + k.toList.length + (τ (q + (gapOf first (τ q)).length + k.toList.length)).length + 1 +
          (τ (q + (gapOf first (τ q)).length + k.toList.length + (τ (q + (gapOf first (τ q)).length + k.toList.length)).length + 1)).length) v).length)
          false fs)))))
end

mutual
/-- values the lexical grammar can express: valid names, number texts of the lexical grammar, enum values other
    than the three keywords; strings are arbitrary -/
def WFV : Value → Prop
  | .var n _ => validName n.toList
  | .int s _ => IntText s.toList
  | .float s _ => FloatText s.toList
  | .str _ _ => True
  | .bool _ _ => True
  | .null _ => True
  | .enum n _ => validName n.toList ∧ n.toList ≠ kwTrue ∧ n.toList ≠ kwFalse ∧ n.toList ≠ kwNull
  | .list vs _ => WFVs vs
  | .obj fs _ => WFFs fs
def WFVs : List Value → Prop
  | [] => True
  | v :: vs => WFV v ∧ WFVs vs
def WFFs : List (Name × Pos × Value) → Prop
  | [] => True
  | (k, _, v) :: fs => validName k.toList ∧ WFV v ∧ WFFs fs
end

mutual
/-- the child of the `Value` pair of `v` written at offset `p` -/
def innerV (τ : Trivia) : Nat → Value → Pair
  | p, .var n _ => .mk R.Variable p (p + (n.toList.length + 1)) [.mk R.Name (p + 1) (p + 1 + n.toList.length) []]
  | p, .int s _ => .mk R.IntValue p (p + s.toList.length) []
  | p, .float s _ => .mk R.FloatValue p (p + s.toList.length) []
  | p, .str s _ => stringPair s.toList p
  | p, .bool b _ => .mk R.BooleanValue p (p + (if b then kwTrue else kwFalse).length)
      [.mk (if b then R.KEYWORD_true else R.KEYWORD_false) p (p + (if b then kwTrue else kwFalse).length) []]
  | p, .null _ => .mk R.NullValue p (p + 4) [.mk R.KEYWORD_null p (p + 4) []]
  | p, .enum n _ => .mk R.EnumValue p (p + n.toList.length) [.mk R.Name p (p + n.toList.length) []]
  | p, .list vs pos => .mk R.ListValue p (p + (renderV τ p (.list vs pos)).length) (itemPairs τ (p + 1) true vs)
  | p, .obj fs pos => .mk R.ObjectValue p (p + (renderV τ p (.obj fs pos)).length) (fieldPairs τ (p + 1) true fs)
def itemPairs (τ : Trivia) : Nat → Bool → List Value → List Pair
  | _, _, [] => []
  | q, first, v :: vs =>
    .mk R.Value (q + (gapOf first (τ q)).length)
      (q + (gapOf first (τ q)).length + (renderV τ (q + (gapOf first (τ q)).length) v).length)
      [innerV τ (q + (gapOf first (τ q)).length) v] ::
    itemPairs τ (q + (gapOf first (τ q)).length + (renderV τ (q + (gapOf first (τ q)).length) v).length) false vs
def fieldPairs (τ : Trivia) : Nat → Bool → List (Name × Pos × Value) → List Pair
  | _, _, [] => []
  | q, first, (k, _, v) :: fs =>
    .mk R.ObjectField (q + (gapOf first (τ q)).length)
      (q + (gapOf first (τ q)).length + k.toList.length + (τ (q + (gapOf first (τ q)).length + k.toList.length)).length + 1 +
          (τ (q + (gapOf first (τ q)).length + k.toList.length + (τ (q + (gapOf first (τ q)).length + k.toList.length)).length + 1)).length +
          (renderV τ (q + (gapOf first (τ q)).length + k.toList.length + (τ (q + (gapOf first (τ q)).length + k.toList.length)).length + 1 +
          (τ (q + (gapOf first (τ q)).length + k.toList.length + (τ (q + (gapOf first (τ q)).length + k.toList.length)).length + 1)).length) v).length)
      [.mk R.Name (q + (gapOf first (τ q)).length) (q + (gapOf first (τ q)).length + k.toList.length) [],
       .mk R.Value (q + (gapOf first (τ q)).length + k.toList.length + (τ (q + (gapOf first (τ q)).length + k.toList.length)).length + 1 +
          (τ (q + (gapOf first (τ q)).length + k.toList.length + (τ (q + (gapOf first (τ q)).length + k.toList.length)).length + 1)).length)
        (q + (gapOf first (τ q)).length + k.toList.length + (τ (q + (gapOf first (τ q)).length + k.toList.length)).length + 1 +
          (τ (q + (gapOf first (τ q)).length + k.toList.length + (τ (q + (gapOf first (τ q)).length + k.toList.length)).length + 1)).length +
          (renderV τ (q + (gapOf first (τ q)).length + k.toList.length + (τ (q + (gapOf first (τ q)).length + k.toList.length)).length + 1 +
          (τ (q + (gapOf first (τ q)).length + k.toList.length + (τ (q + (gapOf first (τ q)).length + k.toList.length)).length + 1)).length) v).length)
        [innerV τ (q + (gapOf first (τ q)).length + k.toList.length + (τ (q + (gapOf first (τ q)).length + k.toList.length)).length + 1 +
          (τ (q + (gapOf first (τ q)).length + k.toList.length + (τ (q + (gapOf first (τ q)).length + k.toList.length)).length + 1)).length) v]] ::
    fieldPairs τ (q + (gapOf first (τ q)).length + k.toList.length + (τ (q + (gapOf first (τ q)).length + k.toList.length)).length + 1 +
          (τ (q + (gapOf first (τ q)).length + k.toList.length + (τ (q + (gapOf first (τ q)).length + k.toList.length)).length + 1)).length +
          (renderV τ (q + (gapOf first (τ q)).length + k.toList.length + (τ (q + (gapOf first (τ q)).length + k.toList.length)).length + 1 +
          (τ (q + (gapOf first (τ q)).length + k.toList.length + (τ (q + (gapOf first (τ q)).length + k.toList.length)).length + 1)).length) v).length)
        false fs
end

/-- the `Value` pair of `v` written at offset `p` -/
def valuePair (τ : Trivia) (p : Nat) (v : Value) : Pair :=
  .mk R.Value p (p + (renderV τ p v).length) [innerV τ p v]

/-- depth bound of the parser on a value text of length `L` -/
def B (L : Nat) : Nat := 60 * L + 100

/-! ### the first character of a value -/

def ValHead (d : Char) : Prop := d = '$' ∨ (d = '-' ∨ digit d) ∨ d = '"' ∨ nameStart d ∨ d = '[' ∨ d = '{'

theorem renderV_head (τ : Trivia) (p : Nat) (v : Value) (h : WFV v) : ∃ d r, renderV τ p v = d :: r ∧ ValHead d := by
  cases v with
  | var n pos => exact ⟨'$', _, rfl, Or.inl rfl⟩
  | int s pos =>
    obtain ⟨d, r, hd, hh⟩ := intText_head (show IntText s.toList from h)
    exact ⟨d, r, by simp [renderV, hd], Or.inr (Or.inl hh)⟩
  | float s pos =>
    have ht : FloatText s.toList := h
    have : ∃ ip x, IntText ip ∧ s.toList = ip ++ x := by
      generalize s.toList = t at ht
      cases ht with
      | fe ip fd ex hip _ _ => exact ⟨ip, _, hip, rfl⟩
      | f ip fd hip _ => exact ⟨ip, _, hip, rfl⟩
      | e ip ex hip _ => exact ⟨ip, _, hip, rfl⟩
    obtain ⟨ip, x, hip, hs⟩ := this
    obtain ⟨d, r, hd, hh⟩ := intText_head hip
    exact ⟨d, r ++ x, by simp [renderV, hs, hd], Or.inr (Or.inl hh)⟩
  | str s pos => exact ⟨'"', _, rfl, Or.inr (Or.inr (Or.inl rfl))⟩
  | bool b pos => cases b <;> exact ⟨_, _, rfl, Or.inr (Or.inr (Or.inr (Or.inl (by decide))))⟩
  | null pos => exact ⟨_, _, rfl, Or.inr (Or.inr (Or.inr (Or.inl (by decide))))⟩
  | «enum» n pos =>
    have hn : validName n.toList := h.1
    cases hl : n.toList with
    | nil => rw [hl] at hn; exact absurd hn id
    | cons d ds =>
      rw [hl] at hn
      exact ⟨d, ds, by simp [renderV, hl], Or.inr (Or.inr (Or.inr (Or.inl hn.1)))⟩
  | list vs pos => exact ⟨'[', _, rfl, Or.inr (Or.inr (Or.inr (Or.inr (Or.inl rfl))))⟩
  | obj fs pos => exact ⟨'{', _, rfl, Or.inr (Or.inr (Or.inr (Or.inr (Or.inr rfl))))⟩

theorem valHead_not_trivia {d : Char} (h : ValHead d) : ¬ trivia d := by
  rcases h with rfl | (rfl | hd) | rfl | hs | rfl | rfl
  · decide
  · decide
  · intro ht
    rcases ht with rfl | rfl | rfl | rfl | rfl | rfl | rfl <;>
      first | exact absurd hd.1 (by decide) | exact absurd hd.2 (by decide)
  · decide
  · exact nameStart_not_trivia hs
  · decide
  · decide

theorem valHead_not_close {d : Char} (h : ValHead d) : d ≠ ']' ∧ d ≠ '}' ∧ d ≠ ':' := by
  rcases h with rfl | (rfl | hd) | rfl | hs | rfl | rfl
  · decide
  · decide
  · have h9 : d.val ≤ 57 := hd.2
    refine ⟨?_, ?_, ?_⟩ <;> (rintro rfl; exact absurd h9 (by decide))
  · decide
  · refine ⟨?_, ?_, ?_⟩ <;> (rintro rfl; exact absurd hs (by decide))
  · decide
  · decide

/-- whitespace characters and closers may follow a value -/
theorem valEnd_of_head {rest : List Char} (h : ∀ d r, rest = d :: r → wsChar d ∨ d = ']' ∨ d = '}' ∨ d = ')' ∨ d = '#') :
    ValEnd rest := by
  intro d r he hd
  rcases h d r he with hw | rfl | rfl | rfl | rfl
  · rcases hw with rfl | rfl | rfl | rfl | rfl | rfl <;>
      (rcases hd with hd | hd | hd <;> first | exact absurd hd (by decide) | (revert hd; decide))
  all_goals (rcases hd with hd | hd | hd <;> first | exact absurd hd (by decide) | (revert hd; decide))

theorem sepOf_ne_nil (t : List Char) : sepOf t ≠ [] := by
  unfold sepOf; split <;> simp_all

theorem ws_sepOf {t : List Char} (h : Ws t) : Ws (sepOf t) := by
  unfold sepOf; split
  · exact ws_of_run fun x hx => by
      simp only [List.mem_singleton] at hx; subst hx; exact Or.inr (Or.inr (Or.inl rfl))
  · exact h

theorem ws_gapOf {first : Bool} {t : List Char} (h : Ws t) : Ws (gapOf first t) := by
  unfold gapOf; split
  · exact h
  · exact ws_sepOf h

end NitroVerif.ValueParse
