import NitroVerif.Lemmas.GqlPrintParse
/-!
C16, token level: parse-back of variable definitions, operations, fragments and executable documents; the generic
bracketed-list lemma (`optBracketed`) used for `VariableDefinitions`, `ArgumentsDefinition`, `FieldsDefinition` ….
-/
namespace NitroVerif.C16
open NitroVerif.Gql NitroVerif.GqlTokens

/-! ### lengths of concatenated streams -/

theorem listToks_length_mem {α : Type} (t : α → List LTok) (xs : List α) (y : α) (h : y ∈ xs) :
    (t y).length ≤ (listToks t xs).length := by
  induction xs with
  | nil => simp at h
  | cons x xs ih =>
    simp only [listToks, List.length_append]
    rcases List.mem_cons.mp h with rfl | h
    · omega
    · have := ih h; omega

theorem listToks_length_count {α : Type} (t : α → List LTok) (xs : List α) (h : ∀ x ∈ xs, 1 ≤ (t x).length) :
    xs.length ≤ (listToks t xs).length := by
  induction xs with
  | nil => simp
  | cons x xs ih =>
    simp only [listToks, List.length_append, List.length_cons]
    have := h x (by simp)
    have := ih (fun y hy => h y (by simp [hy]))
    omega

/-! ### `( open X+ close )?` -/

/-- the stream of an optional bracketed list: absent iff the list is empty -/
def bracketToks {α : Type} (open_ close : String) (t : α → List LTok) : List α → List LTok
  | [] => []
  | x :: xs => .p open_ :: (listToks t (x :: xs) ++ [.p close])

theorem bracedToks_eq {α : Type} (t : α → List LTok) (xs : List α) : bracedToks t xs = bracketToks "{" "}" t xs := by
  cases xs <;> rfl

theorem argDefsToks_eq (xs : List InputValueDef) : argDefsToks xs = bracketToks "(" ")" inputValueDefToks xs := by
  cases xs <;> rfl

theorem varDefListToks_eq (vs : List VarDef) : varDefListToks vs = listToks varDefToks vs := by
  induction vs with
  | nil => rfl
  | cons v vs ih => simp [varDefListToks, listToks, ih]

theorem varDefsToks_eq (vs : List VarDef) : varDefsToks vs = bracketToks "(" ")" varDefToks vs := by
  cases vs with
  | nil => rfl
  | cons v vs => simp [varDefsToks, bracketToks, varDefListToks_eq]

theorem startsP_bracket {α : Type} (s open_ close : String) (hs : s ≠ open_) (t : α → List LTok) (xs : List α)
    (rest : List LTok) (h : startsP s rest = false) : startsP s (bracketToks open_ close t xs ++ rest) = false := by
  cases xs with
  | nil => simpa [bracketToks] using h
  | cons x xs => simp [bracketToks, startsP]; exact fun e => hs e.symm

theorem optBracketed_bracket {α : Type} (open_ close : String) (p : List LTok → Option (α × List LTok))
    (t : α → List LTok) (er : α → α) (xs : List α) (rest : List LTok) (f : Nat)
    (hrest : startsP open_ rest = false) (hclose : Stops (.p close :: rest)) (hf : xs.length + 2 ≤ f)
    (hp : ∀ y ∈ xs, ∀ r, Stops r → p (t y ++ r) = some (er y, r))
    (hs : ∀ y ∈ xs, ∀ r, Stops (t y ++ r) ∧ ∃ tok r', t y ++ r = tok :: r' ∧ tok ≠ .p close) :
    optBracketed open_ close p f (bracketToks open_ close t xs ++ rest) = some (xs.map er, rest) := by
  cases xs with
  | nil =>
    cases rest with
    | nil => simp [bracketToks, optBracketed]
    | cons tok r => simp [bracketToks, optBracketed, startsP_cons_false _ _ _ hrest]
  | cons x xs =>
    have := many1Until_toks close p t er rest hclose x xs f (by simp at hf; omega) hp hs
    simp only [bracketToks, List.cons_append, List.append_assoc, List.nil_append]
    simp only [optBracketed, if_true, this]

theorem bracketToks_length {α : Type} (open_ close : String) (t : α → List LTok) (xs : List α) :
    (listToks t xs).length ≤ (bracketToks open_ close t xs).length := by
  cases xs with
  | nil => simp [bracketToks, listToks]
  | cons x xs => simp [bracketToks]; omega

/-! ### variable definitions -/

theorem parseDefault_stop (f : Nat) (rest : List LTok) (h : startsP "=" rest = false) :
    parseDefault f rest = some (none, rest) := by
  cases rest with
  | nil => rfl
  | cons tok r => simp [parseDefault, startsP_cons_false _ _ _ h]

/-- `DefaultValue?` as a stream -/
def defaultToks : Option Value → List LTok
  | some d => .p "=" :: valueToks d
  | none => []

theorem parse_default (d : Option Value) (hwf : wfDefault d = true) (rest : List LTok) (f : Nat)
    (hf : 2 * (defaultToks d).length ≤ f) (hr : startsP "=" rest = false) :
    parseDefault f (defaultToks d ++ rest) = some (d.map Value.erasePos, rest) := by
  cases d with
  | none => simpa [defaultToks] using parseDefault_stop f rest hr
  | some v =>
    simp only [defaultToks, List.length_cons] at hf
    have := parse_value' v hwf rest f (by omega)
    simp [defaultToks, parseDefault, this]

theorem startsP_default (s : String) (hs : s ≠ "=") (d : Option Value) (rest : List LTok)
    (h : startsP s rest = false) : startsP s (defaultToks d ++ rest) = false := by
  cases d with
  | none => simpa [defaultToks] using h
  | some v => simp [defaultToks, startsP]; exact fun e => hs e.symm

theorem varDefToks_eq (v : VarDef) :
    varDefToks v = .p "$" :: .name v.name :: .p ":" :: (typeToks v.ty ++ (defaultToks v.default ++ dirsToks v.dirs)) := by
  cases h : v.default <;> simp [varDefToks, defaultToks, h]

theorem parse_varDef (v : VarDef) (hwf : wfVarDef v = true) (rest : List LTok) (f : Nat) (hr : Stops rest)
    (hf : 2 * (varDefToks v).length + 2 ≤ f) : parseVarDef f (varDefToks v ++ rest) = some (eraseVarDef v, rest) := by
  simp only [wfVarDef, Bool.and_eq_true] at hwf
  obtain ⟨⟨hw1, hw2⟩, hw3⟩ := hwf
  rw [varDefToks_eq] at hf ⊢
  simp only [List.length_cons, List.length_append] at hf
  have h1 := parse_type' v.ty hw1 (defaultToks v.default ++ (dirsToks v.dirs ++ rest)) f (by omega)
    (startsP_default "!" (by decide) _ _ (startsP_dirs "!" (by decide) _ _ hr.bang))
  have h2 := parse_default v.default hw2 (dirsToks v.dirs ++ rest) f (by omega)
    (startsP_dirs "=" (by decide) _ _ hr.eq)
  have h3 := parse_dirs v.dirs hw3 rest f (by omega) hr.paren hr.at_
  simp only [List.cons_append, List.append_assoc]
  simp [parseVarDef, h1, h2, h3, eraseVarDef]

theorem varDefToks_head (v : VarDef) (r : List LTok) :
    Stops (varDefToks v ++ r) ∧ ∃ tok r', varDefToks v ++ r = tok :: r' ∧ tok ≠ .p ")" := by
  rw [varDefToks_eq]
  simp only [List.cons_append]
  exact ⟨Stops.dollar _, _, _, rfl, by simp⟩

theorem parse_varDefs (vs : List VarDef) (hwf : vs.all wfVarDef = true) (rest : List LTok) (f : Nat)
    (hr : startsP "(" rest = false) (hf : 2 * (varDefsToks vs).length + 2 ≤ f) :
    optBracketed "(" ")" (parseVarDef f) f (varDefsToks vs ++ rest) = some (vs.map eraseVarDef, rest) := by
  rw [varDefsToks_eq] at hf ⊢
  have hl := bracketToks_length "(" ")" varDefToks vs
  have hc := listToks_length_count varDefToks vs (fun x _ => by rw [varDefToks_eq]; simp)
  refine optBracketed_bracket "(" ")" _ varDefToks eraseVarDef vs rest f hr (Stops.close_paren rest) (by omega) ?_ ?_
  · intro y hy r hsr
    have := listToks_length_mem varDefToks vs y hy
    exact parse_varDef y (List.all_eq_true.mp hwf y hy) r f hsr (by omega)
  · intro y _ r
    exact varDefToks_head y r

/-! ### operations and fragments -/

theorem parseOptName_none (X : List LTok) (h : ∃ s r, X = .p s :: r) : parseOptName X = (none, X) := by
  obtain ⟨s, r, rfl⟩ := h
  rfl

theorem opKindOf_asStr (k : OpKind) : opKindOf k.asStr = some k := by cases k <;> rfl

theorem asStr_ne_fragment (k : OpKind) : k.asStr ≠ "fragment" := by cases k <;> decide

theorem selectionSetToks_startsP (s : String) (hs : s ≠ "{") (ss : List Selection) (rest : List LTok) :
    startsP s (selectionSetToks ss ++ rest) = false := by
  simp [selectionSetToks, startsP]; exact fun e => hs e.symm

theorem parse_operation (o : OperationDef) (hwf : wfOp o = true) (rest : List LTok) (f : Nat)
    (hf : 2 * (operationToks o).length + 2 ≤ f) :
    parseExecDef f (operationToks o ++ rest) = some (.op (eraseOp o), rest) := by
  simp only [wfOp, Bool.and_eq_true, Bool.not_eq_true'] at hwf
  obtain ⟨⟨⟨hw1, hw2⟩, hne⟩, hw3⟩ := hwf
  have hS1 := selectionSetToks_startsP "(" (by decide) o.sel rest
  have hS2 := selectionSetToks_startsP "@" (by decide) o.sel rest
  have hkw : (LTok.name o.kind.asStr = LTok.p "{") = False := by simp
  have hvars : ∀ g, 2 * (varDefsToks o.vars).length + 2 ≤ g →
      optBracketed "(" ")" (parseVarDef g) g (varDefsToks o.vars ++ (dirsToks o.dirs ++ (selectionSetToks o.sel ++ rest))) =
        some (o.vars.map eraseVarDef, dirsToks o.dirs ++ (selectionSetToks o.sel ++ rest)) :=
    fun g hg => parse_varDefs o.vars hw1 _ g (startsP_dirs "(" (by decide) _ _ hS1) hg
  have hdirs : ∀ g, 2 * (dirsToks o.dirs).length + 1 ≤ g →
      parseDirs g (dirsToks o.dirs ++ (selectionSetToks o.sel ++ rest)) = some (eraseDirs o.dirs, selectionSetToks o.sel ++ rest) :=
    fun g hg => parse_dirs o.dirs hw2 _ g hg hS1 hS2
  have hsel : ∀ g, 2 * (selectionSetToks o.sel).length + 2 ≤ g →
      parseSelSet g (selectionSetToks o.sel ++ rest) = some (eraseSels o.sel, rest) :=
    fun g hg => parse_selSet o.sel hne hw3 rest g hg
  unfold operationToks at hf ⊢
  rcases hn : o.name with _ | ⟨n, p⟩
  · simp only [hn, List.nil_append, List.length_cons, List.length_append] at hf
    have hP : ∃ s r, varDefsToks o.vars ++ (dirsToks o.dirs ++ (selectionSetToks o.sel ++ rest)) = LTok.p s :: r := by
      cases o.vars with
      | nil =>
        cases o.dirs with
        | nil => exact ⟨_, _, by simp [varDefsToks, dirsToks, selectionSetToks]; exact ⟨rfl, rfl⟩⟩
        | cons d ds => exact ⟨_, _, by simp [varDefsToks, dirsToks, directiveToks]; exact ⟨rfl, rfl⟩⟩
      | cons v vs => exact ⟨_, _, by simp [varDefsToks]; exact ⟨rfl, rfl⟩⟩
    simp only [List.nil_append, List.cons_append, List.append_assoc]
    simp only [parseExecDef, hkw, if_false, asStr_ne_fragment, opKindOf_asStr, parseOptName_none _ hP,
      hvars f (by omega), hdirs f (by omega), hsel f (by omega)]
    simp [eraseOp, hn, eraseOptName]
  · simp only [hn, List.length_cons, List.length_append, List.length_nil] at hf
    simp only [List.nil_append, List.cons_append, List.append_assoc]
    simp only [parseExecDef, hkw, if_false, asStr_ne_fragment, opKindOf_asStr, parseOptName,
      hvars f (by omega), hdirs f (by omega), hsel f (by omega)]
    simp [eraseOp, hn, eraseOptName]

theorem parse_fragment (fr : FragmentDef) (hwf : wfFrag fr = true) (rest : List LTok) (f : Nat)
    (hf : 2 * (fragmentToks fr).length + 2 ≤ f) :
    parseExecDef f (fragmentToks fr ++ rest) = some (.frag (eraseFrag fr), rest) := by
  simp only [wfFrag, Bool.and_eq_true, Bool.not_eq_true', bne_iff_ne, ne_eq] at hwf
  obtain ⟨⟨⟨hw0, hw2⟩, hne⟩, hw3⟩ := hwf
  have hS1 := selectionSetToks_startsP "(" (by decide) fr.sel rest
  have hS2 := selectionSetToks_startsP "@" (by decide) fr.sel rest
  simp only [fragmentToks, List.length_cons, List.length_append] at hf
  have hdirs := parse_dirs fr.dirs hw2 _ f (by omega) hS1 hS2
  have hsel := parse_selSet fr.sel hne hw3 rest f (by omega)
  simp only [fragmentToks, List.cons_append, List.append_assoc]
  simp [parseExecDef, hw0, hdirs, hsel, eraseFrag]

theorem parse_execDef (d : ExecDef) (hwf : wfExecDef d = true) (rest : List LTok) (f : Nat)
    (hf : 2 * (execDefToks d).length + 2 ≤ f) :
    parseExecDef f (execDefToks d ++ rest) = some (eraseExecDef d, rest) := by
  cases d with
  | op o => exact parse_operation o hwf rest f hf
  | frag fr => exact parse_fragment fr hwf rest f hf
  | imp i => simp [wfExecDef] at hwf

theorem execDefToks_ne_nil (d : ExecDef) (hwf : wfExecDef d = true) : 1 ≤ (execDefToks d).length := by
  cases d with
  | op o => simp [execDefToks, operationToks]
  | frag fr => simp [execDefToks, fragmentToks]
  | imp i => simp [wfExecDef] at hwf

theorem parse_execDoc (d : Doc) (hwf : wfDoc d = true) (f : Nat) (hf : 2 * (docToks d).length + 2 ≤ f) :
    parseExecDoc f (docToks d) = some (eraseDoc d) := by
  unfold parseExecDoc docToks eraseDoc
  unfold docToks at hf
  have hall := List.all_eq_true.mp hwf
  have hc := listToks_length_count execDefToks d (fun x hx => execDefToks_ne_nil x (hall x hx))
  refine manyEnd_toks (parseExecDef f) execDefToks eraseExecDef d f (by omega) ?_ ?_
  · intro x hx r _
    have := listToks_length_mem execDefToks d x hx
    exact parse_execDef x (hall x hx) r f (by omega)
  · intro x hx e
    have := execDefToks_ne_nil x (hall x hx)
    rw [e] at this
    simp at this

theorem parse_execDocument (d : Doc) (hwf : wfDoc d = true) : parseExecDocument (docToks d) = some (eraseDoc d) :=
  parse_execDoc d hwf _ (by omega)

end NitroVerif.C16
