/-
C10 ∘ C11 — helper lemmas: when does the schema declaration printer model succeed (`ScalarTypeNotProvided` is its only
failure), and the first statement of the file it emits (`__nitrogql_schema`).
-/
import NitroVerif.Lemmas.DeclsComposed
namespace NitroVerif.DeclsComposed
open NitroVerif.Gql NitroVerif.Ts NitroVerif.DeclCfg NitroVerif.SchemaDecls NitroVerif.RefTypes
open NitroVerif.ExtMerge NitroVerif.ExtResolve

theorem body_ok_iff (x : Ctx) (td : TypeDef) :
    (∃ b, body x td = .ok b) ↔ (td.kind = .scalar → (x.scalarTypes.find? (·.1 == td.name)).isSome = true) := by
  unfold body
  cases hk : td.kind <;> simp only [reduceCtorEq, false_implies, iff_true, true_implies] <;>
    first
    | exact ⟨_, rfl⟩
    | (cases hq : x.scalarTypes.find? (·.1 == td.name) with
       | none => simp
       | some p => simp)

theorem printType_ok_iff (x : Ctx) (td : TypeDef) : (∃ ss, printType x td = .ok ss) ↔ ∃ b, body x td = .ok b := by
  unfold printType
  cases hb : body x td with
  | error e => simp
  | ok b => cases b <;> simp

theorem namespaceBody_ok_iff (x : Ctx) : ∀ tds : List TypeDef,
    (∃ ss, namespaceBody x tds = .ok ss) ↔ ∀ td ∈ tds, ∃ b, body x td = .ok b := by
  intro tds
  induction tds with
  | nil => simp [namespaceBody]
  | cons td rest ih =>
    rw [namespaceBody]
    cases hp : printType x td with
    | error e =>
      have : ¬ ∃ b, body x td = .ok b := by
        rw [← printType_ok_iff]; rintro ⟨ss, h⟩; rw [hp] at h; cases h
      simp only [List.mem_cons, forall_eq_or_imp]
      constructor
      · rintro ⟨ss, h⟩; cases h
      · intro h; exact absurd h.1 this
    | ok ss =>
      have hb : ∃ b, body x td = .ok b := (printType_ok_iff x td).mp ⟨ss, hp⟩
      simp only [List.mem_cons, forall_eq_or_imp]
      cases hr : namespaceBody x rest with
      | error e =>
        have : ¬ ∀ td ∈ rest, ∃ b, body x td = .ok b := by
          rw [← ih]; rintro ⟨r, h⟩; rw [hr] at h; cases h
        constructor
        · rintro ⟨s, h⟩; cases h
        · intro h; exact absurd h.2 this
      | ok r =>
        have : ∀ td ∈ rest, ∃ b, body x td = .ok b := ih.mp ⟨r, hr⟩
        exact ⟨fun _ => ⟨hb, this⟩, fun _ => ⟨_, rfl⟩⟩

theorem namespaces_ok_iff (c : Cfg) (doc : TsDoc) : ∀ ts : List Target,
    (∃ ns, namespaces c doc ts = .ok ns) ↔
      ∀ t ∈ ts, ∃ ss, namespaceBody (Ctx.new c doc t) (typeDefsOf doc) = .ok ss := by
  intro ts
  induction ts with
  | nil => simp [namespaces]
  | cons t rest ih =>
    rw [namespaces]
    simp only [List.mem_cons, forall_eq_or_imp]
    cases hb : namespaceBody (Ctx.new c doc t) (typeDefsOf doc) with
    | error e =>
      constructor
      · rintro ⟨s, h⟩; cases h
      · rintro ⟨⟨s, h⟩, _⟩; cases h
    | ok body =>
      cases hr : namespaces c doc rest with
      | error e =>
        have : ¬ ∀ t ∈ rest, ∃ ss, namespaceBody (Ctx.new c doc t) (typeDefsOf doc) = .ok ss := by
          rw [← ih]; rintro ⟨r, h⟩; rw [hr] at h; cases h
        constructor
        · rintro ⟨s, h⟩; cases h
        · intro h; exact absurd h.2 this
      | ok r =>
        have := ih.mp ⟨r, hr⟩
        exact ⟨fun _ => ⟨⟨_, rfl⟩, this⟩, fun _ => ⟨_, rfl⟩⟩

/-- the printer model succeeds iff every scalar definition has a TypeScript type (for every target — the lookup does
    not depend on the target) -/
theorem schemaFile_ok_iff (c : Cfg) (doc : TsDoc) :
    (∃ F, schemaFile c doc = .ok F) ↔
      ∀ td ∈ typeDefsOf doc, td.kind = .scalar → (scalarType? c doc td.name).isSome = true := by
  have hsc : ∀ n, (scalarType? c doc n).isSome = ((scalarTypes c doc).find? (·.1 == n)).isSome := by
    intro n; unfold scalarType?; cases (scalarTypes c doc).find? (·.1 == n) <;> rfl
  have key : (∃ ns, namespaces c doc Target.all = .ok ns) ↔
      ∀ td ∈ typeDefsOf doc, td.kind = .scalar → (scalarType? c doc td.name).isSome = true := by
    rw [namespaces_ok_iff]
    simp only [namespaceBody_ok_iff, body_ok_iff, hsc]
    constructor
    · intro h td htd hk; exact h .operationInput (by simp [Target.all]) td htd hk
    · intro h t _ td htd hk; exact h td htd hk
  rw [← key]
  unfold schemaFile
  cases namespaces c doc Target.all with
  | error e => simp
  | ok ns => simp

/-- the first statement of the emitted file is the `__nitrogql_schema` metadata alias -/
theorem schemaFile_head {c : Cfg} {doc : TsDoc} {F : File} (hF : schemaFile c doc = .ok F) :
    F.head? = some (.type true "__nitrogql_schema" [] (schemaMetadata doc)) := by
  unfold schemaFile at hF
  split at hF
  · cases hF
  · cases hF; rfl

/-- the metadata type of the resolved document when the sources have a `schema {…}` definition -/
theorem schemaMetadata_resolved {src R : TsDoc} (hres : resolve src = .ok R) {s : SchemaDef}
    (hs : TsItem.schemaDef s ∈ src) :
    schemaMetadata R = .obj ((s.roots ++ (schemaExts src).flatMap (·.roots)).map
      fun (k, n, _) => (k.asStr, false, false, .ref n)) := by
  have h := findSome?_schema_resolved hres hs
  unfold schemaMetadata
  generalize hg : List.findSome? _ R = r
  have hr : r = some (refSchema src s) := by
    rw [← hg, ← h]; congr 1
  subst hr
  rfl

end NitroVerif.DeclsComposed
