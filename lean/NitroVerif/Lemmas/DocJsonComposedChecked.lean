/-
Bridge from the operation checker (C03/C04 model, `Model/CheckOp.lean`) to the two side conditions of the
"runtime documents from files" theorems: a document the checker accepts has pairwise distinct fragment names
(`DuplicateFragmentName`) and every written spread names a defined fragment (`UnknownFragment`, rule 5.5.2.1).
No property statements here.
-/
import NitroVerif.Lemmas.DocJsonComposed
import NitroVerif.Lemmas.StagesJs
namespace NitroVerif.Composed
open NitroVerif NitroVerif.Gql NitroVerif.CheckOp NitroVerif.Valid NitroVerif.FragClosure NitroVerif.C12

theorem fragNamesOf_bridge (l : List ExecDef) : CheckOp.fragNamesOf l = C12.fragNamesOf l := by
  induction l with
  | nil => rfl
  | cons d r ih =>
    rw [CheckOp.fragNamesOf_cons, ih]
    cases d <;> simp [C12.fragNamesOf]

theorem nodup_of_nodupB : ∀ (l : List Name), nodupB l = true → l.Nodup
  | [], _ => List.nodup_nil
  | x :: xs, h => by
    obtain ⟨h1, h2⟩ := (nodupB_cons_iff x xs).mp h
    exact List.nodup_cons.mpr ⟨h1, nodup_of_nodupB xs h2⟩

theorem selOf_eq (d : ExecDef) : selOf d = Stages.selOfDef d := by cases d <;> rfl

/-- accepted by the checker ⇒ fragment names pairwise distinct (no `DuplicateFragmentName`) -/
theorem nodup_of_checked {S : Schema} {R : Doc} (h : checkOp S R = []) : (C12.fragNamesOf R).Nodup := by
  rw [← fragNamesOf_bridge]
  exact nodup_of_nodupB _ (accepted_nodup h)

/-- accepted by the checker ⇒ every written spread names a defined fragment (no `UnknownFragment`, rule 5.5.2.1) -/
theorem spreadsDefined_of_checked {S : Schema} {R : Doc} (hS : NoReservedFields S) (h : checkOp S R = []) :
    SpreadsDefined R := by
  intro d hd n hn
  rw [selOf_eq, Stages.spreads_eq'] at hn
  obtain ⟨f, hf⟩ := Stages.spreads_defined h hS hd hn
  rw [Stages.getFrag_eq_fragMap, hf]; rfl

end NitroVerif.Composed
