import NitroVerif.Model.Cli
/-!
Helper lemmas for C18 (`Props/C18.lean`): invariants of the command loop of the CLI model, the file store's
index arithmetic, and the character/byte arithmetic of `message_for_line`.
-/
namespace NitroVerif.Cli

/-! ### file store -/

theorem addFiles_schema (n s : Nat) : addFiles .schema n ⟨s, 0⟩ = some ⟨s + n, 0⟩ := by
  induction n generalizing s with
  | zero => simp [addFiles]
  | succ n ih => simp [addFiles, FileStore.addFile, ih]; omega

theorem addFiles_operation (n s o : Nat) : addFiles .operation n ⟨s, o⟩ = some ⟨s, o + n⟩ := by
  induction n generalizing o with
  | zero => simp [addFiles]
  | succ n ih => simp [addFiles, FileStore.addFile, ih]; omega

theorem getFile_schema (s o i : Nat) (h : i < s) : FileStore.getFile ⟨s, o⟩ i = some (.schema, i) := by
  simp [FileStore.getFile, h]

theorem getFile_operation (s o j : Nat) (h : j < o) : FileStore.getFile ⟨s, o⟩ (s + j) = some (.operation, j) := by
  simp [FileStore.getFile, h]

/-! ### invariants of `runSteps` -/

/-- every listed source map has its file listed (the map lies next to it: same directory, `<name>.map`) -/
def MapsHaveFiles (l : List OutFile) : Prop := ∀ t, (⟨t, true⟩ : OutFile) ∈ l → (⟨t, false⟩ : OutFile) ∈ l

theorem runSteps_inv (steps : List Step) (st : St)
    (h : st.written = st.listed ∧ MapsHaveFiles st.listed) :
    (runSteps steps st).1.written = (runSteps steps st).1.listed ∧ MapsHaveFiles (runSteps steps st).1.listed := by
  induction steps generalizing st with
  | nil => simpa [runSteps] using h
  | cons s rest ih =>
    have hm1 : MapsHaveFiles (st.listed ++ [⟨s.target, false⟩]) := by
      intro t ht
      simp only [List.mem_append, List.mem_singleton] at ht ⊢
      rcases ht with ht | ht
      · exact Or.inl (h.2 t ht)
      · cases ht
    have hm2 : MapsHaveFiles (st.listed ++ [⟨s.target, false⟩] ++ [⟨s.target, true⟩]) := by
      intro t ht
      simp only [List.mem_append, List.mem_singleton] at ht ⊢
      rcases ht with (ht | ht) | ht
      · exact Or.inl (Or.inl (h.2 t ht))
      · cases ht
      · cases ht; exact Or.inl (Or.inr rfl)
    unfold runSteps
    split
    · exact h
    · split
      · exact h
      · split
        · split
          · exact ⟨by simp [h.1], hm1⟩
          · apply ih; exact ⟨by simp [h.1], hm2⟩
        · apply ih; exact ⟨by simp [h.1], hm1⟩

theorem runSteps_resolved (steps : List Step) (st : St) :
    (runSteps steps st).1.resolved = st.resolved ∧ (runSteps steps st).1.diags = st.diags ∧
    (runSteps steps st).1.commandsRun = st.commandsRun := by
  induction steps generalizing st with
  | nil => simp [runSteps]
  | cons s rest ih =>
    unfold runSteps
    split
    · simp
    · split
      · simp
      · split
        · split
          · simp
          · simpa using ih _
        · simpa using ih _

/-! ### the command loop -/

/-- loop invariant of the command loop (states from which the loop continues) -/
structure Good (r : Run) (st : St) : Prop where
  wl : st.written = st.listed
  maps : MapsHaveFiles st.listed
  unres : st.resolved = false → st.commandsRun = [] ∧ st.diags = [] ∧ st.written = []
  res : st.resolved = true → st.diags = [] ∧ checkImpl r = [] ∧ Cmd.check ∈ st.commandsRun

/-- what holds of every state the loop can end in -/
structure Final (r : Run) (st : St) : Prop where
  wl : st.written = st.listed
  maps : MapsHaveFiles st.listed
  ran : Cmd.check ∈ st.commandsRun → st.diags = checkImpl r
  notRan : Cmd.check ∉ st.commandsRun → st.diags = []
  gated : checkImpl r ≠ [] → st.written = []

theorem Good.final {r : Run} {st : St} (g : Good r st) : Final r st := by
  refine ⟨g.wl, g.maps, ?_, ?_, ?_⟩
  · intro h
    cases hr : st.resolved
    · have := (g.unres hr).1; rw [this] at h; cases h
    · have := g.res hr; rw [this.1, this.2.1]
  · intro _
    cases hr : st.resolved
    · exact (g.unres hr).2.1
    · exact (g.res hr).1
  · intro h
    cases hr : st.resolved
    · exact (g.unres hr).2.2
    · exact absurd (g.res hr).2.1 h

theorem Good.init (r : Run) : Good r St.init := by
  refine ⟨rfl, ?_, ?_, ?_⟩
  · intro t h; cases h
  · intro _; exact ⟨rfl, rfl, rfl⟩
  · intro h; cases h

/-- specification of one command: where the loop may end (`Final`), that it continues only from `Good` resolved
    states, and that diagnostics imply an error -/
def StepSpec (r : Run) (p : St × Option Fail) : Prop :=
  Final r p.1 ∧ (p.2 = none → Good r p.1 ∧ p.1.resolved = true) ∧ (p.1.diags ≠ [] → p.2 ≠ none)

theorem runCheck_spec (r : Run) (st : St) (g : Good r st) :
    StepSpec r (runCheck r st) ∧ (runCheck r st).1.written = st.written ∧ (runCheck r st).1.listed = st.listed := by
  unfold StepSpec runCheck
  cases hr : st.resolved
  · obtain ⟨h1, h2, h3⟩ := g.unres hr
    have h4 : st.listed = [] := by rw [← g.wl]; exact h3
    by_cases hc : (checkImpl r).isEmpty = true
    · have hc' : checkImpl r = [] := by simpa using hc
      simp only [hc, if_true, Bool.false_eq_true, if_false]
      refine ⟨⟨?_, ?_, ?_⟩, by first | rfl | trivial, by first | rfl | trivial⟩
      · refine ⟨g.wl, g.maps, ?_, ?_, ?_⟩ <;> simp [h1, h2, hc', h3]
      · intro _
        refine ⟨⟨g.wl, g.maps, by simp, ?_⟩, by first | rfl | trivial⟩
        intro _; simp [h1, h2, hc']
      · simp [h2]
    · simp only [hc, Bool.false_eq_true, if_false]
      refine ⟨⟨?_, by simp, by simp⟩, by first | rfl | trivial, by first | rfl | trivial⟩
      refine ⟨g.wl, g.maps, ?_, ?_, ?_⟩ <;> simp [h1, h2, h3]
  · simp only [if_true]
    exact ⟨⟨g.final, by simp, by simp⟩, by first | rfl | trivial, by first | rfl | trivial⟩

theorem genTail_spec (r : Run) (st : St) (g : Good r st) (hr : st.resolved = true) :
    StepSpec r (genTail r st) := by
  obtain ⟨h1, h2, h3⟩ := g.res hr
  have g2 : Good r { st with commandsRun := st.commandsRun ++ [Cmd.generate] } := by
    refine ⟨g.wl, g.maps, ?_, ?_⟩
    · intro h; simp [hr] at h
    · intro _; exact ⟨h1, h2, by simp [h3]⟩
  unfold StepSpec genTail
  simp only []
  split
  · exact ⟨g2.final, by simp, by simp [h1]⟩
  · split
    · exact ⟨g2.final, by simp, by simp [h1]⟩
    · have hi := runSteps_inv (genSteps r) _ ⟨g2.wl, g2.maps⟩
      have hs := runSteps_resolved (genSteps r) { st with commandsRun := st.commandsRun ++ [Cmd.generate] }
      have gg : Good r (runSteps (genSteps r) { st with commandsRun := st.commandsRun ++ [Cmd.generate] }).1 := by
        refine ⟨hi.1, hi.2, ?_, ?_⟩
        · intro h; rw [hs.1] at h; simp [hr] at h
        · intro _; rw [hs.2.1, hs.2.2]; exact ⟨h1, h2, by simp [h3]⟩
      refine ⟨gg.final, ?_, ?_⟩
      · intro _; exact ⟨gg, by rw [hs.1]; exact hr⟩
      · rw [hs.2.1]; simp [h1]

theorem runGenerate_spec (r : Run) (st : St) (g : Good r st) : StepSpec r (runGenerate r st) := by
  unfold runGenerate
  split
  · next hr => exact genTail_spec r st g hr
  · have hc := (runCheck_spec r st g).1
    split
    · next st1 f heq =>
      rw [heq] at hc
      exact ⟨hc.1, by simp, by simp⟩
    · next st1 heq =>
      rw [heq] at hc
      obtain ⟨g1, hr1⟩ := hc.2.1 rfl
      exact genTail_spec r st1 g1 hr1

theorem runCommand_spec (r : Run) (c : Cmd) (st : St) (g : Good r st) : StepSpec r (runCommand r c st) := by
  cases c with
  | check => exact (runCheck_spec r st g).1
  | generate => exact runGenerate_spec r st g
  | other n => exact ⟨g.final, by simp [runCommand], by simp [runCommand]⟩

theorem runCommands_spec (r : Run) (cs : List Cmd) (st : St) (g : Good r st) :
    Final r (runCommands r cs st).1 ∧ ((runCommands r cs st).1.diags ≠ [] → (runCommands r cs st).2 ≠ none) := by
  induction cs generalizing st with
  | nil =>
    refine ⟨g.final, ?_⟩
    have : st.diags = [] := by
      cases hr : st.resolved
      · exact (g.unres hr).2.1
      · exact (g.res hr).1
    simp [runCommands, this]
  | cons c cs ih =>
    have h := runCommand_spec r c st g
    unfold runCommands
    split
    · next st1 f heq => rw [heq] at h; exact ⟨h.1, by simp⟩
    · next st1 heq => rw [heq] at h; exact ih st1 (h.2.1 rfl).1

/-- commands other than `generate` never touch the file system -/
theorem runCommands_no_generate (r : Run) (cs : List Cmd) (st : St) (h : Cmd.generate ∉ cs) :
    (runCommands r cs st).1.written = st.written ∧ (runCommands r cs st).1.listed = st.listed := by
  induction cs generalizing st with
  | nil => simp [runCommands]
  | cons c cs ih =>
    have hc : c ≠ Cmd.generate := by intro e; exact h (by simp [e])
    have hcs : Cmd.generate ∉ cs := by intro e; exact h (by simp [e])
    have h1 : (runCommand r c st).1.written = st.written ∧ (runCommand r c st).1.listed = st.listed := by
      cases c with
      | check =>
        show (runCheck r st).1.written = st.written ∧ (runCheck r st).1.listed = st.listed
        unfold runCheck
        split
        · simp
        · split <;> simp
      | generate => exact absurd rfl hc
      | other n => simp [runCommand]
    unfold runCommands
    split
    · next st1 f heq => rw [heq] at h1; exact h1
    · next st1 heq =>
      rw [heq] at h1
      have := ih st1 hcs
      exact ⟨this.1.trans h1.1, this.2.trans h1.2⟩


/-! ### `message_for_line`: byte offsets and the caret -/


theorem utf8Len_pos (c : Char) : 1 ≤ utf8Len c := by
  unfold utf8Len; split <;> (try split) <;> (try split) <;> omega

theorem splitAtBytes_take (l : List Char) (n : Nat) :
    splitAtBytes l (byteLen (l.take n)) = some (l.drop n) := by
  induction l generalizing n with
  | nil => simp [splitAtBytes, byteLen]
  | cons c cs ih =>
    cases n with
    | zero => simp [splitAtBytes, byteLen]
    | succ n =>
      have hp := utf8Len_pos c
      simp only [List.take_succ_cons, byteLen, List.drop_succ_cons]
      unfold splitAtBytes
      have h1 : ¬ (utf8Len c + byteLen (List.take n cs) = 0) := by omega
      have h2 : utf8Len c ≤ utf8Len c + byteLen (List.take n cs) := by omega
      simp only [h1, if_false, h2, if_true, Nat.add_sub_cancel_left]
      exact ih n

/-- `skip_chars` never panics: the byte offset it computes is a character boundary inside the line -/
theorem skipChars_eq (l : List Char) (n : Nat) : skipChars l n = some (l.drop n) :=
  splitAtBytes_take l n

theorem renderRows_isSome (msg : List Char) (add : Bool) (line m tcol : Nat) (rel : List (Nat × List Char)) :
    (renderRows msg add line m tcol rel).isSome = true := by
  induction rel with
  | nil => simp [renderRows]
  | cons q rest ih =>
    obtain ⟨no, src⟩ := q
    unfold renderRows
    rw [skipChars_eq]
    cases h : renderRows msg add line m tcol rest with
    | none => simp [h] at ih
    | some tail => simp only []; split <;> simp

theorem messageForLine_isSome (path src : List Char) (p : Pos) (msg : List Char) (add : Bool) :
    (messageForLine path src p msg add).isSome = true := by
  unfold messageForLine
  simp only []
  split
  · simp
  · split
    · simp
    · next m _ =>
      have := renderRows_isSome msg add p.line m (p.col - m) (relevantLines (lines src) p.line)
      cases h : renderRows msg add p.line m (p.col - m) (relevantLines (lines src) p.line) with
      | none => simp [h] at this
      | some rows => simp

theorem renderExtras_isSome (files : List (List Char × List Char)) (ex : List (Pos × List Char))
    (h : ∀ q ∈ ex, q.1.builtin = true ∨ q.1.file < files.length) : (renderExtras files ex).isSome = true := by
  induction ex with
  | nil => simp [renderExtras]
  | cons q rest ih =>
    obtain ⟨p, m⟩ := q
    have ih' := ih (fun q hq => h q (by simp [hq]))
    unfold renderExtras
    split
    · exact ih'
    · next hb =>
      have hf : p.file < files.length := by
        rcases h (p, m) (by simp) with h1 | h1
        · have h1' : p.builtin = true := h1
          exact absurd h1' hb
        · exact h1
      have hget : files[p.file]? = some files[p.file] := by simp [hf]
      rw [hget]
      cases hr : renderExtras files rest with
      | none => simp [hr] at ih'
      | some tail =>
        simp only []
        have := messageForLine_isSome files[p.file].1 files[p.file].2 p m true
        cases hm : messageForLine files[p.file].1 files[p.file].2 p m true with
        | none => simp [hm] at this
        | some t => simp



theorem enumFrom_getElem? {α} (i k : Nat) (xs : List α) :
    (enumFrom i xs)[k]? = xs[k]?.map fun x => (i + k, x) := by
  induction xs generalizing i k with
  | nil => simp [enumFrom]
  | cons x xs ih =>
    cases k with
    | zero => simp [enumFrom]
    | succ k =>
      simp only [enumFrom, List.getElem?_cons_succ, ih]
      have : i + 1 + k = i + (k + 1) := by omega
      rw [this]

/-- the line a position points at is among the lines `message_for_line` shows -/
theorem mem_relevantLines (ls : List (List Char)) (line : Nat) (l : List Char) (h : ls[line]? = some l) :
    (line, l) ∈ relevantLines ls line := by
  unfold relevantLines
  rw [List.mem_iff_getElem?]
  refine ⟨line - (line - 2), ?_⟩
  rw [List.getElem?_take]
  have h1 : line - (line - 2) < 5 := by omega
  simp only [h1, if_true, List.getElem?_drop]
  have h2 : line - 2 + (line - (line - 2)) = line := by omega
  rw [h2, enumFrom_getElem?, h]
  simp

theorem firstNonSpace_le (l : List Char) (col : Nat) (c : Char) (h : l[col]? = some c) (hc : isWs c = false) :
    ∃ k, firstNonSpace l = some k ∧ k ≤ col := by
  induction l generalizing col with
  | nil => simp at h
  | cons x xs ih =>
    unfold firstNonSpace
    cases col with
    | zero =>
      simp at h; subst h; simp [hc]
    | succ col =>
      simp at h
      by_cases hx : isWs x = true
      · obtain ⟨k, hk, hle⟩ := ih col h
        simp [hx, hk]; omega
      · simp [hx]

theorem minList_le (xs : List Nat) (x : Nat) (h : x ∈ xs) : ∃ m, minList xs = some m ∧ m ≤ x := by
  induction xs with
  | nil => cases h
  | cons y ys ih =>
    unfold minList
    cases hm : minList ys with
    | none =>
      cases ys with
      | nil => simp at h; subst h; exact ⟨x, rfl, Nat.le_refl _⟩
      | cons z zs =>
        exfalso
        unfold minList at hm
        split at hm <;> cases hm
    | some m =>
      simp only []
      rcases List.mem_cons.mp h with rfl | h'
      · refine ⟨_, rfl, ?_⟩; split <;> omega
      · obtain ⟨m', hm', hle⟩ := ih h'
        rw [hm] at hm'; cases hm'
        refine ⟨_, rfl, ?_⟩; split <;> omega

/-- the minimum indent is at most the column of any non-space character of the targeted line -/
theorem minIndent_le (ls : List (List Char)) (line col : Nat) (l : List Char) (c : Char)
    (hl : ls[line]? = some l) (hc : l[col]? = some c) (hw : isWs c = false) :
    ∃ m, minIndent (relevantLines ls line) = some m ∧ m ≤ col := by
  obtain ⟨k, hk, hle⟩ := firstNonSpace_le l col c hc hw
  have hmem : k ∈ (relevantLines ls line).filterMap fun p => firstNonSpace p.2 := by
    rw [List.mem_filterMap]
    exact ⟨(line, l), mem_relevantLines ls line l hl, hk⟩
  obtain ⟨m, hm, hmk⟩ := minList_le _ k hmem
  exact ⟨m, hm, Nat.le_trans hmk hle⟩


/-! ### parse errors, `check_impl` membership, the shape of `runCli` -/

theorem parseErrs_mem (k : FileKind) (c : Cls) (base : Nat) (fs : List ParseRes) (e : CheckErr)
    (h : e ∈ parseErrs k c base fs) :
    e.kind = k ∧ e.cls = c ∧ e.diag.pos.builtin = false ∧ base ≤ e.diag.pos.file ∧ e.diag.pos.file < base + fs.length := by
  induction fs generalizing base with
  | nil => simp [parseErrs] at h
  | cons f rest ih =>
    cases f with
    | ok =>
      simp only [parseErrs] at h
      obtain ⟨h1, h2, h3, h4, h5⟩ := ih (base + 1) h
      exact ⟨h1, h2, h3, by omega, by simp only [List.length_cons]; omega⟩
    | err l col t =>
      simp only [parseErrs, List.mem_cons] at h
      rcases h with rfl | h
      · simp
      · obtain ⟨h1, h2, h3, h4, h5⟩ := ih (base + 1) h
        exact ⟨h1, h2, h3, by omega, by simp only [List.length_cons]; omega⟩

/-- every file with a parse error contributes a diagnostic that names it -/
theorem parseErrs_complete (k : FileKind) (c : Cls) (base : Nat) (fs : List ParseRes) (i l col t : Nat)
    (h : fs[i]? = some (.err l col t)) :
    (⟨k, c, ⟨⟨l, col, base + i, false⟩, [], t⟩⟩ : CheckErr) ∈ parseErrs k c base fs := by
  induction fs generalizing base i with
  | nil => simp at h
  | cons f rest ih =>
    cases i with
    | zero =>
      simp at h; subst h; simp [parseErrs]
    | succ i =>
      simp at h
      have := ih (base + 1) i h
      have e : base + 1 + i = base + (i + 1) := by omega
      rw [e] at this
      cases f <;> simp [parseErrs, this]

theorem parseErrs_nil_iff (k : FileKind) (c : Cls) (base : Nat) (fs : List ParseRes) :
    parseErrs k c base fs = [] ↔ ∀ f ∈ fs, f = .ok := by
  induction fs generalizing base with
  | nil => simp [parseErrs]
  | cons f rest ih =>
    cases f with
    | ok => simp [parseErrs, ih]
    | err l col t => simp [parseErrs]

theorem mem_tagged {k : FileKind} {c : Cls} {ds : List Diag} {e : CheckErr} :
    e ∈ tagged k c ds ↔ e.kind = k ∧ e.cls = c ∧ e.diag ∈ ds := by
  unfold tagged
  constructor
  · intro h
    obtain ⟨d, hd, rfl⟩ := List.mem_map.mp h
    exact ⟨rfl, rfl, hd⟩
  · rintro ⟨rfl, rfl, hd⟩
    exact List.mem_map.mpr ⟨e.diag, hd, rfl⟩

/-- where an entry of `check_impl`'s result comes from -/
theorem checkImpl_mem (r : Run) (e : CheckErr) (h : e ∈ checkImpl r) :
    (e.kind = .schema ∧ (r.schemaExt = some e.diag ∨ e.diag ∈ r.schemaCheck)) ∨
    (e.kind = .operation ∧ ∃ f ∈ r.opFiles, f.ext = some e.diag ∨ f.imp = some e.diag ∨ e.diag ∈ f.check) := by
  unfold checkImpl at h
  split at h
  · next d hd => simp at h; subst h; exact Or.inl ⟨rfl, Or.inl hd⟩
  · split at h
    · exact Or.inl ⟨(mem_tagged.mp h).1, Or.inr (mem_tagged.mp h).2.2⟩
    · split at h
      · obtain ⟨hk, _, hd⟩ := mem_tagged.mp h
        obtain ⟨f, hf, hfe⟩ := List.mem_filterMap.mp hd
        exact Or.inr ⟨hk, f, hf, Or.inl hfe⟩
      · split at h
        · obtain ⟨hk, _, hd⟩ := mem_tagged.mp h
          obtain ⟨f, hf, hfe⟩ := List.mem_filterMap.mp hd
          exact Or.inr ⟨hk, f, hf, Or.inr (Or.inl hfe)⟩
        · obtain ⟨hk, _, hd⟩ := mem_tagged.mp h
          obtain ⟨f, hf, hfe⟩ := List.mem_flatMap.mp hd
          exact Or.inr ⟨hk, f, hf, Or.inr (Or.inr hfe)⟩

/-- the four ways a run can go -/
inductive Shape (r : Run) (o : Outcome) : Prop where
  | noCommand (h : r.cmds = [])
      (ho : o = outcomeOf St.init (some ⟨none, .noCommand⟩) FileStore.empty)
  | schemaParse (hc : r.cmds ≠ []) (he : parseErrs .schema .parseSchema 0 r.schemaFiles ≠ [])
      (ho : o = outcomeOf { St.init with diags := parseErrs .schema .parseSchema 0 r.schemaFiles }
        (some ⟨none, .parseFailed⟩) ⟨r.schemaFiles.length, 0⟩)
  | opParse (hc : r.cmds ≠ []) (hs : parseErrs .schema .parseSchema 0 r.schemaFiles = [])
      (he : parseErrs .operation .parseOperation r.schemaFiles.length (r.opFiles.map (·.parse)) ≠ [])
      (ho : o = outcomeOf { St.init with diags := parseErrs .operation .parseOperation r.schemaFiles.length (r.opFiles.map (·.parse)) }
        (some ⟨none, .parseFailed⟩) ⟨r.schemaFiles.length, r.opFiles.length⟩)
  | commands (hc : r.cmds ≠ []) (hs : parseErrs .schema .parseSchema 0 r.schemaFiles = [])
      (hp : parseErrs .operation .parseOperation r.schemaFiles.length (r.opFiles.map (·.parse)) = [])
      (ho : o = outcomeOf (runCommands r r.cmds St.init).1 (runCommands r r.cmds St.init).2
        ⟨r.schemaFiles.length, r.opFiles.length⟩)

theorem runCli_shape (r : Run) : ∃ o, runCli r = some o ∧ Shape r o := by
  unfold runCli
  by_cases hc : r.cmds = []
  · simp only [hc, List.isEmpty_nil, if_true]
    exact ⟨_, rfl, .noCommand hc rfl⟩
  · have hc' : r.cmds.isEmpty = false := by simpa using hc
    have h1 : addFiles .schema r.schemaFiles.length FileStore.empty = some ⟨r.schemaFiles.length, 0⟩ := by
      have := addFiles_schema r.schemaFiles.length 0
      simpa [FileStore.empty] using this
    simp only [hc', Bool.false_eq_true, if_false, h1]
    by_cases hs : parseErrs .schema .parseSchema 0 r.schemaFiles = []
    · have h2 : addFiles .operation r.opFiles.length ⟨r.schemaFiles.length, 0⟩ = some ⟨r.schemaFiles.length, r.opFiles.length⟩ := by
        have := addFiles_operation r.opFiles.length r.schemaFiles.length 0
        simpa using this
      simp only [hs, List.isEmpty_nil, Bool.not_true, Bool.false_eq_true, if_false, h2]
      by_cases hp : parseErrs .operation .parseOperation r.schemaFiles.length (r.opFiles.map (·.parse)) = []
      · simp only [hp, List.isEmpty_nil, Bool.not_true, Bool.false_eq_true, if_false]
        exact ⟨_, rfl, .commands hc hs hp rfl⟩
      · have hp' : (parseErrs .operation .parseOperation r.schemaFiles.length (r.opFiles.map (·.parse))).isEmpty = false := by
          simpa using hp
        simp only [hp', Bool.not_false, if_true]
        exact ⟨_, rfl, .opParse hc hs hp rfl⟩
    · have hs' : (parseErrs .schema .parseSchema 0 r.schemaFiles).isEmpty = false := by simpa using hs
      simp only [hs', Bool.not_false, if_true]
      exact ⟨_, rfl, .schemaParse hc hs rfl⟩

/-- `commands_run` only grows -/
theorem runSteps_commandsRun (steps : List Step) (st : St) : (runSteps steps st).1.commandsRun = st.commandsRun :=
  (runSteps_resolved steps st).2.2

theorem runCommand_commandsRun_mono (r : Run) (c x : Cmd) (st : St) (h : x ∈ st.commandsRun) :
    x ∈ (runCommand r c st).1.commandsRun := by
  have hcheck : ∀ st : St, x ∈ st.commandsRun → x ∈ (runCheck r st).1.commandsRun := by
    intro st h
    unfold runCheck
    split
    · exact h
    · split <;> simp [h]
  have htail : ∀ st : St, x ∈ st.commandsRun → x ∈ (genTail r st).1.commandsRun := by
    intro st h
    unfold genTail
    simp only []
    split
    · simp [h]
    · split
      · simp [h]
      · rw [runSteps_commandsRun]; simp [h]
  cases c with
  | check => exact hcheck st h
  | other n => exact h
  | generate =>
    show x ∈ (runGenerate r st).1.commandsRun
    unfold runGenerate
    split
    · exact htail st h
    · have := hcheck st h
      split
      · next st1 f heq => rw [heq] at this; exact this
      · next st1 heq => rw [heq] at this; exact htail st1 this

theorem runCommands_commandsRun_mono (r : Run) (cs : List Cmd) (x : Cmd) (st : St) (h : x ∈ st.commandsRun) :
    x ∈ (runCommands r cs st).1.commandsRun := by
  induction cs generalizing st with
  | nil => exact h
  | cons c cs ih =>
    have h1 := runCommand_commandsRun_mono r c x st h
    unfold runCommands
    split
    · next st1 f heq => rw [heq] at h1; exact h1
    · next st1 heq => rw [heq] at h1; exact ih st1 h1

/-- `check` and `generate` as first command both run the check -/
theorem first_command_runs_check (r : Run) (c : Cmd) (cs : List Cmd) (hc : c = .check ∨ c = .generate) :
    Cmd.check ∈ (runCommands r (c :: cs) St.init).1.commandsRun := by
  have h0 : Cmd.check ∈ (runCheck r St.init).1.commandsRun := by
    unfold runCheck
    simp only [St.init, Bool.false_eq_true, if_false]
    split <;> simp
  have h1 : Cmd.check ∈ (runCommand r c St.init).1.commandsRun := by
    rcases hc with rfl | rfl
    · exact h0
    · show Cmd.check ∈ (runGenerate r St.init).1.commandsRun
      unfold runGenerate
      simp only [St.init, Bool.false_eq_true, if_false]
      split
      · next st1 f heq =>
        have : runCheck r St.init = (st1, some f) := heq
        rw [this] at h0; exact h0
      · next st1 heq =>
        have : runCheck r St.init = (st1, none) := heq
        rw [this] at h0
        have hmono : ∀ st : St, Cmd.check ∈ st.commandsRun → Cmd.check ∈ (genTail r st).1.commandsRun := by
          intro st h
          unfold genTail
          simp only []
          split
          · simp [h]
          · split
            · simp [h]
            · rw [runSteps_commandsRun]; simp [h]
        exact hmono st1 h0
  unfold runCommands
  split
  · next st1 f heq => rw [heq] at h1; exact h1
  · next st1 heq => rw [heq] at h1; exact runCommands_commandsRun_mono r cs _ st1 h1


/-! ### exit code 0 in terms of the stage results -/


def stepOk (s : Step) : Bool := !s.printerFails && !(s.io = .mainFails) && !(s.hasMap && s.io = .mapFails)

/-- the generate options are usable and no printer / file-system failure occurs -/
def genOk (r : Run) : Bool :=
  (r.gen.schemaOutput || r.gen.moduleSpecifier) && !r.gen.runtimeToDts && (genSteps r).all stepOk

theorem runSteps_ok (steps : List Step) (st : St) : (runSteps steps st).2 = none ↔ steps.all stepOk = true := by
  induction steps generalizing st with
  | nil => simp [runSteps]
  | cons s rest ih =>
    unfold runSteps
    by_cases h1 : s.printerFails = true
    · simp [h1, stepOk]
    · by_cases h2 : s.io = .mainFails
      · simp [h1, h2, stepOk]
      · by_cases h3 : s.hasMap = true
        · by_cases h4 : s.io = .mapFails
          · simp [h1, h3, h4, stepOk]
          · simp [h1, h2, h3, h4, stepOk, ih]
        · simp [h1, h2, h3, stepOk, ih]

theorem genTail_ok (r : Run) (st : St) : (genTail r st).2 = none ↔ genOk r = true := by
  unfold genTail genOk
  simp only []
  by_cases h1 : (!r.gen.schemaOutput && !r.gen.moduleSpecifier) = true
  · have : (r.gen.schemaOutput || r.gen.moduleSpecifier) = false := by
      cases h : r.gen.schemaOutput <;> cases h' : r.gen.moduleSpecifier <;> simp_all
    simp [h1, this]
  · have : (r.gen.schemaOutput || r.gen.moduleSpecifier) = true := by
      cases h : r.gen.schemaOutput <;> cases h' : r.gen.moduleSpecifier <;> simp_all
    by_cases h2 : r.gen.runtimeToDts = true
    · simp [h1, h2]
    · simp [h1, h2, this, runSteps_ok]

theorem genTail_resolved (r : Run) (st : St) : (genTail r st).1.resolved = st.resolved := by
  unfold genTail
  simp only []
  split
  · rfl
  · split
    · rfl
    · exact (runSteps_resolved _ _).1

/-- from a resolved context only `generate` can follow, and each one must succeed -/
theorem runCommands_resolved_ok (r : Run) (cs : List Cmd) (st : St) (hr : st.resolved = true) :
    (runCommands r cs st).2 = none ↔ (cs.all (· = Cmd.generate) = true ∧ (cs ≠ [] → genOk r = true)) := by
  induction cs generalizing st with
  | nil => simp [runCommands]
  | cons c cs ih =>
    unfold runCommands
    cases c with
    | check => simp [runCommand, runCheck, hr]
    | other n => simp [runCommand]
    | generate =>
      have hg : runCommand r .generate st = genTail r st := by simp [runCommand, runGenerate, hr]
      rw [hg]
      have hres := genTail_resolved r st
      have hok := genTail_ok r st
      rcases hq : genTail r st with ⟨st1, _ | f⟩
      · rw [hq] at hres hok
        simp only []
        rw [ih st1 (by rw [← hr]; exact hres)]
        have : genOk r = true := hok.mp rfl
        simp [this]
      · rw [hq] at hok
        have : ¬ (genOk r = true) := fun h => by have := hok.mpr h; cases this
        simp [this]

/-- a usable command list: `check` or `generate` first, then only `generate` -/
def cmdsOk : List Cmd → Bool
  | [] => false
  | c :: cs => (c = .check || c = .generate) && cs.all (· = Cmd.generate)

/-- no fault anywhere in the stage results that the requested commands look at -/
def Clean (r : Run) : Prop :=
  cmdsOk r.cmds = true ∧ (∀ f ∈ r.schemaFiles, f = .ok) ∧ (∀ f ∈ r.opFiles, f.parse = .ok) ∧
  checkImpl r = [] ∧ (Cmd.generate ∈ r.cmds → genOk r = true)

theorem runCommands_init_ok (r : Run) (cs : List Cmd) :
    (runCommands r cs St.init).2 = none ↔
      (cs = [] ∨ (cmdsOk cs = true ∧ checkImpl r = [] ∧ (Cmd.generate ∈ cs → genOk r = true))) := by
  cases cs with
  | nil => simp [runCommands]
  | cons c cs =>
    have hcheck : checkImpl r = [] → runCheck r St.init = ({ St.init with commandsRun := [.check], resolved := true }, none) := by
      intro h; simp [runCheck, St.init, h]
    have hcheck' : checkImpl r ≠ [] → ∃ st1 f, runCheck r St.init = (st1, some f) := by
      intro h
      have : (checkImpl r).isEmpty = false := by simpa using h
      exact ⟨_, _, by simp only [runCheck, St.init, Bool.false_eq_true, if_false, this]; rfl⟩
    unfold runCommands
    cases c with
    | other n => simp [runCommand, cmdsOk]
    | check =>
      by_cases hc : checkImpl r = []
      · have : runCommand r .check St.init = ({ St.init with commandsRun := [.check], resolved := true }, none) := hcheck hc
        rw [this]
        simp only []
        rw [runCommands_resolved_ok r cs _ rfl]
        simp only [cmdsOk, hc, List.mem_cons]
        constructor
        · rintro ⟨h1, h2⟩
          right
          refine ⟨by simpa using h1, trivial, ?_⟩
          rintro (h | h)
          · cases h
          · exact h2 (by intro e; rw [e] at h; cases h)
        · rintro (h | ⟨h1, _, h3⟩)
          · cases h
          · refine ⟨by simpa using h1, ?_⟩
            intro hne
            cases cs with
            | nil => exact absurd rfl hne
            | cons x xs =>
              have hx : x = Cmd.generate := by simp at h1; exact h1.1
              exact h3 (Or.inr (by simp [hx]))
      · obtain ⟨st1, f, hq⟩ := hcheck' hc
        have : runCommand r .check St.init = (st1, some f) := hq
        rw [this]
        simp [hc]
    | generate =>
      by_cases hc : checkImpl r = []
      · have hg : runCommand r .generate St.init = genTail r { St.init with commandsRun := [.check], resolved := true } := by
          simp only [runCommand, runGenerate, St.init, Bool.false_eq_true, if_false]
          have := hcheck hc
          simp only [St.init] at this
          rw [this]
        rw [hg]
        have hres := genTail_resolved r { St.init with commandsRun := [.check], resolved := true }
        have hok := genTail_ok r { St.init with commandsRun := [.check], resolved := true }
        rcases hq : genTail r { St.init with commandsRun := [.check], resolved := true } with ⟨st1, _ | f⟩
        · rw [hq] at hres hok
          simp only []
          rw [runCommands_resolved_ok r cs st1 hres]
          have hgo : genOk r = true := hok.mp rfl
          simp [cmdsOk, hc, hgo]
        · rw [hq] at hok
          have hgo : ¬ (genOk r = true) := fun h => by have := hok.mpr h; cases this
          simp [hgo]
      · obtain ⟨st1, f, hq⟩ := hcheck' hc
        have : runCommand r .generate St.init = (st1, some f) := by
          simp only [runCommand, runGenerate, St.init, Bool.false_eq_true, if_false]
          simp only [St.init] at hq
          rw [hq]
        rw [this]
        simp [hc]

end NitroVerif.Cli
