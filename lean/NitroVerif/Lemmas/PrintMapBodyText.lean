import NitroVerif.Lemmas.PrintMapBodyTy
import NitroVerif.Ts.Syntax
/-!
# C06 — the text of a printed type

* `rawText ops` — the concatenation of the texts of a call sequence (`write` and `write_for` chunks, in order; `indent` /
  `dedent` contribute nothing: the indentation `SourceWriter` inserts at line starts is white space only).
* `layoutTy` — the text layout of a `Ts.Ty` (the syntax trees of the C01 / C09 / C10 models) as nitrogql's `print_type`
  lays a type out: `{` newline, one property per line, `}`; `(T)[]`; members joined by ` | `; `F<A, B>`; `A.B.C`.
* `erase` — a printer-level `TSTy` as a `Ts.Ty`, structure kept (positions and nothing else are dropped).
* `rawText_printTy` — for a type built from strings (`TSTy.simple`) the text of its call sequence IS the layout of its erasure.
-/
namespace NitroVerif.PrintMap
open NitroVerif.Gql NitroVerif.DeclCfg
open NitroVerif.Ts (Ty Field)

/-- the text a call writes -/
def POp.text : POp → String
  | .write t => t
  | .writeFor t _ _ => t
  | .indent => ""
  | .dedent => ""

/-- the concatenated text of a call sequence -/
def rawText : List POp → String
  | [] => ""
  | op :: r => op.text ++ rawText r

@[simp] theorem rawText_nil : rawText [] = "" := rfl

@[simp] theorem rawText_cons (op : POp) (r : List POp) : rawText (op :: r) = op.text ++ rawText r := rfl

@[simp] theorem rawText_append (a b : List POp) : rawText (a ++ b) = rawText a ++ rawText b := by
  induction a with
  | nil => simp
  | cons op a ih => simp [ih, String.append_assoc]

@[simp] theorem text_write (t : String) : (POp.write t).text = t := rfl
@[simp] theorem text_writeFor (t : String) (p : Pos) (n : Option String) : (POp.writeFor t p n).text = t := rfl
@[simp] theorem text_indent : POp.indent.text = "" := rfl
@[simp] theorem text_dedent : POp.dedent.text = "" := rfl

/-- members joined by a separator -/
def joinSep (sep : String) : List String → String
  | [] => ""
  | [a] => a
  | a :: b :: r => a ++ sep ++ joinSep sep (b :: r)

theorem joinSep_cons_cons (sep a b : String) (r : List String) :
    joinSep sep (a :: b :: r) = a ++ sep ++ joinSep sep (b :: r) := rfl

/-- `A.B.C` -/
def dotted : List String → String := joinSep "."

mutual
/-- the layout of `TSType::print_type`, on syntax trees -/
def layoutTy : Ty → String
  | .prim s => s
  | .ref n => n
  | .qref p => dotted p
  | .app f as => layoutTy f ++ "<" ++ joinSep ", " (layoutList as) ++ ">"
  | .strLit s => "\"" ++ s ++ "\""
  | .numLit s => s
  | .obj fs => if fs.isEmpty then "{}" else "{\n" ++ layoutFields fs ++ "}"
  | .arr t => "(" ++ layoutTy t ++ ")[]"
  | .roArr t => "readonly (" ++ layoutTy t ++ ")[]"
  | .union ts => if ts.isEmpty then "never" else joinSep " | " (layoutList ts)
  | .inter ts => if ts.isEmpty then "unknown" else joinSep " & " (layoutList ts)
  | .fn _ _ => ""
  | .index _ _ => ""
  | .tuple _ => ""
  | .other _ ps => "(" ++ joinSep "" ps ++ ")"
def layoutList : List Ty → List String
  | [] => []
  | t :: ts => layoutTy t :: layoutList ts
/-- one property per line: `[readonly ]key[?]: type;` (a key that is not an identifier is quoted) -/
def layoutFields : List Field → String
  | [] => ""
  | (k, ro, opt, t) :: r =>
    (if ro then "readonly " else "") ++ (if SchemaDecls.isRawIdent k then k else "\"" ++ k ++ "\"")
      ++ (if opt then "?" else "") ++ ": " ++ layoutTy t ++ ";\n" ++ layoutFields r
end

mutual
/-- a printer-level type as a syntax tree: positions dropped, structure kept (a union inside a union stays nested) -/
def erase : TSTy → Ty
  | .var n _ => .ref n
  | .func f args => .app (erase f) (eraseList args)
  | .strLit s => .strLit s
  | .ns2 a b => .qref [a, b]
  | .ns3 a b c => .qref [a, b, c]
  | .obj fs => .obj (eraseFields fs)
  | .arr t => .arr (erase t)
  | .roArr t => .roArr (erase t)
  | .union ts => .union (eraseList ts)
  | .inter ts => .inter (eraseList ts)
  | .undefined => .prim "undefined"
  | .null => .prim "null"
  | .never => .prim "never"
  | .unknown => .prim "unknown"
  | .raw s => .other "raw" [s]
def eraseList : List TSTy → List Ty
  | [] => []
  | t :: ts => erase t :: eraseList ts
def eraseFields : List TSField → List Field
  | [] => []
  | .mk k _ ty ro opt _ :: r => (k, ro, opt, erase ty) :: eraseFields r
end

theorem eraseList_isEmpty (ts : List TSTy) : (eraseList ts).isEmpty = ts.isEmpty := by cases ts <;> rfl
theorem eraseFields_isEmpty (fs : List TSField) : (eraseFields fs).isEmpty = fs.isEmpty := by
  cases fs with
  | nil => rfl
  | cons f r => cases f; rfl

mutual
theorem rawText_printTy : ∀ t : TSTy, t.simple = true → rawText (printTy t) = layoutTy (erase t)
  | .var n p, _ => by simp [printTy, erase, layoutTy]
  | .func f args, h => by
    simp only [TSTy.simple, Bool.and_eq_true] at h
    simp [-String.reduceAppend, printTy, erase, layoutTy, rawText_printTy f h.1, (rawText_printSep ", " args h.2).1,
      String.append_assoc]
  | .strLit s, _ => by simp [printTy, erase, layoutTy, String.append_assoc]
  | .ns2 a b, _ => by simp [printTy, erase, layoutTy, dotted, joinSep, String.append_assoc]
  | .ns3 a b c, _ => by simp [printTy, erase, layoutTy, dotted, joinSep, String.append_assoc]
  | .obj fs, h => by
    simp only [TSTy.simple] at h
    simp only [printTy, erase, layoutTy, eraseFields_isEmpty]
    split
    · simp
    · simp [rawText_printFields fs h, String.append_assoc]
  | .arr t, h => by
    simp only [TSTy.simple] at h
    simp [printTy, erase, layoutTy, rawText_printTy t h, String.append_assoc]
  | .roArr t, h => by
    simp only [TSTy.simple] at h
    simp [printTy, erase, layoutTy, rawText_printTy t h, String.append_assoc]
  | .union ts, h => by
    simp only [TSTy.simple] at h
    simp only [printTy, erase, layoutTy, eraseList_isEmpty]
    split
    · simp
    · exact (rawText_printSep " | " ts h).1
  | .inter ts, h => by
    simp only [TSTy.simple] at h
    simp only [printTy, erase, layoutTy, eraseList_isEmpty]
    split
    · simp
    · exact (rawText_printSep " & " ts h).1
  | .undefined, _ => by simp [printTy, erase, layoutTy]
  | .null, _ => by simp [printTy, erase, layoutTy]
  | .never, _ => by simp [printTy, erase, layoutTy]
  | .unknown, _ => by simp [printTy, erase, layoutTy]
  | .raw s, _ => by simp [printTy, erase, layoutTy, joinSep, String.append_assoc]
/-- the loop over members: the separator before every member but the first -/
theorem rawText_printSep : ∀ (sep : String) (ts : List TSTy), simpleList ts = true →
    rawText (printSep sep ts true) = joinSep sep (layoutList (eraseList ts)) ∧
    (ts ≠ [] → rawText (printSep sep ts false) = sep ++ joinSep sep (layoutList (eraseList ts)))
  | _, [], _ => by simp [printSep, eraseList, layoutList, joinSep]
  | sep, [t], h => by
    simp only [simpleList, Bool.and_eq_true] at h
    simp [printSep, eraseList, layoutList, joinSep, rawText_printTy t h.1]
  | sep, t :: u :: ts, h => by
    simp only [simpleList, Bool.and_eq_true] at h
    have ih := (rawText_printSep sep (u :: ts) (by simp [simpleList, h.2])).2 (by simp)
    have ht := rawText_printTy t h.1
    constructor
    · rw [printSep]
      simp only [if_true, List.nil_append, rawText_append, ht, ih]
      simp [eraseList, layoutList, joinSep_cons_cons, String.append_assoc]
    · intro _
      rw [printSep]
      simp only [Bool.false_eq_true, if_false, rawText_append, ht, ih]
      simp [eraseList, layoutList, joinSep_cons_cons, String.append_assoc]
theorem rawText_printFields : ∀ fs : List TSField, simpleFields fs = true →
    rawText (printFields fs) = layoutFields (eraseFields fs)
  | [], _ => by simp [printFields, eraseFields, layoutFields]
  | .mk k kp ty ro opt d :: r, h => by
    simp only [simpleFields, Bool.and_eq_true, decide_eq_true_eq] at h
    obtain ⟨⟨⟨rfl, hd⟩, h2⟩, h3⟩ := h
    have hd' : d = none := by cases d <;> simp_all
    subst hd'
    cases ro <;> cases opt <;> cases hk : SchemaDecls.isRawIdent k <;>
      simp [-String.reduceAppend, printFields, optDescOps, eraseFields, layoutFields, hk, rawText_printTy ty h2,
        rawText_printFields r h3, String.append_assoc]
end

end NitroVerif.PrintMap
