/-
Helper lemmas about `SchemaIR`: the lookup interface, `≃` as equality of lookup interfaces, `extendTypes`.
-/
import NitroVerif.Model.SchemaIR
namespace NitroVerif.SchemaIR

/-- everything a consumer may ask a schema: the four lookups, after erasure -/
structure Lookup where
  typeDef? : String → Option ITypeDef
  directiveDef? : String → Option IDirectiveDef
  rootDef? : OpK → Option ITypeDef
  implements : String → String → Bool

def lookupOf (s : Schema) : Lookup :=
  { typeDef? := viewType s, directiveDef? := viewDirective s, rootDef? := viewRoot s, implements := implementsB s }

theorem equiv_iff_lookup (a b : Schema) : a ≃ b ↔ lookupOf a = lookupOf b := by
  constructor
  · intro h
    simp only [lookupOf, Lookup.mk.injEq]
    exact ⟨funext h.types, funext h.directives, funext h.roots, funext fun i => funext (h.implementers i)⟩
  · intro h
    simp only [lookupOf, Lookup.mk.injEq] at h
    exact ⟨fun n => congrFun h.1 n, fun n => congrFun h.2.1 n, fun k => congrFun h.2.2.1 k,
      fun i o => congrFun (congrFun h.2.2.2 i) o⟩

theorem Equiv.refl (a : Schema) : a ≃ a := (equiv_iff_lookup a a).2 rfl
theorem Equiv.symm {a b : Schema} (h : a ≃ b) : b ≃ a :=
  (equiv_iff_lookup b a).2 ((equiv_iff_lookup a b).1 h).symm
theorem Equiv.trans {a b c : Schema} (h₁ : a ≃ b) (h₂ : b ≃ c) : a ≃ c :=
  (equiv_iff_lookup a c).2 (((equiv_iff_lookup a b).1 h₁).trans ((equiv_iff_lookup b c).1 h₂))

/-! ### `extendTypes` -/

theorem extendTypes_append_fresh (acc l : List ITypeDef)
    (hl : (l.map (·.name)).Nodup) (hd : ∀ t ∈ l, ∀ u ∈ acc, u.name ≠ t.name) :
    extendTypes acc l = acc ++ l := by
  induction l generalizing acc with
  | nil => simp [extendTypes]
  | cons t r ih =>
    have hfresh : acc.any (fun u => u.name == t.name) = false := by
      rw [List.any_eq_false]
      intro u hu
      simpa using hd t (by simp) u hu
    simp only [extendTypes, hfresh]
    rw [ih]
    · simp
    · have hl' : (t.name :: r.map (·.name)).Nodup := by simpa using hl
      exact (List.nodup_cons.mp hl').2
    · intro x hx u hu
      rcases List.mem_append.mp hu with hu | hu
      · exact hd x (by simp [hx]) u hu
      · have : u = t := by simpa using hu
        subst this
        have hl' : (u.name :: r.map (·.name)).Nodup := by simpa using hl
        have hn := (List.nodup_cons.mp hl').1
        intro e
        exact hn (by rw [e]; exact List.mem_map.mpr ⟨x, hx, rfl⟩)

theorem extendTypes_nil_nodup (l : List ITypeDef) (hl : (l.map (·.name)).Nodup) : extendTypes [] l = l := by
  simpa using extendTypes_append_fresh [] l hl (by simp)

theorem extendDirectives_append_fresh (acc l : List IDirectiveDef)
    (hl : (l.map (·.name)).Nodup) (hd : ∀ t ∈ l, ∀ u ∈ acc, u.name ≠ t.name) :
    extendDirectives acc l = acc ++ l := by
  induction l generalizing acc with
  | nil => simp [extendDirectives]
  | cons t r ih =>
    have hfresh : acc.any (fun u => u.name == t.name) = false := by
      rw [List.any_eq_false]
      intro u hu
      simpa using hd t (by simp) u hu
    simp only [extendDirectives, hfresh]
    rw [ih]
    · simp
    · have hl' : (t.name :: r.map (·.name)).Nodup := by simpa using hl
      exact (List.nodup_cons.mp hl').2
    · intro x hx u hu
      rcases List.mem_append.mp hu with hu | hu
      · exact hd x (by simp [hx]) u hu
      · have : u = t := by simpa using hu
        subst this
        have hl' : (u.name :: r.map (·.name)).Nodup := by simpa using hl
        have hn := (List.nodup_cons.mp hl').1
        intro e
        exact hn (by rw [e]; exact List.mem_map.mpr ⟨x, hx, rfl⟩)

theorem extendDirectives_nil_nodup (l : List IDirectiveDef) (hl : (l.map (·.name)).Nodup) :
    extendDirectives [] l = l := by
  simpa using extendDirectives_append_fresh [] l hl (by simp)

end NitroVerif.SchemaIR
