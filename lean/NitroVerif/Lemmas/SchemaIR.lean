/-
Helper lemmas about `SchemaIR`: the lookup interface, `≃` as equality of lookup interfaces, `extendTypes`.
-/
import NitroVerif.Model.SchemaIR
namespace NitroVerif.SchemaIR

/-- everything a consumer may ask a schema: the four lookups, after erasure -/
structure Lookup where
  typeDef? : String → Option ITypeDef
  directiveDef? : String → Option IDirectiveDef
  rootDef? : OpK → Option ITypeDef
  implements : String → String → Bool

def lookupOf (s : Schema) : Lookup :=
  { typeDef? := viewType s, directiveDef? := viewDirective s, rootDef? := viewRoot s, implements := implementsB s }

theorem equiv_iff_lookup (a b : Schema) : a ≃ b ↔ lookupOf a = lookupOf b := by
  constructor
  · intro h
    simp only [lookupOf, Lookup.mk.injEq]
    exact ⟨funext h.types, funext h.directives, funext h.roots, funext fun i => funext (h.implementers i)⟩
  · intro h
    simp only [lookupOf, Lookup.mk.injEq] at h
    exact ⟨fun n => congrFun h.1 n, fun n => congrFun h.2.1 n, fun k => congrFun h.2.2.1 k,
      fun i o => congrFun (congrFun h.2.2.2 i) o⟩

theorem Equiv.refl (a : Schema) : a ≃ a := (equiv_iff_lookup a a).2 rfl
theorem Equiv.symm {a b : Schema} (h : a ≃ b) : b ≃ a :=
  (equiv_iff_lookup b a).2 ((equiv_iff_lookup a b).1 h).symm
theorem Equiv.trans {a b c : Schema} (h₁ : a ≃ b) (h₂ : b ≃ c) : a ≃ c :=
  (equiv_iff_lookup a c).2 (((equiv_iff_lookup a b).1 h₁).trans ((equiv_iff_lookup b c).1 h₂))

/-! ### `extendTypes` -/

theorem extendTypes_append_fresh (acc l : List ITypeDef)
    (hl : (l.map (·.name)).Nodup) (hd : ∀ t ∈ l, ∀ u ∈ acc, u.name ≠ t.name) :
    extendTypes acc l = acc ++ l := by
  induction l generalizing acc with
  | nil => simp [extendTypes]
  | cons t r ih =>
    have hfresh : acc.any (fun u => u.name == t.name) = false := by
      rw [List.any_eq_false]
      intro u hu
      simpa using hd t (by simp) u hu
    simp only [extendTypes, hfresh]
    rw [ih]
    · simp
    · have hl' : (t.name :: r.map (·.name)).Nodup := by simpa using hl
      exact (List.nodup_cons.mp hl').2
    · intro x hx u hu
      rcases List.mem_append.mp hu with hu | hu
      · exact hd x (by simp [hx]) u hu
      · have : u = t := by simpa using hu
        subst this
        have hl' : (u.name :: r.map (·.name)).Nodup := by simpa using hl
        have hn := (List.nodup_cons.mp hl').1
        intro e
        exact hn (by rw [e]; exact List.mem_map.mpr ⟨x, hx, rfl⟩)

theorem extendTypes_nil_nodup (l : List ITypeDef) (hl : (l.map (·.name)).Nodup) : extendTypes [] l = l := by
  simpa using extendTypes_append_fresh [] l hl (by simp)

theorem extendDirectives_append_fresh (acc l : List IDirectiveDef)
    (hl : (l.map (·.name)).Nodup) (hd : ∀ t ∈ l, ∀ u ∈ acc, u.name ≠ t.name) :
    extendDirectives acc l = acc ++ l := by
  induction l generalizing acc with
  | nil => simp [extendDirectives]
  | cons t r ih =>
    have hfresh : acc.any (fun u => u.name == t.name) = false := by
      rw [List.any_eq_false]
      intro u hu
      simpa using hd t (by simp) u hu
    simp only [extendDirectives, hfresh]
    rw [ih]
    · simp
    · have hl' : (t.name :: r.map (·.name)).Nodup := by simpa using hl
      exact (List.nodup_cons.mp hl').2
    · intro x hx u hu
      rcases List.mem_append.mp hu with hu | hu
      · exact hd x (by simp [hx]) u hu
      · have : u = t := by simpa using hu
        subst this
        have hl' : (u.name :: r.map (·.name)).Nodup := by simpa using hl
        have hn := (List.nodup_cons.mp hl').1
        intro e
        exact hn (by rw [e]; exact List.mem_map.mpr ⟨x, hx, rfl⟩)

theorem extendDirectives_nil_nodup (l : List IDirectiveDef) (hl : (l.map (·.name)).Nodup) :
    extendDirectives [] l = l := by
  simpa using extendDirectives_append_fresh [] l hl (by simp)

/-! ### the executable check `equivB` decides `≃` -/

theorem typeDef?_eq_none_of_not_mem (s : Schema) (n : String) (h : n ∉ typeNames s) : s.typeDef? n = none := by
  simp only [Schema.typeDef?, List.find?_eq_none]
  intro t ht hn
  exact h (List.mem_map.mpr ⟨t, ht, by simpa using hn⟩)

theorem directiveDef?_eq_none_of_not_mem (s : Schema) (n : String) (h : n ∉ directiveNames s) :
    s.directiveDef? n = none := by
  simp only [Schema.directiveDef?, List.find?_eq_none]
  intro t ht hn
  exact h (List.mem_map.mpr ⟨t, ht, by simpa using hn⟩)

theorem viewType_eq_none_of_not_mem (s : Schema) (n : String) (h : n ∉ typeNames s) : viewType s n = none := by
  simp [viewType, typeDef?_eq_none_of_not_mem s n h]

theorem viewDirective_eq_none_of_not_mem (s : Schema) (n : String) (h : n ∉ directiveNames s) :
    viewDirective s n = none := by
  simp [viewDirective, directiveDef?_eq_none_of_not_mem s n h]

theorem implementsB_true (s : Schema) (i o : String) (h : implementsB s i o = true) :
    i ∈ ifaceNames s ∧ o ∈ typeNames s := by
  simp only [implementsB, Schema.objectImplementers, List.contains_iff_mem, List.mem_map, List.mem_filter] at h
  obtain ⟨t, ⟨ht, hp⟩, rfl⟩ := h
  simp only [Bool.and_eq_true, List.contains_iff_mem] at hp
  exact ⟨List.mem_flatMap.mpr ⟨t, ht, hp.2⟩, List.mem_map.mpr ⟨t, ht, rfl⟩⟩

theorem implementsB_false_of_not_mem (s : Schema) (i o : String) (h : i ∉ ifaceNames s ∨ o ∉ typeNames s) :
    implementsB s i o = false := by
  cases hb : implementsB s i o with
  | false => rfl
  | true =>
    have := implementsB_true s i o hb
    rcases h with h | h
    · exact absurd this.1 h
    · exact absurd this.2 h

theorem equivB_iff (a b : Schema) : equivB a b = true ↔ a ≃ b := by
  constructor
  · intro h
    simp only [equivB, Bool.and_eq_true, List.all_eq_true, beq_iff_eq] at h
    obtain ⟨⟨⟨ht, hd⟩, hr⟩, hi⟩ := h
    refine ⟨fun n => ?_, fun n => ?_, fun k => ?_, fun i o => ?_⟩
    · by_cases hn : n ∈ typeNames a ++ typeNames b
      · exact ht n hn
      · rw [viewType_eq_none_of_not_mem a n (fun h => hn (List.mem_append_left _ h)),
          viewType_eq_none_of_not_mem b n (fun h => hn (List.mem_append_right _ h))]
    · by_cases hn : n ∈ directiveNames a ++ directiveNames b
      · exact hd n hn
      · rw [viewDirective_eq_none_of_not_mem a n (fun h => hn (List.mem_append_left _ h)),
          viewDirective_eq_none_of_not_mem b n (fun h => hn (List.mem_append_right _ h))]
    · exact hr k (by cases k <;> simp [allOpK])
    · by_cases hii : i ∈ ifaceNames a ++ ifaceNames b
      · by_cases ho : o ∈ typeNames a ++ typeNames b
        · exact hi i hii o ho
        · rw [implementsB_false_of_not_mem a i o (Or.inr fun h => ho (List.mem_append_left _ h)),
            implementsB_false_of_not_mem b i o (Or.inr fun h => ho (List.mem_append_right _ h))]
      · rw [implementsB_false_of_not_mem a i o (Or.inl fun h => hii (List.mem_append_left _ h)),
          implementsB_false_of_not_mem b i o (Or.inl fun h => hii (List.mem_append_right _ h))]
  · intro h
    simp only [equivB, Bool.and_eq_true, List.all_eq_true, beq_iff_eq]
    exact ⟨⟨⟨fun n _ => h.types n, fun n _ => h.directives n⟩, fun k _ => h.roots k⟩,
      fun i _ o _ => h.implementers i o⟩

end NitroVerif.SchemaIR
