/-
Helper lemmas for C05 (never the property statements): the shape of the checker's "seen" loops,
how `checkSchema T = []` distributes over the items and the parts of each item, and the agreement of the
two lookup views (first / last definition of a name) on documents with unique type names.
-/
import NitroVerif.Model.CheckTs
import NitroVerif.Spec.ValidTs
namespace NitroVerif.CheckTs
open NitroVerif.Gql NitroVerif.ValidTs

instance : LawfulBEq TypeKind where
  eq_of_beq := by intro a b; cases a <;> cases b <;> decide
  rfl := by intro a; cases a <;> decide

theorem reserved_eq_startsWithUU (n : Name) : reserved n = startsWithUU n := rfl

/-! ### lists -/

theorem contains_eq_false_iff {l : List Name} {a : Name} : l.contains a = false ↔ a ∉ l := by
  rw [← Bool.not_eq_true, List.contains_iff_mem]

/-- the "seen" loops: if being seen before always yields a diagnostic, an empty result means that every
    element passed with `dup = false`, no name was in the initial `seen`, and the names are distinct -/
theorem loopSeen_nil {α β : Type} (name : α → Name) (body : Bool → α → List β)
    (hdup : ∀ x, body true x ≠ []) :
    ∀ (xs : List α) (seen : List Name), loopSeen name body seen xs = [] →
      (∀ x ∈ xs, body false x = []) ∧ (∀ x ∈ xs, name x ∉ seen) ∧ noDup (xs.map name) = true := by
  intro xs
  induction xs with
  | nil => intro seen _; simp [noDup]
  | cons x rest ih =>
    intro seen h
    simp only [loopSeen, List.append_eq_nil_iff] at h
    obtain ⟨hx, hrest⟩ := h
    cases hc : seen.contains (name x) with
    | true => rw [hc] at hx; exact absurd hx (hdup x)
    | false =>
      rw [hc] at hx hrest
      simp only [Bool.false_eq_true, if_false] at hrest
      obtain ⟨h1, h2, h3⟩ := ih (name x :: seen) hrest
      have hxs : name x ∉ seen := contains_eq_false_iff.mp hc
      refine ⟨?_, ?_, ?_⟩
      · intro y hy
        rcases List.mem_cons.mp hy with rfl | hy
        · exact hx
        · exact h1 y hy
      · intro y hy
        rcases List.mem_cons.mp hy with rfl | hy
        · exact hxs
        · exact fun hm => h2 y hy (List.mem_cons_of_mem _ hm)
      · simp only [List.map_cons, noDup, Bool.and_eq_true, Bool.not_eq_true']
        refine ⟨?_, h3⟩
        rw [contains_eq_false_iff]
        intro hm
        obtain ⟨y, hy, hyx⟩ := List.mem_map.mp hm
        exact h2 y hy (by rw [hyx]; exact List.mem_cons_self)

/-! ### items of the document -/

theorem mem_typeDefs {T : TsDoc} {t : TypeDef} : t ∈ ValidTs.typeDefs T ↔ TsItem.typeDef t ∈ T := by
  simp only [ValidTs.typeDefs, Schema.typeDefs, List.mem_filterMap]
  constructor
  · rintro ⟨it, hit, h⟩
    cases it <;> simp at h
    subst h; exact hit
  · intro h; exact ⟨_, h, rfl⟩

theorem mem_directiveDefs {T : TsDoc} {d : DirectiveDef} :
    d ∈ ValidTs.directiveDefs T ↔ TsItem.directiveDef d ∈ T := by
  simp only [ValidTs.directiveDefs, Schema.directiveDefs, List.mem_filterMap]
  constructor
  · rintro ⟨it, hit, h⟩
    cases it <;> simp at h
    subst h; exact hit
  · intro h; exact ⟨_, h, rfl⟩

theorem mem_schemaDefs {T : TsDoc} {d : SchemaDef} :
    d ∈ ValidTs.schemaDefs T ↔ TsItem.schemaDef d ∈ T := by
  simp only [ValidTs.schemaDefs, Schema.schemaDefs, List.mem_filterMap]
  constructor
  · rintro ⟨it, hit, h⟩
    cases it <;> simp at h
    subst h; exact hit
  · intro h; exact ⟨_, h, rfl⟩

theorem checkSchema_nil_item {T : TsDoc} (h : checkSchema T = []) {it : TsItem} (hit : it ∈ T) :
    checkItem T ⟨T⟩ it = [] := by
  simp only [checkSchema, checkSchemaItems, List.append_eq_nil_iff, List.flatMap_eq_nil_iff] at h
  exact h.2 it hit

theorem checkSchema_nil_typeDef {T : TsDoc} (h : checkSchema T = []) {t : TypeDef}
    (ht : t ∈ ValidTs.typeDefs T) : checkTypeDef T ⟨T⟩ t = [] :=
  checkSchema_nil_item h (mem_typeDefs.mp ht)

theorem checkSchema_nil_directiveDef {T : TsDoc} (h : checkSchema T = []) {d : DirectiveDef}
    (hd : d ∈ ValidTs.directiveDefs T) : checkDirectiveDef T ⟨T⟩ d = [] :=
  checkSchema_nil_item h (mem_directiveDefs.mp hd)

theorem checkSchema_nil_schemaDef {T : TsDoc} (h : checkSchema T = []) {d : SchemaDef}
    (hd : d ∈ ValidTs.schemaDefs T) : checkSchemaDef T ⟨T⟩ d = [] :=
  checkSchema_nil_item h (mem_schemaDefs.mp hd)

/-! ### parts of a type definition -/

/-- the kind-specific part of `checkTypeDef` -/
def kindPart (T : TsDoc) (S : Schema) (t : TypeDef) : List Err :=
  match t.kind with
  | .scalar => []
  | .object => checkFields S t.fields ++ checkObjectImplements T S t
  | .interface => checkFields S t.fields ++ checkInterfaceImplements T S t
  | .union => checkUnionMembers T t.members
  | .enum => checkEnumValues S t.values
  | .input => checkInputFields S t.inputs

theorem checkTypeDef_nil {T : TsDoc} {S : Schema} {t : TypeDef} (h : checkTypeDef T S t = []) :
    reserved t.name = false ∧ checkDirectives S (locationOfKind t.kind) t.dirs = [] ∧ kindPart T S t = [] := by
  simp only [checkTypeDef, List.append_eq_nil_iff] at h
  obtain ⟨⟨h1, h2⟩, h3⟩ := h
  refine ⟨?_, h2, h3⟩
  cases hr : reserved t.name with
  | false => rfl
  | true => rw [hr] at h1; simp at h1

theorem fields_nil {T : TsDoc} {S : Schema} {t : TypeDef} (h : kindPart T S t = [])
    (hk : isObjOrIface t = true) : checkFields S t.fields = [] := by
  unfold kindPart at h
  unfold isObjOrIface at hk
  cases hkind : t.kind <;> rw [hkind] at h hk <;>
    first
    | exact absurd hk (by decide)
    | (simp only [List.append_eq_nil_iff] at h; exact h.1)

/-- what an empty `checkFields` says about the fields -/
theorem checkFields_nil {S : Schema} {fields : List FieldDef} (h : checkFields S fields = []) :
    (∀ f ∈ fields, reserved f.name = false ∧ checkDirectives S "FIELD_DEFINITION" f.dirs = [] ∧
        checkOutputFieldType S f.ty = [] ∧ checkArgsDef S f.args = []) ∧
    noDup (fields.map (·.name)) = true := by
  unfold checkFields at h
  obtain ⟨h1, _, h3⟩ := loopSeen_nil (·.name) _ (by intro x; simp) fields [] h
  refine ⟨?_, h3⟩
  intro f hf
  have := h1 f hf
  simp only [Bool.false_eq_true, if_false, List.nil_append, List.append_eq_nil_iff] at this
  obtain ⟨⟨⟨hr, hd⟩, ho⟩, ha⟩ := this
  refine ⟨?_, hd, ho, ha⟩
  cases hrr : reserved f.name with
  | false => rfl
  | true => rw [hrr] at hr; simp at hr

theorem checkArgsDef_nil {S : Schema} {args : List InputValueDef} (h : checkArgsDef S args = []) :
    (∀ a ∈ args, reserved a.name = false ∧ checkInputValueType S a.ty = [] ∧
        checkDirectives S "ARGUMENT_DEFINITION" a.dirs = []) ∧
    noDup (args.map (·.name)) = true := by
  unfold checkArgsDef at h
  obtain ⟨h1, _, h3⟩ := loopSeen_nil (·.name) _ (by intro x; simp) args [] h
  refine ⟨?_, h3⟩
  intro a ha
  have := h1 a ha
  simp only [Bool.false_eq_true, if_false, List.append_nil, List.append_eq_nil_iff] at this
  obtain ⟨⟨hr, ht⟩, hd⟩ := this
  refine ⟨?_, ht, hd⟩
  cases hrr : reserved a.name with
  | false => rfl
  | true => rw [hrr] at hr; simp at hr

theorem checkInputFields_nil {S : Schema} {inputs : List InputValueDef} (h : checkInputFields S inputs = []) :
    (∀ a ∈ inputs, reserved a.name = false ∧ checkInputValueType S a.ty = [] ∧
        checkDirectives S "INPUT_FIELD_DEFINITION" a.dirs = []) ∧
    noDup (inputs.map (·.name)) = true := by
  unfold checkInputFields at h
  obtain ⟨h1, _, h3⟩ := loopSeen_nil (·.name) _ (by intro x; simp) inputs [] h
  refine ⟨?_, h3⟩
  intro a ha
  have := h1 a ha
  simp only [Bool.false_eq_true, if_false, List.nil_append, List.append_eq_nil_iff] at this
  obtain ⟨⟨hr, hd⟩, ht⟩ := this
  refine ⟨?_, ht, hd⟩
  cases hrr : reserved a.name with
  | false => rfl
  | true => rw [hrr] at hr; simp at hr

theorem checkEnumValues_nil {S : Schema} {values : List EnumValueDef} (h : checkEnumValues S values = []) :
    (∀ v ∈ values, reserved v.name = false ∧ checkDirectives S "ENUM_VALUE" v.dirs = []) ∧
    noDup (values.map (·.name)) = true := by
  unfold checkEnumValues at h
  obtain ⟨h1, _, h3⟩ := loopSeen_nil (·.name) _ (by intro x; simp) values [] h
  refine ⟨?_, h3⟩
  intro v hv
  have := h1 v hv
  simp only [Bool.false_eq_true, if_false, List.nil_append, List.append_eq_nil_iff] at this
  obtain ⟨hr, hd⟩ := this
  refine ⟨?_, hd⟩
  cases hrr : reserved v.name with
  | false => rfl
  | true => rw [hrr] at hr; simp at hr

theorem checkUnionMembers_nil {T : TsDoc} {members : List (Name × Pos)} (h : checkUnionMembers T members = []) :
    (∀ m ∈ members, ∃ d, lastTypeDef? T m.1 = some d ∧ d.kind = .object) ∧
    noDup (members.map (·.1)) = true := by
  unfold checkUnionMembers at h
  obtain ⟨h1, _, h3⟩ := loopSeen_nil (·.1) _ (by intro x; simp) members [] h
  refine ⟨?_, h3⟩
  intro m hm
  have := h1 m hm
  simp only [Bool.false_eq_true, if_false, List.nil_append] at this
  cases hl : lastTypeDef? T m.1 with
  | none => rw [hl] at this; simp at this
  | some d =>
    rw [hl] at this
    dsimp only at this
    refine ⟨d, rfl, ?_⟩
    cases hk : d.kind <;> rw [hk] at this <;> first | rfl | (simp at this)

/-! ### the kind-restricted component lists of the spec against the kind-specific part of the model -/

theorem typeDef_parts {T : TsDoc} (h : checkSchema T = []) {t : TypeDef} (ht : t ∈ ValidTs.typeDefs T) :
    reserved t.name = false ∧ checkDirectives ⟨T⟩ (locationOfKind t.kind) t.dirs = [] ∧ kindPart T ⟨T⟩ t = [] :=
  checkTypeDef_nil (checkSchema_nil_typeDef h ht)

theorem fieldsOfT_facts {T : TsDoc} (h : checkSchema T = []) {t : TypeDef} (ht : t ∈ ValidTs.typeDefs T) :
    (∀ f ∈ fieldsOfT t, reserved f.name = false ∧ checkDirectives ⟨T⟩ "FIELD_DEFINITION" f.dirs = [] ∧
        checkOutputFieldType ⟨T⟩ f.ty = [] ∧ checkArgsDef ⟨T⟩ f.args = []) ∧
    noDup ((fieldsOfT t).map (·.name)) = true := by
  unfold fieldsOfT
  cases hk : isObjOrIface t with
  | false => simp [noDup]
  | true =>
    simp only [if_true]
    exact checkFields_nil (fields_nil (typeDef_parts h ht).2.2 hk)

theorem valuesOfT_facts {T : TsDoc} (h : checkSchema T = []) {t : TypeDef} (ht : t ∈ ValidTs.typeDefs T) :
    (∀ v ∈ valuesOfT t, reserved v.name = false ∧ checkDirectives ⟨T⟩ "ENUM_VALUE" v.dirs = []) ∧
    noDup ((valuesOfT t).map (·.name)) = true := by
  unfold valuesOfT
  by_cases hk : t.kind = .enum
  · have := (typeDef_parts h ht).2.2
    unfold kindPart at this
    rw [hk] at this
    have hb : (t.kind == t.kind) = true := by cases t.kind <;> decide
    rw [hk] at hb
    simp only [hk, hb, if_true]
    exact checkEnumValues_nil this
  · have : (t.kind == TypeKind.enum) = false := by
      cases hkk : t.kind <;> first | decide | exact absurd hkk hk
    simp [this, noDup]

theorem inputsOfT_facts {T : TsDoc} (h : checkSchema T = []) {t : TypeDef} (ht : t ∈ ValidTs.typeDefs T) :
    (∀ a ∈ inputsOfT t, reserved a.name = false ∧ checkInputValueType ⟨T⟩ a.ty = [] ∧
        checkDirectives ⟨T⟩ "INPUT_FIELD_DEFINITION" a.dirs = []) ∧
    noDup ((inputsOfT t).map (·.name)) = true := by
  unfold inputsOfT
  by_cases hk : t.kind = .input
  · have := (typeDef_parts h ht).2.2
    unfold kindPart at this
    rw [hk] at this
    have hb : (t.kind == t.kind) = true := by cases t.kind <;> decide
    rw [hk] at hb
    simp only [hk, hb, if_true]
    exact checkInputFields_nil this
  · have : (t.kind == TypeKind.input) = false := by
      cases hkk : t.kind <;> first | decide | exact absurd hkk hk
    simp [this, noDup]

theorem membersOfT_facts {T : TsDoc} (h : checkSchema T = []) {t : TypeDef} (ht : t ∈ ValidTs.typeDefs T) :
    (∀ m ∈ membersOfT t, ∃ d, lastTypeDef? T m.1 = some d ∧ d.kind = .object) ∧
    noDup ((membersOfT t).map (·.1)) = true := by
  unfold membersOfT
  by_cases hk : t.kind = .union
  · have := (typeDef_parts h ht).2.2
    unfold kindPart at this
    rw [hk] at this
    have hb : (t.kind == t.kind) = true := by cases t.kind <;> decide
    rw [hk] at hb
    simp only [hk, hb, if_true]
    exact checkUnionMembers_nil this
  · have : (t.kind == TypeKind.union) = false := by
      cases hkk : t.kind <;> first | decide | exact absurd hkk hk
    simp [this, noDup]

theorem directiveDef_parts {T : TsDoc} (h : checkSchema T = []) {d : DirectiveDef}
    (hd : d ∈ ValidTs.directiveDefs T) :
    checkDirectiveRecursion T d = [] ∧ reserved d.name = false ∧ checkArgsDef ⟨T⟩ d.args = [] := by
  have := checkSchema_nil_directiveDef h hd
  simp only [checkDirectiveDef, List.append_eq_nil_iff] at this
  obtain ⟨⟨h1, h2⟩, h3⟩ := this
  refine ⟨h1, ?_, h3⟩
  cases hr : reserved d.name with
  | false => rfl
  | true => rw [hr] at h2; simp at h2

/-- every list of argument definitions of the document passes `checkArgsDef` -/
theorem argLists_facts {T : TsDoc} (h : checkSchema T = []) {as : List InputValueDef}
    (ha : as ∈ argLists T) : checkArgsDef ⟨T⟩ as = [] := by
  simp only [argLists, List.mem_append, List.mem_flatMap, List.mem_map] at ha
  rcases ha with ⟨t, ht, f, hf, rfl⟩ | ⟨d, hd, rfl⟩
  · exact ((fieldsOfT_facts h ht).1 f hf).2.2.2
  · exact (directiveDef_parts h hd).2.2

/-! ### first / last definition of a name -/

theorem known_of_lastTypeDef {T : TsDoc} {n : Name} {d : TypeDef} (h : lastTypeDef? T n = some d) :
    known ⟨T⟩ n = true := by
  unfold lastTypeDef? at h
  have hm := List.mem_of_find?_eq_some h
  have hp := List.find?_some h
  simp only [known, Schema.typeDef?, List.find?_isSome]
  exact ⟨d, List.mem_reverse.mp hm, hp⟩

theorem find?_reverse_of_noDup {α : Type} (name : α → Name) (n : Name) :
    ∀ (l : List α), noDup (l.map name) = true →
      l.reverse.find? (fun x => name x == n) = l.find? (fun x => name x == n) := by
  intro l
  induction l with
  | nil => intro _; rfl
  | cons x r ih =>
    intro hnd
    simp only [List.map_cons, noDup, Bool.and_eq_true, Bool.not_eq_true'] at hnd
    obtain ⟨hx, hr⟩ := hnd
    rw [List.reverse_cons, List.find?_append, ih hr]
    cases hp : name x == n with
    | false => simp [List.find?, hp]
    | true =>
      have hnone : r.find? (fun y => name y == n) = none := by
        rw [List.find?_eq_none]
        intro y hy hyn
        have h1 : name y = n := by simpa using hyn
        have h2 : name x = n := by simpa using hp
        have : name x ∈ r.map name := List.mem_map.mpr ⟨y, hy, by rw [h1, h2]⟩
        exact (contains_eq_false_iff.mp hx) this
      simp [List.find?, hp, hnone]

theorem lastTypeDef_eq_typeDef {T : TsDoc} (hu : uniqueTypeNames T = true) (n : Name) :
    lastTypeDef? T n = (Schema.mk T).typeDef? n := by
  unfold lastTypeDef? Schema.typeDef?
  exact find?_reverse_of_noDup (fun (t : TypeDef) => t.name) n (Schema.typeDefs ⟨T⟩) hu

theorem kindOf_of_typeDef {S : Schema} {n : Name} {d : TypeDef} (h : S.typeDef? n = some d) :
    S.kindOf? n = some d.kind := by
  simp [Schema.kindOf?, h]

theorem typeDef_mem {T : TsDoc} {n : Name} {d : TypeDef} (h : (Schema.mk T).typeDef? n = some d) :
    d ∈ ValidTs.typeDefs T ∧ d.name = n := by
  unfold Schema.typeDef? at h
  exact ⟨List.mem_of_find?_eq_some h, by simpa using List.find?_some h⟩

/-! ### types of fields and input values -/

theorem outputFieldType_nil {S : Schema} {ty : GType} (h : checkOutputFieldType S ty = []) :
    ∃ k, S.kindOf? ty.unwrapped = some k ∧ Schema.isOutputKind k = true := by
  unfold checkOutputFieldType at h
  cases hk : S.kindOf? ty.unwrapped with
  | none => rw [hk] at h; simp at h
  | some k =>
    rw [hk] at h
    dsimp only at h
    refine ⟨k, rfl, ?_⟩
    cases ho : Schema.isOutputKind k with
    | true => rfl
    | false => rw [ho] at h; simp at h

theorem inputValueType_nil {S : Schema} {ty : GType} (h : checkInputValueType S ty = []) :
    ∃ k, S.kindOf? ty.unwrapped = some k ∧ Schema.isInputKind k = true := by
  unfold checkInputValueType at h
  cases hk : S.kindOf? ty.unwrapped with
  | none => rw [hk] at h; simp at h
  | some k =>
    rw [hk] at h
    dsimp only at h
    refine ⟨k, rfl, ?_⟩
    cases ho : Schema.isInputKind k with
    | true => rfl
    | false => rw [ho] at h; simp at h

theorem known_of_kindOf {S : Schema} {n : Name} {k : TypeKind} (h : S.kindOf? n = some k) : known S n = true := by
  unfold Schema.kindOf? at h
  unfold known
  cases ht : S.typeDef? n with
  | none => rw [ht] at h; simp at h
  | some d => rfl

theorem inputValues_facts {T : TsDoc} (h : checkSchema T = []) {v : InputValueDef} (hv : v ∈ inputValues T) :
    checkInputValueType ⟨T⟩ v.ty = [] := by
  simp only [inputValues, List.mem_append, List.mem_flatten, List.mem_flatMap] at hv
  rcases hv with ⟨as, has, hvas⟩ | ⟨t, ht, hvt⟩
  · exact ((checkArgsDef_nil (argLists_facts h has)).1 v hvas).2.1
  · exact ((inputsOfT_facts h ht).1 v hvt).2.1

/-! ### `implements` -/

/-- what an accepted document says about every interface a type claims to implement -/
theorem implementsOfT_facts {T : TsDoc} (h : checkSchema T = []) {t : TypeDef} (ht : t ∈ ValidTs.typeDefs T) :
    ∀ i ∈ implementsOfT t, (t.kind = .interface → t.name ≠ i.1) ∧
      ∃ idef, lastTypeDef? T i.1 = some idef ∧ idef.kind = .interface ∧
        checkValidImpl ⟨T⟩ t.namePos t.fields t.implements idef = [] := by
  intro i hi
  unfold implementsOfT at hi
  have hkp := (typeDef_parts h ht).2.2
  unfold kindPart at hkp
  have himpl : ∀ idef, lastTypeDef? T i.1 = some idef →
      (if idef.kind != TypeKind.interface then [(ErrKind.NotInterface, i.2)]
       else checkValidImpl ⟨T⟩ t.namePos t.fields t.implements idef) = [] →
      idef.kind = .interface ∧ checkValidImpl ⟨T⟩ t.namePos t.fields t.implements idef = [] := by
    intro idef _ hh
    by_cases hk : idef.kind = .interface
    · exact ⟨hk, by simpa [hk] using hh⟩
    · simp [hk] at hh
  cases hkind : t.kind with
  | object =>
    rw [hkind] at hkp
    simp only [isObjOrIface, hkind] at hi
    have hi' : i ∈ t.implements := by simpa using hi
    simp only [List.append_eq_nil_iff, checkObjectImplements, List.flatMap_eq_nil_iff] at hkp
    have := hkp.2 i hi'
    refine ⟨fun hc => (by cases hc), ?_⟩
    cases hl : lastTypeDef? T i.1 with
    | none => rw [hl] at this; simp at this
    | some idef =>
      rw [hl] at this
      obtain ⟨h1, h2⟩ := himpl idef hl this
      exact ⟨idef, rfl, h1, h2⟩
  | interface =>
    rw [hkind] at hkp
    simp only [isObjOrIface, hkind] at hi
    have hi' : i ∈ t.implements := by simpa using hi
    simp only [List.append_eq_nil_iff, checkInterfaceImplements, List.flatMap_eq_nil_iff] at hkp
    have := hkp.2 i hi'
    by_cases hself : t.name = i.1
    · simp [hself] at this
    · refine ⟨fun _ => hself, ?_⟩
      have hb : (t.name == i.1) = false := by simpa using hself
      simp only [hb, Bool.false_eq_true, if_false] at this
      cases hl : lastTypeDef? T i.1 with
      | none => rw [hl] at this; simp at this
      | some idef =>
        rw [hl] at this
        obtain ⟨h1, h2⟩ := himpl idef hl this
        exact ⟨idef, rfl, h1, h2⟩
  | scalar => simp [isObjOrIface, hkind] at hi
  | union => simp [isObjOrIface, hkind] at hi
  | enum => simp [isObjOrIface, hkind] at hi
  | input => simp [isObjOrIface, hkind] at hi

/-! ### `check_valid_implementation` -/

theorem same_eq_sameType : ∀ (a b : GType), a.same b = sameType a b := by
  intro a
  induction a with
  | named n p => intro b; cases b <;> simp [GType.same, sameType]
  | list t p ih => intro b; cases b <;> simp [GType.same, sameType, ih]
  | nonNull t ih => intro b; cases b <;> simp [GType.same, sameType, ih]

theorem required_eq_requiredArg (a : InputValueDef) : InputValueDef.required a = requiredArg a := rfl

/-- what an empty `checkValidImpl` says -/
theorem checkValidImpl_nil {S : Schema} {namePos : Pos} {fields : List FieldDef}
    {implements : List (Name × Pos)} {iface : TypeDef}
    (h : checkValidImpl S namePos fields implements iface = []) :
    (∀ imp ∈ iface.implements, implements.any (·.1 == imp.1) = true) ∧
    (∀ impF ∈ iface.fields, ∃ f, fields.find? (·.name == impF.name) = some f ∧
      (∀ ia ∈ impF.args, ∃ fa, f.args.find? (·.name == ia.name) = some fa ∧ sameType fa.ty ia.ty = true) ∧
      (∀ fa ∈ f.args, impF.args.any (·.name == fa.name) = true ∨ requiredArg fa = false) ∧
      isSubtype S f.ty impF.ty ≠ some false) := by
  simp only [checkValidImpl, List.append_eq_nil_iff, List.map_eq_nil_iff, List.filter_eq_nil_iff,
    List.flatMap_eq_nil_iff] at h
  obtain ⟨h1, h2⟩ := h
  refine ⟨?_, ?_⟩
  · intro imp himp
    have := h1 imp himp
    simpa using this
  · intro impF hF
    have := h2 impF hF
    cases hfind : fields.find? (·.name == impF.name) with
    | none => rw [hfind] at this; simp at this
    | some f =>
      rw [hfind] at this
      simp only [List.append_eq_nil_iff, List.map_eq_nil_iff, List.filter_eq_nil_iff,
        List.flatMap_eq_nil_iff] at this
      obtain ⟨⟨ha, hb⟩, hc⟩ := this
      refine ⟨f, rfl, ?_, ?_, ?_⟩
      · intro ia hia
        have := ha ia hia
        cases hfa : f.args.find? (·.name == ia.name) with
        | none => rw [hfa] at this; simp at this
        | some fa =>
          rw [hfa] at this
          dsimp only at this
          refine ⟨fa, rfl, ?_⟩
          rw [← same_eq_sameType]
          cases hs : fa.ty.same ia.ty with
          | true => rfl
          | false => rw [hs] at this; simp at this
      · intro fa hfa
        have := hb fa hfa
        simp only [Bool.and_eq_true, not_and, Bool.not_eq_true] at this
        by_cases hall : (impF.args.all fun x => x.name != fa.name) = true
        · right; rw [← required_eq_requiredArg]; exact this hall
        · left
          cases hany : impF.args.any (·.name == fa.name) with
          | true => rfl
          | false =>
            exfalso
            apply hall
            simp only [List.all_eq_true, bne_iff_ne, ne_eq]
            intro x hx hxe
            have : impF.args.any (·.name == fa.name) = true :=
              List.any_eq_true.mpr ⟨x, hx, by simpa using hxe⟩
            rw [hany] at this
            cases this
      · intro hsub
        rw [hsub] at hc
        simp at hc

/-! ### `is_subtype` against the spec's covariance -/

/-- "everything an object / interface type says it implements is a defined interface type" -/
def ImplementsOk (S : Schema) : Prop :=
  ∀ tn td, S.typeDef? tn = some td → (td.kind = .object ∨ td.kind = .interface) →
    ∀ i ∈ td.implements, ∃ pd, S.typeDef? i.1 = some pd ∧ pd.kind = .interface

theorem isSubtype_named {S : Schema} (hI : ImplementsOk S) (tn on : Name) (p q : Pos)
    (hk1 : known S tn = true) (hk2 : known S on = true) :
    isSubtype S (.named tn p) (.named on q) = some (isSubTypeSpec S tn on) := by
  unfold isSubtype isSubTypeSpec
  by_cases heq : tn = on
  · simp [heq]
  · have hne : (tn == on) = false := by simpa using heq
    simp only [hne, Bool.false_eq_true, if_false, Bool.false_or]
    unfold known at hk1 hk2
    cases ht : S.typeDef? tn with
    | none => rw [ht] at hk1; simp at hk1
    | some td =>
      cases ho : S.typeDef? on with
      | none => rw [ho] at hk2; simp at hk2
      | some od =>
        dsimp only
        cases hkind : td.kind with
        | scalar => simp
        | enum => simp
        | union => simp
        | input => simp
        | interface =>
          by_cases hany : td.implements.any (·.1 == on) = true
          · obtain ⟨x, hx, hxe⟩ := List.any_eq_true.mp hany
            have hxe' : x.1 = on := by simpa using hxe
            obtain ⟨pd, hpd, hpk⟩ := hI tn td ht (Or.inr hkind) x hx
            rw [hxe', ho] at hpd
            cases hpd
            simp [hany, hpk]
          · have : td.implements.any (·.1 == on) = false := Bool.eq_false_iff.mpr hany
            simp [this]
        | object =>
          by_cases hany : td.implements.any (·.1 == on) = true
          · obtain ⟨x, hx, hxe⟩ := List.any_eq_true.mp hany
            have hxe' : x.1 = on := by simpa using hxe
            obtain ⟨pd, hpd, hpk⟩ := hI tn td ht (Or.inl hkind) x hx
            rw [hxe', ho] at hpd
            cases hpd
            simp [hany, hpk]
          · have : td.implements.any (·.1 == on) = false := Bool.eq_false_iff.mpr hany
            simp only [this, Bool.false_eq_true, if_false, Bool.and_false, Bool.false_or, beq_self_eq_true,
              Bool.true_and]
            cases (od.kind == TypeKind.union && od.members.any fun x => x.1 == tn) <;> simp

/-- the model of `is_subtype` computes the spec's IsValidImplementationFieldType whenever the two
    innermost type names are defined and `implements` lists only name interfaces -/
theorem isSubtype_spec {S : Schema} (hI : ImplementsOk S) :
    ∀ (a b : GType), known S a.unwrapped = true → known S b.unwrapped = true →
      isSubtype S a b = some (validImplFieldType S a b) := by
  intro a
  induction a with
  | named tn p =>
    intro b hk1 hk2
    cases b with
    | named on q =>
      simp only [GType.unwrapped] at hk1 hk2
      rw [isSubtype_named hI tn on p q hk1 hk2]
      simp [validImplFieldType]
    | list t q =>
      simp only [GType.unwrapped] at hk1
      unfold known at hk1
      unfold isSubtype validImplFieldType
      cases ht : S.typeDef? tn with
      | none => rw [ht] at hk1; simp at hk1
      | some td => rfl
    | nonNull t =>
      simp only [GType.unwrapped] at hk1
      unfold known at hk1
      unfold isSubtype validImplFieldType
      cases ht : S.typeDef? tn with
      | none => rw [ht] at hk1; simp at hk1
      | some td => rfl
  | list t p ih =>
    intro b hk1 hk2
    cases b with
    | named on q => simp [isSubtype, validImplFieldType]
    | list u q =>
      simp only [GType.unwrapped] at hk1 hk2
      simp only [isSubtype, validImplFieldType]
      exact ih u hk1 hk2
    | nonNull u => simp [isSubtype, validImplFieldType]
  | nonNull t ih =>
    intro b hk1 hk2
    cases b with
    | named on q =>
      simp only [GType.unwrapped] at hk1 hk2
      simp only [isSubtype, validImplFieldType]
      exact ih _ hk1 (by simpa [GType.unwrapped] using hk2)
    | list u q =>
      simp only [GType.unwrapped] at hk1 hk2
      simp only [isSubtype, validImplFieldType]
      exact ih _ hk1 (by simpa [GType.unwrapped] using hk2)
    | nonNull u =>
      simp only [GType.unwrapped] at hk1 hk2
      simp only [isSubtype, validImplFieldType]
      exact ih u hk1 hk2

/-! ### the resolver's duplicate-definition test -/

theorem dupOriginalAux_none :
    ∀ (T : TsDoc) (seen : List (Option (TypeKind × Name))), dupOriginalAux seen T = none →
      (∀ t, TsItem.typeDef t ∈ T → some (t.kind, t.name) ∉ seen) ∧
      noDupKinded ((ValidTs.typeDefs T).map fun t => (t.kind, t.name)) = true ∧
      (none ∈ seen → ValidTs.schemaDefs T = []) ∧ (ValidTs.schemaDefs T).length ≤ 1 := by
  intro T
  induction T with
  | nil => intro seen _; simp [ValidTs.typeDefs, ValidTs.schemaDefs, Schema.typeDefs, Schema.schemaDefs, noDupKinded]
  | cons x r ih =>
    intro seen h
    cases x with
    | schemaDef sd =>
      simp only [dupOriginalAux] at h
      cases hc : seen.contains none with
      | true => rw [hc] at h; simp at h
      | false =>
        rw [hc] at h
        simp only [Bool.false_eq_true, if_false] at h
        obtain ⟨h1, h2, h3, _⟩ := ih _ h
        have hn : none ∉ seen := by
          intro hin; have := List.contains_iff_mem.mpr hin; rw [hc] at this; cases this
        have hr : ValidTs.schemaDefs r = [] := h3 List.mem_cons_self
        refine ⟨?_, ?_, ?_, ?_⟩
        · intro t ht
          rcases List.mem_cons.mp ht with hx | ht
          · cases hx
          · exact fun hin => h1 t ht (List.mem_cons_of_mem _ hin)
        · simpa [ValidTs.typeDefs, Schema.typeDefs] using h2
        · intro hin; exact absurd hin hn
        · simp only [ValidTs.schemaDefs, Schema.schemaDefs, List.filterMap_cons] at hr ⊢
          simp [hr]
    | typeDef t =>
      simp only [dupOriginalAux] at h
      cases hc : seen.contains (some (t.kind, t.name)) with
      | true => rw [hc] at h; simp at h
      | false =>
        rw [hc] at h
        simp only [Bool.false_eq_true, if_false] at h
        obtain ⟨h1, h2, h3, h4⟩ := ih _ h
        have hn : some (t.kind, t.name) ∉ seen := by
          intro hin; have := List.contains_iff_mem.mpr hin; rw [hc] at this; cases this
        refine ⟨?_, ?_, ?_, ?_⟩
        · intro t' ht'
          rcases List.mem_cons.mp ht' with hx | ht'
          · cases hx; exact hn
          · exact fun hin => h1 t' ht' (List.mem_cons_of_mem _ hin)
        · have hcons : ValidTs.typeDefs (TsItem.typeDef t :: r) = t :: ValidTs.typeDefs r := by
            simp [ValidTs.typeDefs, Schema.typeDefs]
          rw [hcons]
          simp only [List.map_cons, noDupKinded, Bool.and_eq_true, Bool.not_eq_true']
          refine ⟨?_, h2⟩
          cases hcc : ((ValidTs.typeDefs r).map fun t => (t.kind, t.name)).contains (t.kind, t.name) with
          | false => rfl
          | true =>
            exfalso
            obtain ⟨t', ht', heq⟩ := List.mem_map.mp (List.contains_iff_mem.mp hcc)
            have := h1 t' (mem_typeDefs.mp ht')
            rw [heq] at this
            exact this List.mem_cons_self
        · intro hin
          have := h3 (List.mem_cons_of_mem _ hin)
          simpa [ValidTs.schemaDefs, Schema.schemaDefs] using this
        · simpa [ValidTs.schemaDefs, Schema.schemaDefs] using h4
    | directiveDef d =>
      simp only [dupOriginalAux] at h
      obtain ⟨h1, h2, h3, h4⟩ := ih _ h
      refine ⟨?_, ?_, ?_, ?_⟩
      · intro t ht
        rcases List.mem_cons.mp ht with hx | ht
        · cases hx
        · exact h1 t ht
      · simpa [ValidTs.typeDefs, Schema.typeDefs] using h2
      · simpa [ValidTs.schemaDefs, Schema.schemaDefs] using h3
      · simpa [ValidTs.schemaDefs, Schema.schemaDefs] using h4
    | schemaExt d =>
      simp only [dupOriginalAux] at h
      obtain ⟨h1, h2, h3, h4⟩ := ih _ h
      refine ⟨?_, ?_, ?_, ?_⟩
      · intro t ht
        rcases List.mem_cons.mp ht with hx | ht
        · cases hx
        · exact h1 t ht
      · simpa [ValidTs.typeDefs, Schema.typeDefs] using h2
      · simpa [ValidTs.schemaDefs, Schema.schemaDefs] using h3
      · simpa [ValidTs.schemaDefs, Schema.schemaDefs] using h4
    | typeExt d =>
      simp only [dupOriginalAux] at h
      obtain ⟨h1, h2, h3, h4⟩ := ih _ h
      refine ⟨?_, ?_, ?_, ?_⟩
      · intro t ht
        rcases List.mem_cons.mp ht with hx | ht
        · cases hx
        · exact h1 t ht
      · simpa [ValidTs.typeDefs, Schema.typeDefs] using h2
      · simpa [ValidTs.schemaDefs, Schema.schemaDefs] using h3
      · simpa [ValidTs.schemaDefs, Schema.schemaDefs] using h4

/-! ### directive applications -/

theorem specLocation_eq (k : TypeKind) : specLocation k = locationOfKind k := by cases k <;> rfl

/-- every directive site of the spec was checked by `checkDirectives` with the site's location -/
theorem dirSites_facts {T : TsDoc} (h : checkSchema T = []) :
    ∀ s ∈ dirSites T, checkDirectives ⟨T⟩ s.1 s.2 = [] := by
  intro s hs
  simp only [dirSites, List.mem_flatMap] at hs
  obtain ⟨it, hit, hs⟩ := hs
  cases it with
  | schemaDef sd =>
    simp only [List.mem_singleton] at hs
    subst hs
    exact checkSchema_nil_item h hit
  | typeDef t =>
    have ht : t ∈ ValidTs.typeDefs T := mem_typeDefs.mpr hit
    simp only [List.mem_cons, List.mem_append, List.mem_flatMap, List.mem_map] at hs
    rcases hs with ((rfl | ⟨f, hf, hs⟩) | ⟨v, hv, rfl⟩) | ⟨f, hf, rfl⟩
    · rw [specLocation_eq]; exact (typeDef_parts h ht).2.1
    · have hff := (fieldsOfT_facts h ht).1 f hf
      rcases hs with rfl | ⟨a, ha, rfl⟩
      · exact hff.2.1
      · exact ((checkArgsDef_nil hff.2.2.2).1 a ha).2.2
    · exact ((valuesOfT_facts h ht).1 v hv).2
    · exact ((inputsOfT_facts h ht).1 f hf).2.2
  | directiveDef d =>
    simp only [List.mem_map] at hs
    obtain ⟨a, ha, rfl⟩ := hs
    exact ((checkArgsDef_nil (directiveDef_parts h (mem_directiveDefs.mpr hit)).2.2).1 a ha).2.2
  | schemaExt _ => simp at hs
  | typeExt _ => simp at hs

/-- what an empty `checkDirectivesAux` says about each application and about repetitions -/
theorem checkDirectivesAux_nil {S : Schema} {loc : String} :
    ∀ (ds : List Directive) (seen : List Name), checkDirectivesAux S loc seen ds = [] →
      ∀ d ∈ ds, ∃ df, S.directiveDef? d.name = some df ∧ df.locations.contains loc = true ∧
        checkArguments S d.pos d.args df.args = [] ∧
        (df.repeatable = true ∨ (d.name ∉ seen ∧ (ds.filter (·.name == d.name)).length ≤ 1)) := by
  intro ds
  induction ds with
  | nil => intro _ _ d hd; cases hd
  | cons d0 rest ih =>
    intro seen h d hd
    simp only [checkDirectivesAux, List.append_eq_nil_iff] at h
    obtain ⟨h0, hrest⟩ := h
    unfold checkDirective at h0
    cases hdef : S.directiveDef? d0.name with
    | none => rw [hdef] at h0; simp at h0
    | some df0 =>
      rw [hdef] at h0
      simp only [List.append_eq_nil_iff] at h0
      obtain ⟨⟨hloc, hrep⟩, hargs⟩ := h0
      have hloc' : df0.locations.contains loc = true := by
        cases hc : df0.locations.contains loc with
        | true => rfl
        | false =>
          exfalso
          have hall : (df0.locations.all fun x => x != loc) = true := by
            simp only [List.all_eq_true, bne_iff_ne, ne_eq]
            intro x hx hxe
            subst hxe
            have := List.contains_iff_mem.mpr hx
            rw [hc] at this; cases this
          rw [hall] at hloc; simp at hloc
      rw [hdef] at hrest
      have hseen0 : d0.name ∈ (if (some df0).isSome && !seen.contains d0.name then d0.name :: seen else seen) := by
        cases hc : seen.contains d0.name with
        | true => simpa using List.contains_iff_mem.mp hc
        | false => simp
      have ihr := ih _ hrest
      have hsub : ∀ n, n ∈ seen → n ∈ (if (some df0).isSome && !seen.contains d0.name then d0.name :: seen else seen) := by
        intro n hn
        cases hc : seen.contains d0.name <;> simp [hn]
      rcases List.mem_cons.mp hd with rfl | hdr
      · refine ⟨df0, hdef, hloc', hargs, ?_⟩
        cases hr : df0.repeatable with
        | true => left; rfl
        | false =>
          right
          have hns : d.name ∉ seen := by
            intro hin
            have := List.contains_iff_mem.mpr hin
            rw [this, hr] at hrep; simp at hrep
          refine ⟨hns, ?_⟩
          have hnone : rest.filter (·.name == d.name) = [] := by
            rw [List.filter_eq_nil_iff]
            intro d' hd' hname
            have hname' : d'.name = d.name := by simpa using hname
            obtain ⟨df', hdf', _, _, hor⟩ := ihr d' hd'
            rw [hname', hdef] at hdf'
            cases hdf'
            rcases hor with hrr | ⟨hnot, _⟩
            · rw [hr] at hrr; cases hrr
            · exact hnot (by rw [hname']; exact hseen0)
          simp [List.filter, hnone]
      · obtain ⟨df, hdf, hl, ha, hor⟩ := ihr d hdr
        refine ⟨df, hdf, hl, ha, ?_⟩
        rcases hor with hrr | ⟨hnot, hcount⟩
        · left; exact hrr
        · right
          refine ⟨fun hin => hnot (hsub _ hin), ?_⟩
          have hne : (d0.name == d.name) = false := by
            cases hb : d0.name == d.name with
            | false => rfl
            | true =>
              exfalso
              have : d0.name = d.name := by simpa using hb
              exact hnot (by rw [← this]; exact hseen0)
          simp only [List.filter, hne]
          exact hcount

/-! ### the implemented interfaces of the spec against the model's loop -/

theorem implementedIfaces_facts {T : TsDoc} (hu : uniqueTypeNames T = true) (h : checkSchema T = [])
    {t : TypeDef} (ht : t ∈ ValidTs.typeDefs T) :
    ∀ idef ∈ implementedIfaces ⟨T⟩ t, isObjOrIface t = true ∧ idef ∈ ValidTs.typeDefs T ∧
      idef.kind = .interface ∧ checkValidImpl ⟨T⟩ t.namePos t.fields t.implements idef = [] := by
  intro idef hmem
  simp only [implementedIfaces, List.mem_filterMap] at hmem
  obtain ⟨i, hi, hsome⟩ := hmem
  have hobj : isObjOrIface t = true := by
    unfold implementsOfT at hi
    cases hk : isObjOrIface t with
    | true => rfl
    | false => rw [hk] at hi; simp at hi
  obtain ⟨_, idef', hl, hk', hv⟩ := implementsOfT_facts h ht i hi
  rw [lastTypeDef_eq_typeDef hu] at hl
  rw [hl] at hsome
  dsimp only at hsome
  have hkb : (idef'.kind == TypeKind.interface) = true := by simp [hk']
  simp only [hkb, if_true, Option.some.injEq] at hsome
  subst hsome
  exact ⟨hobj, (typeDef_mem hl).1, hk', hv⟩

theorem implementsOk_of_accepted {T : TsDoc} (hu : uniqueTypeNames T = true) (h : checkSchema T = []) :
    ImplementsOk ⟨T⟩ := by
  intro tn td htd hkind i hi
  obtain ⟨hmem, _⟩ := typeDef_mem htd
  have hi' : i ∈ implementsOfT td := by
    unfold implementsOfT isObjOrIface
    rcases hkind with hk | hk <;> simp [hk, hi]
  obtain ⟨_, idef, hl, hk, _⟩ := implementsOfT_facts h hmem i hi'
  rw [lastTypeDef_eq_typeDef hu] at hl
  exact ⟨idef, hl, hk⟩

end NitroVerif.CheckTs
