/-
C15: the schema declaration printer model (`Model/SchemaDecls.lean`) on the two routes.  On the SDL route it prints the
resolved document `M` followed by the built-ins; on the JSON route it prints `type_system_to_ast` of the schema value
read from the introspection result (`schemaToAst (jsonSide M)`).  Every definition of the SDL document has a twin in
the JSON document (`twin`), printed alike in every namespace; the JSON document has, beyond the twins, only `__*`
definitions.
-/
import NitroVerif.Lemmas.RoutesOpTypesConcrete
import NitroVerif.Model.SchemaDecls
namespace NitroVerif.Bridge
open NitroVerif NitroVerif.Gql NitroVerif.SchemaIR NitroVerif.AstSchema NitroVerif.SchemaDecls NitroVerif.DeclCfg
open NitroVerif.IntrospectSpec NitroVerif.Routes NitroVerif.CliSchema

/-- the document the schema declaration printer is given on the SDL route -/
def docSdl (M : TsDoc) : TsDoc := M ++ builtins
/-- … and on the JSON route (`type_system_to_ast`) -/
def docJson (M : TsDoc) : TsDoc := schemaToAst (jsonSide M)

/-- the JSON route's copy of a definition of the SDL document -/
def twin (td : TypeDef) : TypeDef := unconvTypeDef (convTypeDef td)

/-! ### the definitions of the two documents -/

theorem typeDefsOf_eq (doc : TsDoc) : typeDefsOf doc = (Gql.Schema.mk doc).typeDefs := by
  induction doc with
  | nil => rfl
  | cons item rest ih => cases item <;> simp_all [typeDefsOf, Gql.Schema.typeDefs]

theorem typeDefsOf_docJson (M : TsDoc) : typeDefsOf (docJson M) = (jsonSide M).types.map unconvTypeDef := by
  rw [typeDefsOf_eq]
  unfold docJson schemaToAst
  rw [← List.singleton_append, gql_typeDefs_append, gql_typeDefs_types]
  rfl

/-- user type names are not those of the built-in scalars (part of "`M` passed `check`") -/
def UserNotBuiltin (M : TsDoc) : Prop := ∀ t ∈ userTypes M, t.name ∉ builtinScalarNames

instance (M : TsDoc) : Decidable (UserNotBuiltin M) := by unfold UserNotBuiltin; infer_instance

theorem sdl_typeDefs_conv (M : TsDoc) : (typeDefsOf (docSdl M)).map convTypeDef = userTypes M ++ builtinScalarDefs := by
  rw [typeDefsOf_eq, docSdl, gql_typeDefs_eq, userTypes_append, userTypes_builtins]

theorem builtinScalarDefs_names : builtinScalarDefs.map (·.name) = builtinScalarNames := by decide

theorem builtin_find_none (n : String) (h : n ∉ builtinScalarNames) : builtinScalarDefs.find? (·.name == n) = none := by
  rw [List.find?_eq_none]
  intro t ht hn
  apply h
  rw [← builtinScalarDefs_names]
  exact List.mem_map.mpr ⟨t, ht, by simpa using hn⟩

theorem user_find_none (M : TsDoc) (hb : UserNotBuiltin M) (n : String) (h : n ∈ builtinScalarNames) :
    (userTypes M).find? (·.name == n) = none := by
  rw [List.find?_eq_none]
  intro t ht hn
  have : t.name = n := by simpa using hn
  exact hb t ht (this ▸ h)

/-- the lookup of the JSON route's schema value on the name of an SDL definition gives the definition's conversion -/
theorem jsonSide_typeDef?_of_sdl (M : TsDoc) (hn : ((userTypes M).map (·.name)).Nodup) (hb : UserNotBuiltin M)
    (t : ITypeDef) (ht : t ∈ userTypes M ++ builtinScalarDefs) (hi : isIntrospectionName t.name = false) :
    (jsonSide M).typeDef? t.name = some t := by
  rw [typeDef?_jsonSide M t.name hi]
  rcases List.mem_append.mp ht with h | h
  · rw [find?_of_mem_nodup hn h]; rfl
  · have hname : t.name ∈ builtinScalarNames := by
      rw [← builtinScalarDefs_names]; exact List.mem_map.mpr ⟨t, h, rfl⟩
    rw [user_find_none M hb _ hname, Option.none_or]
    exact find?_of_mem_nodup (by decide) h

theorem builtinScalarDefs_nonintro : ∀ t ∈ builtinScalarDefs, isIntrospectionName t.name = false := by decide

/-- every definition of the SDL document has its twin in the JSON document -/
theorem twin_mem (M : TsDoc) (hn : ((userTypes M).map (·.name)).Nodup) (hb : UserNotBuiltin M)
    (hi : ∀ t ∈ userTypes M, isIntrospectionName t.name = false) (td : TypeDef) (h : td ∈ typeDefsOf (docSdl M)) :
    twin td ∈ typeDefsOf (docJson M) := by
  rw [typeDefsOf_docJson]
  refine List.mem_map.mpr ⟨convTypeDef td, ?_, rfl⟩
  have hm : convTypeDef td ∈ userTypes M ++ builtinScalarDefs := by
    rw [← sdl_typeDefs_conv]; exact List.mem_map.mpr ⟨td, h, rfl⟩
  have hni : isIntrospectionName (convTypeDef td).name = false := by
    rcases List.mem_append.mp hm with h' | h'
    · exact hi _ h'
    · exact builtinScalarDefs_nonintro _ h'
  exact List.mem_of_find?_eq_some (jsonSide_typeDef?_of_sdl M hn hb _ hm hni)

/-- … and the JSON document has nothing else except `__*` definitions -/
theorem twin_surj (M : TsDoc) (td' : TypeDef) (h : td' ∈ typeDefsOf (docJson M))
    (hi : isIntrospectionName td'.name = false) : ∃ td ∈ typeDefsOf (docSdl M), td' = twin td := by
  rw [typeDefsOf_docJson] at h
  obtain ⟨t, ht, rfl⟩ := List.mem_map.mp h
  rw [unconvTypeDef_name] at hi
  have hm : t ∈ userTypes M ++ builtinScalarDefs := by
    rw [jsonSide_types] at ht
    rcases mem_extendTypes _ _ t ht with h' | h'
    · rcases mem_extendTypes _ _ t h' with h'' | h''
      · cases h''
      · rcases List.mem_append.mp h'' with h3 | h3
        · exact List.mem_append_left _ h3
        · -- a referenced built-in scalar or a `__*` type
          simp only [specExtra, List.mem_append] at h3
          rcases h3 with h4 | h4
          · simp only [referencedBuiltins, List.map_map, List.mem_map, List.mem_filter, Function.comp_def] at h4
            obtain ⟨b, ⟨hbm, _⟩, rfl⟩ := h4
            refine List.mem_append_right _ ?_
            simp only [builtinScalarDefs, List.mem_map]
            exact ⟨b, hbm, rfl⟩
          · have := (intro_facts t h4).1
            rw [hi] at this
            cases this
    · exact List.mem_append_right _ h'
  rw [← sdl_typeDefs_conv] at hm
  obtain ⟨td, htd, rfl⟩ := List.mem_map.mp hm
  exact ⟨td, htd, rfl⟩

/-! ### scalar types and the bag of identifiers -/

/-- the TypeScript configuration of a scalar definition as `get_scalar_types` computes it -/
def entry (c : Cfg) (t : TypeDef) : Option ScalarCfg := (c.optionScalar? t.name).orElse (fun _ => directiveScalar? t)

theorem scalarTypes_eq (c : Cfg) (doc : TsDoc) :
    scalarTypes c doc = (typeDefsOf doc).filterMap fun t =>
      if t.kind == .scalar then (match entry c t with | some s => some (t.name, s) | none => none) else none := by
  unfold scalarTypes typeDefsOf
  rw [List.filterMap_filterMap]
  congr 1
  funext x
  cases x <;> rfl

/-- no scalar definition relies on `@nitrogql_ts_type` alone (the directive does not survive introspection) -/
def ScalarsConfigured (c : Cfg) (M : TsDoc) : Prop :=
  ∀ td ∈ typeDefsOf (docSdl M), directiveScalar? td = none ∨ (c.optionScalar? td.name).isSome = true

instance (c : Cfg) (M : TsDoc) : Decidable (ScalarsConfigured c M) := by unfold ScalarsConfigured; infer_instance

theorem entry_of_configured {c : Cfg} {td : TypeDef}
    (h : directiveScalar? td = none ∨ (c.optionScalar? td.name).isSome = true) : entry c td = c.optionScalar? td.name := by
  unfold entry
  rcases h with h | h
  · rw [h]; cases c.optionScalar? td.name <;> rfl
  · cases hc : c.optionScalar? td.name with
    | none => simp [hc] at h
    | some s => rfl

theorem twin_dirs (td : TypeDef) : (twin td).dirs = [] := by
  unfold twin
  cases h : td.kind <;> simp [convTypeDef, unconvTypeDef, h]

theorem twin_name (td : TypeDef) : (twin td).name = td.name := by
  rw [twin, unconvTypeDef_name, convTypeDef_name]

theorem twin_kind (td : TypeDef) : (twin td).kind = td.kind := by
  unfold twin
  cases h : td.kind <;> simp [convTypeDef, unconvTypeDef, h, unconvKind]

theorem twin_desc (td : TypeDef) : (twin td).desc = td.desc := by
  unfold twin
  cases h : td.kind <;> simp [convTypeDef, unconvTypeDef, h]

theorem entry_twin (c : Cfg) (td : TypeDef) : entry c (twin td) = c.optionScalar? td.name := by
  unfold entry directiveScalar?
  rw [twin_dirs, twin_name]
  cases c.optionScalar? td.name <;> rfl

/-- the scalar configuration the printer finds for a name: decided by "is there a scalar definition of that name with
    a configuration" -/
theorem find_scalar_aux (c : Cfg) (E : Name → Option ScalarCfg) (n : Name) : ∀ (l : List TypeDef),
    (∀ t ∈ l, t.kind = .scalar → entry c t = E t.name) →
    ((l.filterMap fun t =>
        if t.kind == .scalar then (match entry c t with | some s => some (t.name, s) | none => none) else none).find?
      (·.1 == n)).map (·.2)
      = if l.any (fun t => t.kind == .scalar && t.name == n) then E n else none
  | [], _ => rfl
  | t :: r, hE => by
    have ih' := find_scalar_aux c E n r (fun x hx => hE x (by simp [hx]))
    simp only [List.filterMap_cons, List.any_cons]
    by_cases hk : t.kind = .scalar
    · have hE' := hE t (by simp) hk
      have hkb : (t.kind == TypeKind.scalar) = true := by rw [typeKind_beq]; simp [hk]
      simp only [hkb, if_true, Bool.true_and, hE']
      by_cases hn : t.name = n
      · subst hn
        cases hs : E t.name with
        | none =>
          simp only [beq_self_eq_true, Bool.true_or, if_true]
          rw [ih']
          split <;> simp_all
        | some s => simp
      · have hne : (t.name == n) = false := by simpa using hn
        cases hs : E t.name with
        | none => simp only [hne, Bool.false_or]; exact ih'
        | some s => simp only [List.find?_cons, hne, Bool.false_or]; exact ih'
    · have hk' : (t.kind == TypeKind.scalar) = false := by rw [typeKind_beq]; simpa using hk
      simp only [hk', Bool.false_eq_true, if_false, Bool.false_and, Bool.false_or]
      exact ih'

theorem find_scalarTypes (c : Cfg) (doc : TsDoc) (E : Name → Option ScalarCfg)
    (hE : ∀ t ∈ typeDefsOf doc, t.kind = .scalar → entry c t = E t.name) (n : Name) :
    ((scalarTypes c doc).find? (·.1 == n)).map (·.2)
      = if (typeDefsOf doc).any (fun t => t.kind == .scalar && t.name == n) then E n else none := by
  rw [scalarTypes_eq]
  exact find_scalar_aux c E n _ hE

/-- members of the bag: the identifiers of the configurations of the scalar definitions -/
theorem mem_bag (c : Cfg) (doc : TsDoc) (E : Name → Option ScalarCfg)
    (hE : ∀ t ∈ typeDefsOf doc, t.kind = .scalar → entry c t = E t.name) (id : String) :
    id ∈ bag (scalarTypes c doc) ↔
      ∃ t ∈ typeDefsOf doc, t.kind = .scalar ∧ ∃ s, E t.name = some s ∧ id ∈ s.typeNames.flatMap identifiers := by
  rw [scalarTypes_eq]
  simp only [bag, List.mem_flatMap, List.mem_filterMap]
  constructor
  · rintro ⟨⟨n, s⟩, ⟨t, ht, hts⟩, hid⟩
    by_cases hk : t.kind = .scalar
    · have hkb : (t.kind == TypeKind.scalar) = true := by rw [typeKind_beq]; simp [hk]
      simp only [hkb, if_true, hE t ht hk] at hts
      cases hs : E t.name with
      | none => simp [hs] at hts
      | some s' =>
        simp only [hs, Option.some.injEq, Prod.mk.injEq] at hts
        obtain ⟨_, rfl⟩ := hts
        exact ⟨t, ht, hk, s', hs, hid⟩
    · have hk' : (t.kind == TypeKind.scalar) = false := by rw [typeKind_beq]; simpa using hk
      simp [hk'] at hts
  · rintro ⟨t, ht, hk, s, hs, hid⟩
    refine ⟨(t.name, s), ⟨t, ht, ?_⟩, hid⟩
    have hkb : (t.kind == TypeKind.scalar) = true := by rw [typeKind_beq]; simp [hk]
    simp only [hkb, if_true, hE t ht hk, hs]

/-! ### the two documents define the same scalars -/

theorem unconvTypeDef_dirs (t : ITypeDef) : (unconvTypeDef t).dirs = [] := by
  cases t with | mk kind name desc fields interfaces possible members inputs =>
  cases kind <;> rfl

theorem unconvTypeDef_kind (t : ITypeDef) : (unconvTypeDef t).kind = unconvKind t.kind := by
  cases t with | mk kind name desc fields interfaces possible members inputs =>
  cases kind <;> rfl

theorem jsonSide_mem_cases (M : TsDoc) (t : ITypeDef) (ht : t ∈ (jsonSide M).types) :
    t ∈ userTypes M ∨ t ∈ builtinScalarDefs ∨ t ∈ introspectionTypes.map cleanType := by
  rw [jsonSide_types] at ht
  rcases mem_extendTypes _ _ t ht with h' | h'
  · rcases mem_extendTypes _ _ t h' with h'' | h''
    · cases h''
    · rcases List.mem_append.mp h'' with h3 | h3
      · exact Or.inl h3
      · simp only [specExtra, List.mem_append] at h3
        rcases h3 with h4 | h4
        · simp only [referencedBuiltins, List.map_map, List.mem_map, List.mem_filter, Function.comp_def] at h4
          obtain ⟨b, ⟨hbm, _⟩, rfl⟩ := h4
          refine Or.inr (Or.inl ?_)
          simp only [builtinScalarDefs, List.mem_map]
          exact ⟨b, hbm, rfl⟩
        · exact Or.inr (Or.inr h4)
  · exact Or.inr (Or.inl h')

theorem intro_not_scalar : ∀ t ∈ introspectionTypes.map cleanType, t.kind ≠ .scalar := by decide

/-- what `ValidParsed` + `UserNotBuiltin` + `ScalarsConfigured` give the declaration printer -/
structure DeclsOk (c : Cfg) (M : TsDoc) : Prop where
  valid : ValidParsed M
  notBuiltin : UserNotBuiltin M
  scalars : ScalarsConfigured c M

theorem user_nonintro (M : TsDoc) (h : ValidParsed M) : ∀ t ∈ userTypes M, isIntrospectionName t.name = false := by
  intro t ht
  have hC := closed_of_closedB h.closed
  simp only [userTypes, List.mem_filterMap] at ht
  obtain ⟨item, hitem, hconv⟩ := ht
  cases item <;> simp at hconv
  rename_i td
  subst hconv
  rw [convTypeDef_name]
  have hmem : td ∈ (sdlView M).typeDefs := by
    simp only [sdlView, Gql.Schema.typeDefs, List.mem_filterMap]
    exact ⟨.typeDef td, by simp [hitem], rfl⟩
  have hs : ((sdlView M).typeDef? td.name).isSome = true := by
    simp only [Gql.Schema.typeDef?, List.find?_isSome]
    exact ⟨td, hmem, by simp⟩
  obtain ⟨td₀, h0⟩ := Option.isSome_iff_exists.mp hs
  exact hC.typeNames _ _ h0

theorem scalar_names_agree {c : Cfg} {M : TsDoc} (h : DeclsOk c M) (n : Name) :
    (typeDefsOf (docSdl M)).any (fun t => t.kind == .scalar && t.name == n)
      = (typeDefsOf (docJson M)).any (fun t => t.kind == .scalar && t.name == n) := by
  have hi := user_nonintro M h.valid
  rw [Bool.eq_iff_iff, List.any_eq_true, List.any_eq_true]
  constructor
  · rintro ⟨td, htd, hp⟩
    refine ⟨twin td, twin_mem M h.valid.resolved.typeNames h.notBuiltin hi td htd, ?_⟩
    rw [twin_kind, twin_name]; exact hp
  · rintro ⟨td', htd', hp⟩
    simp only [Bool.and_eq_true, typeKind_beq, decide_eq_true_eq, beq_iff_eq] at hp
    have hni : isIntrospectionName td'.name = false := by
      rw [typeDefsOf_docJson] at htd'
      obtain ⟨t, ht, rfl⟩ := List.mem_map.mp htd'
      rw [unconvTypeDef_name]
      rcases jsonSide_mem_cases M t ht with h1 | h1 | h1
      · exact hi t h1
      · exact builtinScalarDefs_nonintro t h1
      · have hk := hp.1
        rw [unconvTypeDef_kind] at hk
        have := intro_not_scalar t h1
        cases hkk : t.kind <;> simp_all [unconvKind]
    obtain ⟨td, htd, rfl⟩ := twin_surj M td' htd' hni
    refine ⟨td, htd, ?_⟩
    rw [twin_kind, twin_name] at hp
    simp only [Bool.and_eq_true, typeKind_beq, decide_eq_true_eq, beq_iff_eq]
    exact hp

theorem entry_sdl {c : Cfg} {M : TsDoc} (h : DeclsOk c M) :
    ∀ t ∈ typeDefsOf (docSdl M), t.kind = .scalar → entry c t = c.optionScalar? t.name :=
  fun t ht _ => entry_of_configured (h.scalars t ht)

theorem entry_json (c : Cfg) (M : TsDoc) :
    ∀ t ∈ typeDefsOf (docJson M), t.kind = .scalar → entry c t = c.optionScalar? t.name := by
  intro t ht _
  rw [typeDefsOf_docJson] at ht
  obtain ⟨u, _, rfl⟩ := List.mem_map.mp ht
  unfold entry directiveScalar?
  rw [unconvTypeDef_dirs]
  cases c.optionScalar? (unconvTypeDef u).name <;> rfl

/-- the scalar configuration found for a name -/
theorem scalar_find_agree {c : Cfg} {M : TsDoc} (h : DeclsOk c M) (n : Name) :
    ((scalarTypes c (docSdl M)).find? (·.1 == n)).map (·.2) = ((scalarTypes c (docJson M)).find? (·.1 == n)).map (·.2) := by
  rw [find_scalarTypes c _ _ (entry_sdl h), find_scalarTypes c _ _ (entry_json c M), scalar_names_agree h]

/-- the bags of identifiers have the same members -/
theorem bag_agree {c : Cfg} {M : TsDoc} (h : DeclsOk c M) (id : String) :
    (bag (scalarTypes c (docSdl M))).contains id = (bag (scalarTypes c (docJson M))).contains id := by
  rw [Bool.eq_iff_iff, List.contains_iff_mem, List.contains_iff_mem, mem_bag c _ _ (entry_sdl h),
    mem_bag c _ _ (entry_json c M)]
  have key : ∀ doc : TsDoc, (∃ t ∈ typeDefsOf doc, t.kind = .scalar ∧ ∃ s, c.optionScalar? t.name = some s ∧
        id ∈ s.typeNames.flatMap identifiers) ↔
      ∃ n, (typeDefsOf doc).any (fun t => t.kind == .scalar && t.name == n) = true ∧
        ∃ s, c.optionScalar? n = some s ∧ id ∈ s.typeNames.flatMap identifiers := by
    intro doc
    constructor
    · rintro ⟨t, ht, hk, s, hs, hid⟩
      refine ⟨t.name, List.any_eq_true.mpr ⟨t, ht, ?_⟩, s, hs, hid⟩
      simp [typeKind_beq, hk]
    · rintro ⟨n, hany, s, hs, hid⟩
      obtain ⟨t, ht, hp⟩ := List.any_eq_true.mp hany
      simp only [Bool.and_eq_true, typeKind_beq, decide_eq_true_eq, beq_iff_eq] at hp
      exact ⟨t, ht, hp.1, s, hp.2 ▸ hs, hid⟩
  rw [key, key]
  simp only [scalar_names_agree h]

theorem ctx_local (c : Cfg) (doc : TsDoc) (t : Target) (n : Name) :
    (Ctx.new c doc t).local n = localName (bag (scalarTypes c doc)) n := rfl
theorem ctx_scalarTypes (c : Cfg) (doc : TsDoc) (t : Target) : (Ctx.new c doc t).scalarTypes = scalarTypes c doc := rfl
theorem ctx_cfg (c : Cfg) (doc : TsDoc) (t : Target) : (Ctx.new c doc t).cfg = c := rfl
theorem ctx_target (c : Cfg) (doc : TsDoc) (t : Target) : (Ctx.new c doc t).target = t := rfl

theorem local_agree {c : Cfg} {M : TsDoc} (h : DeclsOk c M) (t₁ t₂ : Target) (n : Name) :
    (Ctx.new c (docSdl M) t₁).local n = (Ctx.new c (docJson M) t₂).local n := by
  rw [ctx_local, ctx_local]
  unfold localName
  rw [bag_agree h n]

theorem leaf_agree {c : Cfg} {M : TsDoc} (h : DeclsOk c M) (t₁ t₂ : Target) :
    (Ctx.new c (docSdl M) t₁).leaf = (Ctx.new c (docJson M) t₂).leaf := by
  funext n
  simp only [Ctx.leaf, local_agree h t₁ t₂]

/-! ### the body of a definition and of its twin -/

theorem isNonNull_roundtrip (t : GType) : (unconvType (convType t)).isNonNull = t.isNonNull := by
  cases t <;> rfl

theorem tsCore_roundtrip (leaf : Name → Ts.Ty) (ro : Bool) : ∀ t : GType,
    tsCore leaf ro (unconvType (convType t)) = tsCore leaf ro t
  | .named n p => rfl
  | .list t p => by
    simp only [convType, unconvType, tsCore, isNonNull_roundtrip, tsCore_roundtrip leaf ro t]
  | .nonNull t => by
    simp only [convType, unconvType, tsCore, tsCore_roundtrip leaf ro t]

theorem tsOf_roundtrip (leaf : Name → Ts.Ty) (ro : Bool) (t : GType) :
    tsOf leaf ro (unconvType (convType t)) = tsOf leaf ro t := by
  simp only [tsOf, isNonNull_roundtrip, tsCore_roundtrip]

theorem objectBodyL_twin (leaf : Name → Ts.Ty) (td : TypeDef) (hk : td.kind = .object) :
    objectBodyL leaf (twin td) = objectBodyL leaf td := by
  simp only [objectBodyL, twin, convTypeDef, unconvTypeDef, hk, List.map_map, Function.comp_def, unconvField, convField,
    tsOf_roundtrip]

theorem unionBody_twin (td : TypeDef) (hk : td.kind = .union) : (twin td).members.map (·.1) = td.members.map (·.1) := by
  simp only [twin, convTypeDef, unconvTypeDef, hk, List.map_map, Function.comp_def]

theorem enumBody_twin (td : TypeDef) (hk : td.kind = .enum) : (twin td).values.map (·.name) = td.values.map (·.name) := by
  simp only [twin, convTypeDef, unconvTypeDef, hk, List.map_map, Function.comp_def, unconvMember, convMember]

theorem inputBodyL_twin (leaf : Name → Ts.Ty) (opt : Bool) (td : TypeDef) (hk : td.kind = .input) :
    inputBodyL leaf opt (twin td) = inputBodyL leaf opt td := by
  simp only [inputBodyL, twin, convTypeDef, unconvTypeDef, hk, List.map_map]
  congr 1
  apply List.map_congr_left
  intro f _
  simp only [Function.comp, inputFieldL, unconvIV, convIV, isNonNull_roundtrip, optFieldTy, tsOf_roundtrip,
    tsCore_roundtrip]

theorem map_name_factor {α β : Type} (name : α → Name) (g : Name → β) (vs : List α) :
    vs.map (fun v => g (name v)) = (vs.map name).map g := by
  simp [List.map_map, Function.comp_def]

theorem any_beq_contains (l : List String) (i : String) : l.any (fun x => x == i) = l.contains i := by
  induction l with
  | nil => rfl
  | cons a r ih =>
    simp only [List.any_cons, List.contains_cons, ih]
    congr 1
    exact beq_comm_str _ _

/-! ### `objectImplementers` of the two documents -/

theorem implQ_unconv (i : Name) (t : ITypeDef) :
    ((unconvTypeDef t).kind == .object && (unconvTypeDef t).implements.any (·.1 == i)) = implP i t := by
  cases t with | mk kind name desc fields interfaces possible members inputs =>
  cases kind
  case object =>
    show ((TypeKind.object == TypeKind.object) && (interfaces.map (·, bpos)).any (·.1 == i))
      = (IKind.object == IKind.object && interfaces.contains i)
    rw [List.any_map]
    simp only [Function.comp_def]
    rw [any_beq_contains]
    rfl
  all_goals simp [unconvTypeDef, unconvKind, implP, typeKind_beq]

theorem objectImplementers_docJson (M : TsDoc) (i : Name) :
    (Gql.Schema.mk (docJson M)).objectImplementers i = ((jsonSide M).types.filter (implP i)).map (·.name) := by
  unfold Gql.Schema.objectImplementers
  rw [← typeDefsOf_eq, typeDefsOf_docJson, List.filter_map, List.map_map]
  simp only [Function.comp_def, implQ_unconv, unconvTypeDef_name]

theorem implQ_conv (i : Name) (o : TypeDef) :
    (o.kind == .object && o.implements.any (·.1 == i)) = implP i (convTypeDef o) := by
  cases h : o.kind <;> simp [implP, convTypeDef, h, any_fst_eq, typeKind_beq]

theorem objectImplementers_docSdl (M : TsDoc) (i : Name) :
    (Gql.Schema.mk (docSdl M)).objectImplementers i = ((userTypes M).filter (implP i)).map (·.name) := by
  unfold Gql.Schema.objectImplementers
  have h1 : ((Gql.Schema.mk (docSdl M)).typeDefs.filter fun t => t.kind == .object && t.implements.any (·.1 == i)).map (·.name)
      = (((Gql.Schema.mk (docSdl M)).typeDefs.map convTypeDef).filter (implP i)).map (·.name) := by
    rw [List.filter_map, List.map_map]
    simp only [Function.comp_def, implQ_conv, convTypeDef_name]
  rw [h1, ← typeDefsOf_eq, sdl_typeDefs_conv, List.filter_append]
  have : builtinScalarDefs.filter (implP i) = [] := by
    rw [List.filter_eq_nil_iff]
    intro t ht
    simp [implP_builtinScalarDefs i t ht]
  rw [this, List.append_nil]

theorem objectImplementers_docs (M : TsDoc) (hn : ((userTypes M).map (·.name)).Nodup) (i : Name) :
    (Gql.Schema.mk (docSdl M)).objectImplementers i = (Gql.Schema.mk (docJson M)).objectImplementers i := by
  rw [objectImplementers_docSdl, objectImplementers_docJson]
  have hJ : (jsonSide M).types.filter (implP i) = (userTypes M).filter (implP i) := by
    rw [jsonSide_types, filter_extendTypes _ _ _ (implP_builtinScalarDefs i), extendTypes_append,
      filter_extendTypes _ _ _ (implP_specExtra M i), extendTypes_nil_nodup _ hn]
  rw [hJ]

/-! ### the statements of a definition -/

theorem body_scalar_eq {x y : Ctx} (td : TypeDef) (hc : x.cfg = y.cfg) (ht : x.target = y.target)
    (h : (x.scalarTypes.find? (·.1 == td.name)).map (·.2) = (y.scalarTypes.find? (·.1 == td.name)).map (·.2)) :
    (match x.scalarTypes.find? (·.1 == td.name) with
      | some (_, sc) => (.ok (some (x.cfg.parseOf (sc.getType x.target))) : Except String (Option Ts.Ty))
      | none => .error td.name)
    = (match y.scalarTypes.find? (·.1 == td.name) with
      | some (_, sc) => .ok (some (y.cfg.parseOf (sc.getType y.target)))
      | none => .error td.name) := by
  rw [hc, ht]
  cases hx : x.scalarTypes.find? (·.1 == td.name) <;> cases hy : y.scalarTypes.find? (·.1 == td.name) <;>
    simp_all

theorem ctx_schema (c : Cfg) (doc : TsDoc) (t : Target) : (Ctx.new c doc t).schema = ⟨doc⟩ := rfl

theorem interfaceBody_routes {c : Cfg} {M : TsDoc} (h : DeclsOk c M) (t : Target) (td : TypeDef) :
    interfaceBody (Ctx.new c (docSdl M) t) td = interfaceBody (Ctx.new c (docJson M) t) (twin td) := by
  unfold interfaceBody
  rw [leaf_agree h t t, twin_name, ctx_schema, ctx_schema,
    objectImplementers_docs M h.valid.resolved.typeNames td.name]

/-- **a definition and its twin are printed alike** in every namespace -/
theorem body_routes {c : Cfg} {M : TsDoc} (h : DeclsOk c M) (t : Target) (td : TypeDef) :
    body (Ctx.new c (docSdl M) t) td = body (Ctx.new c (docJson M) t) (twin td) := by
  have hleaf := leaf_agree h t t
  unfold body
  rw [twin_kind]
  cases hk : td.kind <;> simp only
  · -- scalar
    rw [twin_name]
    have hfind := scalar_find_agree h td.name
    simp only [ctx_scalarTypes, ctx_cfg, ctx_target]
    cases hx : (scalarTypes c (docSdl M)).find? (·.1 == td.name) <;>
      cases hy : (scalarTypes c (docJson M)).find? (·.1 == td.name) <;> simp_all
  · -- object
    simp only [objectBody, hleaf, objectBodyL_twin _ td hk]; rfl
  · -- interface
    rw [interfaceBody_routes h t td]; rfl
  · -- union
    simp only [unionBody, hleaf, unionBody_twin td hk]; rfl
  · -- enum
    simp only [enumBody]
    rw [map_name_factor EnumValueDef.name Ts.Ty.strLit td.values,
      map_name_factor EnumValueDef.name Ts.Ty.strLit (twin td).values, enumBody_twin td hk]
  · -- input
    simp only [inputBody, hleaf]
    rw [inputBodyL_twin _ _ td hk]; rfl

theorem printType_routes {c : Cfg} {M : TsDoc} (h : DeclsOk c M) (t : Target) (td : TypeDef) :
    printType (Ctx.new c (docSdl M) t) td = printType (Ctx.new c (docJson M) t) (twin td) := by
  unfold printType
  rw [body_routes h t td, twin_desc, twin_name, local_agree h t t]

/-- the body of a namespace, over any list of definitions of the SDL document and the list of their twins -/
theorem namespaceBody_routes {c : Cfg} {M : TsDoc} (h : DeclsOk c M) (t : Target) : ∀ (l : List TypeDef),
    namespaceBody (Ctx.new c (docSdl M) t) l = namespaceBody (Ctx.new c (docJson M) t) (l.map twin)
  | [] => rfl
  | td :: r => by
    simp only [List.map_cons, namespaceBody, printType_routes h t td, namespaceBody_routes h t r]

theorem representative_routes {c : Cfg} {M : TsDoc} (h : DeclsOk c M) (td : TypeDef) :
    representative (Ctx.new c (docSdl M) .operationOutput) td
      = representative (Ctx.new c (docJson M) .operationOutput) (twin td) := by
  unfold representative
  rw [twin_kind, twin_name, local_agree h .operationOutput .operationOutput]
  by_cases hk : td.kind = .enum
  · rw [map_name_factor EnumValueDef.name (fun n => (n, _)) (twin td).values,
      map_name_factor EnumValueDef.name (fun n => (n, _)) td.values, enumBody_twin td hk]
    rfl
  · have hb : (td.kind == TypeKind.enum) = false := by rw [typeKind_beq]; simpa using hk
    simp only [hb, Bool.false_and, Bool.false_eq_true, if_false]

/-! ### the file is produced on one route iff it is produced on the other -/

/-- the computation succeeded -/
def okB {ε α : Type} : Except ε α → Bool
  | .ok _ => true
  | .error _ => false

theorem printType_okB (x : Ctx) (td : TypeDef) : okB (printType x td) = okB (body x td) := by
  unfold printType
  cases body x td with
  | error e => rfl
  | ok o => cases o <;> rfl

theorem body_okB_of_not_scalar (x : Ctx) (td : TypeDef) (h : td.kind ≠ .scalar) : okB (body x td) = true := by
  unfold body
  cases hk : td.kind <;> first | exact absurd hk h | rfl

theorem namespaceBody_okB (x : Ctx) : ∀ (l : List TypeDef), okB (namespaceBody x l) = l.all (fun td => okB (printType x td))
  | [] => rfl
  | td :: r => by
    simp only [namespaceBody, List.all_cons]
    cases hp : printType x td with
    | error e => rfl
    | ok ss =>
      rw [← namespaceBody_okB x r]
      cases namespaceBody x r <;> rfl

theorem namespaces_okB (c : Cfg) (doc : TsDoc) : ∀ (ts : List Target),
    okB (namespaces c doc ts) = ts.all (fun t => okB (namespaceBody (Ctx.new c doc t) (typeDefsOf doc)))
  | [] => rfl
  | t :: r => by
    simp only [namespaces, List.all_cons]
    cases hp : namespaceBody (Ctx.new c doc t) (typeDefsOf doc) with
    | error e => rfl
    | ok ss =>
      rw [← namespaces_okB c doc r]
      cases namespaces c doc r <;> rfl

theorem schemaFile_okB (c : Cfg) (doc : TsDoc) :
    okB (schemaFile c doc) = Target.all.all (fun t => (typeDefsOf doc).all fun td => okB (printType (Ctx.new c doc t) td)) := by
  unfold schemaFile
  have := namespaces_okB c doc Target.all
  simp only [namespaceBody_okB] at this
  rw [← this]
  cases namespaces c doc Target.all <;> rfl

theorem docJson_intro_not_scalar (M : TsDoc) (h : ValidParsed M) (td' : TypeDef) (hm : td' ∈ typeDefsOf (docJson M))
    (hi : isIntrospectionName td'.name = true) : td'.kind ≠ .scalar := by
  rw [typeDefsOf_docJson] at hm
  obtain ⟨t, ht, rfl⟩ := List.mem_map.mp hm
  rw [unconvTypeDef_name] at hi
  rw [unconvTypeDef_kind]
  rcases jsonSide_mem_cases M t ht with h1 | h1 | h1
  · rw [user_nonintro M h t h1] at hi; cases hi
  · rw [builtinScalarDefs_nonintro t h1] at hi; cases hi
  · have := intro_not_scalar t h1
    cases hk : t.kind <;> simp_all [unconvKind]

/-- the schema declaration file is produced on the SDL route iff it is produced on the JSON route -/
theorem schemaFile_ok_routes {c : Cfg} {M : TsDoc} (h : DeclsOk c M) :
    okB (schemaFile c (docSdl M)) = okB (schemaFile c (docJson M)) := by
  rw [schemaFile_okB, schemaFile_okB]
  apply List.all_congr rfl
  intro t
  rw [Bool.eq_iff_iff, List.all_eq_true, List.all_eq_true]
  constructor
  · intro hS td' hm
    by_cases hi : isIntrospectionName td'.name = false
    · obtain ⟨td, htd, rfl⟩ := twin_surj M td' hm hi
      rw [← printType_routes h t td]
      exact hS td htd
    · rw [printType_okB]
      exact body_okB_of_not_scalar _ _ (docJson_intro_not_scalar M h.valid td' hm (by simpa using hi))
  · intro hJ td hm
    rw [printType_routes h t td]
    exact hJ _ (twin_mem M h.valid.resolved.typeNames h.notBuiltin (user_nonintro M h.valid) td hm)

end NitroVerif.Bridge
