/-
The propositional reading of the C09 specification (`ExplicitP`, `CoerceP`, `CoercibleP`, previously in
`Props/C09.lean`) and its connection with the fuel-indexed executable specification `Spec/Coerce.lean`
(`explicitVars`, `coerceVal`, `coercibleVars`): same sets, for all inputs.
-/
import NitroVerif.Spec.Coerce
import NitroVerif.Lemmas.DeclsClosedRef
namespace NitroVerif.Coerce
open NitroVerif.Gql NitroVerif.Ts NitroVerif.DeclCfg NitroVerif.RefTypes

/-- the canonical explicit assignments for `vars` (omission of nullable variables iff `opt`), over leaf sets `R` -/
def ExplicitP (R : Name → J → Prop) (opt : Bool) (vars : List VarDef) (v : J) : Prop :=
  ∃ kvs, v = .obj kvs ∧
    RecordSpec (vars.map fun d => (d.name, !d.ty.isNonNull && opt, Conf R d.ty)) kvs

/-- spec input coercion of a PRESENT value (permissive: a bare item is accepted for a list), over leaf sets `RC` -/
def CoerceP (RC : Name → J → Prop) : GType → J → Prop
  | .named n _, v => v = .null ∨ RC n v
  | .list t _, v => v = .null ∨ (∃ xs, v = .arr xs ∧ ∀ x ∈ xs, CoerceP RC t x) ∨ ((∀ xs, v ≠ .arr xs) ∧ CoerceP RC t v)
  | .nonNull t, v => v ≠ .null ∧ CoerceP RC t v

/-- CoerceVariableValues succeeds on the record -/
def CoercibleP (RC : Name → J → Prop) (vars : List VarDef) (v : J) : Prop :=
  ∃ kvs, v = .obj kvs ∧ ∀ d ∈ vars,
    (J.get kvs d.name = .absent ∧ (d.default.isSome = true ∨ d.ty.isNonNull = false)) ∨
    (J.get kvs d.name ≠ .absent ∧ CoerceP RC d.ty (J.get kvs d.name))

/-- a canonical conforming present value is accepted by input coercion -/
theorem conf_coerceP (R RC : Name → J → Prop) (hsub : ∀ n v, R n v → RC n v) (hnull : ∀ n, ¬ R n .null) :
    ∀ (ty : GType) (v : J), Conf R ty v → CoerceP RC ty v := by
  have core : ∀ (ty : GType) (v : J), ConfCore R ty v → v ≠ .null ∧
      (ty.isNonNull = false → CoerceP RC ty v) ∧ (∀ t, ty = .nonNull t → CoerceP RC t v) := by
    intro ty
    induction ty with
    | named n p =>
      intro v h
      refine ⟨fun hv => hnull n (hv ▸ h), fun _ => Or.inr (hsub n v h), fun t ht => by cases ht⟩
    | list t p ih =>
      rintro v ⟨xs, rfl, hx⟩
      refine ⟨by simp, fun _ => Or.inr (Or.inl ⟨xs, rfl, ?_⟩), fun t' ht => by cases ht⟩
      intro x hxs
      rcases hx x hxs with ⟨hnn, rfl⟩ | hc
      · cases t with
        | named n p => exact Or.inl rfl
        | list t' p => exact Or.inl rfl
        | nonNull t' => simp [GType.isNonNull] at hnn
      · have := ih x hc
        cases t with
        | named n p => exact this.2.1 rfl
        | list t' p => exact this.2.1 rfl
        | nonNull t' => exact ⟨this.1, this.2.2 t' rfl⟩
    | nonNull t ih =>
      intro v h
      have := ih v h
      refine ⟨this.1, fun hnn => by simp [GType.isNonNull] at hnn, ?_⟩
      intro t' ht; cases ht
      cases t with
      | named n p => exact this.2.1 rfl
      | list t' p => exact this.2.1 rfl
      | nonNull t' => exact ⟨this.1, this.2.2 t' rfl⟩
  intro ty v h
  rcases h with ⟨hnn, rfl⟩ | hc
  · cases ty with
    | named n p => exact Or.inl rfl
    | list t p => exact Or.inl rfl
    | nonNull t => simp [GType.isNonNull] at hnn
  · have := core ty v hc
    cases ty with
    | named n p => exact this.2.1 rfl
    | list t p => exact this.2.1 rfl
    | nonNull t => exact ⟨this.1, this.2.2 t rfl⟩

theorem confCore_absent (R : Name → J → Prop) (habs : ∀ n, ¬ R n .absent) :
    ∀ ty, ¬ ConfCore R ty .absent := by
  intro ty
  induction ty with
  | named n p => exact habs n
  | list t p _ => rintro ⟨xs, h, _⟩; cases h
  | nonNull t ih => exact ih

/-- an explicit canonical assignment is accepted by variable coercion -/
theorem explicitP_coercibleP (R RC : Name → J → Prop) (hsub : ∀ n v, R n v → RC n v) (hnull : ∀ n, ¬ R n .null)
    (habs : ∀ n, ¬ R n .absent) (opt : Bool) (vars : List VarDef) (v : J) (h : ExplicitP R opt vars v) :
    CoercibleP RC vars v := by
  obtain ⟨kvs, rfl, h1, _⟩ := h
  refine ⟨kvs, rfl, ?_⟩
  intro d hd
  rcases h1 (d.name, !d.ty.isNonNull && opt, Conf R d.ty) (List.mem_map.2 ⟨d, hd, rfl⟩) with ⟨ho, hx⟩ | hc
  · left
    refine ⟨hx, Or.inr ?_⟩
    cases hnn : d.ty.isNonNull <;> simp_all
  · right
    refine ⟨?_, conf_coerceP R RC hsub hnull _ _ hc⟩
    intro hx
    simp only at hc hx
    rw [hx] at hc
    rcases hc with ⟨_, h⟩ | h
    · cases h
    · exact confCore_absent R habs _ h

/-- in an explicit assignment a NON-NULL variable is present and not `null` -/
theorem explicitP_required (R : Name → J → Prop) (hnull : ∀ n, ¬ R n .null) (habs : ∀ n, ¬ R n .absent)
    (opt : Bool) (vars : List VarDef) (kvs : List (String × J)) (h : ExplicitP R opt vars (.obj kvs))
    (d : VarDef) (hd : d ∈ vars) (hnn : d.ty.isNonNull = true) :
    J.get kvs d.name ≠ .absent ∧ J.get kvs d.name ≠ .null := by
  obtain ⟨kvs', hk, h1, _⟩ := h
  cases hk
  rcases h1 (d.name, !d.ty.isNonNull && opt, Conf R d.ty) (List.mem_map.2 ⟨d, hd, rfl⟩) with ⟨ho, _⟩ | hc
  · simp [hnn] at ho
  · simp only at hc
    rcases hc with ⟨h', _⟩ | hc
    · simp [hnn] at h'
    · refine ⟨fun hx => confCore_absent R habs _ (hx ▸ hc), fun hx => ?_⟩
      have := conf_coerceP R R (fun _ _ h => h) hnull d.ty _ (Or.inr hc)
      cases hty : d.ty with
      | named n p => simp [hty, GType.isNonNull] at hnn
      | list t p => simp [hty, GType.isNonNull] at hnn
      | nonNull t => rw [hty] at this; exact this.1 hx

/-- in an explicit assignment a variable may be omitted only if it is nullable and the option is on -/
theorem explicitP_omitted (R : Name → J → Prop) (habs : ∀ n, ¬ R n .absent)
    (opt : Bool) (vars : List VarDef) (kvs : List (String × J)) (h : ExplicitP R opt vars (.obj kvs))
    (d : VarDef) (hd : d ∈ vars) (hx : J.get kvs d.name = .absent) : opt = true ∧ d.ty.isNonNull = false := by
  obtain ⟨kvs', hk, h1, _⟩ := h
  cases hk
  rcases h1 (d.name, !d.ty.isNonNull && opt, Conf R d.ty) (List.mem_map.2 ⟨d, hd, rfl⟩) with ⟨ho, _⟩ | hc
  · simp only [Bool.and_eq_true, Bool.not_eq_true'] at ho
    exact ⟨ho.2, ho.1⟩
  · simp only at hc
    rw [hx] at hc
    rcases hc with ⟨_, h'⟩ | h'
    · cases h'
    · exact absurd h' (confCore_absent R habs _)

/-- with the option on, the empty record is an explicit assignment when every variable is nullable -/
theorem explicitP_empty (R : Name → J → Prop) (vars : List VarDef) (hall : ∀ d ∈ vars, d.ty.isNonNull = false) :
    ExplicitP R true vars (.obj []) := by
  refine ⟨[], rfl, ?_, fun kv h => by cases h⟩
  intro f hf
  obtain ⟨d, hd, rfl⟩ := List.mem_map.1 hf
  left
  simp [hall d hd, J.get]

/-! ### `explicitVars` is `ExplicitP` over `Ref` -/

/-- CONNECTION (explicit side): the executable `Explicit` of `Spec/Coerce.lean` (∃ fuel) is the proposition `ExplicitP`
    with `Ref_OperationInput` at the leaves and the configuration's option. -/
theorem explicit_iff (c : Cfg) (s : Schema) (vars : List VarDef) (v : J) :
    Explicit c s vars v ↔ ExplicitP (Ref c s .operationInput) c.optionalInput vars v := by
  unfold Explicit ExplicitP
  have key : ∀ kvs, (∃ n, explicitVars c s n vars (.obj kvs) = true) ↔
      RecordSpec (vars.map fun d => (d.name, !d.ty.isNonNull && c.optionalInput,
        Conf (Ref c s .operationInput) d.ty)) kvs := by
    intro kvs
    simp only [explicitVars]
    rw [exists_recordMem_iff vars (fun d => d.name) (fun d => c.optionalInput && !d.ty.isNonNull)
      (fun n d => conf (refMem c s .operationInput n) d.ty)
      (fun k d x hx => conf_mono (fun n x h => refMem_succ c s .operationInput k n x h) d.ty x hx)]
    have e : (vars.map fun d => (d.name, !d.ty.isNonNull && c.optionalInput, Conf (Ref c s .operationInput) d.ty))
        = vars.map fun d => (d.name, c.optionalInput && !d.ty.isNonNull, Conf (Ref c s .operationInput) d.ty) := by
      apply List.map_congr_left
      intro d _
      rw [Bool.and_comm]
    rw [e]
    exact recordSpec_congr vars _ _ _ _ (fun d _ x => exists_conf_refMem_iff c s .operationInput d.ty x) kvs
  constructor
  · rintro ⟨n, hn⟩
    cases v with
    | obj kvs => exact ⟨kvs, rfl, (key kvs).1 ⟨n, hn⟩⟩
    | _ => simp [explicitVars] at hn
  · rintro ⟨kvs, rfl, hr⟩
    exact (key kvs).2 hr

/-! ### `coerceVal` is `CoerceP` -/

theorem coerceVal_absent (c : Cfg) (s : Schema) (k : Nat) (ty : GType) : coerceVal c s k ty .absent = false := by
  cases k <;> simp [coerceVal, J.isAbsent]

theorem coerceVal_null_named (c : Cfg) (s : Schema) (k : Nat) (n : Name) (p : Pos) :
    coerceVal c s (k + 1) (.named n p) .null = true := by
  simp [coerceVal, J.isAbsent, J.isNull]

theorem coerceVal_named_pos (c : Cfg) (s : Schema) (k : Nat) (n : Name) (p q : Pos) (v : J) :
    coerceVal c s k (.named n p) v = coerceVal c s k (.named n q) v := by
  cases k <;> simp [coerceVal]

/-- one unfolding of `coerceVal`, with the recursive calls and the scalar fuel abstracted -/
def coerceStep (c : Cfg) (s : Schema) (rec : GType → J → Bool) (mfuel : Nat) (ty : GType) (v : J) : Bool :=
  if v.isAbsent then false else
  match ty with
  | .nonNull t => !v.isNull && rec t v
  | .list t _ =>
    v.isNull ||
    (match v with
     | .arr xs => xs.all (rec t)
     | _ => rec t v)
  | .named name _ =>
    v.isNull ||
    (match s.typeDef? name with
     | none => false
     | some td =>
       match td.kind with
       | .scalar =>
         match scalarType? c s.items name with
         | some sc => memG Env.empty mfuel v (c.parseOf (sc.getType .operationInput))
         | none => false
       | .enum => match v with | .str x => td.values.any (·.name == x) | _ => false
       | .input =>
         match v with
         | .obj kvs =>
           kvs.all (fun kv => kv.2.isAbsent || td.inputs.any (·.name == kv.1))
           && td.inputs.all (fun f =>
                let x := J.get kvs f.name
                if x.isAbsent then f.default.isSome || !f.ty.isNonNull else rec f.ty x)
         | _ => false
       | _ => false)

theorem coerceVal_step (c : Cfg) (s : Schema) (k : Nat) (ty : GType) (v : J) :
    coerceVal c s (k + 1) ty v = coerceStep c s (coerceVal c s k) (k + 1) ty v := by
  cases ty <;> rfl

theorem coerceStep_mono (c : Cfg) (s : Schema) {r1 r2 : GType → J → Bool} {m1 m2 : Nat}
    (hr : ∀ t x, r1 t x = true → r2 t x = true) (hm : m1 ≤ m2) (ty : GType) (v : J)
    (h : coerceStep c s r1 m1 ty v = true) : coerceStep c s r2 m2 ty v = true := by
  cases hab : v.isAbsent with
  | true => simp [coerceStep, hab] at h
  | false =>
    cases ty with
    | nonNull t =>
      simp only [coerceStep, hab, Bool.false_eq_true, if_false, Bool.and_eq_true] at h ⊢
      exact ⟨h.1, hr _ _ h.2⟩
    | list t p =>
      simp only [coerceStep, hab, Bool.false_eq_true, if_false, Bool.or_eq_true] at h ⊢
      rcases h with h | h
      · exact Or.inl h
      · right
        cases v with
        | arr xs =>
          simp only [List.all_eq_true] at h ⊢
          exact fun x hx => hr _ _ (h x hx)
        | _ => exact hr _ _ h
    | named name p =>
      simp only [coerceStep, hab, Bool.false_eq_true, if_false, Bool.or_eq_true] at h ⊢
      rcases h with h | h
      · exact Or.inl h
      · right
        cases htd : s.typeDef? name with
        | none => simp [htd] at h
        | some td =>
          simp only [htd] at h ⊢
          cases hk : td.kind with
          | scalar =>
            simp only [hk] at h ⊢
            split at h
            · exact memG_le h hm
            · cases h
          | «enum» => simpa only [hk] using h
          | input =>
            simp only [hk] at h ⊢
            cases v with
            | obj kvs =>
              simp only [Bool.and_eq_true, List.all_eq_true] at h ⊢
              refine ⟨h.1, fun f hf => ?_⟩
              have := h.2 f hf
              split at this
              · rename_i hx; simp only [hx, if_true]; exact this
              · rename_i hx; simp only [hx]; exact hr _ _ this
            | _ => simp at h
          | object => simp [hk] at h
          | interface => simp [hk] at h
          | union => simp [hk] at h

/-- more fuel never hurts -/
theorem coerceVal_succ (c : Cfg) (s : Schema) : ∀ (k : Nat) (ty : GType) (v : J),
    coerceVal c s k ty v = true → coerceVal c s (k + 1) ty v = true := by
  intro k
  induction k with
  | zero => intro ty v h; simp [coerceVal] at h
  | succ k ih =>
    intro ty v h
    rw [coerceVal_step] at h ⊢
    exact coerceStep_mono c s ih (Nat.le_succ _) ty v h

theorem coerceVal_le (c : Cfg) (s : Schema) {k m : Nat} {ty : GType} {v : J} (h : coerceVal c s k ty v = true)
    (hle : k ≤ m) : coerceVal c s m ty v = true :=
  mono_le (P := fun j => coerceVal c s j ty v = true) (fun j hj => coerceVal_succ c s j ty v hj) h hle

/-- the non-null values input coercion accepts for the NAMED type `n` -/
def CoerceNamed (c : Cfg) (s : Schema) (n : Name) (v : J) : Prop :=
  v ≠ .null ∧ ∃ k, coerceVal c s k (.named n {}) v = true

theorem coerceP_absent (c : Cfg) (s : Schema) : ∀ ty, ¬ CoerceP (CoerceNamed c s) ty .absent := by
  intro ty
  induction ty with
  | named n p =>
    rintro (h | ⟨_, k, hk⟩)
    · cases h
    · rw [coerceVal_absent] at hk; cases hk
  | list t p ih =>
    rintro (h | ⟨xs, h, _⟩ | ⟨_, h⟩)
    · cases h
    · cases h
    · exact ih h
  | nonNull t ih => rintro ⟨_, h⟩; exact ih h

/-- CONNECTION (wrapper level): some fuel makes `coerceVal` accept `v` at type `ty` iff `CoerceP` holds with the named
    types read by `coerceVal` itself -/
theorem coerceVal_iff (c : Cfg) (s : Schema) : ∀ (ty : GType) (v : J),
    (∃ k, coerceVal c s k ty v = true) ↔ CoerceP (CoerceNamed c s) ty v := by
  intro ty
  induction ty with
  | named n p =>
    intro v
    simp only [CoerceP, CoerceNamed]
    constructor
    · rintro ⟨k, hk⟩
      by_cases hv : v = .null
      · exact Or.inl hv
      · exact Or.inr ⟨hv, k, by rw [coerceVal_named_pos c s k n {} p]; exact hk⟩
    · rintro (rfl | ⟨_, k, hk⟩)
      · exact ⟨1, coerceVal_null_named c s 0 n p⟩
      · exact ⟨k, by rw [coerceVal_named_pos c s k n p {}]; exact hk⟩
  | nonNull t ih =>
    intro v
    simp only [CoerceP]
    constructor
    · rintro ⟨k, hk⟩
      cases k with
      | zero => simp [coerceVal] at hk
      | succ k =>
        cases hab : v.isAbsent with
        | true => simp [coerceVal, hab] at hk
        | false =>
          simp only [coerceVal, hab, Bool.false_eq_true, if_false, Bool.and_eq_true, Bool.not_eq_true'] at hk
          refine ⟨fun hv => ?_, (ih v).1 ⟨k, hk.2⟩⟩
          rw [hv] at hk; simp [J.isNull] at hk
    · rintro ⟨hv, hc⟩
      obtain ⟨k, hk⟩ := (ih v).2 hc
      refine ⟨k + 1, ?_⟩
      have hab : v.isAbsent = false := by
        cases hx : v.isAbsent with
        | false => rfl
        | true => rw [isAbsent_iff.1 hx] at hc; exact absurd hc (coerceP_absent c s t)
      have hnl : v.isNull = false := by
        cases hx : v.isNull with
        | false => rfl
        | true => exact absurd (isNull_iff.1 hx) hv
      simp [coerceVal, hab, hnl, hk]
  | list t p ih =>
    intro v
    simp only [CoerceP]
    constructor
    · rintro ⟨k, hk⟩
      cases k with
      | zero => simp [coerceVal] at hk
      | succ k =>
        cases hab : v.isAbsent with
        | true => simp [coerceVal, hab] at hk
        | false =>
          simp only [coerceVal, hab, Bool.false_eq_true, if_false, Bool.or_eq_true] at hk
          rcases hk with hk | hk
          · exact Or.inl (isNull_iff.1 hk)
          · right
            cases v with
            | arr xs =>
              simp only [List.all_eq_true] at hk
              exact Or.inl ⟨xs, rfl, fun x hx => (ih x).1 ⟨k, hk x hx⟩⟩
            | null => exact Or.inr ⟨by simp, (ih _).1 ⟨k, hk⟩⟩
            | absent => exact Or.inr ⟨by simp, (ih _).1 ⟨k, hk⟩⟩
            | str _ => exact Or.inr ⟨by simp, (ih _).1 ⟨k, hk⟩⟩
            | num => exact Or.inr ⟨by simp, (ih _).1 ⟨k, hk⟩⟩
            | bool _ => exact Or.inr ⟨by simp, (ih _).1 ⟨k, hk⟩⟩
            | atom _ => exact Or.inr ⟨by simp, (ih _).1 ⟨k, hk⟩⟩
            | obj _ => exact Or.inr ⟨by simp, (ih _).1 ⟨k, hk⟩⟩
    · rintro (rfl | ⟨xs, rfl, hx⟩ | ⟨hna, hc⟩)
      · exact ⟨1, by simp [coerceVal, J.isAbsent, J.isNull]⟩
      · obtain ⟨k, hk⟩ := exists_common_fuel xs (fun x k => coerceVal c s k t x = true)
          (fun x k h => coerceVal_succ c s k t x h) (fun x hxs => (ih x).2 (hx x hxs))
        exact ⟨k + 1, by simp only [coerceVal, J.isAbsent, Bool.false_eq_true, if_false, Bool.or_eq_true,
          List.all_eq_true]; exact Or.inr hk⟩
      · obtain ⟨k, hk⟩ := (ih v).2 hc
        have hab : v.isAbsent = false := by
          cases hx : v.isAbsent with
          | false => rfl
          | true => rw [isAbsent_iff.1 hx] at hc; exact absurd hc (coerceP_absent c s t)
        refine ⟨k + 1, ?_⟩
        cases v with
        | arr xs => exact absurd rfl (hna xs)
        | _ => simp_all [coerceVal]

/-- CONNECTION (coercion side): the executable `Coercible` of `Spec/Coerce.lean` (∃ fuel) is the proposition
    `CoercibleP` with the named types read by `coerceVal`. -/
theorem coercible_iff (c : Cfg) (s : Schema) (vars : List VarDef) (v : J) :
    Coercible c s vars v ↔ CoercibleP (CoerceNamed c s) vars v := by
  unfold Coercible CoercibleP
  constructor
  · rintro ⟨k, hk⟩
    cases v with
    | obj kvs =>
      refine ⟨kvs, rfl, fun d hd => ?_⟩
      simp only [coercibleVars, List.all_eq_true] at hk
      have := hk d hd
      split at this
      · rename_i hx
        left
        refine ⟨isAbsent_iff.1 hx, ?_⟩
        simpa using this
      · rename_i hx
        right
        exact ⟨fun h => hx (by rw [h]; rfl), (coerceVal_iff c s d.ty _).1 ⟨k, this⟩⟩
    | _ => simp [coercibleVars] at hk
  · rintro ⟨kvs, rfl, h⟩
    have hex : ∀ d ∈ vars, ∃ k, (if (J.get kvs d.name).isAbsent then d.default.isSome || !d.ty.isNonNull
        else coerceVal c s k d.ty (J.get kvs d.name)) = true := by
      intro d hd
      rcases h d hd with ⟨hx, hd'⟩ | ⟨hx, hc⟩
      · refine ⟨0, ?_⟩
        rw [hx]; simp only [J.isAbsent, if_true]
        rcases hd' with h1 | h1 <;> simp [h1]
      · obtain ⟨k, hk⟩ := (coerceVal_iff c s d.ty _).2 hc
        refine ⟨k, ?_⟩
        have : (J.get kvs d.name).isAbsent = false := by
          cases hab : (J.get kvs d.name).isAbsent with
          | false => rfl
          | true => exact absurd (isAbsent_iff.1 hab) hx
        rw [this]; simpa using hk
    obtain ⟨k, hk⟩ := exists_common_fuel vars
      (fun d k => (if (J.get kvs d.name).isAbsent then d.default.isSome || !d.ty.isNonNull
        else coerceVal c s k d.ty (J.get kvs d.name)) = true)
      (fun d k h => by
        split at h
        · rename_i hx; simp only [hx, if_true]; exact h
        · rename_i hx; simp only [hx]; exact coerceVal_succ c s k _ _ h) hex
    exact ⟨k, by simp only [coercibleVars, List.all_eq_true]; exact hk⟩

/-! ### `CoerceNamed`, kind by kind, with `CoerceP` over `CoerceNamed` itself at the fields -/

theorem coerceNamed_iff_step (c : Cfg) (s : Schema) (n : Name) (v : J) :
    CoerceNamed c s n v ↔ v ≠ .null ∧ ∃ k, coerceStep c s (coerceVal c s k) (k + 1) (.named n {}) v = true := by
  unfold CoerceNamed
  constructor
  · rintro ⟨hv, k, hk⟩
    refine ⟨hv, k, ?_⟩
    rw [← coerceVal_step]; exact coerceVal_succ c s k _ _ hk
  · rintro ⟨hv, k, hk⟩
    exact ⟨hv, k + 1, by rw [coerceVal_step]; exact hk⟩

theorem coerceNamed_unknown (c : Cfg) (s : Schema) {n : Name} {v : J} (h : s.typeDef? n = none) :
    ¬ CoerceNamed c s n v := by
  rw [coerceNamed_iff_step]
  rintro ⟨hv, k, hk⟩
  have hnl : v.isNull = false := by
    cases hx : v.isNull with
    | false => rfl
    | true => exact absurd (isNull_iff.1 hx) hv
  simp [coerceStep, h, hnl] at hk

theorem coerceNamed_output (c : Cfg) (s : Schema) {n : Name} {v : J} {td : TypeDef} (h : s.typeDef? n = some td)
    (hk : td.kind = .object ∨ td.kind = .interface ∨ td.kind = .union) : ¬ CoerceNamed c s n v := by
  rw [coerceNamed_iff_step]
  rintro ⟨hv, k, hk'⟩
  have hnl : v.isNull = false := by
    cases hx : v.isNull with
    | false => rfl
    | true => exact absurd (isNull_iff.1 hx) hv
  rcases hk with hk | hk | hk <;> simp [coerceStep, h, hk, hnl] at hk'

/-- SCALAR: the non-null, present values of the configured INPUT text, read globally -/
theorem coerceNamed_scalar (c : Cfg) (s : Schema) {n : Name} {v : J} {td : TypeDef} (h : s.typeDef? n = some td)
    (hk : td.kind = .scalar) :
    CoerceNamed c s n v ↔ v ≠ .null ∧ v ≠ .absent ∧
      ∃ sc, scalarType? c s.items n = some sc ∧ Mem Env.empty v (c.parseOf (sc.getType .operationInput)) := by
  rw [coerceNamed_iff_step]
  constructor
  · rintro ⟨hv, k, hk'⟩
    have hnl : v.isNull = false := by
      cases hx : v.isNull with
      | false => rfl
      | true => exact absurd (isNull_iff.1 hx) hv
    cases hab : v.isAbsent with
    | true => simp [coerceStep, hab] at hk'
    | false =>
      refine ⟨hv, ?_, ?_⟩
      · intro e; rw [e] at hab; cases hab
      simp only [coerceStep, hab, Bool.false_eq_true, if_false, hnl, Bool.false_or, h, hk] at hk'
      split at hk'
      · rename_i sc hsc; exact ⟨sc, hsc, memG_sound _ _ _ hk'⟩
      · cases hk'
  · rintro ⟨hv, ha, sc, hsc, hm⟩
    obtain ⟨k, hk'⟩ := memG_complete hm
    refine ⟨hv, k, ?_⟩
    have hab : v.isAbsent = false := by
      cases hx : v.isAbsent with
      | false => rfl
      | true => exact absurd (isAbsent_iff.1 hx) ha
    simp [coerceStep, hab, h, hk, hsc, memG_succ _ _ _ hk']

/-- ENUM: the names of its values -/
theorem coerceNamed_enum (c : Cfg) (s : Schema) {n : Name} {v : J} {td : TypeDef} (h : s.typeDef? n = some td)
    (hk : td.kind = .enum) : CoerceNamed c s n v ↔ ∃ x ∈ td.values, v = .str x.name := by
  rw [coerceNamed_iff_step]
  constructor
  · rintro ⟨hv, k, hk'⟩
    cases v with
    | str y =>
      simp only [coerceStep, J.isAbsent, J.isNull, Bool.false_eq_true, if_false, Bool.false_or, h, hk,
        List.any_eq_true, beq_iff_eq] at hk'
      obtain ⟨x, hx, e⟩ := hk'
      exact ⟨x, hx, by rw [e]⟩
    | null => exact absurd rfl hv
    | absent => simp [coerceStep, J.isAbsent] at hk'
    | num => simp [coerceStep, J.isAbsent, J.isNull, h, hk] at hk'
    | bool _ => simp [coerceStep, J.isAbsent, J.isNull, h, hk] at hk'
    | atom _ => simp [coerceStep, J.isAbsent, J.isNull, h, hk] at hk'
    | arr _ => simp [coerceStep, J.isAbsent, J.isNull, h, hk] at hk'
    | obj _ => simp [coerceStep, J.isAbsent, J.isNull, h, hk] at hk'
  · rintro ⟨x, hx, rfl⟩
    refine ⟨by simp, 0, ?_⟩
    simp only [coerceStep, J.isAbsent, J.isNull, Bool.false_eq_true, if_false, Bool.false_or, h, hk,
      List.any_eq_true, beq_iff_eq]
    exact ⟨x, hx, rfl⟩

theorem isAbsent_obj (kvs : List (String × J)) : (J.obj kvs).isAbsent = false := rfl
theorem isNull_obj (kvs : List (String × J)) : (J.obj kvs).isNull = false := rfl

/-- INPUT OBJECT: a record without unknown keys in which every field that is missing is nullable or has a default,
    and every present field is coercible (spec §3.10 Input Coercion) -/
theorem coerceNamed_input (c : Cfg) (s : Schema) {n : Name} {v : J} {td : TypeDef} (h : s.typeDef? n = some td)
    (hk : td.kind = .input) :
    CoerceNamed c s n v ↔ ∃ kvs, v = .obj kvs ∧
      (∀ kv ∈ kvs, kv.2 = .absent ∨ ∃ f ∈ td.inputs, f.name = kv.1) ∧
      ∀ f ∈ td.inputs,
        (J.get kvs f.name = .absent ∧ (f.default.isSome = true ∨ f.ty.isNonNull = false)) ∨
        (J.get kvs f.name ≠ .absent ∧ CoerceP (CoerceNamed c s) f.ty (J.get kvs f.name)) := by
  rw [coerceNamed_iff_step]
  constructor
  · rintro ⟨hv, k, hk'⟩
    cases v with
    | obj kvs =>
      simp only [coerceStep, isAbsent_obj, isNull_obj, Bool.false_eq_true, if_false, Bool.false_or, h, hk,
        Bool.and_eq_true, List.all_eq_true, Bool.or_eq_true, List.any_eq_true, beq_iff_eq] at hk'
      refine ⟨kvs, rfl, fun kv hkv => ?_, fun f hf => ?_⟩
      · rcases hk'.1 kv hkv with h' | h'
        · exact Or.inl (isAbsent_iff.1 h')
        · exact Or.inr h'
      · have := hk'.2 f hf
        split at this
        · rename_i hx
          left
          exact ⟨isAbsent_iff.1 hx, by simpa using this⟩
        · rename_i hx
          right
          exact ⟨fun e => hx (by rw [e]; rfl), (coerceVal_iff c s f.ty _).1 ⟨k, this⟩⟩
    | null => exact absurd rfl hv
    | absent => simp [coerceStep, J.isAbsent] at hk'
    | str _ => simp [coerceStep, J.isAbsent, J.isNull, h, hk] at hk'
    | num => simp [coerceStep, J.isAbsent, J.isNull, h, hk] at hk'
    | bool _ => simp [coerceStep, J.isAbsent, J.isNull, h, hk] at hk'
    | atom _ => simp [coerceStep, J.isAbsent, J.isNull, h, hk] at hk'
    | arr _ => simp [coerceStep, J.isAbsent, J.isNull, h, hk] at hk'
  · rintro ⟨kvs, rfl, h1, h2⟩
    have hex : ∀ f ∈ td.inputs, ∃ k, (if (J.get kvs f.name).isAbsent then f.default.isSome || !f.ty.isNonNull
        else coerceVal c s k f.ty (J.get kvs f.name)) = true := by
      intro f hf
      rcases h2 f hf with ⟨hx, hd'⟩ | ⟨hx, hc⟩
      · refine ⟨0, ?_⟩
        rw [hx]; simp only [J.isAbsent, if_true]
        rcases hd' with h' | h' <;> simp [h']
      · obtain ⟨k, hk'⟩ := (coerceVal_iff c s f.ty _).2 hc
        refine ⟨k, ?_⟩
        have : (J.get kvs f.name).isAbsent = false := by
          cases hab : (J.get kvs f.name).isAbsent with
          | false => rfl
          | true => exact absurd (isAbsent_iff.1 hab) hx
        rw [this]; simpa using hk'
    obtain ⟨K, hK⟩ := exists_common_fuel td.inputs
      (fun f k => (if (J.get kvs f.name).isAbsent then f.default.isSome || !f.ty.isNonNull
        else coerceVal c s k f.ty (J.get kvs f.name)) = true)
      (fun f k h' => by
        split at h'
        · rename_i hx; simp only [hx, if_true]; exact h'
        · rename_i hx; simp only [hx]; exact coerceVal_succ c s k _ _ h') hex
    refine ⟨by simp, K, ?_⟩
    simp only [coerceStep, isAbsent_obj, isNull_obj, Bool.false_eq_true, if_false, Bool.false_or, h, hk,
      Bool.and_eq_true, List.all_eq_true, Bool.or_eq_true, List.any_eq_true, beq_iff_eq]
    refine ⟨fun kv hkv => ?_, fun f hf => hK f hf⟩
    rcases h1 kv hkv with h' | h'
    · exact Or.inl (isAbsent_iff.2 h')
    · exact Or.inr h'

/-! ### canonical values are coercible -/

/-- no configured scalar INPUT text admits `null` or `undefined` (false for a scalar mapped to `unknown` / `any`:
    then "a non-null variable is never null" fails by the user's own configuration) -/
def ScalarsStrict (c : Cfg) (s : Schema) : Prop :=
  ∀ n sc, scalarType? c s.items n = some sc →
    ¬ Mem Env.empty .null (c.parseOf (sc.getType .operationInput)) ∧
    ¬ Mem Env.empty .absent (c.parseOf (sc.getType .operationInput))

theorem coerceVal_named_of_step {c : Cfg} {s : Schema} {k : Nat} {n : Name} {v : J}
    (h : coerceStep c s (coerceVal c s k) (k + 1) (.named n {}) v = true) :
    ∃ k', coerceVal c s k' (.named n {}) v = true :=
  ⟨k + 1, by rw [coerceVal_step]; exact h⟩

/-- every canonical value of a named input type (`Ref_OperationInput`) is accepted by input coercion, and is neither
    `null` nor `undefined` -/
theorem refMem_coerceNamed (c : Cfg) (s : Schema) (hs : ScalarsStrict c s) : ∀ (k : Nat) (n : Name) (v : J),
    refMem c s .operationInput k n v = true →
      v ≠ .null ∧ v ≠ .absent ∧ ∃ k', coerceVal c s k' (.named n {}) v = true := by
  intro k
  induction k with
  | zero => intro n v h; simp [refMem] at h
  | succ k ih =>
    intro n v h
    cases htd : s.typeDef? n with
    | none => rw [refMem_unknown c s _ htd] at h; cases h
    | some td =>
      cases hfit : kindFits td.kind .operationInput with
      | false => rw [refMem_unfit c s _ htd hfit] at h; cases h
      | true =>
        cases hk : td.kind with
        | scalar =>
          rw [refMem_scalar c s _ htd hk] at h
          split at h
          · rename_i sc hsc
            have hm := memG_sound _ _ _ h
            have hnn : v ≠ .null := fun e => (hs n sc hsc).1 (e ▸ hm)
            have hna : v ≠ .absent := fun e => (hs n sc hsc).2 (e ▸ hm)
            refine ⟨hnn, hna, coerceVal_named_of_step (k := k) ?_⟩
            have hab : v.isAbsent = false := by
              cases hx : v.isAbsent with
              | false => rfl
              | true => exact absurd (isAbsent_iff.1 hx) hna
            simp [coerceStep, hab, htd, hk, hsc, h]
          · cases h
        | «enum» =>
          obtain ⟨x, hx, rfl⟩ := (refMem_enum c s _ htd hk).1 h
          refine ⟨by simp, by simp, coerceVal_named_of_step (k := 0) ?_⟩
          simp only [coerceStep, J.isAbsent, J.isNull, htd, hk, Bool.false_eq_true, if_false, Bool.false_or,
            List.any_eq_true, beq_iff_eq]
          exact ⟨x, hx, rfl⟩
        | input =>
          cases v with
          | obj kvs =>
            rw [refMem_input c s _ htd hk rfl, recordMem_iff] at h
            obtain ⟨h1, h2⟩ := h
            refine ⟨by simp, by simp, ?_⟩
            have hsub : ∀ n x, refMem c s .operationInput k n x = true → CoerceNamed c s n x :=
              fun n x hx => ⟨(ih n x hx).1, (ih n x hx).2.2⟩
            have hnull : ∀ n, ¬ refMem c s .operationInput k n .null = true := fun n hx => (ih n _ hx).1 rfl
            have habs : ∀ n, ¬ refMem c s .operationInput k n .absent = true := fun n hx => (ih n _ hx).2.1 rfl
            have hex : ∀ f ∈ td.inputs, ∃ k', (if (J.get kvs f.name).isAbsent then f.default.isSome || !f.ty.isNonNull
                else coerceVal c s k' f.ty (J.get kvs f.name)) = true := by
              intro f hf
              rcases h1 _ (List.mem_map.2 ⟨_, List.mem_map.2 ⟨f, hf, rfl⟩, rfl⟩) with ⟨ho, hx⟩ | hc
              · refine ⟨0, ?_⟩
                simp only at ho hx
                rw [hx]
                simp only [Bool.and_eq_true, Bool.not_eq_true'] at ho
                simp [J.isAbsent, ho.2]
              · simp only at hc
                have hC := conf_sound (R := fun n x => refMem c s .operationInput k n x = true)
                  (fun _ _ h => h) f.ty _ hc
                have hx : J.get kvs f.name ≠ .absent := by
                  intro e
                  rw [e] at hC
                  rcases hC with ⟨_, h'⟩ | h'
                  · cases h'
                  · exact confCore_absent _ habs _ h'
                have hab : (J.get kvs f.name).isAbsent = false := by
                  cases hx' : (J.get kvs f.name).isAbsent with
                  | false => rfl
                  | true => exact absurd (isAbsent_iff.1 hx') hx
                obtain ⟨k', hk'⟩ := (coerceVal_iff c s f.ty _).2
                  (conf_coerceP _ (CoerceNamed c s) hsub hnull f.ty _ hC)
                exact ⟨k', by rw [hab]; simpa using hk'⟩
            obtain ⟨K, hK⟩ := exists_common_fuel td.inputs
              (fun f k' => (if (J.get kvs f.name).isAbsent then f.default.isSome || !f.ty.isNonNull
                else coerceVal c s k' f.ty (J.get kvs f.name)) = true)
              (fun f k' h' => by
                split at h'
                · rename_i hx; simp only [hx, if_true]; exact h'
                · rename_i hx; simp only [hx]; exact coerceVal_succ c s k' _ _ h') hex
            refine coerceVal_named_of_step (k := K) ?_
            simp only [coerceStep, J.isAbsent, J.isNull, htd, hk, Bool.false_eq_true, if_false, Bool.false_or,
              Bool.and_eq_true, List.all_eq_true, Bool.or_eq_true, List.any_eq_true, beq_iff_eq]
            refine ⟨fun kv hkv => ?_, fun f hf => hK f hf⟩
            rcases h2 kv hkv with h' | ⟨g, hg, hk'⟩
            · exact Or.inl (isAbsent_iff.2 h')
            · obtain ⟨g', hg', rfl⟩ := List.mem_map.1 hg
              obtain ⟨f, hf, rfl⟩ := List.mem_map.1 hg'
              exact Or.inr ⟨f, hf, hk'⟩
          | _ => rw [refMem_input_notObj c s _ htd hk (by intro kvs; simp)] at h; cases h
        | object => simp [hk, kindFits, Target.isOutput] at hfit
        | interface => simp [hk, kindFits, Target.isOutput] at hfit
        | union => simp [hk, kindFits, Target.isOutput] at hfit

theorem ref_coerceNamed (c : Cfg) (s : Schema) (hs : ScalarsStrict c s) (n : Name) (v : J)
    (h : Ref c s .operationInput n v) : CoerceNamed c s n v := by
  obtain ⟨k, hk⟩ := h
  exact ⟨(refMem_coerceNamed c s hs k n v hk).1, (refMem_coerceNamed c s hs k n v hk).2.2⟩

theorem ref_not_null (c : Cfg) (s : Schema) (hs : ScalarsStrict c s) (n : Name) : ¬ Ref c s .operationInput n .null := by
  rintro ⟨k, hk⟩; exact (refMem_coerceNamed c s hs k n _ hk).1 rfl

theorem ref_not_absent (c : Cfg) (s : Schema) (hs : ScalarsStrict c s) (n : Name) :
    ¬ Ref c s .operationInput n .absent := by
  rintro ⟨k, hk⟩; exact (refMem_coerceNamed c s hs k n _ hk).2.1 rfl

/-- every explicit canonical assignment is coercible (executable specifications of `Spec/Coerce.lean`) -/
theorem explicit_coercible (c : Cfg) (s : Schema) (hs : ScalarsStrict c s) (vars : List VarDef) (v : J)
    (h : Explicit c s vars v) : Coercible c s vars v :=
  (coercible_iff c s vars v).2
    (explicitP_coercibleP _ _ (ref_coerceNamed c s hs) (ref_not_null c s hs) (ref_not_absent c s hs) _ vars v
      ((explicit_iff c s vars v).1 h))

end NitroVerif.Coerce
