/-
Completeness of the executable membership procedure `memG` (what the O streams evaluate) with respect to the
declarative relation `Mem`: every member is accepted once the fuel is large enough, and more fuel never hurts.
Together with `memG_sound` (`Lemmas/TsSemSound.lean`): `Mem e v t ↔ ∃ n, memG e n v t = true`.
-/
import NitroVerif.Lemmas.TsSemSound
namespace NitroVerif.Ts
variable {e : Env}

/-! ### finite choice of a common fuel -/

theorem mono_le {P : Nat → Prop} (mono : ∀ n, P n → P (n + 1)) {n m : Nat} (h : P n) (hle : n ≤ m) : P m := by
  induction hle with
  | refl => exact h
  | step _ ih => exact mono _ ih

/-- finitely many monotone existentials have a common witness -/
theorem exists_common_fuel {α : Type} (l : List α) (P : α → Nat → Prop) (mono : ∀ a n, P a n → P a (n + 1))
    (h : ∀ a ∈ l, ∃ n, P a n) : ∃ n, ∀ a ∈ l, P a n := by
  induction l with
  | nil => exact ⟨0, fun _ h => by cases h⟩
  | cons a r ih =>
    obtain ⟨n1, h1⟩ := h a List.mem_cons_self
    obtain ⟨n2, h2⟩ := ih (fun b hb => h b (List.mem_cons_of_mem _ hb))
    refine ⟨max n1 n2, ?_⟩
    intro b hb
    rcases List.mem_cons.1 hb with rfl | hb
    · exact mono_le (mono b) h1 (Nat.le_max_left _ _)
    · exact mono_le (mono b) (h2 b hb) (Nat.le_max_right _ _)

/-- the same with a guard -/
theorem exists_common_fuel_guard {α : Type} (l : List α) (G : α → Prop) (P : α → Nat → Prop)
    (mono : ∀ a n, P a n → P a (n + 1)) (h : ∀ a ∈ l, G a → ∃ n, P a n) : ∃ n, ∀ a ∈ l, G a → P a n := by
  classical
  have := exists_common_fuel l (fun a n => G a → P a n) (fun a n hp hg => mono a n (hp hg))
    (fun a ha => by
      by_cases hg : G a
      · obtain ⟨n, hn⟩ := h a ha hg; exact ⟨n, fun _ => hn⟩
      · exact ⟨0, fun hg' => absurd hg' hg⟩)
  exact this

/-! ### the object view is stable once it has an answer -/

theorem ObjView.merge_eq_outOfFuel_left (b : ObjView) : ObjView.merge .outOfFuel b = .outOfFuel := by
  cases b <;> rfl

theorem ObjView.merge_ne_outOfFuel {a b : ObjView} (h : a.merge b ≠ .outOfFuel) : a ≠ .outOfFuel ∧ b ≠ .outOfFuel := by
  cases a <;> cases b <;> simp_all [ObjView.merge]

theorem foldl_merge_outOfFuel {α : Type} (f : α → ObjView) (l : List α) :
    l.foldl (fun (acc : ObjView) t => acc.merge (f t)) ObjView.outOfFuel = ObjView.outOfFuel := by
  induction l with
  | nil => rfl
  | cons a r ih => simp only [List.foldl_cons, ObjView.merge_eq_outOfFuel_left, ih]

theorem foldl_merge_ne_outOfFuel {α : Type} (f : α → ObjView) : ∀ (l : List α) (a : ObjView),
    l.foldl (fun acc t => acc.merge (f t)) a ≠ .outOfFuel → a ≠ .outOfFuel ∧ ∀ t ∈ l, f t ≠ .outOfFuel := by
  intro l
  induction l with
  | nil => intro a h; exact ⟨h, fun _ h => by cases h⟩
  | cons x r ih =>
    intro a h
    simp only [List.foldl_cons] at h
    obtain ⟨h1, h2⟩ := ih _ h
    obtain ⟨ha, hx⟩ := ObjView.merge_ne_outOfFuel h1
    refine ⟨ha, ?_⟩
    intro t ht
    rcases List.mem_cons.1 ht with rfl | ht
    · exact hx
    · exact h2 t ht

theorem foldl_merge_congr {α : Type} (f g : α → ObjView) : ∀ (l : List α) (a : ObjView),
    (∀ t ∈ l, f t = g t) →
    l.foldl (fun acc t => acc.merge (f t)) a = l.foldl (fun acc t => acc.merge (g t)) a := by
  intro l
  induction l with
  | nil => intro a _; rfl
  | cons x r ih =>
    intro a h
    simp only [List.foldl_cons]
    rw [h x List.mem_cons_self]
    exact ih _ (fun t ht => h t (List.mem_cons_of_mem _ ht))

theorem objView_inter_cons (n : Nat) (t0 : Ty) (rest : List Ty) :
    objView e (n + 1) (.inter (t0 :: rest))
      = rest.foldl (fun acc t' => acc.merge (objView e n t')) (objView e n t0) := by
  simp [objView]

theorem objView_abs_some {n : Nat} {path : List String} {body : Ty} (hb : e.decls.body? path = some ([], body)) :
    objView e (n + 1) (.other "abs" path) = objView e n body := by
  simp [objView, hb]

theorem objView_abs_none {n : Nat} {path : List String} (hb : ∀ body, e.decls.body? path ≠ some ([], body)) :
    objView e (n + 1) (.other "abs" path) = .notObj := by
  simp only [objView]

theorem objView_app_some {n : Nat} {f : Ty} {as : List Ty} {t' : Ty} (h : e.appHook e.decls f as = some t') :
    objView e (n + 1) (.app f as) = objView e n t' := by
  simp [objView, h]

theorem objView_app_none {n : Nat} {f : Ty} {as : List Ty} (h : e.appHook e.decls f as = none) :
    objView e (n + 1) (.app f as) = .notObj := by
  simp [objView, h]

/-- once the object view of a type is decided, more fuel gives the same answer -/
theorem objView_succ : ∀ (n : Nat) (t : Ty), objView e n t ≠ .outOfFuel → objView e (n + 1) t = objView e n t := by
  intro n
  induction n with
  | zero => intro t h; simp [objView] at h
  | succ n ih =>
    intro t h
    cases t with
    | obj fs => simp [objView]
    | other tag path =>
      by_cases htag : tag = "abs"
      · subst htag
        by_cases hb : ∃ body, e.decls.body? path = some ([], body)
        · obtain ⟨body, hb⟩ := hb
          rw [objView_abs_some hb] at h ⊢
          rw [objView_abs_some hb]
          exact ih _ h
        · have hb' : ∀ body, e.decls.body? path ≠ some ([], body) := fun b hb' => hb ⟨b, hb'⟩
          rw [objView_abs_none hb', objView_abs_none hb']
      · simp [objView, htag]
    | app f as =>
      cases ht : e.appHook e.decls f as with
      | some t' =>
        rw [objView_app_some ht] at h ⊢
        rw [objView_app_some ht]
        exact ih _ h
      | none => rw [objView_app_none ht, objView_app_none ht]
    | inter ts =>
      cases ts with
      | nil => simp [objView]
      | cons t0 rest =>
        rw [objView_inter_cons] at h ⊢
        rw [objView_inter_cons (n := n)]
        obtain ⟨h0, hr⟩ := foldl_merge_ne_outOfFuel _ _ _ h
        rw [ih _ h0]
        exact foldl_merge_congr _ _ _ _ (fun t ht => ih _ (hr t ht))
    | prim _ => simp [objView]
    | ref _ => simp [objView]
    | qref _ => simp [objView]
    | strLit _ => simp [objView]
    | numLit _ => simp [objView]
    | arr _ => simp [objView]
    | roArr _ => simp [objView]
    | union _ => simp [objView]
    | fn _ _ => simp [objView]
    | index _ _ => simp [objView]
    | tuple _ => simp [objView]

theorem objView_le {n m : Nat} {t : Ty} (h : objView e n t ≠ .outOfFuel) (hle : n ≤ m) :
    objView e m t = objView e n t := by
  induction hle with
  | refl => rfl
  | step hle ih =>
    rw [objView_succ _ _ (by rw [ih]; exact h), ih]

/-! ### equations of `memG`, one per shape of type -/

theorem memG_union (n : Nat) (v : J) (ts : List Ty) :
    memG e (n + 1) v (.union ts) = ts.any (memG e n v ·) := by simp [memG]

theorem memG_arr_arr (n : Nat) (xs : List J) (t : Ty) :
    memG e (n + 1) (.arr xs) (.arr t) = xs.all (memG e n · t) := by simp [memG]

theorem memG_roArr_arr (n : Nat) (xs : List J) (t : Ty) :
    memG e (n + 1) (.arr xs) (.roArr t) = xs.all (memG e n · t) := by simp [memG]

theorem memG_obj_obj (n : Nat) (kvs : List (String × J)) (fs : List Field) :
    memG e (n + 1) (.obj kvs) (.obj fs) = memRecord (memG e n) fs kvs := by simp [memG]

theorem memG_strLit_str (n : Nat) (s : String) : memG e (n + 1) (.str s) (.strLit s) = true := by simp [memG]

theorem memG_inter_isObj {n : Nat} {ts : List Ty} {fs : List Field} (kvs : List (String × J))
    (h : objView e n (.inter ts) = .isObj fs) :
    memG e (n + 1) (.obj kvs) (.inter ts) = memRecord (memG e n) fs kvs := by
  simp [memG, h]

theorem memG_inter_notObj {n : Nat} {ts : List Ty} (v : J) (h : objView e n (.inter ts) = .notObj) :
    memG e (n + 1) v (.inter ts) = ts.all (memG e n v ·) := by
  simp [memG, h]

theorem memG_abs_some {n : Nat} {path : List String} {body : Ty} (v : J)
    (hb : e.decls.body? path = some ([], body)) :
    memG e (n + 1) v (.other "abs" path) = memG e n v body := by
  simp [memG, hb]

theorem memG_abs_none_atom {n : Nat} {path : List String} (hb : ∀ body, e.decls.body? path ≠ some ([], body)) :
    memG e (n + 1) (.atom (Ty.other "abs" path).show) (.other "abs" path) = true := by
  simp only [memG]
  simp

theorem memG_app_some {n : Nat} {f : Ty} {as : List Ty} {t' : Ty} (v : J) (h : e.appHook e.decls f as = some t') :
    memG e (n + 1) v (.app f as) = memG e n v t' := by
  simp [memG, h]

theorem memG_app_none_atom {n : Nat} {f : Ty} {as : List Ty} (h : e.appHook e.decls f as = none) :
    memG e (n + 1) (.atom (Ty.app f as).show) (.app f as) = true := by
  simp [memG, h]

/-- an interpreted primitive: the fuel (if any is left) does not matter -/
theorem memG_prim (n : Nat) (v : J) (p : String) (hp : (Ty.prim p).isOpaque e = false) :
    memG e (n + 1) v (.prim p) = primMem p v := by
  simp only [Ty.isOpaque, Bool.not_eq_false', Bool.or_eq_true, beq_iff_eq] at hp
  rcases hp with ((((((((((rfl | rfl) | rfl) | rfl) | rfl) | rfl) | rfl) | rfl) | rfl) | rfl) | rfl) <;>
    cases v <;> (try rename_i b; cases b) <;>
      simp [memG, primMem, J.isStr, J.isNum, J.isBool, J.isTrue, J.isFalse, J.isNull, J.isAbsent]

/-- an opaque type admits its own atom, with any positive fuel -/
theorem memG_opaque (n : Nat) (t : Ty) (h : t.isOpaque e = true) : memG e (n + 1) (.atom t.show) t = true := by
  cases t with
  | prim s =>
    simp only [Ty.isOpaque, Bool.not_eq_true', Bool.or_eq_false_iff, beq_eq_false_iff_ne, ne_eq] at h
    obtain ⟨⟨⟨⟨⟨⟨⟨⟨⟨⟨h1, h2⟩, h3⟩, h4⟩, h5⟩, h6⟩, h7⟩, h8⟩, h9⟩, h10⟩, h11⟩ := h
    unfold memG
    split <;> simp_all
  | other tag path =>
    by_cases htag : tag = "abs"
    · subst htag
      simp only [Ty.isOpaque, beq_self_eq_true, if_true] at h
      apply memG_abs_none_atom
      intro body hb
      rw [hb] at h; cases h
    · unfold memG
      split <;> simp_all
  | app f as =>
    simp only [Ty.isOpaque, Option.isNone_iff_eq_none] at h
    exact memG_app_none_atom h
  | ref _ => simp [memG]
  | qref _ => simp [memG]
  | numLit _ => simp [memG]
  | fn _ _ => simp [memG]
  | index _ _ => simp [memG]
  | tuple _ => simp [memG]
  | strLit _ => simp [Ty.isOpaque] at h
  | obj _ => simp [Ty.isOpaque] at h
  | arr _ => simp [Ty.isOpaque] at h
  | roArr _ => simp [Ty.isOpaque] at h
  | union _ => simp [Ty.isOpaque] at h
  | inter _ => simp [Ty.isOpaque] at h

/-! ### opaque types -/

theorem primMem_not_opaque {p : String} {v : J} (h : primMem p v = true) : (Ty.prim p).isOpaque e = false := by
  unfold primMem at h
  simp only [Ty.isOpaque]
  repeat' split at h
  all_goals simp_all

/-- an opaque type admits exactly its own atom -/
theorem mem_opaque_iff {t : Ty} {v : J} (ho : t.isOpaque e = true) : Mem e v t ↔ v = .atom t.show := by
  constructor
  · intro h
    cases h with
    | prim p v hp => rw [primMem_not_opaque hp] at ho; cases ho
    | strLit s => simp [Ty.isOpaque] at ho
    | obj _ _ _ _ => simp [Ty.isOpaque] at ho
    | arr _ _ _ => simp [Ty.isOpaque] at ho
    | roArr _ _ _ => simp [Ty.isOpaque] at ho
    | union _ _ _ _ _ => simp [Ty.isOpaque] at ho
    | interObj _ _ _ _ _ _ => simp [Ty.isOpaque] at ho
    | interAll _ _ _ _ _ => simp [Ty.isOpaque] at ho
    | alias _ _ _ hb _ => simp [Ty.isOpaque, hb] at ho
    | hook _ _ _ _ hh _ => simp [Ty.isOpaque, hh] at ho
    | opaqueTy _ _ => rfl
  · rintro rfl; exact Mem.opaqueTy t ho

/-! ### more fuel never hurts -/

theorem memRecord_mono {m1 m2 : J → Ty → Bool} (h : ∀ v t, m1 v t = true → m2 v t = true)
    {fs : List Field} {kvs : List (String × J)} (hm : memRecord m1 fs kvs = true) : memRecord m2 fs kvs = true := by
  simp only [memRecord, Bool.and_eq_true, List.all_eq_true, Bool.or_eq_true] at hm ⊢
  refine ⟨fun f hf => ?_, hm.2⟩
  rcases hm.1 f hf with h1 | h1
  · exact Or.inl h1
  · exact Or.inr (h _ _ h1)

theorem memG_succ : ∀ (n : Nat) (v : J) (t : Ty), memG e n v t = true → memG e (n + 1) v t = true := by
  intro n
  induction n with
  | zero => intro v t h; simp [memG] at h
  | succ n ih =>
    intro v t h
    by_cases hop : t.isOpaque e = true
    · have := (mem_opaque_iff hop).1 (memG_sound _ _ _ h)
      subst this
      exact memG_opaque _ _ hop
    · have hop' : t.isOpaque e = false := by simpa using hop
      cases t with
      | prim p => rw [memG_prim _ _ _ hop'] at h ⊢; exact h
      | strLit s =>
        cases v <;> simp_all [memG]
      | obj fs =>
        cases v with
        | obj kvs => rw [memG_obj_obj] at h ⊢; exact memRecord_mono ih h
        | _ => simp [memG] at h
      | arr t' =>
        cases v with
        | arr xs =>
          rw [memG_arr_arr] at h ⊢
          simp only [List.all_eq_true] at h ⊢
          exact fun x hx => ih _ _ (h x hx)
        | _ => simp [memG] at h
      | roArr t' =>
        cases v with
        | arr xs =>
          rw [memG_roArr_arr] at h ⊢
          simp only [List.all_eq_true] at h ⊢
          exact fun x hx => ih _ _ (h x hx)
        | _ => simp [memG] at h
      | union ts =>
        rw [memG_union] at h ⊢
        simp only [List.any_eq_true] at h ⊢
        obtain ⟨t', ht', hm⟩ := h
        exact ⟨t', ht', ih _ _ hm⟩
      | inter ts =>
        cases hv : objView e n (.inter ts) with
        | isObj fs =>
          have hv' : objView e (n + 1) (.inter ts) = .isObj fs := by
            rw [objView_succ _ _ (by rw [hv]; simp), hv]
          cases v with
          | obj kvs =>
            rw [memG_inter_isObj _ hv] at h
            rw [memG_inter_isObj _ hv']
            exact memRecord_mono ih h
          | _ => simp [memG, hv] at h
        | notObj =>
          have hv' : objView e (n + 1) (.inter ts) = .notObj := by
            rw [objView_succ _ _ (by rw [hv]; simp), hv]
          rw [memG_inter_notObj _ hv] at h
          rw [memG_inter_notObj _ hv']
          simp only [List.all_eq_true] at h ⊢
          exact fun x hx => ih _ _ (h x hx)
        | outOfFuel => simp [memG, hv] at h
      | other tag path =>
        by_cases htag : tag = "abs"
        · subst htag
          simp only [Ty.isOpaque, beq_self_eq_true, if_true] at hop'
          split at hop'
          · rename_i body hb
            rw [memG_abs_some _ hb] at h ⊢
            exact ih _ _ h
          · cases hop'
        · simp [Ty.isOpaque, htag] at hop'
      | app f as =>
        simp only [Ty.isOpaque, Option.isNone_eq_false_iff, Option.isSome_iff_exists] at hop'
        obtain ⟨t', ht'⟩ := hop'
        rw [memG_app_some _ ht'] at h ⊢
        exact ih _ _ h
      | ref _ => simp [Ty.isOpaque] at hop'
      | qref _ => simp [Ty.isOpaque] at hop'
      | numLit _ => simp [Ty.isOpaque] at hop'
      | fn _ _ => simp [Ty.isOpaque] at hop'
      | index _ _ => simp [Ty.isOpaque] at hop'
      | tuple _ => simp [Ty.isOpaque] at hop'

theorem memG_le {n m : Nat} {v : J} {t : Ty} (h : memG e n v t = true) (hle : n ≤ m) : memG e m v t = true :=
  mono_le (P := fun k => memG e k v t = true) (fun k hk => memG_succ k v t hk) h hle

/-! ### completeness -/

theorem memRecord_complete {mem : J → Ty → Bool} {fs : List Field} {kvs : List (String × J)}
    (h1 : ∀ f ∈ fs, ¬ (f.2.2.1 = true ∧ J.get kvs f.1 = .absent) → mem (J.get kvs f.1) f.2.2.2 = true)
    (h2 : ∀ kv ∈ kvs, kv.2 = .absent ∨ ∃ f ∈ fs, f.1 = kv.1) : memRecord mem fs kvs = true := by
  simp only [memRecord, Bool.and_eq_true, List.all_eq_true, Bool.or_eq_true, List.any_eq_true, beq_iff_eq]
  refine ⟨fun f hf => ?_, fun kv hkv => ?_⟩
  · by_cases hc : f.2.2.1 = true ∧ J.get kvs f.1 = .absent
    · left; rw [hc.1, hc.2]; simp [J.isAbsent]
    · exact Or.inr (h1 f hf hc)
  · rcases h2 kv hkv with h | ⟨f, hf, hk⟩
    · left; rw [h]; rfl
    · exact Or.inr ⟨f, hf, hk⟩

/-- COMPLETENESS of the membership procedure: every member is accepted with enough fuel. -/
theorem memG_complete {v : J} {t : Ty} (h : Mem e v t) : ∃ n, memG e n v t = true := by
  induction h with
  | prim p v hp => exact ⟨1, by rw [memG_prim _ _ _ (primMem_not_opaque hp)]; exact hp⟩
  | strLit s => exact ⟨1, memG_strLit_str _ _⟩
  | obj kvs fs h1 h2 ih =>
    obtain ⟨n, hn⟩ := exists_common_fuel_guard fs
      (fun f => ¬ (f.2.2.1 = true ∧ J.get kvs f.1 = .absent))
      (fun f n => memG e n (J.get kvs f.1) f.2.2.2 = true) (fun f n hm => memG_succ _ _ _ hm) ih
    exact ⟨n + 1, by rw [memG_obj_obj]; exact memRecord_complete hn h2⟩
  | arr xs t _ ih =>
    obtain ⟨n, hn⟩ := exists_common_fuel xs (fun x n => memG e n x t = true) (fun x n hm => memG_succ _ _ _ hm) ih
    exact ⟨n + 1, by rw [memG_arr_arr]; simpa [List.all_eq_true] using hn⟩
  | roArr xs t _ ih =>
    obtain ⟨n, hn⟩ := exists_common_fuel xs (fun x n => memG e n x t = true) (fun x n hm => memG_succ _ _ _ hm) ih
    exact ⟨n + 1, by rw [memG_roArr_arr]; simpa [List.all_eq_true] using hn⟩
  | union v ts t ht _ ih =>
    obtain ⟨n, hn⟩ := ih
    exact ⟨n + 1, by rw [memG_union]; exact List.any_eq_true.2 ⟨t, ht, hn⟩⟩
  | interObj v ts fs n hv hm ih =>
    obtain ⟨m, hm'⟩ := ih
    obtain ⟨kvs, rfl, _⟩ := mem_obj_iff.1 hm
    cases m with
    | zero => simp [memG] at hm'
    | succ m =>
      rw [memG_obj_obj] at hm'
      refine ⟨max n m + 1, ?_⟩
      have hv' : objView e (max n m) (.inter ts) = .isObj fs := by
        rw [objView_le (by rw [hv]; simp) (Nat.le_max_left n m), hv]
      rw [memG_inter_isObj _ hv']
      exact memRecord_mono (fun v t h => memG_le h (Nat.le_max_right n m)) hm'
  | interAll v ts n hv _ ih =>
    obtain ⟨m, hm⟩ := exists_common_fuel ts (fun t k => memG e k v t = true) (fun t k h => memG_succ _ _ _ h) ih
    refine ⟨max n m + 1, ?_⟩
    have hv' : objView e (max n m) (.inter ts) = .notObj := by
      rw [objView_le (by rw [hv]; simp) (Nat.le_max_left n m), hv]
    rw [memG_inter_notObj _ hv']
    simp only [List.all_eq_true]
    exact fun t ht => memG_le (hm t ht) (Nat.le_max_right n m)
  | alias v path body hb _ ih =>
    obtain ⟨n, hn⟩ := ih
    exact ⟨n + 1, by rw [memG_abs_some _ hb]; exact hn⟩
  | hook v f as t' hh _ ih =>
    obtain ⟨n, hn⟩ := ih
    exact ⟨n + 1, by rw [memG_app_some _ hh]; exact hn⟩
  | opaqueTy t ho => exact ⟨1, memG_opaque _ _ ho⟩

/-- the relation of the theorems and the executable procedure of the O streams agree -/
theorem mem_iff_memG {v : J} {t : Ty} : Mem e v t ↔ ∃ n, memG e n v t = true :=
  ⟨memG_complete, fun ⟨n, h⟩ => memG_sound n v t h⟩

end NitroVerif.Ts
