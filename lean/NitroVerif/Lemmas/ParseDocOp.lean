/-
Operations and fragments (helper lemmas for Props/C07Doc): `VariablesDefinition`, `OperationDefinition` (with its keyword
or as the `{ … }` shorthand), `FragmentDefinition`, `ExecutableDefinition`.
-/
import NitroVerif.Lemmas.ParseDocVar
import NitroVerif.Lemmas.ParseDocSelMain
namespace NitroVerif.DocParse
open NitroVerif.Peg NitroVerif.Gen NitroVerif.Gen.Parts NitroVerif.Build NitroVerif.TypeParse NitroVerif.StringParse
open NitroVerif.Gql NitroVerif.ValueParse NitroVerif.Spec.Lex NitroVerif.ParseText

set_option linter.unusedSimpArgs false

theorem look_OperationDefinition : gList.look R.OperationDefinition = some (.normal, .choice
    (.seq (.call R.OperationType) (.seq (.opt (.call R.Name)) (.seq (.opt (.call R.VariablesDefinition))
      (.seq (.opt (.call R.Directives)) (.call R.SelectionSet))))) (.call R.SelectionSet)) := rfl
theorem look_FragmentDefinition : gList.look R.FragmentDefinition = some (.normal, .seq (.call R.KEYWORD_fragment)
    (.seq (.call R.FragmentName) (.seq (.call R.TypeCondition) (.seq (.opt (.call R.Directives))
      (.call R.SelectionSet))))) := rfl
theorem look_ExecutableDefinition : gList.look R.ExecutableDefinition = some (.normal, .choice
    (.call R.OperationDefinition) (.choice (.call R.FragmentDefinition) (.call R.ext_ImportStatement))) := rfl
theorem look_KEYWORD_fragment : gList.look R.KEYWORD_fragment =
    some (.atomic, .seq (.str ['f', 'r', 'a', 'g', 'm', 'e', 'n', 't']) (.not (.call R.NameContinue))) := rfl

variable {inp : List Char}

/-! ### variable definitions in parentheses -/

def rVarDefs (τ : Trivia) (p : Nat) (vs : List VarDef) : List Char := renderItems (rVarDef τ) false false p vs

def wpVarDefs (τ : Trivia) (inp : List Char) (p : Nat) (vs : List VarDef) : List VarDef :=
  mapItems (rVarDef τ) false false (wpVarDef τ inp) p vs

/-- `( gap definitions ) gap`, nothing for an empty list -/
def rOptVars (τ : Trivia) (sep : Bool) (p : Nat) : List VarDef → List Char
  | [] => []
  | v :: vs =>
    let tO := tk τ false p ['(']
    let tI := rVarDefs τ (p + tO.length) (v :: vs)
    tO ++ (tI ++ tk τ sep (p + tO.length + tI.length) [')'])

theorem hd_rOptVars (τ : Trivia) (sep : Bool) (p : Nat) (vs : List VarDef) :
    rOptVars τ sep p vs = [] ∨ Hd (· = '(') (rOptVars τ sep p vs) := by
  cases vs with
  | nil => exact Or.inl rfl
  | cons v vs => exact Or.inr (Hd.append (hd_tk (P := (· = '(')) (hd_cons [] rfl)) _)

def VarGood (τ : Trivia) (inp : List Char) : Bool → Nat → VarDef → Pair → Prop := fun s q v pr =>
  PairOk R.VariableDefinition q pr ∧
    ∀ fuel, (rVarDef τ s q v).length ≤ fuel → buildVariableDefinition (Ctx.spec inp) fuel pr = .ok (wpVarDef τ inp s q v)

theorem variableDefinition_fails {p : Nat} (h : HeadNot (· = '$') (inp.drop p)) :
    Fails gList 10 true (.call R.VariableDefinition) .nonAtomic (At inp p) :=
  (fails_rule look_VariableDefinition (by decide) (by decide)
    (fails_seq_1 (fails_call (variable_fails h)))).mono (by omega)

theorem variablesDefinition_fails {p : Nat} (h : HeadNot (· = '(') (inp.drop p)) :
    Fails gList 4 true (.call R.VariablesDefinition) .nonAtomic (At inp p) :=
  fails_rule look_VariablesDefinition (by decide) (by decide) (fails_seq_1 (str_fails h))

/-- the variable definitions as `build_executable_definition` treats them -/
def optVarsB (ctx : Ctx) (fuel : Nat) : Option Pair → M (List VarDef)
  | some v => buildVariablesDefinition ctx fuel v
  | none => .ok []

theorem buildVariablesDefinition_eq (ctx : Ctx) (fuel : Nat) (s e : Nat) (cs : List Pair)
    (hcs : allChildrenGo AC_VariablesDefinition cs = .ok ()) :
    buildVariablesDefinition ctx fuel (.mk R.VariablesDefinition s e cs) =
      cs.mapM (buildVariableDefinition ctx fuel) := by
  simp [buildVariablesDefinition, allChildren, Pair.children, hcs, bind, Except.bind]

/-- `VariablesDefinition?` -/
theorem optVarsT (τ : Trivia) (hτ : ∀ q, Ws (τ q)) (vs : List VarDef) (hwf : ∀ v ∈ vs, WFVarDef v) {sep : Bool} {p : Nat}
    {bad : Char → Prop} (hb : bad '(') (h : HasAt inp p (rOptVars τ sep p vs))
    (hn : Nxt inp bad sep (p + (rOptVars τ sep p vs).length)) :
    ∃ o : Option Pair, RunsK (B (rOptVars τ sep p vs).length + 10) (.opt (.call R.VariablesDefinition)) (At inp p)
        (At inp (p + (rOptVars τ sep p vs).length)) o.toList ∧ (∀ x ∈ o, PairOk R.VariablesDefinition p x) ∧
      ∀ fuel, (rOptVars τ sep p vs).length ≤ fuel →
        optVarsB (Ctx.spec inp) fuel o = .ok (wpVarDefs τ inp (p + (tk τ false p ['(']).length) vs) := by
  cases vs with
  | nil =>
    have hn' : Nxt inp bad sep p := by simpa [rOptVars] using hn
    refine ⟨none, ?_, by simp, fun _ _ => rfl⟩
    have := runsK_opt_none (variablesDefinition_fails (headNot_mono (fun c (hc : c = '(') => hc ▸ hb) hn'.ok)) hn'.tok
    simp only [rOptVars, List.length_nil, Nat.add_zero, Option.toList_none]
    exact this.mono (by barith)
  | cons a r =>
    simp only [rOptVars, rVarDefs, wpVarDefs] at h hn ⊢
    generalize hO : tk τ false p ['('] = tO at *
    generalize hI : renderItems (rVarDef τ) false false (p + tO.length) (a :: r) = tI at *
    generalize hC : tk τ sep (p + tO.length + tI.length) [')'] = tC at *
    have hlen : p + (tO ++ (tI ++ tC)).length = p + tO.length + tI.length + tC.length := by
      simp only [List.length_append]; omega
    rw [hlen] at hn ⊢
    have g0 : HasAt inp p tO := h.left
    have g1 : HasAt inp (p + tO.length) tI := h.right.left
    have g2 : HasAt inp (p + tO.length + tI.length) tC := h.right.right
    have hdC : Hd (· = ')') tC := hC ▸ hd_tk (hd_cons _ rfl)
    have hlO : 1 ≤ tO.length := by rw [← hO]; simp [tk]
    have hlC : 1 ≤ tC.length := hdC.length_pos
    have hnE : Nxt inp varBad false (p + tO.length + tI.length) := Nxt.of_hd g2 hdC (by rintro c rfl; decide)
    have hfail : Fails gList (30 + 100) true (.call R.VariableDefinition) .nonAtomic (At inp (p + tO.length + tI.length)) :=
      (variableDefinition_fails (headNot_of_hd g2 hdC (by rintro c rfl; decide))).mono (by omega)
    obtain ⟨pss, hmany, hgood⟩ := items_many1K (rVarDef τ) false false (.call R.VariableDefinition) (fun _ => varBad) 30
      (VarGood τ inp) r a (p + tO.length)
      (fun x hx s q hat hnx => by
        obtain ⟨pr, hr, hok, hbd⟩ := varDefT τ hτ x (hwf x hx) hat hnx
        exact ⟨pr, hr, hok, hbd⟩)
      (fun x _ s q => (hd_rVarDef τ s q x).mono (by rintro c rfl; decide))
      (hI ▸ g1) (by rw [hI]; exact hnE) (by rw [hI]; exact hfail)
    rw [hI] at hmany
    have hTokI : Tok (At inp (p + tO.length)) := by
      obtain ⟨s', tail, htl⟩ := renderItems_cons (rVarDef τ) false false (p + tO.length) a r
      exact tok_of_hd g1 (hI ▸ htl ▸ (hd_rVarDef τ s' _ a).append _) (by rintro c rfl; decide)
    have r0 := strT hτ ['('] (hO ▸ g0) (by rw [hO]; exact hTokI)
    have r2 := strT hτ [')'] (hC ▸ g2) (by rw [hC]; exact hn.tok)
    rw [hO] at r0
    rw [hC] at r2
    obtain ⟨e, rS⟩ := runsK_rule look_VariablesDefinition (by decide) (by decide)
      (runsK_seq r0 (runsK_seq (runsK_plus1 hmany) r2))
    have hclean : CleanL pss := goodItems_clean (rVarDef τ) false false (VarGood τ inp) (a :: r)
      (fun x _ s q pr hg => hg.1.clean) _ pss hgood
    refine ⟨some (.mk R.VariablesDefinition p e pss), ?_, ?_, ?_⟩
    · exact RunsK.cast ((runsK_opt_some rS).mono (by barith)) rfl rfl (by simp [At])
    · intro x hx
      cases hx
      exact pairOk_mk (by decide) (by decide) hclean
    · intro fuel hf
      have hall' := goodItems_all (rVarDef τ) false false (VarGood τ inp) R.VariableDefinition (a :: r)
        (fun x _ s q pr hg => hg.1.rule) _ pss hgood
      simp only [optVarsB]
      rw [buildVariablesDefinition_eq _ _ _ _ _ hall']
      exact goodItems_mapM (rVarDef τ) false false (VarGood τ inp) (buildVariableDefinition (Ctx.spec inp) fuel)
        (wpVarDef τ inp) fuel (a :: r) (fun x _ s q pr hg hl => hg.2 fuel hl) _ pss
        (by rw [hI]; simp only [List.length_append] at hf; omega) hgood


/-! ### operations -/

def opKw : OpKind → List Char
  | .query => ['q', 'u', 'e', 'r', 'y']
  | .mutation => ['m', 'u', 't', 'a', 't', 'i', 'o', 'n']
  | .subscription => ['s', 'u', 'b', 's', 'c', 'r', 'i', 'p', 't', 'i', 'o', 'n']

def opKwRule : OpKind → RuleId
  | .query => R.KEYWORD_query
  | .mutation => R.KEYWORD_mutation
  | .subscription => R.KEYWORD_subscription

theorem strToOperationType_opKw (k : OpKind) : strToOperationType (opKw k) = .ok k := by
  have h1 : "query".toList = ['q', 'u', 'e', 'r', 'y'] := by decide
  have h2 : "mutation".toList = ['m', 'u', 't', 'a', 't', 'i', 'o', 'n'] := by decide
  have h3 : "subscription".toList = ['s', 'u', 'b', 's', 'c', 'r', 'i', 'p', 't', 'i', 'o', 'n'] := by decide
  cases k <;> simp [strToOperationType, opKw, h1, h2, h3]

/-- the `OperationType` rule on one of the three keywords, with the exact end of its pair -/
theorem opTypeT {τ : Trivia} (hτ : ∀ q, Ws (τ q)) (k : OpKind) {s : Bool} {p : Nat} {bad : Char → Prop}
    (h : HasAt inp p (tk τ s p (opKw k))) (hn : Nxt inp bad s (p + (tk τ s p (opKw k)).length)) :
    RunsKE (B (tk τ s p (opKw k)).length + 10) (.call R.OperationType) (At inp p) (At inp (p + (opKw k).length))
      (At inp (p + (tk τ s p (opKw k)).length))
      [.mk R.OperationType p (p + (opKw k).length) [.mk (opKwRule k) p (p + (opKw k).length) []]] := by
  have hk : HasAt inp p (opKw k) := h.left
  cases k with
  | query =>
    simp only [opKw] at h hn hk ⊢
    have r := kwT hτ look_KEYWORD_query h hn
    have := runsKE_rule look_OperationType (by decide) (by decide)
      (runsKE_choice_l (b := .choice (.call R.KEYWORD_mutation) (.call R.KEYWORD_subscription)) r)
    exact RunsKE.cast (this.mono (by omega)) rfl rfl rfl (by simp [At, opKwRule, opKw])
  | mutation =>
    simp only [opKw] at h hn hk ⊢
    have r := kwT hτ look_KEYWORD_mutation h hn
    have f1 := kw_fails_head (la := .none) look_KEYWORD_query
      (headNot_of_hd hk (hd_cons (P := (· = 'm')) _ rfl) (by rintro c rfl; decide))
    have := runsKE_rule look_OperationType (by decide) (by decide)
      (runsKE_choice_r f1 (runsKE_choice_l (b := .call R.KEYWORD_subscription) r))
    exact RunsKE.cast (this.mono (by barith)) rfl rfl rfl (by simp [At, opKwRule, opKw])
  | subscription =>
    simp only [opKw] at h hn hk ⊢
    have r := kwT hτ look_KEYWORD_subscription h hn
    have f1 := kw_fails_head (la := .none) look_KEYWORD_query
      (headNot_of_hd hk (hd_cons (P := (· = 's')) _ rfl) (by rintro c rfl; decide))
    have f2 := kw_fails_head (la := .none) look_KEYWORD_mutation
      (headNot_of_hd hk (hd_cons (P := (· = 's')) _ rfl) (by rintro c rfl; decide))
    have := runsKE_rule look_OperationType (by decide) (by decide)
      (runsKE_choice_r f1 (runsKE_choice_r f2 r))
    exact RunsKE.cast (this.mono (by barith)) rfl rfl rfl (by simp [At, opKwRule, opKw])

theorem opType_fails {p : Nat} (h : HeadNot (fun c => c = 'q' ∨ c = 'm' ∨ c = 's') (inp.drop p)) :
    Fails gList 20 true (.call R.OperationType) .nonAtomic (At inp p) :=
  (fails_rule look_OperationType (by decide) (by decide)
    (fails_choice_K (kw_fails_head (la := .none) look_KEYWORD_query (headNot_mono (fun _ h => Or.inl h) h))
      (fails_choice_K (kw_fails_head (la := .none) look_KEYWORD_mutation (headNot_mono (fun _ h => Or.inr (Or.inl h)) h))
        (kw_fails_head (la := .none) look_KEYWORD_subscription (headNot_mono (fun _ h => Or.inr (Or.inr h)) h))))).mono
    (by simp)

/-- the optional name of an operation -/
def rOptName (τ : Trivia) (p : Nat) : Option (Name × Pos) → List Char
  | none => []
  | some (n, _) => tk τ false p n.toList

theorem hd_rOptName (τ : Trivia) (p : Nat) (n : Option (Name × Pos)) (hv : ∀ a ∈ n, validName a.1.toList) :
    rOptName τ p n = [] ∨ Hd nameStart (rOptName τ p n) := by
  cases n with
  | none => exact Or.inl rfl
  | some a => exact Or.inr (hd_tk (hd_of_validName (hv a rfl)))

theorem optNameT {τ : Trivia} (hτ : ∀ q, Ws (τ q)) (n : Option (Name × Pos)) (hv : ∀ a ∈ n, validName a.1.toList)
    {p : Nat} {bad : Char → Prop} (hbad : ∀ d, nameStart d → bad d) (h : HasAt inp p (rOptName τ p n))
    (hn : Nxt inp bad false (p + (rOptName τ p n).length)) :
    ∃ o : Option Pair, RunsK (B (rOptName τ p n).length + 5) (.opt (.call R.Name)) (At inp p)
        (At inp (p + (rOptName τ p n).length)) o.toList ∧
      ((n = none ∧ o = none) ∨ ∃ a ap, n = some (a, ap) ∧ o = some (.mk R.Name p (p + a.toList.length) []) ∧
        HasAt inp p a.toList) := by
  cases n with
  | none =>
    have hn' : Nxt inp bad false p := by simpa [rOptName] using hn
    refine ⟨none, ?_, Or.inl ⟨rfl, rfl⟩⟩
    have := runsK_opt_none (name_fails_at (headNot_mono hbad hn'.ok)) hn'.tok
    simp only [rOptName, List.length_nil, Nat.add_zero, Option.toList_none]
    exact this.mono (by barith)
  | some aa =>
    obtain ⟨a, ap⟩ := aa
    simp only [rOptName] at h hn ⊢
    have hva : validName a.toList := hv (a, ap) rfl
    have r := nameT hτ hva h hn
    exact ⟨some (.mk R.Name p (p + a.toList.length) []), (runsK_opt_some r.toK).mono (by omega),
      Or.inr ⟨a, ap, rfl, rfl, h.left⟩⟩

/-- an operation written with its keyword -/
def rOp (τ : Trivia) (sep : Bool) (p : Nat) (o : OperationDef) : List Char :=
  let tK := tk τ o.name.isSome p (opKw o.kind)
  let tN := rOptName τ (p + tK.length) o.name
  let tV := rOptVars τ false (p + tK.length + tN.length) o.vars
  let tD := rDirs τ false (p + tK.length + tN.length + tV.length) o.dirs
  tK ++ (tN ++ (tV ++ (tD ++ rSelSet τ sep (p + tK.length + tN.length + tV.length + tD.length) o.sel)))

def wpOp (τ : Trivia) (inp : List Char) (p : Nat) (o : OperationDef) : OperationDef :=
  let tK := tk τ o.name.isSome p (opKw o.kind)
  let tN := rOptName τ (p + tK.length) o.name
  let tV := rOptVars τ false (p + tK.length + tN.length) o.vars
  let tD := rDirs τ false (p + tK.length + tN.length + tV.length) o.dirs
  { kind := o.kind, name := o.name.map (fun n => (n.1, posAt inp (p + tK.length))),
    vars := wpVarDefs τ inp (p + tK.length + tN.length + (tk τ false (p + tK.length + tN.length) ['(']).length) o.vars,
    dirs := wpDirs τ inp false (p + tK.length + tN.length + tV.length) o.dirs,
    sel := wpSels τ inp (p + tK.length + tN.length + tV.length + tD.length +
      (tk τ false (p + tK.length + tN.length + tV.length + tD.length) ['{']).length) o.sel,
    pos := posAt inp p }

/-- the anonymous query shorthand `{ … }` -/
def wpOpShort (τ : Trivia) (inp : List Char) (p : Nat) (o : OperationDef) : OperationDef :=
  { kind := .query, name := none, vars := [], dirs := [],
    sel := wpSels τ inp (p + (tk τ false p ['{']).length) o.sel, pos := posAt inp p }

def WFOp (o : OperationDef) : Prop :=
  (∀ n ∈ o.name, validName n.1.toList) ∧ (∀ v ∈ o.vars, WFVarDef v) ∧ WFDirs o.dirs ∧ o.sel ≠ [] ∧ WFSels o.sel

theorem p_op_nodup : (P_OperationDefinition.map itemRule).Nodup := by decide

theorem hd_opKw (k : OpKind) : Hd (fun c => c = 'q' ∨ c = 'm' ∨ c = 's') (opKw k) := by
  cases k
  · exact hd_cons _ (Or.inl rfl)
  · exact hd_cons _ (Or.inr (Or.inl rfl))
  · exact hd_cons _ (Or.inr (Or.inr rfl))

/-- the round-trip statement for one executable definition written at `p` with the text `t` -/
def DefOk (inp : List Char) (p : Nat) (t : List Char) (d : ExecDef) : Prop :=
  ∃ pr, RunsK (B t.length + 40) (.call R.ExecutableDefinition) (At inp p) (At inp (p + t.length)) [pr] ∧
    PairOk R.ExecutableDefinition p pr ∧
    ∀ fuel, t.length ≤ fuel → buildExecutableDefinition (Ctx.spec inp) fuel pr = .ok d

theorem opT (τ : Trivia) (hτ : ∀ q, Ws (τ q)) (o : OperationDef) (hwf : WFOp o) {sep : Bool} {p : Nat}
    (h : HasAt inp p (rOp τ sep p o)) (ht : Tok (At inp (p + (rOp τ sep p o).length))) :
    DefOk inp p (rOp τ sep p o) (.op (wpOp τ inp p o)) := by
  obtain ⟨hname, hvars, hdirs, hne, hsel⟩ := hwf
  unfold DefOk
  simp only [rOp, wpOp] at h ht ⊢
  generalize hsK : o.name.isSome = sK at *
  generalize hK : tk τ sK p (opKw o.kind) = tK at *
  generalize hN : rOptName τ (p + tK.length) o.name = tN at *
  generalize hV : rOptVars τ false (p + tK.length + tN.length) o.vars = tV at *
  generalize hD : rDirs τ false (p + tK.length + tN.length + tV.length) o.dirs = tD at *
  generalize hS : rSelSet τ sep (p + tK.length + tN.length + tV.length + tD.length) o.sel = tS at *
  have hlen : p + (tK ++ (tN ++ (tV ++ (tD ++ tS)))).length =
      p + tK.length + tN.length + tV.length + tD.length + tS.length := by
    simp only [List.length_append]; omega
  rw [hlen] at ht ⊢
  have g0 : HasAt inp p tK := h.left
  have g1 : HasAt inp (p + tK.length) tN := h.right.left
  have g2 : HasAt inp (p + tK.length + tN.length) tV := h.right.right.left
  have g3 : HasAt inp (p + tK.length + tN.length + tV.length) tD := h.right.right.right.left
  have g4 : HasAt inp (p + tK.length + tN.length + tV.length + tD.length) tS := h.right.right.right.right
  have hdS : Hd (· = '{') tS := hS ▸ hd_rSelSet τ sep _ o.sel
  have hlK : 1 ≤ tK.length := (hK ▸ hd_tk (hd_opKw o.kind)).length_pos
  have hlS := hdS.length_pos
  -- what follows the directives, the variable definitions, the name
  have n4 : Nxt inp (fun c => c = '(' ∨ c = '@' ∨ nameStart c) false (p + tK.length + tN.length + tV.length + tD.length) :=
    Nxt.of_hd g4 hdS (by rintro c rfl; decide)
  have n3 : Nxt inp (fun c => c = '(' ∨ nameStart c) false (p + tK.length + tN.length + tV.length) :=
    Nxt.rest g3 n4 (hD ▸ hd_rDirs τ false _ o.dirs) (P := (· = '@')) (by rintro c rfl; decide)
      (fun c hc => hc.elim Or.inl (fun h => Or.inr (Or.inr h))) (fun _ _ => rfl)
  have n2 : Nxt inp (fun c => nameStart c) false (p + tK.length + tN.length) :=
    Nxt.rest g2 n3 (hV ▸ hd_rOptVars τ false _ o.vars) (P := (· = '(')) (by rintro c rfl; decide)
      (fun c hc => Or.inr hc) (fun _ _ => rfl)
  -- the keyword
  have n1 : Nxt inp (fun _ => False) sK (p + tK.length) := by
    cases hnm : o.name with
    | none =>
      have htN : tN = [] := by rw [← hN, hnm]; rfl
      subst htN
      have : Nxt inp (fun c => nameStart c) false (p + tK.length) := by simpa using n2
      rw [← hsK, hnm]
      exact ⟨this.tok, fun _ _ _ h => h, this.glue⟩
    | some a =>
      rw [← hsK, hnm]
      exact Nxt.of_hd_sep g1 (hN ▸ hnm ▸ hd_tk (hd_of_validName (hname a (hnm ▸ rfl))))
        (fun d hd => ⟨nameStart_not_trivia hd, id⟩)
  have rK := opTypeT hτ o.kind (hK ▸ g0) (by rw [hK]; exact n1)
  rw [hK] at rK
  obtain ⟨oN, rN, hbN⟩ := optNameT hτ o.name hname (bad := fun c => nameStart c) (fun _ h => h) (hN ▸ g1)
    (by rw [hN]; exact n2)
  rw [hN] at rN
  obtain ⟨oV, rV, hokV, hbV⟩ := optVarsT τ hτ o.vars hvars (bad := fun c => c = '(' ∨ nameStart c) (Or.inl rfl)
    (hV ▸ g2) (by rw [hV]; exact n3)
  rw [hV] at rV hbV
  obtain ⟨oD, rD, hokD, _, hbD⟩ := optDirsT τ hτ o.dirs hdirs (bad := fun c => c = '(' ∨ c = '@' ∨ nameStart c)
    (Or.inl rfl) (Or.inr (Or.inl rfl)) (hD ▸ g3) (by rw [hD]; exact n4)
  rw [hD] at rD hbD
  obtain ⟨prS, rS, hokS, hbS⟩ := selSet_all τ hτ o.sel hne hsel sep _ (hS ▸ g4) (by rw [hS]; exact ht)
  rw [hS] at rS hbS
  obtain ⟨e, rO⟩ := runsK_rule look_OperationDefinition (by decide) (by decide)
    (runsK_choice_l (b := .call R.SelectionSet) (runsK_seq rK.toK (runsK_seq rN (runsK_seq rV (runsK_seq rD rS)))))
  obtain ⟨e', rE⟩ := runsK_rule look_ExecutableDefinition (by decide) (by decide)
    (runsK_choice_l (b := .choice (.call R.FragmentDefinition) (.call R.ext_ImportStatement)) rO)
  have hcleanN : CleanL oN.toList := by
    rcases hbN with ⟨_, rfl⟩ | ⟨a, ap, _, rfl, _⟩
    · trivial
    · exact ⟨cleanP_of (by decide) (by decide) trivial, trivial⟩
  refine ⟨_, rE.mono (by barith), ?_, ?_⟩
  · refine pairOk_mk (by decide) (by decide) ⟨cleanP_of (by decide) (by decide) ?_, trivial⟩
    simp only [cleanL_append, cleanL_cons, cleanL_nil, and_true]
    refine ⟨cleanP_of (by decide) (by decide) ⟨cleanP_of ?_ ?_ trivial, trivial⟩, hcleanN,
      clean_opt (fun x hx => (hokV x hx).clean), clean_opt (fun x hx => (hokD x hx).clean), hokS.clean⟩
    all_goals cases o.kind <;> decide
  · intro fuel hf
    have hf' : tK.length + (tN.length + (tV.length + (tD.length + tS.length))) ≤ fuel := by simpa using hf
    have hch : [Pair.mk R.OperationType p (p + (opKw o.kind).length)
          [Pair.mk (opKwRule o.kind) p (p + (opKw o.kind).length) []]] ++
          (oN.toList ++ (oV.toList ++ (oD.toList ++ [prS]))) =
        slotPairs [some (Pair.mk R.OperationType p (p + (opKw o.kind).length)
          [Pair.mk (opKwRule o.kind) p (p + (opKw o.kind).length) []]), oN, oV, oD, some prS] := by simp [slotPairs]
    rw [hch]
    have hNr : ∀ x ∈ oN, x.rule = R.Name := by
      rcases hbN with ⟨_, rfl⟩ | ⟨a, ap, _, rfl, _⟩
      · simp
      · intro x hx; cases hx; rfl
    have hm := matchParts_slots P_OperationDefinition _ p_op_nodup
      (show slotsOk P_OperationDefinition [some (Pair.mk R.OperationType p (p + (opKw o.kind).length)
          [Pair.mk (opKwRule o.kind) p (p + (opKw o.kind).length) []]), oN, oV, oD, some prS] from
        ⟨fun x hx => by cases hx; rfl, hNr, fun x hx => (hokV x hx).rule, fun x hx => (hokD x hx).rule,
          ⟨_, rfl, hokS.rule⟩, trivial⟩)
    have hkw : asStr (Ctx.spec inp) (Pair.mk R.OperationType p (p + (opKw o.kind).length)
        [Pair.mk (opKwRule o.kind) p (p + (opKw o.kind).length) []]) = opKw o.kind :=
      (hK ▸ g0 : HasAt inp p (tk τ sK p (opKw o.kind))).left.slice
    have hfV := hbV fuel (by omega)
    have hfD := hbD fuel (by omega)
    have hfS := hbS fuel (by omega)
    cases oV with
    | none =>
      have hv0 : wpVarDefs τ inp (p + tK.length + tN.length + (tk τ false (p + tK.length + tN.length) ['(']).length)
          o.vars = [] := by simpa [optVarsB] using hfV.symm
      rcases hbN with ⟨hn0, rfl⟩ | ⟨a, ap, hn0, rfl, ha⟩
      · simp [buildExecutableDefinition, onlyChildOf, onlyChild, Pair.children, OC_ExecutableDefinition, Pair.rule, hm,
          Pair.start, Pair.stop, hkw, strToOperationType_opKw, hv0, hfD, hfS, hn0, At, toPos_spec',
          bind, Except.bind, pure, Except.pure, R.OperationDefinition]
      · have hsa := ha.slice
        simp [buildExecutableDefinition, onlyChildOf, onlyChild, Pair.children, OC_ExecutableDefinition, Pair.rule, hm,
          Pair.start, Pair.stop, hkw, strToOperationType_opKw, hv0, hfD, hfS, hn0, At, toPos_spec', ident,
          asString_spec', hsa, bind, Except.bind, pure, Except.pure, R.OperationDefinition]
    | some v =>
      simp only [optVarsB] at hfV
      rcases hbN with ⟨hn0, rfl⟩ | ⟨a, ap, hn0, rfl, ha⟩
      · simp [buildExecutableDefinition, onlyChildOf, onlyChild, Pair.children, OC_ExecutableDefinition, Pair.rule, hm,
          Pair.start, Pair.stop, hkw, strToOperationType_opKw, hfV, hfD, hfS, hn0, At, toPos_spec',
          bind, Except.bind, pure, Except.pure, R.OperationDefinition]
      · have hsa := ha.slice
        simp [buildExecutableDefinition, onlyChildOf, onlyChild, Pair.children, OC_ExecutableDefinition, Pair.rule, hm,
          Pair.start, Pair.stop, hkw, strToOperationType_opKw, hfV, hfD, hfS, hn0, At, toPos_spec', ident,
          asString_spec', hsa, bind, Except.bind, pure, Except.pure, R.OperationDefinition]


theorem opDef_fails {p : Nat} (h : HeadNot (fun c => c = 'q' ∨ c = 'm' ∨ c = 's' ∨ c = '{') (inp.drop p)) :
    Fails gList 30 true (.call R.OperationDefinition) .nonAtomic (At inp p) :=
  (fails_rule look_OperationDefinition (by decide) (by decide)
    (fails_choice_K (fails_seq_1 (opType_fails (headNot_mono (fun c hc => hc.elim Or.inl (fun h => h.elim
        (fun h => Or.inr (Or.inl h)) (fun h => Or.inr (Or.inr (Or.inl h))))) h)))
      (selectionSet_fails (headNot_mono (fun c hc => Or.inr (Or.inr (Or.inr hc))) h)))).mono (by simp)

/-- the `{ … }` shorthand -/
theorem opShortT (τ : Trivia) (hτ : ∀ q, Ws (τ q)) (o : OperationDef) (hne : o.sel ≠ []) (hsel : WFSels o.sel)
    {sep : Bool} {p : Nat} (h : HasAt inp p (rSelSet τ sep p o.sel))
    (ht : Tok (At inp (p + (rSelSet τ sep p o.sel).length))) :
    DefOk inp p (rSelSet τ sep p o.sel) (.op (wpOpShort τ inp p o)) := by
  unfold DefOk
  obtain ⟨prS, rS, hokS, hbS⟩ := selSet_all τ hτ o.sel hne hsel sep p h ht
  have hdS := hd_rSelSet τ sep p o.sel
  have f1 : Fails gList 25 true (.seq (.call R.OperationType) (.seq (.opt (.call R.Name))
      (.seq (.opt (.call R.VariablesDefinition)) (.seq (.opt (.call R.Directives)) (.call R.SelectionSet)))))
      .nonAtomic (At inp p) :=
    (fails_seq_1 (opType_fails (headNot_of_hd h hdS (by rintro c rfl; decide)))).mono (by omega)
  obtain ⟨e, rO⟩ := runsK_rule look_OperationDefinition (by decide) (by decide) (runsK_choice_r f1 rS)
  obtain ⟨e', rE⟩ := runsK_rule look_ExecutableDefinition (by decide) (by decide)
    (runsK_choice_l (b := .choice (.call R.FragmentDefinition) (.call R.ext_ImportStatement)) rO)
  refine ⟨_, rE.mono (by barith), ?_, ?_⟩
  · exact pairOk_mk (by decide) (by decide) ⟨cleanP_of (by decide) (by decide) ⟨hokS.clean, trivial⟩, trivial⟩
  · intro fuel hf
    have hch : [prS] = slotPairs [none, none, none, none, some prS] := by simp [slotPairs]
    rw [hch]
    have hm := matchParts_slots P_OperationDefinition _ p_op_nodup
      (show slotsOk P_OperationDefinition [none, none, none, none, some prS] from
        ⟨(fun x hx => by cases hx), (fun x hx => by cases hx), (fun x hx => by cases hx), (fun x hx => by cases hx),
          ⟨_, rfl, hokS.rule⟩, trivial⟩)
    have hfS := hbS fuel hf
    simp [buildExecutableDefinition, onlyChildOf, onlyChild, Pair.children, OC_ExecutableDefinition, Pair.rule, hm,
      optDirs, hfS, At, toPos_spec', Pair.start, bind, Except.bind, pure, Except.pure, R.OperationDefinition, wpOpShort]

/-! ### fragment definitions -/

abbrev kwFragment : List Char := ['f', 'r', 'a', 'g', 'm', 'e', 'n', 't']

def rFrag (τ : Trivia) (sep : Bool) (p : Nat) (f : FragmentDef) : List Char :=
  let tK := tk τ true p kwFragment
  let tN := tk τ true (p + tK.length) f.name.toList
  let tC := rCond τ false (p + tK.length + tN.length) (some (f.cond, f.condPos))
  let tD := rDirs τ false (p + tK.length + tN.length + tC.length) f.dirs
  tK ++ (tN ++ (tC ++ (tD ++ rSelSet τ sep (p + tK.length + tN.length + tC.length + tD.length) f.sel)))

def wpFrag (τ : Trivia) (inp : List Char) (p : Nat) (f : FragmentDef) : FragmentDef :=
  let tK := tk τ true p kwFragment
  let tN := tk τ true (p + tK.length) f.name.toList
  let tC := rCond τ false (p + tK.length + tN.length) (some (f.cond, f.condPos))
  let tD := rDirs τ false (p + tK.length + tN.length + tC.length) f.dirs
  { name := f.name, namePos := posAt inp (p + tK.length), cond := f.cond,
    condPos := posAt inp (p + tK.length + tN.length + (tk τ true (p + tK.length + tN.length) kwOn).length),
    dirs := wpDirs τ inp false (p + tK.length + tN.length + tC.length) f.dirs,
    sel := wpSels τ inp (p + tK.length + tN.length + tC.length + tD.length +
      (tk τ false (p + tK.length + tN.length + tC.length + tD.length) ['{']).length) f.sel,
    pos := posAt inp p }

def WFFrag (f : FragmentDef) : Prop :=
  validName f.name.toList ∧ f.name.toList ≠ kwOn ∧ validName f.cond.toList ∧ WFDirs f.dirs ∧ f.sel ≠ [] ∧ WFSels f.sel

theorem p_frag_nodup : (P_FragmentDefinition.map itemRule).Nodup := by decide

theorem fragT (τ : Trivia) (hτ : ∀ q, Ws (τ q)) (f : FragmentDef) (hwf : WFFrag f) {sep : Bool} {p : Nat}
    (h : HasAt inp p (rFrag τ sep p f)) (ht : Tok (At inp (p + (rFrag τ sep p f).length))) :
    DefOk inp p (rFrag τ sep p f) (.frag (wpFrag τ inp p f)) := by
  obtain ⟨hname, hne, hcond, hdirs, hsne, hsel⟩ := hwf
  unfold DefOk
  simp only [rFrag, wpFrag] at h ht ⊢
  generalize hK : tk τ true p kwFragment = tK at *
  generalize hN : tk τ true (p + tK.length) f.name.toList = tN at *
  generalize hC : rCond τ false (p + tK.length + tN.length) (some (f.cond, f.condPos)) = tC at *
  generalize hD : rDirs τ false (p + tK.length + tN.length + tC.length) f.dirs = tD at *
  generalize hS : rSelSet τ sep (p + tK.length + tN.length + tC.length + tD.length) f.sel = tS at *
  have hlen : p + (tK ++ (tN ++ (tC ++ (tD ++ tS)))).length =
      p + tK.length + tN.length + tC.length + tD.length + tS.length := by
    simp only [List.length_append]; omega
  rw [hlen] at ht ⊢
  have g0 : HasAt inp p tK := h.left
  have g1 : HasAt inp (p + tK.length) tN := h.right.left
  have g2 : HasAt inp (p + tK.length + tN.length) tC := h.right.right.left
  have g3 : HasAt inp (p + tK.length + tN.length + tC.length) tD := h.right.right.right.left
  have g4 : HasAt inp (p + tK.length + tN.length + tC.length + tD.length) tS := h.right.right.right.right
  have hdS : Hd (· = '{') tS := hS ▸ hd_rSelSet τ sep _ f.sel
  have hdK : Hd (· = 'f') tK := hK ▸ hd_tk (hd_cons _ rfl)
  have hdN : Hd nameStart tN := hN ▸ hd_tk (hd_of_validName hname)
  have hdC : Hd (· = 'o') tC := by
    have := hd_rCond τ false (p + tK.length + tN.length) (some (f.cond, f.condPos))
    rw [hC] at this
    rcases this with h0 | h1
    · rw [← hC] at h0; simp [rCond, tk] at h0
    · exact h1
  have hlK := hdK.length_pos
  have hlS := hdS.length_pos
  -- the operation alternative fails
  have f1 := opDef_fails (headNot_of_hd g0 hdK (by rintro c rfl; decide))
  -- `fragment`
  have rK := kwT hτ look_KEYWORD_fragment (hK ▸ g0) (bad := fun _ => False) (by
    rw [hK]; exact Nxt.of_hd_sep g1 hdN (fun d hd => ⟨nameStart_not_trivia hd, id⟩))
  rw [hK] at rK
  -- the name
  have n2 : Nxt inp (fun _ => False) true (p + tK.length + tN.length) :=
    Nxt.of_hd_sep g2 hdC (by rintro c rfl; decide)
  obtain ⟨gN, _, gGlue⟩ := tk_gap hτ (hN ▸ g1) (by rw [hN]; exact n2)
  have rN := nameT hτ hname (hN ▸ g1) (by rw [hN]; exact n2)
  rw [hN] at rN
  have rNot := runsK_not (kw_fails_name (la := .neg) look_KEYWORD_on kwOn_valid hname hne gN gGlue)
    (tok_of_hd g1 hdN (fun d => nameStart_not_trivia))
  have rFN := runsKE_rule look_FragmentName (by decide) (by decide) (runsKE_seq rNot rN)
  -- type condition, directives, selection set
  have n4 : Nxt inp (fun c => c = '(' ∨ c = '@' ∨ nameStart c) false (p + tK.length + tN.length + tC.length + tD.length) :=
    Nxt.of_hd g4 hdS (by rintro c rfl; decide)
  have n3 : Nxt inp (fun d => nameStart d) false (p + tK.length + tN.length + tC.length) :=
    Nxt.rest g3 n4 (hD ▸ hd_rDirs τ false _ f.dirs) (P := (· = '@')) (by rintro c rfl; decide)
      (fun c hc => Or.inr (Or.inr hc)) (fun _ _ => rfl)
  obtain ⟨eC, rC, hct⟩ := condT τ hτ f.cond f.condPos hcond (hC ▸ g2) (by rw [hC]; exact n3)
  rw [hC] at rC
  obtain ⟨oD, rD, hokD, _, hbD⟩ := optDirsT τ hτ f.dirs hdirs (bad := fun c => c = '(' ∨ c = '@' ∨ nameStart c)
    (Or.inl rfl) (Or.inr (Or.inl rfl)) (hD ▸ g3) (by rw [hD]; exact n4)
  rw [hD] at rD hbD
  obtain ⟨prS, rS, hokS, hbS⟩ := selSet_all τ hτ f.sel hsne hsel sep _ (hS ▸ g4) (by rw [hS]; exact ht)
  rw [hS] at rS hbS
  obtain ⟨e, rF⟩ := runsK_rule look_FragmentDefinition (by decide) (by decide)
    (runsK_seq rK.toK (runsK_seq rFN.toK (runsK_seq rC (runsK_seq rD rS))))
  obtain ⟨e', rE⟩ := runsK_rule look_ExecutableDefinition (by decide) (by decide)
    (runsK_choice_r f1 (runsK_choice_l (b := .call R.ext_ImportStatement) rF))
  refine ⟨_, rE.mono (by barith), ?_, ?_⟩
  · refine pairOk_mk (by decide) (by decide) ⟨cleanP_of (by decide) (by decide) ?_, trivial⟩
    simp only [cleanL_append, cleanL_cons, cleanL_nil, and_true]
    exact ⟨cleanP_of (by decide) (by decide) trivial,
      cleanP_of (by decide) (by decide) ⟨cleanP_of (by decide) (by decide) trivial, trivial⟩,
      cleanP_of (by decide) (by decide) ⟨cleanP_of (by decide) (by decide) trivial,
        cleanP_of (by decide) (by decide) ⟨cleanP_of (by decide) (by decide) trivial, trivial⟩, trivial⟩,
      clean_opt (fun x hx => (hokD x hx).clean), hokS.clean⟩
  · intro fuel hf
    have hf' : tK.length + (tN.length + (tC.length + (tD.length + tS.length))) ≤ fuel := by simpa using hf
    generalize hkp : Pair.mk R.KEYWORD_fragment p (p + kwFragment.length) [] = kp at *
    generalize hfn : Pair.mk R.FragmentName (At inp (p + tK.length)).pos (At inp (p + tK.length + f.name.toList.length)).pos
      ([] ++ [Pair.mk R.Name (p + tK.length) (p + tK.length + f.name.toList.length) []]) = fnp at *
    generalize htc : Pair.mk R.TypeCondition (p + tK.length + tN.length) eC [Pair.mk R.KEYWORD_on (p + tK.length + tN.length)
      (p + tK.length + tN.length + 2) [], Pair.mk R.NamedType (p + tK.length + tN.length + (tk τ true (p + tK.length + tN.length) kwOn).length)
        (p + tK.length + tN.length + (tk τ true (p + tK.length + tN.length) kwOn).length + f.cond.toList.length)
        [Pair.mk R.Name (p + tK.length + tN.length + (tk τ true (p + tK.length + tN.length) kwOn).length)
          (p + tK.length + tN.length + (tk τ true (p + tK.length + tN.length) kwOn).length + f.cond.toList.length) []]] = tcp at *
    have hch : [kp] ++ ([fnp] ++ ([tcp] ++ (oD.toList ++ [prS]))) =
        slotPairs [some kp, some fnp, some tcp, oD, some prS] := by simp [slotPairs]
    rw [hch]
    have hm := matchParts_slots P_FragmentDefinition _ p_frag_nodup
      (show slotsOk P_FragmentDefinition [some kp, some fnp, some tcp, oD, some prS] from
        ⟨⟨_, rfl, hkp ▸ rfl⟩, ⟨_, rfl, hfn ▸ rfl⟩, ⟨_, rfl, htc ▸ rfl⟩, fun x hx => (hokD x hx).rule,
          ⟨_, rfl, hokS.rule⟩, trivial⟩)
    have hti : typeConditionIdent (Ctx.spec inp) tcp = .ok (String.ofList f.cond.toList,
        posAt inp (p + tK.length + tN.length + (tk τ true (p + tK.length + tN.length) kwOn).length)) :=
      htc ▸ typeConditionIdent_pair inp _ eC _ f.cond.toList hct
    have hnm : asString (Ctx.spec inp) fnp = f.name := by
      rw [← hfn]
      simp [asString_spec', Pair.start, Pair.stop, At, gN.slice]
    have hnp : toPos (Ctx.spec inp) fnp = posAt inp (p + tK.length) := by rw [← hfn]; rfl
    simp [buildExecutableDefinition, onlyChildOf, onlyChild, Pair.children, OC_ExecutableDefinition, Pair.rule, hm,
      hti, hnm, hnp, hbD fuel (by omega), hbS fuel (by omega), At, toPos_spec', Pair.start, bind, Except.bind, pure,
      Except.pure, R.OperationDefinition, R.FragmentDefinition]

end NitroVerif.DocParse
