import NitroVerif.Model.GqlPrint
/-!
C17 (server schema file): a walk over every printing function of `Model/GqlPrint.lean` that a type-system document
reaches, showing that the indentation operations it emits are BALANCED: whatever the indentation level is before a
definition is printed, it is the same after it (`net k (printX x) = k` for every `k`). Together with
`Lemmas/DeterminismServerBlocks.lean` this makes the text of a type-system document the concatenation of the texts
of its definitions, each printed on its own.
-/
namespace NitroVerif.DeterminismServer
open NitroVerif.Gql NitroVerif.GqlPrint NitroVerif.JsTemplate

/-- the effect of one printer token on the indentation level of the `SourceMapWriter` -/
def shift : Tok → Nat → Nat
  | .ind, k => k + 2
  | .ded, k => k - 2
  | _, k => k

/-- the indentation level after the tokens `ts`, starting from level `k` -/
def net (k : Nat) (ts : List Tok) : Nat := ts.foldl (fun k t => shift t k) k

@[simp] theorem net_nil (k : Nat) : net k [] = k := rfl
@[simp] theorem net_cons (k : Nat) (t : Tok) (ts : List Tok) : net k (t :: ts) = net (shift t k) ts := rfl
@[simp] theorem net_append (k : Nat) (a b : List Tok) : net k (a ++ b) = net (net k a) b := by
  simp [net, List.foldl_append]

@[simp] theorem shift_p (s : String) (k : Nat) : shift (.p s) k = k := rfl
@[simp] theorem shift_name (s : String) (k : Nat) : shift (.name s) k = k := rfl
@[simp] theorem shift_var (s : String) (k : Nat) : shift (.var s) k = k := rfl
@[simp] theorem shift_int (s : String) (k : Nat) : shift (.int s) k = k := rfl
@[simp] theorem shift_float (s : String) (k : Nat) : shift (.float s) k = k := rfl
@[simp] theorem shift_str (s : String) (k : Nat) : shift (.str s) k = k := rfl
@[simp] theorem shift_lay (s : String) (k : Nat) : shift (.lay s) k = k := rfl
@[simp] theorem shift_ind (k : Nat) : shift .ind k = k + 2 := rfl
@[simp] theorem shift_ded (k : Nat) : shift .ded k = k - 2 := rfl
@[simp] theorem shift_sp (k : Nat) : shift sp k = k := rfl
@[simp] theorem shift_nl (k : Nat) : shift nl k = k := rfl

@[simp] theorem bal_type (t : GType) : ∀ k, net k (printType t) = k := by
  induction t with
  | named n p => intro k; simp [printType]
  | list t p ih => intro k; simp [printType, ih]
  | nonNull t ih => intro k; simp [printType, ih]

mutual
theorem bal_value : (v : Value) → ∀ k, net k (printValue v) = k
  | .var n _ => by intro k; simp [printValue]
  | .int s _ => by intro k; simp [printValue]
  | .float s _ => by intro k; simp [printValue]
  | .str s _ => by intro k; simp [printValue]
  | .bool b _ => by intro k; simp [printValue]
  | .null _ => by intro k; simp [printValue]
  | .enum n _ => by intro k; simp [printValue]
  | .list vs _ => by
    intro k
    have := bal_valueList vs true
    simp [printValue, this]
  | .obj [] _ => by intro k; simp [printValue]
  | .obj [(k', _, v)] _ => by
    intro k
    have := bal_value v
    simp [printValue, this]
  | .obj (f1 :: f2 :: fs) _ => by
    intro k
    have := bal_fieldLines (f1 :: f2 :: fs)
    simp [printValue, this]
theorem bal_valueList : (vs : List Value) → (b : Bool) → ∀ k, net k (printValueList vs b) = k
  | [], _ => by intro k; simp [printValueList]
  | v :: vs, b => by
    intro k
    have h1 := bal_value v
    have h2 := bal_valueList vs false
    cases b <;> simp [printValueList, h1, h2]
theorem bal_fieldLines : (fs : List (Name × Pos × Value)) → ∀ k, net k (printFieldLines fs) = k
  | [] => by intro k; simp [printFieldLines]
  | (k', _, v) :: r => by
    intro k
    have h1 := bal_value v
    have h2 := bal_fieldLines r
    simp [printFieldLines, h1, h2]
end

attribute [simp] bal_value bal_valueList bal_fieldLines

@[simp] theorem bal_args : (as : List Arg) → ∀ k, net k (printArgs as) = k
  | [] => by intro k; simp [printArgs]
  | [(k', _, v)] => by intro k; simp [printArgs]
  | a1 :: a2 :: as => by intro k; simp [printArgs]

@[simp] theorem bal_directive (d : Directive) : ∀ k, net k (printDirective d) = k := by
  intro k; simp [printDirective]

@[simp] theorem bal_dirs (ds : List Directive) : ∀ k, net k (printDirs ds) = k := by
  induction ds with
  | nil => intro k; simp [printDirs]
  | cons d ds ih => intro k; simp [printDirs, ih]

@[simp] theorem bal_dirsTight (ds : List Directive) : ∀ k, net k (printDirsTight ds) = k := by
  induction ds with
  | nil => intro k; simp [printDirsTight]
  | cons d ds ih => intro k; simp [printDirsTight, ih]

@[simp] theorem bal_desc (d : Option String) : ∀ k, net k (printDesc d) = k := by
  intro k; cases d <;> simp [printDesc]

@[simp] theorem bal_inputValueDef (v : InputValueDef) : ∀ k, net k (printInputValueDef v) = k := by
  intro k; cases h : v.default <;> simp [printInputValueDef, h]

@[simp] theorem bal_argDefsSep (vs : List InputValueDef) : ∀ b k, net k (printArgDefsSep vs b) = k := by
  induction vs with
  | nil => intro b k; simp [printArgDefsSep]
  | cons v vs ih => intro b k; cases b <;> simp [printArgDefsSep, ih]

@[simp] theorem bal_argDefs : (vs : List InputValueDef) → ∀ k, net k (printArgDefs vs) = k
  | [] => by intro k; simp [printArgDefs]
  | v :: vs => by intro k; simp [printArgDefs]

@[simp] theorem bal_fieldDef (f : FieldDef) : ∀ k, net k (printFieldDef f) = k := by
  intro k; simp [printFieldDef]

@[simp] theorem bal_enumValueDef (v : EnumValueDef) : ∀ k, net k (printEnumValueDef v) = k := by
  intro k; simp [printEnumValueDef]

@[simp] theorem bal_fieldLinesTs (fs : List FieldDef) : ∀ k, net k (printFieldLinesTs fs) = k := by
  induction fs with
  | nil => intro k; simp [printFieldLinesTs]
  | cons f fs ih => intro k; simp [printFieldLinesTs, ih]

@[simp] theorem bal_enumValueLines (fs : List EnumValueDef) : ∀ k, net k (printEnumValueLines fs) = k := by
  induction fs with
  | nil => intro k; simp [printEnumValueLines]
  | cons f fs ih => intro k; simp [printEnumValueLines, ih]

@[simp] theorem bal_inputLines (fs : List InputValueDef) : ∀ k, net k (printInputLines fs) = k := by
  induction fs with
  | nil => intro k; simp [printInputLines]
  | cons f fs ih => intro k; simp [printInputLines, ih]

theorem bal_braced (body : List Tok) (e : Bool) (h : ∀ k, net k body = k) : ∀ k, net k (braced body e) = k := by
  intro k; cases e <;> simp [braced, h]

theorem bal_flatMap {α} (f : α → List Tok) (l : List α) (h : ∀ x k, net k (f x) = k) :
    ∀ k, net k (l.flatMap f) = k := by
  induction l with
  | nil => intro k; simp
  | cons a as ih => intro k; simp [List.flatMap_cons, h a, ih]

@[simp] theorem bal_implements (is : List (Name × Pos)) : ∀ k, net k (printImplements is) = k := by
  intro k
  cases is with
  | nil => simp [printImplements]
  | cons i is =>
    show net k ([sp, Tok.name "implements"] ++ (i :: is).flatMap _) = k
    rw [net_append, bal_flatMap _ _ (by intro x k; simp)]
    simp

@[simp] theorem bal_members (ms : List (Name × Pos)) : ∀ k, net k (printMembers ms) = k := by
  unfold printMembers
  exact bal_flatMap _ _ (by intro x k; simp)

@[simp] theorem bal_locations (ls : List Name) : ∀ k, net k (printLocations ls) = k := by
  unfold printLocations
  exact bal_flatMap _ _ (by intro x k; simp)

@[simp] theorem bal_typeBody (t : TypeDef) (ext : Bool) : ∀ k, net k (printTypeBody t ext) = k := by
  intro k
  unfold printTypeBody
  cases t.kind <;> simp [bal_braced]

@[simp] theorem bal_typeDef (t : TypeDef) : ∀ k, net k (printTypeDef t) = k := by
  intro k; simp [printTypeDef]

@[simp] theorem bal_typeExt (t : TypeDef) : ∀ k, net k (printTypeExt t) = k := by
  intro k; simp [printTypeExt]

@[simp] theorem bal_roots (rs : List (OpKind × Name × Pos)) : ∀ k, net k (printRoots rs) = k := by
  induction rs with
  | nil => intro k; simp [printRoots]
  | cons r rs ih =>
    obtain ⟨k', n, p⟩ := r
    intro k; simp [printRoots, ih]

@[simp] theorem bal_schemaDef (s : SchemaDef) : ∀ k, net k (printSchemaDef s) = k := by
  intro k; simp [printSchemaDef]

@[simp] theorem bal_schemaExt (s : SchemaDef) : ∀ k, net k (printSchemaExt s) = k := by
  intro k
  unfold printSchemaExt
  cases s.roots.isEmpty <;> simp

@[simp] theorem bal_directiveDef (d : DirectiveDef) : ∀ k, net k (printDirectiveDef d) = k := by
  intro k
  unfold printDirectiveDef
  cases d.repeatable <;> simp

/-- every definition / extension of a type-system document is printed with balanced indentation -/
theorem bal_tsItem (i : TsItem) : ∀ k, net k (printTsItem i) = k := by
  intro k; cases i <;> simp [printTsItem]

end NitroVerif.DeterminismServer
