import NitroVerif.Lemmas.GqlPrintLexWalk
import NitroVerif.Lemmas.PrinterWalk
/-!
C16, character level: the hypotheses on names and numbers stated on the specification's canonical token stream
(`lexemesOK`), and their consequences: `dataOK` of the printed tokens, and the chunk-safety condition `Tok.nameOK` of
the template layer.
-/
namespace NitroVerif.C16
open NitroVerif.Gql NitroVerif.GqlPrint NitroVerif.GqlTokens NitroVerif.GqlLexer NitroVerif.JsTemplate

/-- names are GraphQL Names, numbers are IntValue / FloatValue texts -/
def ltokOK : LTok → Bool
  | .name n => validName n.toList
  | .int s => validInt s.toList
  | .float s => validFloat s.toList
  | _ => true

/-- every name and number of the token stream is lexically valid -/
def lexemesOK (toks : List LTok) : Bool := toks.all ltokOK

theorem dataOK_of_lexemesOK (ts : List Tok) (h : lexemesOK (ts.flatMap lex) = true) : ∀ t ∈ ts, dataOK t = true := by
  induction ts with
  | nil => intro t ht; simp at ht
  | cons a as ih =>
    intro t ht
    simp only [lexemesOK, List.flatMap_cons, List.all_append, Bool.and_eq_true] at h
    rcases List.mem_cons.mp ht with rfl | ht
    · cases t <;> simp_all [dataOK, lex, ltokOK]
    · exact ih (by simpa [lexemesOK] using h.2) t ht

/-! ### valid names and numbers are safe chunks for the template writer -/

theorem endDollar_none (s : List Char) (h : ∀ c ∈ s, c ≠ '$') : endDollar false s = false := by
  induction s with
  | nil => rfl
  | cons c cs ih =>
    have hc : (c == '$') = false := by simpa using h c (by simp)
    simp only [endDollar, hc]
    exact ih (fun x hx => h x (by simp [hx]))

theorem goodText_of (s : List Char) (h : ∀ c ∈ s, c ≠ '\r' ∧ c ≠ '$') : goodText s = true := by
  simp only [goodText, noCR, Bool.and_eq_true, List.all_eq_true, bne_iff_ne, ne_eq, Bool.not_eq_true']
  exact ⟨fun c hc => (h c hc).1, endDollar_none s (fun c hc => (h c hc).2)⟩

theorem nameContinue_plain (c : Char) (h : nameContinue c = true) : c ≠ '\r' ∧ c ≠ '$' ∧ c ≠ '{' := by
  refine ⟨?_, ?_, ?_⟩ <;> (rintro rfl; revert h; decide)

theorem validName_good (n : List Char) (h : validName n = true) : goodText n = true ∧ headNotBrace n = true := by
  cases n with
  | nil => simp [validName] at h
  | cons c cs =>
    simp only [validName, Bool.and_eq_true, List.all_eq_true] at h
    have hc : nameContinue c = true := by simp [nameContinue, h.1]
    refine ⟨goodText_of _ ?_, ?_⟩
    · intro x hx
      rcases List.mem_cons.mp hx with rfl | hx
      · exact ⟨(nameContinue_plain _ hc).1, (nameContinue_plain _ hc).2.1⟩
      · exact ⟨(nameContinue_plain _ (h.2 x hx)).1, (nameContinue_plain _ (h.2 x hx)).2.1⟩
    · simpa [headNotBrace] using (nameContinue_plain _ hc).2.2

theorem scanNum_chars (s : List Char) : ∀ (st : NumSt), ∀ x ∈ (scanNum st s).2.1, x ≠ '\r' ∧ x ≠ '$' := by
  induction s with
  | nil => intro st x hx; simp [scanNum] at hx
  | cons c cs ih =>
    intro st x hx
    simp only [scanNum] at hx
    cases hstep : numStep st c with
    | none => simp [hstep] at hx
    | some st1 =>
      simp only [hstep, List.mem_cons] at hx
      rcases hx with rfl | hx
      · constructor <;> (intro e; subst e; cases st <;> simp [numStep, isDigit] at hstep)
      · exact ih st1 x hx

theorem validInt_good (s : List Char) (h : validInt s = true) : goodText s = true := by
  simp only [validInt, Bool.and_eq_true, beq_iff_eq] at h
  have := scanNum_chars s .start
  rw [h.1.1] at this
  exact goodText_of s this

theorem validFloat_good (s : List Char) (h : validFloat s = true) : goodText s = true := by
  simp only [validFloat, Bool.and_eq_true, beq_iff_eq] at h
  have := scanNum_chars s .start
  rw [h.1.1] at this
  exact goodText_of s this

theorem nameOK_of_dataOK (t : Tok) (h : dataOK t = true) : t.nameOK = true := by
  cases t with
  | name s => simpa [Tok.nameOK] using (validName_good _ h).1
  | var n => simpa [Tok.nameOK] using validName_good _ h
  | int s => simpa [Tok.nameOK] using validInt_good _ h
  | float s => simpa [Tok.nameOK] using validFloat_good _ h
  | _ => rfl

end NitroVerif.C16
