import NitroVerif.Lemmas.BlockString
import NitroVerif.Model.JsTemplate
/-!
C16: `print_string` under the writer's indentation.

The `SourceMapWriter` the GraphQL printer writes into indents every non-empty line by the current indentation —
also the continuation lines of a block string, and the closing `"""` when the string ends with a line feed.
Part A: what the writer makes of the block form still lexes as ONE block-string token; its raw value is the string
        with those indentations added (`indentRaw`).
Part B: `BlockStringValue` of the indented raw value is `BlockStringValue` of the string itself — unconditionally:
        the common indentation grows by exactly the writer's indentation, lines the writer leaves empty stay empty, and
        when every continuation line is blank they are all removed as trailing blank lines anyway.
Part C: the quoted form holds no line feed, so the writer leaves it as it is.
-/
namespace NitroVerif.GqlPrint
open NitroVerif.GqlString NitroVerif.JsTemplate

def spaces (k : Nat) : List Char := List.replicate k ' '

/-- the indentation the writer flushes before a non-newline character -/
def pre (k : Nat) (fl : Bool) : List Char := if fl then spaces k else []

/-- what `JustWriter` (indentation `k`, `has_indent_flag = fl`) writes for the text `s` -/
def written (k : Nat) (fl : Bool) (s : List Char) : List Char := (writeChars false ⟨k, fl⟩ false s).1

/-- the raw content of the block string as it stands in the output: every non-empty continuation line is indented,
    and so is the closing delimiter when the string ends with a line feed -/
def indentRaw (k : Nat) : Bool → List Char → List Char
  | fl, [] => pre k fl
  | fl, c :: cs => if c = '\n' then '\n' :: indentRaw k true cs else pre k fl ++ c :: indentRaw k false cs

/-! ### the writer, character by character -/

theorem writeChars_dollar (st : WSt) (s : List Char) : ∀ d d', writeChars false st d s = writeChars false st d' s := by
  induction s generalizing st with
  | nil => intro d d'; rfl
  | cons c cs ih =>
    intro d d'
    simp only [writeChars, Bool.false_eq_true, if_false]

theorem written_nil (k : Nat) (fl : Bool) : written k fl [] = [] := rfl

theorem written_nl (k : Nat) (fl : Bool) (T : List Char) : written k fl ('\n' :: T) = '\n' :: written k true T := by
  simp [written, writeChars]

theorem written_cons (k : Nat) (fl : Bool) (c : Char) (T : List Char) (hc : c ≠ '\n') :
    written k fl (c :: T) = pre k fl ++ c :: written k false T := by
  simp only [written, writeChars, hc, if_false, Bool.false_eq_true, pre, spaces]
  rw [writeChars_dollar _ T (c == '$') false]
  cases fl <;> simp

theorem written_quotes (k : Nat) (n : Nat) (T : List Char) :
    written k false (List.replicate n '"' ++ T) = List.replicate n '"' ++ written k false T := by
  induction n with
  | zero => simp
  | succ n ih =>
    simp only [List.replicate_succ, List.cons_append]
    rw [written_cons k false '"' _ (by decide), ih]
    simp [pre]

theorem written_no_nl (k : Nat) (T : List Char) (h : ∀ c ∈ T, c ≠ '\n') : written k false T = T := by
  induction T with
  | nil => rfl
  | cons c cs ih =>
    rw [written_cons k false c cs (h c (by simp)), ih (fun x hx => h x (by simp [hx]))]
    simp [pre]

/-- with the indent flag set, a text that does not start with a line feed is written after the indentation -/
theorem written_flag (k : Nat) (c : Char) (T : List Char) (hc : c ≠ '\n') :
    written k true (c :: T) = spaces k ++ written k false (c :: T) := by
  rw [written_cons k true c T hc, written_cons k false c T hc]
  simp [pre]

/-! ### `escTriple` against prefixes -/

theorem escTriple_cons_ne (n : Nat) (c : Char) (cs : List Char) (hc : c ≠ '"') :
    escTriple n (c :: cs) = List.replicate n '"' ++ c :: escTriple 0 cs := by
  simp [escTriple, hc]

theorem escTriple_spaces (k : Nat) (T : List Char) : escTriple 0 (spaces k ++ T) = spaces k ++ escTriple 0 T := by
  induction k with
  | zero => simp [spaces]
  | succ k ih =>
    simp only [spaces, List.replicate_succ, List.cons_append] at ih ⊢
    rw [escTriple_cons_ne 0 ' ' _ (by decide), ih]
    simp

theorem escTriple_pre (k : Nat) (fl : Bool) (T : List Char) : escTriple 0 (pre k fl ++ T) = pre k fl ++ escTriple 0 T := by
  cases fl
  · simp [pre]
  · simpa [pre] using escTriple_spaces k T

theorem escTriple_quotes (n : Nat) (hn : n ≤ 2) (T : List Char) :
    escTriple 0 (List.replicate n '"' ++ T) = escTriple n T := by
  match n, hn with
  | 0, _ => simp
  | 1, _ => simp [escTriple, List.replicate]
  | 2, _ => simp [escTriple, List.replicate]

theorem indentRaw_quotes_false (k : Nat) (n : Nat) (T : List Char) :
    indentRaw k false (List.replicate n '"' ++ T) = List.replicate n '"' ++ indentRaw k false T := by
  induction n with
  | zero => simp
  | succ n ih =>
    simp only [List.replicate_succ, List.cons_append, indentRaw, show ('"' = '\n') = False by decide, if_false, ih]
    simp [pre]

theorem indentRaw_quotes (k : Nat) (fl : Bool) (n : Nat) (hn : 1 ≤ n) (T : List Char) :
    indentRaw k fl (List.replicate n '"' ++ T) = pre k fl ++ (List.replicate n '"' ++ indentRaw k false T) := by
  obtain ⟨m, rfl⟩ : ∃ m, n = m + 1 := ⟨n - 1, by omega⟩
  simp only [List.replicate_succ, List.cons_append, indentRaw, show ('"' = '\n') = False by decide, if_false,
    indentRaw_quotes_false]

/-! ### Part A: the writer commutes with the escaping of `"""` -/

theorem written_escTriple (k : Nat) (s : List Char) : ∀ (n : Nat) (fl : Bool), n ≤ 2 →
    written k fl (escTriple n s ++ close3) = escTriple 0 (indentRaw k fl (List.replicate n '"' ++ s)) ++ close3 := by
  induction s with
  | nil =>
    intro n fl hn
    match n, hn with
    | 0, _ =>
      simp only [escTriple, List.replicate, List.nil_append, indentRaw]
      have h := escTriple_pre k fl []
      simp only [List.append_nil] at h
      rw [h]
      simp only [close3]
      rw [written_cons k fl '"' _ (by decide), written_cons k false '"' _ (by decide),
        written_cons k false '"' _ (by decide), written_nil]
      simp [pre, escTriple]
    | 1, _ =>
      have h := indentRaw_quotes k fl 1 (by omega) []
      simp only [List.append_nil] at h ⊢
      rw [h, escTriple_pre]
      simp only [escTriple, close3, List.replicate, List.cons_append, List.nil_append, indentRaw]
      rw [written_cons k fl '"' _ (by decide), written_cons k false '"' _ (by decide),
        written_cons k false '"' _ (by decide), written_cons k false '"' _ (by decide), written_nil]
      simp [pre, escTriple]
    | 2, _ =>
      have h := indentRaw_quotes k fl 2 (by omega) []
      simp only [List.append_nil] at h ⊢
      rw [h, escTriple_pre]
      simp only [escTriple, close3, List.replicate, List.cons_append, List.nil_append, indentRaw]
      rw [written_cons k fl '"' _ (by decide), written_cons k false '"' _ (by decide),
        written_cons k false '"' _ (by decide), written_cons k false '"' _ (by decide),
        written_cons k false '"' _ (by decide), written_nil]
      simp [pre, escTriple]
  | cons c cs ih =>
    intro n fl hn
    by_cases hc : c = '"'
    · subst hc
      by_cases h3 : n + 1 = 3
      · have hn2 : n = 2 := by omega
        subst hn2
        have hrec := ih 0 false (by omega)
        simp only [List.replicate, List.nil_append] at hrec
        have hq := indentRaw_quotes k fl 3 (by omega) cs
        simp only [List.replicate, List.cons_append, List.nil_append] at hq ⊢
        rw [hq, escTriple_pre]
        simp only [escTriple, ne_eq, not_true_eq_false, if_false, if_true, List.cons_append, List.nil_append,
          List.append_assoc]
        rw [written_cons k fl '\\' _ (by decide), written_cons k false '"' _ (by decide),
          written_cons k false '"' _ (by decide), written_cons k false '"' _ (by decide), hrec]
        simp [pre]
      · have hrec := ih (n + 1) fl (by omega)
        simp only [escTriple, ne_eq, not_true_eq_false, if_false, h3]
        rw [hrec]
        congr 3
        rw [List.replicate_succ', List.append_assoc]; rfl
    · rw [escTriple_cons_ne n c cs hc]
      by_cases hnl : c = '\n'
      · subst hnl
        have hrec := ih 0 true (by omega)
        simp only [List.replicate, List.nil_append] at hrec
        match n, hn with
        | 0, _ =>
          simp only [List.replicate, List.nil_append, List.cons_append, indentRaw, if_true]
          rw [written_nl, hrec, escTriple_cons_ne 0 '\n' _ (by decide)]
          simp
        | n + 1, _ =>
          have hq := indentRaw_quotes k fl (n + 1) (by omega) ('\n' :: cs)
          rw [hq, escTriple_pre, escTriple_quotes (n + 1) (by omega)]
          simp only [indentRaw, if_true]
          rw [escTriple_cons_ne (n + 1) '\n' _ (by decide)]
          simp only [List.replicate_succ, List.cons_append, List.append_assoc]
          rw [written_cons k fl '"' _ (by decide), written_quotes, written_nl, hrec]
      · have hrec := ih 0 false (by omega)
        simp only [List.replicate, List.nil_append] at hrec
        match n, hn with
        | 0, _ =>
          simp only [List.replicate, List.nil_append, List.cons_append, indentRaw, hnl, if_false]
          rw [written_cons k fl c _ hnl, hrec, escTriple_pre, escTriple_cons_ne 0 c _ hc]
          simp
        | n + 1, _ =>
          have hq := indentRaw_quotes k fl (n + 1) (by omega) (c :: cs)
          rw [hq, escTriple_pre, escTriple_quotes (n + 1) (by omega)]
          simp only [indentRaw, hnl, if_false, pre, Bool.false_eq_true, List.nil_append]
          rw [escTriple_cons_ne (n + 1) c _ hc]
          simp only [List.replicate_succ, List.cons_append, List.append_assoc]
          rw [written_cons k fl '"' _ (by decide), written_quotes, written_cons k false c _ hnl, hrec]
          simp [pre]

/-! ### the indented raw value keeps the conditions under which the block form lexes back -/

theorem mem_indentRaw (k : Nat) (s : List Char) : ∀ fl, ∀ c ∈ indentRaw k fl s, c ∈ s ∨ c = ' ' := by
  induction s with
  | nil =>
    intro fl c hc
    cases fl
    · simp [indentRaw, pre] at hc
    · right; simp only [indentRaw, pre, spaces, if_true] at hc; exact (List.mem_replicate.mp hc).2
  | cons a as ih =>
    intro fl c hc
    simp only [indentRaw] at hc
    by_cases ha : a = '\n'
    · simp only [ha, if_true, List.mem_cons] at hc
      rcases hc with rfl | hc
      · left; simp [ha]
      · rcases ih true c hc with h | h
        · left; simp [h]
        · right; exact h
    · simp only [ha, if_false, List.mem_append, List.mem_cons] at hc
      rcases hc with hc | rfl | hc
      · right
        cases fl
        · simp [pre] at hc
        · simp only [pre, spaces, if_true] at hc; exact (List.mem_replicate.mp hc).2
      · left; simp
      · rcases ih false c hc with h | h
        · left; simp [h]
        · right; exact h

theorem lastOf_append_cons (d : Option Char) (A : List Char) (c : Char) (X : List Char) :
    lastOf d (A ++ c :: X) = lastOf (some c) X := by
  induction A generalizing d with
  | nil => rfl
  | cons a as ih => simp [lastOf, ih]

theorem lastOf_spaces (d : Option Char) (k : Nat) : lastOf d (spaces k) = d ∨ lastOf d (spaces k) = some ' ' := by
  cases k with
  | zero => left; rfl
  | succ k =>
    right
    have : spaces (k + 1) = spaces k ++ ' ' :: [] := by simp [spaces, List.replicate_succ']
    rw [this, lastOf_append_cons]
    rfl

theorem lastOf_indentRaw (k : Nat) (s : List Char) : ∀ (d : Option Char) (fl : Bool),
    lastOf d (indentRaw k fl s) = lastOf d s ∨ lastOf d (indentRaw k fl s) = some ' ' := by
  induction s with
  | nil =>
    intro d fl
    cases fl
    · left; rfl
    · simpa [indentRaw, pre, lastOf] using lastOf_spaces d k
  | cons a as ih =>
    intro d fl
    simp only [indentRaw]
    by_cases ha : a = '\n'
    · simp only [ha, if_true, lastOf]
      exact ih (some '\n') true
    · simp only [ha, if_false, lastOf_append_cons, lastOf]
      exact ih (some a) false

theorem endOK_indentRaw (k : Nat) (s : List Char) (h : endOK 0 s) : endOK 0 (indentRaw k false s) := by
  unfold endOK at h ⊢
  rcases lastOf_indentRaw k s (pending 0) false with e | e
  · rw [e]; exact h
  · rw [e]; exact ⟨by decide, by decide⟩

/-! ### Part B: `BlockStringValue` removes the writer's indentation -/

/-- the first line (up to the first line feed) -/
def firstL : List Char → List Char
  | [] => []
  | c :: cs => if c = '\n' then [] else c :: firstL cs

/-- the lines after the first line feed -/
def restL : List Char → List (List Char)
  | [] => []
  | c :: cs => if c = '\n' then firstL cs :: restL cs else restL cs

theorem splitLinesAux_lines (s : List Char) (h : ∀ c ∈ s, c ≠ '\r') : ∀ cur,
    splitLinesAux false s cur = (cur.reverse ++ firstL s) :: restL s := by
  induction s with
  | nil => intro cur; simp [splitLinesAux, firstL, restL]
  | cons c cs ih =>
    intro cur
    have hc : c ≠ '\r' := h c (by simp)
    have hcs : ∀ x ∈ cs, x ≠ '\r' := fun x hx => h x (by simp [hx])
    unfold splitLinesAux
    by_cases h1 : c = '\n'
    · subst h1
      simp only [if_true, Bool.false_eq_true, if_false, firstL, restL, List.append_nil]
      rw [ih hcs []]
      simp
    · simp only [h1, hc, if_false, firstL, restL]
      rw [ih hcs (c :: cur)]
      simp

theorem splitLines_lines (s : List Char) (h : ∀ c ∈ s, c ≠ '\r') : splitLines s = firstL s :: restL s := by
  have := splitLinesAux_lines s h []
  simpa [splitLines] using this

theorem firstL_pre (k : Nat) (fl : Bool) (T : List Char) : firstL (pre k fl ++ T) = pre k fl ++ firstL T := by
  cases fl
  · simp [pre]
  · simp only [pre, if_true, spaces]
    induction k with
    | zero => simp
    | succ k ih => simp [List.replicate_succ, firstL, ih]

theorem restL_pre (k : Nat) (fl : Bool) (T : List Char) : restL (pre k fl ++ T) = restL T := by
  cases fl
  · simp [pre]
  · simp only [pre, if_true, spaces]
    induction k with
    | zero => simp
    | succ k ih => simp [List.replicate_succ, restL, ih]

theorem firstL_indentRaw_false (k : Nat) (s : List Char) : firstL (indentRaw k false s) = firstL s := by
  induction s with
  | nil => simp [indentRaw, pre, firstL]
  | cons c cs ih =>
    by_cases hc : c = '\n'
    · simp [indentRaw, hc, firstL]
    · simp [indentRaw, hc, firstL, pre, ih]

/-- a continuation line as the writer leaves it: indented, or — if the writer wrote nothing on it — still empty -/
def IndLine (k : Nat) (l l' : List Char) : Prop := l' = spaces k ++ l ∨ (l = [] ∧ l' = [])

theorem firstL_indentRaw_true (k : Nat) (s : List Char) : IndLine k (firstL s) (firstL (indentRaw k true s)) := by
  cases s with
  | nil => left; simp [indentRaw, pre, firstL, spaces]; induction k <;> simp_all [List.replicate_succ, firstL]
  | cons c cs =>
    by_cases hc : c = '\n'
    · right; simp [indentRaw, hc, firstL]
    · left
      simp only [indentRaw, hc, if_false, firstL]
      rw [firstL_pre]
      simp [firstL, hc, firstL_indentRaw_false, pre]

inductive IndLines (k : Nat) : List (List Char) → List (List Char) → Prop where
  | nil : IndLines k [] []
  | cons {l l' : List Char} {ls ls' : List (List Char)} : IndLine k l l' → IndLines k ls ls' →
      IndLines k (l :: ls) (l' :: ls')

theorem restL_indentRaw (k : Nat) (s : List Char) : ∀ fl, IndLines k (restL s) (restL (indentRaw k fl s)) := by
  induction s with
  | nil =>
    intro fl
    have : restL (indentRaw k fl []) = [] := by
      have := restL_pre k fl []
      simpa [indentRaw, restL] using this
    rw [this]; exact IndLines.nil
  | cons c cs ih =>
    intro fl
    by_cases hc : c = '\n'
    · simp only [indentRaw, hc, if_true, restL]
      exact IndLines.cons (firstL_indentRaw_true k cs) (ih true)
    · simp only [indentRaw, hc, if_false, restL]
      rw [restL_pre]
      simp only [restL, hc, if_false]
      exact ih false

theorem leadingWs_spaces (k : Nat) (l : List Char) : leadingWs (spaces k ++ l) = k + leadingWs l := by
  induction k with
  | zero => simp [spaces]
  | succ k ih =>
    simp only [spaces, List.replicate_succ, List.cons_append] at ih ⊢
    simp only [leadingWs, show isWs ' ' = true by decide, if_true, ih]
    omega

theorem drop_spaces (k n : Nat) (l : List Char) : (spaces k ++ l).drop (n + k) = l.drop n := by
  induction k with
  | zero => simp [spaces]
  | succ k ih =>
    simp only [spaces, List.replicate_succ, List.cons_append] at ih ⊢
    rw [show n + (k + 1) = (n + k) + 1 by omega, List.drop_succ_cons]
    exact ih

theorem commonIndent_ind (k : Nat) (L L' : List (List Char)) (h : IndLines k L L') :
    commonIndent L' = (commonIndent L).map (· + k) := by
  induction h with
  | nil => rfl
  | @cons l l' ls ls' hl _ ih =>
    rcases hl with rfl | ⟨rfl, rfl⟩
    · have e1 : leadingWs (spaces k ++ l) = k + leadingWs l := leadingWs_spaces k l
      have e2 : (spaces k ++ l).length = k + l.length := by simp [spaces]
      simp only [commonIndent, e1, e2, ih]
      by_cases hlt : leadingWs l < l.length
      · have : k + leadingWs l < k + l.length := by omega
        simp only [hlt, this, if_true]
        cases commonIndent ls with
        | none => simp; omega
        | some r => simp; omega
      · have : ¬ (k + leadingWs l < k + l.length) := by omega
        simp [hlt, this]
    · simp [commonIndent, leadingWs, ih]

theorem strip_ind (k n : Nat) (L L' : List (List Char)) (h : IndLines k L L') :
    L'.map (·.drop (n + k)) = L.map (·.drop n) := by
  induction h with
  | nil => rfl
  | cons hl _ ih =>
    rcases hl with rfl | ⟨rfl, rfl⟩
    · simp only [List.map_cons, drop_spaces, ih]
    · simp only [List.map_cons, List.drop_nil, ih]

theorem leadingWs_le (l : List Char) : leadingWs l ≤ l.length := by
  induction l with
  | nil => simp [leadingWs]
  | cons c cs ih => simp only [leadingWs]; split <;> simp <;> omega

theorem isBlank_of_leadingWs (l : List Char) (h : ¬ leadingWs l < l.length) : isBlank l = true := by
  induction l with
  | nil => rfl
  | cons c cs ih =>
    simp only [leadingWs] at h
    by_cases hw : isWs c = true
    · simp only [hw, if_true, List.length_cons] at h
      simp only [isBlank, List.all_cons, hw, Bool.true_and]
      exact ih (by omega)
    · simp [hw] at h

theorem allBlank_of_commonIndent_none (L : List (List Char)) (h : commonIndent L = none) :
    ∀ l ∈ L, isBlank l = true := by
  induction L with
  | nil => intro l hl; simp at hl
  | cons a as ih =>
    intro l hl
    simp only [commonIndent] at h
    by_cases hlt : leadingWs a < a.length
    · simp only [hlt, if_true] at h
      cases hc : commonIndent as <;> simp [hc] at h
    · simp only [hlt, if_false] at h
      rcases List.mem_cons.mp hl with rfl | hl
      · exact isBlank_of_leadingWs _ hlt
      · exact ih h l hl

theorem isBlank_spaces (k : Nat) (l : List Char) (h : isBlank l = true) : isBlank (spaces k ++ l) = true := by
  simp only [isBlank, List.all_append, Bool.and_eq_true] at h ⊢
  refine ⟨?_, h⟩
  simp [spaces, List.all_replicate]
  right; decide

theorem allBlank_ind (k : Nat) (L L' : List (List Char)) (h : IndLines k L L') (hb : ∀ l ∈ L, isBlank l = true) :
    ∀ l ∈ L', isBlank l = true := by
  induction h with
  | nil => intro l hl; simp at hl
  | @cons a a' as as' hl _ ih =>
    intro l hm
    rcases List.mem_cons.mp hm with rfl | hm
    · rcases hl with rfl | ⟨_, rfl⟩
      · exact isBlank_spaces k a (hb a (by simp))
      · rfl
    · exact ih (fun x hx => hb x (by simp [hx])) l hm

theorem dropLeadingBlank_allBlank (B Y : List (List Char)) (h : ∀ l ∈ B, isBlank l = true) :
    dropLeadingBlank (B ++ Y) = dropLeadingBlank Y := by
  induction B with
  | nil => rfl
  | cons b bs ih =>
    simp only [List.cons_append, dropLeadingBlank, h b (by simp), if_true]
    exact ih (fun x hx => h x (by simp [hx]))

/-- when every continuation line is blank, the value is the first line (or nothing) -/
theorem trim_allBlank (first : List Char) (X : List (List Char)) (h : ∀ l ∈ X, isBlank l = true) :
    dropTrailingBlank (dropLeadingBlank (first :: X)) = dropTrailingBlank (dropLeadingBlank [first]) := by
  by_cases hf : isBlank first = true
  · have := dropLeadingBlank_allBlank X [] h
    simp only [List.append_nil] at this
    simp [dropLeadingBlank, hf, this]
  · simp only [dropLeadingBlank, hf, Bool.false_eq_true, if_false]
    unfold dropTrailingBlank
    rw [List.reverse_cons, dropLeadingBlank_allBlank X.reverse [first] (fun l hl => h l (List.mem_reverse.mp hl))]
    simp

/-- Part B on lines -/
theorem blockValue_ind (k : Nat) (first : List Char) (L L' : List (List Char)) (h : IndLines k L L') :
    joinLines (dropTrailingBlank (dropLeadingBlank (first :: stripIndent (commonIndent L') L'))) =
      joinLines (dropTrailingBlank (dropLeadingBlank (first :: stripIndent (commonIndent L) L))) := by
  rw [commonIndent_ind k L L' h]
  cases hci : commonIndent L with
  | none =>
    simp only [Option.map_none, stripIndent]
    have hb := allBlank_of_commonIndent_none L hci
    rw [trim_allBlank first L hb, trim_allBlank first L' (allBlank_ind k L L' h hb)]
  | some n =>
    simp only [Option.map_some, stripIndent]
    rw [strip_ind k n L L' h]

theorem blockStringValue_indentRaw (k : Nat) (s : List Char) (hcr : ∀ c ∈ s, c ≠ '\r') :
    blockStringValue (indentRaw k false s) = blockStringValue s := by
  have hcr' : ∀ c ∈ indentRaw k false s, c ≠ '\r' := by
    intro c hc
    rcases mem_indentRaw k s false c hc with h | h
    · exact hcr c h
    · rw [h]; decide
  unfold blockStringValue
  rw [splitLines_lines _ hcr', splitLines_lines _ hcr, firstL_indentRaw_false]
  exact blockValue_ind k (firstL s) (restL s) _ (restL_indentRaw k s false)

end NitroVerif.GqlPrint
