/-
Type definitions I (helper lemmas for Props/C07Doc): scalar, enum and input object type definitions.
-/
import NitroVerif.Lemmas.ParseDocTsHead
namespace NitroVerif.DocParse
open NitroVerif.Peg NitroVerif.Gen NitroVerif.Gen.Parts NitroVerif.Build NitroVerif.TypeParse NitroVerif.StringParse
open NitroVerif.Gql NitroVerif.ValueParse NitroVerif.Spec.Lex NitroVerif.ParseText

set_option linter.unusedSimpArgs false

theorem look_ScalarTypeDefinition : gList.look R.ScalarTypeDefinition = some (.normal, .seq (.opt (.call R.Description))
    (.seq (.call R.KEYWORD_scalar) (.seq (.call R.Name) (.opt (.call R.Directives))))) := rfl
theorem look_EnumTypeDefinition : gList.look R.EnumTypeDefinition = some (.normal, .choice
    (.seq (.opt (.call R.Description)) (.seq (.call R.KEYWORD_enum) (.seq (.call R.Name)
      (.seq (.opt (.call R.Directives)) (.call R.EnumValuesDefinition)))))
    (.seq (.opt (.call R.Description)) (.seq (.call R.KEYWORD_enum) (.seq (.call R.Name)
      (.seq (.opt (.call R.Directives)) (.not (.str ['{']))))))) := rfl
theorem look_InputObjectTypeDefinition : gList.look R.InputObjectTypeDefinition = some (.normal, .choice
    (.seq (.opt (.call R.Description)) (.seq (.call R.KEYWORD_input) (.seq (.call R.Name)
      (.seq (.opt (.call R.Directives)) (.call R.InputFieldsDefinition)))))
    (.seq (.opt (.call R.Description)) (.seq (.call R.KEYWORD_input) (.seq (.call R.Name)
      (.seq (.opt (.call R.Directives)) (.not (.str ['{']))))))) := rfl

variable {inp : List Char}

/-- the round-trip statement for one kind of type definition: the rule of the kind, and `build_type_definition` -/
def KindDefOk (inp : List Char) (rule : RuleId) (p : Nat) (t : List Char) (td : TypeDef) : Prop :=
  ∃ pr, RunsK (B t.length + 80) (.call rule) (At inp p) (At inp (p + t.length)) [pr] ∧ PairOk rule p pr ∧
    ∀ fuel, t.length ≤ fuel → ∀ e, buildTypeDefinition (Ctx.spec inp) fuel (.mk R.TypeDefinition p e [pr]) = .ok td

/-- what must not follow a type definition -/
abbrev tdBad : Char → Prop := fun c => c = '@' ∨ c = '(' ∨ c = '{' ∨ c = '&' ∨ c = '|' ∨ c = '='

/-! ### scalar -/

def rScalarDef (τ : Trivia) (sep : Bool) (p : Nat) (t : TypeDef) : List Char :=
  let tH := rDefHead τ (sep && t.dirs.isEmpty) p t.desc (kindKw .scalar) t.name
  tH ++ rDirs τ sep (p + tH.length) t.dirs

def wpScalarDef (τ : Trivia) (inp : List Char) (sep : Bool) (p : Nat) (t : TypeDef) : TypeDef :=
  let tH := rDefHead τ (sep && t.dirs.isEmpty) p t.desc (kindKw .scalar) t.name
  { kind := .scalar, desc := t.desc, name := t.name, namePos := posAt inp (dhOffN τ p t.desc (kindKw .scalar)),
    dirs := wpDirs τ inp sep (p + tH.length) t.dirs, pos := posAt inp (dhOffK τ p t.desc) }

theorem p_scalar_nodup : (P_ScalarTypeDefinition.map itemRule).Nodup := by decide

theorem scalarDefT (τ : Trivia) (hτ : ∀ q, Ws (τ q)) (t : TypeDef) (hname : validName t.name.toList)
    (hdirs : WFDirs t.dirs) {sep : Bool} {p : Nat} (h : HasAt inp p (rScalarDef τ sep p t))
    (hn : Nxt inp tdBad sep (p + (rScalarDef τ sep p t).length)) :
    KindDefOk inp R.ScalarTypeDefinition p (rScalarDef τ sep p t) (wpScalarDef τ inp sep p t) := by
  unfold KindDefOk
  simp only [rScalarDef, wpScalarDef] at h hn ⊢
  generalize hsN : (sep && t.dirs.isEmpty) = sN at *
  generalize hH : rDefHead τ sN p t.desc (kindKw .scalar) t.name = tH at *
  generalize hD : rDirs τ sep (p + tH.length) t.dirs = tD at *
  have hlen : p + (tH ++ tD).length = p + tH.length + tD.length := by simp only [List.length_append]; omega
  rw [hlen] at hn ⊢
  have g0 : HasAt inp p tH := h.left
  have g1 : HasAt inp (p + tH.length) tD := h.right
  have n1 : Nxt inp (fun _ => False) sN (p + tH.length) := by
    refine Nxt.rest g1 hn (hD ▸ hd_rDirs τ sep _ t.dirs) (P := (· = '@')) (by rintro c rfl; decide) (fun c hc => hc.elim) ?_
    intro ht hs
    have : t.dirs = [] := rDirs_eq_nil (hD.trans ht)
    rw [← hsN, this] at hs
    simpa using hs
  obtain ⟨oS, hrun, _, hokS, hbS, hnm⟩ := defHeadK hτ (look_kindKw .scalar) (kindKw_valid .scalar) t.desc t.name hname
    (hH ▸ g0) (by rw [hH]; exact n1)
  rw [hH] at hrun
  obtain ⟨oD, rD, hokD, _, hbD⟩ := optDirsT τ hτ t.dirs hdirs (bad := tdBad) (Or.inr (Or.inl rfl)) (Or.inl rfl)
    (hD ▸ g1) (by rw [hD]; exact hn)
  rw [hD] at rD hbD
  obtain ⟨e, rR⟩ := runsK_rule look_ScalarTypeDefinition (by decide) (by decide) (hrun _ _ _ _ rD)
  have hlH : 1 ≤ tH.length := hH ▸ (hd_rDefHead τ sN p t.desc _ t.name (kindKw_valid .scalar)).length_pos
  refine ⟨_, rR.mono (by barith), ?_, ?_⟩
  · refine pairOk_mk (by decide) (by decide) ?_
    simp only [cleanL_append, cleanL_cons, cleanL_nil, and_true]
    exact ⟨clean_opt (fun x hx => (hokS x hx).2), cleanP_of (by decide) (by decide) trivial,
      cleanP_of (by decide) (by decide) trivial, clean_opt (fun x hx => (hokD x hx).clean)⟩
  · intro fuel hf e'
    have hf' : tH.length + tD.length ≤ fuel := by simpa using hf
    have hch : oS.toList ++ ([Pair.mk (kindKwRule .scalar) (dhOffK τ p t.desc) (dhOffK τ p t.desc + (kindKw .scalar).length) []] ++
          ([Pair.mk R.Name (dhOffN τ p t.desc (kindKw .scalar)) (dhOffN τ p t.desc (kindKw .scalar) + t.name.toList.length) []] ++
            oD.toList)) =
        slotPairs [oS, some (Pair.mk R.KEYWORD_scalar (dhOffK τ p t.desc) (dhOffK τ p t.desc + (kindKw .scalar).length) []),
          some (Pair.mk R.Name (dhOffN τ p t.desc (kindKw .scalar))
            (dhOffN τ p t.desc (kindKw .scalar) + t.name.toList.length) []), oD] := by simp [slotPairs, kindKwRule]
    rw [hch]
    have hm := matchParts_slots P_ScalarTypeDefinition _ p_scalar_nodup
      (show slotsOk P_ScalarTypeDefinition [oS, some (Pair.mk R.KEYWORD_scalar (dhOffK τ p t.desc)
          (dhOffK τ p t.desc + (kindKw .scalar).length) []), some (Pair.mk R.Name (dhOffN τ p t.desc (kindKw .scalar))
            (dhOffN τ p t.desc (kindKw .scalar) + t.name.toList.length) []), oD] from
        ⟨fun x hx => (hokS x hx).1, ⟨_, rfl, rfl⟩, ⟨_, rfl, rfl⟩, fun x hx => (hokD x hx).rule, trivial⟩)
    have hname' := hnm.slice
    simp [buildTypeDefinition, onlyChildOf, onlyChild, Pair.children, OC_TypeDefinition, Pair.rule, hm, hbS,
      hbD fuel (by omega), asString_spec', toPos_spec', Pair.start, Pair.stop, hname', At, bind, Except.bind,
      R.ScalarTypeDefinition]

/-! ### enum -/

def rEnumDef (τ : Trivia) (sep : Bool) (p : Nat) (t : TypeDef) : List Char :=
  let tH := rDefHead τ (sep && t.values.isEmpty && t.dirs.isEmpty) p t.desc (kindKw .enum) t.name
  let tD := rDirs τ (sep && t.values.isEmpty) (p + tH.length) t.dirs
  tH ++ (tD ++ rOptEnumVals τ sep (p + tH.length + tD.length) t.values)

def wpEnumDef (τ : Trivia) (inp : List Char) (sep : Bool) (p : Nat) (t : TypeDef) : TypeDef :=
  let tH := rDefHead τ (sep && t.values.isEmpty && t.dirs.isEmpty) p t.desc (kindKw .enum) t.name
  let tD := rDirs τ (sep && t.values.isEmpty) (p + tH.length) t.dirs
  { kind := .enum, desc := t.desc, name := t.name, namePos := posAt inp (dhOffN τ p t.desc (kindKw .enum)),
    dirs := wpDirs τ inp (sep && t.values.isEmpty) (p + tH.length) t.dirs,
    values := wpEnumVals τ inp (p + tH.length + tD.length + (tk τ false (p + tH.length + tD.length) ['{']).length) t.values,
    pos := posAt inp (dhOffK τ p t.desc) }

theorem p_enum_nodup : (P_EnumTypeDefinition.map itemRule).Nodup := by decide

theorem rOptEnumVals_eq_nil {τ : Trivia} {sep : Bool} {p : Nat} {vs : List EnumValueDef}
    (h : rOptEnumVals τ sep p vs = []) : vs = [] := by
  cases vs with
  | nil => rfl
  | cons v vs => exact absurd h (hd_rBraced _ _ τ '{' '}' sep p _).ne_nil

theorem enumDefT (τ : Trivia) (hτ : ∀ q, Ws (τ q)) (t : TypeDef) (hname : validName t.name.toList)
    (hdirs : WFDirs t.dirs) (hvals : ∀ v ∈ t.values, WFEnumVal v) {sep : Bool} {p : Nat}
    (h : HasAt inp p (rEnumDef τ sep p t)) (hn : Nxt inp tdBad sep (p + (rEnumDef τ sep p t).length)) :
    KindDefOk inp R.EnumTypeDefinition p (rEnumDef τ sep p t) (wpEnumDef τ inp sep p t) := by
  unfold KindDefOk
  simp only [rEnumDef, wpEnumDef] at h hn ⊢
  generalize hsN : (sep && t.values.isEmpty && t.dirs.isEmpty) = sN at *
  generalize hsD : (sep && t.values.isEmpty) = sD at *
  generalize hH : rDefHead τ sN p t.desc (kindKw .enum) t.name = tH at *
  generalize hD : rDirs τ sD (p + tH.length) t.dirs = tD at *
  generalize hV : rOptEnumVals τ sep (p + tH.length + tD.length) t.values = tV at *
  have hlen : p + (tH ++ (tD ++ tV)).length = p + tH.length + tD.length + tV.length := by
    simp only [List.length_append]; omega
  rw [hlen] at hn ⊢
  have g0 : HasAt inp p tH := h.left
  have g1 : HasAt inp (p + tH.length) tD := h.right.left
  have g2 : HasAt inp (p + tH.length + tD.length) tV := h.right.right
  have n2 : Nxt inp (fun c => c = '@' ∨ c = '(') sD (p + tH.length + tD.length) := by
    refine Nxt.rest g2 hn (hV ▸ hd_rOptEnumVals τ sep _ t.values) (P := (· = '{')) (by rintro c rfl; decide)
      (fun c hc => hc.elim Or.inl (fun h => Or.inr (Or.inl h))) ?_
    intro ht hs
    have : t.values = [] := rOptEnumVals_eq_nil (hV.trans ht)
    rw [← hsD, this] at hs
    simpa using hs
  have n1 : Nxt inp (fun _ => False) sN (p + tH.length) := by
    refine Nxt.rest g1 n2 (hD ▸ hd_rDirs τ sD _ t.dirs) (P := (· = '@')) (by rintro c rfl; decide) (fun c hc => hc.elim) ?_
    intro ht hs
    have : t.dirs = [] := rDirs_eq_nil (hD.trans ht)
    rw [← hsN, this] at hs
    simpa using hs
  obtain ⟨oS, hrun, hfail, hokS, hbS, hnm⟩ := defHeadK hτ (look_kindKw .enum) (kindKw_valid .enum) t.desc t.name hname
    (hH ▸ g0) (by rw [hH]; exact n1)
  rw [hH] at hrun hfail
  obtain ⟨oD, rD, hokD, _, hbD⟩ := optDirsT τ hτ t.dirs hdirs (bad := fun c => c = '@' ∨ c = '(') (Or.inr rfl)
    (Or.inl rfl) (hD ▸ g1) (by rw [hD]; exact n2)
  rw [hD] at rD hbD
  have hlH : 1 ≤ tH.length := hH ▸ (hd_rDefHead τ sN p t.desc _ t.name (kindKw_valid .enum)).length_pos
  have hname' := hnm.slice
  cases hvs : t.values with
  | nil =>
    have htV : tV = [] := by rw [← hV, hvs]; rfl
    subst htV
    simp only [List.length_nil, Nat.add_zero] at hn ⊢
    -- first alternative fails at the missing `{`, second succeeds
    have hbr : HeadNot (· = '{') (inp.drop (p + tH.length + tD.length)) :=
      headNot_mono (fun c (hc : c = '{') => Or.inr (Or.inr (Or.inl hc))) hn.ok
    have f1 := hfail _ _ (fails_seq_K rD (enumValsDef_fails hbr))
    have r2 := hrun _ _ _ _ (runsK_seq rD (notBraceK hn.tok hbr))
    obtain ⟨e, rR⟩ := runsK_rule look_EnumTypeDefinition (by decide) (by decide) (runsK_choice_r f1 r2)
    refine ⟨_, rR.mono (by barith), ?_, ?_⟩
    · refine pairOk_mk (by decide) (by decide) ?_
      simp only [cleanL_append, cleanL_cons, cleanL_nil, and_true]
      exact ⟨clean_opt (fun x hx => (hokS x hx).2), cleanP_of (by decide) (by decide) trivial,
        cleanP_of (by decide) (by decide) trivial, clean_opt (fun x hx => (hokD x hx).clean)⟩
    · intro fuel hf e'
      have hf' : tH.length + tD.length ≤ fuel := by simpa using hf
      have hch : oS.toList ++ ([Pair.mk (kindKwRule .enum) (dhOffK τ p t.desc) (dhOffK τ p t.desc + (kindKw .enum).length) []] ++
            ([Pair.mk R.Name (dhOffN τ p t.desc (kindKw .enum)) (dhOffN τ p t.desc (kindKw .enum) + t.name.toList.length) []] ++
              (oD.toList ++ []))) =
          slotPairs [oS, some (Pair.mk R.KEYWORD_enum (dhOffK τ p t.desc) (dhOffK τ p t.desc + (kindKw .enum).length) []),
            some (Pair.mk R.Name (dhOffN τ p t.desc (kindKw .enum))
              (dhOffN τ p t.desc (kindKw .enum) + t.name.toList.length) []), oD, none] := by simp [slotPairs, kindKwRule]
      rw [hch]
      have hm := matchParts_slots P_EnumTypeDefinition _ p_enum_nodup
        (show slotsOk P_EnumTypeDefinition [oS, some (Pair.mk R.KEYWORD_enum (dhOffK τ p t.desc)
            (dhOffK τ p t.desc + (kindKw .enum).length) []), some (Pair.mk R.Name (dhOffN τ p t.desc (kindKw .enum))
              (dhOffN τ p t.desc (kindKw .enum) + t.name.toList.length) []), oD, none] from
          ⟨fun x hx => (hokS x hx).1, ⟨_, rfl, rfl⟩, ⟨_, rfl, rfl⟩, fun x hx => (hokD x hx).rule,
            (fun x hx => by cases hx), trivial⟩)
      simp [buildTypeDefinition, onlyChildOf, onlyChild, Pair.children, OC_TypeDefinition, Pair.rule, hm, hbS,
        hbD fuel (by omega), optEnumValues, wpEnumVals, mapItems, asString_spec', toPos_spec', Pair.start, Pair.stop,
        hname', At, bind, Except.bind, R.ScalarTypeDefinition, R.ObjectTypeDefinition, R.InterfaceTypeDefinition,
        R.UnionTypeDefinition, R.EnumTypeDefinition]
  | cons a r =>
    rw [hvs] at hV hvals
    obtain ⟨prV, rV, hokV, hbV⟩ := enumValsT τ hτ a r hvals (hV ▸ g2) (by rw [hV]; exact hn.tok)
    rw [hV] at rV hbV
    have r1 := hrun _ _ _ _ (runsK_seq rD rV)
    obtain ⟨e, rR⟩ := runsK_rule look_EnumTypeDefinition (by decide) (by decide) (runsK_choice_l r1)
    refine ⟨_, rR.mono (by barith), ?_, ?_⟩
    · refine pairOk_mk (by decide) (by decide) ?_
      simp only [cleanL_append, cleanL_cons, cleanL_nil, and_true]
      exact ⟨clean_opt (fun x hx => (hokS x hx).2), cleanP_of (by decide) (by decide) trivial,
        cleanP_of (by decide) (by decide) trivial, clean_opt (fun x hx => (hokD x hx).clean), hokV.clean⟩
    · intro fuel hf e'
      have hf' : tH.length + (tD.length + tV.length) ≤ fuel := by simpa using hf
      have hch : oS.toList ++ ([Pair.mk (kindKwRule .enum) (dhOffK τ p t.desc) (dhOffK τ p t.desc + (kindKw .enum).length) []] ++
            ([Pair.mk R.Name (dhOffN τ p t.desc (kindKw .enum)) (dhOffN τ p t.desc (kindKw .enum) + t.name.toList.length) []] ++
              (oD.toList ++ [prV]))) =
          slotPairs [oS, some (Pair.mk R.KEYWORD_enum (dhOffK τ p t.desc) (dhOffK τ p t.desc + (kindKw .enum).length) []),
            some (Pair.mk R.Name (dhOffN τ p t.desc (kindKw .enum))
              (dhOffN τ p t.desc (kindKw .enum) + t.name.toList.length) []), oD, some prV] := by
        simp [slotPairs, kindKwRule]
      rw [hch]
      have hm := matchParts_slots P_EnumTypeDefinition _ p_enum_nodup
        (show slotsOk P_EnumTypeDefinition [oS, some (Pair.mk R.KEYWORD_enum (dhOffK τ p t.desc)
            (dhOffK τ p t.desc + (kindKw .enum).length) []), some (Pair.mk R.Name (dhOffN τ p t.desc (kindKw .enum))
              (dhOffN τ p t.desc (kindKw .enum) + t.name.toList.length) []), oD, some prV] from
          ⟨fun x hx => (hokS x hx).1, ⟨_, rfl, rfl⟩, ⟨_, rfl, rfl⟩, fun x hx => (hokD x hx).rule,
            (fun x hx => by cases hx; exact hokV.rule), trivial⟩)
      simp [buildTypeDefinition, onlyChildOf, onlyChild, Pair.children, OC_TypeDefinition, Pair.rule, hm, hbS,
        hbD fuel (by omega), hbV fuel (by omega), asString_spec', toPos_spec', Pair.start, Pair.stop,
        hname', At, bind, Except.bind, R.ScalarTypeDefinition, R.ObjectTypeDefinition, R.InterfaceTypeDefinition,
        R.UnionTypeDefinition, R.EnumTypeDefinition]

end NitroVerif.DocParse
