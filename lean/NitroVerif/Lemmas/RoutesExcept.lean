/-
C15: `Except` computations that are equal after mapping the result (`EqOn`), and computations that commute with a map
of their input.  Generic; used for the operation type printer model.
-/
namespace NitroVerif.Bridge

variable {ε α α' β β' γ : Type}

/-- two computations fail alike or succeed with results that `g` identifies -/
def EqOn (g : α → β) (a₁ a₂ : Except ε α) : Prop := a₁.map g = a₂.map g

theorem EqOn.rfl' {g : α → β} {a : Except ε α} : EqOn g a a := rfl

theorem eqOn_of_eq {g : α → β} {a₁ a₂ : Except ε α} (h : a₁ = a₂) : EqOn g a₁ a₂ := by rw [h]; rfl

theorem eqOn_ok {g : α → β} {x y : α} (h : g x = g y) : EqOn (ε := ε) g (.ok x) (.ok y) := by
  simp [EqOn, Except.map, h]

theorem eqOn_id {a₁ a₂ : Except ε α} (h : EqOn id a₁ a₂) : a₁ = a₂ := by
  cases a₁ <;> cases a₂ <;> simp_all [EqOn, Except.map]

theorem eqOn_cases {g : α → β} {a₁ a₂ : Except ε α} (h : EqOn g a₁ a₂) :
    (∃ e, a₁ = .error e ∧ a₂ = .error e) ∨ ∃ x y, a₁ = .ok x ∧ a₂ = .ok y ∧ g x = g y := by
  cases a₁ <;> cases a₂ <;> simp_all [EqOn, Except.map]

theorem eqOn_bind {h : α → β} {g : γ → β'} {a₁ a₂ : Except ε α} {k₁ k₂ : α → Except ε γ} (ha : EqOn h a₁ a₂)
    (hk : ∀ x y, a₁ = .ok x → a₂ = .ok y → h x = h y → EqOn g (k₁ x) (k₂ y)) :
    EqOn g (a₁ >>= k₁) (a₂ >>= k₂) := by
  rcases eqOn_cases ha with ⟨e, h1, h2⟩ | ⟨x, y, h1, h2, hxy⟩
  · subst h1 h2; rfl
  · subst h1 h2; exact hk x y rfl rfl hxy

theorem mapM_nil' (f : α → Except ε β) : ([] : List α).mapM f = .ok [] := rfl

theorem mapM_cons' (f : α → Except ε β) (a : α) (l : List α) :
    (a :: l).mapM f = (f a >>= fun b => l.mapM f >>= fun bs => .ok (b :: bs)) := by
  rw [List.mapM_cons]; rfl

theorem filterMapM_cons' (f : α → Except ε (Option β)) (a : α) (l : List α) :
    (a :: l).filterMapM f = (f a >>= fun o => match o with
      | none => l.filterMapM f
      | some b => l.filterMapM f >>= fun bs => .ok (b :: bs)) := by
  rw [List.filterMapM_cons]
  congr 1

/-- `mapM` over two lists with equal views -/
theorem eqOn_mapM {v : α → α'} {g : β → β'} {f₁ f₂ : α → Except ε β} :
    ∀ {l₁ l₂ : List α}, l₁.map v = l₂.map v → (∀ a ∈ l₁, ∀ b ∈ l₂, v a = v b → EqOn g (f₁ a) (f₂ b)) →
      EqOn (List.map g) (l₁.mapM f₁) (l₂.mapM f₂)
  | [], [], _, _ => rfl
  | [], _ :: _, h, _ => by simp at h
  | _ :: _, [], h, _ => by simp at h
  | a :: r₁, b :: r₂, h, hf => by
    simp only [List.map_cons, List.cons.injEq] at h
    rw [mapM_cons', mapM_cons']
    refine eqOn_bind (hf a (by simp) b (by simp) h.1) (fun x y _ _ hxy => ?_)
    refine eqOn_bind (eqOn_mapM h.2 (fun x hx y hy => hf x (by simp [hx]) y (by simp [hy]))) (fun xs ys _ _ hs => ?_)
    exact eqOn_ok (by simp [hxy, hs])

/-- `mapM` over one list -/
theorem eqOn_mapM_same {g : β → β'} {f₁ f₂ : α → Except ε β} {l : List α}
    (hf : ∀ a ∈ l, EqOn g (f₁ a) (f₂ a)) : EqOn (List.map g) (l.mapM f₁) (l.mapM f₂) :=
  eqOn_mapM (v := id) rfl (fun a ha b _ hab => by
    have : a = b := hab
    subst this
    exact hf a ha)

/-- `filterMapM` over one list -/
theorem eqOn_filterMapM_same {g : β → β'} {f₁ f₂ : α → Except ε (Option β)} :
    ∀ {l : List α}, (∀ a ∈ l, EqOn (Option.map g) (f₁ a) (f₂ a)) →
      EqOn (List.map g) (l.filterMapM f₁) (l.filterMapM f₂)
  | [], _ => rfl
  | a :: r, hf => by
    rw [filterMapM_cons', filterMapM_cons']
    refine eqOn_bind (hf a (by simp)) (fun x y _ _ hxy => ?_)
    have ih := eqOn_filterMapM_same (g := g) (f₁ := f₁) (f₂ := f₂) (l := r) (fun x hx => hf x (by simp [hx]))
    cases x <;> cases y <;> simp at hxy
    · exact ih
    · exact eqOn_bind ih (fun xs ys _ _ hs => eqOn_ok (by simp [hxy, hs]))

/-! ### commutation with a map of the input -/

theorem comm_bind {h : α → α'} {g : γ → β'} {a : Except ε α} {a' : Except ε α'} {k : α → Except ε γ}
    {k' : α' → Except ε β'} (ha : a' = a.map h) (hk : ∀ x, a = .ok x → k' (h x) = (k x).map g) :
    (a' >>= k') = (a >>= k).map g := by
  subst ha
  cases a with
  | error e => rfl
  | ok x => exact hk x rfl

theorem comm_mapM {h : α → α'} {g : β → β'} {f : α → Except ε β} {f' : α' → Except ε β'} :
    ∀ {l : List α}, (∀ x ∈ l, f' (h x) = (f x).map g) → (l.map h).mapM f' = (l.mapM f).map (List.map g)
  | [], _ => rfl
  | a :: r, hf => by
    rw [List.map_cons, mapM_cons', mapM_cons']
    refine comm_bind (hf a (by simp)) (fun x _ => ?_)
    refine comm_bind (comm_mapM (fun y hy => hf y (by simp [hy]))) (fun xs _ => ?_)
    rfl

theorem comm_filterMapM {h : α → α'} {g : β → β'} {f : α → Except ε (Option β)} {f' : α' → Except ε (Option β')} :
    ∀ {l : List α}, (∀ x ∈ l, f' (h x) = (f x).map (Option.map g)) →
      (l.map h).filterMapM f' = (l.filterMapM f).map (List.map g)
  | [], _ => rfl
  | a :: r, hf => by
    rw [List.map_cons, filterMapM_cons', filterMapM_cons']
    refine comm_bind (hf a (by simp)) (fun x _ => ?_)
    have ih := comm_filterMapM (g := g) (f := f) (f' := f') (l := r) (fun y hy => hf y (by simp [hy]))
    cases x with
    | none => exact ih
    | some b => exact comm_bind ih (fun xs _ => rfl)

theorem map_map_except {f : α → β} {g : β → γ} (a : Except ε α) : (a.map f).map g = a.map (g ∘ f) := by
  cases a <;> rfl

end NitroVerif.Bridge
