import NitroVerif.Lemmas.GqlPrintOwnLeadNames
import NitroVerif.Lemmas.ParseDocTsDefC
/-!
C16 over nitrogql's own parser, second stage: union, object and interface type DEFINITIONS whose member / `implements`
lists are written with the leading separator. Copies of C07's `unionDefT`, `objPartsK`, `objDefT`, `ifaceDefT`
(`Lemmas/ParseDocTsDefB.lean`, `ParseDocTsDefC.lean`) over the renderings of this namespace.
-/
namespace NitroVerif.DocParseL
open NitroVerif.Peg NitroVerif.Gen NitroVerif.Gen.Parts NitroVerif.Build NitroVerif.TypeParse NitroVerif.StringParse
open NitroVerif.Gql NitroVerif.ValueParse NitroVerif.Spec.Lex NitroVerif.ParseText NitroVerif.DocParse

set_option linter.unusedSimpArgs false
set_option linter.unusedVariables false

variable {inp : List Char}

/-! ### union -/

def rUnionDef (τ : Trivia) (sep : Bool) (p : Nat) (t : TypeDef) : List Char :=
  let tH := rDefHead τ false p t.desc (kindKw .union) t.name
  let tD := rDirs τ false (p + tH.length) t.dirs
  let tE := tk τ false (p + tH.length + tD.length) ['=']
  tH ++ (tD ++ (tE ++ rNamesL τ '|' sep (p + tH.length + tD.length + tE.length) t.members))

def wpUnionDef (τ : Trivia) (inp : List Char) (sep : Bool) (p : Nat) (t : TypeDef) : TypeDef :=
  let tH := rDefHead τ false p t.desc (kindKw .union) t.name
  let tD := rDirs τ false (p + tH.length) t.dirs
  let tE := tk τ false (p + tH.length + tD.length) ['=']
  { kind := .union, desc := t.desc, name := t.name, namePos := posAt inp (dhOffN τ p t.desc (kindKw .union)),
    dirs := wpDirs τ inp false (p + tH.length) t.dirs,
    members := wpNamesL τ inp '|' sep (p + tH.length + tD.length + tE.length) t.members,
    pos := posAt inp (dhOffK τ p t.desc) }

theorem p_union_nodup : (P_UnionTypeDefinition.map itemRule).Nodup := by decide

theorem unionDefT (τ : Trivia) (hτ : ∀ q, Ws (τ q)) (t : TypeDef) (hname : validName t.name.toList)
    (hdirs : WFDirs t.dirs) (hmem : t.members ≠ []) (hmv : ∀ x ∈ t.members, validName x.1.toList) {sep : Bool} {p : Nat}
    (h : HasAt inp p (rUnionDef τ sep p t)) (hn : Nxt inp tdBad sep (p + (rUnionDef τ sep p t).length)) :
    KindDefOk inp R.UnionTypeDefinition p (rUnionDef τ sep p t) (wpUnionDef τ inp sep p t) := by
  unfold KindDefOk
  simp only [rUnionDef, wpUnionDef] at h hn ⊢
  generalize hH : rDefHead τ false p t.desc (kindKw .union) t.name = tH at *
  generalize hD : rDirs τ false (p + tH.length) t.dirs = tD at *
  generalize hE : tk τ false (p + tH.length + tD.length) ['='] = tE at *
  generalize hM : rNamesL τ '|' sep (p + tH.length + tD.length + tE.length) t.members = tM at *
  have hlen : p + (tH ++ (tD ++ (tE ++ tM))).length = p + tH.length + tD.length + tE.length + tM.length := by
    simp only [List.length_append]; omega
  rw [hlen] at hn ⊢
  have g0 : HasAt inp p tH := h.left
  have g1 : HasAt inp (p + tH.length) tD := h.right.left
  have g2 : HasAt inp (p + tH.length + tD.length) tE := h.right.right.left
  have g3 : HasAt inp (p + tH.length + tD.length + tE.length) tM := h.right.right.right
  have hdE : Hd (· = '=') tE := hE ▸ hd_tk (hd_cons _ rfl)
  obtain ⟨m, ms, hms⟩ : ∃ m ms, t.members = m :: ms := by
    cases hh : t.members with
    | nil => exact absurd hh hmem
    | cons m ms => exact ⟨m, ms, rfl⟩
  rw [hms] at hM hmv
  have hdM : Hd (· = '|') tM := by
    rw [← hM]; simp only [rNamesL]
    exact Hd.append (hd_tk (P := (· = '|')) (hd_cons [] rfl)) _
  have n2 : Nxt inp (fun c => c = '@' ∨ c = '(') false (p + tH.length + tD.length) :=
    Nxt.of_hd g2 hdE (by rintro c rfl; decide)
  have n1 : Nxt inp (fun _ => False) false (p + tH.length) :=
    Nxt.rest g1 n2 (hD ▸ hd_rDirs τ false _ t.dirs) (P := (· = '@')) (by rintro c rfl; decide) (fun c hc => hc.elim)
      (fun _ _ => rfl)
  obtain ⟨oS, hrun, _, hokS, hbS, hnm⟩ := defHeadK hτ (look_kindKw .union) (kindKw_valid .union) t.desc t.name hname
    (hH ▸ g0) (by rw [hH]; exact n1)
  rw [hH] at hrun
  obtain ⟨oD, rD, hokD, _, hbD⟩ := optDirsT τ hτ t.dirs hdirs (bad := fun c => c = '@' ∨ c = '(') (Or.inr rfl)
    (Or.inl rfl) (hD ▸ g1) (by rw [hD]; exact n2)
  rw [hD] at rD hbD
  have rE := strT hτ ['='] (hE ▸ g2) (by rw [hE]; exact tok_of_hd g3 hdM (by rintro d rfl; decide))
  rw [hE] at rE
  obtain ⟨prM, rM, hokM, hbM⟩ := membersT τ hτ m ms hmv (bad := tdBad) (Or.inr (Or.inr (Or.inr (Or.inr (Or.inl rfl)))))
    (hM ▸ g3) (by rw [hM]; exact hn)
  rw [hM] at rM
  obtain ⟨e, rR⟩ := runsK_rule look_UnionTypeDefinition (by decide) (by decide)
    (hrun _ _ _ _ (runsK_seq rD (runsK_seq rE (runsK_opt_some rM))))
  have hlH : 1 ≤ tH.length := hH ▸ (hd_rDefHead τ false p t.desc _ t.name (kindKw_valid .union)).length_pos
  have hlE := hdE.length_pos
  refine ⟨_, rR.mono (by barith), ?_, ?_⟩
  · refine pairOk_mk (by decide) (by decide) ?_
    simp only [cleanL_append, cleanL_cons, cleanL_nil, and_true]
    exact ⟨clean_opt (fun x hx => (hokS x hx).2), cleanP_of (by decide) (by decide) trivial,
      cleanP_of (by decide) (by decide) trivial, clean_opt (fun x hx => (hokD x hx).clean), trivial, hokM.clean⟩
  · intro fuel hf e'
    have hf' : tH.length + (tD.length + (tE.length + tM.length)) ≤ fuel := by simpa using hf
    have hch : oS.toList ++ ([Pair.mk (kindKwRule .union) (dhOffK τ p t.desc) (dhOffK τ p t.desc + (kindKw .union).length) []] ++
          ([Pair.mk R.Name (dhOffN τ p t.desc (kindKw .union)) (dhOffN τ p t.desc (kindKw .union) + t.name.toList.length) []] ++
            (oD.toList ++ ([] ++ [prM])))) =
        slotPairs [oS, some (Pair.mk R.KEYWORD_union (dhOffK τ p t.desc) (dhOffK τ p t.desc + (kindKw .union).length) []),
          some (Pair.mk R.Name (dhOffN τ p t.desc (kindKw .union))
            (dhOffN τ p t.desc (kindKw .union) + t.name.toList.length) []), oD, some prM] := by
      simp [slotPairs, kindKwRule]
    rw [hch]
    have hm := matchParts_slots P_UnionTypeDefinition _ p_union_nodup
      (show slotsOk P_UnionTypeDefinition [oS, some (Pair.mk R.KEYWORD_union (dhOffK τ p t.desc)
          (dhOffK τ p t.desc + (kindKw .union).length) []), some (Pair.mk R.Name (dhOffN τ p t.desc (kindKw .union))
            (dhOffN τ p t.desc (kindKw .union) + t.name.toList.length) []), oD, some prM] from
        ⟨fun x hx => (hokS x hx).1, ⟨_, rfl, rfl⟩, ⟨_, rfl, rfl⟩, fun x hx => (hokD x hx).rule,
          (fun x hx => by cases hx; exact hokM.rule), trivial⟩)
    have hname' := hnm.slice
    rw [hms]
    simp [buildTypeDefinition, onlyChildOf, onlyChild, Pair.children, OC_TypeDefinition, Pair.rule, hm, hbS,
      hbD fuel (by omega), hbM, asString_spec', toPos_spec', Pair.start, Pair.stop,
      hname', At, bind, Except.bind, R.ScalarTypeDefinition, R.ObjectTypeDefinition, R.InterfaceTypeDefinition,
      R.UnionTypeDefinition]


/-- an object (`kw = type`) or interface type definition -/
def rObjDef (τ : Trivia) (kw : List Char) (sep : Bool) (p : Nat) (t : TypeDef) : List Char :=
  let tH := rDefHead τ (!t.implements.isEmpty || (sep && t.fields.isEmpty && t.dirs.isEmpty)) p t.desc kw t.name
  let tI := rOptImpl τ (sep && t.fields.isEmpty && t.dirs.isEmpty) (p + tH.length) t.implements
  let tD := rDirs τ (sep && t.fields.isEmpty) (p + tH.length + tI.length) t.dirs
  tH ++ (tI ++ (tD ++ rOptFields τ sep (p + tH.length + tI.length + tD.length) t.fields))

def wpObjDef (τ : Trivia) (inp : List Char) (k : TypeKind) (kw : List Char) (sep : Bool) (p : Nat) (t : TypeDef) : TypeDef :=
  let tH := rDefHead τ (!t.implements.isEmpty || (sep && t.fields.isEmpty && t.dirs.isEmpty)) p t.desc kw t.name
  let tI := rOptImpl τ (sep && t.fields.isEmpty && t.dirs.isEmpty) (p + tH.length) t.implements
  let tD := rDirs τ (sep && t.fields.isEmpty) (p + tH.length + tI.length) t.dirs
  { kind := k, desc := t.desc, name := t.name, namePos := posAt inp (dhOffN τ p t.desc kw),
    implements := wpNames τ inp '&' (sep && t.fields.isEmpty && t.dirs.isEmpty)
      (implOff τ (p + tH.length)) t.implements,
    dirs := wpDirs τ inp (sep && t.fields.isEmpty) (p + tH.length + tI.length) t.dirs,
    fields := wpFieldDefs τ inp (p + tH.length + tI.length + tD.length +
      (tk τ false (p + tH.length + tI.length + tD.length) ['{']).length) t.fields,
    pos := posAt inp (dhOffK τ p t.desc) }

theorem p_object_nodup : (P_ObjectTypeDefinition.map itemRule).Nodup := by decide
theorem p_interface_nodup : (P_InterfaceTypeDefinition.map itemRule).Nodup := by decide

theorem rOptFields_eq_nil {τ : Trivia} {sep : Bool} {p : Nat} {fs : List FieldDef}
    (h : rOptFields τ sep p fs = []) : fs = [] := by
  cases fs with
  | nil => rfl
  | cons v vs => exact absurd h (hd_rBraced _ _ τ '{' '}' sep p _).ne_nil

/-- the pieces shared by the two kinds: head, implements, directives in continuation form, and the end of the text -/
theorem objPartsK (τ : Trivia) (hτ : ∀ q, Ws (τ q)) {r : RuleId} {kw : List Char}
    (hl : gList.look r = some (.atomic, .seq (.str kw) (.not (.call R.NameContinue)))) (hkw : validName kw)
    (t : TypeDef) (hname : validName t.name.toList) (himpl : ∀ x ∈ t.implements, validName x.1.toList)
    (hdirs : WFDirs t.dirs) (hne : t.implements ≠ [] ∨ t.dirs ≠ [] ∨ t.fields ≠ []) {sep : Bool} {p : Nat}
    (h : HasAt inp p (rObjDef τ kw sep p t)) (hn : Nxt inp tdBad sep (p + (rObjDef τ kw sep p t).length)) :
    ∃ (oS oI oD : Option Pair) (p3 : Nat), p3 ≤ p + (rObjDef τ kw sep p t).length ∧ 1 ≤ p3 - p ∧
      HasAt inp p3 (rOptFields τ sep p3 t.fields) ∧ p3 + (rOptFields τ sep p3 t.fields).length = p + (rObjDef τ kw sep p t).length ∧
      (t.fields = [] → Tok (At inp p3) ∧ HeadNot (· = '{') (inp.drop p3)) ∧
      (∀ (T : Expr) (nT : Nat) (cE : Cur) (psT : List Pair), RunsK nT T (At inp p3) cE psT →
        RunsK (max nT (B (p3 - p) + 60) + 10)
          (.seq (.opt (.call R.Description)) (.seq (.call r) (.seq (.call R.Name) (.seq (.opt (.call R.ImplementsInterfaces))
            (.seq (.opt (.call R.Directives)) T))))) (At inp p) cE
          (slotPairs [oS, some (.mk r (dhOffK τ p t.desc) (dhOffK τ p t.desc + kw.length) []),
            some (.mk R.Name (dhOffN τ p t.desc kw) (dhOffN τ p t.desc kw + t.name.toList.length) []), oI, oD] ++ psT)) ∧
      (∀ (T : Expr) (nT : Nat), Fails gList nT true T .nonAtomic (At inp p3) →
        Fails gList (max nT (B (p3 - p) + 60) + 10) true
          (.seq (.opt (.call R.Description)) (.seq (.call r) (.seq (.call R.Name) (.seq (.opt (.call R.ImplementsInterfaces))
            (.seq (.opt (.call R.Directives)) T))))) .nonAtomic (At inp p)) ∧
      (t.dirs ≠ [] → ∃ prD, oD = some prD ∧ ∀ (T : Expr) (nT : Nat) (cE : Cur) (psT : List Pair), RunsK nT T (At inp p3) cE psT →
        RunsK (max nT (B (p3 - p) + 60) + 10)
          (.seq (.opt (.call R.Description)) (.seq (.call r) (.seq (.call R.Name) (.seq (.opt (.call R.ImplementsInterfaces))
            (.seq (.call R.Directives) T))))) (At inp p) cE
          (slotPairs [oS, some (.mk r (dhOffK τ p t.desc) (dhOffK τ p t.desc + kw.length) []),
            some (.mk R.Name (dhOffN τ p t.desc kw) (dhOffN τ p t.desc kw + t.name.toList.length) []), oI, oD] ++ psT)) ∧
      (∀ x ∈ oS, x.rule = R.Description ∧ CleanP x) ∧ optDesc (Ctx.spec inp) oS = .ok t.desc ∧
      HasAt inp (dhOffN τ p t.desc kw) t.name.toList ∧
      (∀ x ∈ oI, x.rule = R.ImplementsInterfaces ∧ CleanP x) ∧ (∀ x ∈ oD, x.rule = R.Directives ∧ CleanP x) ∧
      (∀ fuel, p3 - p ≤ fuel → optImplements (Ctx.spec inp) oI = .ok (wpObjDef τ inp .object kw sep p t).implements ∧
        optDirs (Ctx.spec inp) fuel oD = .ok (wpObjDef τ inp .object kw sep p t).dirs) ∧
      (wpObjDef τ inp .object kw sep p t).fields = wpFieldDefs τ inp (p3 + (tk τ false p3 ['{']).length) t.fields := by
  simp only [rObjDef, wpObjDef] at h hn ⊢
  generalize hsN : (!t.implements.isEmpty || (sep && t.fields.isEmpty && t.dirs.isEmpty)) = sN at *
  generalize hsI : (sep && t.fields.isEmpty && t.dirs.isEmpty) = sI at *
  generalize hsD : (sep && t.fields.isEmpty) = sD at *
  generalize hH : rDefHead τ sN p t.desc kw t.name = tH at *
  generalize hI : rOptImpl τ sI (p + tH.length) t.implements = tI at *
  generalize hD : rDirs τ sD (p + tH.length + tI.length) t.dirs = tD at *
  generalize hF : rOptFields τ sep (p + tH.length + tI.length + tD.length) t.fields = tF at *
  have hlen : p + (tH ++ (tI ++ (tD ++ tF))).length = p + tH.length + tI.length + tD.length + tF.length := by
    simp only [List.length_append]; omega
  rw [hlen] at hn ⊢
  have g0 : HasAt inp p tH := h.left
  have g1 : HasAt inp (p + tH.length) tI := h.right.left
  have g2 : HasAt inp (p + tH.length + tI.length) tD := h.right.right.left
  have g3 : HasAt inp (p + tH.length + tI.length + tD.length) tF := h.right.right.right
  have hlH : 1 ≤ tH.length := hH ▸ (hd_rDefHead τ sN p t.desc _ t.name hkw).length_pos
  -- what follows the directives / the interfaces / the name
  have n3 : Nxt inp (fun c => c = '@' ∨ c = '(' ∨ c = '&' ∨ (t.implements = [] ∧ t.dirs = [] ∧ c = 'i')) sD
      (p + tH.length + tI.length + tD.length) := by
    refine Nxt.rest' g3 hn (hF ▸ hd_rOptFields τ sep _ t.fields) (P := (· = '{')) ?_ ?_ ?_
    · rintro c rfl
      refine ⟨by decide, ?_, by decide⟩
      rintro (h | h | h | ⟨_, _, h⟩) <;> exact absurd h (by decide)
    · intro ht c hc
      have hf0 : t.fields = [] := rOptFields_eq_nil (hF.trans ht)
      rcases hc with h | h | h | ⟨h1, h2, _⟩
      · exact Or.inl h
      · exact Or.inr (Or.inl h)
      · exact Or.inr (Or.inr (Or.inr (Or.inl h)))
      · rcases hne with h' | h' | h'
        · exact absurd h1 h'
        · exact absurd h2 h'
        · exact absurd hf0 h'
    · intro ht hs
      have : t.fields = [] := rOptFields_eq_nil (hF.trans ht)
      rw [← hsD, this] at hs
      simpa using hs
  have n2 : Nxt inp (fun c => c = '&' ∨ (t.implements = [] ∧ c = 'i')) sI (p + tH.length + tI.length) := by
    refine Nxt.rest' g2 n3 (hD ▸ hd_rDirs τ sD _ t.dirs) (P := (· = '@')) ?_ ?_ ?_
    · rintro c rfl
      refine ⟨by decide, ?_, by decide⟩
      rintro (h | ⟨_, h⟩) <;> exact absurd h (by decide)
    · intro ht c hc
      have hd0 : t.dirs = [] := rDirs_eq_nil (hD.trans ht)
      rcases hc with h | ⟨h1, h2⟩
      · exact Or.inr (Or.inr (Or.inl h))
      · exact Or.inr (Or.inr (Or.inr ⟨h1, hd0, h2⟩))
    · intro ht hs
      have hd0 : t.dirs = [] := rDirs_eq_nil (hD.trans ht)
      rw [← hsI, hd0] at hs
      simpa using hs
  have n1 : Nxt inp (fun _ => False) sN (p + tH.length) := by
    cases him : t.implements with
    | nil =>
      have htI : tI = [] := by rw [← hI, him]; rfl
      have hsn : sN = sI := by rw [← hsN, him]; simp
      subst htI
      rw [hsn]
      have : Nxt inp (fun c => c = '&' ∨ (t.implements = [] ∧ c = 'i')) sI (p + tH.length) := by simpa using n2
      exact ⟨this.tok, fun _ _ _ h => h, this.glue⟩
    | cons n ns =>
      have hsn : sN = true := by rw [← hsN, him]; simp
      rw [hsn]
      have hdI : Hd (· = 'i') tI := by
        rw [← hI, him]
        exact Hd.append (hd_tk (P := (· = 'i')) (hd_cons _ rfl)) _
      exact Nxt.of_hd_sep g1 hdI (by rintro c rfl; exact ⟨by decide, id⟩)
  obtain ⟨oS, hrun, hfail, hokS, hbS, hnm⟩ := defHeadK hτ hl hkw t.desc t.name hname (hH ▸ g0) (by rw [hH]; exact n1)
  rw [hH] at hrun hfail
  obtain ⟨oI, rI, hokI, hbI⟩ := optImplT τ hτ t.implements himpl
    (bad := fun c => c = '&' ∨ (t.implements = [] ∧ c = 'i')) (Or.inl rfl) (fun h0 => Or.inr ⟨h0, rfl⟩)
    (hI ▸ g1) (by rw [hI]; exact n2)
  rw [hI] at rI
  -- the directives: optional form, and — if there are any — the plain form with the same pair
  have hdirsK : ∃ oD : Option Pair,
      RunsK (B tD.length + 21) (.opt (.call R.Directives)) (At inp (p + tH.length + tI.length))
        (At inp (p + tH.length + tI.length + tD.length)) oD.toList ∧
      (∀ x ∈ oD, PairOk R.Directives (p + tH.length + tI.length) x) ∧
      (∀ fuel, tD.length ≤ fuel → optDirs (Ctx.spec inp) fuel oD = .ok (wpDirs τ inp sD (p + tH.length + tI.length) t.dirs)) ∧
      (t.dirs ≠ [] → ∃ prD, oD = some prD ∧ RunsK (B tD.length + 21) (.call R.Directives) (At inp (p + tH.length + tI.length))
        (At inp (p + tH.length + tI.length + tD.length)) [prD]) := by
    by_cases hd : t.dirs = []
    · obtain ⟨oD, rD, hokD, _, hbD⟩ := optDirsT τ hτ t.dirs hdirs
        (bad := fun c => c = '@' ∨ c = '(' ∨ c = '&' ∨ (t.implements = [] ∧ t.dirs = [] ∧ c = 'i')) (Or.inr (Or.inl rfl))
        (Or.inl rfl) (hD ▸ g2) (by rw [hD]; exact n3)
      rw [hD] at rD hbD
      exact ⟨oD, rD, hokD, hbD, fun h => absurd hd h⟩
    · obtain ⟨prD, rD', hokD', hbD'⟩ := dirsT τ hτ t.dirs hd hdirs
        (bad := fun c => c = '@' ∨ c = '(' ∨ c = '&' ∨ (t.implements = [] ∧ t.dirs = [] ∧ c = 'i')) (Or.inr (Or.inl rfl))
        (Or.inl rfl) (hD ▸ g2) (by rw [hD]; exact n3)
      rw [hD] at rD' hbD'
      refine ⟨some prD, (runsK_opt_some rD').mono (by omega), ?_, ?_, fun _ => ⟨prD, rfl, rD'.mono (by omega)⟩⟩
      · intro x hx; cases hx; exact hokD'
      · intro fuel hf; simpa [optDirs] using hbD' fuel hf
  obtain ⟨oD, rD, hokD, hbD, hreq⟩ := hdirsK
  refine ⟨oS, oI, oD, p + tH.length + tI.length + tD.length, by omega, by omega, hF ▸ g3, by rw [hF], ?_, ?_, ?_, ?_,
    hokS, hbS, hnm, fun x hx => ⟨(hokI x hx).rule, (hokI x hx).clean⟩, fun x hx => ⟨(hokD x hx).rule, (hokD x hx).clean⟩,
    ?_, rfl⟩
  · intro hf0
    have htF : tF = [] := by rw [← hF, hf0]; rfl
    subst htF
    have hn' : Nxt inp tdBad sep (p + tH.length + tI.length + tD.length) := by simpa using hn
    exact ⟨hn'.tok, headNot_mono (fun c (hc : c = '{') => Or.inr (Or.inr (Or.inl hc))) hn'.ok⟩
  · intro T nT cE psT hT
    have := hrun _ _ _ _ (runsK_seq rI (runsK_seq rD hT))
    refine RunsK.cast (this.mono ?_) rfl rfl (by simp [slotPairs])
    have e : p + tH.length + tI.length + tD.length - p = tH.length + tI.length + tD.length := by omega
    rw [e]; barith
  · intro T nT hT
    refine (hfail _ _ (fails_seq_K rI (fails_seq_K rD hT))).mono ?_
    have e : p + tH.length + tI.length + tD.length - p = tH.length + tI.length + tD.length := by omega
    rw [e]; barith
  · intro hd
    obtain ⟨prD, hoD, rD'⟩ := hreq hd
    refine ⟨prD, hoD, ?_⟩
    intro T nT cE psT hT
    have := hrun _ _ _ _ (runsK_seq rI (runsK_seq rD' hT))
    refine RunsK.cast (this.mono ?_) rfl rfl (by simp [slotPairs, hoD])
    have e : p + tH.length + tI.length + tD.length - p = tH.length + tI.length + tD.length := by omega
    rw [e]; barith
  · intro fuel hf
    exact ⟨hbI, hbD fuel (by omega)⟩


theorem slotPairs5_nil (a b c d e : Option Pair) : slotPairs [a, b, c, d, e] ++ [] = slotPairs [a, b, c, d, e, none] := by
  simp [slotPairs]
theorem slotPairs5_one (a b c d e : Option Pair) (x : Pair) :
    slotPairs [a, b, c, d, e] ++ [x] = slotPairs [a, b, c, d, e, some x] := by
  simp [slotPairs]

/-- object type definitions: fields, or (without fields) at least one directive -/
theorem objDefT (τ : Trivia) (hτ : ∀ q, Ws (τ q)) (t : TypeDef) (hname : validName t.name.toList)
    (himpl : ∀ x ∈ t.implements, validName x.1.toList) (hdirs : WFDirs t.dirs) (hfields : ∀ f ∈ t.fields, WFFieldDef f)
    (hne : t.dirs ≠ [] ∨ t.fields ≠ []) {sep : Bool} {p : Nat} (h : HasAt inp p (rObjDef τ (kindKw .object) sep p t))
    (hn : Nxt inp tdBad sep (p + (rObjDef τ (kindKw .object) sep p t).length)) :
    KindDefOk inp R.ObjectTypeDefinition p (rObjDef τ (kindKw .object) sep p t)
      (wpObjDef τ inp .object (kindKw .object) sep p t) := by
  unfold KindDefOk
  obtain ⟨oS, oI, oD, p3, hp3, hp31, gF, hpe, hnof, hrun, hfail, hreq, hokS, hbS, hnm, hokI, hokD, hb, hfe⟩ :=
    objPartsK τ hτ (look_kindKw .object) (kindKw_valid .object) t hname himpl hdirs (Or.inr hne) h hn
  generalize hL : (rObjDef τ (kindKw .object) sep p t).length = L at *
  have hname' := hnm.slice
  cases hfs : t.fields with
  | nil =>
    have hd : t.dirs ≠ [] := hne.resolve_right (fun h => h hfs)
    obtain ⟨htok, hbr⟩ := hnof hfs
    obtain ⟨prD, hoD, hrun2⟩ := hreq hd
    have hp3e : p3 = p + L := by rw [hfs] at hpe; simpa [rOptFields] using hpe
    have f1 := hfail _ _ (fieldsDef_fails hbr)
    have r2 := hrun2 _ _ _ _ (notBraceK htok hbr)
    obtain ⟨e, rR⟩ := runsK_rule look_ObjectTypeDefinition (by decide) (by decide) (runsK_choice_r f1 r2)
    rw [slotPairs5_nil] at rR
    refine ⟨_, RunsK.cast (rR.mono ?_) rfl (by rw [hp3e]) rfl, ?_, ?_⟩
    · rw [hp3e]
      have : p + L - p = L := by omega
      rw [this]; barith
    · refine pairOk_mk (by decide) (by decide) ?_
      simp only [slotPairs, cleanL_append, cleanL_cons, cleanL_nil, and_true, Option.toList_some, Option.toList_none]
      exact ⟨clean_opt (fun x hx => (hokS x hx).2), cleanP_of (by decide) (by decide) trivial,
        cleanP_of (by decide) (by decide) trivial, clean_opt (fun x hx => (hokI x hx).2),
        clean_opt (fun x hx => (hokD x hx).2)⟩
    · intro fuel hf e'
      obtain ⟨hbI, hbD⟩ := hb fuel (by omega)
      have hm := matchParts_slots P_ObjectTypeDefinition _ p_object_nodup
        (show slotsOk P_ObjectTypeDefinition [oS, some (Pair.mk (kindKwRule .object) (dhOffK τ p t.desc)
            (dhOffK τ p t.desc + (kindKw .object).length) []), some (Pair.mk R.Name (dhOffN τ p t.desc (kindKw .object))
              (dhOffN τ p t.desc (kindKw .object) + t.name.toList.length) []), oI, oD, none] from
          ⟨fun x hx => (hokS x hx).1, ⟨_, rfl, rfl⟩, ⟨_, rfl, rfl⟩, fun x hx => (hokI x hx).1, fun x hx => (hokD x hx).1,
            (fun x hx => by cases hx), trivial⟩)
      simp only [wpObjDef] at hbI hbD hfe ⊢
      simp [buildTypeDefinition, onlyChildOf, onlyChild, Pair.children, OC_TypeDefinition, Pair.rule, hm, hbS, hbI, hbD,
        hfs, optFields, wpFieldDefs, mapItems, asString_spec', toPos_spec', Pair.start, Pair.stop, hname', At, bind,
        Except.bind, R.ScalarTypeDefinition, R.ObjectTypeDefinition]
  | cons a r =>
    rw [hfs] at gF hpe hfields hfe
    have htokE : Tok (At inp (p3 + (rOptFields τ sep p3 (a :: r)).length)) := by rw [hpe]; exact hn.tok
    obtain ⟨prF, rF, hokF, hbF⟩ := fieldsT τ hτ a r hfields gF htokE
    have r1 := hrun _ _ _ _ rF
    obtain ⟨e, rR⟩ := runsK_rule look_ObjectTypeDefinition (by decide) (by decide) (runsK_choice_l r1)
    rw [slotPairs5_one] at rR
    have hlF : (rOptFields τ sep p3 (a :: r)).length = p + L - p3 := by omega
    have hlF1 := (hd_rBraced (rFieldDef τ) true τ '{' '}' sep p3 (a :: r)).length_pos
    simp only [rOptFields] at hlF
    have e1 : B (rBraced (rFieldDef τ) true τ '{' '}' sep p3 (a :: r)).length + 45 ≤ B L + 45 := by simp only [B]; omega
    have e2 : B (p3 - p) + 60 ≤ B L := by simp only [B]; omega
    refine ⟨_, RunsK.cast (rR.mono ?_) rfl (by rw [hpe]) rfl, ?_, ?_⟩
    · simp only [rOptFields]; omega
    · refine pairOk_mk (by decide) (by decide) ?_
      simp only [slotPairs, cleanL_append, cleanL_cons, cleanL_nil, and_true, Option.toList_some, Option.toList_none]
      exact ⟨clean_opt (fun x hx => (hokS x hx).2), cleanP_of (by decide) (by decide) trivial,
        cleanP_of (by decide) (by decide) trivial, clean_opt (fun x hx => (hokI x hx).2),
        clean_opt (fun x hx => (hokD x hx).2), hokF.clean⟩
    · intro fuel hf e'
      obtain ⟨hbI, hbD⟩ := hb fuel (by omega)
      have hbF' := hbF fuel (by omega)
      have hm := matchParts_slots P_ObjectTypeDefinition _ p_object_nodup
        (show slotsOk P_ObjectTypeDefinition [oS, some (Pair.mk (kindKwRule .object) (dhOffK τ p t.desc)
            (dhOffK τ p t.desc + (kindKw .object).length) []), some (Pair.mk R.Name (dhOffN τ p t.desc (kindKw .object))
              (dhOffN τ p t.desc (kindKw .object) + t.name.toList.length) []), oI, oD, some prF] from
          ⟨fun x hx => (hokS x hx).1, ⟨_, rfl, rfl⟩, ⟨_, rfl, rfl⟩, fun x hx => (hokI x hx).1, fun x hx => (hokD x hx).1,
            (fun x hx => by cases hx; exact hokF.rule), trivial⟩)
      simp only [wpObjDef] at hbI hbD hfe ⊢
      simp [hfs] at hfe hbI hbD
      simp [buildTypeDefinition, onlyChildOf, onlyChild, Pair.children, OC_TypeDefinition, Pair.rule, hm, hbS, hbI, hbD,
        hbF', hfe, hfs, asString_spec', toPos_spec', Pair.start, Pair.stop, hname', At, bind,
        Except.bind, R.ScalarTypeDefinition, R.ObjectTypeDefinition]

/-- interface type definitions (not the bare `interface I`, which must not be followed by a word beginning with `i`) -/
theorem ifaceDefT (τ : Trivia) (hτ : ∀ q, Ws (τ q)) (t : TypeDef) (hname : validName t.name.toList)
    (himpl : ∀ x ∈ t.implements, validName x.1.toList) (hdirs : WFDirs t.dirs) (hfields : ∀ f ∈ t.fields, WFFieldDef f)
    (hne : t.implements ≠ [] ∨ t.dirs ≠ [] ∨ t.fields ≠ []) {sep : Bool} {p : Nat} (h : HasAt inp p (rObjDef τ (kindKw .interface) sep p t))
    (hn : Nxt inp tdBad sep (p + (rObjDef τ (kindKw .interface) sep p t).length)) :
    KindDefOk inp R.InterfaceTypeDefinition p (rObjDef τ (kindKw .interface) sep p t)
      (wpObjDef τ inp .interface (kindKw .interface) sep p t) := by
  unfold KindDefOk
  obtain ⟨oS, oI, oD, p3, hp3, hp31, gF, hpe, hnof, hrun, hfail, hreq, hokS, hbS, hnm, hokI, hokD, hb, hfe⟩ :=
    objPartsK τ hτ (look_kindKw .interface) (kindKw_valid .interface) t hname himpl hdirs hne h hn
  generalize hL : (rObjDef τ (kindKw .interface) sep p t).length = L at *
  have hname' := hnm.slice
  cases hfs : t.fields with
  | nil =>
    obtain ⟨htok, hbr⟩ := hnof hfs
    have hrun2 := hrun
    have hp3e : p3 = p + L := by rw [hfs] at hpe; simpa [rOptFields] using hpe
    have f1 := hfail _ _ (fieldsDef_fails hbr)
    have r2 := hrun2 _ _ _ _ (notBraceK htok hbr)
    obtain ⟨e, rR⟩ := runsK_rule look_InterfaceTypeDefinition (by decide) (by decide) (runsK_choice_r f1 r2)
    rw [slotPairs5_nil] at rR
    refine ⟨_, RunsK.cast (rR.mono ?_) rfl (by rw [hp3e]) rfl, ?_, ?_⟩
    · rw [hp3e]
      have : p + L - p = L := by omega
      rw [this]; barith
    · refine pairOk_mk (by decide) (by decide) ?_
      simp only [slotPairs, cleanL_append, cleanL_cons, cleanL_nil, and_true, Option.toList_some, Option.toList_none]
      exact ⟨clean_opt (fun x hx => (hokS x hx).2), cleanP_of (by decide) (by decide) trivial,
        cleanP_of (by decide) (by decide) trivial, clean_opt (fun x hx => (hokI x hx).2),
        clean_opt (fun x hx => (hokD x hx).2)⟩
    · intro fuel hf e'
      obtain ⟨hbI, hbD⟩ := hb fuel (by omega)
      have hm := matchParts_slots P_InterfaceTypeDefinition _ p_interface_nodup
        (show slotsOk P_InterfaceTypeDefinition [oS, some (Pair.mk (kindKwRule .interface) (dhOffK τ p t.desc)
            (dhOffK τ p t.desc + (kindKw .interface).length) []), some (Pair.mk R.Name (dhOffN τ p t.desc (kindKw .interface))
              (dhOffN τ p t.desc (kindKw .interface) + t.name.toList.length) []), oI, oD, none] from
          ⟨fun x hx => (hokS x hx).1, ⟨_, rfl, rfl⟩, ⟨_, rfl, rfl⟩, fun x hx => (hokI x hx).1, fun x hx => (hokD x hx).1,
            (fun x hx => by cases hx), trivial⟩)
      simp only [wpObjDef] at hbI hbD hfe ⊢
      simp [buildTypeDefinition, onlyChildOf, onlyChild, Pair.children, OC_TypeDefinition, Pair.rule, hm, hbS, hbI, hbD,
        hfs, optFields, wpFieldDefs, mapItems, asString_spec', toPos_spec', Pair.start, Pair.stop, hname', At, bind,
        Except.bind, R.ScalarTypeDefinition, R.ObjectTypeDefinition, R.InterfaceTypeDefinition]
  | cons a r =>
    rw [hfs] at gF hpe hfields hfe
    have htokE : Tok (At inp (p3 + (rOptFields τ sep p3 (a :: r)).length)) := by rw [hpe]; exact hn.tok
    obtain ⟨prF, rF, hokF, hbF⟩ := fieldsT τ hτ a r hfields gF htokE
    have r1 := hrun _ _ _ _ rF
    obtain ⟨e, rR⟩ := runsK_rule look_InterfaceTypeDefinition (by decide) (by decide) (runsK_choice_l r1)
    rw [slotPairs5_one] at rR
    have hlF : (rOptFields τ sep p3 (a :: r)).length = p + L - p3 := by omega
    have hlF1 := (hd_rBraced (rFieldDef τ) true τ '{' '}' sep p3 (a :: r)).length_pos
    simp only [rOptFields] at hlF
    have e1 : B (rBraced (rFieldDef τ) true τ '{' '}' sep p3 (a :: r)).length + 45 ≤ B L + 45 := by simp only [B]; omega
    have e2 : B (p3 - p) + 60 ≤ B L := by simp only [B]; omega
    refine ⟨_, RunsK.cast (rR.mono ?_) rfl (by rw [hpe]) rfl, ?_, ?_⟩
    · simp only [rOptFields]; omega
    · refine pairOk_mk (by decide) (by decide) ?_
      simp only [slotPairs, cleanL_append, cleanL_cons, cleanL_nil, and_true, Option.toList_some, Option.toList_none]
      exact ⟨clean_opt (fun x hx => (hokS x hx).2), cleanP_of (by decide) (by decide) trivial,
        cleanP_of (by decide) (by decide) trivial, clean_opt (fun x hx => (hokI x hx).2),
        clean_opt (fun x hx => (hokD x hx).2), hokF.clean⟩
    · intro fuel hf e'
      obtain ⟨hbI, hbD⟩ := hb fuel (by omega)
      have hbF' := hbF fuel (by omega)
      have hm := matchParts_slots P_InterfaceTypeDefinition _ p_interface_nodup
        (show slotsOk P_InterfaceTypeDefinition [oS, some (Pair.mk (kindKwRule .interface) (dhOffK τ p t.desc)
            (dhOffK τ p t.desc + (kindKw .interface).length) []), some (Pair.mk R.Name (dhOffN τ p t.desc (kindKw .interface))
              (dhOffN τ p t.desc (kindKw .interface) + t.name.toList.length) []), oI, oD, some prF] from
          ⟨fun x hx => (hokS x hx).1, ⟨_, rfl, rfl⟩, ⟨_, rfl, rfl⟩, fun x hx => (hokI x hx).1, fun x hx => (hokD x hx).1,
            (fun x hx => by cases hx; exact hokF.rule), trivial⟩)
      simp only [wpObjDef] at hbI hbD hfe ⊢
      simp [hfs] at hfe hbI hbD
      simp [buildTypeDefinition, onlyChildOf, onlyChild, Pair.children, OC_TypeDefinition, Pair.rule, hm, hbS, hbI, hbD,
        hbF', hfe, hfs, asString_spec', toPos_spec', Pair.start, Pair.stop, hname', At, bind,
        Except.bind, R.ScalarTypeDefinition, R.ObjectTypeDefinition, R.InterfaceTypeDefinition]


end NitroVerif.DocParseL
