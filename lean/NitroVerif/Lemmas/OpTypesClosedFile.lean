/-
C01/C02, second stage: the operation declaration file as far as the model has it (`OpTypes.opDecls`: the Result / fragment
type statements) behind the import of the schema declaration file, and the link between `resultTree` and `opDecls`.
-/
import NitroVerif.Lemmas.OpTypesClosedDoc
import NitroVerif.Lemmas.OpTypesClosedHyp
namespace NitroVerif.OpTypes.Closed
open NitroVerif.Gql NitroVerif.Ts NitroVerif.OpTypes

/-- the `type … = …;` statement of one result-type declaration (a panicking declaration prints nothing) -/
def declStmt (d : OpTypes.Decl) : Option Stmt :=
  match d.ty with
  | .ok t => some (.type d.exported d.name [] t)
  | .error _ => none

/-- the operation declaration file as far as the model has it: `import type * as <ns> from "<m>"` followed by the
    result-type statements of `opDecls` (the Variables types and the document constants are C09's / C12's subjects and
    declare no name the result types refer to) -/
def opFileOf (o : Opts) (m : String) (S : Schema) (D : Doc) : File :=
  .import m true (.star o.ns) :: (opDecls S o D).filterMap declStmt

theorem opFileOf_flat (o : Opts) (m : String) (S : Schema) (D : Doc) :
    (opFileOf o m S D).all (fun s => !s.isNamespace) = true := by
  simp only [opFileOf, List.all_cons, List.all_eq_true, List.mem_filterMap, Bool.and_eq_true]
  refine ⟨rfl, ?_⟩
  rintro s ⟨d, _, hd⟩
  unfold declStmt at hd
  split at hd <;> cases hd
  rfl

theorem opFileOf_imports (o : Opts) (m : String) (S : Schema) (D : Doc) :
    starImports (opFileOf o m S D) = [(m, o.ns)] := by
  have h : ∀ (l : List OpTypes.Decl), starImports (l.filterMap declStmt) = [] := by
    intro l
    induction l with
    | nil => rfl
    | cons d l ih =>
      simp only [List.filterMap_cons]
      cases hd : declStmt d with
      | none => exact ih
      | some st =>
        simp only
        unfold declStmt at hd
        split at hd <;> cases hd
        simpa [starImports] using ih
  simp only [opFileOf, starImports, List.filterMap_cons]
  exact congrArg _ (h _)

/-- the type `opDecls` declares for a definition is `toTs ns` of its result tree -/
theorem opDecls_of_resultTree (S : Schema) (o : Opts) (D : Doc) {x : ExecDef} (hx : x ∈ D) {T : SelTree}
    (h : resultTree S D x = some (.ok T)) : ∃ d ∈ opDecls S o D, d.ty = .ok (toTs o.ns T) := by
  simp only [opDecls, List.mem_filterMap]
  cases x with
  | op op => exact ⟨_, ⟨.op op, hx, by simp only [h]; rfl⟩, rfl⟩
  | frag f => exact ⟨_, ⟨.frag f, hx, by simp only [h]; rfl⟩, rfl⟩
  | imp i => simp [resultTree] at h

/-- the specification context of a schema and a document: fragments of the document, the given scalar value sets and
    fuel -/
def specCtx (S : Schema) (D : Doc) (scalar : Name → J → Bool) (fuel : Nat) : Exec.Ctx :=
  { S := S, F := OpTypes.fragsOf D, scalar := scalar, fuel := fuel }

/-- a result tree is the printer's value at the definition's root type and selection set, with the model's fuels -/
theorem resultTree_implTree {S : Schema} {D : Doc} {x : ExecDef} {T : SelTree} (h : resultTree S D x = some (.ok T)) :
    ∃ p, implTree S (OpTypes.fragsOf D) (mfuelFor D) (OpTypes.fuelFor D)
      (.nonNull (.named (Stages.rootNameOf S x) p)) (Stages.selOfDef x) = .ok T := by
  cases x with
  | op o => simp only [resultTree, Option.some.injEq] at h; exact ⟨{}, h⟩
  | frag f => simp only [resultTree, Option.some.injEq] at h; exact ⟨f.condPos, h⟩
  | imp i => simp [resultTree] at h

/-! ### the two fragment maps -/

theorem execFragsOf_eq_find (D : Doc) (n : Name) : Exec.fragsOf D n = (CheckOp.fragsOf D).find? (·.name == n) := by
  unfold Exec.fragsOf
  induction D with
  | nil => rfl
  | cons x D ih =>
    cases x with
    | frag f =>
      have hf : CheckOp.fragsOf (ExecDef.frag f :: D) = f :: CheckOp.fragsOf D := by simp [CheckOp.fragsOf]
      rw [List.findSome?_cons, hf, List.find?_cons]
      by_cases hn : (f.name == n) = true
      · simp [hn]
      · simp only [hn, Bool.false_eq_true, if_false]
        exact ih
    | op o =>
      have hf : CheckOp.fragsOf (ExecDef.op o :: D) = CheckOp.fragsOf D := by simp [CheckOp.fragsOf]
      rw [List.findSome?_cons, hf]; exact ih
    | imp i =>
      have hf : CheckOp.fragsOf (ExecDef.imp i :: D) = CheckOp.fragsOf D := by simp [CheckOp.fragsOf]
      rw [List.findSome?_cons, hf]; exact ih

/-- on a document with unique fragment names the specification's fragment map (the FIRST definition of a name) and the
    printer's (a `HashMap`: the LAST definition wins) are the same function -/
theorem fragMaps_agree {D : Doc} (hnd : Valid.nodupB (CheckOp.fragNamesOf D) = true) :
    Exec.fragsOf D = OpTypes.fragsOf D := by
  funext n
  rw [execFragsOf_eq_find, Stages.opFragsOf_eq_fragMap]
  cases hf : (CheckOp.fragsOf D).find? (·.name == n) with
  | some f =>
    have hm := List.mem_of_find?_eq_some hf
    have hn : f.name = n := by simpa using List.find?_some hf
    rw [← hn]
    exact (CheckOp.fragMap_of_mem hnd hm).symm
  | none =>
    symm
    unfold CheckOp.fragMap
    rw [List.find?_eq_none] at hf ⊢
    intro x hx
    exact hf x (by simpa using hx)

end NitroVerif.OpTypes.Closed
