import NitroVerif.Lemmas.CheckOpSoundUsed
/-!
Fuel adequacy of the REFERENCE VALIDATOR's closures (`Valid.closure`, used by `reachable` — rules 5.5.2.2, 5.8.3,
5.8.5, 5.5.1.4 — and by `reachableFlat` — rule 5.2.3.1): `reachFuel D = #fragments + 1` rounds reach the fixed
point, so `reachable D ss` / `reachableFlat D ss` are exactly the sets of fragment names reachable from `ss` through
spreads (`SpecReach` / `SpecFlatReach`, inductive, no fuel). Hence the rule predicates that the C03 theorems conclude
are not weakened by a truncated closure: they quantify over the true transitive closure.

Same argument as for `usedIter` (`CheckOpSoundUsed.lean`), for an arbitrary step function `next` whose productive
names (`next n ≠ []`) are bounded in number.
-/
namespace NitroVerif.CheckOp
open NitroVerif.Gql NitroVerif.CheckCommon NitroVerif.Valid

section generic
variable (next : Name → List Name)

/-- one round of `Valid.closure` -/
def closStep (acc : List Name) : List Name := Valid.dedup (acc ++ acc.flatMap next)

theorem closure_succ (k : Nat) (acc : List Name) : Valid.closure next (k + 1) acc = Valid.closure next k (closStep next acc) := rfl

theorem closure_succ' : ∀ (k : Nat) (acc : List Name), Valid.closure next (k + 1) acc = closStep next (Valid.closure next k acc) := by
  intro k
  induction k with
  | zero => intro acc; rfl
  | succ k ih => intro acc; rw [closure_succ, ih (closStep next acc)]; rfl

theorem closStep_nodup (acc : List Name) : (closStep next acc).Nodup := foldl_dedup_nodup _ [] List.nodup_nil

theorem mem_closStep {acc : List Name} {y : Name} : y ∈ closStep next acc ↔ y ∈ acc ∨ y ∈ acc.flatMap next := by
  constructor
  · intro h; exact List.mem_append.mp (mem_dedup h)
  · intro h; exact mem_foldl_dedup_of _ [] (Or.inr (List.mem_append.mpr h))

theorem closStep_fixed_of {acc : List Name} (hnd : acc.Nodup) (hsub : ∀ y ∈ acc.flatMap next, y ∈ acc) :
    closStep next acc = acc :=
  dedupNames_append_fixed hnd hsub

theorem closure_fixed {acc : List Name} (h : closStep next acc = acc) : ∀ k, Valid.closure next k acc = acc := by
  intro k
  induction k with
  | zero => rfl
  | succ k ih => rw [closure_succ, h, ih]

/-- the productive names of a list -/
def productiveIn (acc : List Name) : List Name := acc.filter fun n => !(next n).isEmpty

theorem closStep_progress {acc : List Name} (hacc : acc.Nodup)
    (hne : closStep next (closStep next acc) ≠ closStep next acc) :
    (productiveIn next acc).length + 1 ≤ (productiveIn next (closStep next acc)).length := by
  have hex : ∃ x ∈ closStep next acc, x ∉ acc ∧ (!(next x).isEmpty) = true := by
    apply Classical.byContradiction
    intro hno
    apply hne
    apply closStep_fixed_of next (closStep_nodup next acc)
    intro y hy
    obtain ⟨x, hx, hyx⟩ := List.mem_flatMap.mp hy
    by_cases hxa : x ∈ acc
    · exact (mem_closStep next).mpr (Or.inr (List.mem_flatMap.mpr ⟨x, hxa, hyx⟩))
    · exfalso
      apply hno
      refine ⟨x, hx, hxa, ?_⟩
      cases hn : next x with
      | nil => rw [hn] at hyx; cases hyx
      | cons a l => rfl
  obtain ⟨x, hx, hxa, hdef⟩ := hex
  have hnd : (x :: productiveIn next acc).Nodup := by
    rw [List.nodup_cons]
    refine ⟨?_, hacc.sublist List.filter_sublist⟩
    intro hmem
    simp only [productiveIn, List.mem_filter] at hmem
    exact hxa hmem.1
  have hsub : (x :: productiveIn next acc) ⊆ productiveIn next (closStep next acc) := by
    intro y hy
    simp only [productiveIn, List.mem_filter]
    rcases List.mem_cons.mp hy with rfl | hy
    · exact ⟨hx, hdef⟩
    · simp only [productiveIn, List.mem_filter] at hy
      exact ⟨(mem_closStep next).mpr (Or.inl hy.1), hy.2⟩
  have := List.Nodup.length_le_of_subset hnd hsub
  simpa using this

variable {next} {bound : Nat} (hb : ∀ acc : List Name, acc.Nodup → (productiveIn next acc).length ≤ bound)
include hb

theorem closure_stable : ∀ (k : Nat) (acc : List Name), acc.Nodup → bound ≤ k + (productiveIn next acc).length →
    closStep next (closStep next (Valid.closure next k acc)) = closStep next (Valid.closure next k acc) := by
  intro k
  induction k with
  | zero =>
    intro acc hnd hk
    apply Classical.byContradiction
    intro hne
    have h1 := closStep_progress next hnd hne
    have h2 := hb _ (closStep_nodup next acc)
    simp only [Valid.closure] at h1 h2 hne
    omega
  | succ k ih =>
    intro acc hnd hk
    rw [closure_succ]
    by_cases hq : closStep next (closStep next acc) = closStep next acc
    · rw [closure_fixed next hq k, hq, hq]
    · have h1 := closStep_progress next hnd hq
      exact ih (closStep next acc) (closStep_nodup next acc) (by omega)

/-- `bound + 1` rounds reach a fixed point -/
theorem closure_is_fixed {acc : List Name} (hnd : acc.Nodup) :
    closStep next (Valid.closure next (bound + 1) acc) = Valid.closure next (bound + 1) acc := by
  have := closure_stable hb bound acc hnd (by omega)
  rw [← closure_succ'] at this
  exact this

/-- and that fixed point contains everything reachable from the start list -/
theorem closure_complete {acc : List Name} (hnd : acc.Nodup) {x y : Name} {j : Nat} (hx : x ∈ acc) (hc : Chain next x j y) :
    y ∈ Valid.closure next (bound + 1) acc := by
  have hfix := closure_is_fixed hb hnd
  have hstart : ∀ z ∈ acc, z ∈ Valid.closure next (bound + 1) acc := fun z hz => closure_subset next _ acc z hz
  have hclosed : ∀ z ∈ Valid.closure next (bound + 1) acc, ∀ w ∈ next z, w ∈ Valid.closure next (bound + 1) acc := by
    intro z hz w hw
    rw [← hfix]
    exact (mem_closStep next).mpr (Or.inr (List.mem_flatMap.mpr ⟨z, hz, hw⟩))
  have : ∀ {x y j}, Chain next x j y → x ∈ Valid.closure next (bound + 1) acc → y ∈ Valid.closure next (bound + 1) acc := by
    intro x y j hc
    induction hc with
    | refl => intro h; exact h
    | step hz _ ih => intro h; exact ih (hclosed _ h _ hz)
  exact this hc (hstart x hx)

end generic

/-! ### the two closures of the reference validator -/

theorem frag?_mem {D : Doc} {n : Name} {f : FragmentDef} (h : Valid.frag? D n = some f) : f ∈ Valid.frags D ∧ f.name = n := by
  unfold Valid.frag? at h
  refine ⟨List.mem_of_find?_eq_some h, ?_⟩
  have := List.find?_some h
  simpa using this

/-- spread graph of the reference validator, any depth -/
def specNext (D : Doc) (n : Name) : List Name :=
  match Valid.frag? D n with | some f => Valid.spreadsDeep f.sel | none => []
/-- spread graph of the reference validator, top level of selection sets -/
def specNextFlat (D : Doc) (n : Name) : List Name :=
  match Valid.frag? D n with | some f => Valid.spreadsFlat f.sel | none => []

theorem productive_bound {D : Doc} {next : Name → List Name} (hn : ∀ n, Valid.frag? D n = none → next n = []) :
    ∀ acc : List Name, acc.Nodup → (productiveIn next acc).length ≤ (Valid.frags D).length := by
  intro acc hnd
  have h1 : (productiveIn next acc).Nodup := hnd.sublist List.filter_sublist
  have h2 : productiveIn next acc ⊆ (Valid.frags D).map (·.name) := by
    intro x hx
    simp only [productiveIn, List.mem_filter] at hx
    cases hm : Valid.frag? D x with
    | none => rw [hn x hm] at hx; simp at hx
    | some f =>
      obtain ⟨hf, hfn⟩ := frag?_mem hm
      exact List.mem_map.mpr ⟨f, hf, hfn⟩
  have := List.Nodup.length_le_of_subset h1 h2
  simpa using this

theorem reachable_eq (D : Doc) (ss : List Selection) :
    Valid.reachable D ss = Valid.closure (specNext D) ((Valid.frags D).length + 1) (Valid.dedup (Valid.spreadsDeep ss)) := by
  unfold Valid.reachable Valid.reachFuel
  congr 1

theorem reachableFlat_eq' (D : Doc) (ss : List Selection) :
    Valid.reachableFlat D ss =
      Valid.closure (specNextFlat D) ((Valid.frags D).length + 1) (Valid.dedup (Valid.spreadsFlat ss)) := by
  unfold Valid.reachableFlat Valid.reachFuel
  congr 1

/-- `n` is reached from the selection set `ss0` through fragment spreads at any depth (reference validator's lookup) -/
inductive SpecReach (D : Doc) (ss0 : List Selection) : Name → Prop
  | base {n : Name} : n ∈ Valid.spreadsDeep ss0 → SpecReach D ss0 n
  | step {m n : Name} {g : FragmentDef} : SpecReach D ss0 m → Valid.frag? D m = some g → n ∈ Valid.spreadsDeep g.sel →
      SpecReach D ss0 n

/-- `n` is reached from the top level of `ss0` through top-level fragment spreads (spec `CollectFields`) -/
inductive SpecFlatReach (D : Doc) (ss0 : List Selection) : Name → Prop
  | base {n : Name} : n ∈ Valid.spreadsFlat ss0 → SpecFlatReach D ss0 n
  | step {m n : Name} {g : FragmentDef} : SpecFlatReach D ss0 m → Valid.frag? D m = some g → n ∈ Valid.spreadsFlat g.sel →
      SpecFlatReach D ss0 n

theorem chain_snoc {next : Name → List Name} {x y z : Name} {j : Nat} (hc : Chain next x j y) (hz : z ∈ next y) :
    Chain next x (j + 1) z := by
  induction hc with
  | refl => exact Chain.step hz Chain.refl
  | step hw _ ih => exact Chain.step hw (ih hz)

theorem specReach_chain {D : Doc} {ss : List Selection} {n : Name} (h : SpecReach D ss n) :
    ∃ x ∈ Valid.spreadsDeep ss, ∃ j, Chain (specNext D) x j n := by
  induction h with
  | base hn => exact ⟨_, hn, 0, Chain.refl⟩
  | step _ hg hn ih =>
    obtain ⟨x, hx, j, hc⟩ := ih
    exact ⟨x, hx, j + 1, chain_snoc hc (by simp only [specNext, hg]; exact hn)⟩

theorem specFlatReach_chain {D : Doc} {ss : List Selection} {n : Name} (h : SpecFlatReach D ss n) :
    ∃ x ∈ Valid.spreadsFlat ss, ∃ j, Chain (specNextFlat D) x j n := by
  induction h with
  | base hn => exact ⟨_, hn, 0, Chain.refl⟩
  | step _ hg hn ih =>
    obtain ⟨x, hx, j, hc⟩ := ih
    exact ⟨x, hx, j + 1, chain_snoc hc (by simp only [specNextFlat, hg]; exact hn)⟩

theorem closure_sound_generic {next : Name → List Name} {P : Name → Prop} (hstep : ∀ m, P m → ∀ n ∈ next m, P n) :
    ∀ (k : Nat) (acc : List Name), (∀ x ∈ acc, P x) → ∀ x ∈ Valid.closure next k acc, P x := by
  intro k
  induction k with
  | zero => intro acc hacc x hx; exact hacc x hx
  | succ k ih =>
    intro acc hacc x hx
    simp only [Valid.closure] at hx
    refine ih _ ?_ x hx
    intro y hy
    rcases List.mem_append.mp (mem_dedup hy) with hy' | hy'
    · exact hacc y hy'
    · obtain ⟨m, hm, hym⟩ := List.mem_flatMap.mp hy'
      exact hstep m (hacc m hm) y hym

/-- **`Valid.reachable` is the reachability relation** (no fuel, every document) -/
theorem mem_reachable_iff (D : Doc) (ss : List Selection) (n : Name) : n ∈ Valid.reachable D ss ↔ SpecReach D ss n := by
  rw [reachable_eq]
  constructor
  · intro h
    refine closure_sound_generic (P := SpecReach D ss) ?_ _ _ ?_ n h
    · intro m hm x hx
      simp only [specNext] at hx
      cases hg : Valid.frag? D m with
      | none => simp [hg] at hx
      | some g => simp only [hg] at hx; exact SpecReach.step hm hg hx
    · intro x hx; exact SpecReach.base (mem_dedup hx)
  · intro h
    obtain ⟨x, hx, j, hc⟩ := specReach_chain h
    refine closure_complete (productive_bound (D := D) (next := specNext D) ?_) (foldl_dedup_nodup _ [] List.nodup_nil)
      (mem_foldl_dedup_of _ [] (Or.inr hx)) hc
    intro m hm; simp only [specNext, hm]

/-- **`Valid.reachableFlat` is the top-level reachability relation** -/
theorem mem_reachableFlat_iff (D : Doc) (ss : List Selection) (n : Name) :
    n ∈ Valid.reachableFlat D ss ↔ SpecFlatReach D ss n := by
  rw [reachableFlat_eq']
  constructor
  · intro h
    refine closure_sound_generic (P := SpecFlatReach D ss) ?_ _ _ ?_ n h
    · intro m hm x hx
      simp only [specNextFlat] at hx
      cases hg : Valid.frag? D m with
      | none => simp [hg] at hx
      | some g => simp only [hg] at hx; exact SpecFlatReach.step hm hg hx
    · intro x hx; exact SpecFlatReach.base (mem_dedup hx)
  · intro h
    obtain ⟨x, hx, j, hc⟩ := specFlatReach_chain h
    refine closure_complete (productive_bound (D := D) (next := specNextFlat D) ?_) (foldl_dedup_nodup _ [] List.nodup_nil)
      (mem_foldl_dedup_of _ [] (Or.inr hx)) hc
    intro m hm; simp only [specNextFlat, hm]

end NitroVerif.CheckOp
