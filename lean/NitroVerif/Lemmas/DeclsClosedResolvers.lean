/-
The resolvers declaration file (`Model/ResolverDecls.lean`) linked with the generated schema declaration file through its
`import type * as Schema`: shape of the file (flat, one star import), and the meaning of the `Args` record of a field
resolver — exactly `Ref_ResolverInput(args f)` (`RefTypes.refArgs`).
-/
import NitroVerif.Model.ResolverDecls
import NitroVerif.Lemmas.DeclsClosedInduct
namespace NitroVerif.ResolverDecls
open NitroVerif.Gql NitroVerif.Ts NitroVerif.DeclCfg NitroVerif.SchemaDecls NitroVerif.RefTypes

/-! ### shape of the resolvers file -/

theorem all_map_type {α : Type} (l : List α) (g : α → Stmt) (h : ∀ a, (g a).isNamespace = false) :
    (l.map g).all (fun s => !s.isNamespace) = true := by
  simp only [List.all_map, List.all_eq_true]
  intro a _
  simp [h a]

theorem starImports_append (a b : File) : starImports (a ++ b) = starImports a ++ starImports b := by
  simp [starImports, List.filterMap_append]

theorem starImports_map_type {α : Type} (l : List α) (g : α → Stmt) (h : ∀ a, starImports [g a] = []) :
    starImports (l.map g) = [] := by
  induction l with
  | nil => rfl
  | cons a r ih =>
    rw [List.map_cons, show g a :: r.map g = [g a] ++ r.map g from rfl, starImports_append, h a, ih]
    rfl

theorem resolversFile_flat (c : Cfg) (doc : TsDoc) :
    (resolversFile c doc).all (fun s => !s.isNamespace) = true := by
  simp only [resolversFile, List.all_append, Bool.and_eq_true]
  refine ⟨⟨by simp [Stmt.isNamespace], all_map_type _ _ (fun _ => rfl)⟩, by simp [Stmt.isNamespace]⟩

theorem resolversFile_imports (c : Cfg) (doc : TsDoc) :
    starImports (resolversFile c doc) = [(schemaSource, schemaNs)] := by
  simp only [resolversFile, starImports_append]
  rw [starImports_map_type _ _ (fun _ => rfl)]
  rfl

/-! ### the `Args` record -/

variable {e : Env}

/-- the record of a field's arguments, for every interpretation of the references to input types: every argument a
    REQUIRED key, wrapper-exact -/
theorem mem_argsBody_iff (L : Name → Ty) (R : Name → J → Prop) (hL : ∀ n v, Mem e v (L n) ↔ R n v)
    (args : List InputValueDef) (v : J) :
    Mem e v (.obj (args.map fun a => (a.name, true, false, tsOf L false a.ty))) ↔
      ∃ kvs, v = .obj kvs ∧ RecordSpec (args.map fun a => (a.name, false, Conf R a.ty)) kvs := by
  have hR := leaf_ext_iff L R hL
  simp only [mem_obj_iff, RecordP, RecordSpec]
  constructor
  · rintro ⟨kvs, rfl, h1, h2⟩
    refine ⟨kvs, rfl, ?_, ?_⟩
    · intro f hf
      obtain ⟨g, hg, rfl⟩ := List.mem_map.1 hf
      right
      have := h1 (g.name, true, false, tsOf L false g.ty) (List.mem_map.2 ⟨g, hg, rfl⟩) (by simp)
      rw [← hR]; exact (mem_tsOf_iff L false g.ty _).1 this
    · intro kv hkv
      rcases h2 kv hkv with h | ⟨f, hf, hk⟩
      · exact Or.inl h
      · obtain ⟨g, hg, rfl⟩ := List.mem_map.1 hf
        exact Or.inr ⟨_, List.mem_map.2 ⟨g, hg, rfl⟩, hk⟩
  · rintro ⟨kvs, rfl, h1, h2⟩
    refine ⟨kvs, rfl, ?_, ?_⟩
    · intro f hf _
      obtain ⟨g, hg, rfl⟩ := List.mem_map.1 hf
      rcases h1 (g.name, false, Conf R g.ty) (List.mem_map.2 ⟨g, hg, rfl⟩) with ⟨h, _⟩ | h
      · cases h
      · rw [← hR] at h; exact (mem_tsOf_iff L false g.ty _).2 h
    · intro kv hkv
      rcases h2 kv hkv with h | ⟨f, hf, hk⟩
      · exact Or.inl h
      · obtain ⟨g, hg, rfl⟩ := List.mem_map.1 hf
        exact Or.inr ⟨_, List.mem_map.2 ⟨g, hg, rfl⟩, hk⟩

/-- the executable reference of the `Args` record (`RefTypes.refArgs`, ∃ fuel) as a proposition -/
theorem refArgs_iff (c : Cfg) (s : Schema) (args : List InputValueDef) (v : J) :
    (∃ n, refArgs c s n args v = true) ↔
      ∃ kvs, v = .obj kvs ∧ RecordSpec (args.map fun a => (a.name, false, Conf (Ref c s .resolverInput) a.ty)) kvs := by
  have key : ∀ kvs, (∃ n, refArgs c s n args (.obj kvs) = true) ↔
      RecordSpec (args.map fun a => (a.name, false, Conf (Ref c s .resolverInput) a.ty)) kvs := by
    intro kvs
    simp only [refArgs]
    rw [exists_recordMem_iff args (fun a => a.name) (fun _ => false)
      (fun n a => conf (refMem c s .resolverInput n) a.ty)
      (fun k a x hx => conf_mono (fun n x h => refMem_succ c s .resolverInput k n x h) a.ty x hx)]
    exact recordSpec_congr args _ _ _ _ (fun a _ x => exists_conf_refMem_iff c s .resolverInput a.ty x) kvs
  constructor
  · rintro ⟨n, hn⟩
    cases v with
    | obj kvs => exact ⟨kvs, rfl, (key kvs).1 ⟨n, hn⟩⟩
    | _ => simp [refArgs] at hn
  · rintro ⟨kvs, rfl, hr⟩
    exact (key kvs).2 hr

/-! ### the `Result` type: what a resolver returns -/

/-- a record type whose fields are all required, for every interpretation of the references (any readonly flags) -/
theorem mem_recordBody_iff {α : Type} (l : List α) (key : α → String) (ro : α → Bool) (ty : α → GType)
    (L : Name → Ty) (R : Name → J → Prop) (hL : ∀ n v, Mem e v (L n) ↔ R n v) (v : J) :
    Mem e v (.obj (l.map fun a => (key a, ro a, false, tsOf L false (ty a)))) ↔
      ∃ kvs, v = .obj kvs ∧ RecordSpec (l.map fun a => (key a, false, Conf R (ty a))) kvs := by
  have hR := leaf_ext_iff L R hL
  simp only [mem_obj_iff, RecordP, RecordSpec]
  constructor
  · rintro ⟨kvs, rfl, h1, h2⟩
    refine ⟨kvs, rfl, ?_, ?_⟩
    · intro f hf
      obtain ⟨g, hg, rfl⟩ := List.mem_map.1 hf
      right
      have := h1 (key g, ro g, false, tsOf L false (ty g)) (List.mem_map.2 ⟨g, hg, rfl⟩) (by simp)
      rw [← hR]; exact (mem_tsOf_iff L false (ty g) _).1 this
    · intro kv hkv
      rcases h2 kv hkv with h | ⟨f, hf, hk⟩
      · exact Or.inl h
      · obtain ⟨g, hg, rfl⟩ := List.mem_map.1 hf
        exact Or.inr ⟨_, List.mem_map.2 ⟨g, hg, rfl⟩, hk⟩
  · rintro ⟨kvs, rfl, h1, h2⟩
    refine ⟨kvs, rfl, ?_, ?_⟩
    · intro f hf _
      obtain ⟨g, hg, rfl⟩ := List.mem_map.1 hf
      rcases h1 (key g, false, Conf R (ty g)) (List.mem_map.2 ⟨g, hg, rfl⟩) with ⟨h, _⟩ | h
      · cases h
      · rw [← hR] at h; exact (mem_tsOf_iff L false (ty g) _).2 h
    · intro kv hkv
      rcases h2 kv hkv with h | ⟨f, hf, hk⟩
      · exact Or.inl h
      · obtain ⟨g, hg, rfl⟩ := List.mem_map.1 hf
        exact Or.inr ⟨_, List.mem_map.2 ⟨g, hg, rfl⟩, hk⟩

/-- an application a hook interprets denotes what the hook returns -/
theorem mem_app_iff {f : Ty} {as : List Ty} {t' : Ty} {v : J} (h : e.appHook e.decls f as = some t') :
    Mem e v (.app f as) ↔ Mem e v t' := by
  constructor
  · intro hm
    cases hm with
    | hook _ _ _ t'' hh hm' => rw [h] at hh; cases hh; exact hm'
    | opaqueTy _ ho => simp [Ty.isOpaque, h] at ho
  · intro hm; exact .hook v f as t' h hm

/-! #### the reference `refResolverOut` -/

/-- what a resolver returns for the named type (∃ fuel) -/
def RefOut (c : Cfg) (s : Schema) (name : Name) (v : J) : Prop := ∃ n, refResolverOut c s n name v = true

variable (c : Cfg) (s : Schema)

theorem refResolverOut_object {n : Nat} {name : Name} {td : TypeDef} (h : s.typeDef? name = some td)
    (hk : td.kind = .object) (kvs : List (String × J)) :
    refResolverOut c s (n + 1) name (.obj kvs) =
      recordMem (td.fields.map fun f => (f.name, false, conf (refMem c s .resolverOutput n) f.ty)) kvs := by
  simp only [refResolverOut, h, hk]

theorem refResolverOut_object_notObj {n : Nat} {name : Name} {td : TypeDef} {v : J} (h : s.typeDef? name = some td)
    (hk : td.kind = .object) (hv : ∀ kvs, v ≠ .obj kvs) : refResolverOut c s n name v = false := by
  cases n with
  | zero => simp [refResolverOut]
  | succ n =>
    simp only [refResolverOut, h, hk]

theorem refResolverOut_abstract {n : Nat} {name : Name} {v : J} {td : TypeDef} (h : s.typeDef? name = some td)
    (hk : td.kind = .interface ∨ td.kind = .union) :
    refResolverOut c s (n + 1) name v = (s.possibleTypes name).any fun o => refResolverOut c s n o v := by
  rcases hk with hk | hk <;> simp only [refResolverOut, h, hk]

theorem refResolverOut_leaf {n : Nat} {name : Name} {v : J} {td : TypeDef} (h : s.typeDef? name = some td)
    (hk : td.kind = .scalar ∨ td.kind = .enum ∨ td.kind = .input) :
    refResolverOut c s (n + 1) name v = refMem c s .resolverOutput (n + 1) name v := by
  rcases hk with hk | hk | hk <;> simp only [refResolverOut, h, hk]

theorem refResolverOut_unknown {n : Nat} {name : Name} {v : J} (h : s.typeDef? name = none) :
    refResolverOut c s n name v = false := by
  cases n <;> simp [refResolverOut, h]

theorem refResolverOut_succ : ∀ (n : Nat) (name : Name) (v : J),
    refResolverOut c s n name v = true → refResolverOut c s (n + 1) name v = true := by
  intro n
  induction n with
  | zero => intro name v h; simp [refResolverOut] at h
  | succ n ih =>
    intro name v h
    cases htd : s.typeDef? name with
    | none => rw [refResolverOut_unknown c s htd] at h; cases h
    | some td =>
      cases hk : td.kind with
      | object =>
        cases v with
        | obj kvs =>
          rw [refResolverOut_object c s htd hk] at h ⊢
          exact recordMem_map_mono _
            (fun f : FieldDef => (f.name, false, conf (refMem c s .resolverOutput n) f.ty))
            (fun f : FieldDef => (f.name, false, conf (refMem c s .resolverOutput (n + 1)) f.ty))
            (fun _ _ => rfl) (fun _ _ => rfl)
            (fun a _ x hx => conf_mono (fun m y hy => refMem_succ c s .resolverOutput n m y hy) a.ty x hx) kvs h
        | _ => rw [refResolverOut_object_notObj c s htd hk (by intro kvs; simp)] at h; cases h
      | interface =>
        rw [refResolverOut_abstract c s htd (Or.inl hk)] at h ⊢
        simp only [List.any_eq_true] at h ⊢
        obtain ⟨o, ho, hm⟩ := h
        exact ⟨o, ho, ih _ _ hm⟩
      | union =>
        rw [refResolverOut_abstract c s htd (Or.inr hk)] at h ⊢
        simp only [List.any_eq_true] at h ⊢
        obtain ⟨o, ho, hm⟩ := h
        exact ⟨o, ho, ih _ _ hm⟩
      | scalar =>
        rw [refResolverOut_leaf c s htd (Or.inl hk)] at h ⊢
        exact refMem_succ c s _ _ _ _ h
      | «enum» =>
        rw [refResolverOut_leaf c s htd (Or.inr (Or.inl hk))] at h ⊢
        exact refMem_succ c s _ _ _ _ h
      | input =>
        rw [refResolverOut_leaf c s htd (Or.inr (Or.inr hk))] at h ⊢
        exact refMem_succ c s _ _ _ _ h

theorem RefOut_succ_iff {name : Name} {v : J} : RefOut c s name v ↔ ∃ n, refResolverOut c s (n + 1) name v = true := by
  constructor
  · rintro ⟨n, hn⟩; exact ⟨n, refResolverOut_succ c s n name v hn⟩
  · rintro ⟨n, hn⟩; exact ⟨n + 1, hn⟩

theorem RefOut_leaf {name : Name} {v : J} {td : TypeDef} (h : s.typeDef? name = some td)
    (hk : td.kind = .scalar ∨ td.kind = .enum ∨ td.kind = .input) :
    RefOut c s name v ↔ Ref c s .resolverOutput name v := by
  rw [RefOut_succ_iff, Ref_succ_iff]
  simp only [refResolverOut_leaf c s h hk]

theorem RefOut_object {name : Name} {v : J} {td : TypeDef} (h : s.typeDef? name = some td) (hk : td.kind = .object) :
    RefOut c s name v ↔ ∃ kvs, v = .obj kvs ∧
      RecordSpec (td.fields.map fun f => (f.name, false, Conf (Ref c s .resolverOutput) f.ty)) kvs := by
  rw [RefOut_succ_iff]
  have key : ∀ kvs, (∃ n, refResolverOut c s (n + 1) name (.obj kvs) = true) ↔
      RecordSpec (td.fields.map fun f => (f.name, false, Conf (Ref c s .resolverOutput) f.ty)) kvs := by
    intro kvs
    simp only [refResolverOut_object c s h hk]
    rw [exists_recordMem_iff td.fields (fun f => f.name) (fun _ => false)
      (fun n f => conf (refMem c s .resolverOutput n) f.ty)
      (fun k f x hx => conf_mono (fun n x h => refMem_succ c s .resolverOutput k n x h) f.ty x hx)]
    exact recordSpec_congr td.fields _ _ _ _ (fun f _ x => exists_conf_refMem_iff c s .resolverOutput f.ty x) kvs
  constructor
  · rintro ⟨n, hn⟩
    cases v with
    | obj kvs => exact ⟨kvs, rfl, (key kvs).1 ⟨n, hn⟩⟩
    | _ => rw [refResolverOut_object_notObj c s h hk (by intro kvs; simp)] at hn; cases hn
  · rintro ⟨kvs, rfl, hr⟩
    exact (key kvs).2 hr

theorem RefOut_abstract {name : Name} {v : J} {td : TypeDef} (h : s.typeDef? name = some td)
    (hk : td.kind = .interface ∨ td.kind = .union) :
    RefOut c s name v ↔ ∃ o ∈ s.possibleTypes name, RefOut c s o v := by
  rw [RefOut_succ_iff]
  simp only [refResolverOut_abstract c s h hk, List.any_eq_true]
  constructor
  · rintro ⟨n, o, ho, hm⟩; exact ⟨o, ho, n, hm⟩
  · rintro ⟨o, ho, n, hm⟩; exact ⟨n, o, ho, hm⟩

theorem exists_conf_refResolverOut_iff (ty : GType) (x : J) :
    (∃ k, conf (refResolverOut c s k) ty x = true) ↔ Conf (RefOut c s) ty x :=
  conf_iff_exists (leaf := refResolverOut c s) (fun k n x h => refResolverOut_succ c s k n x h) ty x

/-! #### the resolvers file's own declarations -/

theorem decls_map_type {α : Type} (sc : Scope) (l : List α) (n : α → String) (ty : α → Ty) :
    Stmt.declsList sc (l.map fun a => Stmt.type false (n a) [] (ty a))
      = l.map fun a => (⟨sc, n a, false, [], ty a⟩ : Decl) := by
  induction l with
  | nil => rfl
  | cons a r ih => simp [Stmt.declsList, Stmt.decls, ih]

/-- the definitions that get a local alias in the resolvers file: every kind but input objects -/
def outsOf (doc : TsDoc) : List TypeDef := (typeDefsOf doc).filter (·.kind != .input)

/-- the four fixed top-level declarations of the resolvers file -/
def headDecls : List Decl :=
  [⟨[], "__Resolver", false, [], .other "raw" [resolverText]⟩,
   ⟨[], "__TypeResolver", false, [], .other "raw" [typeResolverText]⟩]

def tailDecls (doc : TsDoc) : List Decl :=
  [⟨[], "Resolvers", true, ["Context"], rootResolvers ⟨doc⟩ (typeDefsOf doc)⟩,
   ⟨[], "ResolverOutput", true, ["T"],
     .index (.obj ((outsOf doc).map fun td => (td.name, false, false, .ref td.name))) (.ref "T")⟩]

theorem decls_resolversFile (c : Cfg) (doc : TsDoc) :
    Stmt.declsList [] (resolversFile c doc) =
      headDecls ++ (outsOf doc).map (fun td => (⟨[], td.name, false, [], resolverOutputType ⟨doc⟩ td⟩ : Decl))
        ++ tailDecls doc := by
  simp only [resolversFile, declsList_append', decls_map_type, outsOf, headDecls, tailDecls]
  simp [Stmt.declsList, Stmt.decls]

theorem find_map_decl (g : TypeDef → Ty) (td : TypeDef) : ∀ (l : List TypeDef), td ∈ l →
    (∀ a ∈ l, a.name = td.name → a = td) → ∀ (rest : List Decl),
    ((l.map fun a => (⟨[], a.name, false, [], g a⟩ : Decl)) ++ rest).find? (isDeclAt [] td.name)
      = some ⟨[], td.name, false, [], g td⟩ := by
  intro l
  induction l with
  | nil => intro h; cases h
  | cons a r ih =>
    intro hm hinj rest
    simp only [List.map_cons, List.cons_append, List.find?_cons]
    by_cases hat : a = td
    · subst hat; simp [isDeclAt]
    · have hne : a.name ≠ td.name := fun e => hat (hinj a List.mem_cons_self e)
      have : isDeclAt [] td.name ⟨[], a.name, false, [], g a⟩ = false := by simp [isDeclAt, hne]
      rw [this]
      apply ih
      · rcases List.mem_cons.1 hm with e | e
        · exact absurd e.symm hat
        · exact e
      · exact fun b hb => hinj b (List.mem_cons_of_mem _ hb)

/-- side conditions of the `Result` closed form: no configured scalar text applies `Omit<…>` on its interpreted spine
    (the membership environment of the O stream interprets `Omit`, `Ref` reads texts without helper types); no schema
    type is named like a helper of the resolvers file or `Omit`; no field is called `__typename` (GraphQL reserves
    names beginning with `__`) -/
structure ResolversOK (c : Cfg) (doc : TsDoc) : Prop where
  noOmit : ∀ p ∈ scalarTypes c doc, ∀ t ∈ Target.all, (c.parseOf (p.2.getType t)).noOmit = true
  names : ∀ td ∈ typeDefsOf doc, td.name ∉ ["__Resolver", "__TypeResolver", "Omit"]
  fieldNames : ∀ td ∈ typeDefsOf doc, ∀ f ∈ td.fields, f.name ≠ "__typename"

section result
variable {c : Cfg} {doc : TsDoc} {F : File} (hF : schemaFile c doc = .ok F) (ok : DocOK c doc) (rok : ResolversOK c doc)

/-- the environment of the O stream for the resolvers file: linked with the schema file, `Omit` interpreted -/
abbrev RE (c : Cfg) (doc : TsDoc) (F : File) : Env := (Env.ofFiles (resolversFile c doc) [(schemaSource, F)]).withStd

theorem RE_hosted (c : Cfg) (doc : TsDoc) (F : File) : Hosted (RE c doc F).decls [schemaNs] F :=
  hosted_ofFiles _ _ _ F (resolversFile_flat c doc) (resolversFile_imports c doc)

include rok in
theorem RE_scalars : ScalarsGlobal c doc (RE c doc F) :=
  fun p hp t ht _ => mem_indep_std (fun _ _ _ => rfl) (rok.noOmit p hp t ht)

include hF ok rok in
/-- `Schema.__ResolverOutput.T` in the resolvers file -/
theorem RE_schemaRef {td : TypeDef} (hm : td ∈ typeDefsOf doc) (hk : td.kind ≠ .input) :
    globalise (RE c doc F).decls [] [] (.qref [schemaNs, Target.resolverOutput.name, td.name])
      = absRef c doc [schemaNs] .resolverOutput td.name ∧
    ∀ v, Mem (RE c doc F) v (absRef c doc [schemaNs] .resolverOutput td.name) ↔ Ref c ⟨doc⟩ .resolverOutput td.name v := by
  have hfit : kindFits td.kind .resolverOutput = true := by
    cases hkk : td.kind <;> simp_all [kindFits, Target.isOutput]
  obtain ⟨ty, hb⟩ := fits_body hF .resolverOutput hm hfit
  have hq := hosted_qualified_outer hF ok (RE_hosted c doc F) .resolverOutput (sc := []) (A := schemaNs)
    (ofFiles_resolveNs _ _ _ F (resolversFile_imports c doc)) hm hb
  refine ⟨?_, fun v => hosted_alias_exact' hF ok (RE_hosted c doc F) (RE_scalars rok) .resolverOutput hm hfit v⟩
  simp only [globalise, List.contains_nil, Bool.false_eq_true, if_false, hq]
  rfl

include ok rok in
/-- the local alias of a non-input definition in the resolvers file -/
theorem RE_findLocal {td : TypeDef} (hm : td ∈ typeDefsOf doc) (hk : td.kind ≠ .input) :
    (RE c doc F).decls.findLocal [] td.name = some ⟨[], td.name, false, [], resolverOutputType ⟨doc⟩ td⟩ := by
  apply ofFiles_findLocal_top _ _ _ F (resolversFile_imports c doc)
  rw [decls_resolversFile]
  have hn := rok.names td hm
  simp only [List.mem_cons, List.mem_nil_iff, or_false, not_or] at hn
  have e1 : ("__Resolver" == td.name) = false := by simpa using Ne.symm hn.1
  have e2 : ("__TypeResolver" == td.name) = false := by simpa using Ne.symm hn.2.1
  simp only [headDecls, List.cons_append, List.nil_append, List.find?_cons, isDeclAt, e1, e2, Bool.and_false]
  apply find_map_decl
  · simp only [outsOf, List.mem_filter]
    refine ⟨hm, ?_⟩
    cases hkk : td.kind <;> first | rfl | exact absurd hkk hk
  · intro a ha e
    exact nodup_names_inj ok.distinct a (List.mem_filter.1 ha).1 td hm e

include ok rok in
theorem RE_leaf {td : TypeDef} (hm : td ∈ typeDefsOf doc) (hk : td.kind ≠ .input) :
    globalise (RE c doc F).decls [] [] (.ref td.name) = Ty.abs [] td.name ∧
    (RE c doc F).decls.body? [td.name]
      = some ([], globalise (RE c doc F).decls [] [] (resolverOutputType ⟨doc⟩ td)) := by
  have hfl := RE_findLocal (F := F) ok rok hm hk
  constructor
  · simp only [globalise, List.contains_nil, Bool.false_eq_true, if_false, resolveRef_of_findLocal hfl, Ty.abs,
      List.nil_append]
  · simp [Decls.body?, hfl]

include rok in
/-- `Omit` is not bound in the resolvers file: it keeps its global meaning -/
theorem RE_omit : globalise (RE c doc F).decls [] [] (.ref "Omit") = .ref "Omit" := by
  have hfl : (RE c doc F).decls.findLocal [] "Omit" = none := by
    apply ofFiles_findLocal_top_none _ _ _ F (resolversFile_imports c doc)
    rw [decls_resolversFile]
    apply List.find?_eq_none.2
    intro d hdm
    simp only [isDeclAt, Bool.and_eq_true, beq_iff_eq, not_and]
    intro _ hn
    simp only [headDecls, tailDecls, List.mem_append, List.mem_cons, List.mem_nil_iff, or_false, List.mem_map] at hdm
    rcases hdm with ((rfl | rfl) | ⟨a, ha, rfl⟩) | (rfl | rfl)
    · exact absurd hn (by decide)
    · exact absurd hn (by decide)
    · have := rok.names a (List.mem_filter.1 ha).1
      simp only at hn
      simp [hn] at this
    · exact absurd (show "Resolvers" = "Omit" from hn) (by decide)
    · exact absurd (show "ResolverOutput" = "Omit" from hn) (by decide)
  simp [globalise, Decls.resolveRef, Decls.resolveRefAux, hfl]

theorem objView_obj (e : Env) (n : Nat) (fs : List Field) : objView e (n + 1) (.obj fs) = .isObj fs := by
  simp [objView]

theorem filter_typename {α : Type} (l : List α) (key : α → String) (g : α → Bool × Bool × Ty) (t0 : Bool × Bool × Ty)
    (h : ∀ a ∈ l, key a ≠ "__typename") :
    ((("__typename", t0) :: l.map fun a => (key a, g a)) : List Field).filter
        (fun fld => !(["__typename"] : List String).contains fld.1)
      = l.map fun a => (key a, g a) := by
  simp only [List.filter_cons, List.contains_cons, List.contains_nil, Bool.or_false, beq_self_eq_true,
    Bool.not_true, Bool.false_eq_true, if_false]
  apply List.filter_eq_self.2
  intro x hx
  obtain ⟨a, ha, rfl⟩ := List.mem_map.1 hx
  simpa using h a ha

include hF ok rok in
/-- leaves of the schema file's `__ResolverOutput` namespace, seen from the resolvers environment -/
theorem RE_inner_leaf {td' : TypeDef} (hm' : td' ∈ typeDefsOf doc) (hk' : td'.kind ≠ .input) (y : J) :
    Mem (RE c doc F) y (globalise (RE c doc F).decls ([schemaNs] ++ [Target.resolverOutput.name]) []
        ((Ctx.new c doc .resolverOutput).leaf td'.name))
      ↔ Ref c ⟨doc⟩ .resolverOutput td'.name y := by
  have hfit' : kindFits td'.kind .resolverOutput = true := by
    cases hkk : td'.kind <;> simp_all [kindFits, Target.isOutput]
  rw [leaf_abs hF ok (RE_hosted c doc F) .resolverOutput hm' hfit']
  exact hosted_alias_exact' hF ok (RE_hosted c doc F) (RE_scalars rok) .resolverOutput hm' hfit' y

include hF ok rok in
/-- OBJECT alias of the resolvers file: `Omit<Schema.__ResolverOutput.T, "__typename">` admits exactly the object's
    records without the `__typename` key -/
theorem RE_object_exact {td : TypeDef} (hm : td ∈ typeDefsOf doc) (hk : td.kind = .object) (v : J) :
    Mem (RE c doc F) v (Ty.abs [] td.name) ↔ RefOut c ⟨doc⟩ td.name v := by
  have hki : td.kind ≠ .input := by rw [hk]; decide
  obtain ⟨_, hbody⟩ := RE_leaf (F := F) ok rok hm hki
  obtain ⟨hq, _⟩ := RE_schemaRef hF ok rok hm hki
  have hrt : resolverOutputType ⟨doc⟩ td
      = .app (.ref "Omit") [.qref [schemaNs, Target.resolverOutput.name, td.name], .strLit "__typename"] := by
    simp [resolverOutputType, hk]
  have hglob : globalise (RE c doc F).decls [] [] (resolverOutputType ⟨doc⟩ td)
      = .app (.ref "Omit") [absRef c doc [schemaNs] .resolverOutput td.name, .strLit "__typename"] := by
    rw [hrt, globalise, globaliseList, globaliseList, globaliseList, RE_omit rok, hq]
    simp only [globalise]
  -- the hook
  have hb0 : body (Ctx.new c doc .resolverOutput) td = .ok (some (objectBody (Ctx.new c doc .resolverOutput) td)) := by
    simp [body, hk, Target.isInput, Target.isOutput]
  have hsb := hosted_body hF ok (RE_hosted c doc F) .resolverOutput hm hb0
  rw [objectBody, globalise_objectBodyL] at hsb
  have hview : objView ({ decls := (RE c doc F).decls } : Env) 64 (absRef c doc [schemaNs] .resolverOutput td.name)
      = .isObj (("__typename", false, false, .strLit td.name) :: td.fields.map fun f =>
          (f.name, false, false, tsOf (fun n => globalise (RE c doc F).decls ([schemaNs] ++ [Target.resolverOutput.name]) []
            ((Ctx.new c doc .resolverOutput).leaf n)) false f.ty)) := by
    rw [absRef, Ty.abs, objView_abs_some (e := ({ decls := (RE c doc F).decls } : Env)) (n := 63) hsb, objectBodyL,
      objView_obj]
  have hhook : (RE c doc F).appHook (RE c doc F).decls (.ref "Omit")
      [absRef c doc [schemaNs] .resolverOutput td.name, .strLit "__typename"]
      = some (.obj (td.fields.map fun f =>
          (f.name, false, false, tsOf (fun n => globalise (RE c doc F).decls ([schemaNs] ++ [Target.resolverOutput.name]) []
            ((Ctx.new c doc .resolverOutput).leaf n)) false f.ty))) := by
    have hstd : (RE c doc F).appHook = stdHook := rfl
    rw [hstd]
    simp only [stdHook, hview, Ty.strLits]
    rw [filter_typename td.fields (fun f => f.name) _ _ (rok.fieldNames td hm)]
  rw [Ty.abs, List.nil_append, mem_alias_iff (by rw [hbody, hglob]), mem_app_iff hhook,
    mem_recordBody_iff td.fields (fun f => f.name) (fun _ => false) (fun f => f.ty) _
      (fun n x => Mem (RE c doc F) x (globalise (RE c doc F).decls ([schemaNs] ++ [Target.resolverOutput.name]) []
        ((Ctx.new c doc .resolverOutput).leaf n))) (fun _ _ => Iff.rfl),
    RefOut_object c ⟨doc⟩ (typeDef?_of_mem ok hm) hk]
  have key : ∀ kvs, RecordSpec (td.fields.map fun f => (f.name, false,
        Conf (fun n x => Mem (RE c doc F) x (globalise (RE c doc F).decls ([schemaNs] ++ [Target.resolverOutput.name]) []
          ((Ctx.new c doc .resolverOutput).leaf n))) f.ty)) kvs ↔
      RecordSpec (td.fields.map fun f => (f.name, false, Conf (Ref c ⟨doc⟩ .resolverOutput) f.ty)) kvs := by
    intro kvs
    apply recordSpec_congr
    intro f hf x
    apply conf_congr
    intro y _
    obtain ⟨td', hm', hn', hk'⟩ := ok.fields td hm hk f hf
    rw [← hn']
    exact RE_inner_leaf hF ok rok hm' hk' y
  constructor
  · rintro ⟨kvs, rfl, hr⟩; exact ⟨kvs, rfl, (key kvs).1 hr⟩
  · rintro ⟨kvs, rfl, hr⟩; exact ⟨kvs, rfl, (key kvs).2 hr⟩

include hF ok rok in
/-- SCALAR / ENUM alias of the resolvers file: `Schema.__ResolverOutput.T` -/
theorem RE_leafKind_exact {td : TypeDef} (hm : td ∈ typeDefsOf doc) (hk : td.kind = .scalar ∨ td.kind = .enum)
    (v : J) : Mem (RE c doc F) v (Ty.abs [] td.name) ↔ RefOut c ⟨doc⟩ td.name v := by
  have hki : td.kind ≠ .input := by rcases hk with hk | hk <;> rw [hk] <;> decide
  obtain ⟨_, hbody⟩ := RE_leaf (F := F) ok rok hm hki
  obtain ⟨hq, hx⟩ := RE_schemaRef hF ok rok hm hki
  have hrt : resolverOutputType ⟨doc⟩ td = .qref [schemaNs, Target.resolverOutput.name, td.name] := by
    rcases hk with hk | hk <;> simp [resolverOutputType, hk]
  rw [Ty.abs, List.nil_append, mem_alias_iff (by rw [hbody, hrt, hq]), hx v,
    RefOut_leaf c ⟨doc⟩ (typeDef?_of_mem ok hm) (by rcases hk with hk | hk <;> simp [hk])]

include hF ok rok in
/-- INTERFACE / UNION alias of the resolvers file: the union of the local object aliases -/
theorem RE_members_exact {td : TypeDef} (hm : td ∈ typeDefsOf doc) (hk : td.kind = .interface ∨ td.kind = .union)
    (names : List Name) (hrt : resolverOutputType ⟨doc⟩ td = tsUnion (names.map .ref))
    (hposs : (Schema.mk doc).possibleTypes td.name = names)
    (hobj : ∀ n ∈ names, ∃ td' ∈ typeDefsOf doc, td'.name = n ∧ td'.kind = .object) (v : J) :
    Mem (RE c doc F) v (Ty.abs [] td.name) ↔ RefOut c ⟨doc⟩ td.name v := by
  have hki : td.kind ≠ .input := by rcases hk with hk | hk <;> rw [hk] <;> decide
  obtain ⟨_, hbody⟩ := RE_leaf (F := F) ok rok hm hki
  rw [Ty.abs, List.nil_append, mem_alias_iff hbody, hrt, globalise_tsUnion, globaliseList_map, mem_tsUnion_iff,
    RefOut_abstract c ⟨doc⟩ (typeDef?_of_mem ok hm) hk, hposs]
  have key : ∀ n ∈ names, (Mem (RE c doc F) v (globalise (RE c doc F).decls [] [] (.ref n)) ↔ RefOut c ⟨doc⟩ n v) := by
    intro n hn
    obtain ⟨td', hm', hn', hk'⟩ := hobj n hn
    have hki' : td'.kind ≠ .input := by rw [hk']; decide
    rw [← hn', (RE_leaf (F := F) ok rok hm' hki').1]
    exact RE_object_exact hF ok rok hm' hk' v
  constructor
  · rintro ⟨t, ht, hmem⟩
    obtain ⟨n, hn, rfl⟩ := List.mem_map.1 ht
    exact ⟨n, hn, (key n hn).1 hmem⟩
  · rintro ⟨n, hn, h⟩
    exact ⟨_, List.mem_map.2 ⟨n, hn, rfl⟩, (key n hn).2 h⟩

include hF ok rok in
/-- every local alias of the resolvers file admits exactly what a resolver returns for the type -/
theorem RE_alias_exact {td : TypeDef} (hm : td ∈ typeDefsOf doc) (hki : td.kind ≠ .input) (v : J) :
    Mem (RE c doc F) v (Ty.abs [] td.name) ↔ RefOut c ⟨doc⟩ td.name v := by
  cases hk : td.kind with
  | scalar => exact RE_leafKind_exact hF ok rok hm (Or.inl hk) v
  | «enum» => exact RE_leafKind_exact hF ok rok hm (Or.inr hk) v
  | object => exact RE_object_exact hF ok rok hm hk v
  | input => exact absurd hk hki
  | interface =>
    refine RE_members_exact hF ok rok hm (Or.inl hk) ((Schema.mk doc).objectImplementers td.name) ?_ ?_
      (objectImplementers_objects doc td.name) v
    · simp [resolverOutputType, hk]
    · simp [Schema.possibleTypes, typeDef?_of_mem ok hm, hk]
  | union =>
    refine RE_members_exact hF ok rok hm (Or.inr hk) (td.members.map (·.1)) ?_ ?_ ?_ v
    · simp [resolverOutputType, hk, List.map_map, Function.comp_def]
    · simp [Schema.possibleTypes, typeDef?_of_mem ok hm, hk]
    · intro n hn
      obtain ⟨m, hmm, rfl⟩ := List.mem_map.1 hn
      exact ok.members td hm hk m hmm

include hF ok rok in
/-- RESOLVER RESULT, closed form (lemma): the `Result` type of a field whose named type is a defined non-input type -/
theorem RE_result_exact (ty : GType) {td : TypeDef} (hm : td ∈ typeDefsOf doc) (hki : td.kind ≠ .input)
    (hn : td.name = ty.unwrapped) (v : J) :
    Mem (RE c doc F) v (globalise (RE c doc F).decls [] [] (tsOf .ref false ty))
      ↔ ∃ k, conf (refResolverOut c ⟨doc⟩ k) ty v = true := by
  rw [globalise_tsOf, mem_tsOf_iff, exists_conf_refResolverOut_iff]
  apply conf_congr
  intro y _
  rw [← hn, (RE_leaf (F := F) ok rok hm hki).1]
  exact RE_alias_exact hF ok rok hm hki y

include hF ok in
/-- RESOLVER ARGUMENTS, closed form (lemma), for any environment over the linked table that reads scalar texts globally -/
theorem args_exact {E : Env} (hE : E.decls = Decls.ofFiles (resolversFile c doc) [(schemaSource, F)])
    (hsc : ScalarsGlobal c doc E) (args : List InputValueDef)
    (hargs : ∀ a ∈ args, ∃ td ∈ typeDefsOf doc, td.name = a.ty.unwrapped ∧ kindFits td.kind .resolverInput = true)
    (v : J) :
    Mem E v (globalise E.decls [] [] (argsType args)) ↔ ∃ n, refArgs c ⟨doc⟩ n args v = true := by
  have H : Hosted E.decls [schemaNs] F := by
    rw [hE]; exact hosted_ofFiles _ _ _ F (resolversFile_flat c doc) (resolversFile_imports c doc)
  have hleaf : ∀ td ∈ typeDefsOf doc, kindFits td.kind .resolverInput = true → ∀ y,
      (Mem E y (globalise E.decls [] [] (.qref [schemaNs, Target.resolverInput.name, td.name]))
        ↔ Ref c ⟨doc⟩ .resolverInput td.name y) := by
    intro td hm hfit y
    obtain ⟨ty, hb⟩ := fits_body hF .resolverInput hm hfit
    have hq := hosted_qualified_outer hF ok H .resolverInput (sc := []) (A := schemaNs)
      (by rw [hE]; exact ofFiles_resolveNs _ _ _ F (resolversFile_imports c doc)) hm hb
    have hg : globalise E.decls [] [] (.qref [schemaNs, Target.resolverInput.name, td.name])
        = absRef c doc [schemaNs] .resolverInput td.name := by
      simp only [globalise, List.contains_nil, Bool.false_eq_true, if_false, hq]
      rfl
    rw [hg]
    exact hosted_alias_exact' hF ok H hsc .resolverInput hm hfit y
  rw [refArgs_iff, argsType, globalise, globaliseFields_map _ _ args (fun a => a.name) (fun _ => true) (fun _ => false)]
  simp only [globalise_tsOf]
  rw [mem_argsBody_iff _
    (fun n x => Mem E x (globalise E.decls [] [] (.qref [schemaNs, Target.resolverInput.name, n]))) (fun _ _ => Iff.rfl)]
  have key : ∀ kvs, RecordSpec (args.map fun a => (a.name, false,
        Conf (fun n x => Mem E x (globalise E.decls [] [] (.qref [schemaNs, Target.resolverInput.name, n]))) a.ty)) kvs ↔
      RecordSpec (args.map fun a => (a.name, false, Conf (Ref c ⟨doc⟩ .resolverInput) a.ty)) kvs := by
    intro kvs
    apply recordSpec_congr
    intro a ha x
    apply conf_congr
    intro y _
    obtain ⟨td, hm, hn, hfit⟩ := hargs a ha
    rw [← hn]
    exact hleaf td hm hfit y
  constructor
  · rintro ⟨kvs, rfl, hr⟩; exact ⟨kvs, rfl, (key kvs).1 hr⟩
  · rintro ⟨kvs, rfl, hr⟩; exact ⟨kvs, rfl, (key kvs).2 hr⟩

end result

end NitroVerif.ResolverDecls
