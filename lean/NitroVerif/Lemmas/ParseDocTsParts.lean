/-
Type-system definitions, the parts in brackets (helper lemmas for Props/C07Doc): `ArgumentsDefinition`,
`InputFieldsDefinition`, `FieldDefinition` / `FieldsDefinition`, `EnumValueDefinition` / `EnumValuesDefinition`.
-/
import NitroVerif.Lemmas.ParseDocTsBase
namespace NitroVerif.DocParse
open NitroVerif.Peg NitroVerif.Gen NitroVerif.Gen.Parts NitroVerif.Build NitroVerif.TypeParse NitroVerif.StringParse
open NitroVerif.Gql NitroVerif.ValueParse NitroVerif.Spec.Lex

set_option linter.unusedSimpArgs false

variable {inp : List Char}

/-- the head of the remaining input is exactly `c` (or the input is at its end) -/
theorem headNot_of_head_eq {c : Char} {rest : List Char} (h : HeadNot (· ≠ c) rest) {P : Char → Prop} (hP : ¬ P c) :
    HeadNot P rest := by
  intro d r he hd
  have : d = c := Classical.byContradiction fun hne => h d r he hne
  exact hP (this ▸ hd)

/-! ### lists of input value definitions -/

def IvdGood (τ : Trivia) (inp : List Char) : Bool → Nat → InputValueDef → Pair → Prop := fun s q v pr =>
  PairOk R.InputValueDefinition q pr ∧
    ∀ fuel, (rIVD τ s q v).length ≤ fuel → buildInputValueDefinition (Ctx.spec inp) fuel pr = .ok (wpIVD τ inp s q v)

def wpIVDs (τ : Trivia) (inp : List Char) (p : Nat) (vs : List InputValueDef) : List InputValueDef :=
  mapItems (rIVD τ) true false (wpIVD τ inp) p vs

theorem ivd_fails {q : Nat} (h : HeadNot (fun d => nameStart d ∨ d = '"') (inp.drop q)) (ht : Tok (At inp q)) :
    Fails gList 40 true (.call R.InputValueDefinition) .nonAtomic (At inp q) :=
  (fails_rule look_InputValueDefinition (by decide) (by decide)
    (fails_seq_K (runsK_opt_none (description_fails (headNot_mono (fun _ h => Or.inr h) h)) ht)
      (fails_seq_1 (name_fails_at (headNot_mono (fun _ h => Or.inl h) h))))).mono (by simp)

theorem ivd_head_ok (τ : Trivia) (s : Bool) (q : Nat) (v : InputValueDef) (hwf : WFIVD v) :
    Hd (fun d => ¬ trivia d ∧ ¬ ivdBad true d ∧ (true = false → ¬ nameCont d)) (rIVD τ s q v) := by
  refine (hd_rIVD τ s q v hwf).mono ?_
  rintro c (hc | rfl)
  · have := nameStart_not_punct hc
    refine ⟨nameStart_not_trivia hc, ?_, fun h => by cases h⟩
    rintro (rfl | rfl | rfl | rfl | ⟨h, _⟩) <;> simp_all
  · refine ⟨by decide, ?_, fun h => by cases h⟩
    rintro (h | h | h | h | ⟨h, _⟩) <;> first | exact absurd h (by decide) | cases h

/-- a bracketed, non-empty list of input value definitions (`(…)` or `{…}`) -/
theorem ivdsT (τ : Trivia) (hτ : ∀ q, Ws (τ q)) (rule : RuleId) (o c : Char)
    (hl : gList.look rule = some (.normal, .seq (.str [o]) (.seq (.plus (.call R.InputValueDefinition)) (.str [c]))))
    (h1 : rule ≠ R.WHITESPACE) (h2 : rule ≠ R.COMMENT) (h3 : rule ≠ R.EscapedUnicode4) (h4 : rule ≠ R.EscapedUnicodeBrace)
    (hc : ¬ trivia c ∧ ¬ ivdBad false c ∧ ¬ nameCont c ∧ ¬ nameStart c ∧ c ≠ '"')
    (a : InputValueDef) (r : List InputValueDef) (hwf : ∀ v ∈ a :: r, WFIVD v) {sep : Bool} {p : Nat}
    (h : HasAt inp p (rBraced (rIVD τ) true τ o c sep p (a :: r)))
    (ht : Tok (At inp (p + (rBraced (rIVD τ) true τ o c sep p (a :: r)).length))) :
    ∃ pr, RunsK (B (rBraced (rIVD τ) true τ o c sep p (a :: r)).length + 45) (.call rule) (At inp p)
        (At inp (p + (rBraced (rIVD τ) true τ o c sep p (a :: r)).length)) [pr] ∧ PairOk rule p pr ∧
      ∃ e pss, pr = .mk rule p e pss ∧ allChildrenGo R.InputValueDefinition pss = .ok () ∧
        ∀ fuel, (rBraced (rIVD τ) true τ o c sep p (a :: r)).length ≤ fuel →
          pss.mapM (buildInputValueDefinition (Ctx.spec inp) fuel) =
            .ok (wpIVDs τ inp (p + (tk τ false p [o]).length) (a :: r)) := by
  obtain ⟨e, pss, hrun, hgood⟩ := bracedT (rIVD τ) true τ hτ rule R.InputValueDefinition o c hl h1 h2 ivdBad 30
    (IvdGood τ inp) ⟨hc.1, hc.2.1, hc.2.2.1⟩
    (fun q hq hne => (ivd_fails (headNot_of_head_eq hq (by rintro (h | h); exact hc.2.2.2.1 h; exact hc.2.2.2.2 h))
      (headNot_of_head_eq hq hc.1)).mono (by omega))
    r a sep p
    (fun x hx s q hat hnx => by
      obtain ⟨pr, hr, hok, hb⟩ := ivdT τ hτ x (hwf x hx) hat hnx
      exact ⟨pr, hr, hok, hb⟩)
    (fun x hx s q => ivd_head_ok τ s q x (hwf x hx)) h ht
  have hclean : CleanL pss := goodItems_clean (rIVD τ) true false (IvdGood τ inp) (a :: r)
    (fun x _ s q pr hg => hg.1.clean) _ pss hgood
  refine ⟨_, hrun, pairOk_mk h3 h4 hclean, e, pss, rfl, ?_, ?_⟩
  · exact goodItems_all (rIVD τ) true false (IvdGood τ inp) R.InputValueDefinition (a :: r)
      (fun x _ s q pr hg => hg.1.rule) _ pss hgood
  · intro fuel hf
    refine goodItems_mapM (rIVD τ) true false (IvdGood τ inp) (buildInputValueDefinition (Ctx.spec inp) fuel)
      (wpIVD τ inp) fuel (a :: r) (fun x _ s q pr hg hl => hg.2 fuel hl) _ pss ?_ hgood
    simp only [rBraced, List.length_append] at hf
    omega

/-- `( … ) gap` — the arguments of a field definition or directive definition; nothing for an empty list -/
def rOptArgsDef (τ : Trivia) (sep : Bool) (p : Nat) : List InputValueDef → List Char
  | [] => []
  | v :: vs => rBraced (rIVD τ) true τ '(' ')' sep p (v :: vs)

theorem hd_rOptArgsDef (τ : Trivia) (sep : Bool) (p : Nat) (vs : List InputValueDef) :
    rOptArgsDef τ sep p vs = [] ∨ Hd (· = '(') (rOptArgsDef τ sep p vs) := by
  cases vs with
  | nil => exact Or.inl rfl
  | cons v vs => exact Or.inr (hd_rBraced _ _ τ '(' ')' sep p _)

/-- the argument definitions as the builders of field / directive definitions treat them -/
def optArgsDefB (ctx : Ctx) (fuel : Nat) : Option Pair → M (List InputValueDef)
  | some a => buildArgumentsDefinition ctx fuel a
  | none => .ok []

theorem argsDef_fails {p : Nat} (h : HeadNot (· = '(') (inp.drop p)) :
    Fails gList 4 true (.call R.ArgumentsDefinition) .nonAtomic (At inp p) :=
  fails_rule look_ArgumentsDefinition (by decide) (by decide) (fails_seq_1 (str_fails h))

theorem optArgsDefT (τ : Trivia) (hτ : ∀ q, Ws (τ q)) (vs : List InputValueDef) (hwf : ∀ v ∈ vs, WFIVD v) {sep : Bool}
    {p : Nat} (h : HasAt inp p (rOptArgsDef τ sep p vs)) (ht : Tok (At inp (p + (rOptArgsDef τ sep p vs).length)))
    (hq : HeadNot (· = '(') (inp.drop (p + (rOptArgsDef τ sep p vs).length))) :
    ∃ o : Option Pair, RunsK (B (rOptArgsDef τ sep p vs).length + 46) (.opt (.call R.ArgumentsDefinition)) (At inp p)
        (At inp (p + (rOptArgsDef τ sep p vs).length)) o.toList ∧ (∀ x ∈ o, PairOk R.ArgumentsDefinition p x) ∧
      ∀ fuel, (rOptArgsDef τ sep p vs).length ≤ fuel →
        optArgsDefB (Ctx.spec inp) fuel o = .ok (wpIVDs τ inp (p + (tk τ false p ['(']).length) vs) := by
  cases vs with
  | nil =>
    simp only [rOptArgsDef, List.length_nil, Nat.add_zero] at ht hq ⊢
    exact ⟨none, (runsK_opt_none (argsDef_fails hq) ht).mono (by barith), by simp, fun _ _ => rfl⟩
  | cons a r =>
    simp only [rOptArgsDef] at h ht ⊢
    obtain ⟨pr, hrun, hok, e, pss, rfl, hall, hb⟩ := ivdsT τ hτ R.ArgumentsDefinition '(' ')' look_ArgumentsDefinition
      (by decide) (by decide) (by decide) (by decide)
      ⟨by decide, by rintro (h | h | h | h | ⟨_, h | h⟩) <;> exact absurd h (by decide), by decide, by decide, by decide⟩
      a r hwf h ht
    refine ⟨some _, (runsK_opt_some hrun).mono (by omega), by intro x hx; cases hx; exact hok, fun fuel hf => ?_⟩
    simp [optArgsDefB, buildArgumentsDefinition, allChildren, Pair.children, AC_ArgumentsDefinition, hall, hb fuel hf,
      bind, Except.bind]

/-- `{ … } gap` — the fields of an input object; nothing for an empty list -/
def rOptInputs (τ : Trivia) (sep : Bool) (p : Nat) : List InputValueDef → List Char
  | [] => []
  | v :: vs => rBraced (rIVD τ) true τ '{' '}' sep p (v :: vs)

theorem hd_rOptInputs (τ : Trivia) (sep : Bool) (p : Nat) (vs : List InputValueDef) :
    rOptInputs τ sep p vs = [] ∨ Hd (· = '{') (rOptInputs τ sep p vs) := by
  cases vs with
  | nil => exact Or.inl rfl
  | cons v vs => exact Or.inr (hd_rBraced _ _ τ '{' '}' sep p _)

theorem inputFields_fails {p : Nat} (h : HeadNot (· = '{') (inp.drop p)) :
    Fails gList 4 true (.call R.InputFieldsDefinition) .nonAtomic (At inp p) :=
  fails_rule look_InputFieldsDefinition (by decide) (by decide) (fails_seq_1 (str_fails h))

/-- the `InputFieldsDefinition` rule on a non-empty list -/
theorem inputFieldsT (τ : Trivia) (hτ : ∀ q, Ws (τ q)) (a : InputValueDef) (r : List InputValueDef)
    (hwf : ∀ v ∈ a :: r, WFIVD v) {sep : Bool} {p : Nat} (h : HasAt inp p (rOptInputs τ sep p (a :: r)))
    (ht : Tok (At inp (p + (rOptInputs τ sep p (a :: r)).length))) :
    ∃ pr, RunsK (B (rOptInputs τ sep p (a :: r)).length + 45) (.call R.InputFieldsDefinition) (At inp p)
        (At inp (p + (rOptInputs τ sep p (a :: r)).length)) [pr] ∧ PairOk R.InputFieldsDefinition p pr ∧
      ∀ fuel, (rOptInputs τ sep p (a :: r)).length ≤ fuel →
        optInputFields (Ctx.spec inp) fuel (some pr) = .ok (wpIVDs τ inp (p + (tk τ false p ['{']).length) (a :: r)) := by
  simp only [rOptInputs] at h ht ⊢
  obtain ⟨pr, hrun, hok, e, pss, rfl, hall, hb⟩ := ivdsT τ hτ R.InputFieldsDefinition '{' '}' look_InputFieldsDefinition
    (by decide) (by decide) (by decide) (by decide)
    ⟨by decide, by rintro (h | h | h | h | ⟨_, h | h⟩) <;> exact absurd h (by decide), by decide, by decide, by decide⟩
    a r hwf h ht
  refine ⟨_, hrun, hok, fun fuel hf => ?_⟩
  simp [optInputFields, buildInputFieldsDefinition, allChildren, Pair.children, AC_InputFieldsDefinition, hall,
    hb fuel hf, bind, Except.bind]

end NitroVerif.DocParse
