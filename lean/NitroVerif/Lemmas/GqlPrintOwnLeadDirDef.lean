import NitroVerif.Lemmas.GqlPrintOwnLeadExts
import NitroVerif.Lemmas.ParseDocTsDirDef
/-!
C16 over nitrogql's own parser, second stage: directive definitions whose location list is written with the leading `|`
(`on | FIELD | …`). Copy of C07's `rDirectiveDef` / `directiveDefT` (`Lemmas/ParseDocTsDirDef.lean`).
-/
namespace NitroVerif.DocParseL
open NitroVerif.Peg NitroVerif.Gen NitroVerif.Gen.Parts NitroVerif.Build NitroVerif.TypeParse NitroVerif.StringParse
open NitroVerif.Gql NitroVerif.ValueParse NitroVerif.Spec.Lex NitroVerif.ParseText NitroVerif.DocParse

set_option linter.unusedSimpArgs false
set_option linter.unusedVariables false

variable {inp : List Char}

def rDirectiveDef (τ : Trivia) (sep : Bool) (p : Nat) (d : DirectiveDef) : List Char :=
  let tS := rOptDesc τ p d.desc
  let tK := tk τ false (p + tS.length) kwDirective
  let tA := tk τ false (p + tS.length + tK.length) ['@']
  let tN := tk τ d.args.isEmpty (p + tS.length + tK.length + tA.length) d.name.toList
  let tG := rOptArgsDef τ false (p + tS.length + tK.length + tA.length + tN.length) d.args
  let tR := rOptRep τ (p + tS.length + tK.length + tA.length + tN.length + tG.length) d.repeatable
  let tO := tk τ true (p + tS.length + tK.length + tA.length + tN.length + tG.length + tR.length) kwOn
  tS ++ (tK ++ (tA ++ (tN ++ (tG ++ (tR ++ (tO ++
    rNamesL τ '|' sep (p + tS.length + tK.length + tA.length + tN.length + tG.length + tR.length + tO.length)
      (locNames d)))))))

def wpDirectiveDef (τ : Trivia) (inp : List Char) (_sep : Bool) (p : Nat) (d : DirectiveDef) : DirectiveDef :=
  let tS := rOptDesc τ p d.desc
  let tK := tk τ false (p + tS.length) kwDirective
  let tA := tk τ false (p + tS.length + tK.length) ['@']
  let tN := tk τ d.args.isEmpty (p + tS.length + tK.length + tA.length) d.name.toList
  { desc := d.desc, name := d.name, namePos := posAt inp (p + tS.length + tK.length + tA.length),
    args := wpIVDs τ inp (p + tS.length + tK.length + tA.length + tN.length +
      (tk τ false (p + tS.length + tK.length + tA.length + tN.length) ['(']).length) d.args,
    repeatable := d.repeatable, locations := d.locations, pos := posAt inp (p + tS.length) }


theorem hd_rDirectiveDef (τ : Trivia) (sep : Bool) (p : Nat) (d : DirectiveDef) :
    Hd (fun c => nameStart c ∨ c = '"') (rDirectiveDef τ sep p d) := by
  simp only [rDirectiveDef]
  cases d.desc with
  | none =>
    simp only [rOptDesc, List.nil_append, List.length_nil, Nat.add_zero]
    exact Hd.append (hd_tk (P := fun d => nameStart d ∨ d = '"')
      ((hd_of_validName kw_words_valid.2.2).mono (fun _ h => Or.inl h))) _
  | some s =>
    simp only [rOptDesc]
    exact Hd.append (hd_tk (P := fun d => nameStart d ∨ d = '"') ⟨'"', _, rfl, Or.inr rfl⟩) _


theorem directiveDefT (τ : Trivia) (hτ : ∀ q, Ws (τ q)) (d : DirectiveDef) (hwf : WFDirectiveDef d) {sep : Bool} {p : Nat}
    (h : HasAt inp p (rDirectiveDef τ sep p d)) (hn : Nxt inp tdBad sep (p + (rDirectiveDef τ sep p d).length)) :
    TsItemOk inp p (rDirectiveDef τ sep p d) (.directiveDef (wpDirectiveDef τ inp sep p d)) := by
  obtain ⟨hname, hargs, hlne, hlv⟩ := hwf
  unfold TsItemOk
  obtain ⟨l0, ls, hls⟩ : ∃ l0 ls, locNames d = l0 :: ls := by
    simp only [locNames]
    cases hh : d.locations with
    | nil => exact absurd hh hlne
    | cons a r => exact ⟨_, _, rfl⟩
  have hlv' : ∀ x ∈ l0 :: ls, x.1.toList ∈ locWords := by
    rw [← hls]
    intro x hx
    simp only [locNames, List.mem_map] at hx
    obtain ⟨l, hl, rfl⟩ := hx
    exact hlv l hl
  have hlmap : (l0 :: ls).map (·.1) = d.locations := by
    rw [← hls, locNames, List.map_map]
    exact (List.map_congr_left (fun _ _ => rfl)).trans (List.map_id _)
  simp only [rDirectiveDef, wpDirectiveDef] at h hn ⊢
  rw [hls] at h hn ⊢
  generalize hS : rOptDesc τ p d.desc = tS at *
  generalize hK : tk τ false (p + tS.length) kwDirective = tK at *
  generalize hA : tk τ false (p + tS.length + tK.length) ['@'] = tA at *
  generalize hsN : d.args.isEmpty = sN at *
  generalize hN : tk τ sN (p + tS.length + tK.length + tA.length) d.name.toList = tN at *
  generalize hG : rOptArgsDef τ false (p + tS.length + tK.length + tA.length + tN.length) d.args = tG at *
  generalize hR : rOptRep τ (p + tS.length + tK.length + tA.length + tN.length + tG.length) d.repeatable = tR at *
  generalize hO : tk τ true (p + tS.length + tK.length + tA.length + tN.length + tG.length + tR.length) kwOn = tO at *
  generalize hL : rNamesL τ '|' sep (p + tS.length + tK.length + tA.length + tN.length + tG.length + tR.length + tO.length)
    (l0 :: ls) = tL at *
  have hlen : p + (tS ++ (tK ++ (tA ++ (tN ++ (tG ++ (tR ++ (tO ++ tL))))))).length =
      p + tS.length + tK.length + tA.length + tN.length + tG.length + tR.length + tO.length + tL.length := by
    simp only [List.length_append]; omega
  rw [hlen] at hn ⊢
  have g0 : HasAt inp p tS := h.left
  have g1 : HasAt inp (p + tS.length) tK := h.right.left
  have g2 : HasAt inp (p + tS.length + tK.length) tA := h.right.right.left
  have g3 : HasAt inp (p + tS.length + tK.length + tA.length) tN := h.right.right.right.left
  have g4 : HasAt inp (p + tS.length + tK.length + tA.length + tN.length) tG := h.right.right.right.right.left
  have g5 : HasAt inp (p + tS.length + tK.length + tA.length + tN.length + tG.length) tR :=
    h.right.right.right.right.right.left
  have g6 : HasAt inp (p + tS.length + tK.length + tA.length + tN.length + tG.length + tR.length) tO :=
    h.right.right.right.right.right.right.left
  have g7 : HasAt inp (p + tS.length + tK.length + tA.length + tN.length + tG.length + tR.length + tO.length) tL :=
    h.right.right.right.right.right.right.right
  have g5' : HasAt inp (p + tS.length + tK.length + tA.length + tN.length + tG.length) (tR ++ (tO ++ tL)) :=
    h.right.right.right.right.right
  have hdK : Hd nameStart tK := hK ▸ hd_tk (hd_of_validName kw_words_valid.2.2)
  have hdA : Hd (· = '@') tA := hA ▸ hd_tk (hd_cons _ rfl)
  have hdN : Hd nameStart tN := hN ▸ hd_tk (hd_of_validName hname)
  have hdO : Hd (· = 'o') tO := hO ▸ hd_tk (hd_cons _ rfl)
  have hdL : Hd (· = '|') tL := by
    rw [← hL]; simp only [rNamesL]
    exact Hd.append (hd_tk (P := (· = '|')) (hd_cons [] rfl)) _
  have hdRO : Hd nameStart (tR ++ (tO ++ tL)) := by
    rw [← hR]
    cases d.repeatable with
    | true => exact Hd.append (hd_tk (hd_of_validName (validName_of_lower _ (by simp) (by decide)))) _
    | false => simpa [rOptRep] using (hdO.mono (by rintro c rfl; decide)).append tL
  -- what follows the name
  have n4 : Nxt inp (fun _ => False) sN (p + tS.length + tK.length + tA.length + tN.length) := by
    cases hargs0 : d.args with
    | nil =>
      have hG0 : tG = [] := by rw [← hG, hargs0]; rfl
      have hs : sN = true := by rw [← hsN, hargs0]; rfl
      subst hG0
      rw [hs]
      have g5'' : HasAt inp (p + tS.length + tK.length + tA.length + tN.length) (tR ++ (tO ++ tL)) := by simpa using g5'
      exact Nxt.of_hd_sep g5'' hdRO (fun c hc => ⟨nameStart_not_trivia hc, id⟩)
    | cons a r =>
      have hdG : Hd (· = '(') tG := by rw [← hG, hargs0]; exact hd_rBraced _ _ τ '(' ')' false _ _
      exact Nxt.of_hd g4 hdG (by rintro c rfl; decide)
  obtain ⟨oS, rS, hokS, hbS⟩ := optDescT hτ d.desc (hS ▸ g0)
    (by rw [hS]; exact tok_of_hd g1 hdK (fun d => nameStart_not_trivia))
    (by rw [hS]; exact headNot_of_hd g1 hdK (fun d hd => (nameStart_not_punct hd).2.2.2.2.2.2.2.2.2.2.2.2.2.2.1))
  rw [hS] at rS
  have nK : Nxt inp (fun _ => False) false (p + tS.length + tK.length) :=
    Nxt.of_hd g2 hdA (by rintro c rfl; decide)
  have rK := kwT hτ look_KEYWORD_directive (hK ▸ g1) (bad := fun _ => False) (by rw [hK]; exact nK)
  rw [hK] at rK
  have rA := strT hτ ['@'] (hA ▸ g2) (by rw [hA]; exact tok_of_hd g3 hdN (fun d => nameStart_not_trivia))
  rw [hA] at rA
  have rN := nameT hτ hname (hN ▸ g3) (by rw [hN]; exact n4)
  rw [hN] at rN
  obtain ⟨oG, rG, hokG, hbG⟩ := optArgsDefT τ hτ d.args hargs (hG ▸ g4)
    (by rw [hG]; exact tok_of_hd g5' hdRO (fun d => nameStart_not_trivia))
    (by rw [hG]; exact headNot_of_hd g5' hdRO (fun d hd => (nameStart_not_punct hd).1))
  rw [hG] at rG hbG
  obtain ⟨oR, rR, hoR, hokR⟩ := repT hτ d.repeatable (hR ▸ g5) (by rw [hR]; exact g6) hdO
  rw [hR] at rR
  have rO := kwT hτ look_KEYWORD_on (hO ▸ g6) (bad := fun _ => False)
    (by rw [hO]; exact Nxt.of_hd_sep g7 hdL (by rintro c rfl; exact ⟨by decide, id⟩))
  rw [hO] at rO
  obtain ⟨prL, rL, hokL, hbL⟩ := locsT τ hτ l0 ls hlv' (bad := tdBad)
    (Or.inr (Or.inr (Or.inr (Or.inr (Or.inl rfl))))) (hL ▸ g7) (by rw [hL]; exact hn)
  rw [hL] at rL
  obtain ⟨e, rDD⟩ := runsK_rule look_DirectiveDefinition' (by decide) (by decide)
    (runsK_seq rS (runsK_seq rK.toK (runsK_seq rA (runsK_seq rN.toK (runsK_seq rG (runsK_seq rR
      (runsK_seq rO.toK rL)))))))
  -- the earlier alternatives of `TypeSystemDefinition` fail: the keyword is neither `schema` nor one of the six
  have h' : HasAt inp p (rOptDesc τ p d.desc ++ tk τ false (p + (rOptDesc τ p d.desc).length) kwDirective) := by
    rw [hS, hK]; exact hasAt_append.mpr ⟨g0, g1⟩
  have hn' : Nxt inp (fun _ => False) false
      (p + (rOptDesc τ p d.desc).length + (tk τ false (p + (rOptDesc τ p d.desc).length) kwDirective).length) := by
    rw [hS, hK]; exact nK
  have fs := schemaDef_fails_kw hτ d.desc kwDirective kw_words_valid.2.2 (by decide) h' hn'
  have ft := typeDefinition_fails_kw hτ d.desc kwDirective kw_words_valid.2.2 (by intro k; cases k <;> decide) h' hn'
  rw [hS] at fs ft
  obtain ⟨e2, rTSD⟩ := runsK_rule look_TypeSystemDefinition (by decide) (by decide)
    (runsK_choice_r fs (runsK_choice_r ft rDD))
  obtain ⟨e3, rI⟩ := runsK_rule look_TSDOE (by decide) (by decide)
    (runsK_choice_l (b := .call R.TypeSystemExtension) rTSD)
  have hlK : 1 ≤ tK.length := hdK.length_pos
  have hlA : 1 ≤ tA.length := hdA.length_pos
  have hlN : 1 ≤ tN.length := hdN.length_pos
  have hlO : 1 ≤ tO.length := hdO.length_pos
  refine ⟨_, rI.mono (by barith), ?_, ?_⟩
  · refine pairOk_mk (by decide) (by decide) ⟨cleanP_of (by decide) (by decide) ⟨cleanP_of (by decide) (by decide) ?_,
      trivial⟩, trivial⟩
    simp only [cleanL_append, cleanL_cons, cleanL_nil, and_true]
    exact ⟨clean_opt (fun x hx => (hokS x hx).2), cleanP_of (by decide) (by decide) trivial, trivial,
      cleanP_of (by decide) (by decide) trivial, clean_opt (fun x hx => (hokG x hx).clean),
      clean_opt (fun x hx => (hokR x hx).2), cleanP_of (by decide) (by decide) trivial, hokL.clean⟩
  · intro fuel hf
    have hf' : tS.length + (tK.length + (tA.length + (tN.length + (tG.length + (tR.length + (tO.length + tL.length))))))
        ≤ fuel := by simpa using hf
    have hch : oS.toList ++ ([Pair.mk R.KEYWORD_directive (p + tS.length) (p + tS.length + kwDirective.length) []] ++
          ([] ++ ([Pair.mk R.Name (p + tS.length + tK.length + tA.length)
            (p + tS.length + tK.length + tA.length + d.name.toList.length) []] ++ (oG.toList ++ (oR.toList ++
              ([Pair.mk R.KEYWORD_on (p + tS.length + tK.length + tA.length + tN.length + tG.length + tR.length)
                (p + tS.length + tK.length + tA.length + tN.length + tG.length + tR.length + kwOn.length) []] ++
                [prL])))))) =
        slotPairs [oS, some (Pair.mk R.KEYWORD_directive (p + tS.length) (p + tS.length + kwDirective.length) []),
          some (Pair.mk R.Name (p + tS.length + tK.length + tA.length)
            (p + tS.length + tK.length + tA.length + d.name.toList.length) []), oG, oR,
          some (Pair.mk R.KEYWORD_on (p + tS.length + tK.length + tA.length + tN.length + tG.length + tR.length)
            (p + tS.length + tK.length + tA.length + tN.length + tG.length + tR.length + kwOn.length) []),
          some prL] := by simp [slotPairs]
    have hm := matchParts_slots P_DirectiveDefinition _ p_directiveDef_nodup
      (show slotsOk P_DirectiveDefinition [oS, some (Pair.mk R.KEYWORD_directive (p + tS.length)
            (p + tS.length + kwDirective.length) []),
          some (Pair.mk R.Name (p + tS.length + tK.length + tA.length)
            (p + tS.length + tK.length + tA.length + d.name.toList.length) []), oG, oR,
          some (Pair.mk R.KEYWORD_on (p + tS.length + tK.length + tA.length + tN.length + tG.length + tR.length)
            (p + tS.length + tK.length + tA.length + tN.length + tG.length + tR.length + kwOn.length) []),
          some prL] from
        ⟨fun x hx => (hokS x hx).1, ⟨_, rfl, rfl⟩, ⟨_, rfl, rfl⟩, fun x hx => (hokG x hx).rule,
          fun x hx => (hokR x hx).1, ⟨_, rfl, rfl⟩, ⟨_, rfl, hokL.rule⟩, trivial⟩)
    refine buildItem_directiveDef _ _ _ _ _ _ _ _ ?_
    rw [hch]
    simp only [show kwDirective.length = 9 from rfl, show kwOn.length = 2 from rfl] at hm
    have hname' := (hN ▸ g3 : HasAt inp _ (tk τ sN _ d.name.toList)).left.slice
    have hbG' := hbG fuel (by omega)
    have hbL' : allChildren AC_DirectiveLocations prL = .ok prL.children ∧
        prL.children.map (asString (Ctx.spec inp)) = d.locations := by
      rw [hlmap] at hbL
      cases hac : allChildren AC_DirectiveLocations prL with
      | error e => rw [hac] at hbL; cases hbL
      | ok v =>
        have hv : v = prL.children := by
          simp only [allChildren, bind, Except.bind] at hac
          split at hac
          · cases hac
          · simpa using hac.symm
        subst hv
        rw [hac] at hbL
        exact ⟨rfl, by simpa [Except.map] using hbL⟩
    cases oG with
    | none =>
      have ha0 : wpIVDs τ inp (p + tS.length + tK.length + tA.length + tN.length +
          (tk τ false (p + tS.length + tK.length + tA.length + tN.length) ['(']).length) d.args = [] := by
        simpa [optArgsDefB] using hbG'.symm
      simp [buildDirectiveDefinition, Pair.children, hm, hbS, ha0, hbL'.1, hbL'.2, hoR, asString_spec', toPos_spec',
        Pair.start, Pair.stop, hname', At, bind, Except.bind, pure, Except.pure]
      exact hbL'.2
    | some a =>
      simp only [optArgsDefB] at hbG'
      simp [buildDirectiveDefinition, Pair.children, hm, hbS, hbG', hbL'.1, hbL'.2, hoR, asString_spec', toPos_spec',
        Pair.start, Pair.stop, hname', At, bind, Except.bind, pure, Except.pure]
      exact hbL'.2


end NitroVerif.DocParseL
