/-
Framework for the round trip of whole documents (helper lemmas for Props/C07Doc): everything is stated about ONE fixed
input `inp`, by offsets.

* `At inp p` — the cursor at offset `p`; `HasAt inp p t` — the input continues at `p` with the text `t`;
  `Hd P t` — `t` begins with a character satisfying `P`.
* `RunsK n e c c' ps` — the expression `e` (in a rule body generated WITH skip calls, non-atomic context, outside
  lookahead) succeeds from `c` with pairs `ps`, and from the cursor where it ends the implicit skip reaches `c'`.
  This is the invariant that composes through pest's sequences: `a ~ b` runs `a`, skips, runs `b`; an optional trailing
  item that fails leaves the cursor after the skip, so the END of a pair is not a function of the construct alone,
  but "where the skip arrives" is.
* `ManyK a n c c' pss` — the items of `a*` / `a+` (each followed by its gap), then `a` fails at `c'`.
* leaves: string terminals, `Name`, keyword rules, `Value`, `Arguments`, `StringValue` in this form.
* `Clean` — no pair of a tree is a `\u` escape (so `validate_unicode_escapes` passes).
* generic lists: `renderItems` (items separated by gaps), `mapItems`, `items_manyK`.
-/
import NitroVerif.Lemmas.ParseDirectives
namespace NitroVerif.DocParse
open NitroVerif.Peg NitroVerif.Gen NitroVerif.Gen.Parts NitroVerif.Build NitroVerif.TypeParse NitroVerif.StringParse
open NitroVerif.Gql NitroVerif.ValueParse

/-- arithmetic on depth bounds -/
macro "barith" : tactic =>
  `(tactic| first | omega | (simp only [B, Nat.add_le_add_iff_right, Nat.max_le, List.length_append, List.length_cons,
      List.length_nil] at *; omega) | (simp [B] at *; omega) | (simp [B] at *; done))

/-! ### texts at offsets of a fixed input -/

/-- the cursor of the parser at offset `p` of `inp` -/
def At (inp : List Char) (p : Nat) : Cur := ⟨p, inp.drop p⟩

/-- the input continues at offset `p` with the text `t` -/
def HasAt (inp : List Char) (p : Nat) (t : List Char) : Prop := ∃ Y, inp.drop p = t ++ Y

theorem HasAt.drop {inp : List Char} {p : Nat} {t : List Char} (h : HasAt inp p t) :
    inp.drop p = t ++ inp.drop (p + t.length) := by
  obtain ⟨Y, hY⟩ := h
  have : inp.drop (p + t.length) = Y := by rw [← List.drop_drop, hY]; simp
  rw [this, hY]

theorem hasAt_nil (inp : List Char) (p : Nat) : HasAt inp p [] := ⟨_, rfl⟩

theorem hasAt_append {inp : List Char} {p : Nat} {a b : List Char} :
    HasAt inp p (a ++ b) ↔ HasAt inp p a ∧ HasAt inp (p + a.length) b := by
  constructor
  · rintro ⟨Y, h⟩
    refine ⟨⟨b ++ Y, by simpa using h⟩, ⟨Y, ?_⟩⟩
    rw [← List.drop_drop, h]; simp
  · rintro ⟨h1, Y, h2⟩
    exact ⟨Y, by rw [h1.drop, h2]; simp⟩

theorem hasAt_cons {inp : List Char} {p : Nat} {c : Char} {t : List Char} :
    HasAt inp p (c :: t) ↔ HasAt inp p [c] ∧ HasAt inp (p + 1) t :=
  hasAt_append (a := [c]) (b := t)

theorem HasAt.slice {inp : List Char} {p : Nat} {t : List Char} (h : HasAt inp p t) :
    slice inp p (p + t.length) = t := slice_of_drop h.drop

theorem HasAt.left {inp : List Char} {p : Nat} {a b : List Char} (h : HasAt inp p (a ++ b)) : HasAt inp p a :=
  (hasAt_append.mp h).1
theorem HasAt.right {inp : List Char} {p : Nat} {a b : List Char} (h : HasAt inp p (a ++ b)) :
    HasAt inp (p + a.length) b := (hasAt_append.mp h).2

theorem HasAt.cast {inp : List Char} {p q : Nat} {t u : List Char} (h : HasAt inp p t) (hp : p = q) (ht : t = u) :
    HasAt inp q u := hp ▸ ht ▸ h

/-- `t` begins with a character satisfying `P` -/
def Hd (P : Char → Prop) (t : List Char) : Prop := ∃ d r, t = d :: r ∧ P d

theorem hd_cons {P : Char → Prop} {d : Char} (r : List Char) (h : P d) : Hd P (d :: r) := ⟨d, r, rfl, h⟩
theorem Hd.append {P : Char → Prop} {t : List Char} (h : Hd P t) (u : List Char) : Hd P (t ++ u) := by
  obtain ⟨d, r, rfl, hp⟩ := h
  exact ⟨d, r ++ u, rfl, hp⟩
theorem Hd.mono {P Q : Char → Prop} {t : List Char} (h : Hd P t) (hpq : ∀ d, P d → Q d) : Hd Q t := by
  obtain ⟨d, r, rfl, hp⟩ := h
  exact ⟨d, r, rfl, hpq d hp⟩
theorem Hd.ne_nil {P : Char → Prop} {t : List Char} (h : Hd P t) : t ≠ [] := by
  obtain ⟨d, r, rfl, _⟩ := h; simp
theorem Hd.length_pos {P : Char → Prop} {t : List Char} (h : Hd P t) : 1 ≤ t.length := by
  obtain ⟨d, r, rfl, _⟩ := h; simp
theorem hd_of_validName {n : List Char} (h : validName n) : Hd nameStart n := by
  cases n with
  | nil => exact absurd h id
  | cons d ds => exact ⟨d, ds, rfl, h.1⟩

theorem headNot_of_hd {inp : List Char} {p : Nat} {t : List Char} {P Q : Char → Prop} (h : HasAt inp p t) (hd : Hd P t)
    (hpq : ∀ d, P d → ¬ Q d) : HeadNot Q (inp.drop p) := by
  obtain ⟨Y, hY⟩ := h
  obtain ⟨d, r, rfl, hp⟩ := hd
  rw [hY]
  exact headNot_cons (hpq d hp) _

theorem nameStart_not_punct {d : Char} (h : nameStart d) :
    d ≠ '(' ∧ d ≠ ')' ∧ d ≠ '@' ∧ d ≠ ':' ∧ d ≠ '{' ∧ d ≠ '}' ∧ d ≠ '.' ∧ d ≠ '$' ∧ d ≠ '=' ∧ d ≠ '!' ∧ d ≠ '[' ∧
      d ≠ ']' ∧ d ≠ '|' ∧ d ≠ '&' ∧ d ≠ '"' ∧ d ≠ '#' ∧ d ≠ '*' := by
  refine ⟨?_, ?_, ?_, ?_, ?_, ?_, ?_, ?_, ?_, ?_, ?_, ?_, ?_, ?_, ?_, ?_, ?_⟩ <;> (rintro rfl; exact absurd h (by decide))

/-- the next token starts at `c`: its first character is not trivia (or the input ends) -/
def Tok (c : Cur) : Prop := HeadNot trivia c.rest

theorem tok_of_hd {inp : List Char} {p : Nat} {t : List Char} {P : Char → Prop} (h : HasAt inp p t) (hd : Hd P t)
    (hp : ∀ d, P d → ¬ trivia d) : Tok (At inp p) := headNot_of_hd h hd hp

/-- a gap `g` (whitespace, commas, comments) lies at offset `q` and the next token starts right after it -/
structure Gap (inp : List Char) (q : Nat) (g : List Char) : Prop where
  has : HasAt inp q g
  ws : Ws g
  tok : Tok (At inp (q + g.length))

theorem Gap.skip {inp : List Char} {q : Nat} {g : List Char} (h : Gap inp q g) :
    SkipTo (g.length + 60) (At inp q) (At inp (q + g.length)) := by
  have := skip_ws g h.ws q (inp.drop (q + g.length)) h.tok
  simp only [At]
  rw [h.has.drop]
  exact this

theorem gap_nil {inp : List Char} {q : Nat} (h : Tok (At inp q)) : Gap inp q [] := ⟨hasAt_nil _ _, Ws.nil, by simpa using h⟩

theorem skipTo_self {c : Cur} (h : Tok c) : SkipTo 20 c c := by
  obtain ⟨p, rest⟩ := c
  exact skipTo_noop h

/-- trivia never begins with a name character -/
theorem ws_head_not_nameCont {g : List Char} (hg : Ws g) : ∀ d r, g = d :: r → ¬ nameCont d := by
  intro d r he hd
  rcases hg.head d r he with hw | rfl
  · rcases hw with rfl | rfl | rfl | rfl | rfl | rfl <;> exact absurd hd (by decide)
  · exact absurd hd (by decide)

theorem ws_head_trivia {g : List Char} (hg : Ws g) : ∀ d r, g = d :: r → trivia d := by
  intro d r he
  rcases hg.head d r he with hw | rfl
  · exact wsChar_trivia hw
  · simp [trivia]

/-- no name character follows at `q`: there is a non-empty gap, or the next token does not begin with one -/
theorem noGlue_of_gap {inp : List Char} {q : Nat} {g : List Char} (h : Gap inp q g)
    (hx : g = [] → HeadNot nameCont (inp.drop q)) : HeadNot nameCont (inp.drop q) := by
  cases hgl : g with
  | nil => exact hx hgl
  | cons d r =>
    rw [h.has.drop, hgl]
    exact headNot_cons (ws_head_not_nameCont h.ws d r hgl) _

/-! ### the calculus of `RunsK` -/

def RunsK (n : Nat) (e : Expr) (c c' : Cur) (ps : List Pair) : Prop :=
  ∃ c1, Runs gList n true e .nonAtomic c c1 ps ∧ SkipTo n c1 c'

theorem RunsK.mono {n m e c c' ps} (h : RunsK n e c c' ps) (hnm : n ≤ m) : RunsK m e c c' ps := by
  obtain ⟨c1, h1, h2⟩ := h
  exact ⟨c1, h1.mono hnm, h2.mono hnm⟩

theorem RunsK.cast {n e c c' ps d d' qs} (h : RunsK n e c c' ps) (h1 : c = d) (h2 : c' = d') (h3 : ps = qs) :
    RunsK n e d d' qs := h1 ▸ h2 ▸ h3 ▸ h

/-- `RunsK` with the cursor where `e` itself ends (before the skip) made explicit: the END of the pair of a rule whose
    body ends with `e` -/
def RunsKE (n : Nat) (e : Expr) (c c1 c' : Cur) (ps : List Pair) : Prop :=
  Runs gList n true e .nonAtomic c c1 ps ∧ SkipTo n c1 c'

theorem RunsKE.toK {n e c c1 c' ps} (h : RunsKE n e c c1 c' ps) : RunsK n e c c' ps := ⟨c1, h⟩

theorem RunsKE.mono {n m e c c1 c' ps} (h : RunsKE n e c c1 c' ps) (hnm : n ≤ m) : RunsKE m e c c1 c' ps :=
  ⟨h.1.mono hnm, h.2.mono hnm⟩

theorem RunsKE.cast {n e c c1 c' ps d d1 d' qs} (h : RunsKE n e c c1 c' ps) (h1 : c = d) (h2 : c1 = d1) (h3 : c' = d')
    (h4 : ps = qs) : RunsKE n e d d1 d' qs := h1 ▸ h2 ▸ h3 ▸ h4 ▸ h

theorem Fails.cast {n sk e at_ c d} (h : Fails gList n sk e at_ c) (h1 : c = d) : Fails gList n sk e at_ d := h1 ▸ h

theorem runsK_seq {n m a b c c' c'' pa pb} (ha : RunsK n a c c' pa) (hb : RunsK m b c' c'' pb) :
    RunsK (max n m + 1) (.seq a b) c c'' (pa ++ pb) := by
  obtain ⟨c1, ha1, hs1⟩ := ha
  obtain ⟨c2, hb1, hs2⟩ := hb
  refine ⟨c2, (runs_seq_skip' ha1 hs1 hb1).mono ?_, hs2.mono ?_⟩
  · simp only [Nat.add_le_add_iff_right, Nat.max_le]; omega
  · omega

theorem runsKE_seq {n m a b c c' c1 c'' pa pb} (ha : RunsK n a c c' pa) (hb : RunsKE m b c' c1 c'' pb) :
    RunsKE (max n m + 1) (.seq a b) c c1 c'' (pa ++ pb) := by
  obtain ⟨c0, ha1, hs1⟩ := ha
  obtain ⟨hb1, hs2⟩ := hb
  refine ⟨(runs_seq_skip' ha1 hs1 hb1).mono ?_, hs2.mono ?_⟩
  · simp only [Nat.add_le_add_iff_right, Nat.max_le]; omega
  · omega

theorem runsKE_choice_l {n a b c c1 c' ps} (ha : RunsKE n a c c1 c' ps) : RunsKE (n + 1) (.choice a b) c c1 c' ps :=
  ⟨runs_choice_l ha.1, ha.2.mono (by omega)⟩

theorem runsKE_choice_r {n m a b c c1 c' ps} (ha : Fails gList n true a .nonAtomic c) (hb : RunsKE m b c c1 c' ps) :
    RunsKE (max n m + 1) (.choice a b) c c1 c' ps :=
  ⟨runs_choice_r' ha hb.1, hb.2.mono (by omega)⟩

/-- a call of a normal rule, with the end of its pair -/
theorem runsKE_rule {n r body c c1 c' ps} (hl : gList.look r = some (.normal, body)) (h1 : r ≠ R.WHITESPACE)
    (h2 : r ≠ R.COMMENT) (hb : RunsKE n body c c1 c' ps) : RunsKE (n + 2) (.call r) c c1 c' [.mk r c.pos c1.pos ps] :=
  ⟨runs_call (runsRule_normal hl (nsp h1 h2) hb.1), hb.2.mono (by omega)⟩

theorem fails_seq_K {n m a b c c' pa} (ha : RunsK n a c c' pa) (hb : Fails gList m true b .nonAtomic c') :
    Fails gList (max n m + 1) true (.seq a b) .nonAtomic c := by
  obtain ⟨c1, ha1, hs1⟩ := ha
  refine (fails_seq_skip_last' ha1 hs1 hb).mono ?_
  simp only [Nat.add_le_add_iff_right, Nat.max_le]; omega

theorem fails_seq_1 {n a b c} (ha : Fails gList n true a .nonAtomic c) : Fails gList (n + 1) true (.seq a b) .nonAtomic c :=
  fails_seq_first ha

theorem runsK_opt_some {n a c c' ps} (ha : RunsK n a c c' ps) : RunsK (n + 1) (.opt a) c c' ps := by
  obtain ⟨c1, h1, h2⟩ := ha
  exact ⟨c1, runsL_opt_some (la := .none) h1, h2.mono (by omega)⟩

theorem runsK_opt_none {n a c} (ha : Fails gList n true a .nonAtomic c) (ht : Tok c) :
    RunsK (max n 20 + 1) (.opt a) c c [] :=
  ⟨c, (runsL_opt_none (la := .none) ha).mono (by omega), (skipTo_self ht).mono (by omega)⟩

theorem runsK_choice_l {n a b c c' ps} (ha : RunsK n a c c' ps) : RunsK (n + 1) (.choice a b) c c' ps := by
  obtain ⟨c1, h1, h2⟩ := ha
  exact ⟨c1, runs_choice_l h1, h2.mono (by omega)⟩

theorem runsK_choice_r {n m a b c c' ps} (ha : Fails gList n true a .nonAtomic c) (hb : RunsK m b c c' ps) :
    RunsK (max n m + 1) (.choice a b) c c' ps := by
  obtain ⟨c1, h1, h2⟩ := hb
  exact ⟨c1, runs_choice_r' ha h1, h2.mono (by omega)⟩

theorem fails_choice_K {n m a b c} (ha : Fails gList n true a .nonAtomic c) (hb : Fails gList m true b .nonAtomic c) :
    Fails gList (max n m + 1) true (.choice a b) .nonAtomic c := fails_choice' ha hb

/-- a call of a normal rule: one pair whose children are the pairs of the body -/
theorem runsK_rule {n r body c c' ps} (hl : gList.look r = some (.normal, body)) (h1 : r ≠ R.WHITESPACE)
    (h2 : r ≠ R.COMMENT) (hb : RunsK n body c c' ps) : ∃ e, RunsK (n + 2) (.call r) c c' [.mk r c.pos e ps] := by
  obtain ⟨c1, hb1, hs⟩ := hb
  exact ⟨c1.pos, c1, runs_call (runsRule_normal hl (nsp h1 h2) hb1), hs.mono (by omega)⟩

theorem fails_rule {n r body c} (hl : gList.look r = some (.normal, body)) (h1 : r ≠ R.WHITESPACE)
    (h2 : r ≠ R.COMMENT) (hb : Fails gList n true body .nonAtomic c) : Fails gList (n + 2) true (.call r) .nonAtomic c :=
  fails_call (failsRule_normal hl (nsp h1 h2) hb)

/-- `!a` where `a` fails (under negative lookahead) -/
theorem runsK_not {n a c} (ha : FailsL gList .neg n true a .nonAtomic c) (ht : Tok c) :
    RunsK (max n 20 + 1) (.not a) c c [] :=
  ⟨c, (runsL_not (la := .none) ha).mono (by omega), (skipTo_self ht).mono (by omega)⟩

theorem fails_not {n a c c' ps} (ha : RunsL gList .neg n true a .nonAtomic c c' ps) :
    Fails gList (n + 1) true (.not a) .nonAtomic c := failsL_not (la := .none) ha

/-! ### repetition -/

/-- the iterations of `a*`: each runs and its skip reaches the start of the next; at the end `a` fails -/
inductive ManyK (a : Expr) : Nat → Cur → Cur → List Pair → Prop where
  | nil {n c} : Fails gList n true a .nonAtomic c → Tok c → ManyK a n c c []
  | cons {n m c c1 c' ps pss} : RunsK n a c c1 ps → ManyK a m c1 c' pss → ManyK a (max n m + 1) c c' (ps ++ pss)

theorem manyK_sr {a : Expr} {m : Nat} {c1 c' : Cur} {pss : List Pair} (h : ManyK a m c1 c' pss) :
    ∀ (cB : Cur) (k : Nat), SkipTo k cB c1 → ∃ cEnd, RunsSR (max k m + 1) a cB cEnd pss ∧ SkipTo (max k m) cEnd c' := by
  induction h with
  | nil hf _ =>
    intro cB k hs
    exact ⟨cB, runsSR_nil hs hf, hs.mono (by omega)⟩
  | @cons n m c c1 c' ps pss ha _ ih =>
    intro cB k hs
    obtain ⟨cA, ha1, ha2⟩ := ha
    obtain ⟨cEnd, h1, h2⟩ := ih cA n ha2
    refine ⟨cEnd, (runsSR_cons hs ha1 h1).mono ?_, h2.mono ?_⟩
    · simp only [Nat.add_le_add_iff_right, Nat.max_le]; omega
    · omega

theorem runsK_star {a : Expr} {m : Nat} {c c' : Cur} {pss : List Pair} (h : ManyK a m c c' pss) :
    RunsK (max m 20 + 2) (.star a) c c' pss := by
  cases h with
  | nil hf ht => exact ⟨c, (runs_star_sk_nil hf).mono (by omega), (skipTo_self ht).mono (by omega)⟩
  | @cons n m' _ c1 _ ps pss' ha hr =>
    obtain ⟨cA, ha1, ha2⟩ := ha
    obtain ⟨cEnd, h1, h2⟩ := manyK_sr hr cA n ha2
    refine ⟨cEnd, (runs_star_sk_cons ha1 h1).mono ?_, h2.mono ?_⟩
    · simp only [Nat.add_le_add_iff_right, Nat.max_le]; omega
    · omega

theorem runsK_plus {a : Expr} {n m : Nat} {c c1 c' : Cur} {ps pss : List Pair} (ha : RunsK n a c c1 ps)
    (hr : ManyK a m c1 c' pss) : RunsK (max n (max m 20 + 2) + 2) (.plus a) c c' (ps ++ pss) := by
  obtain ⟨cE, h1, h2⟩ := runsK_seq ha (runsK_star hr)
  exact ⟨cE, runs_plus_sk h1, h2.mono (by omega)⟩

theorem ManyK.mono {a : Expr} {n m : Nat} {c c' : Cur} {pss : List Pair} (h : ManyK a n c c' pss) (hnm : n ≤ m) :
    ∃ k, k ≤ m ∧ ManyK a k c c' pss := ⟨n, hnm, h⟩

/-! ### leaves -/

/-- a string terminal followed by a gap -/
theorem strK {inp : List Char} (s : List Char) {p : Nat} {g : List Char} (h : HasAt inp p s) (hg : Gap inp (p + s.length) g) :
    RunsK (g.length + 60) (.str s) (At inp p) (At inp (p + s.length + g.length)) [] := by
  refine ⟨At inp (p + s.length), ?_, hg.skip⟩
  have : matchStr s (At inp p).rest = some (inp.drop (p + s.length)) := by
    simp only [At]; rw [h.drop]; exact matchStr_self_append _ _
  exact (runs_str (c := At inp p) this).mono (by omega)

theorem str_fails {inp : List Char} {p : Nat} {x : Char} {xs : List Char} (h : HeadNot (· = x) (inp.drop p)) :
    Fails gList 1 true (.str (x :: xs)) .nonAtomic (At inp p) :=
  strL_head_fails (la := .none) h

/-- the `Name` rule on a valid name followed by a gap -/
theorem nameK {inp : List Char} {n : List Char} (hn : validName n) {p : Nat} {g : List Char} (h : HasAt inp p n)
    (hg : Gap inp (p + n.length) g) (hglue : HeadNot nameCont (inp.drop (p + n.length))) :
    RunsKE (n.length + g.length + 60) (.call R.Name) (At inp p) (At inp (p + n.length)) (At inp (p + n.length + g.length))
      [.mk R.Name p (p + n.length) []] := by
  refine ⟨?_, hg.skip.mono (by omega)⟩
  have := name_runs hn p (inp.drop (p + n.length)) hglue
  simp only [At]
  rw [h.drop]
  exact (runs_call this).mono (by omega)

theorem name_fails_at {inp : List Char} {p : Nat} (h : HeadNot nameStart (inp.drop p)) :
    Fails gList 10 true (.call R.Name) .nonAtomic (At inp p) := fails_call (name_fails h)

/-- a keyword rule `@{ "w" ~ !NameContinue }` on its word followed by a gap -/
theorem kwK {inp : List Char} {r : RuleId} {w : List Char}
    (hl : gList.look r = some (.atomic, .seq (.str w) (.not (.call R.NameContinue)))) {p : Nat} {g : List Char}
    (h : HasAt inp p w) (hg : Gap inp (p + w.length) g) (hglue : HeadNot nameCont (inp.drop (p + w.length))) :
    RunsKE (g.length + 60) (.call r) (At inp p) (At inp (p + w.length)) (At inp (p + w.length + g.length))
      [.mk r p (p + w.length) []] := by
  refine ⟨?_, hg.skip⟩
  have := keywordL_runs (la := .none) (at_ := .nonAtomic) hl p (inp.drop (p + w.length)) hglue
  have this' : RunsRule gList 12 r .nonAtomic ⟨p, w ++ inp.drop (p + w.length)⟩ ⟨p + w.length, inp.drop (p + w.length)⟩
      [.mk r p (p + w.length) []] := runsRule_iff.mpr (by simpa using this)
  simp only [At]
  rw [h.drop]
  exact (runs_call this').mono (by omega)

/-- a keyword rule fails where the text does not begin with its word -/
theorem kw_fails_str {inp : List Char} {la : Look} {r : RuleId} {w : List Char}
    (hl : gList.look r = some (.atomic, .seq (.str w) (.not (.call R.NameContinue)))) {p : Nat}
    (hm : matchStr w (inp.drop p) = none) : FailsL gList la 13 true (.call r) .nonAtomic (At inp p) :=
  failsL_call (keywordL_fails_str hl p _ hm)

/-- a keyword rule fails where the first character is not the first character of its word -/
theorem kw_fails_head {inp : List Char} {la : Look} {r : RuleId} {x : Char} {xs : List Char}
    (hl : gList.look r = some (.atomic, .seq (.str (x :: xs)) (.not (.call R.NameContinue)))) {p : Nat}
    (h : HeadNot (· = x) (inp.drop p)) : FailsL gList la 13 true (.call r) .nonAtomic (At inp p) :=
  kw_fails_str hl (matchStr_none_of_head h)

/-- a keyword rule fails on a valid name other than the keyword -/
theorem kw_fails_name {inp : List Char} {la : Look} {r : RuleId} {w : List Char}
    (hl : gList.look r = some (.atomic, .seq (.str w) (.not (.call R.NameContinue)))) (hw : validName w) {p : Nat}
    {n : List Char} (hn : validName n) (hne : n ≠ w) (h : HasAt inp p n)
    (hglue : HeadNot nameCont (inp.drop (p + n.length))) : FailsL gList la 13 true (.call r) .nonAtomic (At inp p) := by
  have := keywordL_fails_name (la := la) (at_ := .nonAtomic) hl (validName_cont hw) p n (inp.drop (p + n.length))
    (validName_cont hn) hne hglue
  simp only [At]
  rw [h.drop]
  exact failsL_call this

/-- the keyword rule SUCCEEDS (used under negative lookahead: `!KEYWORD_on`) -/
theorem kw_runsL {inp : List Char} {la : Look} {r : RuleId} {w : List Char}
    (hl : gList.look r = some (.atomic, .seq (.str w) (.not (.call R.NameContinue)))) {p : Nat}
    (h : HasAt inp p w) (hglue : HeadNot nameCont (inp.drop (p + w.length))) :
    ∃ ps, RunsL gList la 13 true (.call r) .nonAtomic (At inp p) (At inp (p + w.length)) ps := by
  have := keywordL_runs (la := la) (at_ := .nonAtomic) hl p (inp.drop (p + w.length)) hglue
  refine ⟨(if la = .none ∧ Atomicity.nonAtomic ≠ .atomic then [Pair.mk r p (p + w.length) []] else []), ?_⟩
  simp only [At]
  rw [h.drop]
  exact runsL_call this

/-! ### `Clean`: no `\u` escape in a tree -/

mutual
def CleanP : Pair → Prop
  | .mk r _ _ cs => r ≠ R.EscapedUnicode4 ∧ r ≠ R.EscapedUnicodeBrace ∧ CleanL cs
def CleanL : List Pair → Prop
  | [] => True
  | p :: ps => CleanP p ∧ CleanL ps
end

theorem cleanL_append : ∀ {a b : List Pair}, CleanL (a ++ b) ↔ CleanL a ∧ CleanL b := by
  intro a
  induction a with
  | nil => intro b; simp [CleanL]
  | cons x xs ih => intro b; simp [CleanL, ih, and_assoc]

theorem cleanL_nil : CleanL [] := trivial
theorem cleanL_cons {p : Pair} {ps : List Pair} : CleanL (p :: ps) ↔ CleanP p ∧ CleanL ps := Iff.rfl
theorem cleanP_mk {r s e : Nat} {cs : List Pair} :
    CleanP (.mk r s e cs) ↔ r ≠ R.EscapedUnicode4 ∧ r ≠ R.EscapedUnicodeBrace ∧ CleanL cs := by simp [CleanP]

mutual
theorem cleanP_flat (ctx : Ctx) : (p : Pair) → CleanP p → ∀ q ∈ flat p, badEscape ctx q = false
  | .mk r s e cs => fun h q hq => by
    simp only [CleanP] at h
    simp only [flat, List.mem_cons] at hq
    rcases hq with rfl | hq
    · simp [badEscape, Pair.rule, h.1, h.2.1]
    · exact cleanL_flat ctx cs h.2.2 q hq
theorem cleanL_flat (ctx : Ctx) : (ps : List Pair) → CleanL ps → ∀ q ∈ flatList ps, badEscape ctx q = false
  | [] => fun _ q hq => by simp [flatList] at hq
  | p :: ps => fun h q hq => by
    simp only [CleanL] at h
    simp only [flatList, List.mem_append] at hq
    rcases hq with hq | hq
    · exact cleanP_flat ctx p h.1 q hq
    · exact cleanL_flat ctx ps h.2 q hq
end

/-- the validation loop finds nothing in a list of characters none of which is a `\u` escape -/
theorem scanEscapes_noEscapes (ctx : Ctx) : ∀ (l : List Pair),
    (∀ ch ∈ l, ch.rule ≠ R.EscapedUnicode4 ∧ ch.rule ≠ R.EscapedUnicodeBrace) → scanEscapes ctx none l = none := by
  intro l
  induction l with
  | nil => intro _; rfl
  | cons ch rest ih =>
    intro h
    obtain ⟨h1, h2⟩ := h ch (List.mem_cons_self ..)
    simp only [scanEscapes, h1, h2, if_false]
    exact ih fun x hx => h x (List.mem_cons_of_mem _ hx)

mutual
theorem cleanP_sub : (p : Pair) → CleanP p → ∀ q ∈ flat p, CleanP q
  | .mk r s e cs => fun h q hq => by
    simp only [flat, List.mem_cons] at hq
    rcases hq with rfl | hq
    · exact h
    · simp only [CleanP] at h
      exact cleanL_sub cs h.2.2 q hq
theorem cleanL_sub : (ps : List Pair) → CleanL ps → ∀ q ∈ flatList ps, CleanP q
  | [] => fun _ q hq => by simp [flatList] at hq
  | p :: ps => fun h q hq => by
    simp only [CleanL] at h
    simp only [flatList, List.mem_append] at hq
    rcases hq with hq | hq
    · exact cleanP_sub p h.1 q hq
    · exact cleanL_sub ps h.2 q hq
end

theorem cleanL_mem : ∀ {ps : List Pair}, CleanL ps → ∀ p ∈ ps, CleanP p := by
  intro ps
  induction ps with
  | nil => intro _ p hp; cases hp
  | cons x xs ih =>
    intro h p hp
    simp only [CleanL] at h
    rcases List.mem_cons.mp hp with rfl | hp
    · exact h.1
    · exact ih h.2 p hp

/-- the characters of a clean string pair are no `\u` escapes -/
theorem clean_stringCharacters {q : Pair} (h : CleanP q) :
    ∀ ch ∈ stringCharacters q, ch.rule ≠ R.EscapedUnicode4 ∧ ch.rule ≠ R.EscapedUnicodeBrace := by
  cases q with
  | mk r s e cs =>
    intro ch hch
    simp only [stringCharacters, Pair.children, List.mem_flatMap] at hch
    obtain ⟨sc, hsc, hch⟩ := hch
    simp only [CleanP] at h
    have hsc' := cleanL_mem h.2.2 sc hsc
    cases sc with
    | mk r' s' e' cs' =>
      simp only [CleanP] at hsc'
      have := cleanL_mem hsc'.2.2 ch hch
      cases ch with
      | mk r'' s'' e'' cs'' =>
        simp only [CleanP] at this
        exact ⟨this.1, this.2.1⟩

/-- a clean tree passes `validate_unicode_escapes` -/
theorem firstBadEscape_clean (ctx : Ctx) (ps : List Pair) (h : CleanL ps) : firstBadEscape ctx ps = none := by
  simp only [firstBadEscape, List.findSome?_eq_none_iff]
  intro q hq
  split
  · rw [scanEscapes_noEscapes ctx _ (clean_stringCharacters (cleanL_sub ps h q hq))]; rfl
  · rfl

theorem cleanP_of {r s e : Nat} {cs : List Pair} (h1 : r ≠ R.EscapedUnicode4) (h2 : r ≠ R.EscapedUnicodeBrace)
    (h3 : CleanL cs) : CleanP (.mk r s e cs) := cleanP_mk.mpr ⟨h1, h2, h3⟩

theorem clean_opt {o : Option Pair} (h : ∀ x ∈ o, CleanP x) : CleanL o.toList := by
  cases o with
  | none => trivial
  | some x => exact ⟨h x rfl, trivial⟩

/-! ### what follows a construct -/

def gapS (sep : Bool) (t : List Char) : List Char := if sep then sepOf t else t

theorem ws_gapS {sep : Bool} {t : List Char} (h : Ws t) : Ws (gapS sep t) := by
  unfold gapS; split
  · exact ws_sepOf h
  · exact h

theorem gapS_ne_nil {t : List Char} : gapS true t ≠ [] := by simpa [gapS] using sepOf_ne_nil t

/-- at offset `q` (right after the trailing gap of a construct) a token begins whose first character is not in `bad`;
    if that gap was allowed to be empty (`sep = false`) the token does not begin with a name character -/
structure Nxt (inp : List Char) (bad : Char → Prop) (sep : Bool) (q : Nat) : Prop where
  tok : Tok (At inp q)
  ok : HeadNot bad (inp.drop q)
  glue : sep = false → HeadNot nameCont (inp.drop q)

theorem Nxt.mono {inp : List Char} {bad bad' : Char → Prop} {sep : Bool} {q : Nat} (h : Nxt inp bad sep q)
    (hb : ∀ d, bad' d → bad d) : Nxt inp bad' sep q := ⟨h.tok, headNot_mono hb h.ok, h.glue⟩

theorem Nxt.cast {inp : List Char} {bad : Char → Prop} {sep : Bool} {q q' : Nat} (h : Nxt inp bad sep q) (e : q = q') :
    Nxt inp bad sep q' := e ▸ h

/-- a text `R` beginning with a punctuation-like character (`P`) lies at `q` -/
theorem Nxt.of_hd {inp : List Char} {bad : Char → Prop} {s : Bool} {q : Nat} {R : List Char} {P : Char → Prop}
    (hat : HasAt inp q R) (hR : Hd P R) (hP : ∀ d, P d → ¬ trivia d ∧ ¬ bad d ∧ ¬ nameCont d) : Nxt inp bad s q :=
  ⟨tok_of_hd hat hR (fun d h => (hP d h).1), headNot_of_hd hat hR (fun d h => (hP d h).2.1),
    fun _ => headNot_of_hd hat hR (fun d h => (hP d h).2.2)⟩

/-- … after a gap that is never empty, the next token may begin with a name character -/
theorem Nxt.of_hd_sep {inp : List Char} {bad : Char → Prop} {q : Nat} {R : List Char} {P : Char → Prop}
    (hat : HasAt inp q R) (hR : Hd P R) (hP : ∀ d, P d → ¬ trivia d ∧ ¬ bad d) : Nxt inp bad true q :=
  ⟨tok_of_hd hat hR (fun d h => (hP d h).1), headNot_of_hd hat hR (fun d h => (hP d h).2), fun h => by cases h⟩

/-- what follows at `q` is the (possibly empty) rest `R` of the construct and then whatever follows the construct -/
theorem Nxt.rest {inp : List Char} {bad bad' : Char → Prop} {sep s : Bool} {q : Nat} {R : List Char} {P : Char → Prop}
    (hat : HasAt inp q R) (hn : Nxt inp bad sep (q + R.length)) (hR : R = [] ∨ Hd P R)
    (hP : ∀ d, P d → ¬ trivia d ∧ ¬ bad' d ∧ ¬ nameCont d) (hb : ∀ d, bad' d → bad d)
    (hs : R = [] → s = false → sep = false) : Nxt inp bad' s q := by
  rcases hR with rfl | hR
  · have hn' : Nxt inp bad sep q := by simpa using hn
    exact ⟨hn'.tok, headNot_mono hb hn'.ok, fun h => hn'.glue (hs rfl h)⟩
  · exact Nxt.of_hd hat hR hP

/-- … where the bad set of the result only has to be contained in the outer one when the rest is empty -/
theorem Nxt.rest' {inp : List Char} {bad bad' : Char → Prop} {sep s : Bool} {q : Nat} {R : List Char} {P : Char → Prop}
    (hat : HasAt inp q R) (hn : Nxt inp bad sep (q + R.length)) (hR : R = [] ∨ Hd P R)
    (hP : ∀ d, P d → ¬ trivia d ∧ ¬ bad' d ∧ ¬ nameCont d) (hb : R = [] → ∀ d, bad' d → bad d)
    (hs : R = [] → s = false → sep = false) : Nxt inp bad' s q := by
  rcases hR with rfl | hR
  · have hn' : Nxt inp bad sep q := by simpa using hn
    exact ⟨hn'.tok, headNot_mono (hb rfl) hn'.ok, fun h => hn'.glue (hs rfl h)⟩
  · exact Nxt.of_hd hat hR hP

/-- the trailing gap of a token that ends at `q` -/
theorem Nxt.gap {inp : List Char} {bad : Char → Prop} {sep : Bool} {q : Nat} {t : List Char} (hτ : Ws t)
    (hat : HasAt inp q (gapS sep t)) (hn : Nxt inp bad sep (q + (gapS sep t).length)) :
    Gap inp q (gapS sep t) ∧ HeadNot nameCont (inp.drop q) := by
  have hg : Gap inp q (gapS sep t) := ⟨hat, ws_gapS hτ, hn.tok⟩
  refine ⟨hg, noGlue_of_gap hg ?_⟩
  intro hnil
  cases sep with
  | true => exact absurd hnil gapS_ne_nil
  | false =>
    have : inp.drop q = inp.drop (q + (gapS false t).length) := by rw [hnil]; simp
    rw [this]
    exact hn.glue rfl

theorem hd_or_nil_append {P : Char → Prop} {a b : List Char} (ha : a = [] ∨ Hd P a) (hb : b = [] ∨ Hd P b) :
    a ++ b = [] ∨ Hd P (a ++ b) := by
  rcases ha with rfl | ha
  · simpa using hb
  · exact Or.inr (ha.append _)

theorem hd_or_nil_mono {P Q : Char → Prop} {a : List Char} (ha : a = [] ∨ Hd P a) (h : ∀ d, P d → Q d) :
    a = [] ∨ Hd Q a := ha.imp id (fun x => x.mono h)

/-- a token followed by its trailing gap -/
def tk (τ : Trivia) (sep : Bool) (p : Nat) (s : List Char) : List Char := s ++ gapS sep (τ (p + s.length))

theorem tk_length (τ : Trivia) (sep : Bool) (p : Nat) (s : List Char) :
    (tk τ sep p s).length = s.length + (gapS sep (τ (p + s.length))).length := by simp [tk]

theorem hd_tk {P : Char → Prop} {τ : Trivia} {sep : Bool} {p : Nat} {s : List Char} (h : Hd P s) : Hd P (tk τ sep p s) :=
  h.append _

/-! ### lists of items, each followed by its gap -/

section Items
variable {α : Type} (ri : Bool → Nat → α → List Char) (sepMid sepLast : Bool)

/-- the items one after another; the gap after an item that is followed by another one is rendered with `sepMid`, the gap
    after the last one with `sepLast` -/
def renderItems : Nat → List α → List Char
  | _, [] => []
  | p, [a] => ri sepLast p a
  | p, a :: b :: r => ri sepMid p a ++ renderItems (p + (ri sepMid p a).length) (b :: r)

/-- apply `f` to every item together with the offset it is written at -/
def mapItems {β : Type} (f : Bool → Nat → α → β) : Nat → List α → List β
  | _, [] => []
  | p, [a] => [f sepLast p a]
  | p, a :: b :: r => f sepMid p a :: mapItems f (p + (ri sepMid p a).length) (b :: r)

/-- the pairs of the items, one per item -/
def GoodItems (Good : Bool → Nat → α → Pair → Prop) : Nat → List α → List Pair → Prop
  | _, [], pss => pss = []
  | p, [a], pss => ∃ pr, pss = [pr] ∧ Good sepLast p a pr
  | p, a :: b :: r, pss => ∃ pr pss', pss = pr :: pss' ∧ Good sepMid p a pr ∧
      GoodItems Good (p + (ri sepMid p a).length) (b :: r) pss'

theorem renderItems_cons (p : Nat) (a : α) (r : List α) :
    ∃ s tail, renderItems ri sepMid sepLast p (a :: r) = ri s p a ++ tail := by
  cases r with
  | nil => exact ⟨sepLast, [], by simp [renderItems]⟩
  | cons b r => exact ⟨sepMid, _, rfl⟩

theorem renderItems_cons2 (p : Nat) (a b : α) (r : List α) :
    renderItems ri sepMid sepLast p (a :: b :: r) =
      ri sepMid p a ++ renderItems ri sepMid sepLast (p + (ri sepMid p a).length) (b :: r) := rfl

end Items

/-- at least one iteration of `a`, then `a*` -/
def Many1K (a : Expr) (n : Nat) (c c' : Cur) (pss : List Pair) : Prop :=
  ∃ n1 m c1 ps pss', n1 ≤ n ∧ m ≤ n ∧ RunsK n1 a c c1 ps ∧ ManyK a m c1 c' pss' ∧ pss = ps ++ pss'

theorem Many1K.many {a : Expr} {n : Nat} {c c' : Cur} {pss : List Pair} (h : Many1K a n c c' pss) :
    ∃ k, k ≤ n + 1 ∧ ManyK a k c c' pss := by
  obtain ⟨n1, m, c1, ps, pss', h1, h2, hr, hm, rfl⟩ := h
  exact ⟨max n1 m + 1, by simp only [Nat.add_le_add_iff_right, Nat.max_le]; omega, .cons hr hm⟩

theorem runsK_plus1 {a : Expr} {n : Nat} {c c' : Cur} {pss : List Pair} (h : Many1K a n c c' pss) :
    RunsK (max n 20 + 4) (.plus a) c c' pss := by
  obtain ⟨n1, m, c1, ps, pss', h1, h2, hr, hm, rfl⟩ := h
  refine (runsK_plus hr hm).mono ?_
  simp only [Nat.add_le_add_iff_right, Nat.max_le]; omega

theorem Many1K.mono {a : Expr} {n m : Nat} {c c' : Cur} {pss : List Pair} (h : Many1K a n c c' pss) (hnm : n ≤ m) :
    Many1K a m c c' pss := by
  obtain ⟨n1, m', c1, ps, pss', h1, h2, hr, hm, he⟩ := h
  exact ⟨n1, m', c1, ps, pss', by omega, by omega, hr, hm, he⟩

section ItemsRun
variable {α : Type} (ri : Bool → Nat → α → List Char) (sepMid sepLast : Bool)

/-- a non-empty list of items, each parsed by `e` into one pair: the iterations of `e+` over the rendering, up to the
    offset after the last item's gap, where `e` fails -/
theorem items_many1K {inp : List Char} (e : Expr) (bad : Bool → Char → Prop) (K : Nat)
    (Good : Bool → Nat → α → Pair → Prop) :
    ∀ (r : List α) (a : α) (p : Nat),
      (∀ x ∈ a :: r, ∀ s p, HasAt inp p (ri s p x) → Nxt inp (bad s) s (p + (ri s p x).length) →
        ∃ pr, RunsK (B (ri s p x).length + K) e (At inp p) (At inp (p + (ri s p x).length)) [pr] ∧ Good s p x pr) →
      (∀ x ∈ a :: r, ∀ s p, Hd (fun d => ¬ trivia d ∧ ¬ bad sepMid d ∧ (sepMid = false → ¬ nameCont d)) (ri s p x)) →
      HasAt inp p (renderItems ri sepMid sepLast p (a :: r)) →
      Nxt inp (bad sepLast) sepLast (p + (renderItems ri sepMid sepLast p (a :: r)).length) →
      Fails gList (K + 100) true e .nonAtomic (At inp (p + (renderItems ri sepMid sepLast p (a :: r)).length)) →
      ∃ pss, Many1K e (B (renderItems ri sepMid sepLast p (a :: r)).length + K + 1) (At inp p)
          (At inp (p + (renderItems ri sepMid sepLast p (a :: r)).length)) pss ∧
        GoodItems ri sepMid sepLast Good p (a :: r) pss := by
  intro r
  induction r with
  | nil =>
    intro a p hitem _ hat hE hfail
    simp only [renderItems] at hat hE hfail ⊢
    obtain ⟨pr, hrun, hgood⟩ := hitem a (List.mem_cons_self ..) sepLast p hat hE
    refine ⟨[pr], ⟨_, _, _, [pr], [], ?_, ?_, hrun, .nil hfail hE.tok, rfl⟩, pr, rfl, hgood⟩
    · omega
    · simp [B]; omega
  | cons b r ih =>
    intro a p hitem hhead hat hE hfail
    rw [renderItems_cons2] at hat hE hfail ⊢
    generalize hta : ri sepMid p a = ta at *
    generalize hrest : renderItems ri sepMid sepLast (p + ta.length) (b :: r) = tl at *
    have h1 := hat.left
    have h3 : HasAt inp (p + ta.length) tl := hat.right
    -- the next item's first character
    obtain ⟨s', tail, htail⟩ := renderItems_cons ri sepMid sepLast (p + ta.length) b r
    have hb := hhead b (List.mem_cons_of_mem _ (List.mem_cons_self ..)) s' (p + ta.length)
    have hbt : Hd (fun d => ¬ trivia d ∧ ¬ bad sepMid d ∧ (sepMid = false → ¬ nameCont d)) tl := by
      rw [← hrest, htail]; exact hb.append _
    have hnx : Nxt inp (bad sepMid) sepMid (p + ta.length) :=
      ⟨tok_of_hd h3 hbt (fun d h => h.1), headNot_of_hd h3 hbt (fun d h => h.2.1),
        fun hs => headNot_of_hd h3 hbt (fun d h => h.2.2 hs)⟩
    obtain ⟨pr, hrun, hgood⟩ := hitem a (List.mem_cons_self ..) sepMid p (hta ▸ h1) (by rw [hta]; exact hnx)
    rw [hta] at hrun
    have hlen : p + (ta ++ tl).length = p + ta.length + tl.length := by simp; omega
    rw [hlen] at hE hfail ⊢
    obtain ⟨pss, hmany, hgoods⟩ := ih b (p + ta.length) (fun x hx => hitem x (List.mem_cons_of_mem _ hx))
      (fun x hx => hhead x (List.mem_cons_of_mem _ hx)) (hrest ▸ h3) (by rw [hrest]; exact hE) (by rw [hrest]; exact hfail)
    rw [hrest] at hmany
    obtain ⟨k, hk, hmany'⟩ := hmany.many
    have h1len : 1 ≤ ta.length := hta ▸ (hhead a (List.mem_cons_self ..) sepMid p).length_pos
    refine ⟨pr :: pss, ⟨_, k, _, [pr], pss, ?_, ?_, hrun, hmany', rfl⟩, pr, pss, rfl, ?_, ?_⟩
    · simp [B]; omega
    · simp [B] at hk ⊢; omega
    · exact hgood
    · rw [hta]; exact hgoods

end ItemsRun

section ItemsRunTok
variable {α : Type} (ri : Bool → Nat → α → List Char) (sepMid sepLast : Bool)

/-- the same for items that only need a token to follow them (they end with a punctuation character, so the next item
    may begin with a name character even directly after them) -/
theorem items_many1K_tok {inp : List Char} (e : Expr) (K : Nat) (Good : Bool → Nat → α → Pair → Prop) :
    ∀ (r : List α) (a : α) (p : Nat),
      (∀ x ∈ a :: r, ∀ s p, HasAt inp p (ri s p x) → Tok (At inp (p + (ri s p x).length)) →
        ∃ pr, RunsK (B (ri s p x).length + K) e (At inp p) (At inp (p + (ri s p x).length)) [pr] ∧ Good s p x pr) →
      (∀ x ∈ a :: r, ∀ s p, Hd (fun d => ¬ trivia d) (ri s p x)) →
      HasAt inp p (renderItems ri sepMid sepLast p (a :: r)) →
      Tok (At inp (p + (renderItems ri sepMid sepLast p (a :: r)).length)) →
      Fails gList (K + 100) true e .nonAtomic (At inp (p + (renderItems ri sepMid sepLast p (a :: r)).length)) →
      ∃ pss, Many1K e (B (renderItems ri sepMid sepLast p (a :: r)).length + K + 1) (At inp p)
          (At inp (p + (renderItems ri sepMid sepLast p (a :: r)).length)) pss ∧
        GoodItems ri sepMid sepLast Good p (a :: r) pss := by
  intro r
  induction r with
  | nil =>
    intro a p hitem _ hat hE hfail
    simp only [renderItems] at hat hE hfail ⊢
    obtain ⟨pr, hrun, hgood⟩ := hitem a (List.mem_cons_self ..) sepLast p hat hE
    refine ⟨[pr], ⟨_, _, _, [pr], [], ?_, ?_, hrun, .nil hfail hE, rfl⟩, pr, rfl, hgood⟩
    · omega
    · simp [B]; omega
  | cons b r ih =>
    intro a p hitem hhead hat hE hfail
    rw [renderItems_cons2] at hat hE hfail ⊢
    generalize hta : ri sepMid p a = ta at *
    generalize hrest : renderItems ri sepMid sepLast (p + ta.length) (b :: r) = tl at *
    have h1 := hat.left
    have h3 : HasAt inp (p + ta.length) tl := hat.right
    obtain ⟨s', tail, htail⟩ := renderItems_cons ri sepMid sepLast (p + ta.length) b r
    have hb := hhead b (List.mem_cons_of_mem _ (List.mem_cons_self ..)) s' (p + ta.length)
    have hbt : Hd (fun d => ¬ trivia d) tl := by rw [← hrest, htail]; exact hb.append _
    have hnx : Tok (At inp (p + ta.length)) := tok_of_hd h3 hbt (fun d h => h)
    obtain ⟨pr, hrun, hgood⟩ := hitem a (List.mem_cons_self ..) sepMid p (hta ▸ h1) (by rw [hta]; exact hnx)
    rw [hta] at hrun
    have hlen : p + (ta ++ tl).length = p + ta.length + tl.length := by simp; omega
    rw [hlen] at hE hfail ⊢
    obtain ⟨pss, hmany, hgoods⟩ := ih b (p + ta.length) (fun x hx => hitem x (List.mem_cons_of_mem _ hx))
      (fun x hx => hhead x (List.mem_cons_of_mem _ hx)) (hrest ▸ h3) (by rw [hrest]; exact hE) (by rw [hrest]; exact hfail)
    rw [hrest] at hmany
    obtain ⟨k, hk, hmany'⟩ := hmany.many
    have h1len : 1 ≤ ta.length := hta ▸ (hhead a (List.mem_cons_self ..) sepMid p).length_pos
    refine ⟨pr :: pss, ⟨_, k, _, [pr], pss, ?_, ?_, hrun, hmany', rfl⟩, pr, pss, rfl, ?_, ?_⟩
    · simp [B]; omega
    · simp [B] at hk ⊢; omega
    · exact hgood
    · rw [hta]; exact hgoods

end ItemsRunTok

section ItemsBuild
variable {α β : Type} (ri : Bool → Nat → α → List Char) (sepMid sepLast : Bool)

theorem goodItems_mapM (Good : Bool → Nat → α → Pair → Prop) (f : Pair → M β) (wp : Bool → Nat → α → β) (L : Nat) :
    ∀ (as : List α), (∀ a ∈ as, ∀ s p pr, Good s p a pr → (ri s p a).length ≤ L → f pr = .ok (wp s p a)) →
    ∀ (p : Nat) (pss : List Pair), (renderItems ri sepMid sepLast p as).length ≤ L →
    GoodItems ri sepMid sepLast Good p as pss → pss.mapM f = .ok (mapItems ri sepMid sepLast wp p as) := by
  intro as
  induction as with
  | nil => intro _ p pss _ hg; simp only [GoodItems] at hg; subst hg; rfl
  | cons a r ih =>
    intro h p pss hL hg
    cases r with
    | nil =>
      obtain ⟨pr, rfl, hgood⟩ := hg
      simp only [renderItems] at hL
      simp [List.mapM_cons, h a (List.mem_cons_self ..) _ p pr hgood hL, mapItems, bind, Except.bind, pure, Except.pure]
    | cons b r =>
      obtain ⟨pr, pss', rfl, hgood, hrest⟩ := hg
      rw [renderItems_cons2] at hL
      simp only [List.length_append] at hL
      have := ih (fun x hx => h x (List.mem_cons_of_mem _ hx)) _ _ (by omega) hrest
      simp [List.mapM_cons, h a (List.mem_cons_self ..) _ p pr hgood (by omega), this, mapItems, bind, Except.bind, pure,
        Except.pure]

theorem goodItems_all (Good : Bool → Nat → α → Pair → Prop) (rule : RuleId) :
    ∀ (as : List α), (∀ a ∈ as, ∀ s p pr, Good s p a pr → pr.rule = rule) → ∀ (p : Nat) (pss : List Pair),
    GoodItems ri sepMid sepLast Good p as pss → allChildrenGo rule pss = .ok () := by
  intro as
  induction as with
  | nil => intro _ p pss hg; simp only [GoodItems] at hg; subst hg; rfl
  | cons a r ih =>
    intro h p pss hg
    cases r with
    | nil =>
      obtain ⟨pr, rfl, hgood⟩ := hg
      simp [allChildrenGo, h a (List.mem_cons_self ..) _ p pr hgood]
    | cons b r =>
      obtain ⟨pr, pss', rfl, hgood, hrest⟩ := hg
      simp only [allChildrenGo, h a (List.mem_cons_self ..) _ p pr hgood, if_true]
      exact ih (fun x hx => h x (List.mem_cons_of_mem _ hx)) _ _ hrest

theorem goodItems_clean (Good : Bool → Nat → α → Pair → Prop) :
    ∀ (as : List α), (∀ a ∈ as, ∀ s p pr, Good s p a pr → CleanP pr) → ∀ (p : Nat) (pss : List Pair),
    GoodItems ri sepMid sepLast Good p as pss → CleanL pss := by
  intro as
  induction as with
  | nil => intro _ p pss hg; simp only [GoodItems] at hg; subst hg; trivial
  | cons a r ih =>
    intro h p pss hg
    cases r with
    | nil =>
      obtain ⟨pr, rfl, hgood⟩ := hg
      exact ⟨h a (List.mem_cons_self ..) _ p pr hgood, trivial⟩
    | cons b r =>
      obtain ⟨pr, pss', rfl, hgood, hrest⟩ := hg
      exact ⟨h a (List.mem_cons_self ..) _ p pr hgood, ih (fun x hx => h x (List.mem_cons_of_mem _ hx)) _ _ hrest⟩

theorem goodItems_map {γ : Type} (Good : Bool → Nat → α → Pair → Prop) (f : Pair → γ) (wp : Bool → Nat → α → γ) :
    ∀ (as : List α), (∀ a ∈ as, ∀ s p pr, Good s p a pr → f pr = wp s p a) → ∀ (p : Nat) (pss : List Pair),
    GoodItems ri sepMid sepLast Good p as pss → pss.map f = mapItems ri sepMid sepLast wp p as := by
  intro as
  induction as with
  | nil => intro _ p pss hg; simp only [GoodItems] at hg; subst hg; rfl
  | cons a r ih =>
    intro h p pss hg
    cases r with
    | nil =>
      obtain ⟨pr, rfl, hgood⟩ := hg
      simp [mapItems, h a (List.mem_cons_self ..) _ p pr hgood]
    | cons b r =>
      obtain ⟨pr, pss', rfl, hgood, hrest⟩ := hg
      have := ih (fun x hx => h x (List.mem_cons_of_mem _ hx)) _ _ hrest
      simp [mapItems, h a (List.mem_cons_self ..) _ p pr hgood, this]

theorem goodItems_forall (Good : Bool → Nat → α → Pair → Prop) (P : Pair → Prop) :
    ∀ (as : List α), (∀ a ∈ as, ∀ s p pr, Good s p a pr → P pr) → ∀ (p : Nat) (pss : List Pair),
    GoodItems ri sepMid sepLast Good p as pss → ∀ pr ∈ pss, P pr := by
  intro as
  induction as with
  | nil => intro _ p pss hg; simp only [GoodItems] at hg; subst hg; intro pr h; cases h
  | cons a r ih =>
    intro h p pss hg
    cases r with
    | nil =>
      obtain ⟨pr, rfl, hgood⟩ := hg
      intro x hx
      simp only [List.mem_singleton] at hx
      subst hx
      exact h a (List.mem_cons_self ..) _ p _ hgood
    | cons b r =>
      obtain ⟨pr, pss', rfl, hgood, hrest⟩ := hg
      intro x hx
      rcases List.mem_cons.mp hx with rfl | hx
      · exact h a (List.mem_cons_self ..) _ p _ hgood
      · exact ih (fun y hy => h y (List.mem_cons_of_mem _ hy)) _ _ hrest x hx

end ItemsBuild

/-- `pr` is a pair of rule `r` that starts at `p` and contains no `\u` escape -/
structure PairOk (r : RuleId) (p : Nat) (pr : Pair) : Prop where
  rule : pr.rule = r
  start : pr.start = p
  clean : CleanP pr

theorem pairOk_mk {r p e : Nat} {cs : List Pair} (h1 : r ≠ R.EscapedUnicode4) (h2 : r ≠ R.EscapedUnicodeBrace)
    (h3 : CleanL cs) : PairOk r p (.mk r p e cs) := ⟨rfl, rfl, cleanP_of h1 h2 h3⟩

/-! ### from `RunsK` to the entry points of the interpreter -/

/-- `Peg.run` on a rule call that `RunsK`: it succeeds with the same pairs and ends at or before the offset the skip
    reaches -/
theorem run_of_runsK {inp : List Char} {n : Nat} {r : RuleId} {off : Nat} {c' : Cur} {ps : List Pair}
    (h : RunsK n (.call r) (At inp off) c' ps) {fuel : Nat} (hf : n ≤ fuel + 1) :
    ∃ e, Peg.run gList fuel r inp off .nonAtomic = some (e, ps) ∧ e ≤ c'.pos := by
  obtain ⟨c1, hr, hs⟩ := h
  obtain ⟨tr', h'⟩ := hr {}
  have := h' (fuel + 1) hf
  simp only [eval, At] at this
  refine ⟨c1.pos, ?_, skipTo_pos_le hs⟩
  unfold Peg.run
  rw [this]

/-- the builder input of a hypothesis `inp.drop off = t ++ X` -/
theorem hasAt_of_drop {inp : List Char} {off : Nat} {t X : List Char} (h : inp.drop off = t ++ X) : HasAt inp off t := ⟨X, h⟩

theorem nxt_of_drop {inp : List Char} {off : Nat} {t X : List Char} {bad : Char → Prop} {sep : Bool}
    (h : inp.drop off = t ++ X) (h1 : HeadNot (fun d => trivia d ∨ bad d) X) (h2 : sep = false → HeadNot nameCont X) :
    Nxt inp bad sep (off + t.length) := by
  have : inp.drop (off + t.length) = X := drop_after h
  exact ⟨by simp only [Tok, At]; rw [this]; exact headNot_mono (fun _ h => Or.inl h) h1,
    by rw [this]; exact headNot_mono (fun _ h => Or.inr h) h1, fun hs => by rw [this]; exact h2 hs⟩

/-! ### `parts!` on a list of slots -/

def itemRule : Item → RuleId
  | .req r => r
  | .opt r => r

/-- the slot of a `parts!` item: a required item has a pair of its rule, an optional one has such a pair or nothing -/
def slotOk : Item → Option Pair → Prop
  | .req r, o => ∃ x, o = some x ∧ x.rule = r
  | .opt r, o => ∀ x ∈ o, x.rule = r

def slotsOk : List Item → List (Option Pair) → Prop
  | [], [] => True
  | i :: is, o :: os => slotOk i o ∧ slotsOk is os
  | _, _ => False

def slotPairs : List (Option Pair) → List Pair
  | [] => []
  | o :: os => o.toList ++ slotPairs os

theorem slotPairs_head_rule : ∀ (items : List Item) (slots : List (Option Pair)), slotsOk items slots →
    ∀ q ∈ (slotPairs slots).head?, q.rule ∈ items.map itemRule := by
  intro items
  induction items with
  | nil =>
    intro slots h q hq
    cases slots with
    | nil => simp [slotPairs] at hq
    | cons o os => exact absurd h id
  | cons i is ih =>
    intro slots h q hq
    cases slots with
    | nil => exact absurd h id
    | cons o os =>
      obtain ⟨h1, h2⟩ := h
      cases o with
      | none =>
        simp only [slotPairs, Option.toList, List.nil_append] at hq
        exact List.mem_cons_of_mem _ (ih os h2 q hq)
      | some x =>
        simp only [slotPairs, Option.toList, List.cons_append, List.head?_cons, Option.mem_def, Option.some.injEq] at hq
        subst hq
        cases i with
        | req r =>
          obtain ⟨y, hy, hr⟩ := h1
          cases hy
          simp [itemRule, hr]
        | opt r =>
          have := h1 x rfl
          simp [itemRule, this]

/-- `parts!` on the pairs of its slots returns the slots (the rules of a pattern are pairwise different) -/
theorem matchParts_slots : ∀ (items : List Item) (slots : List (Option Pair)), (items.map itemRule).Nodup →
    slotsOk items slots → matchParts items (slotPairs slots) = .ok slots := by
  intro items
  induction items with
  | nil =>
    intro slots _ h
    cases slots with
    | nil => rfl
    | cons o os => exact absurd h id
  | cons i is ih =>
    intro slots hnd h
    cases slots with
    | nil => exact absurd h id
    | cons o os =>
      obtain ⟨h1, h2⟩ := h
      have hnd' : (is.map itemRule).Nodup := (List.nodup_cons.mp hnd).2
      have hnot : itemRule i ∉ is.map itemRule := (List.nodup_cons.mp hnd).1
      have ih' := ih os hnd' h2
      cases i with
      | req r =>
        obtain ⟨x, rfl, hr⟩ := h1
        simp [slotPairs, matchParts, hr, ih', Except.map]
      | opt r =>
        cases o with
        | some x =>
          have hr := h1 x rfl
          simp [slotPairs, matchParts, hr, ih', Except.map]
        | none =>
          simp only [slotPairs, Option.toList, List.nil_append]
          cases hsp : slotPairs os with
          | nil =>
            rw [hsp] at ih'
            simp [matchParts, ih', Except.map]
          | cons y ys =>
            have hy := slotPairs_head_rule is os h2 y (by simp [hsp])
            have hne : y.rule ≠ r := by
              intro e
              exact hnot (by simpa [itemRule, e] using hy)
            rw [hsp] at ih'
            simp [matchParts, hne, ih', Except.map]

end NitroVerif.DocParse
