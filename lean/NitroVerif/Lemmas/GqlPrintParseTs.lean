import NitroVerif.Lemmas.GqlPrintParseExec
/-!
C16, token level: the specification's token parser reads the canonical token stream of every type-system definition
and extension back (input values, fields, enum values, the six kinds of type definitions and extensions, schema
definitions / extensions, directive definitions, whole documents).
-/
namespace NitroVerif.C16
open NitroVerif.Gql NitroVerif.GqlTokens

/-- the token list begins with the name `n` -/
def startsN (n : String) : List LTok → Bool
  | [] => false
  | tok :: _ => tok = .name n

theorem startsN_cons_false (n : String) (tok : LTok) (r : List LTok) (h : startsN n (tok :: r) = false) :
    tok ≠ .name n := by simpa [startsN] using h

/-- what may follow a type-system definition: the end of the input, a description or a keyword — in particular
    no continuation punctuator and not the word `implements` -/
structure ItemFollow (ts : List LTok) : Prop where
  stops : Stops ts
  impl : startsN "implements" ts = false

/-! ### descriptions -/

theorem parseDesc_desc (d : Option String) (n : String) (X : List LTok) :
    parseDesc (descToks d ++ .name n :: X) = (d, .name n :: X) := by
  cases d <;> rfl

theorem descToks_head (d : Option String) (n : String) (X : List LTok) (close : String) :
    Stops (descToks d ++ .name n :: X) ∧ ∃ tok r', descToks d ++ .name n :: X = tok :: r' ∧ tok ≠ .p close := by
  cases d with
  | none => exact ⟨Stops.name _ _, _, _, rfl, by simp⟩
  | some s => exact ⟨Stops.str _ _, _, _, rfl, by simp⟩

theorem descToks_length (d : Option String) : (descToks d).length ≤ 1 := by cases d <;> simp [descToks]

/-! ### input value definitions -/

theorem inputValueDefToks_eq (v : InputValueDef) :
    inputValueDefToks v = descToks v.desc ++
      .name v.name :: .p ":" :: (typeToks v.ty ++ (defaultToks v.default ++ dirsToks v.dirs)) := by
  cases h : v.default <;> simp [inputValueDefToks, defaultToks, h]

theorem parse_inputValueDef (v : InputValueDef) (hwf : wfIV v = true) (rest : List LTok) (f : Nat) (hr : Stops rest)
    (hf : 2 * (inputValueDefToks v).length + 2 ≤ f) :
    parseInputValueDef f (inputValueDefToks v ++ rest) = some (eraseIV v, rest) := by
  simp only [wfIV, Bool.and_eq_true] at hwf
  obtain ⟨⟨hw1, hw2⟩, hw3⟩ := hwf
  rw [inputValueDefToks_eq] at hf ⊢
  simp only [List.length_cons, List.length_append] at hf
  have h1 := parse_type' v.ty hw1 (defaultToks v.default ++ (dirsToks v.dirs ++ rest)) f (by omega)
    (startsP_default "!" (by decide) _ _ (startsP_dirs "!" (by decide) _ _ hr.bang))
  have h2 := parse_default v.default hw2 (dirsToks v.dirs ++ rest) f (by omega)
    (startsP_dirs "=" (by decide) _ _ hr.eq)
  have h3 := parse_dirs v.dirs hw3 rest f (by omega) hr.paren hr.at_
  simp only [List.cons_append, List.append_assoc]
  simp [parseInputValueDef, parseDesc_desc, h1, h2, h3, eraseIV]

theorem inputValueDefToks_head (close : String) (v : InputValueDef) (r : List LTok) :
    Stops (inputValueDefToks v ++ r) ∧ ∃ tok r', inputValueDefToks v ++ r = tok :: r' ∧ tok ≠ .p close := by
  rw [inputValueDefToks_eq]
  simp only [List.cons_append, List.append_assoc]
  exact descToks_head _ _ _ _

theorem inputValueDefToks_pos (v : InputValueDef) : 1 ≤ (inputValueDefToks v).length := by
  rw [inputValueDefToks_eq]; simp; omega

theorem parse_ivList (open_ close : String) (xs : List InputValueDef) (hwf : xs.all wfIV = true) (rest : List LTok)
    (f : Nat) (hrest : startsP open_ rest = false) (hclose : Stops (.p close :: rest))
    (hf : 2 * (bracketToks open_ close inputValueDefToks xs).length + 2 ≤ f) :
    optBracketed open_ close (parseInputValueDef f) f (bracketToks open_ close inputValueDefToks xs ++ rest) =
      some (xs.map eraseIV, rest) := by
  have hl := bracketToks_length open_ close inputValueDefToks xs
  have hc := listToks_length_count inputValueDefToks xs (fun x _ => inputValueDefToks_pos x)
  refine optBracketed_bracket open_ close _ inputValueDefToks eraseIV xs rest f hrest hclose (by omega) ?_ ?_
  · intro y hy r hsr
    have := listToks_length_mem inputValueDefToks xs y hy
    exact parse_inputValueDef y (List.all_eq_true.mp hwf y hy) r f hsr (by omega)
  · intro y _ r
    exact inputValueDefToks_head close y r

/-! ### field definitions, enum values -/

theorem parse_fieldDef (fd : FieldDef) (hwf : wfFieldDef fd = true) (rest : List LTok) (f : Nat) (hr : Stops rest)
    (hf : 2 * (fieldDefToks fd).length + 2 ≤ f) :
    parseFieldDef f (fieldDefToks fd ++ rest) = some (eraseFieldDef fd, rest) := by
  simp only [wfFieldDef, Bool.and_eq_true] at hwf
  obtain ⟨⟨hw1, hw2⟩, hw3⟩ := hwf
  simp only [fieldDefToks, argDefsToks_eq, List.length_cons, List.length_append] at hf
  have h1 := parse_ivList "(" ")" fd.args hw1 (LTok.p ":" :: (typeToks fd.ty ++ (dirsToks fd.dirs ++ rest))) f
    (by simp [startsP]) (Stops.close_paren _) (by omega)
  have h2 := parse_type' fd.ty hw2 (dirsToks fd.dirs ++ rest) f (by omega) (startsP_dirs "!" (by decide) _ _ hr.bang)
  have h3 := parse_dirs fd.dirs hw3 rest f (by omega) hr.paren hr.at_
  simp only [fieldDefToks, argDefsToks_eq, List.cons_append, List.append_assoc]
  simp [parseFieldDef, parseDesc_desc, h1, h2, h3, eraseFieldDef]

theorem fieldDefToks_head (close : String) (fd : FieldDef) (r : List LTok) :
    Stops (fieldDefToks fd ++ r) ∧ ∃ tok r', fieldDefToks fd ++ r = tok :: r' ∧ tok ≠ .p close := by
  simp only [fieldDefToks, List.cons_append, List.append_assoc]
  exact descToks_head _ _ _ _

theorem fieldDefToks_pos (fd : FieldDef) : 1 ≤ (fieldDefToks fd).length := by simp [fieldDefToks]; omega

theorem parse_enumValueDef (v : EnumValueDef) (hwf : wfEnumValue v = true) (rest : List LTok) (f : Nat)
    (hr : Stops rest) (hf : 2 * (enumValueDefToks v).length + 2 ≤ f) :
    parseEnumValueDef f (enumValueDefToks v ++ rest) = some (eraseEnumValue v, rest) := by
  simp only [wfEnumValue, Bool.and_eq_true] at hwf
  simp only [enumValueDefToks, List.length_cons, List.length_append] at hf
  have h3 := parse_dirs v.dirs hwf.2 rest f (by omega) hr.paren hr.at_
  simp only [enumValueDefToks, List.cons_append, List.append_assoc]
  simp [parseEnumValueDef, parseDesc_desc, hwf.1, h3, eraseEnumValue]

theorem enumValueDefToks_head (close : String) (v : EnumValueDef) (r : List LTok) :
    Stops (enumValueDefToks v ++ r) ∧ ∃ tok r', enumValueDefToks v ++ r = tok :: r' ∧ tok ≠ .p close := by
  simp only [enumValueDefToks, List.cons_append, List.append_assoc]
  exact descToks_head _ _ _ _

theorem enumValueDefToks_pos (v : EnumValueDef) : 1 ≤ (enumValueDefToks v).length := by simp [enumValueDefToks]; omega

theorem parse_fieldList (xs : List FieldDef) (hwf : xs.all wfFieldDef = true) (rest : List LTok)
    (f : Nat) (hrest : startsP "{" rest = false) (hf : 2 * (bracedToks fieldDefToks xs).length + 2 ≤ f) :
    optBracketed "{" "}" (parseFieldDef f) f (bracedToks fieldDefToks xs ++ rest) = some (xs.map eraseFieldDef, rest) := by
  rw [bracedToks_eq] at hf ⊢
  have hl := bracketToks_length "{" "}" fieldDefToks xs
  have hc := listToks_length_count fieldDefToks xs (fun x _ => fieldDefToks_pos x)
  refine optBracketed_bracket "{" "}" _ fieldDefToks eraseFieldDef xs rest f hrest (Stops.close_brace _) (by omega) ?_ ?_
  · intro y hy r hsr
    have := listToks_length_mem fieldDefToks xs y hy
    exact parse_fieldDef y (List.all_eq_true.mp hwf y hy) r f hsr (by omega)
  · intro y _ r
    exact fieldDefToks_head "}" y r

theorem parse_enumValueList (xs : List EnumValueDef) (hwf : xs.all wfEnumValue = true) (rest : List LTok)
    (f : Nat) (hrest : startsP "{" rest = false) (hf : 2 * (bracedToks enumValueDefToks xs).length + 2 ≤ f) :
    optBracketed "{" "}" (parseEnumValueDef f) f (bracedToks enumValueDefToks xs ++ rest) =
      some (xs.map eraseEnumValue, rest) := by
  rw [bracedToks_eq] at hf ⊢
  have hl := bracketToks_length "{" "}" enumValueDefToks xs
  have hc := listToks_length_count enumValueDefToks xs (fun x _ => enumValueDefToks_pos x)
  refine optBracketed_bracket "{" "}" _ enumValueDefToks eraseEnumValue xs rest f hrest (Stops.close_brace _)
    (by omega) ?_ ?_
  · intro y hy r hsr
    have := listToks_length_mem enumValueDefToks xs y hy
    exact parse_enumValueDef y (List.all_eq_true.mp hwf y hy) r f hsr (by omega)
  · intro y _ r
    exact enumValueDefToks_head "}" y r

theorem parse_inputList (xs : List InputValueDef) (hwf : xs.all wfIV = true) (rest : List LTok)
    (f : Nat) (hrest : startsP "{" rest = false) (hf : 2 * (bracedToks inputValueDefToks xs).length + 2 ≤ f) :
    optBracketed "{" "}" (parseInputValueDef f) f (bracedToks inputValueDefToks xs ++ rest) =
      some (xs.map eraseIV, rest) := by
  rw [bracedToks_eq] at hf ⊢
  exact parse_ivList "{" "}" xs hwf rest f hrest (Stops.close_brace _) hf

/-! ### `& A & B`, `| A | B` -/

theorem sepToks_length (sep : String) (l : List (Name × Pos)) : (sepToks sep l).length = 2 * l.length := by
  induction l with
  | nil => rfl
  | cons x xs ih => obtain ⟨n, p⟩ := x; simp [sepToks, ih]; omega

theorem sepNames_toks (sep : String) (rest : List LTok) (hr : startsP sep rest = false) :
    ∀ (l : List (Name × Pos)) (f : Nat), l.length + 1 ≤ f →
    sepNames sep f (sepToks sep l ++ rest) = some (eraseNames l, rest) := by
  intro l
  induction l with
  | nil =>
    intro f hf
    obtain ⟨g, rfl⟩ := succ_of_pos f (by omega)
    cases rest with
    | nil => simp [sepToks, sepNames, eraseNames]
    | cons tok r => simp [sepToks, sepNames, eraseNames, startsP_cons_false _ _ _ hr]
  | cons x xs ih =>
    intro f hf
    obtain ⟨g, rfl⟩ := succ_of_pos f (by omega)
    obtain ⟨n, p⟩ := x
    have := ih g (by simp at hf; omega)
    simp only [eraseNames] at this
    simp [sepToks, sepNames, this, eraseNames]

theorem sepNames1_toks (sep : String) (rest : List LTok) (hr : startsP sep rest = false) (x : Name × Pos)
    (l : List (Name × Pos)) (f : Nat) (hf : l.length + 2 ≤ f) :
    sepNames1 sep f (sepToks sep (x :: l) ++ rest) = some (eraseNames (x :: l), rest) := by
  have := sepNames_toks sep rest hr (x :: l) f (by simp; omega)
  obtain ⟨n, p⟩ := x
  simp only [sepToks, List.cons_append] at this ⊢
  unfold sepNames1
  simp only [this]
  simp [eraseNames]

theorem parse_implements (l : List (Name × Pos)) (rest : List LTok) (f : Nat) (hf : l.length + 2 ≤ f)
    (hr : startsP "&" rest = false) (hi : startsN "implements" rest = false) :
    parseImplements f (implementsToks l ++ rest) = some (eraseNames l, rest) := by
  cases l with
  | nil =>
    cases rest with
    | nil => simp [implementsToks, parseImplements, eraseNames]
    | cons tok r => simp [implementsToks, parseImplements, eraseNames, startsN_cons_false _ _ _ hi]
  | cons x xs =>
    have := sepNames1_toks "&" rest hr x xs f (by simp at hf; omega)
    simp [implementsToks, parseImplements, this]

theorem parse_members (l : List (Name × Pos)) (rest : List LTok) (f : Nat) (hf : l.length + 2 ≤ f)
    (hr : startsP "|" rest = false) (he : startsP "=" rest = false) :
    parseMembers f (membersToks l ++ rest) = some (eraseNames l, rest) := by
  cases l with
  | nil =>
    cases rest with
    | nil => simp [membersToks, parseMembers, eraseNames]
    | cons tok r => simp [membersToks, parseMembers, eraseNames, startsP_cons_false _ _ _ he]
  | cons x xs =>
    have := sepNames1_toks "|" rest hr x xs f (by simp at hf; omega)
    simp [membersToks, parseMembers, this]

theorem startsP_implements (s : String) (l : List (Name × Pos)) (rest : List LTok) (h : startsP s rest = false) :
    startsP s (implementsToks l ++ rest) = false := by
  cases l with
  | nil => simpa [implementsToks] using h
  | cons x xs => simp [implementsToks, startsP]

theorem implementsToks_length (l : List (Name × Pos)) : 2 * l.length ≤ (implementsToks l).length := by
  cases l with
  | nil => simp
  | cons x xs => simp only [implementsToks, List.length_cons, sepToks_length]; omega

theorem membersToks_length (l : List (Name × Pos)) : 2 * l.length ≤ (membersToks l).length := by
  cases l with
  | nil => simp
  | cons x xs => simp only [membersToks, List.length_cons, sepToks_length]; omega

end NitroVerif.C16
