import NitroVerif.Lemmas.PrintMap
/-!
# C06 — printer call sites: the operation printers (declaration file and JavaScript module)

Membership lemmas for `opTypeSites` / `opJsSites`: which calls a named operation, an anonymous operation and a fragment
contribute, and that nothing else is there.
-/
namespace NitroVerif.PrintMap
open NitroVerif.Gql

/-- the nodes of an executable document that the operation printers pass to `write_for`: the NAME token of a named
    operation (with its name), the definition of an anonymous operation (no name), the DEFINITION of a fragment (its
    position is the `fragment` keyword) with the fragment's name, and the selection sets of the operations (no name) -/
inductive ExecNode (doc : Doc) (selPos : List Pos) : Pos → Option String → Prop
  | opName {o : OperationDef} {n : Name} {p : Pos} : .op o ∈ doc → o.name = some (n, p) → ExecNode doc selPos p (some n)
  | opAnon {o : OperationDef} : .op o ∈ doc → o.name = none → ExecNode doc selPos o.pos none
  | frag {f : FragmentDef} : .frag f ∈ doc → ExecNode doc selPos f.pos (some f.name)
  | sel {p : Pos} : p ∈ selPos → ExecNode doc selPos p none
  | selDefault : ExecNode doc selPos {} none

theorem execNode_mono {doc doc' : Doc} {sp sp' : List Pos} (hd : ∀ x ∈ doc, x ∈ doc') (hs : ∀ x ∈ sp, x ∈ sp')
    {p : Pos} {n : Option String} (h : ExecNode doc sp p n) : ExecNode doc' sp' p n := by
  cases h with
  | opName h1 h2 => exact .opName (hd _ h1) h2
  | opAnon h1 h2 => exact .opAnon (hd _ h1) h2
  | frag h1 => exact .frag (hd _ h1)
  | sel h1 => exact .sel (hs _ h1)
  | selDefault => exact .selDefault

theorem namePosOf_node {doc : Doc} {sps : List Pos} {o : OperationDef} (ho : .op o ∈ doc) :
    ExecNode doc sps (namePosOf o).1 (namePosOf o).2 := by
  unfold namePosOf
  cases hn : o.name with
  | none => exact .opAnon ho hn
  | some np => obtain ⟨n, p⟩ := np; exact .opName ho hn

theorem opTypeOperationSites_nodes {doc : Doc} {sps : List Pos} {o : OperationDef} (ho : .op o ∈ doc) (opts : OpOpts)
    (sp : Pos) (hsp : ExecNode doc sps sp none) :
    ∀ op ∈ opTypeOperationSites opts o sp, ∃ t p n, op = .writeFor t p n ∧ ExecNode doc sps p n := by
  intro op hop
  have hn := namePosOf_node (sps := sps) ho
  unfold opTypeOperationSites at hop
  simp only [List.mem_cons, List.not_mem_nil, or_false] at hop
  rcases hop with rfl | rfl | rfl | rfl | rfl
  · exact ⟨_, _, _, rfl, hn⟩
  · exact ⟨_, _, _, rfl, hsp⟩
  · exact ⟨_, _, _, rfl, hn⟩
  · exact ⟨_, _, _, rfl, hn⟩
  · exact ⟨_, _, _, rfl, hsp⟩

theorem opTypeFragmentSites_nodes {doc : Doc} {sps : List Pos} {f : FragmentDef} (hf : .frag f ∈ doc) (opts : OpOpts) :
    ∀ op ∈ opTypeFragmentSites opts f, ∃ t p n, op = .writeFor t p n ∧ ExecNode doc sps p n := by
  intro op hop
  unfold opTypeFragmentSites at hop
  rcases List.mem_append.mp hop with h | h
  · simp only [List.mem_cons, List.not_mem_nil, or_false] at h
    rcases h with rfl | rfl | rfl <;> exact ⟨_, _, _, rfl, .frag hf⟩
  · split at h
    · simp only [List.mem_cons, List.not_mem_nil, or_false] at h
      subst h; exact ⟨_, _, _, rfl, .frag hf⟩
    · cases h

/-- every call of the projection passes a node of the document -/
theorem opTypeSites_nodes (opts : OpOpts) : ∀ (doc : Doc) (sps : List Pos),
    ∀ op ∈ opTypeSites opts doc sps, ∃ t p n, op = .writeFor t p n ∧ ExecNode doc sps p n := by
  intro doc
  induction doc with
  | nil => intro sps op hop; cases hop
  | cons d rest ih =>
    intro sps op hop
    have lift : ∀ sps', (∀ x ∈ sps', x ∈ sps) → (∃ t p n, op = POp.writeFor t p n ∧ ExecNode rest sps' p n) →
        ∃ t p n, op = POp.writeFor t p n ∧ ExecNode (d :: rest) sps p n := by
      rintro sps' hs ⟨t, p, n, e, h⟩
      exact ⟨t, p, n, e, execNode_mono (fun x hx => List.mem_cons_of_mem _ hx) hs h⟩
    cases d with
    | op o =>
      cases sps with
      | nil =>
        simp only [opTypeSites] at hop
        rcases List.mem_append.mp hop with h | h
        · exact opTypeOperationSites_nodes (by simp) opts {} .selDefault op h
        · exact lift [] (fun _ h => h) (ih [] op h)
      | cons sp sps' =>
        simp only [opTypeSites] at hop
        rcases List.mem_append.mp hop with h | h
        · exact opTypeOperationSites_nodes (by simp) opts sp (.sel (by simp)) op h
        · exact lift sps' (fun x hx => List.mem_cons_of_mem _ hx) (ih sps' op h)
    | frag f =>
      simp only [opTypeSites] at hop
      rcases List.mem_append.mp hop with h | h
      · exact opTypeFragmentSites_nodes (by simp) opts op h
      · exact lift sps (fun _ h => h) (ih sps op h)
    | imp i =>
      simp only [opTypeSites] at hop
      exact lift sps (fun _ h => h) (ih sps op hop)

/-- the calls of an operation are in the projection (with the selection-set position that is its turn) -/
theorem opTypeSites_operation (opts : OpOpts) : ∀ (doc : Doc) (sps : List Pos) (o : OperationDef), .op o ∈ doc →
    ∃ sp, ∀ op ∈ opTypeOperationSites opts o sp, op ∈ opTypeSites opts doc sps := by
  intro doc
  induction doc with
  | nil => intro sps o h; cases h
  | cons d rest ih =>
    intro sps o ho
    rcases List.mem_cons.mp ho with rfl | ho'
    · cases sps with
      | nil => exact ⟨{}, fun op h => by simp only [opTypeSites]; exact List.mem_append_left _ h⟩
      | cons sp sps' => exact ⟨sp, fun op h => by simp only [opTypeSites]; exact List.mem_append_left _ h⟩
    · cases d with
      | op o' =>
        cases sps with
        | nil =>
          obtain ⟨sp, h⟩ := ih [] o ho'
          exact ⟨sp, fun op hop => by simp only [opTypeSites]; exact List.mem_append_right _ (h op hop)⟩
        | cons sp0 sps' =>
          obtain ⟨sp, h⟩ := ih sps' o ho'
          exact ⟨sp, fun op hop => by simp only [opTypeSites]; exact List.mem_append_right _ (h op hop)⟩
      | frag f =>
        obtain ⟨sp, h⟩ := ih sps o ho'
        exact ⟨sp, fun op hop => by simp only [opTypeSites]; exact List.mem_append_right _ (h op hop)⟩
      | imp i =>
        obtain ⟨sp, h⟩ := ih sps o ho'
        exact ⟨sp, fun op hop => by simp only [opTypeSites]; exact h op hop⟩

theorem opTypeSites_fragment (opts : OpOpts) : ∀ (doc : Doc) (sps : List Pos) (f : FragmentDef), .frag f ∈ doc →
    ∀ op ∈ opTypeFragmentSites opts f, op ∈ opTypeSites opts doc sps := by
  intro doc
  induction doc with
  | nil => intro sps f h; cases h
  | cons d rest ih =>
    intro sps f hf op hop
    rcases List.mem_cons.mp hf with rfl | hf'
    · simp only [opTypeSites]; exact List.mem_append_left _ hop
    · cases d with
      | op o' =>
        cases sps with
        | nil => simp only [opTypeSites]; exact List.mem_append_right _ (ih [] f hf' op hop)
        | cons sp0 sps' => simp only [opTypeSites]; exact List.mem_append_right _ (ih sps' f hf' op hop)
      | frag f' => simp only [opTypeSites]; exact List.mem_append_right _ (ih sps f hf' op hop)
      | imp i => simp only [opTypeSites]; exact ih sps f hf' op hop

/-! ### the JavaScript module -/

theorem opJsSites_nodes (opts : OpOpts) : ∀ (doc : Doc),
    ∀ op ∈ opJsSites opts doc, ∃ t p n, op = .writeFor t p n ∧ ExecNode doc [] p n := by
  intro doc op hop
  induction doc with
  | nil => cases hop
  | cons d rest ih =>
    have lift : (∃ t p n, op = POp.writeFor t p n ∧ ExecNode rest [] p n) →
        ∃ t p n, op = POp.writeFor t p n ∧ ExecNode (d :: rest) [] p n := by
      rintro ⟨t, p, n, e, h⟩
      exact ⟨t, p, n, e, execNode_mono (fun x hx => List.mem_cons_of_mem _ hx) (fun _ h => h) h⟩
    cases d with
    | op o =>
      simp only [opJsSites, List.mem_cons] at hop
      rcases hop with rfl | h
      · exact ⟨_, _, _, rfl, namePosOf_node (by simp)⟩
      · exact lift (ih h)
    | frag f =>
      simp only [opJsSites, List.mem_cons] at hop
      rcases hop with rfl | h
      · exact ⟨_, _, _, rfl, .frag (by simp)⟩
      · exact lift (ih h)
    | imp i =>
      simp only [opJsSites] at hop
      exact lift (ih hop)

theorem opJsSites_operation (opts : OpOpts) : ∀ (doc : Doc) (o : OperationDef), .op o ∈ doc →
    POp.writeFor (operationVariableName opts o) (namePosOf o).1 (namePosOf o).2 ∈ opJsSites opts doc := by
  intro doc
  induction doc with
  | nil => intro o h; cases h
  | cons d rest ih =>
    intro o ho
    rcases List.mem_cons.mp ho with rfl | ho'
    · simp [opJsSites]
    · cases d with
      | op o' => simp only [opJsSites]; exact List.mem_cons_of_mem _ (ih o ho')
      | frag f => simp only [opJsSites]; exact List.mem_cons_of_mem _ (ih o ho')
      | imp i => simp only [opJsSites]; exact ih o ho'

theorem opJsSites_fragment (opts : OpOpts) : ∀ (doc : Doc) (f : FragmentDef), .frag f ∈ doc →
    POp.writeFor (f.name ++ opts.fragmentVariableSuffix) f.pos (some f.name) ∈ opJsSites opts doc := by
  intro doc
  induction doc with
  | nil => intro f h; cases h
  | cons d rest ih =>
    intro f hf
    rcases List.mem_cons.mp hf with rfl | hf'
    · simp [opJsSites]
    · cases d with
      | op o' => simp only [opJsSites]; exact List.mem_cons_of_mem _ (ih f hf')
      | frag f' => simp only [opJsSites]; exact List.mem_cons_of_mem _ (ih f hf')
      | imp i => simp only [opJsSites]; exact ih f hf'

end NitroVerif.PrintMap
