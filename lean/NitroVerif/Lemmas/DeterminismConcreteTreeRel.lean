/-
C17 (concrete part 3b): the relation "same selection tree up to the order of the branches of every object node"
(`TreeRel`), and the merge functions of `deep_merge.rs` respect it.
Core Lean only.
-/
import NitroVerif.Lemmas.DeterminismConcreteRel
import NitroVerif.Lemmas.DeterminismConcreteOpTypes
namespace NitroVerif.DeterminismOpTypes
open NitroVerif.Gql NitroVerif.OpTypes NitroVerif.DeterminismRel
open NitroVerif.DeterminismDecls (RelList relList_refl relList_map relList_append)

mutual
/-- the same selection tree up to the order of the branches of every object node (at every depth) -/
def TreeRel : SelTree → SelTree → Prop
  | .nonNull a, t => ∃ b, t = .nonNull b ∧ TreeRel a b
  | .list a, t => ∃ b, t = .list b ∧ TreeRel a b
  | .object bs, t => ∃ bs', t = .object bs' ∧ BranchesRel bs bs'
/-- the second list is a permutation of the first up to `BranchRel` -/
def BranchesRel : List Branch → List Branch → Prop
  | [], bs' => bs' = []
  | b :: rest, bs' => ∃ b' l1 l2, bs' = l1 ++ b' :: l2 ∧ BranchRel b b' ∧ BranchesRel rest (l1 ++ l2)
/-- same type name, same variable assignment, fields pairwise related IN THE SAME ORDER -/
def BranchRel : Branch → Branch → Prop
  | .mk n v un al, b' => ∃ un' al', b' = .mk n v un' al' ∧ FieldsRel un un' ∧ FieldsRel al al'
def FieldsRel : List SField → List SField → Prop
  | [], fs' => fs' = []
  | f :: fs, fs' => ∃ f' r, fs' = f' :: r ∧ FieldRel f f' ∧ FieldsRel fs r
def FieldRel : SField → SField → Prop
  | .empty n, f' => f' = .empty n
  | .leaf n t b, f' => f' = .leaf n t b
  | .object n sel, f' => ∃ sel', f' = .object n sel' ∧ TreeRel sel sel'
end

theorem fieldsRel_iff : ∀ {fs fs' : List SField}, FieldsRel fs fs' ↔ RelList FieldRel fs fs'
  | [], fs' => by rw [FieldsRel, relList_nil_left]
  | f :: fs, fs' => by
    rw [FieldsRel, relList_cons_left]
    constructor
    · rintro ⟨f', r, he, h1, h2⟩; exact ⟨f', r, he, h1, fieldsRel_iff.mp h2⟩
    · rintro ⟨f', r, he, h1, h2⟩; exact ⟨f', r, he, h1, fieldsRel_iff.mpr h2⟩

theorem branchesRel_iff : ∀ {bs bs' : List Branch}, BranchesRel bs bs' ↔ PermRel BranchRel bs bs'
  | [], bs' => by
    rw [BranchesRel]
    constructor
    · rintro rfl; exact .nil
    · intro h; exact h.nil_left
  | b :: rest, bs' => by
    rw [BranchesRel]
    constructor
    · rintro ⟨b', l1, l2, rfl, hb, hr⟩
      have := (PermRel.cons hb (branchesRel_iff.mp hr))
      exact this.perm_right List.perm_middle.symm
    · rintro ⟨g, hg, hr⟩
      -- `b` sits somewhere in `g`; the element of `bs'` at that place is its partner
      have hbg : b ∈ g := hg.mem_iff.mp List.mem_cons_self
      obtain ⟨g1, g2, rfl⟩ := List.append_of_mem hbg
      have hrest : rest.Perm (g1 ++ g2) := (List.perm_cons b).mp (hg.trans List.perm_middle)
      -- split `bs'` along `g1 ++ b :: g2`
      have hsplit : ∀ (g1 : List Branch) (bs' : List Branch), RelList BranchRel (g1 ++ b :: g2) bs' →
          ∃ l1 b' l2, bs' = l1 ++ b' :: l2 ∧ BranchRel b b' ∧ RelList BranchRel (g1 ++ g2) (l1 ++ l2) := by
        intro g1
        induction g1 with
        | nil =>
          intro bs' h
          obtain ⟨b', r, rfl, h1, h2⟩ := relList_cons_left.mp h
          exact ⟨[], b', r, rfl, h1, h2⟩
        | cons x g1 ih =>
          intro bs' h
          obtain ⟨x', r, rfl, h1, h2⟩ := relList_cons_left.mp h
          obtain ⟨l1, b', l2, rfl, hb, hr⟩ := ih r h2
          exact ⟨x' :: l1, b', l2, rfl, hb, h1, hr⟩
      obtain ⟨l1, b', l2, rfl, hb, hr'⟩ := hsplit g1 bs' hr
      exact ⟨b', l1, l2, rfl, hb, branchesRel_iff.mpr ⟨g1 ++ g2, hrest, hr'⟩⟩

theorem branchRel_iff {n n' : Name} {v v' : List (Name × Bool)} {un al un' al' : List SField} :
    BranchRel (.mk n v un al) (.mk n' v' un' al') ↔
      n = n' ∧ v = v' ∧ RelList FieldRel un un' ∧ RelList FieldRel al al' := by
  rw [BranchRel]
  constructor
  · rintro ⟨un'', al'', he, h1, h2⟩
    cases he
    exact ⟨rfl, rfl, fieldsRel_iff.mp h1, fieldsRel_iff.mp h2⟩
  · rintro ⟨rfl, rfl, h1, h2⟩
    exact ⟨un', al', rfl, fieldsRel_iff.mpr h1, fieldsRel_iff.mpr h2⟩

theorem BranchRel.typeName {b b' : Branch} (h : BranchRel b b') : b.typeName = b'.typeName := by
  cases b; cases b'
  exact (branchRel_iff.mp h).1

theorem BranchRel.vars {b b' : Branch} (h : BranchRel b b') : b.vars = b'.vars := by
  cases b; cases b'
  exact (branchRel_iff.mp h).2.1

theorem BranchRel.unaliased {b b' : Branch} (h : BranchRel b b') : RelList FieldRel b.unaliased b'.unaliased := by
  cases b; cases b'
  exact (branchRel_iff.mp h).2.2.1

theorem BranchRel.aliased {b b' : Branch} (h : BranchRel b b') : RelList FieldRel b.aliased b'.aliased := by
  cases b; cases b'
  exact (branchRel_iff.mp h).2.2.2

theorem treeRel_object {bs bs' : List Branch} : TreeRel (.object bs) (.object bs') ↔ PermRel BranchRel bs bs' := by
  rw [TreeRel, ← branchesRel_iff]
  constructor
  · rintro ⟨bs'', he, h⟩; cases he; exact h
  · intro h; exact ⟨bs', rfl, h⟩

theorem treeRel_nonNull {a b : SelTree} : TreeRel (.nonNull a) (.nonNull b) ↔ TreeRel a b := by
  rw [TreeRel]
  constructor
  · rintro ⟨b', he, h⟩; cases he; exact h
  · intro h; exact ⟨b, rfl, h⟩

theorem treeRel_list {a b : SelTree} : TreeRel (.list a) (.list b) ↔ TreeRel a b := by
  rw [TreeRel]
  constructor
  · rintro ⟨b', he, h⟩; cases he; exact h
  · intro h; exact ⟨b, rfl, h⟩

theorem FieldRel.name {f f' : SField} (h : FieldRel f f') : f.name = f'.name := by
  cases f with
  | empty n => rw [FieldRel] at h; rw [h]
  | leaf n t b => rw [FieldRel] at h; rw [h]
  | object n sel => rw [FieldRel] at h; obtain ⟨sel', rfl, _⟩ := h; rfl

mutual
theorem treeRel_refl : ∀ t : SelTree, TreeRel t t
  | .nonNull a => treeRel_nonNull.mpr (treeRel_refl a)
  | .list a => treeRel_list.mpr (treeRel_refl a)
  | .object bs => treeRel_object.mpr (.of_rel (branchesRefl bs))
theorem branchesRefl : ∀ bs : List Branch, RelList BranchRel bs bs
  | [] => trivial
  | b :: bs => ⟨branchRel_refl b, branchesRefl bs⟩
theorem branchRel_refl : ∀ b : Branch, BranchRel b b
  | .mk _ _ un al => branchRel_iff.mpr ⟨rfl, rfl, fieldsRefl un, fieldsRefl al⟩
theorem fieldsRefl : ∀ fs : List SField, RelList FieldRel fs fs
  | [] => trivial
  | f :: fs => ⟨fieldRel_refl f, fieldsRefl fs⟩
theorem fieldRel_refl : ∀ f : SField, FieldRel f f
  | .empty _ => by rw [FieldRel]
  | .leaf _ _ _ => by rw [FieldRel]
  | .object n sel => by rw [FieldRel]; exact ⟨sel, rfl, treeRel_refl sel⟩
end

theorem fieldRel_empty {n : Name} {f' : SField} : FieldRel (.empty n) f' ↔ f' = .empty n := by rw [FieldRel]
theorem fieldRel_leaf {n : Name} {t : GType} {b : Bool} {f' : SField} :
    FieldRel (.leaf n t b) f' ↔ f' = .leaf n t b := by rw [FieldRel]
theorem fieldRel_object {n : Name} {s : SelTree} {f' : SField} :
    FieldRel (.object n s) f' ↔ ∃ s', f' = .object n s' ∧ TreeRel s s' := by rw [FieldRel]

/-! ### the merge functions respect the relation -/

/-- a pair of tree-merging functions that map related inputs to related results -/
def MtRel (mt mt' : SelTree → SelTree → Except Panic SelTree) : Prop :=
  ∀ a a' b b', TreeRel a a' → TreeRel b b' → ExRel TreeRel (mt a b) (mt' a' b')

theorem mergeFieldsWith_rel {mt mt'} (hmt : MtRel mt mt') {f f' g g' : SField} (hf : FieldRel f f')
    (hg : FieldRel g g') : ExRel FieldRel (mergeFieldsWith mt f g) (mergeFieldsWith mt' f' g') := by
  cases f with
  | empty n =>
    rw [fieldRel_empty.mp hf]
    cases g with
    | empty m => rw [fieldRel_empty.mp hg]; exact fieldRel_refl _
    | leaf m t b => rw [fieldRel_leaf.mp hg]; exact fieldRel_refl _
    | object m s =>
      obtain ⟨s', rfl, hs⟩ := fieldRel_object.mp hg
      exact fieldRel_object.mpr ⟨s', rfl, hs⟩
  | leaf n t b =>
    rw [fieldRel_leaf.mp hf]
    cases g with
    | empty m => rw [fieldRel_empty.mp hg]; exact fieldRel_refl _
    | leaf m t b => rw [fieldRel_leaf.mp hg]; exact fieldRel_refl _
    | object m s =>
      obtain ⟨s', rfl, hs⟩ := fieldRel_object.mp hg
      trivial
  | object n l =>
    obtain ⟨l', rfl, hl⟩ := fieldRel_object.mp hf
    cases g with
    | empty m => rw [fieldRel_empty.mp hg]; exact fieldRel_object.mpr ⟨l', rfl, hl⟩
    | leaf m t b => rw [fieldRel_leaf.mp hg]; trivial
    | object m r =>
      obtain ⟨r', rfl, hr⟩ := fieldRel_object.mp hg
      simp only [mergeFieldsWith]
      apply exRel_bind (hmt _ _ _ _ hl hr)
      intro a b hab
      exact fieldRel_object.mpr ⟨b, rfl, hab⟩

theorem mergeInto_rel {mt mt'} (hmt : MtRel mt mt') {f f' : SField} (hf : FieldRel f f') :
    ∀ {gs gs' : List SField}, RelList FieldRel gs gs' →
      ExRel (RelList FieldRel) (mergeInto mt f gs) (mergeInto mt' f' gs')
  | [], [], _ => by simp only [mergeInto]; exact exRel_ok ⟨hf, trivial⟩
  | g :: gs, g' :: gs', h => by
    simp only [mergeInto, ← h.1.name, ← hf.name]
    split
    · apply exRel_bind (mergeFieldsWith_rel hmt h.1 hf)
      intro a b hab
      exact exRel_ok ⟨hab, h.2⟩
    · apply exRel_bind (mergeInto_rel hmt hf h.2)
      intro a b hab
      exact exRel_ok ⟨h.1, hab⟩
  | [], _ :: _, h => h.elim
  | _ :: _, [], h => h.elim

theorem deepMergeGo_rel {mt mt'} (hmt : MtRel mt mt') :
    ∀ {fs fs' : List SField}, RelList FieldRel fs fs' → ∀ {acc acc' : List SField}, RelList FieldRel acc acc' →
      ExRel (RelList FieldRel) (deepMergeGo mt fs acc) (deepMergeGo mt' fs' acc')
  | [], [], _, _, _, hacc => by simp only [deepMergeGo]; exact exRel_ok hacc
  | f :: fs, f' :: fs', h, acc, acc', hacc => by
    have hany : acc.any (·.name == f.name) = acc'.any (·.name == f'.name) :=
      relList_any (fun a b hab => by rw [hab.name, h.1.name]) hacc
    simp only [deepMergeGo, hany]
    split
    · apply exRel_bind (mergeInto_rel hmt h.1 hacc)
      intro a b hab
      exact deepMergeGo_rel hmt h.2 hab
    · exact deepMergeGo_rel hmt h.2 (relList_append hacc ⟨h.1, trivial⟩)
  | [], _ :: _, h, _, _, _ => h.elim
  | _ :: _, [], h, _, _, _ => h.elim

theorem deepMergeWith_rel {mt mt'} (hmt : MtRel mt mt') {fs fs' : List SField} (h : RelList FieldRel fs fs') :
    ExRel (RelList FieldRel) (deepMergeWith mt fs) (deepMergeWith mt' fs') :=
  deepMergeGo_rel hmt h (acc := []) (acc' := []) trivial

theorem mergeBranchesWith_rel {mt mt'} (hmt : MtRel mt mt') {left left' right right' : List Branch}
    (hl : PermRel BranchRel left left') (hr : PermRel BranchRel right right') :
    ExRel (PermRel BranchRel) (mergeBranchesWith mt left right) (mergeBranchesWith mt' left' right') := by
  unfold mergeBranchesWith
  apply exRel_bind (R := PermRel (PermRel BranchRel))
  · apply exRel_mapM_permRel _ hl
    intro lb lb' hlb
    have hsame : PermRel BranchRel (right.filter (·.typeName == lb.typeName))
        (right'.filter (·.typeName == lb'.typeName)) :=
      hr.filter fun a b hab => by rw [hab.typeName, hlb.typeName]
    have hemp := hsame.isEmpty
    dsimp only
    simp only [hemp]
    split
    · exact exRel_ok (.of_rel ⟨hlb, trivial⟩)
    · apply exRel_filterMapM_permRel _ hsame
      intro rb rb' hrb
      rw [hlb.vars, hrb.vars, hlb.typeName]
      cases unifyVars lb'.vars rb'.vars with
      | none => exact exRel_ok (by trivial : OptRel BranchRel none none)
      | some vars =>
        apply exRel_bind (deepMergeWith_rel hmt (relList_append hlb.unaliased hrb.unaliased))
        intro un un' hun
        apply exRel_bind (deepMergeWith_rel hmt (relList_append hlb.aliased hrb.aliased))
        intro al al' hal
        exact exRel_ok (show OptRel BranchRel (some _) (some _) from branchRel_iff.mpr ⟨rfl, rfl, hun, hal⟩)
  · intro merged merged' hm
    apply exRel_ok
    apply hm.flatten.append
    apply hr.filter
    intro rb rb' hrb
    rw [hl.any (q := fun b => b.typeName == rb'.typeName) fun a b hab => by rw [hab.typeName, hrb.typeName]]

theorem mergeTrees_rel : ∀ fuel, MtRel (mergeTrees fuel) (mergeTrees fuel)
  | 0 => fun _ _ _ _ _ _ => exRel_error _ _
  | fuel + 1 => by
    intro a a' b b' ha hb
    cases a with
    | nonNull l =>
      obtain ⟨l', rfl, hl⟩ := (by rw [TreeRel] at ha; exact ha)
      cases b with
      | nonNull r =>
        obtain ⟨r', rfl, hr⟩ := (by rw [TreeRel] at hb; exact hb)
        simp only [mergeTrees]
        apply exRel_bind (mergeTrees_rel fuel _ _ _ _ hl hr)
        intro x y hxy
        exact exRel_ok (treeRel_nonNull.mpr hxy)
      | list r =>
        obtain ⟨r', rfl, hr⟩ := (by rw [TreeRel] at hb; exact hb)
        exact exRel_error _ _
      | object r =>
        obtain ⟨r', rfl, hr⟩ := (by rw [TreeRel] at hb; exact hb)
        exact exRel_error _ _
    | list l =>
      obtain ⟨l', rfl, hl⟩ := (by rw [TreeRel] at ha; exact ha)
      cases b with
      | nonNull r =>
        obtain ⟨r', rfl, hr⟩ := (by rw [TreeRel] at hb; exact hb)
        exact exRel_error _ _
      | list r =>
        obtain ⟨r', rfl, hr⟩ := (by rw [TreeRel] at hb; exact hb)
        simp only [mergeTrees]
        apply exRel_bind (mergeTrees_rel fuel _ _ _ _ hl hr)
        intro x y hxy
        exact exRel_ok (treeRel_list.mpr hxy)
      | object r =>
        obtain ⟨r', rfl, hr⟩ := (by rw [TreeRel] at hb; exact hb)
        exact exRel_error _ _
    | object l =>
      obtain ⟨l', rfl, hl⟩ := (by rw [TreeRel] at ha; exact ha)
      cases b with
      | nonNull r =>
        obtain ⟨r', rfl, hr⟩ := (by rw [TreeRel] at hb; exact hb)
        exact exRel_error _ _
      | list r =>
        obtain ⟨r', rfl, hr⟩ := (by rw [TreeRel] at hb; exact hb)
        exact exRel_error _ _
      | object r =>
        obtain ⟨r', rfl, hr⟩ := (by rw [TreeRel] at hb; exact hb)
        simp only [mergeTrees]
        apply exRel_bind (mergeBranchesWith_rel (mergeTrees_rel fuel) (branchesRel_iff.mp hl) (branchesRel_iff.mp hr))
        intro x y hxy
        exact exRel_ok (treeRel_object.mpr hxy)

theorem deepMerge_rel (mfuel : Nat) {fs fs' : List SField} (h : RelList FieldRel fs fs') :
    ExRel (RelList FieldRel) (deepMerge mfuel fs) (deepMerge mfuel fs') :=
  deepMergeWith_rel (mergeTrees_rel mfuel) h

end NitroVerif.DeterminismOpTypes
