/-
C15: every JSDoc comment of the schema declaration file (`SchemaDecls.allDocs`: type-level AND field-level, in text
order) on the two routes.  `type_system_to_ast` writes no directives, so the JSON route's comments are the SDL route's
with the `@deprecated` tags gone; descriptions of types, fields, input fields and of the schema definition are kept.
-/
import NitroVerif.Lemmas.RoutesResolversMeta
import NitroVerif.Lemmas.RoutesResolvers
namespace NitroVerif.Bridge
open NitroVerif NitroVerif.Gql NitroVerif.SchemaIR NitroVerif.AstSchema NitroVerif.SchemaDecls NitroVerif.DeclCfg
open NitroVerif.IntrospectSpec NitroVerif.Routes NitroVerif.CliSchema NitroVerif.Ts

/-- the JSDoc comments of one definition WITHOUT the `@deprecated` tags -/
def plainDocs (x : Ctx) (td : TypeDef) : List String :=
  match td.kind with
  | .object =>
    if x.target.isInput then [] else
    optDoc td.desc ++ td.fields.flatMap fun f => optDoc (JsDoc.fieldDescription f.desc none)
  | .input =>
    if x.target.isOutput then [] else
    optDoc td.desc ++ td.inputs.flatMap fun f => optDoc (JsDoc.fieldDescription f.desc none)
  | .interface | .union => if x.target.isInput then [] else optDoc td.desc
  | _ => optDoc td.desc

theorem twin_inputs (td : TypeDef) (hk : td.kind = .input) :
    (twin td).inputs = td.inputs.map fun f => unconvIV (convIV f) := by
  simp only [twin, convTypeDef, unconvTypeDef, hk, List.map_map, Function.comp_def]

theorem flatMap_map' {α β γ : Type} (f : α → β) (g : β → List γ) (l : List α) :
    (l.map f).flatMap g = l.flatMap fun a => g (f a) := by
  induction l with
  | nil => rfl
  | cons a r ih => simp only [List.map_cons, List.flatMap_cons, ih]

/-- the comments of a twin are the comments of the definition without `@deprecated` -/
theorem fieldDocs_twin (x y : Ctx) (ht : x.target = y.target) (td : TypeDef) :
    fieldDocs x (twin td) = plainDocs y td := by
  unfold fieldDocs plainDocs
  rw [twin_kind, twin_desc, ht]
  cases hk : td.kind <;> simp only []
  · rw [twin_fields td hk, flatMap_map']
    rfl
  · rw [twin_inputs td hk, flatMap_map']
    rfl

/-- no field / input field of the definition carries `@deprecated` -/
def noDeprecation (td : TypeDef) : Bool :=
  td.fields.all (fun f => (SchemaDecls.deprecationOf f.dirs).isNone) && td.inputs.all (fun f => (SchemaDecls.deprecationOf f.dirs).isNone)

theorem flatMap_congr_mem {α β : Type} {f g : α → List β} {l : List α} (h : ∀ x ∈ l, f x = g x) :
    l.flatMap f = l.flatMap g := by
  induction l with
  | nil => rfl
  | cons a r ih => simp only [List.flatMap_cons, h a (by simp), ih fun x hx => h x (by simp [hx])]

theorem plainDocs_eq (x : Ctx) (td : TypeDef) (h : noDeprecation td = true) : plainDocs x td = fieldDocs x td := by
  simp only [noDeprecation, Bool.and_eq_true, List.all_eq_true, Option.isNone_iff_eq_none] at h
  unfold fieldDocs plainDocs
  cases td.kind <;> simp only []
  · congr 2
    exact flatMap_congr_mem fun f hf => by rw [h.1 f hf]
  · congr 2
    exact flatMap_congr_mem fun f hf => by rw [h.2 f hf]

/-! ### definitions that carry no comment -/

/-- no description on the definition, its fields and its input fields, no `@deprecated` -/
def silent (td : TypeDef) : Bool :=
  td.desc.isNone && td.fields.all (fun f => f.desc.isNone && (SchemaDecls.deprecationOf f.dirs).isNone) &&
    td.inputs.all (fun f => f.desc.isNone && (SchemaDecls.deprecationOf f.dirs).isNone)

theorem flatMap_nil_mem {α β : Type} {f : α → List β} {l : List α} (h : ∀ x ∈ l, f x = []) : l.flatMap f = [] := by
  induction l with
  | nil => rfl
  | cons a r ih => simp only [List.flatMap_cons, h a (by simp), ih fun x hx => h x (by simp [hx]), List.append_nil]

theorem fieldDocs_silent (x : Ctx) (td : TypeDef) (h : silent td = true) : fieldDocs x td = [] := by
  simp only [silent, Bool.and_eq_true, List.all_eq_true, Option.isNone_iff_eq_none] at h
  obtain ⟨⟨hd, hf⟩, hi⟩ := h
  have h1 : td.fields.flatMap (fun f => optDoc (JsDoc.fieldDescription f.desc (SchemaDecls.deprecationOf f.dirs))) = [] :=
    flatMap_nil_mem fun f hm => by rw [(hf f hm).1, (hf f hm).2]; rfl
  have h2 : td.inputs.flatMap (fun f => optDoc (JsDoc.fieldDescription f.desc (SchemaDecls.deprecationOf f.dirs))) = [] :=
    flatMap_nil_mem fun f hm => by rw [(hi f hm).1, (hi f hm).2]; rfl
  unfold fieldDocs
  rw [hd, h1, h2]
  cases td.kind <;> simp [optDoc]

theorem introDefs_silent : ∀ td ∈ introDefs, silent td = true := by decide

theorem scalarDefJ_silent (n : String) : silent (scalarDefJ n) = true := rfl
theorem scalarDefS_silent (n : String) : silent (scalarDefS n) = true := rfl

theorem flatMap_silent (x : Ctx) (l : List TypeDef) (h : ∀ td ∈ l, silent td = true) : l.flatMap (fieldDocs x) = [] :=
  flatMap_nil_mem fun td hm => fieldDocs_silent x td (h td hm)

/-! ### the comment of the metadata object -/

theorem metadataDocs_docSdl (M : TsDoc) :
    metadataDocs (docSdl M) =
      match (schemaDefs M).head? with
      | some d => d.roots.flatMap fun _ => optDoc d.desc
      | none => [] := by
  have h : metadataDocs (docSdl M) =
      match (Gql.Schema.mk (docSdl M)).schemaDefs.head? with
      | some d => d.roots.flatMap fun _ => optDoc d.desc
      | none => [] := by
    unfold metadataDocs Gql.Schema.schemaDefs
    rw [List.head?_filterMap]
    rfl
  rw [h, gql_schemaDefs_docSdl]

theorem flatMap_const_length {α β : Type} (l : List α) (c : List β) :
    (l.flatMap fun _ => c) = (List.replicate l.length c).flatten := by
  induction l with
  | nil => rfl
  | cons a r ih => simp only [List.flatMap_cons, ih, List.length_cons, List.replicate_succ, List.flatten_cons]

theorem metadataDocs_docJson (M : TsDoc) :
    metadataDocs (docJson M) = (List.replicate (jsonMetaFields (specRoots M)).length (optDoc (specDesc M))).flatten := by
  have h : metadataDocs (docJson M) = (rootEntries (jsonSide M).roots).flatMap fun _ => optDoc (jsonSide M).desc := rfl
  have hd : (jsonSide M).desc = specDesc M := by
    simp [jsonSide, addBuiltinScalars, Introspect.readBack, specSchema]
  rw [h, (jsonSide_roots M).1, hd, flatMap_const_length, ← rootEntries_fields, List.length_map]

/-- the metadata object carries the same comments on both routes (one copy of the schema description per key) -/
theorem metadataDocs_routes (M : TsDoc) (hk : RootKindsDistinct M) :
    metadataDocs (docJson M) = metadataDocs (docSdl M) := by
  rw [metadataDocs_docJson, metadataDocs_docSdl]
  cases hs : schemaDefs M with
  | nil =>
    have : specDesc M = none := by simp [specDesc, hs]
    simp [this, optDoc]
  | cons d rest =>
    have hr : specRoots M = setRoots {} d.roots := by simp [specRoots, hs]
    have hdesc : specDesc M = d.desc := by simp [specDesc, hs]
    have hlen := (jsonMetaFields_setRoots d.roots (hk d (by simp [hs]))).length_eq
    rw [hr, hdesc, hlen, List.length_map]
    simp only [List.head?_cons]
    rw [flatMap_const_length]

/-! ### all comments of the file -/

/-- comments of the definitions of `M` in namespace `t`, with / without the `@deprecated` tags -/
def userDocs (c : Cfg) (M : TsDoc) (t : Target) : List String :=
  (typeDefsOf M).flatMap (fieldDocs (Ctx.new c (docSdl M) t))
def userPlainDocs (c : Cfg) (M : TsDoc) (t : Target) : List String :=
  (typeDefsOf M).flatMap (plainDocs (Ctx.new c (docSdl M) t))

theorem allDocs_docSdl (c : Cfg) (M : TsDoc) :
    allDocs c (docSdl M) = metadataDocs (docSdl M) ++ Target.all.flatMap (userDocs c M) := by
  unfold allDocs
  congr 1
  apply flatMap_congr_mem
  intro t _
  rw [typeDefsOf_docSdl_closed, List.flatMap_append,
    flatMap_silent _ (builtinScalarNames.map scalarDefS) (by
      intro td h; obtain ⟨n, _, rfl⟩ := List.mem_map.mp h; exact scalarDefS_silent n),
    List.append_nil]
  rfl

theorem allDocs_docJson (c : Cfg) {M : TsDoc} (h : OrderOk M) :
    allDocs c (docJson M) = metadataDocs (docJson M) ++ Target.all.flatMap (userPlainDocs c M) := by
  unfold allDocs
  congr 1
  apply flatMap_congr_mem
  intro t _
  have hs : ∀ l : List String, (l.map scalarDefJ).flatMap (fieldDocs (Ctx.new c (docJson M) t)) = [] := fun l =>
    flatMap_silent _ _ (by intro td h; obtain ⟨n, _, rfl⟩ := List.mem_map.mp h; exact scalarDefJ_silent n)
  rw [typeDefsOf_docJson_closed h, List.flatMap_append, List.flatMap_append, List.flatMap_append, hs, hs,
    flatMap_silent _ introDefs introDefs_silent, List.append_nil, List.append_nil, List.append_nil, flatMap_map']
  unfold userPlainDocs
  exact flatMap_congr_mem fun td _ => fieldDocs_twin _ _ rfl td

theorem userPlainDocs_eq (c : Cfg) (M : TsDoc) (t : Target) (h : ∀ td ∈ typeDefsOf M, noDeprecation td = true) :
    userPlainDocs c M t = userDocs c M t :=
  flatMap_congr_mem fun td hm => plainDocs_eq _ td (h td hm)

end NitroVerif.Bridge
