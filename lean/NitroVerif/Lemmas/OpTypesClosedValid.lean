/-
C01/C02, second stage: the schema-side hypotheses from C03's `SchemaValid`.

`Valid.SchemaValid S` (Spec/Valid.lean: the decidable "the schema passed `check`" of C03/C04 — unique type names, field /
argument / input-field / member types defined and of a usable kind, root types objects, …) gives `schemaOkB S`
(Lemmas/StagesGenA.lean) and the schema part of C10's `DocOK`; what `DocOK` adds is that no type name starts with `__`
(the schema checker reports those; here the decidable `noDunderTypeNamesB`) and the two conditions on the configured
scalar texts (`bagOK`, `parses`).
-/
import NitroVerif.Lemmas.OpTypesClosedHyp
import NitroVerif.Lemmas.StagesGenA
namespace NitroVerif.OpTypes.Closed
open NitroVerif.Gql NitroVerif.Ts NitroVerif.DeclCfg NitroVerif.SchemaDecls NitroVerif.Valid NitroVerif.CheckOp

/-- the name starts with two underscores (reserved by the specification) -/
def dunder (s : String) : Bool := ['_', '_'].isPrefixOf s.toList

/-- no type name starts with `__` -/
def noDunderTypeNamesB (S : Schema) : Bool := S.typeDefs.all fun t => !dunder t.name

theorem dunder_of_tmp {s : String} (h : hasTmpPrefix s = true) : dunder s = true := by
  unfold hasTmpPrefix at h
  unfold dunder
  generalize s.toList = l at h ⊢
  match l, h with
  | c1 :: c2 :: rest, h =>
    have e : "__tmp_".toList = ['_', '_', 't', 'm', 'p', '_'] := by decide
    rw [e] at h
    simp only [List.isPrefixOf, Bool.and_eq_true] at h ⊢
    exact ⟨h.1, h.2.1, trivial⟩
  | [c1], h => have e : "__tmp_".toList = ['_', '_', 't', 'm', 'p', '_'] := by decide
               rw [e] at h; simp [List.isPrefixOf] at h
  | [], h => have e : "__tmp_".toList = ['_', '_', 't', 'm', 'p', '_'] := by decide
             rw [e] at h; simp [List.isPrefixOf] at h

theorem dunder_of_prelude {s : String} (h : s ∈ preludeNames) : dunder s = true := by
  simp only [preludeNames, List.mem_cons, List.not_mem_nil, or_false] at h
  rcases h with rfl | rfl | rfl <;> decide

/-- the conditions on the configured scalar texts (C10): identifiers of the texts avoid the printer's own names, the
    supplied parses mention only identifiers of their texts and no absolute reference -/
structure CfgTextsOk (cfg : Cfg) (doc : TsDoc) : Prop where
  bagOK : ∀ i ∈ bag (scalarTypes cfg doc), hasTmpPrefix i = false ∧ i ∉ reservedNames
  parses : ∀ p ∈ scalarTypes cfg doc, ∀ t ∈ Target.all,
    (cfg.parseOf (p.2.getType t)).noAbs = true ∧
      ∀ i ∈ (cfg.parseOf (p.2.getType t)).freeNames, i ∈ bag (scalarTypes cfg doc)

/-- **C10's `DocOK` from C03's `SchemaValid`** -/
theorem docOK_of_valid {cfg : Cfg} {S : Schema} (hv : SchemaValid S) (hd : noDunderTypeNamesB S = true)
    (hc : CfgTextsOk cfg S.items) : DocOK cfg S.items := by
  have SF := schemaFacts_of_valid hv
  have hnd : ∀ a ∈ typeDefsOf S.items, dunder a.name = false := by
    intro a ha
    rw [← typeDefs_eq] at ha
    have := List.all_eq_true.1 hd a ha
    simpa using this
  have kind_ne : ∀ {td : TypeDef}, Schema.isOutputKind td.kind = true → td.kind ≠ .input := by
    intro td h hk; rw [hk] at h; cases h
  refine ⟨?_, ?_, ?_, ?_, ?_, ?_, hc.bagOK, hc.parses⟩
  · rw [← typeDefs_eq]; exact Stages.nodup_of_nodupB SF.typeND
  · intro a ha
    cases h : hasTmpPrefix a.name with
    | false => rfl
    | true => have := dunder_of_tmp h; rw [hnd a ha] at this; cases this
  · intro a ha hp
    have := dunder_of_prelude hp; rw [hnd a ha] at this; cases this
  · intro td htd _ f hf
    rw [← typeDefs_eq] at htd
    obtain ⟨⟨ft, hft, hk⟩, _⟩ := SF.fieldTy td htd f hf
    obtain ⟨hm, hn⟩ := typeDef?_mem' hft
    exact ⟨ft, hm, hn, kind_ne hk⟩
  · intro td htd _ f hf
    rw [← typeDefs_eq] at htd
    obtain ⟨ft, hft, hk⟩ := SF.inputTy td htd f hf
    obtain ⟨hm, hn⟩ := typeDef?_mem' hft
    refine ⟨ft, hm, hn, ?_⟩
    cases hkk : ft.kind <;> simp_all [Schema.isInputKind]
  · intro td htd _ m hm
    rw [← typeDefs_eq] at htd
    obtain ⟨o, ho, hk⟩ := SF.members td htd m hm
    obtain ⟨hmo, hn⟩ := typeDef?_mem' ho
    exact ⟨o, hmo, hn, hk⟩

end NitroVerif.OpTypes.Closed
