import NitroVerif.Lemmas.CheckOpWalk
/-!
Reachability through fragment spreads: the spread handler (`check_fragment_spread`), the fragments an
accepted walk reaches, soundness of the two closure computations (`usedFragments` of the model,
`reachable` of the reference validator), and the resulting "every selection set of the document was visited"
theorems.
-/
namespace NitroVerif.CheckOp
open NitroVerif.Gql NitroVerif.CheckCommon NitroVerif.Valid

/-! ### fragment lookup -/

theorem fragMap_mem {D : Doc} {n : Name} {f : FragmentDef} (h : fragMap D n = some f) :
    f ∈ fragsOf D ∧ f.name = n := by
  unfold fragMap at h
  refine ⟨by simpa using List.mem_of_find?_eq_some h, ?_⟩
  have := List.find?_some h
  simpa using this

theorem frag_mem_doc {D : Doc} {f : FragmentDef} (h : f ∈ fragsOf D) : ExecDef.frag f ∈ D := by
  simp only [fragsOf, List.mem_filterMap] at h
  obtain ⟨d, hd, hdo⟩ := h
  cases d <;> simp at hdo
  subst hdo; exact hd

theorem op_mem_doc {D : Doc} {o : OperationDef} (h : o ∈ opsOf D) : ExecDef.op o ∈ D := by
  simp only [opsOf, List.mem_filterMap] at h
  obtain ⟨d, hd, hdo⟩ := h
  cases d <;> simp at hdo
  subst hdo; exact hd

/-- with pairwise different keys, the first and the last element with a given key coincide -/
theorem find?_reverse_of_unique {α} (p : α → Bool) :
    ∀ (l : List α), (∀ pre x post, l = pre ++ x :: post → p x = true → ∀ y ∈ post, p y = false) →
      l.reverse.find? p = l.find? p := by
  intro l
  induction l with
  | nil => intro _; rfl
  | cons x xs ih =>
    intro h
    have ih' := ih (fun pre y post hl hy => h (x :: pre) y post (by simp [hl]) hy)
    rw [List.reverse_cons, List.find?_append, ih', List.find?_cons]
    cases hx : p x with
    | true =>
      have hnone : xs.find? p = none := by
        rw [List.find?_eq_none]
        intro y hy
        have := h [] x xs rfl hx y hy
        simp [this]
      simp [hnone, hx]
    | false => simp [hx]

theorem nodupB_cons_iff (x : Name) (xs : List Name) : nodupB (x :: xs) = true ↔ x ∉ xs ∧ nodupB xs = true := by
  simp [nodupB]

theorem nodupB_split {x : Name} : ∀ (a b : List Name), nodupB (a ++ x :: b) = true → x ∉ b := by
  intro a
  induction a with
  | nil => intro b h; exact ((nodupB_cons_iff _ _).mp h).1
  | cons y a ih => intro b h; exact ih b ((nodupB_cons_iff _ _).mp h).2

/-- with unique fragment names the reference validator's lookup (first definition) and the checker's
    `fragment_map` (last definition) agree -/
theorem frag?_eq_fragMap {D : Doc} (hnd : nodupB (fragNamesOf D) = true) (n : Name) :
    Valid.frag? D n = fragMap D n := by
  unfold Valid.frag? fragMap
  rw [frags_eq]
  symm
  apply find?_reverse_of_unique
  intro pre x post hl hx y hy
  have hxn : x.name = n := by simpa using hx
  unfold fragNamesOf at hnd
  rw [hl] at hnd
  simp only [List.map_append, List.map_cons] at hnd
  have := nodupB_split _ _ hnd
  cases hyn : (y.name == n) with
  | false => rfl
  | true =>
    exfalso
    apply this
    have : y.name = n := by simpa using hyn
    exact List.mem_map.mpr ⟨y, hy, by rw [this, hxn]⟩

/-! ### the spread handler -/

/-- **Handler lemma.** A quiet `check_fragment_spread` under a composite root: the fuel was not exhausted,
    the fragment is not on the stack, it is defined, and (when its type condition exists) the applicability
    analysis and the walk of its selection set — with the name pushed on the stack — were quiet. -/
theorem handler_quiet {S : Schema} {D : Doc} {A : ErrKind → Bool} (hA : Admissible A)
    {fuel : Nat} {seen : List Name} {vars : Option (List VarDef)} {root : TypeDef} {fields : List FieldDef}
    {name : Name} {namePos pos : Pos} (hf : directFields root = some fields)
    (h : Quiet A (spreadHandler S D fuel seen vars root name namePos pos)) :
    ∃ k f, fuel = k + 1 ∧ seen.contains name = false ∧ fragMap D name = some f ∧
      Quiet A (checkDirectives S vars f.dirs "FRAGMENT_DEFINITION") ∧
      ∀ ct, S.typeDef? f.cond = some ct →
        Quiet A (spreadApplicability S root ct pos).1 ∧
        Quiet A (checkSelectionSet S (spreadHandler S D k) (seen ++ [name]) vars ct f.sel f.pos) := by
  cases fuel with
  | zero =>
    simp only [spreadHandler] at h
    have := hA _ (by decide : ErrKind.RecursingFragmentSpread ≠ ErrKind.UnknownVariable)
    rw [quiet_single, this] at h; cases h
  | succ k =>
    simp only [spreadHandler] at h
    cases hs : seen.contains name with
    | true =>
      simp only [hs, if_true] at h
      have := hA _ (by decide : ErrKind.RecursingFragmentSpread ≠ ErrKind.UnknownVariable)
      rw [quiet_single, this] at h; cases h
    | false =>
      simp only [hs, Bool.false_eq_true, if_false] at h
      cases hm : fragMap D name with
      | none =>
        simp only [hm] at h
        have := hA _ (by decide : ErrKind.UnknownFragment ≠ ErrKind.UnknownVariable)
        rw [quiet_single, this] at h; cases h
      | some f =>
        simp only [hm] at h
        rw [quiet_append] at h
        refine ⟨k, f, rfl, rfl, rfl, h.1, ?_⟩
        intro ct hct
        have h2 := h.2
        simp only [hct, spreadApplicability_go hf, if_true] at h2
        exact quiet_append.mp h2

/-! ### spreads of a selection set -/

theorem spreadNames_cons (s : Selection) (ss : List Selection) :
    spreadNames (s :: ss) = spreadNamesSel s ++ spreadNames ss := by simp only [spreadNames]

theorem spreadNamesSel_field (al name namePos args dirs sel) :
    spreadNamesSel (.field al name namePos args dirs sel) = (match sel with | some ss => spreadNames ss | none => []) := by
  cases sel <;> simp only [spreadNamesSel]

/-- a spread name of a selection set occurs as a spread selection in one of its (nested) selection sets -/
theorem spread_in_allSels (S : Schema) (n : Name) : ∀ (k : Nat) (ss : List Selection), Selection.sizeList ss ≤ k →
    n ∈ spreadNames ss → ∀ (parent : Option Name),
      ∃ p np dirs pos, (p, Selection.spread n np dirs pos) ∈ allSels (⟨parent, ss⟩ :: ctxsOfSels S parent ss) := by
  intro k
  induction k with
  | zero =>
    intro ss hsz hn
    cases ss with
    | nil => simp [spreadNames] at hn
    | cons s ss => have := Selection.one_le_size s; simp [Selection.sizeList] at hsz; omega
  | succ k ih =>
    intro ss
    induction ss with
    | nil => intro _ hn; simp [spreadNames] at hn
    | cons s ss ihs =>
      intro hsz hn parent
      have hs1 := Selection.one_le_size s
      simp only [Selection.sizeList] at hsz
      rw [spreadNames_cons] at hn
      rcases List.mem_append.mp hn with h1 | h2
      · -- inside `s`
        clear hn
        cases s with
        | field al name namePos args dirs sel =>
          rw [spreadNamesSel_field] at h1
          cases sel with
          | none => simp at h1
          | some ss' =>
            simp only at h1
            have hss : Selection.sizeList ss' ≤ k := by simp [Selection.size] at hsz; omega
            obtain ⟨p, np, ds, ps, hmem⟩ := ih ss' hss h1 (parent.bind fun t => (fieldDef? S t name).map (·.ty.unwrapped))
            refine ⟨p, np, ds, ps, ?_⟩
            rw [allSels_cons, ctxsOfSels, allSels_append, ctxsOfSel]
            exact List.mem_append_right _ (List.mem_append_left _ hmem)
        | spread name namePos dirs pos =>
          simp only [spreadNamesSel, List.mem_singleton] at h1
          subst h1
          refine ⟨parent, namePos, dirs, pos, ?_⟩
          rw [allSels_cons]
          exact List.mem_append_left _ (by simp)
        | inline cond dirs ss' pos =>
          have h1' : n ∈ spreadNames ss' := by simpa only [spreadNamesSel] using h1
          have hss : Selection.sizeList ss' ≤ k := by simp [Selection.size] at hsz; omega
          cases cond with
          | none =>
            obtain ⟨p, np, ds, ps, hmem⟩ := ih ss' hss h1' parent
            refine ⟨p, np, ds, ps, ?_⟩
            rw [allSels_cons, ctxsOfSels, allSels_append, ctxsOfSel]
            exact List.mem_append_right _ (List.mem_append_left _ hmem)
          | some cc =>
            obtain ⟨c, cp⟩ := cc
            obtain ⟨p, np, ds, ps, hmem⟩ := ih ss' hss h1' (some c)
            refine ⟨p, np, ds, ps, ?_⟩
            rw [allSels_cons, ctxsOfSels, allSels_append, ctxsOfSel]
            exact List.mem_append_right _ (List.mem_append_left _ hmem)
      · obtain ⟨p, np, ds, ps, hmem⟩ := ihs (by omega) h2 parent
        refine ⟨p, np, ds, ps, ?_⟩
        rw [allSels_cons] at hmem ⊢
        rw [ctxsOfSels, allSels_append]
        rcases List.mem_append.mp hmem with hmem | hmem
        · exact List.mem_append_left _ (by simp only [List.map_cons]; exact List.mem_cons_of_mem _ hmem)
        · exact List.mem_append_right _ (List.mem_append_right _ hmem)

/-! ### quiet walks and what they reach -/

/-- the selection set `ss` was walked quietly with the type named `t` in scope and stack `seen` -/
def QuietSet (S : Schema) (D : Doc) (A : ErrKind → Bool) (seen : List Name) (vars : Option (List VarDef))
    (t : Name) (ss : List Selection) : Prop :=
  ∃ k ct anchor, S.typeDef? t = some ct ∧
    Quiet A (checkSelectionSet S (spreadHandler S D k) seen vars ct ss anchor)

theorem quietSet_facts {S : Schema} {D : Doc} {A : ErrKind → Bool} (hA : Admissible A) (hS : NoReservedFields S)
    {seen : List Name} {vars : Option (List VarDef)} {t : Name} {ss : List Selection}
    (h : QuietSet S D A seen vars t ss) :
    ∃ k, ∀ ps ∈ allSels (ctxsOfRoot S t ss), LocalFact S A (spreadHandler S D k) seen vars ps := by
  obtain ⟨k, ct, anchor, hct, hq⟩ := h
  exact ⟨k, walk_selectionSet hA hS hct hq⟩

/-- every fragment definition has an existing type condition (true of accepted documents) -/
def CondsDefined (S : Schema) (D : Doc) : Prop := ∀ f ∈ fragsOf D, ∃ ct, S.typeDef? f.cond = some ct

/-- one spread step of a quiet walk -/
theorem quietSet_step {S : Schema} {D : Doc} {A : ErrKind → Bool} (hA : Admissible A) (hS : NoReservedFields S)
    (hC : CondsDefined S D)
    {seen : List Name} {vars : Option (List VarDef)} {t : Name} {ss : List Selection}
    (h : QuietSet S D A seen vars t ss) {n : Name} (hn : n ∈ spreadNames ss) :
    seen.contains n = false ∧ ∃ f, fragMap D n = some f ∧
      Quiet A (checkDirectives S vars f.dirs "FRAGMENT_DEFINITION") ∧
      QuietSet S D A (seen ++ [n]) vars f.cond f.sel := by
  obtain ⟨k, hfacts⟩ := quietSet_facts hA hS h
  obtain ⟨p, np, ds, ps, hmem⟩ := spread_in_allSels S n _ ss (Nat.le_refl _) hn (some t)
  have hl := hfacts _ (by simpa [ctxsOfRoot] using hmem)
  cases p with
  | none => exact absurd hl (by simp [LocalFact])
  | some t' =>
    simp only [LocalFact] at hl
    obtain ⟨root, fields, _, hf, _, hq⟩ := hl
    obtain ⟨k', f, _, hseen, hm, hdirs, hrest⟩ := handler_quiet hA hf hq
    obtain ⟨ct, hct⟩ := hC f (fragMap_mem hm).1
    exact ⟨hseen, f, hm, hdirs, k', ct, f.pos, hct, (hrest ct hct).2⟩

/-- fragments reached from the selection set `ss0` through spreads, at any depth -/
inductive ReachFrom (D : Doc) (ss0 : List Selection) : Name → Prop
  | base {n : Name} : n ∈ spreadNames ss0 → ReachFrom D ss0 n
  | step {m n : Name} {g : FragmentDef} : ReachFrom D ss0 m → fragMap D m = some g → n ∈ spreadNames g.sel →
      ReachFrom D ss0 n

/-- **Reach lemma.** Every fragment reached from a quietly walked selection set is defined, was not on the
    stack, and its selection set was walked quietly with a stack extending the original one. -/
theorem reach_walked {S : Schema} {D : Doc} {A : ErrKind → Bool} (hA : Admissible A) (hS : NoReservedFields S)
    (hC : CondsDefined S D)
    {seen0 : List Name} {vars : Option (List VarDef)} {t0 : Name} {ss0 : List Selection}
    (h0 : QuietSet S D A seen0 vars t0 ss0) {n : Name} (hr : ReachFrom D ss0 n) :
    seen0.contains n = false ∧ ∃ seen f, fragMap D n = some f ∧ (∀ x ∈ seen0, x ∈ seen) ∧ n ∈ seen ∧
      Quiet A (checkDirectives S vars f.dirs "FRAGMENT_DEFINITION") ∧
      QuietSet S D A seen vars f.cond f.sel := by
  induction hr with
  | base hn =>
    obtain ⟨hs, f, hm, hd, hq⟩ := quietSet_step hA hS hC h0 hn
    exact ⟨hs, seen0 ++ [_], f, hm, fun x hx => List.mem_append_left _ hx, by simp, hd, hq⟩
  | @step m n' g _ hg hn ih =>
    obtain ⟨_, seen, g', hg', hsub, _, _, hq⟩ := ih
    rw [hg] at hg'
    cases hg'
    obtain ⟨hs, f, hm, hd, hq'⟩ := quietSet_step hA hS hC hq hn
    refine ⟨?_, seen ++ [n'], f, hm, fun x hx => List.mem_append_left _ (hsub x hx), by simp, hd, hq'⟩
    cases hc : seen0.contains n' with
    | false => rfl
    | true =>
      have hmem := hsub n' (by simpa using hc)
      have : seen.contains n' = true := by simpa using hmem
      rw [this] at hs; cases hs

/-! ### soundness of the closure computations -/

theorem mem_foldl_dedup {x : Name} : ∀ (xs acc : List Name),
    x ∈ xs.foldl (fun acc x => if acc.contains x then acc else acc ++ [x]) acc → x ∈ acc ∨ x ∈ xs := by
  intro xs
  induction xs with
  | nil => intro acc h; exact Or.inl h
  | cons y ys ih =>
    intro acc h
    simp only [List.foldl_cons] at h
    rcases ih _ h with h | h
    · split at h
      · exact Or.inl h
      · rcases List.mem_append.mp h with h | h
        · exact Or.inl h
        · simp at h; subst h; exact Or.inr (by simp)
    · exact Or.inr (List.mem_cons_of_mem _ h)

theorem mem_dedupNames {x : Name} {xs : List Name} (h : x ∈ dedupNames xs) : x ∈ xs := by
  rcases mem_foldl_dedup xs [] h with h | h
  · cases h
  · exact h

theorem mem_dedup {x : Name} {xs : List Name} (h : x ∈ Valid.dedup xs) : x ∈ xs := by
  rcases mem_foldl_dedup xs [] h with h | h
  · cases h
  · exact h

/-- `fragments_used_by_operations` only contains fragments some operation reaches -/
theorem usedFragments_sound {D : Doc} {n : Name} (h : n ∈ usedFragments D) :
    ∃ o ∈ opsOf D, ReachFrom D o.sel n := by
  have key : ∀ (k : Nat) (acc : List Name), (∀ x ∈ acc, ∃ o ∈ opsOf D, ReachFrom D o.sel x) →
      ∀ x ∈ usedIter D k acc, ∃ o ∈ opsOf D, ReachFrom D o.sel x := by
    intro k
    induction k with
    | zero => intro acc hacc x hx; exact hacc x hx
    | succ k ih =>
      intro acc hacc x hx
      simp only [usedIter] at hx
      refine ih _ ?_ x hx
      intro y hy
      have hy' := mem_dedupNames hy
      rcases List.mem_append.mp hy' with hy' | hy'
      · exact hacc y hy'
      · obtain ⟨m, hm, hym⟩ := List.mem_flatMap.mp hy'
        obtain ⟨o, ho, hr⟩ := hacc m hm
        cases hg : fragMap D m with
        | none => simp [hg] at hym
        | some g =>
          simp only [hg] at hym
          exact ⟨o, ho, ReachFrom.step hr hg hym⟩
  refine key _ _ ?_ n h
  intro x hx
  obtain ⟨o, ho, hxo⟩ := List.mem_flatMap.mp (mem_dedupNames hx)
  exact ⟨o, ho, ReachFrom.base hxo⟩

/-- the two spread collectors (model / reference validator) are the same function -/
theorem spreadsDeep_eq : ∀ (k : Nat) (ss : List Selection), Selection.sizeList ss ≤ k →
    Valid.spreadsDeep ss = spreadNames ss := by
  intro k
  induction k with
  | zero =>
    intro ss hsz
    cases ss with
    | nil => simp [Valid.spreadsDeep, spreadNames]
    | cons s ss => have := Selection.one_le_size s; simp [Selection.sizeList] at hsz; omega
  | succ k ih =>
    intro ss
    induction ss with
    | nil => intro _; simp [Valid.spreadsDeep, spreadNames]
    | cons s ss ihs =>
      intro hsz
      have hs1 := Selection.one_le_size s
      simp only [Selection.sizeList] at hsz
      rw [spreadNames_cons, Valid.spreadsDeep, ihs (by omega)]
      congr 1
      cases s with
      | field al name namePos args dirs sel =>
        cases sel with
        | none => simp [Valid.spreadsDeepSel, spreadNamesSel]
        | some ss' =>
          have hss : Selection.sizeList ss' ≤ k := by simp [Selection.size] at hsz; omega
          simp only [Valid.spreadsDeepSel, spreadNamesSel]
          exact ih ss' hss
      | spread => simp [Valid.spreadsDeepSel, spreadNamesSel]
      | inline cond dirs ss' pos =>
        have hss : Selection.sizeList ss' ≤ k := by simp [Selection.size] at hsz; omega
        simp only [Valid.spreadsDeepSel, spreadNamesSel]
        exact ih ss' hss

theorem spreadsDeep_eq' (ss : List Selection) : Valid.spreadsDeep ss = spreadNames ss :=
  spreadsDeep_eq _ ss (Nat.le_refl _)

/-- the reference validator's `reachable` only contains fragments reached through spreads -/
theorem reachable_sound {D : Doc} (hnd : nodupB (fragNamesOf D) = true) {ss : List Selection} {n : Name}
    (h : n ∈ Valid.reachable D ss) : ReachFrom D ss n := by
  have key : ∀ (k : Nat) (acc : List Name), (∀ x ∈ acc, ReachFrom D ss x) →
      ∀ x ∈ Valid.closure (fun n => match Valid.frag? D n with | some f => Valid.spreadsDeep f.sel | none => []) k acc,
        ReachFrom D ss x := by
    intro k
    induction k with
    | zero => intro acc hacc x hx; exact hacc x hx
    | succ k ih =>
      intro acc hacc x hx
      simp only [Valid.closure] at hx
      refine ih _ ?_ x hx
      intro y hy
      have hy' := mem_dedup hy
      rcases List.mem_append.mp hy' with hy' | hy'
      · exact hacc y hy'
      · obtain ⟨m, hm, hym⟩ := List.mem_flatMap.mp hy'
        rw [frag?_eq_fragMap hnd] at hym
        cases hg : fragMap D m with
        | none => simp [hg] at hym
        | some g =>
          simp only [hg, spreadsDeep_eq'] at hym
          exact ReachFrom.step (hacc m hm) hg hym
  refine key _ _ ?_ n h
  intro x hx
  have := mem_dedup hx
  rw [spreadsDeep_eq'] at this
  exact ReachFrom.base this

end NitroVerif.CheckOp
