/-
The declaration table of the generated schema declaration file (`Model/SchemaDecls.lean`), placed at an arbitrary
path prefix `P` (`P = []`: the file itself; `P = ["Schema"]`: the file linked into an operation file): which
declarations, export entries and namespaces it contains, and what a lookup inside it returns.
-/
import NitroVerif.Model.SchemaDecls
import NitroVerif.Lemmas.SchemaDeclsResolve
import NitroVerif.Lemmas.DeclsClosedTable
namespace NitroVerif.SchemaDecls
open NitroVerif.Gql NitroVerif.Ts NitroVerif.DeclCfg

theorem isDeclAt_eq : @isDeclAt = @isDecl := rfl

/-- names the printer itself binds at the top level of the file, and the four namespace names -/
def preludeNames : List String := ["__nitrogql_schema", "__Beautify", "__SelectionSet"]
def targetNames : List String := Target.all.map (·.name)
def reservedNames : List String := preludeNames ++ targetNames

/-! ### the pieces of the file -/

theorem schemaFile_eq {c : Cfg} {doc : TsDoc} {F : File} (hF : schemaFile c doc = .ok F) :
    ∃ ns, namespaces c doc Target.all = .ok ns ∧
      F = prelude doc ++ ns ++ (typeDefsOf doc).flatMap (representative (Ctx.new c doc .operationOutput)) := by
  unfold schemaFile at hF
  split at hF
  · cases hF
  · rename_i ns hns; cases hF; exact ⟨ns, hns, rfl⟩

theorem namespaceBody_ok {x : Ctx} : ∀ {tds : List TypeDef} {ss : List Stmt}, namespaceBody x tds = .ok ss →
    ∀ td ∈ tds, ∃ s1, printType x td = .ok s1 := by
  intro tds
  induction tds with
  | nil => intro ss _ td h; cases h
  | cons a rest ih =>
    intro ss h td htd
    simp only [namespaceBody] at h
    split at h
    · cases h
    · rename_i s1 h1
      split at h
      · cases h
      · rename_i r hr
        rcases List.mem_cons.1 htd with rfl | htd
        · exact ⟨s1, h1⟩
        · exact ih hr td htd

theorem namespaces_ok {c : Cfg} {doc : TsDoc} : ∀ {ts : List Target} {ss : List Stmt}, namespaces c doc ts = .ok ss →
    ∀ t ∈ ts, ∃ body, namespaceBody (Ctx.new c doc t) (typeDefsOf doc) = .ok body := by
  intro ts
  induction ts with
  | nil => intro ss _ t h; cases h
  | cons a rest ih =>
    intro ss h t ht
    simp only [namespaces] at h
    split at h
    · cases h
    · rename_i b hb
      split at h
      · cases h
      · rename_i r hr
        rcases List.mem_cons.1 ht with rfl | ht
        · exact ⟨b, hb⟩
        · exact ih hr t ht

theorem Target.mem_all (t : Target) : t ∈ Target.all := by cases t <;> simp [Target.all]

/-- when the file is generated, every type definition has a body (or none) for every target -/
theorem body_ok {c : Cfg} {doc : TsDoc} {F : File} (hF : schemaFile c doc = .ok F) (t : Target) (td : TypeDef)
    (hm : td ∈ typeDefsOf doc) : ∃ o, body (Ctx.new c doc t) td = .ok o := by
  obtain ⟨ns, hns, _⟩ := schemaFile_eq hF
  obtain ⟨b, hb⟩ := namespaces_ok hns t (Target.mem_all t)
  obtain ⟨s1, h1⟩ := namespaceBody_ok hb td hm
  unfold printType at h1
  split at h1
  · cases h1
  · rename_i h; exact ⟨none, h⟩
  · rename_i ty h; exact ⟨some ty, h⟩

/-! ### declarations -/

theorem decls_prelude (P : Scope) (doc : TsDoc) : ∀ d ∈ Stmt.declsList P (prelude doc), d.scope = P ∧ d.name ∈ preludeNames := by
  intro d hd
  simp [prelude, Stmt.declsList, Stmt.decls] at hd
  rcases hd with rfl | rfl | rfl <;> simp [preludeNames]

theorem decls_exportRepresentative (sc : Scope) (sn ln : String) (t : Target) :
    Stmt.declsList sc (exportRepresentative sn ln t) = [⟨sc, ln, sn == ln, [], .qref [t.name, sn]⟩] := by
  unfold exportRepresentative
  split <;> rename_i h
  · have : sn = ln := by simpa using h
    subst this; simp [Stmt.declsList, Stmt.decls]
  · simp [Stmt.declsList, Stmt.decls, h]

/-- the target whose namespace the top-level representative of a definition points into -/
def repTarget (td : TypeDef) : Target := if td.kind == .input then Target.resolverInput else Target.operationOutput

theorem decls_representative (sc : Scope) (x : Ctx) (td : TypeDef) :
    Stmt.declsList sc (representative x td)
      = [⟨sc, x.local td.name, td.name == x.local td.name, [], .qref [(repTarget td).name, td.name]⟩] := by
  unfold representative
  rw [declsList_append', decls_exportRepresentative]
  have : Stmt.declsList sc (if (td.kind == TypeKind.enum && x.cfg.emitSchemaRuntime) = true then
      [Stmt.const true false td.name (some (Ty.ref "const"))
        (some (JsExpr.obj (List.map (fun v => (v.name, JsExpr.str v.name)) td.values)))] else []) = [] := by
    split <;> simp [Stmt.declsList, Stmt.decls]
  rw [this]
  rfl

theorem decls_representatives (sc : Scope) (x : Ctx) : ∀ (tds : List TypeDef),
    Stmt.declsList sc (tds.flatMap (representative x))
      = tds.map fun td => ⟨sc, x.local td.name, td.name == x.local td.name, [], .qref [(repTarget td).name, td.name]⟩ := by
  intro tds
  induction tds with
  | nil => simp [Stmt.declsList]
  | cons a r ih => simp only [List.flatMap_cons, declsList_append', decls_representative, ih, List.map_cons]; rfl

/-- the declarations of one namespace body: one per printed definition, under its local name -/
theorem decls_namespaceBody (x : Ctx) (sc : Scope) : ∀ (tds : List TypeDef) (ss : List Stmt),
    namespaceBody x tds = .ok ss → ∀ d ∈ Stmt.declsList sc ss,
      ∃ td ∈ tds, ∃ ty, body x td = .ok (some ty) ∧ d = ⟨sc, x.local td.name, td.name == x.local td.name, [], ty⟩ := by
  intro tds
  induction tds with
  | nil => intro ss h d hd; simp [namespaceBody] at h; subst h; simp [Stmt.declsList] at hd
  | cons a rest ih =>
    intro ss h d hd
    simp only [namespaceBody] at h
    split at h
    · cases h
    · rename_i s1 h1
      split at h
      · cases h
      · rename_i r hr
        cases h
        rw [declsList_append', List.mem_append] at hd
        rcases hd with hd | hd
        · rcases decls_printType x sc a s1 h1 with ⟨_, e⟩ | ⟨ty', hb, e⟩
          · rw [e] at hd; cases hd
          · rw [e] at hd; simp at hd; subst hd
            exact ⟨a, List.mem_cons_self, ty', hb, rfl⟩
        · obtain ⟨td, htd, ty, hb, e⟩ := ih r hr d hd
          exact ⟨td, List.mem_cons_of_mem _ htd, ty, hb, e⟩

theorem decls_namespaces (c : Cfg) (doc : TsDoc) (P : Scope) : ∀ (ts : List Target) (ss : List Stmt),
    namespaces c doc ts = .ok ss → ∀ d ∈ Stmt.declsList P ss,
      ∃ t ∈ ts, ∃ td ∈ typeDefsOf doc, ∃ ty, body (Ctx.new c doc t) td = .ok (some ty) ∧
        d = ⟨P ++ [t.name], (Ctx.new c doc t).local td.name, td.name == (Ctx.new c doc t).local td.name, [], ty⟩ := by
  intro ts
  induction ts with
  | nil => intro ss h d hd; simp [namespaces] at h; subst h; simp [Stmt.declsList] at hd
  | cons t0 rest ih =>
    intro ss h d hd
    simp only [namespaces] at h
    split at h
    · cases h
    · rename_i body0 hb0
      split at h
      · cases h
      · rename_i r hr
        cases h
        simp only [Stmt.declsList, Stmt.decls, List.mem_append] at hd
        rcases hd with hd | hd
        · obtain ⟨td, htd, ty, hb, e⟩ := decls_namespaceBody _ (P ++ [t0.name]) _ _ hb0 d hd
          exact ⟨t0, List.mem_cons_self, td, htd, ty, hb, e⟩
        · obtain ⟨t, ht, rest'⟩ := ih r hr d hd
          exact ⟨t, List.mem_cons_of_mem _ ht, rest'⟩

theorem local_eq (c : Cfg) (doc : TsDoc) (t : Target) (n : Name) :
    (Ctx.new c doc t).local n = localName (bag (scalarTypes c doc)) n := rfl

/-- every declaration of the file placed at `P`: a prelude helper or a representative at the top, or the alias of a
    printed definition inside the namespace of a target -/
theorem decls_schemaFile {c : Cfg} {doc : TsDoc} {F : File} (hF : schemaFile c doc = .ok F) (P : Scope) :
    ∀ d ∈ Stmt.declsList P F,
      (d.scope = P ∧ (d.name ∈ preludeNames ∨
        ∃ td ∈ typeDefsOf doc, d = ⟨P, localName (bag (scalarTypes c doc)) td.name,
          td.name == localName (bag (scalarTypes c doc)) td.name, [], .qref [(repTarget td).name, td.name]⟩)) ∨
      (∃ t, ∃ td ∈ typeDefsOf doc, ∃ ty, body (Ctx.new c doc t) td = .ok (some ty) ∧
        d = ⟨P ++ [t.name], localName (bag (scalarTypes c doc)) td.name,
          td.name == localName (bag (scalarTypes c doc)) td.name, [], ty⟩) := by
  obtain ⟨ns, hns, rfl⟩ := schemaFile_eq hF
  intro d hd
  simp only [declsList_append', List.mem_append] at hd
  rcases hd with (hd | hd) | hd
  · exact Or.inl ⟨(decls_prelude P doc d hd).1, Or.inl (decls_prelude P doc d hd).2⟩
  · obtain ⟨t, _, td, htd, ty, hb, e⟩ := decls_namespaces c doc P _ _ hns d hd
    exact Or.inr ⟨t, td, htd, ty, hb, e⟩
  · rw [decls_representatives] at hd
    obtain ⟨td, htd, rfl⟩ := List.mem_map.1 hd
    exact Or.inl ⟨rfl, Or.inr ⟨td, htd, rfl⟩⟩

theorem scope_ne_child (P : Scope) (n : String) : P ≠ P ++ [n] := by
  intro h
  have := congrArg List.length h
  simp at this

theorem scope_child_inj (P : Scope) (a b : String) (h : P ++ [a] = P ++ [b]) : a = b := by
  simpa using h

theorem find_namespaces_at (c : Cfg) (doc : TsDoc) (P : Scope) (t : Target) (td : TypeDef) (ty : Ty)
    (hb : body (Ctx.new c doc t) td = .ok (some ty)) (hm : td ∈ typeDefsOf doc)
    (hinj : ∀ a ∈ typeDefsOf doc, (Ctx.new c doc t).local a.name = (Ctx.new c doc t).local td.name → a = td) :
    ∀ (ts : List Target) (ss : List Stmt), namespaces c doc ts = .ok ss → t ∈ ts →
      (Stmt.declsList P ss).find? (isDecl (P ++ [t.name]) ((Ctx.new c doc t).local td.name))
        = some ⟨P ++ [t.name], (Ctx.new c doc t).local td.name, td.name == (Ctx.new c doc t).local td.name, [], ty⟩ := by
  intro ts
  induction ts with
  | nil => intro ss _ h; cases h
  | cons t0 rest ih =>
    intro ss h hmem
    simp only [namespaces] at h
    split at h
    · cases h
    · rename_i body0 hb0
      split at h
      · cases h
      · rename_i r hr
        cases h
        simp only [Stmt.declsList, Stmt.decls, List.find?_append]
        by_cases ht : t0 = t
        · subst ht
          rw [find_namespaceBody _ (P ++ [t0.name]) td ty hb _ _ hb0 hm hinj]; rfl
        · have hskip : (Stmt.declsList (P ++ [t0.name]) body0).find?
              (isDecl (P ++ [t.name]) ((Ctx.new c doc t).local td.name)) = none := by
            apply List.find?_eq_none.2
            intro d hd
            have := scope_namespaceBody _ (P ++ [t0.name]) _ _ hb0 d hd
            simp only [isDecl, this, Bool.and_eq_true, beq_iff_eq, not_and]
            intro e
            exact absurd (Target.name_inj _ _ (scope_child_inj P _ _ e)) ht
          rw [hskip, Option.none_or]
          apply ih r hr
          rcases List.mem_cons.1 hmem with e | e
          · exact absurd e.symm ht
          · exact e

/-- HIT: inside the namespace of `t`, the local name of a printed definition finds exactly its alias -/
theorem schemaFile_find_hit {c : Cfg} {doc : TsDoc} {F : File} (hF : schemaFile c doc = .ok F) (P : Scope)
    (t : Target) (td : TypeDef) (ty : Ty) (hb : body (Ctx.new c doc t) td = .ok (some ty)) (hm : td ∈ typeDefsOf doc)
    (hinj : ∀ a ∈ typeDefsOf doc, (Ctx.new c doc t).local a.name = (Ctx.new c doc t).local td.name → a = td) :
    (Stmt.declsList P F).find? (isDeclAt (P ++ [t.name]) ((Ctx.new c doc t).local td.name))
      = some ⟨P ++ [t.name], (Ctx.new c doc t).local td.name, td.name == (Ctx.new c doc t).local td.name, [], ty⟩ := by
  obtain ⟨ns, hns, rfl⟩ := schemaFile_eq hF
  rw [isDeclAt_eq]
  simp only [declsList_append', List.find?_append]
  have hpre : (Stmt.declsList P (prelude doc)).find? (isDecl (P ++ [t.name]) ((Ctx.new c doc t).local td.name)) = none := by
    apply List.find?_eq_none.2
    intro d hd
    have := (decls_prelude P doc d hd).1
    simp only [isDecl, this, Bool.and_eq_true, beq_iff_eq, not_and]
    intro e; exact absurd e (scope_ne_child P _)
  rw [hpre, Option.none_or, find_namespaces_at c doc P t td ty hb hm hinj _ _ hns (Target.mem_all t)]
  rfl

/-! ### namespaces -/

theorem nss_exportType (sc : Scope) (sn ln : String) (ty : Ty) : Stmt.nssList sc (exportType sn ln ty) = [] := by
  unfold exportType; split <;> simp [Stmt.nssList, Stmt.nss]

theorem nss_descStmts (sc : Scope) (d : Option String) : Stmt.nssList sc (descStmts d) = [] := by
  cases d <;> simp [descStmts, Stmt.nssList, Stmt.nss]

theorem nss_printType (x : Ctx) (sc : Scope) (td : TypeDef) (ss : List Stmt) (h : printType x td = .ok ss) :
    Stmt.nssList sc ss = [] := by
  unfold printType at h
  split at h
  · cases h
  · cases h; rfl
  · cases h; rw [nssList_append, nss_descStmts, nss_exportType]; rfl

theorem nss_namespaceBody (x : Ctx) (sc : Scope) : ∀ (tds : List TypeDef) (ss : List Stmt),
    namespaceBody x tds = .ok ss → Stmt.nssList sc ss = [] := by
  intro tds
  induction tds with
  | nil => intro ss h; simp [namespaceBody] at h; subst h; rfl
  | cons a rest ih =>
    intro ss h
    simp only [namespaceBody] at h
    split at h
    · cases h
    · rename_i s1 h1
      split at h
      · cases h
      · rename_i r hr
        cases h
        rw [nssList_append, nss_printType x sc a s1 h1, ih r hr]; rfl

theorem nss_namespaces (c : Cfg) (doc : TsDoc) (P : Scope) : ∀ (ts : List Target) (ss : List Stmt),
    namespaces c doc ts = .ok ss → Stmt.nssList P ss = ts.map fun t => P ++ [t.name] := by
  intro ts
  induction ts with
  | nil => intro ss h; simp [namespaces] at h; subst h; rfl
  | cons t0 rest ih =>
    intro ss h
    simp only [namespaces] at h
    split at h
    · cases h
    · rename_i body0 hb0
      split at h
      · cases h
      · rename_i r hr
        cases h
        simp only [Stmt.nssList, Stmt.nss, nss_namespaceBody _ _ _ _ hb0, ih r hr, List.map_cons]
        rfl

theorem nss_representative (sc : Scope) (x : Ctx) (td : TypeDef) : Stmt.nssList sc (representative x td) = [] := by
  unfold representative exportRepresentative
  rw [nssList_append]
  split <;> split <;> split <;> simp [Stmt.nssList, Stmt.nss]

theorem nss_representatives (sc : Scope) (x : Ctx) : ∀ (tds : List TypeDef),
    Stmt.nssList sc (tds.flatMap (representative x)) = [] := by
  intro tds
  induction tds with
  | nil => rfl
  | cons a r ih => simp only [List.flatMap_cons, nssList_append, nss_representative, ih]; rfl

/-- the namespaces of the file: exactly the four target namespaces -/
theorem nss_schemaFile {c : Cfg} {doc : TsDoc} {F : File} (hF : schemaFile c doc = .ok F) (P : Scope) :
    Stmt.nssList P F = Target.all.map fun t => P ++ [t.name] := by
  obtain ⟨ns, hns, rfl⟩ := schemaFile_eq hF
  rw [nssList_append, nssList_append, nss_namespaces c doc P _ _ hns, nss_representatives]
  simp [prelude, Stmt.nssList, Stmt.nss]

/-! ### export entries -/

theorem exports_exportType (sc : Scope) (sn ln : String) (ty : Ty) :
    Stmt.exportsList sc (exportType sn ln ty) = if sn == ln then [] else [(sc, ln, sn)] := by
  unfold exportType; split <;> simp [Stmt.exportsList, Stmt.exports]

theorem exports_descStmts (sc : Scope) (d : Option String) : Stmt.exportsList sc (descStmts d) = [] := by
  cases d <;> simp [descStmts, Stmt.exportsList, Stmt.exports]

theorem exports_printType (x : Ctx) (sc : Scope) (td : TypeDef) (ss : List Stmt) (h : printType x td = .ok ss) :
    ∀ y ∈ Stmt.exportsList sc ss, y = (sc, x.local td.name, td.name) ∧ (td.name == x.local td.name) = false := by
  unfold printType at h
  split at h
  · cases h
  · cases h; intro y hy; simp [Stmt.exportsList] at hy
  · cases h
    intro y hy
    rw [exportsList_append, exports_descStmts, exports_exportType] at hy
    split at hy
    · simp at hy
    · rename_i hne
      simp at hy
      exact ⟨hy, by simpa using hne⟩

theorem exports_printType_hit (x : Ctx) (sc : Scope) (td : TypeDef) (ss : List Stmt) (ty : Ty)
    (h : printType x td = .ok ss) (hb : body x td = .ok (some ty)) (hne : (td.name == x.local td.name) = false) :
    Stmt.exportsList sc ss = [(sc, x.local td.name, td.name)] := by
  unfold printType at h
  rw [hb] at h
  cases h
  rw [exportsList_append, exports_descStmts, exports_exportType, hne]
  rfl

theorem exports_find_namespaceBody (x : Ctx) (sc : Scope) (td : TypeDef) (ty : Ty) (hb : body x td = .ok (some ty))
    (hne : (td.name == x.local td.name) = false) :
    ∀ (tds : List TypeDef) (ss : List Stmt), namespaceBody x tds = .ok ss → td ∈ tds →
      (∀ a ∈ tds, a.name = td.name → a = td) →
      (Stmt.exportsList sc ss).find? (isExportAt sc td.name) = some (sc, x.local td.name, td.name) := by
  intro tds
  induction tds with
  | nil => intro ss _ hm; cases hm
  | cons a rest ih =>
    intro ss h hm hdist
    simp only [namespaceBody] at h
    split at h
    · cases h
    · rename_i s1 h1
      split at h
      · cases h
      · rename_i r hr
        cases h
        rw [exportsList_append, List.find?_append]
        by_cases hat : a = td
        · subst hat
          rw [exports_printType_hit x sc a s1 ty h1 hb hne]
          simp [isExportAt]
        · have h1' : (Stmt.exportsList sc s1).find? (isExportAt sc td.name) = none := by
            apply List.find?_eq_none.2
            intro y hy
            obtain ⟨rfl, _⟩ := exports_printType x sc a s1 h1 y hy
            simp only [isExportAt, Bool.and_eq_true, beq_iff_eq, not_and]
            intro _ e
            exact hat (hdist a List.mem_cons_self e)
          rw [h1', Option.none_or]
          apply ih r hr
          · rcases List.mem_cons.1 hm with e | e
            · exact absurd e.symm hat
            · exact e
          · exact fun b hb' => hdist b (List.mem_cons_of_mem _ hb')

theorem exports_scope_namespaceBody (x : Ctx) (sc : Scope) : ∀ (tds : List TypeDef) (ss : List Stmt),
    namespaceBody x tds = .ok ss → ∀ y ∈ Stmt.exportsList sc ss, y.1 = sc := by
  intro tds
  induction tds with
  | nil => intro ss h y hy; simp [namespaceBody] at h; subst h; simp [Stmt.exportsList] at hy
  | cons a rest ih =>
    intro ss h y hy
    simp only [namespaceBody] at h
    split at h
    · cases h
    · rename_i s1 h1
      split at h
      · cases h
      · rename_i r hr
        cases h
        rw [exportsList_append, List.mem_append] at hy
        rcases hy with hy | hy
        · rw [(exports_printType x sc a s1 h1 y hy).1]
        · exact ih r hr y hy

theorem exports_find_namespaces (c : Cfg) (doc : TsDoc) (P : Scope) (t : Target) (td : TypeDef) (ty : Ty)
    (hb : body (Ctx.new c doc t) td = .ok (some ty)) (hm : td ∈ typeDefsOf doc)
    (hne : (td.name == (Ctx.new c doc t).local td.name) = false)
    (hdist : ∀ a ∈ typeDefsOf doc, a.name = td.name → a = td) :
    ∀ (ts : List Target) (ss : List Stmt), namespaces c doc ts = .ok ss → t ∈ ts →
      (Stmt.exportsList P ss).find? (isExportAt (P ++ [t.name]) td.name)
        = some (P ++ [t.name], (Ctx.new c doc t).local td.name, td.name) := by
  intro ts
  induction ts with
  | nil => intro ss _ h; cases h
  | cons t0 rest ih =>
    intro ss h hmem
    simp only [namespaces] at h
    split at h
    · cases h
    · rename_i body0 hb0
      split at h
      · cases h
      · rename_i r hr
        cases h
        simp only [Stmt.exportsList, Stmt.exports, List.find?_append]
        by_cases ht : t0 = t
        · subst ht
          rw [exports_find_namespaceBody _ (P ++ [t0.name]) td ty hb hne _ _ hb0 hm hdist]; rfl
        · have hskip : (Stmt.exportsList (P ++ [t0.name]) body0).find? (isExportAt (P ++ [t.name]) td.name) = none := by
            apply List.find?_eq_none.2
            intro y hy
            have := exports_scope_namespaceBody _ (P ++ [t0.name]) _ _ hb0 y hy
            simp only [isExportAt, this, Bool.and_eq_true, beq_iff_eq, not_and]
            intro e
            exact absurd (Target.name_inj _ _ (scope_child_inj P _ _ e)) ht
          rw [hskip, Option.none_or]
          apply ih r hr
          rcases List.mem_cons.1 hmem with e | e
          · exact absurd e.symm ht
          · exact e

/-- a RENAMED definition is exported from its namespace under its schema name through `export type { … }` -/
theorem schemaFile_export_hit {c : Cfg} {doc : TsDoc} {F : File} (hF : schemaFile c doc = .ok F) (P : Scope)
    (t : Target) (td : TypeDef) (ty : Ty) (hb : body (Ctx.new c doc t) td = .ok (some ty)) (hm : td ∈ typeDefsOf doc)
    (hne : (td.name == (Ctx.new c doc t).local td.name) = false)
    (hdist : ∀ a ∈ typeDefsOf doc, a.name = td.name → a = td) :
    (Stmt.exportsList P F).find? (isExportAt (P ++ [t.name]) td.name)
      = some (P ++ [t.name], (Ctx.new c doc t).local td.name, td.name) := by
  obtain ⟨ns, hns, rfl⟩ := schemaFile_eq hF
  simp only [exportsList_append, List.find?_append]
  have hpre : Stmt.exportsList P (prelude doc) = [] := by simp [prelude, Stmt.exportsList, Stmt.exports]
  rw [hpre, List.find?_nil, Option.none_or,
    exports_find_namespaces c doc P t td ty hb hm hne hdist _ _ hns (Target.mem_all t)]
  rfl

/-! ### the top-level representatives -/

theorem find_representatives (sc : Scope) (x : Ctx) (td : TypeDef) : ∀ (tds : List TypeDef), td ∈ tds →
    (∀ a ∈ tds, x.local a.name = x.local td.name → a = td) →
    (tds.map fun a => (⟨sc, x.local a.name, a.name == x.local a.name, [], .qref [(repTarget a).name, a.name]⟩ : Decl)).find?
        (isDecl sc (x.local td.name))
      = some ⟨sc, x.local td.name, td.name == x.local td.name, [], .qref [(repTarget td).name, td.name]⟩ := by
  intro tds
  induction tds with
  | nil => intro h; cases h
  | cons a r ih =>
    intro hm hinj
    simp only [List.map_cons, List.find?_cons]
    by_cases hat : a = td
    · subst hat; simp [isDecl]
    · have hne : x.local a.name ≠ x.local td.name := fun e => hat (hinj a List.mem_cons_self e)
      have : isDecl sc (x.local td.name)
          ⟨sc, x.local a.name, a.name == x.local a.name, [], .qref [(repTarget a).name, a.name]⟩ = false := by
        simp [isDecl, hne]
      rw [this]
      apply ih
      · rcases List.mem_cons.1 hm with e | e
        · exact absurd e.symm hat
        · exact e
      · exact fun b hb => hinj b (List.mem_cons_of_mem _ hb)

theorem scope_namespaces (c : Cfg) (doc : TsDoc) (P : Scope) (ts : List Target) (ss : List Stmt)
    (h : namespaces c doc ts = .ok ss) : ∀ d ∈ Stmt.declsList P ss, d.scope ≠ P := by
  intro d hd
  obtain ⟨t, _, td, _, ty, _, rfl⟩ := decls_namespaces c doc P ts ss h d hd
  exact fun e => scope_ne_child P _ e.symm

/-- TOP LEVEL HIT: at the top of the file the local name of a definition finds its representative
    `type T = <namespace of its representative target>.T` -/
theorem schemaFile_find_top {c : Cfg} {doc : TsDoc} {F : File} (hF : schemaFile c doc = .ok F) (P : Scope)
    (td : TypeDef) (hm : td ∈ typeDefsOf doc)
    (hpre : localName (bag (scalarTypes c doc)) td.name ∉ preludeNames)
    (hinj : ∀ a ∈ typeDefsOf doc,
      localName (bag (scalarTypes c doc)) a.name = localName (bag (scalarTypes c doc)) td.name → a = td) :
    (Stmt.declsList P F).find? (isDeclAt P (localName (bag (scalarTypes c doc)) td.name))
      = some ⟨P, localName (bag (scalarTypes c doc)) td.name, td.name == localName (bag (scalarTypes c doc)) td.name, [],
          .qref [(repTarget td).name, td.name]⟩ := by
  obtain ⟨ns, hns, rfl⟩ := schemaFile_eq hF
  rw [isDeclAt_eq]
  simp only [declsList_append', List.find?_append]
  have hpre' : (Stmt.declsList P (prelude doc)).find? (isDecl P (localName (bag (scalarTypes c doc)) td.name)) = none := by
    apply List.find?_eq_none.2
    intro d hd
    have := (decls_prelude P doc d hd).2
    simp only [isDecl, Bool.and_eq_true, beq_iff_eq, not_and]
    intro _ e; exact hpre (e ▸ this)
  have hns' : (Stmt.declsList P ns).find? (isDecl P (localName (bag (scalarTypes c doc)) td.name)) = none := by
    apply List.find?_eq_none.2
    intro d hd
    simp only [isDecl, Bool.and_eq_true, beq_iff_eq, not_and]
    intro e; exact absurd e (scope_namespaces c doc P _ _ hns d hd)
  rw [hpre', hns', Option.none_or, Option.none_or, decls_representatives]
  exact find_representatives P (Ctx.new c doc .operationOutput) td _ hm hinj

theorem exports_representative (sc : Scope) (x : Ctx) (td : TypeDef) :
    Stmt.exportsList sc (representative x td)
      = if td.name == x.local td.name then [] else [(sc, x.local td.name, td.name)] := by
  unfold representative exportRepresentative
  rw [exportsList_append]
  have : Stmt.exportsList sc (if (td.kind == TypeKind.enum && x.cfg.emitSchemaRuntime) = true then
      [Stmt.const true false td.name (some (Ty.ref "const"))
        (some (JsExpr.obj (List.map (fun v => (v.name, JsExpr.str v.name)) td.values)))] else []) = [] := by
    split <;> simp [Stmt.exportsList, Stmt.exports]
  rw [this]
  split <;> simp [Stmt.exportsList, Stmt.exports]

theorem exports_find_representatives (sc : Scope) (x : Ctx) (td : TypeDef)
    (hne : (td.name == x.local td.name) = false) : ∀ (tds : List TypeDef), td ∈ tds →
    (∀ a ∈ tds, a.name = td.name → a = td) →
    (Stmt.exportsList sc (tds.flatMap (representative x))).find? (isExportAt sc td.name)
      = some (sc, x.local td.name, td.name) := by
  intro tds
  induction tds with
  | nil => intro h; cases h
  | cons a r ih =>
    intro hm hdist
    simp only [List.flatMap_cons, exportsList_append, List.find?_append, exports_representative]
    by_cases hat : a = td
    · subst hat; simp [hne, isExportAt]
    · have hne' : a.name ≠ td.name := fun e => hat (hdist a List.mem_cons_self e)
      have : (if a.name == x.local a.name then [] else [(sc, x.local a.name, a.name)]).find? (isExportAt sc td.name)
          = none := by
        split
        · rfl
        · simp [isExportAt, hne']
      rw [this, Option.none_or]
      apply ih
      · rcases List.mem_cons.1 hm with e | e
        · exact absurd e.symm hat
        · exact e
      · exact fun b hb => hdist b (List.mem_cons_of_mem _ hb)

theorem exports_scope_namespaces (c : Cfg) (doc : TsDoc) (P : Scope) : ∀ (ts : List Target) (ss : List Stmt),
    namespaces c doc ts = .ok ss → ∀ y ∈ Stmt.exportsList P ss, y.1 ≠ P := by
  intro ts
  induction ts with
  | nil => intro ss h y hy; simp [namespaces] at h; subst h; simp [Stmt.exportsList] at hy
  | cons t0 rest ih =>
    intro ss h y hy
    simp only [namespaces] at h
    split at h
    · cases h
    · rename_i body0 hb0
      split at h
      · cases h
      · rename_i r hr
        cases h
        simp only [Stmt.exportsList, Stmt.exports, List.mem_append] at hy
        rcases hy with hy | hy
        · rw [exports_scope_namespaceBody _ (P ++ [t0.name]) _ _ hb0 y hy]
          exact fun e => scope_ne_child P _ e.symm
        · exact ih r hr y hy

/-- a RENAMED definition is exported from the top level under its schema name through `export type { … }` -/
theorem schemaFile_export_top {c : Cfg} {doc : TsDoc} {F : File} (hF : schemaFile c doc = .ok F) (P : Scope)
    (td : TypeDef) (hm : td ∈ typeDefsOf doc)
    (hne : (td.name == localName (bag (scalarTypes c doc)) td.name) = false)
    (hdist : ∀ a ∈ typeDefsOf doc, a.name = td.name → a = td) :
    (Stmt.exportsList P F).find? (isExportAt P td.name)
      = some (P, localName (bag (scalarTypes c doc)) td.name, td.name) := by
  obtain ⟨ns, hns, rfl⟩ := schemaFile_eq hF
  simp only [exportsList_append, List.find?_append]
  have hpre : Stmt.exportsList P (prelude doc) = [] := by simp [prelude, Stmt.exportsList, Stmt.exports]
  have hns' : (Stmt.exportsList P ns).find? (isExportAt P td.name) = none := by
    apply List.find?_eq_none.2
    intro y hy
    simp only [isExportAt, Bool.and_eq_true, beq_iff_eq, not_and]
    intro e; exact absurd e (exports_scope_namespaces c doc P _ _ hns y hy)
  rw [hpre, List.find?_nil, Option.none_or, hns', Option.none_or]
  exact exports_find_representatives P (Ctx.new c doc .operationOutput) td hne _ hm hdist

end NitroVerif.SchemaDecls
