/-
C15: the operation type printer model (`Model/OpTypes.lean`: `implTree`, `opDecls`) gives the same selection trees —
up to the source positions inside leaf types — on two document views that agree on the lookups and list the
implementers of every interface in the same order.
-/
import NitroVerif.Lemmas.RoutesOpTypesNorm
import NitroVerif.Lemmas.RoutesViews
namespace NitroVerif.Bridge
open NitroVerif NitroVerif.Gql NitroVerif.SchemaIR NitroVerif.AstSchema NitroVerif.OpTypes

/-- `Agree` + the implementers of every interface, in order -/
structure AgreeImpl (S₁ S₂ : Gql.Schema) : Prop extends Agree S₁ S₂ where
  impl : ∀ i, (implementers S₁ i).map tv = (implementers S₂ i).map tv

def normTagged (x : Tagged) : Tagged := (x.1, normField x.2)

/-- what is visible of a branching condition -/
def cv (c : Cond) : ITypeDef × List (Name × Bool) := (tv c.obj, c.vars)

/-! ### generic -/

theorem mapM_ok_mem {α β ε : Type} {f : α → Except ε β} : ∀ {l : List α} {r : List β}, l.mapM f = .ok r →
    ∀ y ∈ r, ∃ x ∈ l, f x = .ok y
  | [], r, h, y, hy => by
    rw [mapM_nil'] at h
    cases h; cases hy
  | a :: l, r, h, y, hy => by
    rw [mapM_cons'] at h
    cases ha : f a with
    | error e => simp [ha, bind, Except.bind] at h
    | ok b =>
      cases hl : l.mapM f with
      | error e => simp [ha, hl, bind, Except.bind] at h
      | ok bs =>
        simp only [ha, hl, bind, Except.bind, Except.ok.injEq] at h
        subst h
        rcases List.mem_cons.mp hy with rfl | hy'
        · exact ⟨a, by simp, ha⟩
        · obtain ⟨x, hx, hfx⟩ := mapM_ok_mem hl y hy'
          exact ⟨x, by simp [hx], hfx⟩

theorem erasePos_eq_of_convType : ∀ {a b : GType}, convType a = convType b → a.erasePos = b.erasePos := by
  intro a
  induction a with
  | named n p =>
    intro b h
    cases b <;> simp_all [convType, GType.erasePos]
  | list t p ih =>
    intro b h
    cases b with
    | list u q => simp only [convType, IType.list.injEq] at h; simp only [GType.erasePos, ih h]
    | _ => simp [convType] at h
  | nonNull t ih =>
    intro b h
    cases b with
    | nonNull u => simp only [convType, IType.nonNull.injEq] at h; simp only [GType.erasePos, ih h]
    | _ => simp [convType] at h

variable {S₁ S₂ : Gql.Schema}

/-! ### parent objects, branching conditions -/

theorem implementers_mem {S : Gql.Schema} {i : Name} {o : TypeDef} (h : o ∈ implementers S i) :
    Found S o ∧ o.kind = .object := by
  simp only [implementers, List.mem_filterMap] at h
  obtain ⟨n, _, hn⟩ := h
  cases ht : S.typeDef? n with
  | none => simp [ht] at hn
  | some t =>
    simp only [ht] at hn
    split at hn
    · rename_i hc
      have : t = o := by simpa using hn
      subst this
      refine ⟨⟨n, ht⟩, ?_⟩
      simp only [Bool.and_eq_true, typeKind_beq, decide_eq_true_eq] at hc
      exact hc.1
    · cases hn

theorem parentObjects_found {S : Gql.Schema} {n : Name} {objs : List TypeDef} (h : parentObjects S n = .ok objs) :
    ∀ o ∈ objs, Found S o ∧ o.kind = .object := by
  unfold parentObjects at h
  cases ht : S.typeDef? n with
  | none => simp [ht] at h
  | some t =>
    simp only [ht] at h
    cases hk : t.kind <;> simp only [hk] at h
    · cases h
    · have : objs = [t] := by simpa using h.symm
      subst this
      intro o ho
      have : o = t := by simpa using ho
      subst this
      exact ⟨⟨n, ht⟩, hk⟩
    · have : objs = implementers S t.name := by simpa using h.symm
      subst this
      exact fun o ho => implementers_mem ho
    · intro o ho
      obtain ⟨m, _, hm⟩ := mapM_ok_mem h o ho
      cases hx : S.typeDef? m.1 with
      | none => simp [hx] at hm
      | some x =>
        simp only [hx] at hm
        split at hm
        · rename_i hc
          have : x = o := by simpa using hm
          subst this
          exact ⟨⟨m.1, hx⟩, by simpa [typeKind_beq] using hc⟩
        · cases hm
    · cases h
    · cases h

theorem parentObjects_rel (hA : AgreeImpl S₁ S₂) (hC : Closed S₁) {n : Name} (hn : isIntrospectionName n = false) :
    EqOn (List.map tv) (parentObjects S₁ n) (parentObjects S₂ n) := by
  unfold parentObjects
  rcases agree_name hA.toAgree hn with ⟨e1, e2⟩ | ⟨t₁, t₂, e1, e2, ht⟩
  · simp only [e1, e2]; rfl
  · simp only [e1, e2]
    have hk := tv_kind ht
    rw [← hk]
    cases hk1 : t₁.kind <;> simp only
    · rfl
    · exact eqOn_ok (by simp [ht])
    · rw [← tv_name ht]; exact eqOn_ok (hA.impl _)
    · refine eqOn_mapM (v := (·.1)) (tv_members ht hk1) (fun a ha b _ hab => ?_)
      have hab' : a.1 = b.1 := hab
      rw [← hab']
      obtain ⟨hni, _⟩ := hC.members _ _ e1 a ha
      rcases agree_name hA.toAgree hni with ⟨x1, x2⟩ | ⟨o₁, o₂, x1, x2, ho⟩
      · simp only [x1, x2]; rfl
      · simp only [x1, x2, ← tv_kind ho]
        split
        · exact eqOn_ok ho
        · rfl
    · rfl
    · rfl

theorem flatMap_cv (objs : List TypeDef) (as : List (List (Name × Bool))) :
    (objs.flatMap fun o => as.map fun a => (⟨o, a⟩ : Cond)).map cv
      = (objs.map tv).flatMap fun t => as.map fun a => (t, a) := by
  induction objs with
  | nil => rfl
  | cons o r ih => simp [ih, cv, List.map_map, Function.comp_def]

theorem branchConds_rel (hA : AgreeImpl S₁ S₂) (hC : Closed S₁) (F : Frags) (fuel : Nat) (ss : List Selection)
    {n : Name} (hn : isIntrospectionName n = false) :
    EqOn (List.map cv) (branchConds S₁ F fuel ss n) (branchConds S₂ F fuel ss n) := by
  unfold branchConds
  refine eqOn_bind (parentObjects_rel hA hC hn) (fun o₁ o₂ _ _ ho => ?_)
  refine eqOn_bind (h := id) EqOn.rfl' (fun v₁ v₂ _ _ hv => ?_)
  have : v₁ = v₂ := hv
  subst this
  exact eqOn_ok (by rw [flatMap_cv, flatMap_cv, ho])

theorem branchConds_found {S : Gql.Schema} {F : Frags} {fuel : Nat} {ss : List Selection} {n : Name}
    {conds : List Cond} (h : branchConds S F fuel ss n = .ok conds) :
    ∀ c ∈ conds, Found S c.obj ∧ c.obj.kind = .object := by
  unfold branchConds at h
  cases ho : parentObjects S n with
  | error e => simp [ho, bind, Except.bind] at h
  | ok objs =>
    cases hv : boolVars F fuel ss with
    | error e => simp [ho, hv, bind, Except.bind] at h
    | ok vars =>
      simp only [ho, hv, bind, Except.bind, Except.ok.injEq] at h
      subst h
      intro c hc
      simp only [List.mem_flatMap, List.mem_map] at hc
      obtain ⟨o, hom, a, _, rfl⟩ := hc
      exact parentObjects_found ho o hom

/-! ### fields -/

theorem fragmentApplies_rel (hA : Agree S₁ S₂) {o₁ o₂ : TypeDef} (ho : tv o₁ = tv o₂) (hk : o₁.kind = .object)
    {cond : Name} (hn : isIntrospectionName cond = false) :
    fragmentApplies S₁ o₁ cond = fragmentApplies S₂ o₂ cond := by
  unfold fragmentApplies
  rcases agree_name hA hn with ⟨e1, e2⟩ | ⟨c₁, c₂, e1, e2, hc⟩
  · simp only [e1, e2]
  · simp only [e1, e2, ← tv_kind hc, ← tv_name hc, ← tv_name ho]
    cases hk1 : c₁.kind <;> simp only
    · have := implementsIface_congr ho (Or.inl hk) c₁.name
      simp only [CheckOp.implementsIface] at this
      rw [this]
    · rw [membersAny_congr hc hk1 (fun m => m == o₁.name)]

theorem directField?_rel {o₁ o₂ : TypeDef} (ho : tv o₁ = tv o₂) (hk : o₁.kind = .object) (name : Name) :
    (directField? o₁ name = none ∧ directField? o₂ name = none) ∨
    ∃ t₁ t₂, directField? o₁ name = some t₁ ∧ directField? o₂ name = some t₂ ∧ convType t₁ = convType t₂ ∧
      ((∃ f ∈ o₁.fields, f.ty = t₁) ∨ t₁.unwrapped = "String") := by
  unfold directField?
  rcases find_field_rel (tv_fields ho (Or.inl hk)) name with ⟨h1, h2⟩ | ⟨a, b, h1, h2, hab⟩
  · simp only [h1, h2]
    split
    · exact Or.inr ⟨_, _, rfl, rfl, rfl, Or.inr rfl⟩
    · exact Or.inl ⟨rfl, rfl⟩
  · simp only [h1, h2]
    exact Or.inr ⟨_, _, rfl, rfl, fv_ty hab, Or.inl ⟨a, List.mem_of_find?_eq_some h1, rfl⟩⟩

theorem fieldTree_rel (hC : Closed S₁) {o₁ o₂ : TypeDef} (ho : tv o₁ = tv o₂) (hk : o₁.kind = .object)
    (hf : Found S₁ o₁) (key name : Name) (skipped : Bool) (sub : Option (List Selection))
    {rec₁ rec₂ : GType → List Selection → Except Panic SelTree}
    (hrec : ∀ t₁ t₂, convType t₁ = convType t₂ → isIntrospectionName t₁.unwrapped = false → ∀ s, sub = some s →
      EqOn normTree (rec₁ t₁ s) (rec₂ t₂ s)) :
    EqOn normField (fieldTree o₁ key name skipped sub rec₁) (fieldTree o₂ key name skipped sub rec₂) := by
  unfold fieldTree
  split
  · rfl
  · split
    · rfl
    · rcases directField?_rel ho hk name with ⟨h1, h2⟩ | ⟨t₁, t₂, h1, h2, ht, hsrc⟩
      · simp only [h1, h2]; rfl
      · simp only [h1, h2]
        cases sub with
        | none => exact eqOn_ok (by simp [normField, erasePos_eq_of_convType ht])
        | some s =>
          have hni : isIntrospectionName t₁.unwrapped = false := by
            rcases hsrc with ⟨f, hfm, rfl⟩ | hs
            · obtain ⟨n, hn⟩ := hf
              exact (hC.fields n o₁ hn f hfm).1
            · rw [hs]; decide
          exact eqOn_bind (hrec t₁ t₂ ht hni s rfl) (fun x y _ _ hxy => eqOn_ok (by simp [normField, hxy]))

theorem wrapTree_rel {mk₁ mk₂ : Name → Except Panic (List Branch)} : ∀ {p₁ p₂ : GType}, convType p₁ = convType p₂ →
    EqOn (List.map normBranch) (mk₁ p₁.unwrapped) (mk₂ p₁.unwrapped) →
    EqOn normTree (wrapTree mk₁ p₁) (wrapTree mk₂ p₂) := by
  intro p₁
  induction p₁ with
  | named n p =>
    intro p₂ h hm
    cases p₂ with
    | named m q =>
      have : n = m := by simpa [convType] using h
      subst this
      simp only [wrapTree]
      exact eqOn_bind hm (fun x y _ _ hxy => eqOn_ok (by simp [hxy]))
    | _ => simp [convType] at h
  | list t p ih =>
    intro p₂ h hm
    cases p₂ with
    | list u q =>
      simp only [convType, IType.list.injEq] at h
      simp only [wrapTree]
      exact eqOn_bind (ih h hm) (fun x y _ _ hxy => eqOn_ok (by simp [normTree, hxy]))
    | _ => simp [convType] at h
  | nonNull t ih =>
    intro p₂ h hm
    cases p₂ with
    | nonNull u =>
      simp only [convType, IType.nonNull.injEq] at h
      simp only [wrapTree]
      exact eqOn_bind (ih h hm) (fun x y _ _ hxy => eqOn_ok (by simp [normTree, hxy]))
    | _ => simp [convType] at h

theorem toEmpty_norm (fs : List Tagged) : (toEmpty fs).map normTagged = toEmpty (fs.map normTagged) := by
  simp [toEmpty, normTagged, List.map_map, Function.comp_def, normField]

theorem toEmpty_norm' (fs : List Tagged) : toEmpty (fs.map normTagged) = toEmpty fs := by
  simp [toEmpty, normTagged, List.map_map, Function.comp_def]

theorem toEmpty_rel {fs₁ fs₂ : List Tagged} (h : fs₁.map normTagged = fs₂.map normTagged) :
    (toEmpty fs₁).map normTagged = (toEmpty fs₂).map normTagged := by
  rw [toEmpty_norm, toEmpty_norm, h]

theorem filter_snd_norm (p : Bool → Bool) (fs : List Tagged) :
    ((fs.filter (fun x => p x.1)).map (·.2)).map normField
      = ((fs.map normTagged).filter (fun x => p x.1)).map (·.2) := by
  induction fs with
  | nil => rfl
  | cons x r ih =>
    simp only [List.map_cons, List.filter_cons, normTagged]
    cases p x.1 <;> simp [ih]

/-! ### fragments of the document -/

theorem fragsOf_fold_mem (n : Name) : ∀ (d : Doc) (init : Option FragmentDef) (f : FragmentDef),
    d.foldl (fun acc x => match x with
      | .frag f => if f.name == n then some f else acc
      | _ => acc) init = some f → init = some f ∨ ExecDef.frag f ∈ d
  | [], init, f, h => Or.inl h
  | x :: r, init, f, h => by
    simp only [List.foldl_cons] at h
    rcases fragsOf_fold_mem n r _ f h with h' | h'
    · cases x with
      | frag g =>
        simp only at h'
        split at h'
        · have : g = f := by simpa using h'
          subst this
          exact Or.inr (by simp)
        · exact Or.inl h'
      | op o => exact Or.inl h'
      | imp i => exact Or.inl h'
    · exact Or.inr (by simp [h'])

theorem fragsOf_ok' {D : Doc} (hD : docOk D = true) {n : Name} {f : FragmentDef} (h : OpTypes.fragsOf D n = some f) :
    fragOk f = true := by
  unfold OpTypes.fragsOf at h
  rcases fragsOf_fold_mem n D none f h with h' | h'
  · cases h'
  · exact List.all_eq_true.mp hD _ h'

/-! ### the two mutually recursive functions, by induction on the fuel -/

theorem ok_bind' {ε α β : Type} (a : α) (k : α → Except ε β) : (Except.ok a >>= k) = k a := rfl

theorem selsOk_mem : ∀ {ss : List Selection}, selsOk ss = true → ∀ s ∈ ss, selOk s = true
  | [], _, s, hs => by cases hs
  | x :: r, h, s, hs => by
    simp only [selsOk, Bool.and_eq_true] at h
    rcases List.mem_cons.mp hs with rfl | hs'
    · exact h.1
    · exact selsOk_mem h.2 s hs'

/-- the fragments of the document are fine (see `docOk`) -/
def FragsOk (F : Frags) : Prop := ∀ n f, F n = some f → fragOk f = true

theorem implTree_fieldsFor_rel (hA : AgreeImpl S₁ S₂) (hC : Closed S₁) (F : Frags) (hF : FragsOk F) (mfuel : Nat) :
    ∀ fuel,
    (∀ (p₁ p₂ : GType) (ss : List Selection), convType p₁ = convType p₂ → isIntrospectionName p₁.unwrapped = false →
      selsOk ss = true → EqOn normTree (implTree S₁ F mfuel fuel p₁ ss) (implTree S₂ F mfuel fuel p₂ ss)) ∧
    (∀ (c₁ c₂ : Cond) (ss : List Selection), cv c₁ = cv c₂ → Found S₁ c₁.obj → c₁.obj.kind = .object →
      selsOk ss = true →
      EqOn (List.map normTagged) (fieldsFor S₁ F mfuel fuel c₁ ss) (fieldsFor S₂ F mfuel fuel c₂ ss)) := by
  intro fuel
  induction fuel with
  | zero => exact ⟨fun _ _ _ _ _ _ => rfl, fun _ _ _ _ _ _ _ => rfl⟩
  | succ fuel ih =>
    obtain ⟨ih1, ih2⟩ := ih
    refine ⟨fun p₁ p₂ ss hp hni hss => ?_, fun c₁ c₂ ss hc hf hk hss => ?_⟩
    · simp only [implTree]
      refine wrapTree_rel hp ?_
      refine eqOn_bind (branchConds_rel hA hC F mfuel ss hni) (fun cs₁ cs₂ hcs₁ _ hcs => ?_)
      refine eqOn_mapM (v := cv) hcs (fun c₁ hc₁ c₂ _ hc => ?_)
      obtain ⟨hf, hk⟩ := branchConds_found hcs₁ c₁ hc₁
      refine eqOn_bind (ih2 c₁ c₂ ss hc hf hk hss) (fun fs₁ fs₂ _ _ hfs => ?_)
      have hun := deepMerge_eqOn mfuel (fs₁ := (fs₁.filter (!·.1)).map (·.2)) (fs₂ := (fs₂.filter (!·.1)).map (·.2))
        (by rw [filter_snd_norm (fun b => !b), filter_snd_norm (fun b => !b), hfs])
      have hal := deepMerge_eqOn mfuel (fs₁ := (fs₁.filter (·.1)).map (·.2)) (fs₂ := (fs₂.filter (·.1)).map (·.2))
        (by rw [filter_snd_norm (fun b => b), filter_snd_norm (fun b => b), hfs])
      refine eqOn_bind hun (fun u₁ u₂ _ _ hu => ?_)
      refine eqOn_bind hal (fun a₁ a₂ _ _ ha => ?_)
      have hobj : tv c₁.obj = tv c₂.obj := congrArg Prod.fst hc
      have hvars : c₁.vars = c₂.vars := congrArg Prod.snd hc
      exact eqOn_ok (by simp [hu, ha, tv_name hobj, hvars])
    · have hobj : tv c₁.obj = tv c₂.obj := congrArg Prod.fst hc
      have hvars : c₁.vars = c₂.vars := congrArg Prod.snd hc
      obtain ⟨n, hn⟩ := hf
      have hname : c₁.obj.name = n := by simpa using List.find?_some hn
      have hni : isIntrospectionName c₁.obj.name = false := hname ▸ hC.typeNames n _ hn
      have hlook₁ : S₁.typeDef? c₁.obj.name = some c₁.obj := hname ▸ hn
      simp only [fieldsFor]
      rw [← tv_name hobj, ← hvars]
      rcases agree_name hA.toAgree hni with ⟨e1, _⟩ | ⟨t₁, o₂, e1, e2, ho⟩
      · rw [hlook₁] at e1; cases e1
      rw [hlook₁] at e1
      have ht₁ : t₁ = c₁.obj := by simpa using e1.symm
      subst ht₁
      simp only [hlook₁, e2, ok_bind']
      refine eqOn_bind (h := List.map normTagged) ?_ (fun s₁ s₂ _ _ hs => ?_)
      · -- the direct fields
        refine eqOn_filterMapM_same (fun s hs => ?_)
        cases s with
        | field alias name np args dirs sub =>
          simp only
          refine eqOn_bind (h := id) EqOn.rfl' (fun sk₁ sk₂ _ _ hsk => ?_)
          have : sk₁ = sk₂ := hsk
          subst this
          refine eqOn_bind (fieldTree_rel hC ho hk ⟨n, hn⟩ _ name sk₁ sub (fun t₁ t₂ ht hnt s' hs' => ?_))
            (fun f₁ f₂ _ _ hf => eqOn_ok (by simp [normTagged, hf]))
          refine ih1 t₁ t₂ s' ht hnt ?_
          have hsel := selsOk_mem hss _ hs
          subst hs'
          simp only [selOk, Bool.and_eq_true] at hsel
          exact hsel.2
        | spread _ _ _ _ => rfl
        | inline _ _ _ _ => rfl
      · refine eqOn_bind (h := List.map (List.map normTagged)) ?_ (fun f₁ f₂ _ _ hf => ?_)
        · -- the fragments
          refine eqOn_mapM_same (fun s hs => ?_)
          have hsel := selsOk_mem hss _ hs
          cases s with
          | field _ _ _ _ _ _ => rfl
          | spread fn fnp dirs pos =>
            simp only
            cases hfd : F fn with
            | none => rfl
            | some fd =>
              have hfo := hF fn fd hfd
              simp only [fragOk, Bool.and_eq_true, nameOk, Bool.not_eq_true'] at hfo
              simp only
              rw [fragmentApplies_rel hA.toAgree hobj hk hfo.1.2]
              refine eqOn_bind (h := id) EqOn.rfl' (fun b₁ b₂ _ _ hb => ?_)
              have : b₁ = b₂ := hb
              subst this
              cases b₁ with
              | false => rfl
              | true =>
                simp only [if_true]
                refine eqOn_bind (ih2 c₁ c₂ fd.sel hc ⟨n, hn⟩ hk hfo.2) (fun x y _ _ hxy => ?_)
                refine eqOn_bind (h := id) EqOn.rfl' (fun k₁ k₂ _ _ hk' => ?_)
                have : k₁ = k₂ := hk'
                subst this
                cases k₁ with
                | true => exact eqOn_ok (toEmpty_rel hxy)
                | false => exact eqOn_ok hxy
          | inline cond dirs sub pos =>
            cases cond with
            | none =>
              simp only [selOk, Bool.and_eq_true] at hsel
              simp only
              refine eqOn_bind (ih2 c₁ c₂ sub hc ⟨n, hn⟩ hk hsel.2) (fun x y _ _ hxy => ?_)
              refine eqOn_bind (h := id) EqOn.rfl' (fun k₁ k₂ _ _ hk' => ?_)
              have : k₁ = k₂ := hk'
              subst this
              cases k₁ with
              | true => exact eqOn_ok (toEmpty_rel hxy)
              | false => exact eqOn_ok hxy
            | some cp =>
              obtain ⟨cn, cpos⟩ := cp
              simp only [selOk, Bool.and_eq_true, nameOk, Bool.not_eq_true'] at hsel
              simp only
              rw [fragmentApplies_rel hA.toAgree hobj hk hsel.1.2]
              refine eqOn_bind (h := id) EqOn.rfl' (fun b₁ b₂ _ _ hb => ?_)
              have : b₁ = b₂ := hb
              subst this
              cases b₁ with
              | false => rfl
              | true =>
                simp only [if_true]
                refine eqOn_bind (ih2 c₁ c₂ sub hc ⟨n, hn⟩ hk hsel.2) (fun x y _ _ hxy => ?_)
                refine eqOn_bind (h := id) EqOn.rfl' (fun k₁ k₂ _ _ hk' => ?_)
                have : k₁ = k₂ := hk'
                subst this
                cases k₁ with
                | true => exact eqOn_ok (toEmpty_rel hxy)
                | false => exact eqOn_ok hxy
        · exact eqOn_ok (by simp only [List.map_append, List.map_flatten, hs, hf])

end NitroVerif.Bridge
