/-
`Directives` (helper lemmas for Props/C07 `render_parse_directives`): `Directive+` with `Directive = "@" ~ Name ~ Arguments?`,
on the rendering of a non-empty directive list with arbitrary whitespace trivia at every gap (after `@`, between the name
and `(`, inside the arguments, and between / after the directives).

pest detail reproduced by the model: when the optional `Arguments` is absent, the implicit skip in front of it has already
moved over the whitespace that FOLLOWS the directive, so the span of such a `Directive` pair (and of the enclosing
`Directives` pair) includes that trailing whitespace. The lemmas therefore carry the invariant "the cursor after a
directive reaches the start of what follows by an implicit skip" instead of an exact end offset.
-/
import NitroVerif.Lemmas.ParseArgs
namespace NitroVerif.ValueParse
open NitroVerif.Peg NitroVerif.Gen NitroVerif.Gen.Parts NitroVerif.Build NitroVerif.TypeParse NitroVerif.StringParse NitroVerif.Gql

theorem look_Directives : gList.look R.Directives = some (.normal, .plus (.call R.Directive)) := rfl
theorem look_Directive : gList.look R.Directive =
    some (.normal, .seq (.str ['@']) (.seq (.call R.Name) (.opt (.call R.Arguments)))) := rfl

/-- the optional arguments of a directive whose name ends at offset `q` -/
def dirArgsText (τ : Trivia) (q : Nat) : List Arg → List Char
  | [] => []
  | a :: as => τ q ++ renderArgs τ (q + (τ q).length) (a :: as)

/-- end of the name of a directive written at `p` -/
def dQ (τ : Trivia) (p : Nat) (d : Directive) : Nat := p + 1 + (τ (p + 1)).length + d.name.toList.length

/-- the text of a directive written at offset `p`: `@ gap name (gap (args))?` -/
def renderDir (τ : Trivia) (p : Nat) (d : Directive) : List Char :=
  '@' :: (τ (p + 1) ++ (d.name.toList ++ dirArgsText τ (dQ τ p d) d.args))

/-- the children of the `Directive` pair -/
def dirChildren (τ : Trivia) (p : Nat) (d : Directive) : List Pair :=
  .mk R.Name (p + 1 + (τ (p + 1)).length) (dQ τ p d) [] ::
    (match d.args with
     | [] => []
     | a :: as => [argsPair τ (dQ τ p d + (τ (dQ τ p d)).length) (a :: as)])

/-- the directives from offset `q` on, each followed by the gap `τ` gives at its end -/
def dirsFrom (τ : Trivia) : Nat → List Directive → List Char
  | _, [] => []
  | q, d :: ds =>
    renderDir τ q d ++ (τ (q + (renderDir τ q d).length) ++
      dirsFrom τ (q + (renderDir τ q d).length + (τ (q + (renderDir τ q d).length)).length) ds)

/-- the `Directive` pairs: start and children are determined, the end offset is not (trailing whitespace) -/
def DirPairsOk (τ : Trivia) : Nat → List Directive → List Pair → Prop
  | _, [], ps => ps = []
  | q, d :: ds, ps => ∃ e ps', ps = .mk R.Directive q e (dirChildren τ q d) :: ps' ∧
      DirPairsOk τ (q + (renderDir τ q d).length + (τ (q + (renderDir τ q d).length)).length) ds ps'

/-- what may follow the directives: not whitespace (the gap is part of the rendering), not `@`, `(`, a name character -/
def DirEnd (X : List Char) : Prop := HeadNot (fun d => trivia d ∨ nameCont d ∨ d = '(' ∨ d = '@') X

def WFDir (d : Directive) : Prop := validName d.name.toList ∧ WFFs d.args
def WFDirs : List Directive → Prop
  | [] => True
  | d :: ds => WFDir d ∧ WFDirs ds

theorem directive_fails {p : Nat} {X : List Char} (h : HeadNot (· = '@') X) :
    FailsRule gList 3 R.Directive .nonAtomic ⟨p, X⟩ :=
  failsRule_normal look_Directive (nsp (by decide) (by decide)) (fails_seq_first (strL_head_fails h))

theorem arguments_fails {p : Nat} {X : List Char} (h : HeadNot (· = '(') X) :
    FailsRule gList 3 R.Arguments .nonAtomic ⟨p, X⟩ :=
  failsRule_normal look_Arguments (nsp (by decide) (by decide)) (fails_seq_first (strL_head_fails h))

theorem renderDir_length_pos (τ : Trivia) (p : Nat) (d : Directive) : 1 ≤ (renderDir τ p d).length := by
  simp [renderDir]

theorem renderDir_length_ge2 (τ : Trivia) (p : Nat) (d : Directive) (h : WFDir d) : 2 ≤ (renderDir τ p d).length := by
  have : 1 ≤ d.name.toList.length := by
    cases hkl : d.name.toList with
    | nil => have := h.1; rw [hkl] at this; exact absurd this id
    | cons c cs => simp
  simp [renderDir]; omega

/-- one directive, followed by a gap `g` and a text `X` that does not start with whitespace, `(` or a name character: the
    rule succeeds, and from the cursor it ends at the implicit skip reaches the start of `X` -/
theorem directive_runs (τ : Trivia) (hτ : ∀ q, Ws (τ q)) (d : Directive) (hwf : WFDir d) (p : Nat) (g X : List Char)
    (hg : Ws g) (hX : HeadNot (fun c => trivia c ∨ nameCont c ∨ c = '(') X) :
    ∃ c' e, RunsRule gList (B (renderDir τ p d).length + g.length + 30) R.Directive .nonAtomic
        ⟨p, renderDir τ p d ++ (g ++ X)⟩ c' [.mk R.Directive p e (dirChildren τ p d)] ∧
      SkipTo (g.length + 60) c' ⟨p + (renderDir τ p d).length + g.length, X⟩ := by
  obtain ⟨hname, hargs⟩ := hwf
  have hXt : HeadNot trivia X := headNot_mono (fun _ h => Or.inl h) hX
  have hopen : ∀ x : List Char, Runs gList 1 true (.str ['@']) .nonAtomic ⟨p, '@' :: x⟩ ⟨p + 1, x⟩ [] := fun x =>
    runs_str (c := ⟨p, '@' :: x⟩) (by simp [matchStr])
  generalize hg1 : τ (p + 1) = g1
  have hg1ws : Ws g1 := hg1 ▸ hτ _
  have hnt : ∀ x : List Char, HeadNot trivia (d.name.toList ++ x) := by
    intro x
    cases hkl : d.name.toList with
    | nil => rw [hkl] at hname; exact absurd hname id
    | cons c cs => rw [hkl] at hname; exact headNot_cons (nameStart_not_trivia hname.1) _
  have hk1 : 1 ≤ d.name.toList.length := by
    cases hkl : d.name.toList with
    | nil => rw [hkl] at hname; exact absurd hname id
    | cons c cs => simp
  cases hda : d.args with
  | nil =>
    -- no arguments: the skip in front of `Arguments?` moves over `g`, then `Arguments` fails
    have htext : renderDir τ p d = '@' :: (g1 ++ d.name.toList) := by simp [renderDir, hg1, hda, dirArgsText]
    have hch : dirChildren τ p d = [.mk R.Name (p + 1 + g1.length) (p + 1 + g1.length + d.name.toList.length) []] := by
      simp [dirChildren, hda, dQ, hg1]
    rw [htext, hch]
    have hs1 := skip_ws g1 hg1ws (p + 1) (d.name.toList ++ (g ++ X)) (hnt _)
    have hnc : HeadNot nameCont (g ++ X) := by
      cases g with
      | nil => exact headNot_mono (fun _ h => Or.inr (Or.inl h)) hX
      | cons c cs =>
        intro c' r he hc'
        cases he
        rcases hg.head c cs rfl with hw | rfl
        · rcases hw with rfl | rfl | rfl | rfl | rfl | rfl <;> exact absurd hc' (by decide)
        · exact absurd hc' (by decide)
    have hn := runs_call (sk := true) (name_runs hname (p + 1 + g1.length) (g ++ X) hnc)
    have hs2 := skip_ws g hg (p + 1 + g1.length + d.name.toList.length) X hXt
    have hopt : Runs gList 5 true (.opt (.call R.Arguments)) .nonAtomic
        ⟨p + 1 + g1.length + d.name.toList.length + g.length, X⟩ ⟨p + 1 + g1.length + d.name.toList.length + g.length, X⟩ [] :=
      runsL_opt_none (la := .none) (fails_call (arguments_fails (headNot_mono (fun _ h => Or.inr (Or.inr h)) hX)))
    have body := runs_seq_skip' (hopen _) hs1 (runs_seq_skip' hn hs2 hopt)
    have := runsRule_normal look_Directive (nsp (by decide) (by decide)) body
    refine ⟨⟨p + 1 + g1.length + d.name.toList.length + g.length, X⟩, p + 1 + g1.length + d.name.toList.length + g.length,
      RunsRule.cast (this.mono ?_) (by simp) rfl (by simp), SkipTo.cast ((skipTo_noop hXt).mono (by omega)) rfl ?_⟩
    · simp [B]; omega
    · congr 1; simp; omega
  | cons a as =>
    generalize hg2 : τ (p + 1 + g1.length + d.name.toList.length) = g2
    have hg2ws : Ws g2 := hg2 ▸ hτ _
    generalize hat : renderArgs τ (p + 1 + g1.length + d.name.toList.length + g2.length) (a :: as) = at_
    have htext : renderDir τ p d = '@' :: (g1 ++ (d.name.toList ++ (g2 ++ at_))) := by
      simp [renderDir, hg1, hda, dirArgsText, dQ, hg2, hat]
    have hch : dirChildren τ p d = [.mk R.Name (p + 1 + g1.length) (p + 1 + g1.length + d.name.toList.length) [],
        argsPair τ (p + 1 + g1.length + d.name.toList.length + g2.length) (a :: as)] := by
      simp [dirChildren, hda, dQ, hg1, hg2]
    rw [htext, hch]
    have hs1 := skip_ws g1 hg1ws (p + 1) (d.name.toList ++ (g2 ++ (at_ ++ (g ++ X)))) (hnt _)
    have hat0 : ∃ r, at_ = '(' :: r := by rw [← hat]; exact ⟨_, rfl⟩
    obtain ⟨atr, hatr⟩ := hat0
    have hnc : HeadNot nameCont (g2 ++ (at_ ++ (g ++ X))) := by
      cases g2 with
      | nil => rw [hatr]; exact headNot_cons (by decide) _
      | cons c cs =>
        intro c' r he hc'
        cases he
        rcases hg2ws.head c cs rfl with hw | rfl
        · rcases hw with rfl | rfl | rfl | rfl | rfl | rfl <;> exact absurd hc' (by decide)
        · exact absurd hc' (by decide)
    have hn := runs_call (sk := true) (name_runs hname (p + 1 + g1.length) (g2 ++ (at_ ++ (g ++ X))) hnc)
    have hs2 := skip_ws g2 hg2ws (p + 1 + g1.length + d.name.toList.length) (at_ ++ (g ++ X))
      (by rw [hatr]; exact headNot_cons (by decide) _)
    have hok : FieldsOk τ (a :: as) := fun f hf =>
      ⟨(wffs_mem (hda ▸ hargs) hf).1, (wffs_mem (hda ▸ hargs) hf).2,
        value_runs τ hτ f.2.2.size f.2.2 (Nat.le_refl _) (wffs_mem (hda ▸ hargs) hf).2⟩
    have hargsr := arguments_runs τ hτ (a :: as) (by simp) hok (p + 1 + g1.length + d.name.toList.length + g2.length) (g ++ X)
    rw [hat] at hargsr
    have hopt := runsL_opt_some (la := .none) (runs_call (sk := true) hargsr)
    have body := runs_seq_skip' (hopen _) hs1 (runs_seq_skip' hn hs2 hopt)
    have := runsRule_normal look_Directive (nsp (by decide) (by decide)) body
    have hsk := skip_ws g hg (p + 1 + g1.length + d.name.toList.length + g2.length + at_.length) X hXt
    refine ⟨⟨p + 1 + g1.length + d.name.toList.length + g2.length + at_.length, g ++ X⟩,
      p + 1 + g1.length + d.name.toList.length + g2.length + at_.length,
      RunsRule.cast (this.mono ?_) (by simp) rfl (by simp), SkipTo.cast hsk rfl ?_⟩
    · simp [B]; omega
    · congr 1; simp; omega

theorem dirsFrom_head (τ : Trivia) (q : Nat) (ds : List Directive) (X : List Char)
    (hX : HeadNot (fun c => trivia c ∨ nameCont c ∨ c = '(') X) :
    HeadNot (fun c => trivia c ∨ nameCont c ∨ c = '(') (dirsFrom τ q ds ++ X) := by
  cases ds with
  | nil => exact hX
  | cons d ds =>
    simp only [dirsFrom, renderDir, List.cons_append]
    refine headNot_cons ?_ _
    rintro (h | h | h) <;> revert h <;> decide

/-- the loop over the remaining directives, from a cursor that reaches the start of the next one by a skip -/
theorem dirs_sr (τ : Trivia) (hτ : ∀ q, Ws (τ q)) (ds : List Directive) (hwf : WFDirs ds) :
    ∀ (c : Cur) (q : Nat) (k : Nat) (X : List Char), DirEnd X → SkipTo k c ⟨q, dirsFrom τ q ds ++ X⟩ →
      ∃ cE ps, RunsSR (B (dirsFrom τ q ds).length + k + 40) (.call R.Directive) c cE ps ∧ DirPairsOk τ q ds ps ∧
        ∃ k', k' ≤ B (dirsFrom τ q ds).length + k ∧ SkipTo k' cE ⟨q + (dirsFrom τ q ds).length, X⟩ := by
  induction ds with
  | nil =>
    intro c q k X hX hs
    have hf := fails_call (sk := true) (directive_fails (p := q) (X := X) (headNot_mono (fun _ h => Or.inr (Or.inr (Or.inr h))) hX))
    have := runsSR_nil (by simpa [dirsFrom] using hs) hf
    refine ⟨c, [], this.mono (by simp [dirsFrom, B]; omega), rfl, k, by simp [B], by simpa [dirsFrom] using hs⟩
  | cons d ds ih =>
    intro c q k X hX hs
    have hX' : HeadNot (fun c => trivia c ∨ nameCont c ∨ c = '(') X :=
      headNot_mono (fun _ h => match h with
        | Or.inl t => Or.inl t
        | Or.inr (Or.inl n) => Or.inr (Or.inl n)
        | Or.inr (Or.inr o) => Or.inr (Or.inr (Or.inl o))) hX
    obtain ⟨hwd, hwds⟩ := hwf
    generalize hrd : renderDir τ q d = rd at *
    generalize hg : τ (q + rd.length) = g at *
    have hgws : Ws g := hg ▸ hτ _
    have htext : dirsFrom τ q (d :: ds) = rd ++ (g ++ dirsFrom τ (q + rd.length + g.length) ds) := by
      simp [dirsFrom, hrd, hg]
    have hrd1 : 2 ≤ rd.length := hrd ▸ renderDir_length_ge2 τ q d hwd
    rw [htext] at hs ⊢
    simp only [List.append_assoc] at hs
    obtain ⟨c', e, hrun, hsk⟩ := directive_runs τ hτ d hwd q g (dirsFrom τ (q + rd.length + g.length) ds ++ X) hgws
      (dirsFrom_head τ _ ds X hX')
    rw [hrd] at hrun hsk
    obtain ⟨cE, ps', hsr', hok', k', hk', hs'⟩ := ih hwds c' (q + rd.length + g.length) (g.length + 60) X hX hsk
    have := runsSR_cons hs (runs_call (sk := true) hrun) hsr'
    refine ⟨cE, _, this.mono ?_, ?_, k', ?_, SkipTo.cast hs' rfl ?_⟩
    · simp [B]; omega
    · simp only [List.singleton_append]
      refine ⟨e, ps', rfl, ?_⟩
      rw [hrd, hg]
      exact hok'
    · simp [B] at hk' ⊢; omega
    · congr 1; simp; omega

/-- an implicit skip only moves the cursor to the right -/
theorem skipTo_pos_le {n : Nat} {c c' : Cur} (h : SkipTo n c c') : c.pos ≤ c'.pos := by
  obtain ⟨tr', hh⟩ := h {}
  have := hh n (Nat.le_refl _)
  have hc : CurOk (List.replicate c.pos 'x' ++ c.rest) c := ⟨by simp, by simp⟩
  exact ((spanInv gList _ n).sk true .nonAtomic .none {} c tr' c' [] hc this).2.le

/-- the `Directives` rule on a non-empty directive list followed by something that is neither whitespace, `@`, `(` nor
    a name character: one `Directives` pair whose children are the `Directive` pairs, ending at or before the end of the
    rendering (the gap after the last directive may or may not be inside the span) -/
theorem directives_runs (τ : Trivia) (hτ : ∀ q, Ws (τ q)) (d : Directive) (ds : List Directive) (hwf : WFDirs (d :: ds))
    (p : Nat) (X : List Char) (hX : DirEnd X) :
    ∃ cE e ps, RunsRule gList (B (dirsFrom τ p (d :: ds)).length + 80) R.Directives .nonAtomic
        ⟨p, dirsFrom τ p (d :: ds) ++ X⟩ cE [.mk R.Directives p e ps] ∧ DirPairsOk τ p (d :: ds) ps ∧
      cE.pos ≤ p + (dirsFrom τ p (d :: ds)).length := by
  have hX' : HeadNot (fun c => trivia c ∨ nameCont c ∨ c = '(') X :=
    headNot_mono (fun _ h => match h with
      | Or.inl t => Or.inl t
      | Or.inr (Or.inl n) => Or.inr (Or.inl n)
      | Or.inr (Or.inr o) => Or.inr (Or.inr (Or.inl o))) hX
  obtain ⟨hwd, hwds⟩ := hwf
  generalize hrd : renderDir τ p d = rd
  generalize hg : τ (p + rd.length) = g
  have hgws : Ws g := hg ▸ hτ _
  have htext : dirsFrom τ p (d :: ds) = rd ++ (g ++ dirsFrom τ (p + rd.length + g.length) ds) := by
    simp [dirsFrom, hrd, hg]
  have hrd1 : 1 ≤ rd.length := hrd ▸ renderDir_length_pos τ p d
  obtain ⟨c', e1, hrun, hsk⟩ := directive_runs τ hτ d hwd p g (dirsFrom τ (p + rd.length + g.length) ds ++ X) hgws
    (dirsFrom_head τ _ ds X hX')
  rw [hrd] at hrun hsk
  -- `Directive*` from the start of the second directive
  have hstar : ∃ cE ps', Runs gList (B (dirsFrom τ (p + rd.length + g.length) ds).length + g.length + 70) true
      (.star (.call R.Directive)) .nonAtomic ⟨p + rd.length + g.length, dirsFrom τ (p + rd.length + g.length) ds ++ X⟩ cE ps' ∧
      DirPairsOk τ (p + rd.length + g.length) ds ps' ∧
      cE.pos ≤ p + rd.length + g.length + (dirsFrom τ (p + rd.length + g.length) ds).length := by
    cases ds with
    | nil =>
      have hf := fails_call (sk := true) (directive_fails (p := p + rd.length + g.length) (X := X)
        (headNot_mono (fun _ h => Or.inr (Or.inr (Or.inr h))) hX))
      exact ⟨_, [], Runs.cast ((runs_star_sk_nil hf).mono (by first | (simp [dirsFrom, B]; done) | (simp [dirsFrom, B]; omega))) (by simp [dirsFrom]) rfl rfl, rfl,
        by simp [dirsFrom]⟩
    | cons d2 ds2 =>
      obtain ⟨hwd2, hwds2⟩ := hwds
      generalize hq2 : p + rd.length + g.length = q2
      generalize hrd2 : renderDir τ q2 d2 = rd2
      generalize hg2 : τ (q2 + rd2.length) = g2
      have hg2ws : Ws g2 := hg2 ▸ hτ _
      have htext2 : dirsFrom τ q2 (d2 :: ds2) = rd2 ++ (g2 ++ dirsFrom τ (q2 + rd2.length + g2.length) ds2) := by
        simp [dirsFrom, hrd2, hg2]
      have hrd21 : 1 ≤ rd2.length := hrd2 ▸ renderDir_length_pos τ q2 d2
      obtain ⟨c2, e2, hrun2, hsk2⟩ := directive_runs τ hτ d2 hwd2 q2 g2 (dirsFrom τ (q2 + rd2.length + g2.length) ds2 ++ X) hg2ws
        (dirsFrom_head τ _ ds2 X hX')
      rw [hrd2] at hrun2 hsk2
      obtain ⟨cE, ps2, hsr, hok2, k', hk', hs'⟩ := dirs_sr τ hτ ds2 hwds2 c2 (q2 + rd2.length + g2.length) (g2.length + 60) X hX hsk2
      have hst := runs_star_sk_cons (runs_call (sk := true) hrun2) hsr
      -- the end cursor is at or before the end of the text: a skip only moves right
      have hle : cE.pos ≤ q2 + rd2.length + g2.length + (dirsFrom τ (q2 + rd2.length + g2.length) ds2).length :=
        skipTo_pos_le hs'
      rw [htext2]
      refine ⟨cE, _, Runs.cast (hst.mono ?_) (by simp) rfl rfl, ?_, ?_⟩
      · simp [B]; omega
      · simp only [List.singleton_append]
        refine ⟨e2, ps2, rfl, ?_⟩
        rw [hrd2, hg2]
        exact hok2
      · simp; omega
  obtain ⟨cE, ps', hst, hok', hle⟩ := hstar
  have hplus := runs_plus_sk (runs_seq_skip' (runs_call (sk := true) hrun) hsk hst)
  have := runsRule_normal look_Directives (nsp (by decide) (by decide)) hplus
  rw [htext]
  refine ⟨cE, cE.pos, _, RunsRule.cast (this.mono ?_) (by simp) rfl rfl, ?_, ?_⟩
  · simp [B]; omega
  · simp only [List.singleton_append]
    refine ⟨e1, ps', rfl, ?_⟩
    rw [hrd, hg]
    exact hok'
  · simp; omega

/-! ### `build_directives` on that tree -/

/-- `d` with the positions of its tokens when written at offset `q` of `inp` -/
def withPosD (τ : Trivia) (inp : List Char) (q : Nat) (d : Directive) : Directive :=
  { name := d.name, namePos := posAt inp (q + 1 + (τ (q + 1)).length),
    args := withPosFs τ inp (dQ τ q d + (τ (dQ τ q d)).length + 1) true d.args, pos := posAt inp q }

def withPosDs (τ : Trivia) (inp : List Char) : Nat → List Directive → List Directive
  | _, [] => []
  | q, d :: ds =>
    withPosD τ inp q d :: withPosDs τ inp (q + (renderDir τ q d).length + (τ (q + (renderDir τ q d).length)).length) ds

/-- the function `build_directives` maps over the `Directive` children (directives.rs) -/
def dirFn (ctx : Ctx) (fuel : Nat) : Pair → M Gql.Directive := fun d => do
  let pos := toPos ctx d
  match ← matchParts P_Directive d.children with
  | [some name, args] =>
    let args ← optArgs ctx fuel args
    .ok { name := asString ctx name, namePos := toPos ctx name, args, pos }
  | _ => .error (.modelBug "Directive")

theorem buildDirectives_eq (ctx : Ctx) (fuel : Nat) (s e : Nat) (cs : List Pair)
    (hcs : allChildrenGo AC_Directives cs = .ok ()) :
    buildDirectives ctx fuel (.mk R.Directives s e cs) = cs.mapM (dirFn ctx fuel) := by
  unfold dirFn
  simp [buildDirectives, allChildren, Pair.children, hcs, bind, Except.bind]
  rfl

theorem dirFn_pair (τ : Trivia) (inp : List Char) (fuel : Nat) (q e : Nat) (d : Directive) (Y : List Char)
    (h : inp.drop q = renderDir τ q d ++ Y) (hfuel : Value.sizeFields d.args ≤ fuel) :
    dirFn (Ctx.spec inp) fuel (.mk R.Directive q e (dirChildren τ q d)) = .ok (withPosD τ inp q d) := by
  have h1 : inp.drop (q + 1 + (τ (q + 1)).length) = d.name.toList ++ (dirArgsText τ (dQ τ q d) d.args ++ Y) := by
    have : inp.drop (q + 1) = τ (q + 1) ++ (d.name.toList ++ (dirArgsText τ (dQ τ q d) d.args ++ Y)) := by
      rw [← List.drop_drop, h]; simp [renderDir]
    exact drop_after this
  have hname : slice inp (q + 1 + (τ (q + 1)).length) (dQ τ q d) = d.name.toList := by
    have := slice_of_drop h1
    simpa [dQ] using this
  have h2 : inp.drop (dQ τ q d) = dirArgsText τ (dQ τ q d) d.args ++ Y := by
    have := drop_after h1
    simpa [dQ] using this
  cases hda : d.args with
  | nil =>
    simp [dirFn, dirChildren, hda, Pair.children, matchParts, P_Directive, Pair.rule, optArgs, withPosD, withPosFs,
      asString_spec', toPos_spec', Pair.start, Pair.stop, hname, Except.map, bind, Except.bind, R.Name, R.Arguments]
  | cons a as =>
    rw [hda] at h2 hfuel
    have h3 : inp.drop (dQ τ q d + (τ (dQ τ q d)).length) =
        renderArgs τ (dQ τ q d + (τ (dQ τ q d)).length) (a :: as) ++ Y := by
      have : inp.drop (dQ τ q d) = τ (dQ τ q d) ++ (renderArgs τ (dQ τ q d + (τ (dQ τ q d)).length) (a :: as) ++ Y) := by
        simpa [dirArgsText] using h2
      exact drop_after this
    have hb := buildArguments_argsPair τ inp (a :: as) _ Y fuel h3 hfuel
    simp only [argsPair] at hb
    simp [dirFn, dirChildren, argsPair, hda, Pair.children, matchParts, P_Directive, Pair.rule, optArgs, hb, withPosD,
      asString_spec', toPos_spec', Pair.start, Pair.stop, hname, Except.map, bind, Except.bind, R.Name, R.Arguments]

theorem dirs_build (τ : Trivia) (inp : List Char) (fuel : Nat) (ds : List Directive)
    (hfuel : ∀ d ∈ ds, Value.sizeFields d.args ≤ fuel) : ∀ (q : Nat) (ps : List Pair) (X : List Char),
    DirPairsOk τ q ds ps → inp.drop q = dirsFrom τ q ds ++ X →
    allChildrenGo AC_Directives ps = .ok () ∧ ps.mapM (dirFn (Ctx.spec inp) fuel) = .ok (withPosDs τ inp q ds) := by
  induction ds with
  | nil =>
    intro q ps X hok _
    have : ps = [] := hok
    subst this
    exact ⟨rfl, rfl⟩
  | cons d ds ih =>
    intro q ps X hok h
    obtain ⟨e, ps', rfl, hok'⟩ := hok
    simp only [dirsFrom, List.append_assoc] at h
    have h1 := drop_after h
    have h2 := drop_after h1
    obtain ⟨i1, i2⟩ := ih (fun x hx => hfuel x (List.mem_cons_of_mem _ hx)) _ ps' X hok' h2
    have e1 := dirFn_pair τ inp fuel q e d _ h (hfuel d (List.mem_cons_self ..))
    refine ⟨by simp only [allChildrenGo, Pair.rule, AC_Directives, if_true]; exact i1, ?_⟩
    simp [List.mapM_cons, e1, i2, withPosDs, bind, Except.bind, pure, Except.pure]

end NitroVerif.ValueParse
