import NitroVerif.Lemmas.CheckOpVisited
/-!
Directive applications and argument lists of an accepted document: every site the reference validator
enumerates (`dirSites`, `argSites`) was checked by `check_directives` / `check_arguments`.
-/
namespace NitroVerif.CheckOp
open NitroVerif.Gql NitroVerif.CheckCommon NitroVerif.Valid

/-- what a quiet `check_directives` run establishes about a directive list at location `loc` -/
def DirFacts (S : Schema) (A : ErrKind → Bool) (vars : Option (List VarDef)) (site : String × List Directive) : Prop :=
  (∀ d ∈ site.2, ∃ dd, S.directiveDef? d.name = some dd ∧ dd.locations.contains site.1 = true ∧
      Quiet A (checkArguments S vars d.pos d.args dd.args)) ∧
  nodupB ((site.2.filter (nonRepeatable S)).map (·.name)) = true

/-- scan lemma for `check_directives`, for runs that report only allowed kinds -/
theorem checkDirectivesAux_quiet {S : Schema} {A : ErrKind → Bool} (hA : Admissible A)
    {vars : Option (List VarDef)} {loc : String} :
    ∀ (ds : List Directive) (seen : List Name), Quiet A (checkDirectivesAux S vars loc seen ds) →
      (∀ d ∈ ds, ∃ dd, S.directiveDef? d.name = some dd ∧ dd.locations.contains loc = true ∧
        Quiet A (checkArguments S vars d.pos d.args dd.args)) ∧
      (∀ d ∈ ds, nonRepeatable S d = true → d.name ∉ seen) ∧
      nodupB ((ds.filter (nonRepeatable S)).map (·.name)) = true := by
  intro ds
  induction ds with
  | nil => intro _ _; simp [nodupB]
  | cons d ds ih =>
    intro seen h
    simp only [checkDirectivesAux] at h
    cases hd : S.directiveDef? d.name with
    | none =>
      simp only [hd] at h
      have := hA _ (by decide : ErrKind.UnknownDirective ≠ ErrKind.UnknownVariable)
      rw [quiet_cons, this] at h; exact absurd h.1 (by simp)
    | some dd =>
      simp only [hd] at h
      rw [quiet_append, quiet_append, quiet_append] at h
      obtain ⟨⟨⟨h1, h2⟩, h3⟩, h4⟩ := h
      obtain ⟨ihA, ihB, ihC⟩ := ih _ h4
      have hloc : dd.locations.contains loc = true := by
        cases hc : dd.locations.all (· != loc) with
        | true =>
          rw [hc] at h1
          have := hA _ (by decide : ErrKind.DirectiveLocationNotAllowed ≠ ErrKind.UnknownVariable)
          simp only [if_true] at h1
          rw [quiet_single, this] at h1; cases h1
        | false =>
          obtain ⟨x, hx, hxl⟩ : ∃ x ∈ dd.locations, ¬ ((x != loc) = true) := by
            simpa [List.all_eq_true] using hc
          have : x = loc := by simpa using hxl
          subst this
          simpa using hx
      have hnr : nonRepeatable S d = !dd.repeatable := by simp [nonRepeatable, hd]
      have hseen : nonRepeatable S d = true → seen.contains d.name = false := by
        intro hn
        cases hc : seen.contains d.name with
        | false => rfl
        | true =>
          rw [hc] at h2
          rw [hnr] at hn
          have hr : dd.repeatable = false := by simpa using hn
          simp only [if_true, hr, Bool.false_eq_true, if_false] at h2
          have := hA _ (by decide : ErrKind.RepeatedDirective ≠ ErrKind.UnknownVariable)
          rw [quiet_single, this] at h2; cases h2
      refine ⟨?_, ?_, ?_⟩
      · intro e he
        rcases List.mem_cons.mp he with rfl | he
        · exact ⟨dd, hd, hloc, h3⟩
        · exact ihA e he
      · intro e he hn
        rcases List.mem_cons.mp he with rfl | he
        · simpa using hseen hn
        · intro hmem
          refine ihB e he hn ?_
          split
          · exact hmem
          · exact List.mem_append_left _ hmem
      · by_cases hn : nonRepeatable S d = true
        · have hs := hseen hn
          rw [hs] at ihB
          simp only [Bool.false_eq_true, if_false] at ihB
          simp only [List.filter_cons, hn, if_true, List.map_cons, nodupB, Bool.and_eq_true,
            Bool.not_eq_true', ihC, and_true]
          cases hc : ((ds.filter (nonRepeatable S)).map (·.name)).contains d.name with
          | false => rfl
          | true =>
            exfalso
            have : d.name ∈ (ds.filter (nonRepeatable S)).map (·.name) := by simpa using hc
            obtain ⟨e, he, hen⟩ := List.mem_map.mp this
            obtain ⟨he1, he2⟩ := List.mem_filter.mp he
            exact ihB e he1 he2 (by rw [hen]; exact List.mem_append_right _ (by simp))
        · have hn' : nonRepeatable S d = false := by simpa using hn
          simpa [List.filter_cons, hn'] using ihC

theorem dirFacts_of_quiet {S : Schema} {A : ErrKind → Bool} (hA : Admissible A) {vars : Option (List VarDef)}
    {loc : String} {ds : List Directive} (h : Quiet A (checkDirectives S vars ds loc)) : DirFacts S A vars (loc, ds) := by
  obtain ⟨a, _, c⟩ := checkDirectivesAux_quiet hA ds [] h
  exact ⟨a, c⟩

theorem opLocation_eq (k : OpKind) : Valid.opLocation k = CheckOp.opLocation k := by cases k <;> rfl

/-- **Every directive site of the document was checked** at its location -/
theorem dirSites_checked {S : Schema} {D : Doc} (hS : SchemaValid S) (h : checkOp S D = []) :
    ∀ site ∈ dirSites S D, ∃ A vars, Admissible A ∧ DirFacts S A vars site := by
  intro site hs
  simp only [dirSites, List.mem_append, List.mem_flatMap] at hs
  rcases hs with ⟨d, hd, hsd⟩ | hs
  · cases d with
    | imp i => simp [defDirSites] at hsd
    | op o =>
      have ho : o ∈ opsOf D := by simp only [opsOf, List.mem_filterMap]; exact ⟨_, hd, rfl⟩
      obtain ⟨h1, h2, _, _⟩ := accepted_op h ho
      simp only [defDirSites, List.mem_cons, List.mem_map] at hsd
      rcases hsd with rfl | ⟨v, hv, rfl⟩
      · rw [opLocation_eq]
        exact ⟨allowNone, some o.vars, admissible_none, dirFacts_of_quiet admissible_none (quiet_none_iff.mpr h1)⟩
      · exact ⟨allowNone, none, admissible_none,
          dirFacts_of_quiet admissible_none (quiet_none_iff.mpr (checkVariablesAux_dirs o.vars [] h2 v hv))⟩
    | frag f =>
      have hf : f ∈ fragsOf D := by simp only [fragsOf, List.mem_filterMap]; exact ⟨_, hd, rfl⟩
      obtain ⟨A, vars, _, hA, _, hq, _⟩ := frag_walked h (schemaValid_noReserved hS) hf
      simp only [defDirSites, List.mem_singleton] at hsd
      subst hsd
      exact ⟨A, vars, hA, dirFacts_of_quiet hA hq⟩
  · simp only [ctxDirSites, List.mem_map] at hs
    obtain ⟨ps, hps, rfl⟩ := hs
    obtain ⟨A, k, seen, vars, hA, hl⟩ := all_visited h (schemaValid_noReserved hS) ps hps
    obtain ⟨p, s⟩ := ps
    cases p with
    | none => exact absurd hl (by simp [LocalFact])
    | some t =>
      simp only [LocalFact] at hl
      obtain ⟨root, fields, _, _, hl⟩ := hl
      cases s with
      | field al name namePos args dirs sel =>
        obtain ⟨_, _, hq, _⟩ := hl
        exact ⟨A, vars, hA, dirFacts_of_quiet hA hq⟩
      | spread name namePos dirs pos => exact ⟨A, vars, hA, dirFacts_of_quiet hA hl.1⟩
      | inline cond dirs ss pos => exact ⟨A, vars, hA, dirFacts_of_quiet hA hl.1⟩

/-- **Every argument list of the document was checked** against the argument definitions the reference
    validator pairs it with -/
theorem argSites_checked {S : Schema} {D : Doc} (hS : SchemaValid S) (h : checkOp S D = []) :
    ∀ site ∈ argSites S D, ∃ A vars pos, Admissible A ∧ Quiet A (checkArguments S vars pos site.args site.defs) := by
  intro site hs
  simp only [argSites, List.mem_append] at hs
  rcases hs with hs | hs
  · simp only [fieldArgSites, List.mem_filterMap] at hs
    obtain ⟨ps, hps, hsite⟩ := hs
    obtain ⟨A, k, seen, vars, hA, hl⟩ := all_visited h (schemaValid_noReserved hS) ps hps
    obtain ⟨p, s⟩ := ps
    cases p with
    | none => exact absurd hl (by simp [LocalFact])
    | some t =>
      cases s with
      | spread => simp at hsite
      | inline => simp at hsite
      | field al name namePos args dirs sel =>
        simp only [LocalFact] at hl
        obtain ⟨root, fields, hn, hf, fd, hfd, _, hq, _⟩ := hl
        simp only [fieldDef?_eq_find (schemaValid_noReserved hS) hn hf, hfd, Option.map_some, Option.some.injEq] at hsite
        subst hsite
        exact ⟨A, vars, namePos, hA, hq⟩
  · simp only [dirArgSites, List.mem_flatMap, List.mem_filterMap] at hs
    obtain ⟨ds, hds, d, hd, hsite⟩ := hs
    obtain ⟨A, vars, hA, hfacts, _⟩ := dirSites_checked hS h ds hds
    obtain ⟨dd, hdd, _, hq⟩ := hfacts d hd
    simp only [hdd, Option.map_some, Option.some.injEq] at hsite
    subst hsite
    exact ⟨A, vars, d.pos, hA, hq⟩

end NitroVerif.CheckOp
