/-
C15: the resolvers declaration file model (`Model/ResolverDecls.lean`) on the two routes.  Per definition the printer
writes the same alias and the same `Resolvers<Context>` entry for a definition of the SDL document and for its twin in the
JSON document; with the order of the JSON route's definitions (`Lemmas/RoutesResolversOrder.lean`) this gives both files in
closed form over the same per-definition pieces.
-/
import NitroVerif.Lemmas.RoutesResolversOrder
import NitroVerif.Model.ResolverDecls
namespace NitroVerif.Bridge
open NitroVerif NitroVerif.Gql NitroVerif.SchemaIR NitroVerif.AstSchema NitroVerif.SchemaDecls NitroVerif.DeclCfg
open NitroVerif.IntrospectSpec NitroVerif.Routes NitroVerif.CliSchema NitroVerif.ResolverDecls NitroVerif.Ts

/-! ### the file as an assembly of per-definition pieces -/

/-- the four fixed statements at the top of the resolvers file -/
def resolversHeader : List Stmt :=
  [.import "graphql" true (.named [("GraphQLResolveInfo", "GraphQLResolveInfo")]),
   .import schemaSource true (.star schemaNs),
   .rawType false "__Resolver" resolverText,
   .rawType false "__TypeResolver" typeResolverText]

/-- `type X = …` of one definition (`get_ts_type_for_resolver_output`) -/
def aliasOf (s : Gql.Schema) (td : TypeDef) : Stmt := .type false td.name [] (resolverOutputType s td)

/-- the field of `Resolvers<Context>` of one definition (`get_resolver_type`), if it has one -/
def entryOf (s : Gql.Schema) (td : TypeDef) : Option Ts.Field :=
  match resolverType s td with
  | some t => some (td.name, false, isEmptyObject t, t)
  | none => none

/-- not an input object (input objects get no alias in the resolvers file) -/
def isOut (td : TypeDef) : Bool := td.kind != .input

/-- header, aliases, `Resolvers<Context>` over `entries`, `ResolverOutput<T extends …>` over `names` -/
def assemble (aliases : List Stmt) (entries : List Ts.Field) (names : List Name) : File :=
  resolversHeader ++ aliases ++
    [.type true "Resolvers" [("Context", none)] (.obj entries),
     .type true "ResolverOutput" [("T", some (tsUnion (names.map .strLit)))]
       (.index (.obj (names.map fun n => (n, false, false, .ref n))) (.ref "T"))]

theorem resolversFile_assemble (c : Cfg) (doc : TsDoc) :
    resolversFile c doc =
      assemble (((typeDefsOf doc).filter isOut).map (aliasOf ⟨doc⟩)) ((typeDefsOf doc).filterMap (entryOf ⟨doc⟩))
        (((typeDefsOf doc).filter isOut).map (·.name)) := by
  simp only [resolversFile, assemble, resolversHeader, rootResolvers, List.map_map, Function.comp_def]
  rfl

/-! ### a definition and its twin -/

theorem twin_members (td : TypeDef) (hk : td.kind = .union) : (twin td).members.map (·.1) = td.members.map (·.1) :=
  unionBody_twin td hk

theorem map_fst_factor {α : Type} (g : Name → α) (ms : List (Name × Pos)) :
    ms.map (fun m => g m.1) = (ms.map (·.1)).map g := by
  simp [List.map_map, Function.comp_def]

/-- **the alias type of a definition and of its twin are equal** (objects: `Omit<Schema.__ResolverOutput.X,
    "__typename">`; interfaces: the union of the object implementers, in the same order; unions: the members in order) -/
theorem resolverOutputType_routes (M : TsDoc) (hn : ((userTypes M).map (·.name)).Nodup) (td : TypeDef) :
    resolverOutputType ⟨docSdl M⟩ td = resolverOutputType ⟨docJson M⟩ (twin td) := by
  unfold resolverOutputType
  rw [twin_kind, twin_name]
  cases hk : td.kind <;> simp only []
  · rw [objectImplementers_docs M hn]
  · rw [map_fst_factor Ty.ref td.members, map_fst_factor Ty.ref (twin td).members, twin_members td hk]

theorem argsType_roundtrip (args : List InputValueDef) :
    argsType (args.map fun a => unconvIV (convIV a)) = argsType args := by
  simp only [argsType, List.map_map, Function.comp_def, unconvIV, convIV, tsOf_roundtrip]

/-- `__Resolver<Parent, Args, Context, Result>` of a field and of its copy on the JSON route are equal: argument names,
    argument types, result type. (Descriptions, deprecations and default values are not part of it.) -/
theorem fieldResolver_roundtrip (parent : Name) (f : FieldDef) :
    fieldResolver parent (unconvField (convField f)) = fieldResolver parent f := by
  simp only [fieldResolver, unconvField, convField, List.map_map, tsOf_roundtrip, Function.comp_def,
    argsType_roundtrip]

theorem twin_fields (td : TypeDef) (hk : td.kind = .object) :
    (twin td).fields = td.fields.map fun f => unconvField (convField f) := by
  simp only [twin, convTypeDef, unconvTypeDef, hk, List.map_map, Function.comp_def]

/-- **the `Resolvers<Context>` type of a definition and of its twin are equal** -/
theorem resolverType_routes (M : TsDoc) (hn : ((userTypes M).map (·.name)).Nodup) (td : TypeDef) :
    resolverType ⟨docSdl M⟩ td = resolverType ⟨docJson M⟩ (twin td) := by
  unfold resolverType
  rw [twin_kind, twin_name]
  cases hk : td.kind <;> simp only []
  · rw [twin_fields td hk, List.map_map]
    simp only [Function.comp_def, fieldResolver_roundtrip]
    rfl
  · rw [objectImplementers_docs M hn]
  · rw [twin_members td hk]

theorem aliasOf_routes (M : TsDoc) (hn : ((userTypes M).map (·.name)).Nodup) (td : TypeDef) :
    aliasOf ⟨docSdl M⟩ td = aliasOf ⟨docJson M⟩ (twin td) := by
  unfold aliasOf
  rw [resolverOutputType_routes M hn, twin_name]

theorem entryOf_routes (M : TsDoc) (hn : ((userTypes M).map (·.name)).Nodup) (td : TypeDef) :
    entryOf ⟨docSdl M⟩ td = entryOf ⟨docJson M⟩ (twin td) := by
  unfold entryOf
  rw [resolverType_routes M hn, twin_name]

theorem isOut_twin (td : TypeDef) : isOut (twin td) = isOut td := by
  unfold isOut
  rw [twin_kind]

/-! ### scalars and the `__*` definitions do not look at the schema -/

/-- the alias of a scalar named `n` -/
def scalarAlias (n : Name) : Stmt :=
  .type false n [] (.qref [schemaNs, Target.resolverOutput.name, n])

theorem aliasOf_scalar (s : Gql.Schema) (td : TypeDef) (hk : td.kind = .scalar) : aliasOf s td = scalarAlias td.name := by
  simp only [aliasOf, scalarAlias, resolverOutputType, hk]

theorem entryOf_scalar (s : Gql.Schema) (td : TypeDef) (hk : td.kind = .scalar) : entryOf s td = none := by
  simp only [entryOf, resolverType, hk]

theorem aliasOf_noniface (s s' : Gql.Schema) (td : TypeDef) (hk : td.kind ≠ .interface) : aliasOf s td = aliasOf s' td := by
  unfold aliasOf resolverOutputType
  cases h : td.kind <;> first | rfl | exact absurd h hk

theorem entryOf_noniface (s s' : Gql.Schema) (td : TypeDef) (hk : td.kind ≠ .interface) : entryOf s td = entryOf s' td := by
  unfold entryOf resolverType
  cases h : td.kind <;> first | rfl | exact absurd h hk

theorem introDefs_noniface : ∀ td ∈ introDefs, td.kind ≠ .interface := by
  intro td h
  simp only [introDefs, List.mem_map] at h
  obtain ⟨t, ht, rfl⟩ := h
  rw [unconvTypeDef_kind]
  revert t
  decide

/-- the aliases / `Resolvers` entries / names of the eight `__*` definitions: constants -/
def introAliases : List Stmt := (introDefs.filter isOut).map (aliasOf ⟨[]⟩)
def introEntries : List Ts.Field := introDefs.filterMap (entryOf ⟨[]⟩)
def introNames : List Name := (introDefs.filter isOut).map (·.name)

theorem map_congr_mem {α β : Type} {f g : α → β} {l : List α} (h : ∀ x ∈ l, f x = g x) : l.map f = l.map g :=
  List.map_congr_left h

theorem introAliases_eq (s : Gql.Schema) : (introDefs.filter isOut).map (aliasOf s) = introAliases :=
  List.map_congr_left fun td h => aliasOf_noniface s ⟨[]⟩ td (introDefs_noniface td (List.mem_filter.mp h).1)

theorem introEntries_eq (s : Gql.Schema) : introDefs.filterMap (entryOf s) = introEntries := by
  unfold introEntries
  have : ∀ l : List TypeDef, (∀ td ∈ l, td.kind ≠ .interface) → l.filterMap (entryOf s) = l.filterMap (entryOf ⟨[]⟩) := by
    intro l
    induction l with
    | nil => intro _; rfl
    | cons a r ih =>
      intro h
      simp only [List.filterMap_cons, entryOf_noniface s ⟨[]⟩ a (h a (by simp)), ih (fun x hx => h x (by simp [hx]))]
  exact this _ introDefs_noniface

/-! ### lists of built-in scalars -/

theorem scalarDefJ_kind (n : String) : (scalarDefJ n).kind = .scalar := rfl
theorem scalarDefJ_name (n : String) : (scalarDefJ n).name = n := rfl
theorem scalarDefS_kind (n : String) : (scalarDefS n).kind = .scalar := rfl
theorem scalarDefS_name (n : String) : (scalarDefS n).name = n := rfl

/-- a list of scalar definitions built from names by `mk` -/
structure ScalarMk (mk : String → TypeDef) : Prop where
  kind : ∀ n, (mk n).kind = .scalar
  name : ∀ n, (mk n).name = n

theorem scalarMk_J : ScalarMk scalarDefJ := ⟨scalarDefJ_kind, scalarDefJ_name⟩
theorem scalarMk_S : ScalarMk scalarDefS := ⟨scalarDefS_kind, scalarDefS_name⟩

theorem scalars_filter {mk : String → TypeDef} (h : ScalarMk mk) (l : List String) : (l.map mk).filter isOut = l.map mk := by
  rw [List.filter_eq_self]
  intro td htd
  obtain ⟨n, _, rfl⟩ := List.mem_map.mp htd
  rw [isOut, h.kind n]
  rfl

theorem scalars_alias {mk : String → TypeDef} (h : ScalarMk mk) (s : Gql.Schema) (l : List String) :
    (l.map mk).map (aliasOf s) = l.map scalarAlias := by
  rw [List.map_map]
  apply List.map_congr_left
  intro n _
  simp only [Function.comp_def, aliasOf_scalar s _ (h.kind n), h.name n]

theorem scalars_entry {mk : String → TypeDef} (h : ScalarMk mk) (s : Gql.Schema) (l : List String) :
    (l.map mk).filterMap (entryOf s) = [] := by
  rw [List.filterMap_eq_nil_iff]
  intro td htd
  obtain ⟨n, _, rfl⟩ := List.mem_map.mp htd
  exact entryOf_scalar s _ (h.kind n)

theorem scalars_names {mk : String → TypeDef} (h : ScalarMk mk) (l : List String) : (l.map mk).map (·.name) = l := by
  rw [List.map_map]
  conv => rhs; rw [← List.map_id l]
  apply List.map_congr_left
  intro n _
  simp [h.name n]

/-! ### the two files -/

/-- the aliases, `Resolvers` entries and alias names of the definitions of `M`, as the SDL route prints them -/
def userAliases (M : TsDoc) : List Stmt := ((typeDefsOf M).filter isOut).map (aliasOf ⟨docSdl M⟩)
def userEntries (M : TsDoc) : List Ts.Field := (typeDefsOf M).filterMap (entryOf ⟨docSdl M⟩)
def userNames (M : TsDoc) : List Name := ((typeDefsOf M).filter isOut).map (·.name)

/-- **the SDL route's resolvers file in closed form** -/
theorem resolversFile_docSdl (c : Cfg) (M : TsDoc) :
    resolversFile c (docSdl M) =
      assemble (userAliases M ++ builtinScalarNames.map scalarAlias) (userEntries M) (userNames M ++ builtinScalarNames) := by
  rw [resolversFile_assemble, typeDefsOf_docSdl_closed]
  simp only [List.filter_append, List.map_append, List.filterMap_append, scalars_filter scalarMk_S,
    scalars_alias scalarMk_S, scalars_entry scalarMk_S, scalars_names scalarMk_S, List.append_nil]
  rfl

theorem filter_map_twin (l : List TypeDef) : (l.map twin).filter isOut = (l.filter isOut).map twin := by
  rw [List.filter_map]
  congr 1
  apply List.filter_congr
  intro td _
  exact isOut_twin td

/-- **the JSON route's resolvers file in closed form**, over the SAME per-definition pieces of the definitions of `M` -/
theorem resolversFile_docJson (c : Cfg) {M : TsDoc} (h : OrderOk M) :
    resolversFile c (docJson M) =
      assemble
        (userAliases M ++ (refNames M).map scalarAlias ++ introAliases ++ (restNames M).map scalarAlias)
        (userEntries M ++ introEntries)
        (userNames M ++ refNames M ++ introNames ++ restNames M) := by
  rw [resolversFile_assemble, typeDefsOf_docJson_closed h]
  simp only [List.filter_append, List.map_append, List.filterMap_append, scalars_filter scalarMk_J,
    scalars_alias scalarMk_J, scalars_entry scalarMk_J, scalars_names scalarMk_J, List.append_nil,
    introAliases_eq, introEntries_eq, filter_map_twin]
  have h1 : (((typeDefsOf M).filter isOut).map twin).map (aliasOf ⟨docJson M⟩) = userAliases M := by
    rw [List.map_map]
    exact List.map_congr_left fun td _ => (aliasOf_routes M h.names td).symm
  have h2 : ((typeDefsOf M).map twin).filterMap (entryOf ⟨docJson M⟩) = userEntries M := by
    rw [List.filterMap_map]
    unfold userEntries
    congr 1
    funext td
    exact (entryOf_routes M h.names td).symm
  have h3 : (((typeDefsOf M).filter isOut).map twin).map (·.name) = userNames M := by
    rw [List.map_map]
    exact List.map_congr_left fun td _ => twin_name td
  rw [h1, h2, h3]
  rfl

end NitroVerif.Bridge
