/-
Helper definitions and lemmas for the composition C12 ∘ C13 (runtime documents FROM FILES).

A *project* is a finite map from resolved paths to parsed + extension-resolved source files whose definitions are
real `Gql.ExecDef`s.  `absFS` forgets everything the import resolver (`Model/Imports.lean`) does not read (a
definition becomes `frag (code name)` / `other`), `materialise` turns the (file, index) pairs the resolver returns back
into definitions, `resolveDoc` is `resolve_operation_imports` at the level of documents (the root's own definitions
followed by the imported ones, as the code appends them) and `refDoc` is the same document built from the REFERENCE
import set (`Spec/Imports.lean refImports`).

No property statements here (they are in `Props/C12Composed.lean`).
-/
import NitroVerif.Lemmas.FragClosure
import NitroVerif.Lemmas.DocJson
import NitroVerif.Lemmas.Imports
import NitroVerif.Props.C13
namespace NitroVerif.Composed
open NitroVerif NitroVerif.Gql NitroVerif.Imports NitroVerif.Imports.Spec NitroVerif.FragClosure NitroVerif.C12

set_option linter.unusedSectionVars false

variable {κ ρ : Type} [DecidableEq κ] [DecidableEq ρ]

/-- a parsed + extension-resolved operation file: merged import lines (fragment names `Nat`-coded, as in
    `Model/Imports.lean`) and the executable definitions in file order -/
structure SrcFile (ρ : Type) where
  imports : List (Import ρ)
  defs : List ExecDef

/-- the finite set of files the `OperationResolver` knows (first entry of a path wins) -/
abbrev Project (κ ρ : Type) := List (κ × SrcFile ρ)

/-- what the import resolver reads of a definition: "fragment named n" or "something else" -/
def absDef (code : Name → Nat) : ExecDef → Def
  | .frag f => .frag (code f.name)
  | _ => .other

def absFile (code : Name → Nat) (f : SrcFile ρ) : File ρ := ⟨f.imports, f.defs.map (absDef code)⟩

def absFS (code : Name → Nat) (fs : Project κ ρ) : FS κ ρ := fs.map fun e => (e.1, absFile code e.2)

/-- the definition a (file, index) pair denotes -/
def defAt (fs : Project κ ρ) (x : DefId κ) : Option ExecDef :=
  match fs.lookup x.1 with
  | none => none
  | some f => f.defs[x.2]?

/-- `definitions.extend(.. def.clone())` for the pairs the resolver selected -/
def materialise (fs : Project κ ρ) (out : List (DefId κ)) : List ExecDef := out.filterMap (defAt fs)

variable (code : Name → Nat) (res : κ → ρ → κ) (fs : Project κ ρ) (root : κ) (rootFile : SrcFile ρ)

/-- `resolve_operation_imports((root, rootFile), fs)` at document level: the root's own definitions followed by the
    requested definitions of the imported files -/
def resolveDoc : Res κ ρ (List ExecDef) :=
  match resolve res (absFS code fs) root (absFile code rootFile) with
  | .ok out => .ok (rootFile.defs ++ materialise fs out)
  | .err e => .err e
  | .outOfFuel => .outOfFuel

/-- the document built from the REFERENCE import set: root's definitions followed by the definitions the
    specification says must be imported (`refImports`, in the reference's own order) -/
def refDoc : List ExecDef :=
  rootFile.defs ++ materialise fs (refImports res (absFS code fs) root (absFile code rootFile))

/-! ### the abstraction commutes with lookups -/

theorem lookup_absFS (p : κ) : (absFS code fs).lookup p = (fs.lookup p).map (absFile code) := by
  induction fs with
  | nil => rfl
  | cons e r ih =>
    obtain ⟨k, f⟩ := e
    simp only [absFS, List.map_cons, List.lookup_cons]
    cases hk : (p == k) with
    | true => simp
    | false => simpa [absFS] using ih

theorem defsAt_absFS (p : κ) : defsAt (absFS code fs) p = (fs.lookup p).map fun f => f.defs.map (absDef code) := by
  simp only [defsAt, lookup_absFS, Option.map_map]
  rfl

theorem absDef_frag {code : Name → Nat} {d : ExecDef} {n : Nat} (h : absDef code d = .frag n) :
    ∃ f, d = .frag f ∧ code f.name = n := by
  cases d with
  | frag f => simp only [absDef, Def.frag.injEq] at h; exact ⟨f, rfl, h⟩
  | op o => simp [absDef] at h
  | imp i => simp [absDef] at h

/-! ### materialising -/

theorem mem_materialise (out : List (DefId κ)) (d : ExecDef) :
    d ∈ materialise fs out ↔ ∃ x ∈ out, defAt fs x = some d := by
  simp [materialise, List.mem_filterMap]

theorem materialise_perm {out out' : List (DefId κ)} (h : out.Perm out') :
    (materialise fs out).Perm (materialise fs out') := h.filterMap _

/-- every pair of the reference set denotes a definition (a fragment) -/
theorem defAt_of_inRef {x : DefId κ} (h : InRef res (absFS code fs) root (absFile code rootFile) x) :
    ∃ f, defAt fs x = some (.frag f) := by
  obtain ⟨⟨q, imp, ds, n, _, _, _, hds, hi, _⟩, _⟩ := h
  rw [defsAt_absFS] at hds
  cases hl : fs.lookup x.1 with
  | none => rw [hl] at hds; cases hds
  | some sf =>
    rw [hl] at hds
    simp only [Option.map_some, Option.some.injEq] at hds
    subst hds
    rw [List.getElem?_map] at hi
    cases hd : sf.defs[x.2]? with
    | none => rw [hd] at hi; cases hi
    | some d =>
      rw [hd] at hi
      simp only [Option.map_some, Option.some.injEq] at hi
      obtain ⟨f, rfl, _⟩ := absDef_frag hi
      exact ⟨f, by simp [defAt, hl, hd]⟩

theorem materialise_length_of_inRef {out : List (DefId κ)}
    (h : ∀ x ∈ out, InRef res (absFS code fs) root (absFile code rootFile) x) :
    (materialise fs out).length = out.length := by
  induction out with
  | nil => rfl
  | cons x r ih =>
    obtain ⟨f, hf⟩ := defAt_of_inRef code res fs root rootFile (h x (by simp))
    have := ih (fun y hy => h y (by simp [hy]))
    simp [materialise, hf] at this ⊢
    exact this

/-! ### fragment names, `getFrag` under unique names -/

theorem fragNamesOf_eq_filterMap (l : List ExecDef) :
    fragNamesOf l = l.filterMap fun | .frag f => some f.name | _ => none := by
  induction l with
  | nil => rfl
  | cons d r ih => cases d <;> simp [fragNamesOf, ih]

theorem mem_fragNamesOf (l : List ExecDef) (n : Name) :
    n ∈ fragNamesOf l ↔ ∃ f, ExecDef.frag f ∈ l ∧ f.name = n := by
  rw [fragNamesOf_eq_filterMap, List.mem_filterMap]
  constructor
  · rintro ⟨d, hd, h⟩
    cases d with
    | frag f => simp only [Option.some.injEq] at h; exact ⟨f, hd, h⟩
    | op o => cases h
    | imp i => cases h
  · rintro ⟨f, hf, rfl⟩
    exact ⟨.frag f, hf, rfl⟩

theorem fragNamesOf_append (a b : List ExecDef) : fragNamesOf (a ++ b) = fragNamesOf a ++ fragNamesOf b := by
  simp [fragNamesOf_eq_filterMap]

theorem fragNamesOf_perm {l l' : List ExecDef} (h : l.Perm l') : (fragNamesOf l).Perm (fragNamesOf l') := by
  rw [fragNamesOf_eq_filterMap, fragNamesOf_eq_filterMap]
  exact h.filterMap _

/-- `fragments.get(name)` is defined exactly for the names of the document's fragment definitions -/
theorem getFrag_isSome_iff (l : List ExecDef) (n : Name) : (getFrag l n).isSome = true ↔ n ∈ fragNamesOf l := by
  constructor
  · intro h
    cases hg : getFrag l n with
    | none => rw [hg] at h; cases h
    | some f => exact (getFrag_some l n f hg).2.1
  · intro h
    induction l with
    | nil => simp [fragNamesOf] at h
    | cons d r ih =>
      cases d with
      | frag f =>
        simp only [fragNamesOf, List.mem_cons] at h
        simp only [getFrag]
        cases hr : getFrag r n with
        | some g => rfl
        | none =>
          rcases h with rfl | h
          · simp
          · have := ih h; rw [hr] at this; cases this
      | op o => simp only [fragNamesOf] at h; simpa [getFrag] using ih h
      | imp i => simp only [fragNamesOf] at h; simpa [getFrag] using ih h

/-- the HashMap is collected in document order: in `a ++ b` a definition of `b` shadows every definition of the same
    name in `a` — an IMPORTED fragment (appended after the root's own definitions) wins over a local one -/
theorem getFrag_append (a b : List ExecDef) (n : Name) :
    getFrag (a ++ b) n = match getFrag b n with
      | some g => some g
      | none => getFrag a n := by
  induction a with
  | nil => cases hb : getFrag b n <;> simp [getFrag, hb]
  | cons d r ih =>
    cases d with
    | frag f =>
      simp only [List.cons_append, getFrag, ih]
      cases getFrag b n <;> rfl
    | op o => simpa [getFrag] using ih
    | imp i => simpa [getFrag] using ih

/-- with unique names, `fragments.get(n)` is THE fragment definition named `n` -/
theorem getFrag_eq_some_iff (l : List ExecDef) (hu : (fragNamesOf l).Nodup) (n : Name) (f : FragmentDef) :
    getFrag l n = some f ↔ ExecDef.frag f ∈ l ∧ f.name = n := by
  constructor
  · intro h; obtain ⟨h1, _, h3⟩ := getFrag_some l n f h; exact ⟨h3, h1⟩
  · rintro ⟨hf, rfl⟩; exact getFrag_unique l hu f hf

/-- … hence it does not depend on the order of the definitions -/
theorem getFrag_perm {l l' : List ExecDef} (h : l.Perm l') (hu : (fragNamesOf l).Nodup) (n : Name) :
    getFrag l n = getFrag l' n := by
  have hu' : (fragNamesOf l').Nodup := (fragNamesOf_perm h).nodup_iff.mp hu
  cases hg : getFrag l n with
  | some f =>
    obtain ⟨hm, hn⟩ := (getFrag_eq_some_iff l hu n f).mp hg
    exact ((getFrag_eq_some_iff l' hu' n f).mpr ⟨h.mem_iff.mp hm, hn⟩).symm
  | none =>
    cases hg' : getFrag l' n with
    | none => rfl
    | some f =>
      obtain ⟨hm, hn⟩ := (getFrag_eq_some_iff l' hu' n f).mp hg'
      have := (getFrag_eq_some_iff l hu n f).mpr ⟨h.mem_iff.mpr hm, hn⟩
      rw [hg] at this; cases this

theorem lookupAll_congr {a b : List ExecDef} (h : ∀ n, getFrag a n = getFrag b n) (ns : List Name) :
    lookupAll a ns = lookupAll b ns := by
  induction ns with
  | nil => rfl
  | cons n r ih => simp only [lookupAll, h n, ih]

/-- the runtime documents depend on the document only through its `fragments` map and its length (the depth
    bound of the model) -/
theorem runtimeDefs_congr {a b : List ExecDef} (h : ∀ n, getFrag a n = getFrag b n) (hl : a.length = b.length)
    (x : ExecDef) : runtimeDefs a x = runtimeDefs b x := by
  have hg : getFrag a = getFrag b := funext h
  have hn : ∀ ss, fragmentNames a ss = fragmentNames b ss := by
    intro ss; simp only [fragmentNames, bound, hg, hl]
  have hw : ∀ y o, withNames a y o = withNames b y o := by
    intro y o
    cases o with
    | none => rfl
    | some ns => simp only [withNames, lookupAll_congr h ns]
  cases x with
  | op o => simp only [runtimeDefs, opNames, hn, hw]
  | frag f => simp only [runtimeDefs, fragNames, hn, hw]
  | imp i => rfl

theorem fragDefs_congr {a b : List ExecDef} (h : ∀ n, getFrag a n = getFrag b n) (ns : List Name) :
    fragDefs a ns = fragDefs b ns := by
  simp only [fragDefs, h]

/-! ### the resolved document against the reference document -/

/-- `RootOK` for projects: the resolver does not know the root's path, or maps it to the root file -/
def RootOKp : Prop := ∀ f, fs.lookup root = some f → f = rootFile

theorem rootOK_abs (h : RootOKp fs root rootFile) : RootOK (absFS code fs) root (absFile code rootFile) := by
  intro f hf
  rw [lookup_absFS] at hf
  cases hl : fs.lookup root with
  | none => rw [hl] at hf; cases hf
  | some g =>
    rw [hl] at hf
    simp only [Option.map_some, Option.some.injEq] at hf
    rw [← hf, h g hl]

/-- success of `resolveDoc`, unfolded -/
theorem resolveDoc_ok {R : List ExecDef} (h : resolveDoc code res fs root rootFile = .ok R) :
    ∃ out, resolve res (absFS code fs) root (absFile code rootFile) = .ok out ∧
      R = rootFile.defs ++ materialise fs out := by
  unfold resolveDoc at h
  cases hr : resolve res (absFS code fs) root (absFile code rootFile) with
  | ok out => rw [hr] at h; injection h with h; exact ⟨out, rfl, h.symm⟩
  | err e => rw [hr] at h; cases h
  | outOfFuel => rw [hr] at h; cases h

/-- the document the code builds is a rearrangement of the reference document (same head, tail permuted) -/
theorem resolveDoc_perm (hroot : RootOKp fs root rootFile) {R : List ExecDef}
    (h : resolveDoc code res fs root rootFile = .ok R) : R.Perm (refDoc code res fs root rootFile) := by
  obtain ⟨out, ho, rfl⟩ := resolveDoc_ok code res fs root rootFile h
  have hp := (C13_result_exec res (absFS code fs) root (absFile code rootFile)
    (rootOK_abs code fs root rootFile hroot)).2 out ho
  exact (List.Perm.refl _).append (materialise_perm fs hp)


/-! ### members of the two documents -/

theorem mem_refDoc (d : ExecDef) :
    d ∈ refDoc code res fs root rootFile ↔
      d ∈ rootFile.defs ∨ ∃ x, InRef res (absFS code fs) root (absFile code rootFile) x ∧ defAt fs x = some d := by
  simp only [refDoc, List.mem_append, mem_materialise, mem_refImports]

theorem mem_resolveDoc (hroot : RootOKp fs root rootFile) {R : List ExecDef}
    (h : resolveDoc code res fs root rootFile = .ok R) (d : ExecDef) :
    d ∈ R ↔ d ∈ rootFile.defs ∨ ∃ x, InRef res (absFS code fs) root (absFile code rootFile) x ∧ defAt fs x = some d := by
  rw [(resolveDoc_perm code res fs root rootFile hroot h).mem_iff, mem_refDoc]

theorem length_refDoc : (refDoc code res fs root rootFile).length =
    rootFile.defs.length + (refImports res (absFS code fs) root (absFile code rootFile)).length := by
  simp only [refDoc, List.length_append]
  rw [materialise_length_of_inRef code res fs root rootFile
    (fun x hx => (mem_refImports res _ root _ x).mp hx)]

/-- a name is defined in the reference document iff a local fragment or a fragment of the reference import set
    carries it -/
theorem defined_refDoc_iff (n : Name) :
    (getFrag (refDoc code res fs root rootFile) n).isSome = true ↔
      (∃ f, ExecDef.frag f ∈ rootFile.defs ∧ f.name = n) ∨
      (∃ x f, InRef res (absFS code fs) root (absFile code rootFile) x ∧ defAt fs x = some (.frag f) ∧ f.name = n) := by
  rw [getFrag_isSome_iff, mem_fragNamesOf]
  constructor
  · rintro ⟨f, hf, hn⟩
    rcases (mem_refDoc code res fs root rootFile _).mp hf with h | ⟨x, hx, hd⟩
    · exact Or.inl ⟨f, h, hn⟩
    · exact Or.inr ⟨x, f, hx, hd, hn⟩
  · rintro (⟨f, hf, hn⟩ | ⟨x, f, hx, hd, hn⟩)
    · exact ⟨f, (mem_refDoc code res fs root rootFile _).mpr (Or.inl hf), hn⟩
    · exact ⟨f, (mem_refDoc code res fs root rootFile _).mpr (Or.inr ⟨x, hx, hd⟩), hn⟩

/-- with unique fragment names in the resolved document the `fragments` map, the depth bound and hence the runtime
    document of every definition are those of the reference document -/
theorem resolveDoc_ref (hroot : RootOKp fs root rootFile) {R : List ExecDef}
    (h : resolveDoc code res fs root rootFile = .ok R) (hu : (fragNamesOf R).Nodup) :
    (fragNamesOf (refDoc code res fs root rootFile)).Nodup ∧
    R.length = (refDoc code res fs root rootFile).length ∧
    (∀ n, getFrag R n = getFrag (refDoc code res fs root rootFile) n) ∧
    (∀ x, runtimeDefs R x = runtimeDefs (refDoc code res fs root rootFile) x) := by
  have hp := resolveDoc_perm code res fs root rootFile hroot h
  have hg : ∀ n, getFrag R n = getFrag (refDoc code res fs root rootFile) n := fun n => getFrag_perm hp hu n
  exact ⟨(fragNamesOf_perm hp).nodup_iff.mp hu, hp.length_eq, hg, fun x => runtimeDefs_congr hg hp.length_eq x⟩

/-! ### parser-produced files give a parser-producible document -/

/-- every file of the project is as the parser produces it (operations and fragments, no empty selection set) -/
def ProjectOk (fs : Project κ ρ) : Prop := ∀ p f, fs.lookup p = some f → ReadDoc.Resolved f.defs

theorem lookup_mem' {p : κ} {f : SrcFile ρ} (h : fs.lookup p = some f) : (p, f) ∈ fs := by
  induction fs with
  | nil => cases h
  | cons e r ih =>
    obtain ⟨k, g⟩ := e
    simp only [List.lookup_cons] at h
    cases hk : (p == k) with
    | true =>
      rw [hk] at h
      simp only [Option.some.injEq] at h
      have : p = k := by simpa using hk
      subst this h
      exact List.mem_cons_self
    | false => rw [hk] at h; exact List.mem_cons_of_mem _ (ih h)

/-- it suffices that every listed file is parser-produced -/
theorem projectOk_of_forall (h : ∀ e ∈ fs, ReadDoc.Resolved e.2.defs) : ProjectOk fs :=
  fun _ _ hl => h _ (lookup_mem' fs hl)

theorem defAt_mem {x : DefId κ} {d : ExecDef} (h : defAt fs x = some d) :
    ∃ f, fs.lookup x.1 = some f ∧ d ∈ f.defs := by
  unfold defAt at h
  cases hl : fs.lookup x.1 with
  | none => rw [hl] at h; cases h
  | some f => rw [hl] at h; exact ⟨f, rfl, List.mem_of_getElem? h⟩

theorem resolved_refDoc (h1 : ReadDoc.Resolved rootFile.defs) (h2 : ProjectOk fs) :
    ReadDoc.Resolved (refDoc code res fs root rootFile) := by
  intro d hd
  rcases (mem_refDoc code res fs root rootFile d).mp hd with h | ⟨x, _, hx⟩
  · exact h1 d h
  · obtain ⟨f, hl, hm⟩ := defAt_mem fs hx
    exact h2 _ f hl d hm

theorem resolved_fragDefs {l : List ExecDef} (h : ReadDoc.Resolved l) (x : ExecDef) (hx : x ∈ l) (ns : List Name) :
    ReadDoc.Resolved (x :: fragDefs l ns) := by
  intro d hd
  rcases List.mem_cons.mp hd with rfl | hd
  · exact h _ hx
  · obtain ⟨n, g, _, hg, rfl⟩ := (mem_fragDefs l ns d).mp hd
    exact h _ (getFrag_some l n g hg).2.2

/-! ### "every spread names a defined fragment" (checker rule 5.5.2.1 / the loader's own check) -/

/-- the selection set of a definition -/
def selOf : ExecDef → List Selection
  | .op o => o.sel
  | .frag f => f.sel
  | .imp _ => []

/-- all names spread directly in some definition of the document, in document order -/
def allSpreads (R : List ExecDef) : List Name := R.flatMap fun d => ReadDoc.spreads (selOf d)

/-- `find_undefined_fragment_spread` (graphql-loader/src/loader.rs, fix 08fd7e5): the first spread, in document order,
    whose name no fragment definition of the import-resolved document carries -/
def findUndefined (R : List ExecDef) : Option Name :=
  (allSpreads R).find? fun n => decide (n ∉ fragNamesOf R)

/-- every spread written in the document names a fragment the document defines -/
def SpreadsDefined (R : List ExecDef) : Prop :=
  ∀ d ∈ R, ∀ n ∈ ReadDoc.spreads (selOf d), (getFrag R n).isSome = true

instance (R : List ExecDef) : Decidable (SpreadsDefined R) := by unfold SpreadsDefined; infer_instance

theorem findUndefined_none_iff (R : List ExecDef) : findUndefined R = none ↔ SpreadsDefined R := by
  simp only [findUndefined, List.find?_eq_none, allSpreads, List.mem_flatMap, decide_eq_true_eq,
    Classical.not_not, forall_exists_index, and_imp, SpreadsDefined, getFrag_isSome_iff]
  exact ⟨fun h d hd n hn => h n d hd hn, fun h n d hd hn => h d hd n hn⟩

theorem findUndefined_some {R : List ExecDef} {n : Name} (h : findUndefined R = some n) :
    (∃ d ∈ R, n ∈ ReadDoc.spreads (selOf d)) ∧ getFrag R n = none := by
  have h1 := List.find?_some h
  have h2 := List.mem_of_find?_eq_some h
  simp only [decide_eq_true_eq] at h1
  simp only [allSpreads, List.mem_flatMap] at h2
  exact ⟨h2, getFrag_none R n h1⟩

/-- … hence every name TRANSITIVELY spread from a definition of the document is defined -/
theorem reach_defined {R : List ExecDef} (hs : SpreadsDefined R) {ss : List Selection} {n : Name}
    (hr : ReadDoc.Reach (envOf R) ss n) : (∃ d ∈ R, selOf d = ss) → (getFrag R n).isSome = true := by
  induction hr with
  | direct hn =>
    rintro ⟨d, hd, rfl⟩
    exact hs d hd _ hn
  | step _ he _ _ ih2 =>
    intro _
    apply ih2
    simp only [envOf, envOfGet, Option.map_eq_some_iff] at he
    obtain ⟨g, hg, rfl⟩ := he
    exact ⟨.frag g, (getFrag_some R _ g hg).2.2, rfl⟩

/-- … and the runtime document of EVERY definition of the document is produced (`expect("fragment not found")`
    is unreachable) -/
theorem runtimeDefs_ok_of_spreads {R : List ExecDef} (hs : SpreadsDefined R) {x : ExecDef} (hx : x ∈ R) :
    ∃ ds, runtimeDefs R x = .ok ds := by
  cases x with
  | imp i => exact ⟨[], rfl⟩
  | op o =>
    obtain ⟨names, hn⟩ := fragmentNames_total R o.sel
    have hc := hn
    rw [fragmentNames_eq_closure] at hc
    obtain ⟨_, hreach⟩ := closure_good _ _ _ _ hc
    have hall : ∀ n ∈ names, (getFrag R n).isSome :=
      fun n hm => reach_defined hs ((hreach n).mp hm) ⟨_, hx, rfl⟩
    refine ⟨.op o :: fragDefs R names, ?_⟩
    simp [runtimeDefs, FragClosure.opNames, hn, withNames, lookupAll_ok R names hall]
  | frag f =>
    obtain ⟨names, hn⟩ := fragmentNames_total R f.sel
    have hc := hn
    rw [fragmentNames_eq_closure] at hc
    obtain ⟨_, hreach⟩ := closure_good _ _ _ _ hc
    have hall : ∀ n ∈ names.filter (fun n => n != f.name), (getFrag R n).isSome :=
      fun n hm => reach_defined hs ((hreach n).mp (List.mem_filter.mp hm).1) ⟨_, hx, rfl⟩
    refine ⟨.frag f :: fragDefs R (names.filter fun n => n != f.name), ?_⟩
    simp [runtimeDefs, FragClosure.fragNames, hn, withNames, lookupAll_ok R _ hall]

/-- a reachable undefined name comes with a WRITTEN spread of an undefined name (so the checker's rule 5.5.2.1 /
    the loader's check fires) -/
theorem not_spreadsDefined_of_reach {R : List ExecDef} {x : ExecDef} (hx : x ∈ R) {n : Name}
    (hr : ReadDoc.Reach (envOf R) (selOf x) n) (hn : getFrag R n = none) : ¬ SpreadsDefined R := by
  intro hs
  have := reach_defined hs hr ⟨x, hx, rfl⟩
  rw [hn] at this; cases this


/-- the appended definitions carry exactly the collected names, in that order (each fragment once) -/
theorem fragNamesOf_fragDefs (l : List ExecDef) (ns : List Name) (h : ∀ n ∈ ns, (getFrag l n).isSome = true) :
    fragNamesOf (fragDefs l ns) = ns := by
  induction ns with
  | nil => rfl
  | cons n r ih =>
    have hn := h n (by simp)
    have ih := ih (fun m hm => h m (by simp [hm]))
    cases hg : getFrag l n with
    | none => rw [hg] at hn; cases hn
    | some f =>
      have hname := (getFrag_some l n f hg).1
      simp only [fragDefs] at ih
      simp [fragDefs, hg, fragNamesOf, ih, hname]

/-- the root's own definitions are definitions of the resolved document -/
theorem root_mem_resolveDoc {R : List ExecDef} (h : resolveDoc code res fs root rootFile = .ok R) {d : ExecDef}
    (hd : d ∈ rootFile.defs) : d ∈ R := by
  obtain ⟨out, _, rfl⟩ := resolveDoc_ok code res fs root rootFile h
  exact List.mem_append_left _ hd



/-! ### permuting the import lines of the files -/

/-- same paths, same definitions, import lines of each file permuted -/
inductive ProjPerm : Project κ ρ → Project κ ρ → Prop where
  | nil : ProjPerm [] []
  | cons {k : κ} {f f' : SrcFile ρ} {l l' : Project κ ρ} : f.defs = f'.defs → f.imports.Perm f'.imports →
      ProjPerm l l' → ProjPerm ((k, f) :: l) ((k, f') :: l')

theorem ProjPerm.abs {fs fs' : Project κ ρ} (h : ProjPerm fs fs') : FSPerm (absFS code fs) (absFS code fs') := by
  induction h with
  | nil => exact FSPerm.nil
  | cons hd hi _ ih =>
    exact FSPerm.cons ⟨by simp [absFile, hd], hi⟩ ih

theorem ProjPerm.defAt {fs fs' : Project κ ρ} (h : ProjPerm fs fs') (x : DefId κ) : defAt fs x = defAt fs' x := by
  induction h with
  | nil => rfl
  | @cons k f f' l l' hd hi _ ih =>
    simp only [Composed.defAt, List.lookup_cons] at ih ⊢
    cases hk : (x.1 == k) with
    | true => simp [hd]
    | false => simpa using ih

theorem ProjPerm.materialise {fs fs' : Project κ ρ} (h : ProjPerm fs fs') (out : List (DefId κ)) :
    materialise fs out = materialise fs' out := by
  have : Composed.defAt fs = Composed.defAt fs' := funext h.defAt
  simp only [Composed.materialise, this]

/-- rearranged documents with pairwise distinct fragment names give the same runtime documents -/
theorem runtimeDefs_perm {a b : List ExecDef} (h : a.Perm b) (hu : (fragNamesOf a).Nodup) (x : ExecDef) :
    runtimeDefs a x = runtimeDefs b x :=
  runtimeDefs_congr (fun n => getFrag_perm h hu n) h.length_eq x

/-! ### an injective `Nat`-coding of names (the theorems hold for every coding; this one makes "import by name" exact) -/

def encL : List Char → Nat
  | [] => 0
  | c :: cs => (c.toNat + 1) + 1114113 * encL cs

theorem char_toNat_lt (c : Char) : c.toNat < 1114112 := by
  have := c.valid
  simp only [UInt32.isValidChar, Nat.isValidChar] at this
  show c.val.toNat < 1114112
  omega

theorem char_toNat_inj {a b : Char} (h : a.toNat = b.toNat) : a = b := by
  have := congrArg Char.ofNat h
  simpa using this

theorem encL_inj : ∀ {a b : List Char}, encL a = encL b → a = b
  | [], [], _ => rfl
  | [], d :: ds, h => by simp only [encL] at h; omega
  | c :: cs, [], h => by simp only [encL] at h; omega
  | c :: cs, d :: ds, h => by
    simp only [encL] at h
    have h1 := char_toNat_lt c
    have h2 := char_toNat_lt d
    have hc : c.toNat = d.toNat := by omega
    have hr : encL cs = encL ds := by omega
    rw [char_toNat_inj hc, encL_inj hr]

/-- base-1114113 reading of the characters of a name -/
def nameCode (s : Name) : Nat := encL s.toList

theorem nameCode_inj {a b : Name} (h : nameCode a = nameCode b) : a = b :=
  String.toList_inj.mp (encL_inj h)

end NitroVerif.Composed
