/-
C18 composed (helper definitions and lemmas): the positions of the nodes of a document.

`Doc.positions D` / `TsDoc.positions T` list EVERY position the shared abstract syntax carries in a document — of every
definition, name, variable, type reference, value, argument, directive, selection, field definition, … at any depth.
"The reported position is a position of a node of the AST" is then `p ∈ Doc.positions D`; to let one induction serve
every use, the lemmas are stated for an arbitrary predicate `Q` on positions that holds of all positions of the inputs
(`Q := (· ∈ positions …)` gives "positions are not invented", `Q := "file index in range"` gives the hypothesis `WF`
of `C18_located`).
-/
import NitroVerif.Gql.Schema
namespace NitroVerif.Gql

def GType.positions : GType → List Pos
  | .named _ p => [p]
  | .list t p => p :: t.positions
  | .nonNull t => t.positions

mutual
def Value.positions : Value → List Pos
  | .var _ p | .int _ p | .float _ p | .str _ p | .bool _ p | .null p | .enum _ p => [p]
  | .list vs p => p :: Value.positionsList vs
  | .obj fs p => p :: Value.positionsFields fs
def Value.positionsList : List Value → List Pos
  | [] => []
  | v :: vs => v.positions ++ Value.positionsList vs
/-- also the positions of an argument list (`Arg = Name × Pos × Value`): the name's position and the value's -/
def Value.positionsFields : List (Name × Pos × Value) → List Pos
  | [] => []
  | (_, p, v) :: r => p :: (v.positions ++ Value.positionsFields r)
end

def Directive.positions (d : Directive) : List Pos := d.namePos :: d.pos :: Value.positionsFields d.args

def dirsPositions (ds : List Directive) : List Pos := ds.flatMap Directive.positions

def optNamePos : Option (Name × Pos) → List Pos
  | some (_, p) => [p]
  | none => []

mutual
def Selection.positions : Selection → List Pos
  | .field al _ namePos args dirs (some ss) =>
    optNamePos al ++ namePos :: (Value.positionsFields args ++ dirsPositions dirs ++ Selection.positionsList ss)
  | .field al _ namePos args dirs none =>
    optNamePos al ++ namePos :: (Value.positionsFields args ++ dirsPositions dirs)
  | .spread _ namePos dirs pos => namePos :: pos :: dirsPositions dirs
  | .inline cond dirs ss pos => optNamePos cond ++ pos :: (dirsPositions dirs ++ Selection.positionsList ss)
def Selection.positionsList : List Selection → List Pos
  | [] => []
  | s :: ss => s.positions ++ Selection.positionsList ss
end

def optValuePositions : Option Value → List Pos
  | some v => v.positions
  | none => []

def VarDef.positions (v : VarDef) : List Pos :=
  v.pos :: (v.ty.positions ++ optValuePositions v.default ++ dirsPositions v.dirs)

def OperationDef.positions (o : OperationDef) : List Pos :=
  o.pos :: (optNamePos o.name ++ o.vars.flatMap VarDef.positions ++ dirsPositions o.dirs ++
    Selection.positionsList o.sel)

def FragmentDef.positions (f : FragmentDef) : List Pos :=
  f.namePos :: f.condPos :: f.pos :: (dirsPositions f.dirs ++ Selection.positionsList f.sel)

def ImportDef.positions (i : ImportDef) : List Pos := i.pos :: i.targets.flatMap optNamePos

def ExecDef.positions : ExecDef → List Pos
  | .op o => o.positions
  | .frag f => f.positions
  | .imp i => i.positions

/-- every position carried by a node of an executable document -/
def Doc.positions (D : Doc) : List Pos := D.flatMap ExecDef.positions

/-! ### type-system documents -/

def InputValueDef.positions (v : InputValueDef) : List Pos :=
  v.pos :: (v.ty.positions ++ optValuePositions v.default ++ dirsPositions v.dirs)

def FieldDef.positions (f : FieldDef) : List Pos :=
  f.pos :: (f.args.flatMap InputValueDef.positions ++ f.ty.positions ++ dirsPositions f.dirs)

def EnumValueDef.positions (v : EnumValueDef) : List Pos := v.pos :: dirsPositions v.dirs

def TypeDef.positions (t : TypeDef) : List Pos :=
  t.namePos :: t.pos :: (t.implements.map (·.2) ++ dirsPositions t.dirs ++ t.fields.flatMap FieldDef.positions ++
    t.members.map (·.2) ++ t.values.flatMap EnumValueDef.positions ++ t.inputs.flatMap InputValueDef.positions)

def DirectiveDef.positions (d : DirectiveDef) : List Pos :=
  d.namePos :: d.pos :: d.args.flatMap InputValueDef.positions

def SchemaDef.positions (s : SchemaDef) : List Pos := s.pos :: (dirsPositions s.dirs ++ s.roots.map (·.2.2))

def TsItem.positions : TsItem → List Pos
  | .schemaDef s | .schemaExt s => s.positions
  | .typeDef t | .typeExt t => t.positions
  | .directiveDef d => d.positions

/-- every position carried by a node of a type-system document -/
def TsDoc.positions (T : TsDoc) : List Pos := T.flatMap TsItem.positions

/-! ### basic membership facts -/

theorem Value.pos_mem_positions (v : Value) : v.pos ∈ v.positions := by
  cases v <;> simp [Value.pos, Value.positions]

theorem GType.positions_ne_nil (t : GType) : t.positions ≠ [] := by
  induction t with
  | named n p => simp [GType.positions]
  | list t p _ => simp [GType.positions]
  | nonNull t ih => simpa [GType.positions] using ih

end NitroVerif.Gql
