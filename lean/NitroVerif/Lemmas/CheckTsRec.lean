/-
Helper lemmas for C05, part 3: the breadth-first search of `check_directive_recursion` explores exactly the
directive reference graph `succNames` (directives applied to the arguments of a directive definition and
directives applied inside the definition of each argument's type — one level deep), and `|T| + 2` rounds of
fuel are enough.
-/
import NitroVerif.Lemmas.CheckTs
namespace NitroVerif.CheckTs
open NitroVerif.Gql NitroVerif.ValidTs

/-- the directive reference graph the code explores, on directive NAMES: the successors of `n` are the names
    of the definitions pushed when the (last) definition named `n` is expanded -/
def succNames (T : TsDoc) (n : Name) : List Name :=
  match lastDirectiveDef? T n with
  | none => []
  | some d => (dirSuccessors T d).map (·.name)

/-- `Reaches T a b`: there is a path of at least one edge from `a` to `b` in that graph -/
inductive Reaches (T : TsDoc) : Name → Name → Prop where
  | step {a b : Name} : b ∈ succNames T a → Reaches T a b
  | cons {a b c : Name} : b ∈ succNames T a → Reaches T b c → Reaches T a c

theorem Reaches.snoc {T : TsDoc} {a b c : Name} (h : Reaches T a b) (hc : c ∈ succNames T b) : Reaches T a c := by
  induction h with
  | step h1 => exact .cons h1 (.step hc)
  | cons h1 _ ih => exact .cons h1 (ih hc)

/-- the definition the hash map `directives` holds for its own name -/
def Canonical (T : TsDoc) (d : DirectiveDef) : Prop := lastDirectiveDef? T d.name = some d

theorem canonical_of_lookup {T : TsDoc} {n : Name} {d : DirectiveDef} (h : lastDirectiveDef? T n = some d) :
    Canonical T d := by
  have hn : d.name = n := by
    unfold lastDirectiveDef? at h
    simpa using List.find?_some h
  unfold Canonical; rw [hn]; exact h

theorem canonical_of_succ {T : TsDoc} {a s : DirectiveDef} (h : s ∈ dirSuccessors T a) : Canonical T s := by
  simp only [dirSuccessors, List.mem_filterMap] at h
  obtain ⟨dir, _, hl⟩ := h
  exact canonical_of_lookup hl

theorem succNames_canonical {T : TsDoc} {c : DirectiveDef} (hc : Canonical T c) :
    succNames T c.name = (dirSuccessors T c).map (·.name) := by
  unfold succNames; rw [hc]

theorem canonical_mem {T : TsDoc} {c : DirectiveDef} (hc : Canonical T c) : c ∈ ValidTs.directiveDefs T := by
  unfold Canonical lastDirectiveDef? at hc
  exact List.mem_reverse.mp (List.mem_of_find?_eq_some hc)

/-! ### one round -/

theorem recRound_nil (T : TsDoc) (start : Name) (seen : List Name) :
    recRound T start seen [] = (seen, [], []) := rfl

theorem recRound_seen (T : TsDoc) (start : Name) (seen : List Name) (c : DirectiveDef) (rest : List DirectiveDef)
    (h : seen.contains c.name = true) :
    recRound T start seen (c :: rest) =
      ((recRound T start seen rest).1,
       (if c.name == start then [(ErrKind.RecursingDirective, c.pos)] else []) ++ (recRound T start seen rest).2.1,
       (recRound T start seen rest).2.2) := by
  rw [recRound, if_pos h]

theorem recRound_new (T : TsDoc) (start : Name) (seen : List Name) (c : DirectiveDef) (rest : List DirectiveDef)
    (h : seen.contains c.name = false) :
    recRound T start seen (c :: rest) =
      ((recRound T start (c.name :: seen) rest).1, (recRound T start (c.name :: seen) rest).2.1,
       dirSuccessors T c ++ (recRound T start (c.name :: seen) rest).2.2) := by
  rw [recRound, if_neg (by rw [h]; simp)]

/-- soundness of a round: diagnostics and next directives only for things reachable from the start -/
theorem recRound_sound (T : TsDoc) (start : Name) :
    ∀ (cur : List DirectiveDef) (seen : List Name),
      (∀ c ∈ cur, Canonical T c ∧ Reaches T start c.name) →
      ((recRound T start seen cur).2.1 ≠ [] → Reaches T start start) ∧
      (∀ s ∈ (recRound T start seen cur).2.2, Canonical T s ∧ Reaches T start s.name) := by
  intro cur
  induction cur with
  | nil => intro seen _; simp [recRound_nil]
  | cons c rest ih =>
    intro seen hcur
    have hc := hcur c List.mem_cons_self
    have hrest : ∀ x ∈ rest, Canonical T x ∧ Reaches T start x.name :=
      fun x hx => hcur x (List.mem_cons_of_mem _ hx)
    cases hs : seen.contains c.name with
    | true =>
      rw [recRound_seen T start seen c rest hs]
      obtain ⟨ih1, ih2⟩ := ih seen hrest
      refine ⟨?_, ih2⟩
      intro hne
      by_cases hcs : c.name = start
      · rw [← hcs] at hc ⊢; exact hcs ▸ hc.2
      · have hb : (c.name == start) = false := by simpa using hcs
        simp only [hb, Bool.false_eq_true, if_false, List.nil_append] at hne
        exact ih1 hne
    | false =>
      rw [recRound_new T start seen c rest hs]
      obtain ⟨ih1, ih2⟩ := ih (c.name :: seen) hrest
      refine ⟨ih1, ?_⟩
      intro s hsmem
      rcases List.mem_append.mp hsmem with h1 | h2
      · refine ⟨canonical_of_succ h1, hc.2.snoc ?_⟩
        rw [succNames_canonical hc.1]
        exact List.mem_map.mpr ⟨s, h1, rfl⟩
      · exact ih2 s h2

/-- completeness of a round without diagnostics -/
theorem recRound_complete (T : TsDoc) (start : Name) :
    ∀ (cur : List DirectiveDef) (seen : List Name), (recRound T start seen cur).2.1 = [] →
      (∀ n ∈ seen, n ∈ (recRound T start seen cur).1) ∧
      (∀ c ∈ cur, c.name ∈ (recRound T start seen cur).1) ∧
      (∀ c ∈ cur, c.name ∈ seen → c.name ≠ start) ∧
      (∀ n ∈ (recRound T start seen cur).1, n ∈ seen ∨
        ∃ c ∈ cur, c.name = n ∧ ∀ s ∈ dirSuccessors T c, s ∈ (recRound T start seen cur).2.2) ∧
      (∀ s ∈ (recRound T start seen cur).2.2, ∃ c ∈ cur, s ∈ dirSuccessors T c ∧ c.name ∉ seen) := by
  intro cur
  induction cur with
  | nil =>
    intro seen _
    simp [recRound_nil]
  | cons c rest ih =>
    intro seen herr
    cases hs : seen.contains c.name with
    | true =>
      rw [recRound_seen T start seen c rest hs] at herr ⊢
      simp only [List.append_eq_nil_iff] at herr
      obtain ⟨hc0, herr'⟩ := herr
      have hcne : c.name ≠ start := by
        intro he
        have : (c.name == start) = true := by simpa using he
        rw [this] at hc0; simp at hc0
      have hcs : c.name ∈ seen := List.contains_iff_mem.mp hs
      obtain ⟨a, b, cc, d, e⟩ := ih seen herr'
      refine ⟨a, ?_, ?_, ?_, ?_⟩
      · intro x hx
        rcases List.mem_cons.mp hx with rfl | hx
        · exact a _ hcs
        · exact b x hx
      · intro x hx hxs
        rcases List.mem_cons.mp hx with rfl | hx
        · exact hcne
        · exact cc x hx hxs
      · intro n hn
        rcases d n hn with h | ⟨x, hx, h1, h2⟩
        · exact Or.inl h
        · exact Or.inr ⟨x, List.mem_cons_of_mem _ hx, h1, h2⟩
      · intro s hsm
        obtain ⟨x, hx, h1, h2⟩ := e s hsm
        exact ⟨x, List.mem_cons_of_mem _ hx, h1, h2⟩
    | false =>
      rw [recRound_new T start seen c rest hs] at herr ⊢
      have hcs : c.name ∉ seen := contains_eq_false_iff.mp hs
      obtain ⟨a, b, cc, d, e⟩ := ih (c.name :: seen) herr
      refine ⟨fun n hn => a n (List.mem_cons_of_mem _ hn), ?_, ?_, ?_, ?_⟩
      · intro x hx
        rcases List.mem_cons.mp hx with rfl | hx
        · exact a _ List.mem_cons_self
        · exact b x hx
      · intro x hx hxs
        rcases List.mem_cons.mp hx with rfl | hx
        · exact absurd hxs hcs
        · exact cc x hx (List.mem_cons_of_mem _ hxs)
      · intro n hn
        rcases d n hn with h | ⟨x, hx, h1, h2⟩
        · rcases List.mem_cons.mp h with rfl | h
          · exact Or.inr ⟨c, List.mem_cons_self, rfl, fun s hs => List.mem_append_left _ hs⟩
          · exact Or.inl h
        · exact Or.inr ⟨x, List.mem_cons_of_mem _ hx, h1, fun s hs => List.mem_append_right _ (h2 s hs)⟩
      · intro s hsm
        rcases List.mem_append.mp hsm with h | h
        · exact ⟨c, List.mem_cons_self, h, hcs⟩
        · obtain ⟨x, hx, h1, h2⟩ := e s h
          exact ⟨x, List.mem_cons_of_mem _ hx, h1, fun hin => h2 (List.mem_cons_of_mem _ hin)⟩

/-! ### the loop -/

theorem recLoop_succ (T : TsDoc) (start : Name) (fuel : Nat) (seen : List Name) (cur : List DirectiveDef) :
    recLoop T start (fuel + 1) seen cur =
      if (recRound T start seen cur).2.2.isEmpty then (recRound T start seen cur).2.1
      else (recRound T start seen cur).2.1 ++
        recLoop T start fuel (recRound T start seen cur).1 (recRound T start seen cur).2.2 := rfl

theorem recLoop_sound (T : TsDoc) (start : Name) :
    ∀ (fuel : Nat) (seen : List Name) (cur : List DirectiveDef),
      (∀ c ∈ cur, Canonical T c ∧ Reaches T start c.name) →
      recLoop T start fuel seen cur ≠ [] → Reaches T start start := by
  intro fuel
  induction fuel with
  | zero => intro seen cur _ h; exact absurd rfl h
  | succ f ih =>
    intro seen cur hcur h
    rw [recLoop_succ] at h
    obtain ⟨h1, h2⟩ := recRound_sound T start cur seen hcur
    by_cases herr : (recRound T start seen cur).2.1 = []
    · cases hne : (recRound T start seen cur).2.2.isEmpty with
      | true => rw [hne] at h; simp only [if_true] at h; exact absurd herr h
      | false =>
        rw [hne, herr] at h
        simp only [Bool.false_eq_true, if_false, List.nil_append] at h
        exact ih _ _ h2 h
    · exact h1 herr

/-- the invariant of the search between rounds (for rounds after the first) -/
def RecInv (T : TsDoc) (start : Name) (seen : List Name) (cur : List DirectiveDef) : Prop :=
  start ∈ seen ∧ (∀ c ∈ cur, Canonical T c) ∧
  ∀ n ∈ seen, ∀ m ∈ succNames T n, (m ∈ seen ∧ m ≠ start) ∨ ∃ c ∈ cur, c.name = m

theorem recInv_round {T : TsDoc} {start : Name} {seen : List Name} {cur : List DirectiveDef}
    (hinv : RecInv T start seen cur) (herr : (recRound T start seen cur).2.1 = []) :
    RecInv T start (recRound T start seen cur).1 (recRound T start seen cur).2.2 := by
  obtain ⟨hstart, hcan, hedges⟩ := hinv
  obtain ⟨a, b, c, d, e⟩ := recRound_complete T start cur seen herr
  refine ⟨a _ hstart, ?_, ?_⟩
  · intro s hs
    obtain ⟨x, _, hx, _⟩ := e s hs
    exact canonical_of_succ hx
  · intro n hn m hm
    rcases d n hn with hseen | ⟨x, hx, hxn, hsucc⟩
    · rcases hedges n hseen m hm with ⟨h1, h2⟩ | ⟨x, hx, hxm⟩
      · exact Or.inl ⟨a m h1, h2⟩
      · left
        refine ⟨hxm ▸ b x hx, ?_⟩
        by_cases hxs : x.name ∈ seen
        · exact hxm ▸ c x hx hxs
        · intro hms
          exact hxs (hxm ▸ hms ▸ hstart)
    · right
      rw [← hxn, succNames_canonical (hcan x hx)] at hm
      obtain ⟨s, hs, hsm⟩ := List.mem_map.mp hm
      exact ⟨s, hsucc s hs, hsm⟩

/-- the termination measure: directive names of the document not yet seen -/
def unseen (T : TsDoc) (seen : List Name) : Nat :=
  (((ValidTs.directiveDefs T).map (·.name)).filter fun n => !seen.contains n).length

theorem filter_length_lt_of {α : Type} (p q : α → Bool) : ∀ (l : List α), (∀ x, q x = true → p x = true) →
    (∃ x ∈ l, p x = true ∧ q x = false) → (l.filter q).length < (l.filter p).length := by
  intro l
  induction l with
  | nil => rintro _ ⟨x, hx, _⟩; cases hx
  | cons y r ih =>
    intro himp hex
    have hle : (r.filter q).length ≤ (r.filter p).length := by
      clear ih hex
      induction r with
      | nil => simp
      | cons z r' ih' =>
        cases hq : q z with
        | true => simp [List.filter, hq, himp z hq]; exact ih'
        | false =>
          cases hp : p z with
          | true => simp only [List.filter, hq, hp, List.length_cons]; omega
          | false => simpa [List.filter, hq, hp] using ih'
    obtain ⟨x, hx, hpx, hqx⟩ := hex
    cases hq : q y with
    | true =>
      have hp := himp y hq
      rcases List.mem_cons.mp hx with rfl | hxr
      · rw [hq] at hqx; cases hqx
      · have := ih himp ⟨x, hxr, hpx, hqx⟩
        simp only [List.filter, hq, hp, List.length_cons]; omega
    | false =>
      cases hp : p y with
      | true => simp only [List.filter, hq, hp, List.length_cons]; omega
      | false =>
        rcases List.mem_cons.mp hx with rfl | hxr
        · rw [hp] at hpx; cases hpx
        · have := ih himp ⟨x, hxr, hpx, hqx⟩
          simpa [List.filter, hq, hp] using this

theorem unseen_decreases {T : TsDoc} {start : Name} {seen : List Name} {cur : List DirectiveDef}
    (hcan : ∀ c ∈ cur, Canonical T c) (herr : (recRound T start seen cur).2.1 = [])
    (hne : (recRound T start seen cur).2.2.isEmpty = false) :
    unseen T (recRound T start seen cur).1 < unseen T seen := by
  obtain ⟨a, b, _, _, e⟩ := recRound_complete T start cur seen herr
  have : ∃ s, s ∈ (recRound T start seen cur).2.2 := by
    cases hl : (recRound T start seen cur).2.2 with
    | nil => rw [hl] at hne; simp at hne
    | cons s _ => exact ⟨s, List.mem_cons_self⟩
  obtain ⟨s, hs⟩ := this
  obtain ⟨x, hx, _, hxs⟩ := e s hs
  unfold unseen
  apply filter_length_lt_of
  · intro n hn
    simp only [Bool.not_eq_true'] at hn ⊢
    rw [contains_eq_false_iff] at hn ⊢
    exact fun hin => hn (a n hin)
  · refine ⟨x.name, List.mem_map.mpr ⟨x, canonical_mem (hcan x hx), rfl⟩, ?_, ?_⟩
    · simp only [Bool.not_eq_true']; exact contains_eq_false_iff.mpr hxs
    · simp only [Bool.not_eq_false']; exact List.contains_iff_mem.mpr (b x hx)

/-- a set of names that contains the start, is closed under the edges, and has no edge into the start -/
def ClosedNoBack (T : TsDoc) (start : Name) (S : List Name) : Prop :=
  start ∈ S ∧ ∀ n ∈ S, ∀ m ∈ succNames T n, m ∈ S ∧ m ≠ start

theorem recLoop_complete (T : TsDoc) (start : Name) :
    ∀ (fuel : Nat) (seen : List Name) (cur : List DirectiveDef), RecInv T start seen cur →
      unseen T seen < fuel → recLoop T start fuel seen cur = [] → ∃ S, ClosedNoBack T start S := by
  intro fuel
  induction fuel with
  | zero => intro _ _ _ h; omega
  | succ f ih =>
    intro seen cur hinv hfuel h
    rw [recLoop_succ] at h
    cases hne : (recRound T start seen cur).2.2.isEmpty with
    | true =>
      rw [hne] at h
      simp only [if_true] at h
      have hinv' := recInv_round hinv h
      have hnil : (recRound T start seen cur).2.2 = [] := List.isEmpty_iff.mp hne
      rw [hnil] at hinv'
      refine ⟨_, hinv'.1, ?_⟩
      intro n hn m hm
      rcases hinv'.2.2 n hn m hm with h1 | ⟨c, hc, _⟩
      · exact h1
      · cases hc
    | false =>
      rw [hne] at h
      simp only [Bool.false_eq_true, if_false, List.append_eq_nil_iff] at h
      obtain ⟨herr, hrec⟩ := h
      have hinv' := recInv_round hinv herr
      have hdec := unseen_decreases hinv.2.1 herr hne
      exact ih _ _ hinv' (by omega) hrec

theorem closed_no_cycle {T : TsDoc} {start : Name} {S : List Name} (hS : ClosedNoBack T start S) :
    ¬ Reaches T start start := by
  have key : ∀ a b, Reaches T a b → a ∈ S → b ∈ S ∧ b ≠ start := by
    intro a b h
    induction h with
    | step h1 => intro ha; exact hS.2 _ ha _ h1
    | cons h1 _ ih => intro ha; exact ih (hS.2 _ ha _ h1).1
  intro h
  exact (key _ _ h hS.1).2 rfl

theorem unseen_le (T : TsDoc) (seen : List Name) : unseen T seen ≤ T.length := by
  unfold unseen
  calc _ ≤ ((ValidTs.directiveDefs T).map (·.name)).length := List.length_filter_le _ _
    _ = (ValidTs.directiveDefs T).length := List.length_map _
    _ ≤ T.length := by
      unfold ValidTs.directiveDefs Schema.directiveDefs
      exact List.length_filterMap_le _ _

/-- `check_directive_recursion` reports `RecursingDirective` for a definition exactly when its name lies on
    a cycle of the reference graph the code explores; in particular the fuel is never exhausted -/
theorem checkDirectiveRecursion_iff (T : TsDoc) (d : DirectiveDef) (hc : Canonical T d) :
    checkDirectiveRecursion T d ≠ [] ↔ Reaches T d.name d.name := by
  have hround : recRound T d.name [] [d] = ([d.name], [], dirSuccessors T d ++ []) := by
    rw [recRound_new T d.name [] d [] (by simp), recRound_nil]
  have hsuccs : ∀ s ∈ dirSuccessors T d, Canonical T s ∧ Reaches T d.name s.name := by
    intro s hs
    refine ⟨canonical_of_succ hs, .step ?_⟩
    rw [succNames_canonical hc]
    exact List.mem_map.mpr ⟨s, hs, rfl⟩
  unfold checkDirectiveRecursion
  rw [show T.length + 2 = (T.length + 1) + 1 from rfl, recLoop_succ, hround]
  simp only [List.append_nil, List.nil_append]
  constructor
  · intro h
    cases hne : (dirSuccessors T d).isEmpty with
    | true => rw [hne] at h; simp at h
    | false =>
      rw [hne] at h
      simp only [Bool.false_eq_true, if_false] at h
      exact recLoop_sound T d.name _ _ _ hsuccs h
  · intro hreach
    intro hnil
    cases hne : (dirSuccessors T d).isEmpty with
    | true =>
      have hempty : succNames T d.name = [] := by
        rw [succNames_canonical hc, List.isEmpty_iff.mp hne]; rfl
      cases hreach with
      | step h1 => rw [hempty] at h1; cases h1
      | cons h1 _ => rw [hempty] at h1; cases h1
    | false =>
      rw [hne] at hnil
      simp only [Bool.false_eq_true, if_false] at hnil
      have hinv : RecInv T d.name [d.name] (dirSuccessors T d) := by
        refine ⟨List.mem_singleton.mpr rfl, fun s hs => (hsuccs s hs).1, ?_⟩
        intro n hn m hm
        rw [List.mem_singleton.mp hn, succNames_canonical hc] at hm
        obtain ⟨s, hs, hsm⟩ := List.mem_map.mp hm
        exact Or.inr ⟨s, hs, hsm⟩
      obtain ⟨S, hS⟩ := recLoop_complete T d.name _ _ _ hinv
        (Nat.lt_succ_of_le (unseen_le T _)) hnil
      exact closed_no_cycle hS hreach

/-- with unique directive names every definition of the document is the one the hash map holds -/
theorem canonical_of_unique {T : TsDoc} (hu : uniqueDirectiveNames T = true) {d : DirectiveDef}
    (hd : d ∈ ValidTs.directiveDefs T) : Canonical T d := by
  unfold Canonical lastDirectiveDef?
  have hnd : noDup ((Schema.directiveDefs ⟨T⟩).map (·.name)) = true := hu
  rw [find?_reverse_of_noDup (fun (x : DirectiveDef) => x.name) d.name _ hnd]
  have hnd' : ((Schema.directiveDefs ⟨T⟩).map (·.name)).Nodup := by
    clear hd
    generalize (Schema.directiveDefs ⟨T⟩).map (·.name) = l at hnd
    induction l with
    | nil => exact List.nodup_nil
    | cons x xs ih =>
      simp only [noDup, Bool.and_eq_true, Bool.not_eq_true'] at hnd
      exact List.nodup_cons.mpr ⟨contains_eq_false_iff.mp hnd.1, ih hnd.2⟩
  -- looking up d's own name in a list with distinct names finds d
  have : ∀ (l : List DirectiveDef), (l.map (·.name)).Nodup → d ∈ l →
      l.find? (fun x => x.name == d.name) = some d := by
    intro l
    induction l with
    | nil => intro _ h; cases h
    | cons x r ih =>
      intro hn hm
      simp only [List.map_cons, List.nodup_cons] at hn
      rcases List.mem_cons.mp hm with rfl | hr
      · simp [List.find?]
      · have hne : (x.name == d.name) = false := by
          cases hb : x.name == d.name with
          | false => rfl
          | true =>
            exfalso
            have : x.name = d.name := by simpa using hb
            exact hn.1 (this ▸ List.mem_map.mpr ⟨d, hr, rfl⟩)
        simp only [List.find?, hne]
        exact ih hn.2 hr
  exact this _ hnd' hd

end NitroVerif.CheckTs
