/-
Selections, parser and builder (helper lemmas for Props/C07Doc): the `Field` head (optional alias, name, optional
arguments, optional directives) in continuation form, the failing alternatives of `Selection`, and the function the
builder maps over the children of a selection set.
-/
import NitroVerif.Lemmas.ParseDocSel
namespace NitroVerif.DocParse
open NitroVerif.Peg NitroVerif.Gen NitroVerif.Gen.Parts NitroVerif.Build NitroVerif.TypeParse NitroVerif.StringParse
open NitroVerif.Gql NitroVerif.ValueParse NitroVerif.Spec.Lex

set_option linter.unusedSimpArgs false

theorem look_SelectionSet : gList.look R.SelectionSet =
    some (.normal, .seq (.str ['{']) (.seq (.plus (.call R.Selection)) (.str ['}']))) := rfl
theorem look_Selection : gList.look R.Selection =
    some (.normal, .choice (.call R.Field) (.choice (.call R.FragmentSpread) (.call R.InlineFragment))) := rfl
theorem look_Field : gList.look R.Field = some (.normal, .seq (.opt (.call R.Alias)) (.seq (.call R.Name)
    (.seq (.opt (.call R.Arguments)) (.seq (.opt (.call R.Directives)) (.opt (.call R.SelectionSet)))))) := rfl
theorem look_Alias : gList.look R.Alias = some (.normal, .seq (.call R.Name) (.str [':'])) := rfl
theorem look_FragmentSpread : gList.look R.FragmentSpread =
    some (.normal, .seq (.str ['.', '.', '.']) (.seq (.call R.FragmentName) (.opt (.call R.Directives)))) := rfl
theorem look_InlineFragment : gList.look R.InlineFragment = some (.normal, .seq (.str ['.', '.', '.'])
    (.seq (.opt (.call R.TypeCondition)) (.seq (.opt (.call R.Directives)) (.call R.SelectionSet)))) := rfl
theorem look_FragmentName : gList.look R.FragmentName =
    some (.normal, .seq (.not (.call R.KEYWORD_on)) (.call R.Name)) := rfl
theorem look_TypeCondition : gList.look R.TypeCondition =
    some (.normal, .seq (.call R.KEYWORD_on) (.call R.NamedType)) := rfl
theorem look_KEYWORD_on : gList.look R.KEYWORD_on =
    some (.atomic, .seq (.str ['o', 'n']) (.not (.call R.NameContinue))) := rfl

variable {inp : List Char}

/-! ### optional arguments -/

theorem hd_rOptArgs (τ : Trivia) (sep : Bool) (p : Nat) (args : List Arg) :
    rOptArgs τ sep p args = [] ∨ Hd (· = '(') (rOptArgs τ sep p args) := by
  cases args with
  | nil => exact Or.inl rfl
  | cons a as => exact Or.inr (hd_tk (hd_renderArgs τ p _))

theorem rOptArgs_eq_nil {τ : Trivia} {sep : Bool} {p : Nat} {args : List Arg} (h : rOptArgs τ sep p args = []) :
    args = [] := by
  cases args with
  | nil => rfl
  | cons a as => exact absurd h (hd_tk (hd_renderArgs τ p (a :: as))).ne_nil

/-- `Arguments?` -/
theorem optArgsT (τ : Trivia) (hτ : ∀ q, Ws (τ q)) (args : List Arg) (hwf : WFFs args) {sep : Bool} {p : Nat}
    {bad : Char → Prop} (hb : bad '(') (h : HasAt inp p (rOptArgs τ sep p args))
    (hn : Nxt inp bad sep (p + (rOptArgs τ sep p args).length)) :
    ∃ o : Option Pair, RunsK (B (rOptArgs τ sep p args).length + 5) (.opt (.call R.Arguments)) (At inp p)
        (At inp (p + (rOptArgs τ sep p args).length)) o.toList ∧ (∀ x ∈ o, PairOk R.Arguments p x) ∧
      ∀ fuel, (rOptArgs τ sep p args).length ≤ fuel →
        optArgs (Ctx.spec inp) fuel o = .ok (withPosFs τ inp (p + 1) true args) := by
  cases args with
  | nil =>
    have hn' : Nxt inp bad sep p := by simpa [rOptArgs] using hn
    refine ⟨none, ?_, by simp, fun _ _ => rfl⟩
    have := runsK_opt_none (args_fails (headNot_mono (fun c hc => hc ▸ hb) hn'.ok)) hn'.tok
    simp only [rOptArgs, List.length_nil, Nat.add_zero, Option.toList]
    exact this.mono (by barith)
  | cons a as =>
    simp only [rOptArgs] at h hn ⊢
    have hr := argsT τ hτ (a :: as) (by simp) hwf h hn.tok
    refine ⟨some (argsPair τ p (a :: as)), (runsK_opt_some hr).mono (by omega), ?_, fun fuel hf => ?_⟩
    · intro x hx
      cases hx
      exact ⟨rfl, rfl, clean_argsPair τ p _⟩
    · have h1 := sizeFields_le_args τ (a :: as) hwf p
      have h2 : (renderArgs τ p (a :: as)).length ≤ (tk τ sep p (renderArgs τ p (a :: as))).length := by simp [tk]
      exact buildArguments_argsPair τ inp (a :: as) p _ fuel h.left.drop (by omega)

/-! ### the head of a field -/

abbrev headBad : Char → Prop := fun c => c = '(' ∨ c = '@' ∨ c = ':'

/-- what the builder needs to know of the pairs of a field head -/
structure HeadB (τ : Trivia) (inp : List Char) (sD : Bool) (p : Nat) (al : Option (Name × Pos)) (n : Name)
    (args : List Arg) (dirs : List Directive) (oA oG oD : Option Pair) : Prop where
  alias : (al = none ∧ oA = none) ∨ ∃ a ap e, al = some (a, ap) ∧
    oA = some (.mk R.Alias p e [.mk R.Name p (p + a.toList.length) []]) ∧ HasAt inp p a.toList
  name : HasAt inp (hOffN τ p al) n.toList
  argsOk : ∀ x ∈ oG, PairOk R.Arguments (hOffG τ sD p al n args dirs) x
  argsB : ∀ fuel, (rHead τ sD p al n args dirs).length ≤ fuel →
    optArgs (Ctx.spec inp) fuel oG = .ok (withPosFs τ inp (hOffG τ sD p al n args dirs + 1) true args)
  dirsOk : ∀ x ∈ oD, PairOk R.Directives (hOffD τ sD p al n args dirs) x
  dirsB : ∀ fuel, (rHead τ sD p al n args dirs).length ≤ fuel →
    optDirs (Ctx.spec inp) fuel oD = .ok (wpDirs τ inp sD (hOffD τ sD p al n args dirs) dirs)

/-- alias, name, arguments, directives of a `Field`, followed by any continuation `T` of the rule body -/
theorem headK (τ : Trivia) (hτ : ∀ q, Ws (τ q)) (al : Option (Name × Pos)) (n : Name) (args : List Arg)
    (dirs : List Directive) (hal : ∀ a ∈ al, validName a.1.toList) (hnm : validName n.toList) (hargs : WFFs args)
    (hdirs : WFDirs dirs) {sD : Bool} {p : Nat} (h : HasAt inp p (rHead τ sD p al n args dirs))
    (hnx : Nxt inp headBad sD (p + (rHead τ sD p al n args dirs).length)) :
    ∃ oA oG oD : Option Pair,
      (∀ (T : Expr) (nT : Nat) (cE : Cur) (psT : List Pair),
        RunsK nT T (At inp (p + (rHead τ sD p al n args dirs).length)) cE psT →
        RunsK (max nT (B (rHead τ sD p al n args dirs).length + 25) + 5)
          (.seq (.opt (.call R.Alias)) (.seq (.call R.Name) (.seq (.opt (.call R.Arguments))
            (.seq (.opt (.call R.Directives)) T)))) (At inp p) cE
          (oA.toList ++ ([.mk R.Name (hOffN τ p al) (hOffN τ p al + n.toList.length) []] ++
            (oG.toList ++ (oD.toList ++ psT))))) ∧
      (∀ x ∈ oA, x.rule = R.Alias ∧ CleanP x) ∧
      HeadB τ inp sD p al n args dirs oA oG oD := by
  have hoN : hOffN τ p al = p + (rAlias τ p al).length := rfl
  have hoG : hOffG τ sD p al n args dirs = p + (rAlias τ p al).length +
      (tk τ (sD && dirs.isEmpty && args.isEmpty) (p + (rAlias τ p al).length) n.toList).length := rfl
  have hoD : hOffD τ sD p al n args dirs = p + (rAlias τ p al).length +
      (tk τ (sD && dirs.isEmpty && args.isEmpty) (p + (rAlias τ p al).length) n.toList).length +
      (rOptArgs τ (sD && dirs.isEmpty) (p + (rAlias τ p al).length +
        (tk τ (sD && dirs.isEmpty && args.isEmpty) (p + (rAlias τ p al).length) n.toList).length) args).length := rfl
  have hLen : (rHead τ sD p al n args dirs).length = (rAlias τ p al ++
      (tk τ (sD && dirs.isEmpty && args.isEmpty) (p + (rAlias τ p al).length) n.toList ++
        (rOptArgs τ (sD && dirs.isEmpty) (p + (rAlias τ p al).length +
          (tk τ (sD && dirs.isEmpty && args.isEmpty) (p + (rAlias τ p al).length) n.toList).length) args ++
          rDirs τ sD (p + (rAlias τ p al).length +
            (tk τ (sD && dirs.isEmpty && args.isEmpty) (p + (rAlias τ p al).length) n.toList).length +
            (rOptArgs τ (sD && dirs.isEmpty) (p + (rAlias τ p al).length +
              (tk τ (sD && dirs.isEmpty && args.isEmpty) (p + (rAlias τ p al).length) n.toList).length) args).length)
            dirs))).length := rfl
  simp only [rHead] at h hnx ⊢
  rw [hoN]
  generalize hA : rAlias τ p al = tA at *
  generalize hsN : (sD && dirs.isEmpty && args.isEmpty) = sN at *
  generalize hsA : (sD && dirs.isEmpty) = sA at *
  generalize hN : tk τ sN (p + tA.length) n.toList = tN at *
  generalize hG : rOptArgs τ sA (p + tA.length + tN.length) args = tG at *
  generalize hD : rDirs τ sD (p + tA.length + tN.length + tG.length) dirs = tD at *
  have hlen : p + (tA ++ (tN ++ (tG ++ tD))).length = p + tA.length + tN.length + tG.length + tD.length := by
    simp only [List.length_append]; omega
  rw [hlen] at hnx ⊢
  have h1 : HasAt inp p tA := h.left
  have h2 : HasAt inp (p + tA.length) tN := h.right.left
  have h3 : HasAt inp (p + tA.length + tN.length) tG := h.right.right.left
  have h4 : HasAt inp (p + tA.length + tN.length + tG.length) tD := h.right.right.right
  -- what follows each component
  have n3 : Nxt inp (fun c => c = '(' ∨ c = ':') sA (p + tA.length + tN.length + tG.length) := by
    refine Nxt.rest h4 hnx (hD ▸ hd_rDirs τ sD _ dirs) (P := (· = '@')) (by rintro c rfl; decide)
      (fun c hc => hc.elim Or.inl (fun h => Or.inr (Or.inr h))) ?_
    intro ht hs
    have : dirs = [] := rDirs_eq_nil (hD.trans ht)
    subst this
    rw [← hsA] at hs
    simpa using hs
  have n2 : Nxt inp (· = ':') sN (p + tA.length + tN.length) := by
    refine Nxt.rest h3 n3 (hG ▸ hd_rOptArgs τ sA _ args) (P := (· = '(')) (by rintro c rfl; decide)
      (fun c hc => Or.inr hc) ?_
    intro ht hs
    have : args = [] := rOptArgs_eq_nil (hG.trans ht)
    subst this
    rw [← hsN] at hs
    simpa using hs
  -- the name
  have hrN : RunsK (B tN.length) (.call R.Name) (At inp (p + tA.length)) (At inp (p + tA.length + tN.length))
      [.mk R.Name (p + tA.length) (p + tA.length + n.toList.length) []] := by
    have := (nameT hτ hnm (hN ▸ h2) (by rw [hN]; exact n2)).toK
    rw [hN] at this
    exact this
  -- arguments, directives
  obtain ⟨oG, hrG, hokG, hbG⟩ := optArgsT τ hτ args hargs (bad := fun c => c = '(' ∨ c = ':') (Or.inl rfl)
    (hG ▸ h3) (by rw [hG]; exact n3)
  obtain ⟨oD, hrD, hokD, _, hbD⟩ := optDirsT τ hτ dirs hdirs (bad := headBad) (Or.inl rfl) (Or.inr (Or.inl rfl))
    (hD ▸ h4) (by rw [hD]; exact hnx)
  rw [hG] at hrG hbG
  rw [hD] at hrD hbD
  have hnmTok : Tok (At inp (p + tA.length)) :=
    tok_of_hd h2 (hN ▸ hd_tk (hd_of_validName hnm)) (fun d => nameStart_not_trivia)
  -- the alias
  have halias : ∃ oA : Option Pair, RunsK (B (tA.length + tN.length) + 10) (.opt (.call R.Alias)) (At inp p)
      (At inp (p + tA.length)) oA.toList ∧ (∀ x ∈ oA, x.rule = R.Alias ∧ CleanP x) ∧
      ((al = none ∧ oA = none) ∨ ∃ a ap e, al = some (a, ap) ∧
        oA = some (.mk R.Alias p e [.mk R.Name p (p + a.toList.length) []]) ∧ HasAt inp p a.toList) := by
    cases al with
    | none =>
      have hA0 : tA = [] := by rw [← hA]; rfl
      subst hA0
      simp only [List.length_nil, Nat.add_zero] at hrN hnmTok n2 ⊢
      have hf := fails_rule look_Alias (by decide) (by decide)
        (fails_seq_K hrN (str_fails (x := ':') (xs := []) n2.ok))
      exact ⟨none, (runsK_opt_none hf hnmTok).mono (by barith), by simp, by simp⟩
    | some ap =>
      obtain ⟨a, apos⟩ := ap
      have hav : validName a.toList := hal (a, apos) rfl
      simp only [rAlias] at hA
      generalize hA1 : tk τ false p a.toList = t1 at hA
      generalize hA2 : tk τ false (p + t1.length) [':'] = t2 at hA
      subst hA
      have g1 : HasAt inp p t1 := h1.left
      have g2 : HasAt inp (p + t1.length) t2 := h1.right
      have hl : p + (t1 ++ t2).length = p + t1.length + t2.length := by simp only [List.length_append]; omega
      rw [hl] at hnmTok
      have r1 := (nameT hτ hav (hA1 ▸ g1) (bad := fun _ => False) (sep := false)
        (by rw [hA1]; exact Nxt.of_hd g2 (hA2 ▸ hd_tk (hd_cons (P := (· = ':')) _ rfl)) (by rintro c rfl; decide))).toK
      have r2 := strT hτ [':'] (hA2 ▸ g2) (by rw [hA2]; exact hnmTok)
      rw [hA1] at r1
      rw [hA2] at r2
      obtain ⟨e, hr⟩ := runsK_rule look_Alias (by decide) (by decide) (runsK_seq r1 r2)
      refine ⟨some (.mk R.Alias p e [.mk R.Name p (p + a.toList.length) []]), ?_, ?_, Or.inr ⟨a, apos, e, rfl, rfl, ?_⟩⟩
      · refine RunsK.cast ((runsK_opt_some hr).mono ?_) rfl (by rw [hl]) (by simp [At])
        barith
      · intro x hx
        cases hx
        exact ⟨rfl, cleanP_of (by decide) (by decide) ⟨cleanP_of (by decide) (by decide) trivial, trivial⟩⟩
      · have := (hA1 ▸ g1 : HasAt inp p (tk τ false p a.toList)); exact this.left
  obtain ⟨oA, hrA, hokA, hbA⟩ := halias
  refine ⟨oA, oG, oD, ?_, hokA, ⟨hbA, ?_, ?_, ?_, ?_, ?_⟩⟩
  · intro T nT cE psT hT
    refine (runsK_seq hrA (runsK_seq hrN (runsK_seq hrG (runsK_seq hrD hT)))).mono ?_
    barith
  · rw [hoN]; exact (hN ▸ h2 : HasAt inp (p + tA.length) (tk τ sN (p + tA.length) n.toList)).left
  · rw [hoG]; exact hokG
  · intro fuel hf
    rw [hoG]
    exact hbG fuel (by rw [hLen] at hf; simp only [List.length_append] at hf; omega)
  · rw [hoD]; exact hokD
  · intro fuel hf
    rw [hoD]
    exact hbD fuel (by rw [hLen] at hf; simp only [List.length_append] at hf; omega)

/-! ### the builder on a field -/

/-- the function `build_selection_set` maps over the `Selection` children (selection_set.rs) -/
def selFn (ctx : Ctx) (fuel : Nat) : Pair → M Gql.Selection := fun s => do
  let c ← onlyChildOf OC_Selection "Selection" s
  if c.rule = R.Field then
    match ← matchParts P_Field c.children with
    | [alias, some name, args, dirs, sel] =>
      let alias ← match alias with
        | some a => do
          let n ← onlyChildOf OC_Alias "Alias" a
          pure (some (ident ctx n))
        | none => pure none
      let args ← optArgs ctx fuel args
      let dirs ← optDirs ctx fuel dirs
      let sel ← match sel with
        | some ss => do
          let r ← buildSelectionSet ctx fuel ss
          pure (some r)
        | none => pure none
      .ok (.field alias (asString ctx name) (toPos ctx name) args dirs sel)
    | _ => .error (.modelBug "Field")
  else if c.rule = R.FragmentSpread then
    let pos := toPos ctx c
    match ← matchParts P_FragmentSpread c.children with
    | [some name, dirs] =>
      let dirs ← optDirs ctx fuel dirs
      .ok (.spread (asString ctx name) (toPos ctx name) dirs pos)
    | _ => .error (.modelBug "FragmentSpread")
  else if c.rule = R.InlineFragment then
    let pos := toPos ctx c
    match ← matchParts P_InlineFragment c.children with
    | [tc, dirs, some ss] =>
      let cond ← match tc with
        | some t => do
          let i ← typeConditionIdent ctx t
          pure (some i)
        | none => pure none
      let dirs ← optDirs ctx fuel dirs
      let sel ← buildSelectionSet ctx fuel ss
      .ok (.inline cond dirs sel pos)
    | _ => .error (.modelBug "InlineFragment")
  else .error (.modelBug "Selection")

theorem buildSelectionSet_eq (ctx : Ctx) (fuel : Nat) (s e : Nat) (cs : List Pair)
    (hcs : allChildrenGo AC_SelectionSet cs = .ok ()) :
    buildSelectionSet ctx (fuel + 1) (.mk R.SelectionSet s e cs) = cs.mapM (selFn ctx fuel) := by
  unfold selFn
  simp [buildSelectionSet, allChildren, Pair.children, hcs, bind, Except.bind]
  rfl


theorem p_field_nodup : (P_Field.map itemRule).Nodup := by decide

/-- the optional selection set of a field, as `build_field` treats it -/
def optSelB (ctx : Ctx) (fuel : Nat) : Option Pair → M (Option (List Selection))
  | some ss => match buildSelectionSet ctx fuel ss with
    | .ok r => .ok (some r)
    | .error e => .error e
  | none => .ok none

/-- `build_field` on the pairs of a field head and an optional selection set -/
theorem selFn_field (τ : Trivia) (inp : List Char) (fuel : Nat) (sD : Bool) (p : Nat) (al : Option (Name × Pos)) (n : Name)
    (args : List Arg) (dirs : List Directive) (oA oG oD oS : Option Pair) (e e' : Nat) (selW : Option (List Selection))
    (hB : HeadB τ inp sD p al n args dirs oA oG oD) (hA : ∀ x ∈ oA, x.rule = R.Alias)
    (hS : ∀ x ∈ oS, x.rule = R.SelectionSet) (hfuel : (rHead τ sD p al n args dirs).length ≤ fuel)
    (hsel : optSelB (Ctx.spec inp) fuel oS = .ok selW) :
    selFn (Ctx.spec inp) fuel (.mk R.Selection p e' [.mk R.Field p e
      (slotPairs [oA, some (.mk R.Name (hOffN τ p al) (hOffN τ p al + n.toList.length) []), oG, oD, oS])]) =
      .ok (wpField τ inp sD p al n args dirs selW) := by
  have hm := matchParts_slots P_Field
    [oA, some (.mk R.Name (hOffN τ p al) (hOffN τ p al + n.toList.length) []), oG, oD, oS] p_field_nodup
    ⟨hA, ⟨_, rfl, rfl⟩, fun x hx => (hB.argsOk x hx).rule, fun x hx => (hB.dirsOk x hx).rule, hS, trivial⟩
  have hname := hB.name.slice
  unfold selFn
  cases oS with
  | none =>
    simp only [optSelB, Except.ok.injEq] at hsel
    subst hsel
    rcases hB.alias with ⟨rfl, rfl⟩ | ⟨a, ap, ea, rfl, rfl, ha⟩
    · simp [onlyChildOf, onlyChild, Pair.children, OC_Selection, Pair.rule, bind, Except.bind, hm,
        hB.argsB fuel hfuel, hB.dirsB fuel hfuel, wpField, wpAlias, asString_spec', toPos_spec', Pair.start,
        Pair.stop, hname, pure, Except.pure]
    · have hsa := ha.slice
      simp [onlyChildOf, onlyChild, Pair.children, OC_Selection, OC_Alias, Pair.rule, bind, Except.bind, hm,
        hB.argsB fuel hfuel, hB.dirsB fuel hfuel, wpField, wpAlias, ident, asString_spec', toPos_spec', Pair.start,
        Pair.stop, hname, hsa, pure, Except.pure]
  | some ss =>
    simp only [optSelB] at hsel
    cases hb : buildSelectionSet (Ctx.spec inp) fuel ss with
    | error err => rw [hb] at hsel; cases hsel
    | ok r =>
      rw [hb] at hsel
      simp only [Except.ok.injEq] at hsel
      subst hsel
      rcases hB.alias with ⟨rfl, rfl⟩ | ⟨a, ap, ea, rfl, rfl, ha⟩
      · simp [onlyChildOf, onlyChild, Pair.children, OC_Selection, Pair.rule, bind, Except.bind, hm,
          hB.argsB fuel hfuel, hB.dirsB fuel hfuel, wpField, wpAlias, asString_spec', toPos_spec', Pair.start,
          Pair.stop, hname, hb, pure, Except.pure]
      · have hsa := ha.slice
        simp [onlyChildOf, onlyChild, Pair.children, OC_Selection, OC_Alias, Pair.rule, bind, Except.bind, hm,
          hB.argsB fuel hfuel, hB.dirsB fuel hfuel, wpField, wpAlias, ident, asString_spec', toPos_spec', Pair.start,
          Pair.stop, hname, hsa, hb, pure, Except.pure]

end NitroVerif.DocParse
