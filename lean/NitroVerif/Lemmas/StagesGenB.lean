/-
C08 (stages after parsing), the operation type printer, part B: the walk lemma.

If `check_selection_set` walks a selection set with the static type `ct` in scope and reports nothing (up to
`UnknownVariable` under `without_variable_checks`), then — under `schemaOkB`, `ifaceOkB`, `skipIncludeB` — there is a
nesting bound `Dp` such that every selection of the set
  * has no fragment cycle and only defined spreads within `Dp` levels (`fitsS`), and
  * passes C01's validity check `selOkB` for EVERY possible object type of `ct`
    (fields exist on the object type, `@skip`/`@include` carry `if`, composite field types have parent objects,
    spreads and type conditions are defined, applicable fragments are valid for the object type).
Induction on the fuel of the spread handler (= entering a fragment), inside it on the size of the selection set.
-/
import NitroVerif.Lemmas.StagesGenA
namespace NitroVerif.Stages
open NitroVerif.Gql NitroVerif.CheckOp NitroVerif.CheckCommon NitroVerif.Valid NitroVerif.OpTypes NitroVerif.OpTypes.Ref
  NitroVerif.Exec

/-- what the walk establishes about one selection visited with static type `ct`, at nesting bound `Dp` -/
def SelP (S : Schema) (F : FragMap) (ct : TypeDef) (Dp : Nat) (s : Selection) : Prop :=
  fitsS F Dp s = true ∧ ∀ o, o ∈ S.possibleTypes ct.name → IsObj S o → selOkB S F Dp o s = true

theorem selP_mono {S : Schema} {F : FragMap} {ct : TypeDef} (D1 D2 : Nat) (s : Selection) (h : D1 ≤ D2)
    (hp : SelP S F ct D1 s) : SelP S F ct D2 s :=
  ⟨fitsS_mono h hp.1, fun o ho hobj => selOkB_mono h (hp.2 o ho hobj)⟩

def WalkOK (S : Schema) (F : FragMap) (ct : TypeDef) (ss : List Selection) : Prop :=
  ∃ Dp, ∀ s ∈ ss, SelP S F ct Dp s

/-- the walk statement for handler fuel `k` -/
def WalkStmt (S : Schema) (D : Doc) (A : ErrKind → Bool) (k : Nat) : Prop :=
  ∀ (ss : List Selection) (seen : List Name) (vars : Option (List VarDef)) (ct : TypeDef) (cfields : List FieldDef),
    S.typeDef? ct.name = some ct → CheckOp.directFields ct = some cfields →
    Quiet A (checkSelections S (spreadHandler S D k) seen vars ct cfields ss) → WalkOK S (OpTypes.fragsOf D) ct ss

theorem isComposite_of_directFields {S : Schema} {n : Name} {ft : TypeDef} (hn : S.typeDef? n = some ft)
    (h : (CheckOp.directFields ft).isSome = true) : S.isComposite n = true := by
  unfold Schema.isComposite Schema.kindOf?
  rw [hn]
  unfold CheckOp.directFields at h
  cases hk : ft.kind <;> simp [hk] at h ⊢

section
variable {S : Schema} {D : Doc} (hS : schemaOkB S = true) (hI : ifaceOkB S = true) (hSI : skipIncludeB S = true)
  (hC : CondsDefined S D) {A : ErrKind → Bool} (hA : Admissible A)
include hS hI hSI hC hA

/-- one selection, given the statement for smaller selection sets (same fuel) and for the previous fuel -/
theorem walk_sel_ok (k : Nat) (HK : ∀ k', k = k' + 1 → WalkStmt S D A k') (n : Nat)
    (IH : ∀ ss, Selection.sizeList ss ≤ n → ∀ seen vars ct cfields, S.typeDef? ct.name = some ct →
      CheckOp.directFields ct = some cfields →
      Quiet A (checkSelections S (spreadHandler S D k) seen vars ct cfields ss) → WalkOK S (OpTypes.fragsOf D) ct ss) :
    ∀ s, s.size ≤ n + 1 → ∀ seen vars ct cfields, S.typeDef? ct.name = some ct →
      CheckOp.directFields ct = some cfields →
      Quiet A (checkSelection S (spreadHandler S D k) seen vars ct cfields s) →
      ∃ Dp, SelP S (OpTypes.fragsOf D) ct Dp s := by
  have hnd := typeNamesNodup_of_valid hS
  intro s hsz seen vars ct cfields hct hf h
  cases s with
  | field al name namePos args dirs sel =>
    rw [checkSelection_field] at h
    cases hfd : cfields.find? (·.name == name) with
    | none =>
      simp only [hfd] at h
      have := hA _ (by decide : ErrKind.FieldNotFound ≠ ErrKind.UnknownVariable)
      rw [quiet_single, this] at h; cases h
    | some fd =>
      simp only [hfd] at h
      rw [quiet_append, quiet_append] at h
      obtain ⟨⟨hd, _⟩, h3⟩ := h
      have hdirs := dirsOk_of_quiet hSI hA hd
      cases hft : S.typeDef? fd.ty.unwrapped with
      | none =>
        simp only [hft] at h3
        have := hA _ (by decide : ErrKind.TypeSystemError ≠ ErrKind.UnknownVariable)
        rw [quiet_single, this] at h3; cases h3
      | some ft =>
        simp only [hft] at h3
        have hftn : ft.name = fd.ty.unwrapped := CheckOp.typeDef?_name hft
        cases sel with
        | none =>
          refine ⟨1, by simp [fitsS], ?_⟩
          intro o ho hobj
          simp only [selOkB, hdirs, Bool.true_and, Bool.or_eq_true]
          by_cases hnt : name = "__typename"
          · left; simp [hnt]
          · right
            obtain ⟨g, hg, _⟩ := field_on_possible hS hI hct hf hfd hnt ho hobj
            simp [hg]
        | some ss' =>
          simp only at h3
          have hss : Selection.sizeList ss' ≤ n := by simp [Selection.size] at hsz; omega
          cases hdf : CheckOp.directFields ft with
          | none =>
            simp only [hdf] at h3
            have := hA _ (by decide : ErrKind.SelectionOnInvalidType ≠ ErrKind.UnknownVariable)
            rw [quiet_single, this] at h3; cases h3
          | some ffields =>
            simp only [hdf] at h3
            have hftc : S.typeDef? ft.name = some ft := by rw [hftn]; exact hft
            obtain ⟨Dp, hDp⟩ := IH ss' hss seen vars ft ffields hftc hdf h3
            have hcomp : (CheckOp.directFields ft).isSome = true := by simp [hdf]
            refine ⟨Dp + 1, ?_, ?_⟩
            · simp only [fitsS, List.all_eq_true]
              exact fun x hx => (hDp x hx).1
            · intro o ho hobj
              simp only [selOkB, hdirs, Bool.true_and, Bool.or_eq_true]
              by_cases hnt : name = "__typename"
              · left; simp [hnt]
              · right
                obtain ⟨g, hg, hsub⟩ := field_on_possible hS hI hct hf hfd hnt ho hobj
                simp only [hg, Bool.and_eq_true, List.all_eq_true]
                -- the possible object types of the object's field type are possible types of the checked type
                have hpo : parentsOkB S g.ty.unwrapped = true ∧
                    ∀ o' ∈ S.possibleTypes g.ty.unwrapped, o' ∈ S.possibleTypes ft.name := by
                  unfold subOkB at hsub
                  simp only [Bool.or_eq_true, Bool.and_eq_true, List.all_eq_true] at hsub
                  rcases hsub with (heq | hleaf) | ⟨hp, hall⟩
                  · have heq' : g.ty.unwrapped = fd.ty.unwrapped := by simpa using heq
                    rw [heq']
                    exact ⟨parentsOk_of_composite hS hft hcomp, fun o' ho' => by rw [hftn]; exact ho'⟩
                  · have := isComposite_of_directFields hft hcomp
                    rw [this] at hleaf; cases hleaf
                  · refine ⟨hp, fun o' ho' => ?_⟩
                    have := hall o' ho'
                    rw [hftn]
                    simpa using this
                refine ⟨hpo.1, fun o' ho' x hx => ?_⟩
                exact (hDp x hx).2 o' (hpo.2 o' ho') (isObj_of_possible hnd hpo.1 ho')
  | spread name namePos dirs pos =>
    simp only [checkSelection] at h
    rw [quiet_append] at h
    obtain ⟨hd, hh⟩ := h
    have hdirs := dirsOk_of_quiet hSI hA hd
    obtain ⟨k', f, hk, _, hm, _, hwalk⟩ := handler_quiet hA hf hh
    obtain ⟨ct', hct'⟩ := hC f (fragMap_mem hm).1
    obtain ⟨_, hq⟩ := hwalk ct' hct'
    have hctn : ct'.name = f.cond := CheckOp.typeDef?_name hct'
    unfold checkSelectionSet at hq
    cases hdf : CheckOp.directFields ct' with
    | none =>
      simp only [hdf] at hq
      have := hA _ (by decide : ErrKind.SelectionOnInvalidType ≠ ErrKind.UnknownVariable)
      rw [quiet_single, this] at hq; cases hq
    | some cfields' =>
      simp only [hdf] at hq
      obtain ⟨Dp, hDp⟩ := HK k' hk f.sel _ vars ct' cfields' (by rw [hctn]; exact hct') hdf hq
      have hF : OpTypes.fragsOf D name = some f := by rw [opFragsOf_eq_fragMap]; exact hm
      refine ⟨Dp + 1, ?_, ?_⟩
      · simp only [fitsS, hF, List.all_eq_true]
        exact fun x hx => (hDp x hx).1
      · intro o _ hobj
        simp only [selOkB, hdirs, Bool.true_and, hF, hct', Option.isSome_some, Bool.or_eq_true,
          Bool.not_eq_true', List.all_eq_true]
        by_cases happ : fragmentTypeApplies S o f.cond = true
        · right
          intro x hx
          have hop : o ∈ S.possibleTypes ct'.name := by rw [hctn]; exact possible_of_applies hnd hobj happ
          exact (hDp x hx).2 o hop hobj
        · left; simpa using happ
  | inline cond dirs ss' pos =>
    simp only [checkSelection] at h
    rw [quiet_append] at h
    obtain ⟨hd, h2⟩ := h
    have hdirs := dirsOk_of_quiet hSI hA hd
    have hss : Selection.sizeList ss' ≤ n := by simp [Selection.size] at hsz; omega
    cases cond with
    | none =>
      simp only at h2
      obtain ⟨Dp, hDp⟩ := IH ss' hss seen vars ct cfields hct hf h2
      refine ⟨Dp + 1, ?_, ?_⟩
      · simp only [fitsS, List.all_eq_true]
        exact fun x hx => (hDp x hx).1
      · intro o ho hobj
        simp only [selOkB, hdirs, Bool.true_and, condApplies, Bool.not_true, Bool.false_or, List.all_eq_true]
        exact fun x hx => (hDp x hx).2 o ho hobj
    | some cc =>
      obtain ⟨c, cp⟩ := cc
      simp only at h2
      cases hcd : S.typeDef? c with
      | none =>
        simp only [hcd] at h2
        have := hA _ (by decide : ErrKind.UnknownType ≠ ErrKind.UnknownVariable)
        rw [quiet_single, this] at h2; cases h2
      | some cdef =>
        simp only [hcd, spreadApplicability_go hf, if_true] at h2
        rw [quiet_append] at h2
        obtain ⟨_, h3⟩ := h2
        have hcn : cdef.name = c := CheckOp.typeDef?_name hcd
        cases hdf : CheckOp.directFields cdef with
        | none =>
          simp only [hdf] at h3
          have := hA _ (by decide : ErrKind.SelectionOnInvalidType ≠ ErrKind.UnknownVariable)
          rw [quiet_single, this] at h3; cases h3
        | some cfields' =>
          simp only [hdf] at h3
          obtain ⟨Dp, hDp⟩ := IH ss' hss seen vars cdef cfields' (by rw [hcn]; exact hcd) hdf h3
          refine ⟨Dp + 1, ?_, ?_⟩
          · simp only [fitsS, List.all_eq_true]
            exact fun x hx => (hDp x hx).1
          · intro o _ hobj
            simp only [selOkB, hdirs, Bool.true_and, hcd, Option.isSome_some, condApplies, Bool.or_eq_true,
              Bool.not_eq_true', List.all_eq_true]
            by_cases happ : fragmentTypeApplies S o c = true
            · right
              intro x hx
              have hop : o ∈ S.possibleTypes cdef.name := by rw [hcn]; exact possible_of_applies hnd hobj happ
              exact (hDp x hx).2 o hop hobj
            · left; simpa using happ

/-- the statement for fuel `k`, given it for the previous fuel -/
theorem walk_sels_ok (k : Nat) (HK : ∀ k', k = k' + 1 → WalkStmt S D A k') :
    ∀ (n : Nat) (ss : List Selection), Selection.sizeList ss ≤ n → ∀ seen vars ct cfields,
      S.typeDef? ct.name = some ct → CheckOp.directFields ct = some cfields →
      Quiet A (checkSelections S (spreadHandler S D k) seen vars ct cfields ss) →
      WalkOK S (OpTypes.fragsOf D) ct ss := by
  intro n
  induction n with
  | zero =>
    intro ss hsz seen vars ct cfields _ _ _
    cases ss with
    | nil => exact ⟨0, fun s hs => by cases hs⟩
    | cons s ss => have := Selection.one_le_size s; simp [Selection.sizeList] at hsz; omega
  | succ n ih =>
    intro ss
    induction ss with
    | nil => intro _ seen vars ct cfields _ _ _; exact ⟨0, fun s hs => by cases hs⟩
    | cons s ss ihs =>
      intro hsz seen vars ct cfields hct hf h
      simp only [checkSelections] at h
      rw [quiet_append] at h
      obtain ⟨h1, h2⟩ := h
      have hs1 := Selection.one_le_size s
      simp only [Selection.sizeList] at hsz
      obtain ⟨D1, hD1⟩ := walk_sel_ok hS hI hSI hC hA k HK n ih s (by omega) seen vars ct cfields hct hf h1
      obtain ⟨D2, hD2⟩ := ihs (by omega) seen vars ct cfields hct hf h2
      refine ⟨max D1 D2, fun x hx => ?_⟩
      rcases List.mem_cons.mp hx with rfl | hx
      · exact selP_mono _ _ _ (Nat.le_max_left _ _) hD1
      · exact selP_mono _ _ _ (Nat.le_max_right _ _) (hD2 x hx)

/-- **Walk lemma (printer side).** -/
theorem walkStmt_all : ∀ k, WalkStmt S D A k := by
  intro k
  induction k with
  | zero =>
    intro ss seen vars ct cfields hct hf h
    exact walk_sels_ok hS hI hSI hC hA 0 (fun k' hk => by omega) _ ss (Nat.le_refl _) seen vars ct cfields hct hf h
  | succ k ih =>
    intro ss seen vars ct cfields hct hf h
    refine walk_sels_ok hS hI hSI hC hA (k + 1) (fun k' hk => ?_) _ ss (Nat.le_refl _) seen vars ct cfields hct hf h
    have : k' = k := by omega
    rw [this]; exact ih

/-- a quietly walked selection set (C03's `QuietSet`) is valid for every possible object type of its static type -/
theorem quietSet_ok {seen : List Name} {vars : Option (List VarDef)} {t : Name} {ss : List Selection}
    (h : QuietSet S D A seen vars t ss) :
    ∃ ct, S.typeDef? t = some ct ∧ (CheckOp.directFields ct).isSome = true ∧
      ∃ Dp, ∀ s ∈ ss, fitsS (OpTypes.fragsOf D) Dp s = true ∧
        ∀ o ∈ S.possibleTypes t, selOkB S (OpTypes.fragsOf D) Dp o s = true := by
  have hnd := typeNamesNodup_of_valid hS
  obtain ⟨k, ct, anchor, hct, hq⟩ := h
  have hctn : ct.name = t := CheckOp.typeDef?_name hct
  unfold checkSelectionSet at hq
  cases hdf : CheckOp.directFields ct with
  | none =>
    simp only [hdf] at hq
    have := hA _ (by decide : ErrKind.SelectionOnInvalidType ≠ ErrKind.UnknownVariable)
    rw [quiet_single, this] at hq; cases hq
  | some cfields =>
    simp only [hdf] at hq
    obtain ⟨Dp, hDp⟩ := walkStmt_all hS hI hSI hC hA k ss seen vars ct cfields (by rw [hctn]; exact hct) hdf hq
    have hcomp : (CheckOp.directFields ct).isSome = true := by simp [hdf]
    refine ⟨ct, hct, hcomp, Dp, fun s hs => ⟨(hDp s hs).1, fun o ho => ?_⟩⟩
    have hp := parentsOk_of_composite hS hct hcomp
    exact (hDp s hs).2 o (by rw [hctn]; exact ho) (isObj_of_possible hnd hp ho)

end
end NitroVerif.Stages
