import NitroVerif.Lemmas.PrintMapSchema
/-!
# C06 — printer call sites: the resolver type printer (no plugins)

`resolverSites doc` is a closed form of the `write_for` calls with a non-builtin position that
`ResolverTypePrinter::print_document` performs, in order; `resolverOps_mapped` shows it is exactly the projection of the
modelled operation sequence.
-/
namespace NitroVerif.PrintMap
open NitroVerif.Gql NitroVerif.DeclCfg NitroVerif.SchemaDecls

/-- the reference to a named type through its `TypeVariable` -/
def refSites (possible : List (Name × Pos)) : List POp := possible.flatMap fun m => node m.1 m.2 m.1

/-- the (name, name node) pairs of the object types implementing an interface -/
def implementerNodes (s : Schema) (iface : Name) : List (Name × Pos) :=
  (s.objectImplementers iface).map fun n => (n, nameNodeOf s n)

/-- `type <Name> = <resolver output type>;` -/
def outputAliasSites (s : Schema) (td : TypeDef) : List POp :=
  node td.name td.namePos td.name
  ++ (match td.kind with
      | .interface => refSites (implementerNodes s td.name)
      | .union => refSites td.members
      | _ => [])

/-- one field of an object type in `Resolvers<Context>`: its key, the parent type reference, the argument keys, the
    reference to the field's named type -/
def fieldResolverSites (td : TypeDef) (f : FieldDef) : List POp :=
  keySites f.name f.pos ++ node td.name td.namePos td.name
  ++ f.args.flatMap (fun a => keySites a.name a.pos)
  ++ node f.ty.unwrapped (leafPos f.ty) f.ty.unwrapped

/-- the entry of a type in `Resolvers<Context>` -/
def rootEntrySites (s : Schema) (td : TypeDef) : List POp :=
  match td.kind with
  | .object => keySites td.name td.namePos ++ td.fields.flatMap (fieldResolverSites td)
  | .interface => keySites td.name td.namePos ++ refSites (implementerNodes s td.name)
  | .union => keySites td.name td.namePos ++ refSites td.members
  | _ => []

/-- closed form of the mapped calls of `ResolverTypePrinter::print_document`, in order -/
def resolverSites (doc : TsDoc) : List POp :=
  let s : Schema := ⟨doc⟩
  let tds := typeDefsOf doc
  let outs := tds.filter (·.kind != .input)
  outs.flatMap (outputAliasSites s)
  ++ tds.flatMap (rootEntrySites s)
  ++ outs.flatMap (fun td => keySites td.name td.namePos ++ node td.name td.namePos td.name)

theorem tySites_resolverOutputTy (s : Schema) (td : TypeDef) :
    tySites (resolverOutputTy s td) =
      (match td.kind with
       | .interface => refSites (implementerNodes s td.name)
       | .union => refSites td.members
       | _ => []) := by
  unfold resolverOutputTy
  cases hk : td.kind <;>
    simp [tySites, tySitesList, tySites_tsUnion, tySitesList_map, refSites, implementerNodes, List.flatMap_map]

theorem tySites_argumentsTy (args : List InputValueDef) :
    tySites (argumentsTy args) = args.flatMap (fun a => keySites a.name a.pos) := by
  unfold argumentsTy
  rw [tySites_intoReadonly]
  simp only [tySites]
  rw [fieldSites_map]
  congr 1
  funext a
  simp [plainField, fieldSites, keySites, tySites_tsOfType, tySites]

theorem tySites_typeResolverTy (possible : List (Name × Pos)) :
    tySites (typeResolverTy possible) = refSites possible := by
  unfold typeResolverTy
  simp [tySites, fieldSites, plainField, tySitesList, tySites_tsUnion, tySitesList_map, refSites]

theorem rootEntry_sites (s : Schema) (td : TypeDef) :
    (match resolverTy s td with
     | some t => fieldSites [TSField.mk td.name td.namePos t false (isEmptyObj t) none]
     | none => []) = rootEntrySites s td := by
  unfold resolverTy rootEntrySites
  cases hk : td.kind <;> simp only [fieldSites, List.append_nil]
  · -- object
    simp only [tySites, keySites]
    congr 1
    rw [fieldSites_map]
    congr 1
    funext f
    simp [plainField, fieldSites, tySites, tySitesList, tySites_argumentsTy, tySites_tsOfType, fieldResolverSites,
      keySites]
  · -- interface
    simp only [keySites]
    congr 1
    rw [tySites_typeResolverTy]
    simp [implementerNodes]
  · -- union
    simp only [keySites]
    congr 1
    exact tySites_typeResolverTy _

theorem aliases_mapped (s : Schema) (l : List TypeDef) :
    mappedOps (l.flatMap (fun td =>
      [POp.write "type ", .writeFor td.name td.namePos (some td.name), .write " = "]
      ++ printTy (resolverOutputTy s td) ++ [.write ";\n"])) = l.flatMap (outputAliasSites s) := by
  rw [mappedOps_flatMap]
  congr 1
  funext td
  simp [mapped_printTy, tySites_resolverOutputTy, outputAliasSites]

theorem rootObj_sites (s : Schema) (tds : List TypeDef) :
    tySites (.obj (tds.filterMap fun td =>
      match resolverTy s td with
      | some t => some (TSField.mk td.name td.namePos t false (isEmptyObj t) none)
      | none => none)) = tds.flatMap (rootEntrySites s) := by
  simp only [tySites]
  rw [fieldSites_filterMap]
  congr 1
  funext td
  rw [← rootEntry_sites s td]
  cases resolverTy s td <;> rfl

theorem namesUnion_sites (l : List TypeDef) : tySites (tsUnion (l.map fun td => TSTy.strLit td.name)) = [] := by
  simp [tySites_tsUnion, tySitesList_map, tySites]

theorem outputObj_sites (l : List TypeDef) :
    tySites (.obj (l.map fun td => plainField td.name td.namePos (.var td.name td.namePos) none)) =
      l.flatMap (fun td => keySites td.name td.namePos ++ node td.name td.namePos td.name) := by
  simp only [tySites]
  rw [fieldSites_map]
  simp [plainField, fieldSites, tySites, keySites]

theorem resolverOps_mapped (doc : TsDoc) : mappedOps (resolverOps doc) = resolverSites doc := by
  unfold resolverOps resolverSites
  simp only [List.cons_append, List.nil_append, mappedOps_write, mappedOps_append, mappedOps_nil, List.append_nil,
    mapped_printTy, namesUnion_sites, outputObj_sites, List.append_assoc]
  congr 1
  · exact aliases_mapped _ _
  · congr 1
    exact rootObj_sites _ _

end NitroVerif.PrintMap
