import NitroVerif.Lemmas.GqlPrintOwnFlat
import NitroVerif.Lemmas.ParseDocExec
/-!
C16 over nitrogql's own parser: flat forms of C07's renderings of executable documents (default values, variable
definitions, selections, selection sets, operations, fragments, documents).
-/
namespace NitroVerif.C16Own
open NitroVerif.Gql NitroVerif.ValueParse NitroVerif.DocParse NitroVerif.TypeParse NitroVerif.StringParse

/-! ### default values, variable definitions -/

def cOptDefault (sep : Bool) : Option Value → List (List Char × Bool)
  | none => []
  | some v => (['='], false) :: cValue sep v

theorem flat_optDefault (τ : Trivia) (sep : Bool) (p : Nat) (d : Option Value) :
    rOptDefault τ sep p d = rToks τ p (cOptDefault sep d) := by
  cases d with
  | none => rfl
  | some v => simp only [rOptDefault, cOptDefault, rToks_cons, flat_value]

def cVarDef (sep : Bool) (v : VarDef) : List (List Char × Bool) :=
  (['$'], false) :: (v.name.toList, false) :: ([':'], false) ::
    (cType (sep && v.dirs.isEmpty && v.default.isNone) v.ty ++
      (cOptDefault (sep && v.dirs.isEmpty) v.default ++ cDirs sep v.dirs))

theorem flat_varDef (τ : Trivia) (sep : Bool) (p : Nat) (v : VarDef) : rVarDef τ sep p v = rToks τ p (cVarDef sep v) := by
  simp only [rVarDef, cVarDef, flat_type, flat_optDefault, flat_dirs, rToks_cons, rToks_append]

def cOptVars (sep : Bool) : List VarDef → List (List Char × Bool)
  | [] => []
  | v :: vs => (['('], false) :: (cList cVarDef false false (v :: vs) ++ [([')'], sep)])

theorem flat_optVars (τ : Trivia) (sep : Bool) (p : Nat) (vs : List VarDef) :
    rOptVars τ sep p vs = rToks τ p (cOptVars sep vs) := by
  cases vs with
  | nil => rfl
  | cons v vs =>
    simp only [rOptVars, cOptVars, rVarDefs, flat_list cVarDef false false τ (rVarDef τ) (fun s q a => flat_varDef τ s q a),
      rToks_cons, rToks_append, rToks_nil, List.append_nil]

/-! ### selections -/

def cAlias : Option (Name × Pos) → List (List Char × Bool)
  | none => []
  | some (a, _) => [(a.toList, false), ([':'], false)]

theorem flat_alias (τ : Trivia) (p : Nat) (al : Option (Name × Pos)) : rAlias τ p al = rToks τ p (cAlias al) := by
  cases al with
  | none => rfl
  | some a => obtain ⟨a, ap⟩ := a; simp only [rAlias, cAlias, rToks_cons, rToks_nil, List.append_nil]

def cOptArgs (sep : Bool) : List Arg → List (List Char × Bool)
  | [] => []
  | a :: as => cArgs sep (a :: as)

theorem flat_optArgs (τ : Trivia) (sep : Bool) (p : Nat) (args : List Arg) :
    rOptArgs τ sep p args = rToks τ p (cOptArgs sep args) := by
  cases args with
  | nil => rfl
  | cons a as => simp only [rOptArgs, cOptArgs, flat_args]

def cHead (sD : Bool) (al : Option (Name × Pos)) (n : Name) (args : List Arg) (dirs : List Directive) :
    List (List Char × Bool) :=
  cAlias al ++ ((n.toList, sD && dirs.isEmpty && args.isEmpty) :: (cOptArgs (sD && dirs.isEmpty) args ++ cDirs sD dirs))

theorem flat_head (τ : Trivia) (sD : Bool) (p : Nat) (al : Option (Name × Pos)) (n : Name) (args : List Arg)
    (dirs : List Directive) : rHead τ sD p al n args dirs = rToks τ p (cHead sD al n args dirs) := by
  simp only [rHead, cHead, flat_alias, flat_optArgs, flat_dirs, rToks_cons, rToks_append]

def cCond (sep : Bool) : Option (Name × Pos) → List (List Char × Bool)
  | none => []
  | some (t, _) => [(kwOn, true), (t.toList, sep)]

theorem flat_cond (τ : Trivia) (sep : Bool) (p : Nat) (c : Option (Name × Pos)) : rCond τ sep p c = rToks τ p (cCond sep c) := by
  cases c with
  | none => rfl
  | some a => obtain ⟨a, ap⟩ := a; simp only [rCond, cCond, rToks_cons, rToks_nil, List.append_nil]

mutual
def cSel : Bool → Selection → List (List Char × Bool)
  | sep, .field al n _ args dirs none => cHead sep al n args dirs
  | sep, .field al n _ args dirs (some ss) => cHead false al n args dirs ++ ((['{'], false) :: (cSels ss ++ [(['}'], sep)]))
  | sep, .spread n _ dirs _ => (dots, false) :: (n.toList, sep && dirs.isEmpty) :: cDirs sep dirs
  | sep, .inline cond dirs ss _ =>
    (dots, false) :: (cCond false cond ++ (cDirs false dirs ++ ((['{'], false) :: (cSels ss ++ [(['}'], sep)]))))
def cSels : List Selection → List (List Char × Bool)
  | [] => []
  | s :: r => cSel (!r.isEmpty) s ++ cSels r
end

mutual
theorem flat_sel (τ : Trivia) : (s : Selection) → ∀ (sep : Bool) (p : Nat), rSel τ sep p s = rToks τ p (cSel sep s)
  | .field al n _ args dirs none => fun sep p => by simp only [rSel, cSel, flat_head]
  | .field al n _ args dirs (some ss) => fun sep p => by
    simp only [rSel, cSel, flat_head, flat_sels τ ss, rToks_cons, rToks_append, rToks_nil, List.append_nil]
  | .spread n _ dirs _ => fun sep p => by simp only [rSel, cSel, flat_dirs, rToks_cons]
  | .inline cond dirs ss _ => fun sep p => by
    simp only [rSel, cSel, flat_cond, flat_dirs, flat_sels τ ss, rToks_cons, rToks_append, rToks_nil, List.append_nil]
theorem flat_sels (τ : Trivia) : (ss : List Selection) → ∀ (p : Nat), rSels τ p ss = rToks τ p (cSels ss)
  | [] => fun p => by simp only [rSels, cSels, rToks_nil]
  | [s] => fun p => by
    simp only [rSels, cSels, flat_sel τ s, List.isEmpty_nil, Bool.not_true, List.append_nil]
  | s :: t :: r => fun p => by
    simp only [rSels, flat_sel τ s, flat_sels τ (t :: r)]
    rw [show cSels (s :: t :: r) = cSel true s ++ cSels (t :: r) by simp [cSels]]
    rw [rToks_append]
end

def cSelSet (sep : Bool) (ss : List Selection) : List (List Char × Bool) := (['{'], false) :: (cSels ss ++ [(['}'], sep)])

theorem flat_selSet (τ : Trivia) (sep : Bool) (p : Nat) (ss : List Selection) :
    rSelSet τ sep p ss = rToks τ p (cSelSet sep ss) := by
  simp only [rSelSet, cSelSet, flat_sels, rToks_cons, rToks_append, rToks_nil, List.append_nil]

/-! ### operations, fragments, documents -/

def cOptName : Option (Name × Pos) → List (List Char × Bool)
  | none => []
  | some (n, _) => [(n.toList, false)]

theorem flat_optName (τ : Trivia) (p : Nat) (n : Option (Name × Pos)) : rOptName τ p n = rToks τ p (cOptName n) := by
  cases n with
  | none => rfl
  | some a => obtain ⟨a, ap⟩ := a; simp only [rOptName, cOptName, rToks_cons, rToks_nil, List.append_nil]

def cOp (sep : Bool) (o : OperationDef) : List (List Char × Bool) :=
  (opKw o.kind, o.name.isSome) :: (cOptName o.name ++ (cOptVars false o.vars ++ (cDirs false o.dirs ++ cSelSet sep o.sel)))

theorem flat_op (τ : Trivia) (sep : Bool) (p : Nat) (o : OperationDef) : rOp τ sep p o = rToks τ p (cOp sep o) := by
  simp only [rOp, cOp, flat_optName, flat_optVars, flat_dirs, flat_selSet, rToks_cons, rToks_append]

def cFrag (sep : Bool) (f : FragmentDef) : List (List Char × Bool) :=
  (kwFragment, true) :: (f.name.toList, true) ::
    (cCond false (some (f.cond, f.condPos)) ++ (cDirs false f.dirs ++ cSelSet sep f.sel))

theorem flat_frag (τ : Trivia) (sep : Bool) (p : Nat) (f : FragmentDef) : rFrag τ sep p f = rToks τ p (cFrag sep f) := by
  simp only [rFrag, cFrag, flat_cond, flat_dirs, flat_selSet, rToks_cons, rToks_append]

/-- the printer never uses the `{ … }` shorthand -/
def noSh : Nat → Bool := fun _ => false

def cDef (sep : Bool) : ExecDef → List (List Char × Bool)
  | .op o => cOp sep o
  | .frag f => cFrag sep f
  | .imp _ => []

theorem flat_def (τ : Trivia) (sep : Bool) (p : Nat) (d : ExecDef) : rDef τ noSh sep p d = rToks τ p (cDef sep d) := by
  cases d with
  | op o => simp [rDef, noSh, cDef, flat_op]
  | frag f => simp only [rDef, cDef, flat_frag]
  | imp i => rfl

def cDoc (doc : List ExecDef) : List (List Char × Bool) := cList cDef false false doc

theorem flat_doc (τ : Trivia) (doc : List ExecDef) :
    rDoc τ noSh doc = τ 0 ++ rToks τ (τ 0).length (cDoc doc) := by
  simp only [rDoc, cDoc, flat_list cDef false false τ (rDef τ noSh) (fun s q a => flat_def τ s q a)]

end NitroVerif.C16Own
