import NitroVerif.Lemmas.GqlPrintOwnFits
import NitroVerif.Lemmas.GqlPrintOwnFlatExec
/-!
C16 over nitrogql's own parser: the printer's token lists of executable documents fit the flat forms of C07's renderings
(variable definitions, selections, operations, fragments, documents).
-/
namespace NitroVerif.C16Own
open NitroVerif.Gql NitroVerif.GqlPrint NitroVerif.ValueParse NitroVerif.DocParse NitroVerif.TypeParse NitroVerif.StringParse

theorem gapNext_sp (ts : List Tok) : gapNext (sp :: ts) = true := rfl
theorem gapNext_nl (ts : List Tok) : gapNext (nl :: ts) = true := rfl

/-! ### the optional parts of the printing functions, as functions (a `match` inside a definition cannot be addressed
by a lemma that has its own `match`) -/

def pDefault : Option Value → List Tok
  | some dv => [sp, .p "=", sp] ++ printValue dv
  | none => []
def pAlias : Option (Name × Pos) → List Tok
  | some (a, _) => [.name a, .p ":", sp]
  | none => []
def pCondTs : Option (Name × Pos) → List Tok
  | some (t, _) => [.name "on", sp, .name t, sp]
  | none => []
def pOpName : Option (Name × Pos) → List Tok
  | some (n, _) => [sp, .name n]
  | none => []

theorem printVarDef_eq (v : VarDef) :
    printVarDef v = [.var v.name, .p ":", sp] ++ printType v.ty ++ pDefault v.default ++ printDirs v.dirs := by
  unfold printVarDef; cases v.default <;> rfl
theorem printSelection_field_none (al : Option (Name × Pos)) (n : Name) (np : Pos) (as : List Arg) (ds : List Directive) :
    printSelection (.field al n np as ds none) = pAlias al ++ [.name n] ++ printArgs as ++ printDirs ds := by
  cases al <;> simp [printSelection, pAlias]
theorem printSelection_field_some (al : Option (Name × Pos)) (n : Name) (np : Pos) (as : List Arg) (ds : List Directive)
    (xs : List Selection) :
    printSelection (.field al n np as ds (some xs)) = pAlias al ++ [.name n] ++ printArgs as ++ printDirs ds ++
      (sp :: ([.p "{", nl, .ind] ++ printSelLines xs ++ [.ded, .p "}"])) := by
  cases al <;> simp [printSelection, pAlias]
theorem printSelection_inline (c : Option (Name × Pos)) (ds : List Directive) (ss : List Selection) (p : Pos) :
    printSelection (.inline c ds ss p) = [.p "...", sp] ++ pCondTs c ++ printDirs ds ++
      ([.p "{", nl, .ind] ++ printSelLines ss ++ [.ded, .p "}"]) := by
  cases c <;> simp [printSelection, pCondTs]
theorem printOperation_eq (o : OperationDef) :
    printOperation o = [.name o.kind.asStr] ++ pOpName o.name ++ printVarDefs o.vars ++ printDirs o.dirs ++ [sp] ++
      printSelSet o.sel ++ [nl] := by
  unfold printOperation; cases o.name <;> rfl

/-! ### variable definitions -/

theorem fits_optDefault (d : Option Value) (hwf : ∀ v ∈ d, WFV v) (sep : Bool) (cs : List (List Char × Bool))
    (ts : List Tok) (hs : sep = true → gapNext ts = true) (h : Fits cs ts) :
    Fits (cOptDefault sep d ++ cs) (pDefault d ++ ts) := by
  cases d with
  | none => simpa [cOptDefault, pDefault] using h
  | some v =>
    simp only [cOptDefault, pDefault]; lnorm
    refine fits_sp (fits_p "=" false (by decide) (by simp [gapNext_sp]) (fits_sp ?_))
    exact fits_value v (hwf v rfl) sep cs ts hs h

theorem gapNext_optDefault (d : Option Value) (ts : List Tok) (h : d.isNone = false) :
    gapNext (pDefault d ++ ts) = true := by
  cases d with
  | none => cases h
  | some v => rfl

theorem fits_varDef (v : VarDef) (hwf : WFVarDef v) (sep : Bool) (cs : List (List Char × Bool)) (ts : List Tok)
    (hs : sep = true → gapNext ts = true) (h : Fits cs ts) : Fits (cVarDef sep v ++ cs) (printVarDef v ++ ts) := by
  obtain ⟨hn, ht, hd, hdirs⟩ := hwf
  simp only [cVarDef, printVarDef_eq]; lnorm
  refine fits_var2 v.name false (good_of_validName hn) (by simp) ?_
  refine fits_p ":" false (by decide) (by simp) (fits_sp ?_)
  refine fits_type v.ty ht _ _ _ ?_ ?_
  · intro he
    simp only [Bool.and_eq_true, List.isEmpty_iff, Option.isNone_iff_eq_none] at he
    obtain ⟨⟨hsep, hde⟩, hdn⟩ := he
    simpa [hde, hdn, printDirs, pDefault] using hs hsep
  refine fits_optDefault v.default hd _ _ _ ?_ ?_
  · intro he
    simp only [Bool.and_eq_true, List.isEmpty_iff] at he
    simpa [he.2, printDirs] using hs he.1
  exact fits_dirs v.dirs hdirs sep cs ts hs h

theorem fits_varDefsSep : ∀ (vs : List VarDef), (∀ v ∈ vs, WFVarDef v) → ∀ (first : Bool) (cs : List (List Char × Bool))
    (ts : List Tok), Fits cs ts → Fits (cList cVarDef false false vs ++ cs) (printVarDefsSep vs first ++ ts) := by
  intro vs
  induction vs with
  | nil => intro _ first cs ts h; simpa [cList, printVarDefsSep] using h
  | cons v vs ih =>
    intro hwf first cs ts h
    simp only [cList, printVarDefsSep, ite_self]; lnorm
    have step := fits_varDef v (hwf v (by simp)) false _ _ (by simp) (ih (fun x hx => hwf x (by simp [hx])) false cs ts h)
    cases first
    · exact fits_lay ",\n" (by decide) step
    · exact step

theorem fits_optVars (vs : List VarDef) (hwf : ∀ v ∈ vs, WFVarDef v) (cs : List (List Char × Bool)) (ts : List Tok)
    (h : Fits cs ts) : Fits (cOptVars false vs ++ cs) (printVarDefs vs ++ ts) := by
  match vs, hwf with
  | [], _ => simpa [cOptVars, printVarDefs] using h
  | [v], hw =>
    simp only [cOptVars, printVarDefs, cList, List.isEmpty_nil, if_true, List.append_nil]; lnorm
    refine fits_p "(" false (by decide) (by simp) ?_
    refine fits_varDef v (hw v (by simp)) false _ _ (by simp) ?_
    exact fits_p ")" false (by decide) (by simp) h
  | v1 :: v2 :: vs', hw =>
    simp only [cOptVars, printVarDefs]; lnorm
    refine fits_p "(" false (by decide) (by simp) (fits_nl (fits_ind ?_))
    refine fits_varDefsSep (v1 :: v2 :: vs') hw true _ _ (fits_ded (fits_nl ?_))
    exact fits_p ")" false (by decide) (by simp) h

/-! ### selections -/

theorem fits_head (sD : Bool) (al : Option (Name × Pos)) (n : Name) (args : List Arg) (dirs : List Directive)
    (hal : ∀ a ∈ al, validName a.1.toList) (hn : validName n.toList) (hargs : WFFs args) (hdirs : WFDirs dirs)
    (cs : List (List Char × Bool)) (ts : List Tok) (hs : sD = true → gapNext ts = true) (h : Fits cs ts) :
    Fits (cHead sD al n args dirs ++ cs)
      (pAlias al ++ [.name n] ++ printArgs args ++ printDirs dirs ++ ts) := by
  have body : Fits ((n.toList, sD && dirs.isEmpty && args.isEmpty) :: (cOptArgs (sD && dirs.isEmpty) args ++ cDirs sD dirs) ++ cs)
      ([.name n] ++ printArgs args ++ printDirs dirs ++ ts) := by
    lnorm
    refine fits_name n _ (good_of_validName hn) ?_ ?_
    · intro he
      simp only [Bool.and_eq_true, List.isEmpty_iff] at he
      simpa [he.1.2, he.2, printArgs, printDirs] using hs he.1.1
    cases args with
    | nil =>
      simp only [cOptArgs, printArgs, List.nil_append]
      exact fits_dirs dirs hdirs sD cs ts hs h
    | cons a as =>
      simp only [cOptArgs]
      refine fits_args (a :: as) (by simp) hargs _ _ _ ?_ (fits_dirs dirs hdirs sD cs ts hs h)
      intro he
      simp only [Bool.and_eq_true, List.isEmpty_iff] at he
      simpa [he.2, printDirs] using hs he.1
  cases al with
  | none => simpa [cHead, cAlias, pAlias] using body
  | some a =>
    obtain ⟨a, ap⟩ := a
    simp only [cHead, cAlias, pAlias]; lnorm
    refine fits_name a false (good_of_validName (hal (a, ap) rfl)) (by simp) ?_
    refine fits_p ":" false (by decide) (by simp) (fits_sp ?_)
    simpa using body

mutual
theorem fits_sel : (s : Selection) → WFSel s → ∀ (sep : Bool) (cs : List (List Char × Bool)) (ts : List Tok),
    (sep = true → gapNext ts = true) → Fits cs ts → Fits (cSel sep s ++ cs) (printSelection s ++ ts)
  | .field al n _ args dirs none => fun hwf sep cs ts hs h => by
    simp only [cSel, printSelection_field_none]
    exact fits_head sep al n args dirs hwf.1 hwf.2.1 hwf.2.2.1 hwf.2.2.2 cs ts hs h
  | .field al n _ args dirs (some ss) => fun hwf sep cs ts hs h => by
    simp only [cSel, printSelection_field_some]
    have := fits_head false al n args dirs hwf.1 hwf.2.1 hwf.2.2.1 hwf.2.2.2.1
      ((['{'], false) :: (cSels ss ++ [(['}'], sep)]) ++ cs)
      (sp :: ([.p "{", nl, .ind] ++ printSelLines ss ++ [.ded, .p "}"]) ++ ts) (by simp) ?_
    · simpa [List.append_assoc] using this
    · lnorm
      refine fits_sp (fits_p "{" false (by decide) (by simp) (fits_nl (fits_ind ?_)))
      refine fits_selLines ss hwf.2.2.2.2.2 _ _ (fits_ded ?_)
      exact fits_p "}" sep (by decide) hs h
  | .spread n _ dirs _ => fun hwf sep cs ts hs h => by
    simp only [cSel, printSelection]; lnorm
    refine fits_p "..." false (by decide) (by simp) (fits_sp ?_)
    refine fits_name n _ (good_of_validName hwf.1) ?_ (fits_dirs dirs hwf.2.2 sep cs ts hs h)
    intro he
    simp only [Bool.and_eq_true, List.isEmpty_iff] at he
    simpa [he.2, printDirs] using hs he.1
  | .inline cond dirs ss _ => fun hwf sep cs ts hs h => by
    simp only [cSel, printSelection_inline]
    have tail : Fits (cDirs false dirs ++ ((['{'], false) :: (cSels ss ++ [(['}'], sep)])) ++ cs)
        (printDirs dirs ++ ([.p "{", nl, .ind] ++ printSelLines ss ++ [.ded, .p "}"]) ++ ts) := by
      lnorm
      refine fits_dirs dirs hwf.2.1 false _ _ (by simp) ?_
      refine fits_p "{" false (by decide) (by simp) (fits_nl (fits_ind ?_))
      refine fits_selLines ss hwf.2.2.2 _ _ (fits_ded ?_)
      exact fits_p "}" sep (by decide) hs h
    cases cond with
    | none =>
      simp only [cCond, pCondTs]; lnorm
      refine fits_p "..." false (by decide) (by simp) (fits_sp ?_)
      simpa [List.append_assoc] using tail
    | some c =>
      obtain ⟨t, tp⟩ := c
      simp only [cCond, pCondTs]; lnorm
      refine fits_p "..." false (by decide) (by simp) (fits_sp ?_)
      refine fits_name "on" true (by decide) (fun _ => gapNext_sp _) (fits_sp ?_)
      refine fits_name t false (good_of_validName (hwf.1 (t, tp) rfl)) (by simp) (fits_sp ?_)
      simpa [List.append_assoc] using tail
theorem fits_selLines : (ss : List Selection) → WFSels ss → ∀ (cs : List (List Char × Bool)) (ts : List Tok),
    Fits cs ts → Fits (cSels ss ++ cs) (printSelLines ss ++ ts)
  | [] => fun _ cs ts h => by simpa [cSels, printSelLines] using h
  | s :: ss => fun hwf cs ts h => by
    simp only [cSels, printSelLines]; lnorm
    refine fits_sel s hwf.1 _ _ _ (fun _ => gapNext_nl _) (fits_nl ?_)
    exact fits_selLines ss hwf.2 cs ts h
end

theorem fits_selSet (ss : List Selection) (hwf : WFSels ss) (sep : Bool) (cs : List (List Char × Bool)) (ts : List Tok)
    (hs : sep = true → gapNext ts = true) (h : Fits cs ts) : Fits (cSelSet sep ss ++ cs) (printSelSet ss ++ ts) := by
  simp only [cSelSet, printSelSet]; lnorm
  refine fits_p "{" false (by decide) (by simp) (fits_nl (fits_ind ?_))
  refine fits_selLines ss hwf _ _ (fits_ded ?_)
  exact fits_p "}" sep (by decide) hs h

/-! ### operations, fragments, documents -/

theorem opKw_eq (k : OpKind) : k.asStr.toList = opKw k := by cases k <;> rfl

/-- the printer writes a line feed after every definition, so every `sep` is honoured -/
theorem fits_op (o : OperationDef) (hwf : WFOp o) (sep : Bool) (cs : List (List Char × Bool)) (ts : List Tok)
    (h : Fits cs ts) : Fits (cOp sep o ++ cs) (printOperation o ++ ts) := by
  obtain ⟨hn, hv, hd, _, hs⟩ := hwf
  simp only [cOp, printOperation_eq]
  have tail : Fits (cOptVars false o.vars ++ (cDirs false o.dirs ++ cSelSet sep o.sel) ++ cs)
      (printVarDefs o.vars ++ printDirs o.dirs ++ [sp] ++ printSelSet o.sel ++ [nl] ++ ts) := by
    lnorm
    refine fits_optVars o.vars hv _ _ ?_
    refine fits_dirs o.dirs hd false _ _ (by simp) (fits_sp ?_)
    exact fits_selSet o.sel hs sep _ _ (fun _ => gapNext_nl _) (fits_nl h)
  have hk : goodNm o.kind.asStr.toList = true := by cases o.kind <;> decide
  rw [← opKw_eq]
  cases hname : o.name with
  | none =>
    simp only [cOptName, pOpName, Option.isSome_none]; lnorm
    refine fits_name o.kind.asStr false hk (by simp) ?_
    simpa [List.append_assoc] using tail
  | some a =>
    obtain ⟨n, np⟩ := a
    simp only [cOptName, pOpName, Option.isSome_some]; lnorm
    refine fits_name o.kind.asStr true hk (fun _ => gapNext_sp _) (fits_sp ?_)
    refine fits_name n false (good_of_validName (hn (n, np) (by simp [hname]))) (by simp) ?_
    simpa [List.append_assoc] using tail

theorem fits_frag (f : FragmentDef) (hwf : WFFrag f) (sep : Bool) (cs : List (List Char × Bool)) (ts : List Tok)
    (h : Fits cs ts) : Fits (cFrag sep f ++ cs) (printFragment f ++ ts) := by
  obtain ⟨hn, _, hc, hd, _, hs⟩ := hwf
  simp only [cFrag, printFragment, cCond]; lnorm
  refine fits_name "fragment" true (by decide) (fun _ => gapNext_sp _) (fits_sp ?_)
  refine fits_name f.name true (good_of_validName hn) (fun _ => gapNext_sp _) (fits_sp ?_)
  refine fits_name "on" true (by decide) (fun _ => gapNext_sp _) (fits_sp ?_)
  refine fits_name f.cond false (good_of_validName hc) (by simp) ?_
  refine fits_dirs f.dirs hd false _ _ (by simp) (fits_sp ?_)
  exact fits_selSet f.sel hs sep _ _ (fun _ => gapNext_nl _) (fits_nl h)

theorem fits_def (d : ExecDef) (hwf : WFDef d) (sep : Bool) (cs : List (List Char × Bool)) (ts : List Tok)
    (h : Fits cs ts) : Fits (cDef sep d ++ cs) (printExecDef d ++ ts) := by
  cases d with
  | op o => exact fits_op o hwf sep cs ts h
  | frag f => exact fits_frag f hwf sep cs ts h
  | imp i => exact absurd hwf id

theorem fits_doc : ∀ (doc : List ExecDef), (∀ d ∈ doc, WFDef d) → Fits (cDoc doc) (printDoc doc) := by
  intro doc
  induction doc with
  | nil => intro _; exact fits_nil
  | cons d ds ih =>
    intro hwf
    have := fits_def d (hwf d (by simp)) (if ds.isEmpty then false else false) _ _ (ih fun x hx => hwf x (by simp [hx]))
    simpa [cDoc, cList, printDoc] using this

end NitroVerif.C16Own
