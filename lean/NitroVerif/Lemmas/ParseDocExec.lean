/-
Executable documents (helper lemmas for Props/C07Doc): `ExecutableDocument = SOI ~ ExecutableDefinition+ ~ EOI` on the
rendering of a list of operations and fragments, through `parse_operation_document` (`parseOp`).
-/
import NitroVerif.Lemmas.ParseDocOp
namespace NitroVerif.DocParse
open NitroVerif.Peg NitroVerif.Gen NitroVerif.Gen.Parts NitroVerif.Build NitroVerif.TypeParse NitroVerif.StringParse
open NitroVerif.Gql NitroVerif.ValueParse NitroVerif.Spec.Lex NitroVerif.ParseText

set_option linter.unusedSimpArgs false

theorem look_ExecutableDocument : gList.look R.ExecutableDocument =
    some (.normal, .seq .soi (.seq (.plus (.call R.ExecutableDefinition)) (.call R.EOI))) := rfl
theorem look_EOI : gList.look R.EOI = some (.normal, .eoi) := rfl
theorem look_ext_ImportStatement : ∃ tl, gList.look R.ext_ImportStatement = some (.normal, .seq (.str ['#']) tl) :=
  ⟨_, rfl⟩

variable {inp : List Char}

/-- an anonymous query without variables and directives may be written as `{ … }` -/
def isPlain (o : OperationDef) : Bool := o.kind == .query && o.name.isNone && o.vars.isEmpty && o.dirs.isEmpty

/-- the text of a definition; `sh q`: an anonymous plain query at offset `q` is written as the `{ … }` shorthand -/
def rDef (τ : Trivia) (sh : Nat → Bool) : Bool → Nat → ExecDef → List Char
  | sep, p, .op o => if sh p && isPlain o then rSelSet τ sep p o.sel else rOp τ sep p o
  | sep, p, .frag f => rFrag τ sep p f
  | _, _, .imp _ => []

def wpDef (τ : Trivia) (inp : List Char) (sh : Nat → Bool) : Bool → Nat → ExecDef → ExecDef
  | _, p, .op o => if sh p && isPlain o then .op (wpOpShort τ inp p o) else .op (wpOp τ inp p o)
  | _, p, .frag f => .frag (wpFrag τ inp p f)
  | _, _, .imp i => .imp i

/-- well-formed definitions; `#import` lines are not covered -/
def WFDef : ExecDef → Prop
  | .op o => WFOp o
  | .frag f => WFFrag f
  | .imp _ => False

theorem defT (τ : Trivia) (hτ : ∀ q, Ws (τ q)) (sh : Nat → Bool) (d : ExecDef) (hwf : WFDef d) (sep : Bool) (p : Nat)
    (h : HasAt inp p (rDef τ sh sep p d)) (ht : Tok (At inp (p + (rDef τ sh sep p d).length))) :
    DefOk inp p (rDef τ sh sep p d) (wpDef τ inp sh sep p d) := by
  cases d with
  | op o =>
    simp only [rDef, wpDef] at h ht ⊢
    split
    · rename_i hc
      rw [if_pos hc] at h ht
      exact opShortT τ hτ o hwf.2.2.2.1 hwf.2.2.2.2 h ht
    · rename_i hc
      rw [if_neg hc] at h ht
      exact opT τ hτ o hwf h ht
  | frag f => exact fragT τ hτ f hwf h ht
  | imp i => exact absurd hwf id

theorem hd_rDef (τ : Trivia) (sh : Nat → Bool) (sep : Bool) (p : Nat) (d : ExecDef) (hwf : WFDef d) :
    Hd (fun c => ¬ trivia c) (rDef τ sh sep p d) := by
  cases d with
  | op o =>
    simp only [rDef]
    split
    · exact (hd_rSelSet τ sep p o.sel).mono (by rintro c rfl; decide)
    · simp only [rOp]
      exact Hd.append (hd_tk (P := fun c => ¬ trivia c) ((hd_opKw o.kind).mono (by rintro c (rfl | rfl | rfl) <;> decide))) _
  | frag f =>
    simp only [rDef, rFrag]
    exact Hd.append (hd_tk (P := fun c => ¬ trivia c) (hd_cons _ (by decide))) _
  | imp i => exact absurd hwf id

/-- `ExecutableDefinition` fails at the end of the input -/
theorem execDef_fails_eoi {p : Nat} (h : inp.drop p = []) :
    Fails gList 60 true (.call R.ExecutableDefinition) .nonAtomic (At inp p) := by
  have hn : ∀ P : Char → Prop, HeadNot P (inp.drop p) := fun P => by rw [h]; exact headNot_nil P
  obtain ⟨tl, hl⟩ := look_ext_ImportStatement
  have f3 : Fails gList 4 true (.call R.ext_ImportStatement) .nonAtomic (At inp p) :=
    fails_rule hl (by decide) (by decide) (fails_seq_1 (str_fails (hn _)))
  have f2 : Fails gList 20 true (.call R.FragmentDefinition) .nonAtomic (At inp p) :=
    (fails_rule look_FragmentDefinition (by decide) (by decide)
      (fails_seq_1 (kw_fails_head (la := .none) look_KEYWORD_fragment (hn _)))).mono (by omega)
  exact (fails_rule look_ExecutableDefinition (by decide) (by decide)
    (fails_choice_K (opDef_fails (hn _)) (fails_choice_K f2 f3))).mono (by simp)

/-! ### the document -/

/-- leading trivia, then the definitions, each token followed by its gap -/
def rDoc (τ : Trivia) (sh : Nat → Bool) (doc : List ExecDef) : List Char :=
  τ 0 ++ renderItems (rDef τ sh) false false (τ 0).length doc

def wpDoc (τ : Trivia) (sh : Nat → Bool) (inp : List Char) (doc : List ExecDef) : Doc :=
  mapItems (rDef τ sh) false false (wpDef τ inp sh) (τ 0).length doc

def DefGood (inp : List Char) (ri : Bool → Nat → ExecDef → List Char) (wp : Bool → Nat → ExecDef → ExecDef) :
    Bool → Nat → ExecDef → Pair → Prop := fun s q d pr =>
  PairOk R.ExecutableDefinition q pr ∧
    ∀ fuel, (ri s q d).length ≤ fuel → buildExecutableDefinition (Ctx.spec inp) fuel pr = .ok (wp s q d)

theorem runs_soi (sk : Bool) (at_ : Atomicity) (c : Cur) (h : c.pos = 0) : Runs gList 1 sk .soi at_ c c [] := by
  intro tr; refine ⟨tr, fun f hf => ?_⟩
  obtain ⟨f', rfl⟩ : ∃ f', f = f' + 1 := ⟨f - 1, by omega⟩
  simp [eval, h]

theorem runs_eoi (sk : Bool) (at_ : Atomicity) (c : Cur) (h : c.rest = []) : Runs gList 1 sk .eoi at_ c c [] := by
  intro tr; refine ⟨tr, fun f hf => ?_⟩
  obtain ⟨f', rfl⟩ : ∃ f', f = f' + 1 := ⟨f - 1, by omega⟩
  simp [eval, h]

theorem filter_defs (pss : List Pair) (eoi : Pair) (h : ∀ x ∈ pss, x.rule = R.ExecutableDefinition)
    (he : eoi.rule = R.EOI) :
    ([] ++ (pss ++ [eoi])).filter (fun c => c.rule = R.ExecutableDefinition) = pss := by
  simp only [List.nil_append, List.filter_append]
  have h1 : pss.filter (fun c => decide (c.rule = R.ExecutableDefinition)) = pss :=
    List.filter_eq_self.mpr (fun x hx => by simp [h x hx])
  have h2 : [eoi].filter (fun c => decide (c.rule = R.ExecutableDefinition)) = [] := by
    have : decide (eoi.rule = R.ExecutableDefinition) = false := by rw [he]; decide
    simp [List.filter, this]
  rw [h1, h2, List.append_nil]

/-- parsing and building the rendering of a non-empty list of well-formed operations and fragments -/
theorem doc_parse (τ : Trivia) (hτ : ∀ q, Ws (τ q)) (sh : Nat → Bool) (doc : List ExecDef) (hne : doc ≠ [])
    (hwf : ∀ d ∈ doc, WFDef d) :
    ∃ pr, Peg.parse gList (defaultFuel (rDoc τ sh doc)) R.ExecutableDocument (rDoc τ sh doc) = .pairs [pr] ∧
      CleanP pr ∧ buildOperationDocument (Ctx.spec (rDoc τ sh doc)) (4 * (rDoc τ sh doc).length + 64) [pr] =
        .ok (wpDoc τ sh (rDoc τ sh doc) doc) := by
  cases doc with
  | nil => exact absurd rfl hne
  | cons a r =>
    generalize hinp : rDoc τ sh (a :: r) = inp
    have hI : inp = τ 0 ++ renderItems (rDef τ sh) false false (τ 0).length (a :: r) := by rw [← hinp]; rfl
    generalize hG : τ 0 = g at hI
    generalize hT : renderItems (rDef τ sh) false false g.length (a :: r) = tI at hI
    have hg : HasAt inp 0 g := ⟨tI, by simpa using hI⟩
    have hat : HasAt inp (0 + g.length) tI := ⟨[], by rw [hI]; simp⟩
    have hend : inp.drop (0 + g.length + tI.length) = [] := by rw [hI]; simp
    have htokE : Tok (At inp (0 + g.length + tI.length)) := by
      simp only [Tok, At]; rw [hend]; exact headNot_nil _
    obtain ⟨pss, hmany, hgood⟩ := items_many1K_tok (rDef τ sh) false false (.call R.ExecutableDefinition) 40
      (DefGood inp (rDef τ sh) (wpDef τ inp sh)) r a (0 + g.length)
      (fun x hx s q hx1 hx2 => by
        obtain ⟨pr, hr, hok, hb⟩ := defT τ hτ sh x (hwf x hx) s q hx1 hx2
        exact ⟨pr, hr, hok, hb⟩)
      (fun x hx s q => hd_rDef τ sh s q x (hwf x hx))
      (by simpa [hT] using hat) (by simpa [hT] using htokE)
      (by simpa [hT] using (execDef_fails_eoi hend).mono (by omega : 60 ≤ 40 + 100))
    simp only [Nat.zero_add, hT] at hmany hgood
    -- SOI, the leading trivia
    have htokI : Tok (At inp (0 + g.length)) := by
      obtain ⟨s', tail, htl⟩ := renderItems_cons (rDef τ sh) false false g.length a r
      refine tok_of_hd hat (P := fun c => ¬ trivia c) ?_ (fun d h => h)
      rw [← hT, htl]
      exact (hd_rDef τ sh s' _ a (hwf a (List.mem_cons_self ..))).append _
    have hgap : Gap inp 0 g := ⟨hg, hG ▸ hτ 0, htokI⟩
    have r0 : RunsK (g.length + 60) .soi (At inp 0) (At inp (0 + g.length)) [] :=
      ⟨At inp 0, (runs_soi true .nonAtomic (At inp 0) rfl).mono (by omega), hgap.skip⟩
    -- EOI
    have rE : RunsK 23 (.call R.EOI) (At inp (g.length + tI.length)) (At inp (g.length + tI.length))
        [.mk R.EOI (g.length + tI.length) (g.length + tI.length) []] := by
      have hr : (At inp (g.length + tI.length)).rest = [] := by simpa [At] using hend
      have htk : Tok (At inp (g.length + tI.length)) := by simpa using htokE
      exact ⟨At inp (g.length + tI.length),
        (runs_call (runsRule_normal look_EOI (nsp (by decide) (by decide)) (runs_eoi true .nonAtomic _ hr))).mono
          (by omega), (skipTo_self htk).mono (by omega)⟩
    simp only [Nat.zero_add] at r0
    obtain ⟨e, rD⟩ := runsK_rule look_ExecutableDocument (by decide) (by decide)
      (runsK_seq r0 (runsK_seq (runsK_plus1 hmany) rE))
    obtain ⟨c1, hruns, _⟩ := rD
    obtain ⟨tr', hh⟩ := hruns {}
    have hlenI : inp.length = g.length + tI.length := by rw [hI]; simp
    have hfuel : max (g.length + 60) (max (max (B tI.length + 40 + 1) 20 + 4) 23 + 1) + 1 + 2 ≤
        defaultFuel inp + 1 := by
      simp only [defaultFuel, B, hlenI]; omega
    have hp := hh (defaultFuel inp + 1) hfuel
    simp only [eval, At, List.drop_zero] at hp
    have hrule : ∀ x ∈ pss, x.rule = R.ExecutableDefinition :=
      goodItems_forall (rDef τ sh) false false _ (fun x => x.rule = R.ExecutableDefinition) (a :: r)
        (fun x _ s q pr hgd => hgd.1.rule) _ pss hgood
    have hclean : CleanL pss := goodItems_clean (rDef τ sh) false false _ (a :: r)
      (fun x _ s q pr hgd => hgd.1.clean) _ pss hgood
    refine ⟨.mk R.ExecutableDocument 0 e
      ([] ++ (pss ++ [Pair.mk R.EOI (g.length + tI.length) (g.length + tI.length) []])),
      by simp [Peg.parse, runTr, hp], ?_, ?_⟩
    · refine cleanP_of (by decide) (by decide) ?_
      simp only [List.nil_append, cleanL_append, cleanL_cons, cleanL_nil, and_true]
      exact ⟨hclean, cleanP_of (by decide) (by decide) trivial⟩
    · simp only [buildOperationDocument]
      rw [if_pos (show (Pair.mk R.ExecutableDocument 0 e ([] ++ (pss ++ [Pair.mk R.EOI (g.length + tI.length)
        (g.length + tI.length) []]))).rule = R.ExecutableDocument from rfl)]
      rw [show (Pair.mk R.ExecutableDocument 0 e ([] ++ (pss ++ [Pair.mk R.EOI (g.length + tI.length)
        (g.length + tI.length) []]))).children = [] ++ (pss ++ [Pair.mk R.EOI (g.length + tI.length)
        (g.length + tI.length) []]) from rfl]
      rw [filter_defs pss _ hrule rfl]
      have := goodItems_mapM (rDef τ sh) false false (DefGood inp (rDef τ sh) (wpDef τ inp sh))
        (buildExecutableDefinition (Ctx.spec inp) (4 * inp.length + 64)) (wpDef τ inp sh) (4 * inp.length + 64) (a :: r)
        (fun x _ s q pr hgd hl => hgd.2 _ hl) g.length pss (by rw [hT, hlenI]; omega) hgood
      rw [this]
      simp only [wpDoc, hG]

/-- `parse_operation_document` on the rendering of a document returns the document with the true positions -/
theorem parseOp_rDoc (τ : Trivia) (hτ : ∀ q, Ws (τ q)) (sh : Nat → Bool) (doc : List ExecDef) (hne : doc ≠ [])
    (hwf : ∀ d ∈ doc, WFDef d) : parseOp (rDoc τ sh doc) = .ok (wpDoc τ sh (rDoc τ sh doc) doc) := by
  obtain ⟨pr, hp, hc, hb⟩ := doc_parse τ hτ sh doc hne hwf
  simp only [parseOp, parseWith, hp, firstBadEscape_clean _ [pr] ⟨hc, trivial⟩, hb]

end NitroVerif.DocParse
