/-
Denotation of the printed result types (helper definitions and lemmas for `toTs_denotation`, Props/C01.lean).

`DenTree` says directly, by recursion on the selection tree, which values the type `treeTs r t nn` is MEANT to admit:
`null` iff the position is nullable, lists element-wise, and for an object position a record that fits one of the
branches — a branch `(T, unaliased, aliased)` fits a record that has, for every unaliased field whose key the schema
declaration of `T` declares and for every aliased field, a value fitting the field (`empty` = key absent, typename
leaf = the string `T`, other leaf = wrapper-conforming value of the leaf type, object field = recursively), and no
other key.  `toTs_denotation` proves `Mem e v (treeTs r t nn) ↔ DenTree … t nn v` for well-formed trees under the
environment hypotheses `EnvOk` (the hook gives `__SelectionSet` its reading; leaf references are not unions / never).
-/
import NitroVerif.Lemmas.OpTypes
namespace NitroVerif.OpTypes
open NitroVerif.Gql NitroVerif.Ts

/-! ### pure TypeScript-side lemmas -/

theorem mem_orNull_iff' {e : Env} {v : J} (t : Ty) : Mem e v (orNull t) ↔ v = .null ∨ Mem e v t := by
  by_cases h : ∃ ts, t = .union ts
  · obtain ⟨ts, rfl⟩ := h
    simp only [orNull, mem_union_iff, List.mem_append, List.mem_singleton]
    constructor
    · rintro ⟨t', (ht' | rfl), hm⟩
      · exact Or.inr ⟨t', ht', hm⟩
      · exact Or.inl (mem_null_iff.1 hm)
    · rintro (rfl | ⟨t', ht', hm⟩)
      · exact ⟨.prim "null", Or.inr rfl, mem_null_iff.2 rfl⟩
      · exact ⟨t', Or.inl ht', hm⟩
  · exact mem_orNull_iff (fun ts hts => h ⟨ts, hts⟩)

theorem mem_tsUnion_iff {e : Env} {v : J} (ts : List Ty) : Mem e v (tsUnion ts) ↔ ∃ t ∈ ts, Mem e v t := by
  match ts with
  | [] => simp [tsUnion, mem_never_iff]
  | [t] => simp [tsUnion]
  | t1 :: t2 :: r => simp only [tsUnion, mem_union_iff]

theorem mergeField_notin (f : Field) : ∀ (acc : List Field), (∀ g ∈ acc, g.1 ≠ f.1) → mergeField f acc = acc ++ [f]
  | [], _ => rfl
  | g :: gs, h => by
    have hg : g.1 ≠ f.1 := h g (by simp)
    have : (g.1 == f.1) = false := by simpa using hg
    simp only [mergeField, this, Bool.false_eq_true, ↓reduceIte, List.cons_append]
    rw [mergeField_notin f gs (fun g' hg' => h g' (by simp [hg']))]

theorem mergeFields_disjoint : ∀ (b a : List Field), (∀ f ∈ b, ∀ g ∈ a, g.1 ≠ f.1) → (b.map (·.1)).Nodup →
    mergeFields a b = a ++ b
  | [], a, _, _ => by simp [mergeFields]
  | f :: b, a, hd, hn => by
    have h1 : mergeField f a = a ++ [f] := mergeField_notin f a (fun g hg => hd f (by simp) g hg)
    have hn2 : (f.1 :: b.map (·.1)).Nodup := by simpa only [List.map_cons] using hn
    have hn' : (b.map (·.1)).Nodup := (List.nodup_cons.1 hn2).2
    have hf : ∀ f' ∈ b, f'.1 ≠ f.1 := by
      intro f' hf' heq
      have := (List.nodup_cons.1 hn2).1
      exact this (by rw [← heq]; exact List.mem_map_of_mem hf')
    have ih := mergeFields_disjoint b (a ++ [f]) (by
      intro f' hf' g hg
      rcases List.mem_append.1 hg with hg | hg
      · exact hd f' (by simp [hf']) g hg
      · simp only [List.mem_singleton] at hg; subst hg; exact fun h => hf f' hf' h.symm) hn'
    simp only [mergeFields, List.foldl_cons] at ih ⊢
    rw [h1, ih]; simp

/-- the field clause of the exact-key reading -/
def FieldClause (M : J → Ty → Prop) (kvs : List (String × J)) (F : Field) : Prop :=
  ¬ (F.2.2.1 = true ∧ J.get kvs F.1 = .absent) → M (J.get kvs F.1) F.2.2.2

theorem recordP_append {M : J → Ty → Prop} (a b : List Field) (kvs : List (String × J)) :
    RecordP M (a ++ b) kvs ↔
      (∀ F ∈ a, FieldClause M kvs F) ∧ (∀ F ∈ b, FieldClause M kvs F) ∧
      (∀ kv ∈ kvs, kv.2 = .absent ∨ (∃ F ∈ a, F.1 = kv.1) ∨ ∃ F ∈ b, F.1 = kv.1) := by
  simp only [RecordP, FieldClause, List.mem_append]
  constructor
  · rintro ⟨h1, h2⟩
    refine ⟨fun F hF => h1 F (Or.inl hF), fun F hF => h1 F (Or.inr hF), fun kv hkv => ?_⟩
    rcases h2 kv hkv with h | ⟨F, hF | hF, hk⟩
    · exact Or.inl h
    · exact Or.inr (Or.inl ⟨F, hF, hk⟩)
    · exact Or.inr (Or.inr ⟨F, hF, hk⟩)
  · rintro ⟨ha, hb, hk⟩
    refine ⟨fun F hF => hF.elim (ha F) (hb F), fun kv hkv => ?_⟩
    rcases hk kv hkv with h | ⟨F, hF, hk⟩ | ⟨F, hF, hk⟩
    · exact Or.inl h
    · exact Or.inr ⟨F, Or.inl hF, hk⟩
    · exact Or.inr ⟨F, Or.inr hF, hk⟩

/-! ### well-formed trees and their intended denotation -/

/-- the environment facts the denotation needs: what `keyof Orig` is for every object type name (`orig`), that the
    hook reads `__SelectionSet<out T, Obj, Others>` accordingly, and that a leaf reference is neither a union nor
    `never` syntactically -/
structure EnvOk (e : Env) (r : Refs) (orig : Name → Option (List Field)) : Prop where
  hook : ∀ tn o oth, e.appHook e.decls r.selSet [r.out tn, .obj o, .obj oth]
    = (orig tn).map fun ofs => Ty.obj (SelSem.selectionSet ofs o oth)
  notUnion : ∀ n ts, r.out n ≠ .union ts
  notNever : ∀ n, SelSem.isNever (r.out n) = false

section
variable (e : Env) (r : Refs) (orig : Name → Option (List Field))

mutual
/-- no empty branch list, every branch's type name has a declaration, aliased keys are distinct and differ from
    the unaliased keys (what `deep_merge_selection_tree` and the alias/no-alias partition produce on valid documents) -/
def WFTree : SelTree → Prop
  | .nonNull t => WFTree t
  | .list t => WFTree t
  | .object bs => bs ≠ [] ∧ WFBranches bs
def WFBranches : List Branch → Prop
  | [] => True
  | b :: bs => WFBranch b ∧ WFBranches bs
def WFBranch : Branch → Prop
  | .mk tn _ un al =>
    (orig tn).isSome = true ∧ (al.map SField.name).Nodup ∧ (∀ f ∈ al, ∀ g ∈ un, g.name ≠ f.name) ∧
      WFFields un ∧ WFFields al
def WFFields : List SField → Prop
  | [] => True
  | f :: fs => WFField f ∧ WFFields fs
def WFField : SField → Prop
  | .empty _ => True
  | .leaf _ _ _ => True
  | .object _ sel => WFTree sel
end

mutual
def DenTree : SelTree → Bool → J → Prop
  | .nonNull t, _, v => DenTree t true v
  | .list t, nn, v => (nn = false ∧ v = .null) ∨ ∃ xs, v = .arr xs ∧ ∀ x ∈ xs, DenTree t false x
  | .object bs, nn, v => (nn = false ∧ v = .null) ∨ DenBranches bs v
def DenBranches : List Branch → J → Prop
  | [], _ => False
  | b :: bs, v => DenBranch b v ∨ DenBranches bs v
def DenBranch : Branch → J → Prop
  | .mk tn _ un al, v =>
    ∃ ofs, orig tn = some ofs ∧ ∃ kvs, v = .obj kvs ∧
      DenFields tn (fun k => ofs.any (·.1 == k)) un kvs ∧ DenFields tn (fun _ => true) al kvs ∧
      (∀ kv ∈ kvs, kv.2 = .absent ∨ (∃ f ∈ un, ofs.any (·.1 == f.name) = true ∧ f.name = kv.1) ∨ ∃ f ∈ al, f.name = kv.1)
def DenFields (parent : Name) (keep : Name → Bool) : List SField → List (String × J) → Prop
  | [], _ => True
  | f :: fs, kvs => (keep f.name = true → DenField parent f (J.get kvs f.name)) ∧ DenFields parent keep fs kvs
def DenField (parent : Name) : SField → J → Prop
  | .empty _, x => x = .absent
  | .leaf _ ty isTn, x => if isTn then x = .str parent else WrapConf (fun n v => Mem e v (r.out n)) ty x
  | .object _ sel, x => DenTree sel false x
end
end

/-! ### shape lemmas of the translation -/

theorem fieldTs_key (r : Refs) (p : Name) (f : SField) : (fieldTs r p f).1 = f.name := by
  cases f <;> simp [fieldTs, SField.name]

theorem exists_fieldsTs_key (r : Refs) (p : Name) (P : String → Prop) (fs : List SField) :
    (∃ F ∈ fieldsTs r p fs, P F.1) ↔ ∃ f ∈ fs, P f.name := by
  induction fs with
  | nil => simp [fieldsTs]
  | cons f fs ih => simp only [fieldsTs, List.mem_cons, exists_eq_or_imp, fieldTs_key, ih]

theorem fieldsTs_keys (r : Refs) (p : Name) (fs : List SField) :
    (fieldsTs r p fs).map (·.1) = fs.map SField.name := by
  induction fs with
  | nil => simp [fieldsTs]
  | cons f fs ih => simp only [fieldsTs, List.map_cons, fieldTs_key, ih]

theorem mem_fieldsTs_key {r : Refs} {p : Name} {fs : List SField} {F : Field} (h : F ∈ fieldsTs r p fs) :
    ∃ f ∈ fs, f.name = F.1 :=
  (exists_fieldsTs_key r p (fun k => k = F.1) fs).1 ⟨F, h, rfl⟩

theorem isNever_orNull (t : Ty) : SelSem.isNever (orNull t) = false := by
  cases t <;> simp [orNull, SelSem.isNever]

theorem isNever_leafTs (q : Name → Ty) (hq : ∀ n, SelSem.isNever (q n) = false) (ty : GType) :
    SelSem.isNever (leafTs q ty) = false ∧ SelSem.isNever (leafCore q ty) = false := by
  induction ty with
  | named n p => exact ⟨by simp [leafTs, isNever_orNull], by simp [leafCore, hq]⟩
  | list t p _ => exact ⟨by simp [leafTs, isNever_orNull], by simp [leafCore, SelSem.isNever]⟩
  | nonNull t ih => exact ⟨by simp [leafTs, ih.2], by simp [leafCore, ih.2]⟩

theorem isNever_tsUnion_branches (r : Refs) : ∀ (bs : List Branch), bs ≠ [] →
    SelSem.isNever (tsUnion (branchesTs r bs)) = false
  | [], h => absurd rfl h
  | [.mk tn vs un al], _ => by simp [branchesTs, branchTs, tsUnion, SelSem.isNever]
  | _ :: _ :: _, _ => by simp [branchesTs, tsUnion, SelSem.isNever]

theorem isNever_treeTs (r : Refs) (orig : Name → Option (List Field)) :
    ∀ (t : SelTree) (nn : Bool), WFTree orig t → SelSem.isNever (treeTs r t nn) = false
  | .nonNull t, _, h => by
    simp only [treeTs]; exact isNever_treeTs r orig t true (by simpa only [WFTree] using h)
  | .list t, nn, _ => by
    cases nn
    · simp only [treeTs, Bool.false_eq_true, ↓reduceIte]; exact isNever_orNull _
    · simp [treeTs, SelSem.isNever]
  | .object bs, nn, h => by
    simp only [WFTree] at h
    cases nn
    · simp only [treeTs, Bool.false_eq_true, ↓reduceIte]; exact isNever_orNull _
    · simp only [treeTs, ↓reduceIte]; exact isNever_tsUnion_branches r bs h.1

/-- a printed field is already in the normal form `picked` produces: not readonly, optional iff its type is `never` -/
theorem fieldTs_norm {e : Env} {r : Refs} {orig : Name → Option (List Field)} (h : EnvOk e r orig) (p : Name) (f : SField)
    (hw : WFField orig f) :
    ((fieldTs r p f).1, false, SelSem.isNever (fieldTs r p f).2.2.2, (fieldTs r p f).2.2.2) = fieldTs r p f := by
  cases f with
  | empty n => simp [fieldTs, SelSem.isNever]
  | leaf n ty b =>
    cases b
    · simp [fieldTs, (isNever_leafTs r.out h.notNever ty).1]
    · simp [fieldTs, SelSem.isNever]
  | object n sel =>
    simp only [WFField] at hw
    simp [fieldTs, isNever_treeTs r orig sel false hw]

theorem picked_fieldsTs {e : Env} {r : Refs} {orig : Name → Option (List Field)} (h : EnvOk e r orig) (p : Name)
    (ofs : List Field) : ∀ (fs : List SField), WFFields orig fs →
    SelSem.picked ofs (fieldsTs r p fs) = (fieldsTs r p fs).filter fun F => ofs.any (·.1 == F.1)
  | [], _ => by simp [fieldsTs, SelSem.picked]
  | f :: fs, hw => by
    simp only [WFFields] at hw
    have ih := picked_fieldsTs h p ofs fs hw.2
    simp only [SelSem.picked] at ih ⊢
    simp only [fieldsTs, List.filter_cons]
    split
    · simp only [List.map_cons, ih, fieldTs_norm h p f hw.1]
    · exact ih

/-! ### the denotation lemma -/

section
variable {e : Env} {r : Refs} {orig : Name → Option (List Field)}

mutual
theorem den_tree (h : EnvOk e r orig) : ∀ (t : SelTree) (nn : Bool) (v : J), WFTree orig t →
    (Mem e v (treeTs r t nn) ↔ DenTree e r orig t nn v)
  | .nonNull t, _, v, hw => by
    simp only [treeTs, DenTree]
    exact den_tree h t true v (by simpa only [WFTree] using hw)
  | .list t, nn, v, hw => by
    have hw' : WFTree orig t := by simpa only [WFTree] using hw
    have harr : Mem e v (.arr (treeTs r t false)) ↔ ∃ xs, v = .arr xs ∧ ∀ x ∈ xs, DenTree e r orig t false x := by
      rw [mem_arr_iff]
      constructor
      · rintro ⟨xs, rfl, hx⟩; exact ⟨xs, rfl, fun x hxm => (den_tree h t false x hw').1 (hx x hxm)⟩
      · rintro ⟨xs, rfl, hx⟩; exact ⟨xs, rfl, fun x hxm => (den_tree h t false x hw').2 (hx x hxm)⟩
    cases nn
    · simp only [treeTs, DenTree, Bool.false_eq_true, ↓reduceIte, mem_orNull_iff', harr, true_and]
    · simp only [treeTs, DenTree, ↓reduceIte, harr, Bool.true_eq_false, false_and, false_or]
  | .object bs, nn, v, hw => by
    simp only [WFTree] at hw
    have hb := den_branches h bs v hw.2
    cases nn
    · simp only [treeTs, DenTree, Bool.false_eq_true, ↓reduceIte, mem_orNull_iff', mem_tsUnion_iff, hb, true_and]
    · simp only [treeTs, DenTree, ↓reduceIte, mem_tsUnion_iff, hb, Bool.true_eq_false, false_and, false_or]
theorem den_branches (h : EnvOk e r orig) : ∀ (bs : List Branch) (v : J), WFBranches orig bs →
    ((∃ ty ∈ branchesTs r bs, Mem e v ty) ↔ DenBranches e r orig bs v)
  | [], v, _ => by simp [branchesTs, DenBranches]
  | b :: bs, v, hw => by
    simp only [WFBranches] at hw
    simp only [branchesTs, DenBranches, List.mem_cons, exists_eq_or_imp]
    rw [den_branch h b v hw.1, den_branches h bs v hw.2]
theorem den_branch (h : EnvOk e r orig) : ∀ (b : Branch) (v : J), WFBranch orig b →
    (Mem e v (branchTs r b) ↔ DenBranch e r orig b v)
  | .mk tn vars un al, v, hw => by
    simp only [WFBranch] at hw
    obtain ⟨hsome, hnd, hdisj, hwu, hwa⟩ := hw
    obtain ⟨ofs, hofs⟩ := Option.isSome_iff_exists.1 hsome
    have hhook : e.appHook e.decls r.selSet [r.out tn, .obj (fieldsTs r tn un), .obj (fieldsTs r tn al)]
        = some (.obj (SelSem.selectionSet ofs (fieldsTs r tn un) (fieldsTs r tn al))) := by
      rw [h.hook, hofs]; rfl
    have hmerge : SelSem.selectionSet ofs (fieldsTs r tn un) (fieldsTs r tn al)
        = ((fieldsTs r tn un).filter fun F => ofs.any (·.1 == F.1)) ++ fieldsTs r tn al := by
      simp only [SelSem.selectionSet, picked_fieldsTs h tn ofs un hwu]
      apply mergeFields_disjoint
      · intro F hF G hG hGF
        obtain ⟨f, hf, hfn⟩ := mem_fieldsTs_key hF
        obtain ⟨g, hg, hgn⟩ := mem_fieldsTs_key (List.mem_filter.1 hG).1
        exact hdisj f hf g hg (by rw [hgn, hfn, hGF])
      · rw [fieldsTs_keys]; exact hnd
    have hun := den_fields h tn (fun k => ofs.any (·.1 == k)) un
    have hal := den_fields h tn (fun _ => true) al
    simp only [branchTs, DenBranch]
    rw [mem_hook_iff hhook, mem_obj_iff, hmerge]
    constructor
    · rintro ⟨kvs, rfl, hrec⟩
      rw [recordP_append] at hrec
      obtain ⟨ha, hb, hk⟩ := hrec
      refine ⟨ofs, hofs, kvs, rfl, (hun kvs hwu).1 ?_, (hal kvs hwa).1 ?_, ?_⟩
      · intro F hF hkeep; exact ha F (List.mem_filter.2 ⟨hF, hkeep⟩)
      · intro F hF _; exact hb F hF
      · intro kv hkv
        rcases hk kv hkv with h0 | ⟨F, hF, hFk⟩ | ⟨F, hF, hFk⟩
        · exact Or.inl h0
        · obtain ⟨hF1, hF2⟩ := List.mem_filter.1 hF
          obtain ⟨f, hf, hfn⟩ := mem_fieldsTs_key hF1
          exact Or.inr (Or.inl ⟨f, hf, by rw [hfn]; exact hF2, by rw [hfn, hFk]⟩)
        · obtain ⟨f, hf, hfn⟩ := mem_fieldsTs_key hF
          exact Or.inr (Or.inr ⟨f, hf, by rw [hfn, hFk]⟩)
    · rintro ⟨ofs', hofs', kvs, rfl, hu, ha, hk⟩
      rw [hofs] at hofs'; cases hofs'
      refine ⟨kvs, rfl, ?_⟩
      rw [recordP_append]
      refine ⟨?_, ?_, ?_⟩
      · intro F hF
        obtain ⟨hF1, hF2⟩ := List.mem_filter.1 hF
        exact (hun kvs hwu).2 hu F hF1 hF2
      · intro F hF; exact (hal kvs hwa).2 ha F hF rfl
      · intro kv hkv
        rcases hk kv hkv with h0 | ⟨f, hf, hdecl, hfk⟩ | ⟨f, hf, hfk⟩
        · exact Or.inl h0
        · obtain ⟨F, hF, hFk⟩ := (exists_fieldsTs_key r tn (fun k => k = f.name) un).2 ⟨f, hf, rfl⟩
          exact Or.inr (Or.inl ⟨F, List.mem_filter.2 ⟨hF, by rw [hFk]; exact hdecl⟩, by rw [hFk, hfk]⟩)
        · obtain ⟨F, hF, hFk⟩ := (exists_fieldsTs_key r tn (fun k => k = f.name) al).2 ⟨f, hf, rfl⟩
          exact Or.inr (Or.inr ⟨F, hF, by rw [hFk, hfk]⟩)
theorem den_fields (h : EnvOk e r orig) : ∀ (parent : Name) (keep : Name → Bool) (fs : List SField)
    (kvs : List (String × J)), WFFields orig fs →
    ((∀ F ∈ fieldsTs r parent fs, keep F.1 = true → FieldClause (Mem e) kvs F) ↔ DenFields e r orig parent keep fs kvs)
  | _, _, [], _, _ => by simp [fieldsTs, DenFields]
  | p, keep, f :: fs, kvs, hw => by
    simp only [WFFields] at hw
    simp only [fieldsTs, DenFields, List.forall_mem_cons, fieldTs_key]
    rw [den_field h p f kvs hw.1, den_fields h p keep fs kvs hw.2]
theorem den_field (h : EnvOk e r orig) : ∀ (parent : Name) (f : SField) (kvs : List (String × J)), WFField orig f →
    (FieldClause (Mem e) kvs (fieldTs r parent f) ↔ DenField e r orig parent f (J.get kvs f.name))
  | p, .empty n, kvs, _ => by
    simp only [fieldTs, FieldClause, DenField, SField.name, mem_never_iff, true_and, imp_false, Classical.not_not]
  | p, .leaf n ty b, kvs, _ => by
    cases b
    · simp only [fieldTs, FieldClause, DenField, SField.name, Bool.false_eq_true, false_and, not_false_eq_true,
        forall_const, ↓reduceIte]
      exact (leafTs_den r.out h.notUnion ty).1 _
    · simp only [fieldTs, FieldClause, DenField, SField.name, Bool.false_eq_true, false_and, not_false_eq_true,
        forall_const, ↓reduceIte, mem_strLit_iff]
  | p, .object n sel, kvs, hw => by
    simp only [WFField] at hw
    simp only [fieldTs, FieldClause, DenField, SField.name, Bool.false_eq_true, false_and, not_false_eq_true,
      forall_const]
    exact den_tree h sel false _ hw
end
end

/-! ### binding time: `globalise` commutes with the translation -/

/-- the references of `r` resolved against the declaration table (what `globalise` makes of them) -/
def Refs.close (d : Decls) (r : Refs) : Refs :=
  { out := fun n => globalise d [] [] (r.out n), selSet := globalise d [] [] r.selSet }

theorem globaliseList_append (d : Decls) : ∀ (a b : List Ty),
    globaliseList d [] [] (a ++ b) = globaliseList d [] [] a ++ globaliseList d [] [] b
  | [], b => by simp [globaliseList]
  | t :: a, b => by simp [globaliseList, globaliseList_append d a b]

theorem globalise_orNull (d : Decls) (t : Ty) : globalise d [] [] (orNull t) = orNull (globalise d [] [] t) := by
  cases t with
  | union ts => simp [orNull, globalise, globaliseList_append, globaliseList]
  | ref n =>
    simp only [orNull, globalise, globaliseList, List.contains_nil, Bool.false_eq_true, ↓reduceIte]
    cases d.resolveRef [] n <;> rfl
  | qref p =>
    simp only [orNull, globalise, globaliseList, List.contains_nil, Bool.false_eq_true, ↓reduceIte]
    cases p with
    | nil => rfl
    | cons n tl => simp only []; cases d.resolveQ [] (n :: tl) <;> rfl
  | _ => simp [orNull, globalise, globaliseList]

theorem globalise_tsUnion (d : Decls) : ∀ (ts : List Ty),
    globalise d [] [] (tsUnion ts) = tsUnion (globaliseList d [] [] ts)
  | [] => by simp [tsUnion, globalise, globaliseList]
  | [t] => by simp [tsUnion, globaliseList]
  | t1 :: t2 :: r => by simp [tsUnion, globalise, globaliseList]

theorem globalise_leafTs (d : Decls) (q : Name → Ty) (ty : GType) :
    globalise d [] [] (leafTs q ty) = leafTs (fun n => globalise d [] [] (q n)) ty ∧
    globalise d [] [] (leafCore q ty) = leafCore (fun n => globalise d [] [] (q n)) ty := by
  induction ty with
  | named n p => exact ⟨by simp only [leafTs, globalise_orNull], by simp only [leafCore]⟩
  | list t p ih =>
    exact ⟨by simp only [leafTs, globalise_orNull, globalise, ih.1], by simp only [leafCore, globalise, ih.1]⟩
  | nonNull t ih => exact ⟨by simp only [leafTs, ih.2], by simp only [leafCore, ih.2]⟩

mutual
theorem glob_tree (d : Decls) (r : Refs) : ∀ (t : SelTree) (nn : Bool),
    globalise d [] [] (treeTs r t nn) = treeTs (r.close d) t nn
  | .nonNull t, _ => by simp only [treeTs]; exact glob_tree d r t true
  | .list t, nn => by
    cases nn
    · simp only [treeTs, Bool.false_eq_true, ↓reduceIte, globalise_orNull, globalise, glob_tree d r t false]
    · simp only [treeTs, ↓reduceIte, globalise, glob_tree d r t false]
  | .object bs, nn => by
    cases nn
    · simp only [treeTs, Bool.false_eq_true, ↓reduceIte, globalise_orNull, globalise_tsUnion, glob_branches d r bs]
    · simp only [treeTs, ↓reduceIte, globalise_tsUnion, glob_branches d r bs]
theorem glob_branches (d : Decls) (r : Refs) : ∀ (bs : List Branch),
    globaliseList d [] [] (branchesTs r bs) = branchesTs (r.close d) bs
  | [] => by simp [branchesTs, globaliseList]
  | b :: bs => by simp only [branchesTs, globaliseList, glob_branch d r b, glob_branches d r bs]
theorem glob_branch (d : Decls) (r : Refs) : ∀ (b : Branch),
    globalise d [] [] (branchTs r b) = branchTs (r.close d) b
  | .mk tn vs un al => by
    simp only [branchTs, globalise, globaliseList, glob_fields d r tn un, glob_fields d r tn al, Refs.close]
theorem glob_fields (d : Decls) (r : Refs) : ∀ (p : Name) (fs : List SField),
    globaliseFields d [] [] (fieldsTs r p fs) = fieldsTs (r.close d) p fs
  | _, [] => by simp [fieldsTs, globaliseFields]
  | p, f :: fs => by
    cases f with
    | empty n => simp only [fieldsTs, fieldTs, globaliseFields, globalise, glob_fields d r p fs]
    | leaf n ty b =>
      cases b
      · simp only [fieldsTs, fieldTs, globaliseFields, Bool.false_eq_true, ↓reduceIte, (globalise_leafTs d r.out ty).1,
          glob_fields d r p fs, Refs.close]
      · simp only [fieldsTs, fieldTs, globaliseFields, ↓reduceIte, globalise, glob_fields d r p fs]
    | object n sel => simp only [fieldsTs, fieldTs, globaliseFields, glob_tree d r sel false, glob_fields d r p fs]
end

/-! ### the environment hypotheses hold for the real hook -/

theorem globalise_qref_shape (d : Decls) (p : List String) :
    (∀ ts, globalise d [] [] (.qref p) ≠ .union ts) ∧ SelSem.isNever (globalise d [] [] (.qref p)) = false := by
  simp only [globalise, List.contains_nil, Bool.false_eq_true, ↓reduceIte]
  cases p with
  | nil => exact ⟨fun ts h => (by cases h), rfl⟩
  | cons n tl =>
    simp only []
    cases d.resolveQ [] (n :: tl) with
    | none => exact ⟨fun ts h => (by cases h), rfl⟩
    | some x => exact ⟨fun ts h => (by cases h), rfl⟩

/-- For an environment whose hook is `SelSem.hook`: if the reference to `__SelectionSet` resolves to a declaration that
    carries the prelude text, the hypotheses of the denotation lemma hold with `keyof Orig` read off the declarations. -/
theorem envOk_of_hook (d : Decls) (r : Refs) (path : List String) (hsel : r.selSet = .other "abs" path)
    (hp : SelSem.isSelectionSet d path = true) (hu : ∀ n ts, r.out n ≠ .union ts)
    (hn : ∀ n, SelSem.isNever (r.out n) = false) :
    EnvOk { decls := d, appHook := SelSem.hook } r (fun tn => SelSem.origFields d 8 (r.out tn)) where
  hook := by intro tn o oth; simp [SelSem.hook, hsel, hp]
  notUnion := hu
  notNever := hn

namespace W
/-- the tree of `{ x  y @skip(if:$v) }` on `A`: two branches -/
def witnessTree : SelTree :=
  .object [
    .mk "A" [("v", false)] [.leaf "x" (.named "Int" {}) false, .leaf "y" (.named "String" {}) false] [],
    .mk "A" [("v", true)] [.leaf "x" (.named "Int" {}) false, .empty "y"] []]

end W

/-! ### the model's CollectFields tests agree with the specification's -/

/-- the specification's test for one directive -/
def headOk (σ : Exec.Sigma) (d : Directive) : Bool :=
  if d.name == "skip" then Exec.dirIf σ d != some true
  else if d.name == "include" then Exec.dirIf σ d != some false
  else true

theorem included_cons (σ : Exec.Sigma) (d : Directive) (ds : List Directive) :
    Exec.included σ (d :: ds) = (headOk σ d && Exec.included σ ds) := by
  simp [Exec.included, headOk]

/-- one step of `check_skip_directive` against the specification's test of the first directive -/
theorem checkSkip_step (vars : List (Name × Bool)) (d : Directive) (ds : List Directive) (b : Bool)
    (h : checkSkip vars (d :: ds) = .ok b) :
    (headOk (Exec.sigmaOf vars) d = false ∧ b = true) ∨
    (headOk (Exec.sigmaOf vars) d = true ∧ checkSkip vars ds = .ok b) := by
  generalize hrest : checkSkip vars ds = rest at h
  unfold checkSkip at h
  rw [hrest] at h
  simp only [ifArg] at h
  by_cases hs : (d.name == "skip") = true
  · simp only [headOk, hs, ↓reduceIte, Exec.dirIf] at h ⊢
    cases hf : d.args.find? (·.1 == "if") with
    | none => simp [hf] at h
    | some a =>
      obtain ⟨an, ap, av⟩ := a
      simp only [hf, Option.map_some] at h ⊢
      cases av with
      | var v p =>
        simp only [Exec.sigmaOf] at h ⊢
        cases hv : vars.find? (·.1 == v) with
        | none => simp [hv] at h
        | some x =>
          obtain ⟨xn, xb⟩ := x
          simp only [hv] at h ⊢
          cases xb
          · simp only [Bool.false_eq_true, ↓reduceIte] at h; exact Or.inr ⟨rfl, h⟩
          · simp only [↓reduceIte] at h; cases h; exact Or.inl ⟨rfl, rfl⟩
      | bool bv p =>
        cases bv
        · simp only [Bool.false_eq_true, ↓reduceIte] at h; exact Or.inr ⟨rfl, h⟩
        · simp only [↓reduceIte] at h; cases h; exact Or.inl ⟨rfl, rfl⟩
      | _ => exact Or.inr ⟨rfl, h⟩
  · have hs' : (d.name == "skip") = false := by simpa using hs
    by_cases hi : (d.name == "include") = true
    · simp only [headOk, hs', Bool.false_eq_true, hi, ↓reduceIte, Exec.dirIf] at h ⊢
      cases hf : d.args.find? (·.1 == "if") with
      | none => simp [hf] at h
      | some a =>
        obtain ⟨an, ap, av⟩ := a
        simp only [hf, Option.map_some] at h ⊢
        cases av with
        | var v p =>
          simp only [Exec.sigmaOf] at h ⊢
          cases hv : vars.find? (·.1 == v) with
          | none => simp [hv] at h
          | some x =>
            obtain ⟨xn, xb⟩ := x
            simp only [hv] at h ⊢
            cases xb
            · simp only [Bool.not_false, ↓reduceIte] at h; cases h; exact Or.inl ⟨rfl, rfl⟩
            · simp only [Bool.not_true, Bool.false_eq_true, ↓reduceIte] at h; exact Or.inr ⟨rfl, h⟩
        | bool bv p =>
          cases bv
          · simp only [Bool.not_false, ↓reduceIte] at h; cases h; exact Or.inl ⟨rfl, rfl⟩
          · simp only [Bool.not_true, Bool.false_eq_true, ↓reduceIte] at h; exact Or.inr ⟨rfl, h⟩
        | _ => exact Or.inr ⟨rfl, h⟩
    · have hi' : (d.name == "include") = false := by simpa using hi
      simp only [headOk, hs', hi', Bool.false_eq_true, ↓reduceIte] at h ⊢
      exact Or.inr ⟨trivial, h⟩

/-- `check_skip_directive` under a branch's assignment = the specification's `@skip`/`@include` test under the
    assignment read as σ (whenever the code does not panic) -/
theorem checkSkip_spec (vars : List (Name × Bool)) : ∀ (ds : List Directive) (b : Bool),
    checkSkip vars ds = .ok b → b = !Exec.included (Exec.sigmaOf vars) ds
  | [], b, h => by simp only [checkSkip] at h; cases h; rfl
  | d :: ds, b, h => by
    rw [included_cons]
    rcases checkSkip_step vars d ds b h with ⟨h1, rfl⟩ | ⟨h1, h2⟩
    · simp [h1]
    · simp [h1, checkSkip_spec vars ds b h2]

/-- `check_fragment_condition` = the specification's DoesFragmentTypeApply, for an object definition that is the
    schema's definition of its own name -/
theorem fragmentApplies_spec (S : Schema) (obj : TypeDef) (cond : Name) (b : Bool)
    (hobj : S.typeDef? obj.name = some obj) (h : fragmentApplies S obj cond = .ok b) :
    b = Exec.fragmentTypeApplies S obj.name cond := by
  unfold fragmentApplies at h
  unfold Exec.fragmentTypeApplies
  cases hc : S.typeDef? cond with
  | none => simp [hc] at h
  | some c =>
    simp only [hc] at h ⊢
    cases hk : c.kind <;> simp only [hk] at h ⊢ <;> cases h
    all_goals first
      | rfl
      | (simp only [hobj, typeDef?_name hc]; done)
      | (simp only [typeDef?_name hc]; rw [Bool.eq_iff_iff]; simp only [beq_iff_eq]; exact ⟨Eq.symm, Eq.symm⟩)

end NitroVerif.OpTypes
