/-
Schema definitions and schema extensions as items of a type-system document (helper lemmas for Props/C07Doc):
`Description? schema Directives? { roots }` and `extend schema Directives? { roots }` / `extend schema Directives`.
-/
import NitroVerif.Lemmas.ParseDocTsItem
namespace NitroVerif.DocParse
open NitroVerif.Peg NitroVerif.Gen NitroVerif.Gen.Parts NitroVerif.Build NitroVerif.TypeParse NitroVerif.StringParse
open NitroVerif.Gql NitroVerif.ValueParse NitroVerif.Spec.Lex NitroVerif.ParseText

set_option linter.unusedSimpArgs false

theorem look_SchemaDefinition' : gList.look R.SchemaDefinition = some (.normal, .seq (.opt (.call R.Description))
    (.seq (.call R.KEYWORD_schema) (.seq (.opt (.call R.Directives)) (.call R.RootOperationTypeDefinitions)))) := rfl

variable {inp : List Char}

/-- the round-trip statement for one item -/
def TsItemOk (inp : List Char) (p : Nat) (t : List Char) (it : TsItem) : Prop :=
  ∃ pr, RunsK (B t.length + 130) (.call R.TypeSystemDefinitionOrExtension) (At inp p) (At inp (p + t.length)) [pr] ∧
    PairOk R.TypeSystemDefinitionOrExtension p pr ∧
    ∀ fuel, t.length ≤ fuel → buildTypeSystemDefinitionOrExtension (Ctx.spec inp) fuel pr = .ok it

theorem buildItem_schemaDef (ctx : Ctx) (fuel : Nat) (p e e2 e3 : Nat) (cs : List Pair) (sd : SchemaDef)
    (h : buildSchemaDefinition ctx fuel (.mk R.SchemaDefinition p e cs) = .ok sd) :
    buildTypeSystemDefinitionOrExtension ctx fuel (.mk R.TypeSystemDefinitionOrExtension p e3
      [.mk R.TypeSystemDefinition p e2 [.mk R.SchemaDefinition p e cs]]) = .ok (.schemaDef sd) := by
  simp [buildTypeSystemDefinitionOrExtension, onlyChildOf, onlyChild, Pair.children, Pair.rule,
    OC_TypeSystemDefinitionOrExtension, OC_TypeSystemDefinition, h, bind, Except.bind, pure, Except.pure,
    R.TypeSystemDefinition, R.SchemaDefinition]

/-! ### schema definition -/

def rSchemaDef (τ : Trivia) (sep : Bool) (p : Nat) (s : SchemaDef) : List Char :=
  let tS := rOptDesc τ p s.desc
  let tK := tk τ false (p + tS.length) kwSchema
  let tD := rDirs τ false (p + tS.length + tK.length) s.dirs
  tS ++ (tK ++ (tD ++ rRoots τ sep (p + tS.length + tK.length + tD.length) s.roots))

def wpSchemaDef (τ : Trivia) (inp : List Char) (_sep : Bool) (p : Nat) (s : SchemaDef) : SchemaDef :=
  let tS := rOptDesc τ p s.desc
  let tK := tk τ false (p + tS.length) kwSchema
  let tD := rDirs τ false (p + tS.length + tK.length) s.dirs
  { desc := s.desc, dirs := wpDirs τ inp false (p + tS.length + tK.length) s.dirs,
    roots := wpRoots τ inp (p + tS.length + tK.length + tD.length +
      (tk τ false (p + tS.length + tK.length + tD.length) ['{']).length) s.roots,
    pos := posAt inp p }

/-- well-formed schema definitions: at least one root operation type, valid names -/
def WFSchemaDef (s : SchemaDef) : Prop := WFDirs s.dirs ∧ s.roots ≠ [] ∧ ∀ x ∈ s.roots, validName x.2.1.toList

theorem p_schemaDef_nodup : (P_SchemaDefinition.map itemRule).Nodup := by decide

theorem hd_rSchemaDef (τ : Trivia) (sep : Bool) (p : Nat) (s : SchemaDef) :
    Hd (fun d => nameStart d ∨ d = '"') (rSchemaDef τ sep p s) := by
  simp only [rSchemaDef]
  cases s.desc with
  | none =>
    simp only [rOptDesc, List.nil_append, List.length_nil, Nat.add_zero]
    exact Hd.append (hd_tk (P := fun d => nameStart d ∨ d = '"')
      ((hd_of_validName kw_words_valid.2.1).mono (fun _ h => Or.inl h))) _
  | some s =>
    simp only [rOptDesc]
    exact Hd.append (hd_tk (P := fun d => nameStart d ∨ d = '"') ⟨'"', _, rfl, Or.inr rfl⟩) _

theorem schemaDefT (τ : Trivia) (hτ : ∀ q, Ws (τ q)) (s : SchemaDef) (hwf : WFSchemaDef s) {sep : Bool} {p : Nat}
    (h : HasAt inp p (rSchemaDef τ sep p s)) (hn : Nxt inp tdBad sep (p + (rSchemaDef τ sep p s).length)) :
    TsItemOk inp p (rSchemaDef τ sep p s) (.schemaDef (wpSchemaDef τ inp sep p s)) := by
  obtain ⟨hdirs, hrne, hrv⟩ := hwf
  unfold TsItemOk
  simp only [rSchemaDef, wpSchemaDef] at h hn ⊢
  generalize hS : rOptDesc τ p s.desc = tS at *
  generalize hK : tk τ false (p + tS.length) kwSchema = tK at *
  generalize hD : rDirs τ false (p + tS.length + tK.length) s.dirs = tD at *
  cases hrs : s.roots with
  | nil => exact absurd hrs hrne
  | cons a r =>
  rw [hrs] at h hn
  generalize hR : rRoots τ sep (p + tS.length + tK.length + tD.length) (a :: r) = tR at *
  have hlen : p + (tS ++ (tK ++ (tD ++ tR))).length = p + tS.length + tK.length + tD.length + tR.length := by
    simp only [List.length_append]; omega
  rw [hlen] at hn ⊢
  have g0 : HasAt inp p tS := h.left
  have g1 : HasAt inp (p + tS.length) tK := h.right.left
  have g2 : HasAt inp (p + tS.length + tK.length) tD := h.right.right.left
  have g3 : HasAt inp (p + tS.length + tK.length + tD.length) tR := h.right.right.right
  have hdK : Hd nameStart tK := hK ▸ hd_tk (hd_of_validName kw_words_valid.2.1)
  have hdR : Hd (· = '{') tR := hR ▸ hd_rBraced _ _ τ '{' '}' sep _ _
  have n2 : Nxt inp (fun c => c = '@' ∨ c = '(') false (p + tS.length + tK.length + tD.length) := by
    refine Nxt.of_hd g3 hdR ?_
    rintro c rfl
    refine ⟨by decide, ?_, by decide⟩
    rintro (h | h) <;> exact absurd h (by decide)
  have n1 : Nxt inp (fun _ => False) false (p + tS.length + tK.length) :=
    Nxt.rest g2 n2 (hD ▸ hd_rDirs τ false _ s.dirs) (P := (· = '@')) (by rintro c rfl; decide) (fun c hc => hc.elim)
      (fun _ _ => rfl)
  obtain ⟨oS, rS, hokS, hbS⟩ := optDescT hτ s.desc (hS ▸ g0)
    (by rw [hS]; exact tok_of_hd g1 hdK (fun d => nameStart_not_trivia))
    (by rw [hS]; exact headNot_of_hd g1 hdK (fun d hd => (nameStart_not_punct hd).2.2.2.2.2.2.2.2.2.2.2.2.2.2.1))
  rw [hS] at rS
  have rK := kwT hτ look_KEYWORD_schema (hK ▸ g1) (bad := fun _ => False) (by rw [hK]; exact n1)
  rw [hK] at rK
  obtain ⟨oD, rD, hokD, _, hbD⟩ := optDirsT τ hτ s.dirs hdirs (bad := fun c => c = '@' ∨ c = '(') (Or.inr rfl)
    (Or.inl rfl) (hD ▸ g2) (by rw [hD]; exact n2)
  rw [hD] at rD hbD
  obtain ⟨prR, rR, hokR, hbR⟩ := rootsT τ hτ a r (hrs ▸ hrv) (hR ▸ g3) (by rw [hR]; exact hn.tok)
  rw [hR] at rR
  obtain ⟨e, rSD⟩ := runsK_rule look_SchemaDefinition' (by decide) (by decide)
    (runsK_seq rS (runsK_seq rK.toK (runsK_seq rD rR)))
  obtain ⟨e2, rTSD⟩ := runsK_rule look_TypeSystemDefinition (by decide) (by decide)
    (runsK_choice_l (b := .choice (.call R.TypeDefinition) (.call R.DirectiveDefinition)) rSD)
  obtain ⟨e3, rI⟩ := runsK_rule look_TSDOE (by decide) (by decide)
    (runsK_choice_l (b := .call R.TypeSystemExtension) rTSD)
  have hlK : 1 ≤ tK.length := hdK.length_pos
  refine ⟨_, rI.mono (by barith), ?_, ?_⟩
  · refine pairOk_mk (by decide) (by decide) ⟨cleanP_of (by decide) (by decide) ⟨cleanP_of (by decide) (by decide) ?_,
      trivial⟩, trivial⟩
    simp only [cleanL_append, cleanL_cons, cleanL_nil, and_true]
    exact ⟨clean_opt (fun x hx => (hokS x hx).2), cleanP_of (by decide) (by decide) trivial,
      clean_opt (fun x hx => (hokD x hx).clean), hokR.clean⟩
  · intro fuel hf
    have hf' : tS.length + (tK.length + (tD.length + tR.length)) ≤ fuel := by simpa using hf
    have hch : oS.toList ++ ([Pair.mk R.KEYWORD_schema (p + tS.length) (p + tS.length + kwSchema.length) []] ++
          (oD.toList ++ [prR])) =
        slotPairs [oS, some (Pair.mk R.KEYWORD_schema (p + tS.length) (p + tS.length + kwSchema.length) []), oD,
          some prR] := by simp [slotPairs]
    have hm := matchParts_slots P_SchemaDefinition _ p_schemaDef_nodup
      (show slotsOk P_SchemaDefinition [oS, some (Pair.mk R.KEYWORD_schema (p + tS.length)
          (p + tS.length + kwSchema.length) []), oD, some prR] from
        ⟨fun x hx => (hokS x hx).1, ⟨_, rfl, rfl⟩, fun x hx => (hokD x hx).rule, ⟨_, rfl, hokR.rule⟩, trivial⟩)
    refine buildItem_schemaDef _ _ _ _ _ _ _ _ ?_
    rw [hch]
    simp only [show kwSchema.length = 6 from rfl] at hm
    simp [buildSchemaDefinition, Pair.children, hm, hbS, hbD fuel (by omega), hbR, toPos_spec', Pair.start, At, bind,
      Except.bind]

end NitroVerif.DocParse
