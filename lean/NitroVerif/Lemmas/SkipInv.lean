/-
`skip_exact` (helper lemmas for Props/C07): the implicit skip `WHITESPACE* (COMMENT WHITESPACE*)*` consumes a run
of trivia matches and stops only where neither WHITESPACE nor COMMENT matches any more.
-/
import NitroVerif.Lemmas.PegInv
namespace NitroVerif.Peg

variable (g : G)

/-- refined inversion of `e*` (no skip calls): when the loop stops, the body FAILED there -/
theorem eval_star_nosk_ok' {fuel a at_ la tr c tr' c' ps}
    (h : eval g (fuel + 1) false (.star a) at_ la tr c = (tr', .ok c' ps)) :
    (∃ tr1 c1 p1 p2, eval g fuel false a at_ la tr c = (tr1, .ok c1 p1) ∧
        eval g fuel false (.star a) at_ la tr1 c1 = (tr', .ok c' p2) ∧ ps = p1 ++ p2) ∨
    (eval g fuel false a at_ la tr c = (tr', .fail) ∧ c' = c ∧ ps = []) := by
  simp only [eval, Bool.false_eq_true, if_false] at h
  rcases h1 : eval g fuel false a at_ la tr c with ⟨tr1, o1⟩
  rw [h1] at h
  cases o1 with
  | ok c1 p1 =>
    dsimp only at h
    rcases h2 : eval g fuel false (.star a) at_ la tr1 c1 with ⟨tr2, o2⟩
    rw [h2] at h
    cases o2 with
    | ok c2 p2 =>
      simp only [Prod.mk.injEq, Out.ok.injEq] at h
      obtain ⟨rfl, rfl, rfl⟩ := h
      exact Or.inl ⟨_, _, _, _, rfl, h2, rfl⟩
    | fail => simp at h
    | oof => simp at h
  | fail =>
    simp only [Prod.mk.injEq, Out.ok.injEq] at h
    obtain ⟨rfl, rfl, rfl⟩ := h
    exact Or.inr ⟨rfl, rfl, rfl⟩
  | oof => simp at h

/-- `e*` never fails -/
theorem eval_star_nosk_ne_fail (a : Expr) (at_ : Atomicity) (la : Look) :
    ∀ fuel tr c tr', eval g fuel false (.star a) at_ la tr c ≠ (tr', .fail) := by
  intro fuel
  induction fuel with
  | zero => intro tr c tr' h; simp [eval_zero] at h
  | succ fuel ih =>
    intro tr c tr' h
    simp only [eval, Bool.false_eq_true, if_false] at h
    rcases h1 : eval g fuel false a at_ la tr c with ⟨tr1, o1⟩
    rw [h1] at h
    cases o1 with
    | ok c1 p1 =>
      dsimp only at h
      rcases h2 : eval g fuel false (.star a) at_ la tr1 c1 with ⟨tr2, o2⟩
      rw [h2] at h
      cases o2 with
      | ok c2 p2 => simp at h
      | fail => exact ih _ _ _ h2
      | oof => simp at h
    | fail => simp at h
    | oof => simp at h

theorem doSkip_nosk (fuel at_ la tr c) : doSkip g (fuel + 1) false at_ la tr c = (tr, .ok c []) := by
  simp [doSkip]

/-- a failing sequence (generated without skip calls): which item failed, and where -/
theorem eval_seq_nosk_fail {fuel a b at_ la tr c tr'}
    (h : eval g (fuel + 1) false (.seq a b) at_ la tr c = (tr', .fail)) :
    eval g fuel false a at_ la tr c = (tr', .fail) ∨
    ∃ tr1 c1 p1, eval g fuel false a at_ la tr c = (tr1, .ok c1 p1) ∧
      (fuel = 0 ∨ eval g fuel false b at_ la tr1 c1 = (tr', .fail)) := by
  simp only [eval] at h
  rcases h1 : eval g fuel false a at_ la tr c with ⟨tr1, o1⟩
  rw [h1] at h
  cases o1 with
  | ok c1 p1 =>
    dsimp only at h
    cases fuel with
    | zero => exact Or.inr ⟨_, _, _, rfl, Or.inl rfl⟩
    | succ fuel =>
      rw [doSkip_nosk] at h
      dsimp only at h
      rcases h3 : eval g (fuel + 1) false b at_ la tr1 c1 with ⟨tr3, o3⟩
      rw [h3] at h
      cases o3 with
      | ok c3 p3 => simp at h
      | fail =>
        simp only [Prod.mk.injEq, and_true] at h
        subst h
        exact Or.inr ⟨_, _, _, rfl, Or.inr h3⟩
      | oof => simp at h
  | fail =>
    simp only [Prod.mk.injEq, and_true] at h
    subst h
    exact Or.inl rfl
  | oof => simp at h

/-- some run of expression `e` (generated without skip calls) fails at cursor `c` -/
def FailsAt (e : Expr) (at_ : Atomicity) (la : Look) (c : Cur) : Prop :=
  ∃ fuel tr tr', eval g fuel false e at_ la tr c = (tr', .fail)

/-- `c'` is reached from `c` by successful runs of `e` -/
inductive Reach (e : Expr) (at_ : Atomicity) (la : Look) : Cur → Cur → Prop where
  | refl (c : Cur) : Reach e at_ la c c
  | step {c d c' : Cur} {fuel : Nat} {tr tr' : Tr} {ps : List Pair} :
      eval g fuel false e at_ la tr c = (tr', .ok d ps) → Reach e at_ la d c' → Reach e at_ la c c'

/-- where `e*` stops, `e` fails; and it got there by successful runs of `e` -/
theorem star_nosk_end (a : Expr) (at_ : Atomicity) (la : Look) :
    ∀ fuel tr c tr' c' ps, eval g fuel false (.star a) at_ la tr c = (tr', .ok c' ps) →
      FailsAt g a at_ la c' ∧ Reach g a at_ la c c' := by
  intro fuel
  induction fuel with
  | zero => intro tr c tr' c' ps h; simp [eval_zero] at h
  | succ fuel ih =>
    intro tr c tr' c' ps h
    rcases eval_star_nosk_ok' g h with ⟨tr1, c1, p1, p2, h1, h2, _⟩ | ⟨h1, rfl, _⟩
    · obtain ⟨hf, hr⟩ := ih _ _ _ _ _ h2
      exact ⟨hf, .step h1 hr⟩
    · exact ⟨⟨fuel, tr, tr', h1⟩, .refl _⟩

/-- the cursor moved from `c` to `c'` by matches of the two trivia rules only -/
inductive TriviaRun (w m : RuleId) (at_ : Atomicity) (la : Look) : Cur → Cur → Prop where
  | refl (c : Cur) : TriviaRun w m at_ la c c
  | ws {c d c' : Cur} {fuel : Nat} {tr tr' : Tr} {ps : List Pair} :
      eval g fuel false (.call w) at_ la tr c = (tr', .ok d ps) → TriviaRun w m at_ la d c' → TriviaRun w m at_ la c c'
  | cm {c d c' : Cur} {fuel : Nat} {tr tr' : Tr} {ps : List Pair} :
      eval g fuel false (.call m) at_ la tr c = (tr', .ok d ps) → TriviaRun w m at_ la d c' → TriviaRun w m at_ la c c'

theorem TriviaRun.trans {w m at_ la} {c d e : Cur} (h1 : TriviaRun g w m at_ la c d) (h2 : TriviaRun g w m at_ la d e) :
    TriviaRun g w m at_ la c e := by
  induction h1 with
  | refl => exact h2
  | ws h _ ih => exact .ws h (ih h2)
  | cm h _ ih => exact .cm h (ih h2)

theorem reach_ws_trivia {w m at_ la} {c c' : Cur} (h : Reach g (.call w) at_ la c c') : TriviaRun g w m at_ la c c' := by
  induction h with
  | refl => exact .refl _
  | step h _ ih => exact .ws h ih

/-- one iteration `COMMENT WHITESPACE*` of the second loop -/
theorem comment_iter {w m at_ la fuel tr c tr' d ps}
    (h : eval g fuel false (.seq (.call m) (.star (.call w))) at_ la tr c = (tr', .ok d ps)) :
    FailsAt g (.call w) at_ la d ∧ TriviaRun g w m at_ la c d := by
  cases fuel with
  | zero => simp [eval_zero] at h
  | succ fuel =>
    obtain ⟨tr1, c1, p1, tr2, c2, p2, p3, h1, h2, h3, _⟩ := eval_seq_ok g h
    cases fuel with
    | zero => simp [doSkip_zero] at h2
    | succ fuel =>
      rw [doSkip_nosk] at h2
      simp only [Prod.mk.injEq, Out.ok.injEq] at h2
      obtain ⟨rfl, rfl, rfl⟩ := h2
      obtain ⟨hf, hr⟩ := star_nosk_end g _ _ _ _ _ _ _ _ _ h3
      exact ⟨hf, .cm h1 (reach_ws_trivia g hr)⟩

theorem comment_loop {w m at_ la} {c c' : Cur}
    (hr : Reach g (.seq (.call m) (.star (.call w))) at_ la c c') (hw : FailsAt g (.call w) at_ la c) :
    FailsAt g (.call w) at_ la c' ∧ TriviaRun g w m at_ la c c' := by
  induction hr with
  | refl => exact ⟨hw, .refl _⟩
  | step h _ ih =>
    obtain ⟨hf, ht⟩ := comment_iter g h
    obtain ⟨hf', ht'⟩ := ih hf
    exact ⟨hf', ht.trans g ht'⟩

/-- a failing `COMMENT WHITESPACE*` means COMMENT failed (the loop after it cannot fail) -/
theorem comment_iter_fail {w m at_ la c}
    (h : FailsAt g (.seq (.call m) (.star (.call w))) at_ la c) : FailsAt g (.call m) at_ la c := by
  obtain ⟨fuel, tr, tr', h⟩ := h
  cases fuel with
  | zero => simp [eval_zero] at h
  | succ fuel =>
    rcases eval_seq_nosk_fail g h with h1 | ⟨tr1, c1, p1, h1, h0 | h2⟩
    · exact ⟨fuel, tr, tr', h1⟩
    · subst h0; simp [eval_zero] at h1
    · exact absurd h2 (eval_star_nosk_ne_fail g _ _ _ _ _ _ _)

/-- `skip_exact` on the level of the skip expression -/
theorem skipExpr_exact {w m at_ la fuel tr c tr' c' ps}
    (h : eval g fuel false (.seq (.star (.call w)) (.star (.seq (.call m) (.star (.call w))))) at_ la tr c
      = (tr', .ok c' ps)) :
    TriviaRun g w m at_ la c c' ∧ FailsAt g (.call w) at_ la c' ∧ FailsAt g (.call m) at_ la c' := by
  cases fuel with
  | zero => simp [eval_zero] at h
  | succ fuel =>
    obtain ⟨tr1, c1, p1, tr2, c2, p2, p3, h1, h2, h3, _⟩ := eval_seq_ok g h
    cases fuel with
    | zero => simp [doSkip_zero] at h2
    | succ fuel =>
      rw [doSkip_nosk] at h2
      simp only [Prod.mk.injEq, Out.ok.injEq] at h2
      obtain ⟨rfl, rfl, rfl⟩ := h2
      obtain ⟨hw1, hr1⟩ := star_nosk_end g _ _ _ _ _ _ _ _ _ h1
      obtain ⟨hx, hr2⟩ := star_nosk_end g _ _ _ _ _ _ _ _ _ h3
      obtain ⟨hw2, ht2⟩ := comment_loop g hr2 hw1
      exact ⟨(reach_ws_trivia g hr1).trans g ht2, hw2, comment_iter_fail g hx⟩

end NitroVerif.Peg
